(* ActionExact2.v — C04, the central statement beyond the classical fragment: for EVERY table of the extended
   fragment (ActionSpec2.ta_table: seq sor star star_partial plus opt partial at not_at until rep rep_opt rep_min_max
   if_then_else strict star_strict disable enable action<> control<> must raise if_must try_catch_return_false over
   the char atoms) and every plain configuration (void or bool apply / apply0 attached to ANY control-enabled node,
   non-throwing, verdict a function of the byte span; no match-level action, no raising failure hook):
     - an invocation that returns true: its surviving action invocations (ActionSpec.survivors: transactional
       truncation of the log) are exactly, in order, the action list of THE derivation of the reference semantics
       ActionSpec2.PegT, with the exact byte span of every match, and it consumed what the derivation consumes;
     - an invocation that returns false: the reference fails, and nothing it invoked survives;
     - an invocation left by an exception: the reference raises, the exception is a parse_error raised by
       must<> / raise<>, and nothing it invoked survives.
   Every apply mode, rewind mode, action family, control family, initial position, fuel. *)
From Coq Require Import Lia.
From PegtlV Require Import Base Decode Grammar Engine EngineFacts AtomFacts Mono Spec Denote ExactSound RaiseSpec RaiseSound
  ActionSpec ActionFacts ActionExact ActionSpec2.
Local Open Scope N_scope.

Ltac dres x := destruct x as [[| |?e] ?c ?evs| |].

Definition att_of (C : cfg) (f : nat) (r : rid) : skind := skind_of (acts C f r).
Definition pexn (e : exn) : Prop := exists w p, e = EParse w p.
Definition RelT (S : list sact) (l : list tact) : Prop := map sact_bytes S = l.
Lemma RelT_nil : RelT [] []. Proof. reflexivity. Qed.
Lemma RelT_app S1 l1 S2 l2 : RelT S1 l1 -> RelT S2 l2 -> RelT (S1 ++ S2) (l1 ++ l2).
Proof. unfold RelT. intros H1 H2. rewrite map_app, H1, H2. reflexivity. Qed.

(* ---------- the shape of a conclusion ---------- *)
(* head level: a failing / raising result may still carry segments (dropped by the enclosing invocation) *)
Definition cw (R : tres -> Prop) (c' : cursor) (o : outcome) (evs : list event) : Prop :=
  match o with
  | Ok => exists l S, R (TOk (rest c') (pb c') l) /\ Contrib evs S /\ RelT S l
  | Fail => R TFail /\ exists S, Contrib evs S
  | Exc e => R TRaise /\ pexn e /\ exists S, Contrib evs S
  end.
(* invocation level *)
Definition ca (R : tres -> Prop) (c' : cursor) (o : outcome) (evs : list event) : Prop :=
  match o with
  | Ok => exists l S, R (TOk (rest c') (pb c') l) /\ Contrib evs S /\ RelT S l
  | Fail => R TFail /\ Contrib evs []
  | Exc e => R TRaise /\ pexn e /\ Contrib evs []
  end.

Lemma ca_cw R c' o evs : ca R c' o evs -> cw R c' o evs.
Proof.
  destruct o as [| |e]; simpl; auto.
  - intros [H1 H2]. split; [exact H1 | exists []; exact H2].
  - intros [H1 [H2 H3]]. split; [exact H1 | split; [exact H2 | exists []; exact H3]].
Qed.
Lemma cw_mono (R R' : tres -> Prop) c' o evs : (forall x, R x -> R' x) -> cw R c' o evs -> cw R' c' o evs.
Proof.
  intros H. destruct o as [| |e]; simpl.
  - intros [l [S [P K]]]. exists l, S. split; [apply H; exact P | exact K].
  - intros [P K]. split; [apply H; exact P | exact K].
  - intros [P K]. split; [apply H; exact P | exact K].
Qed.
Lemma cw_cur R c1 c' o evs : cw R c1 o evs -> (o = Ok -> c1 = c') -> cw R c' o evs.
Proof. intros K E. destruct o as [| |e]; simpl in *; auto. rewrite <- (E eq_refl). exact K. Qed.
(* an Ok segment in front *)
Lemma cw_cat (R R' : tres -> Prop) c' o e1 e2 l1 S1 : Contrib e1 S1 -> RelT S1 l1 ->
  (forall x, R x -> R' (tcat l1 x)) -> cw R c' o e2 -> cw R' c' o (e1 ++ e2).
Proof.
  intros C1 R1 H. destruct o as [| |e]; simpl.
  - intros [l2 [S2 [P [C2 R2]]]]. exists (l1 ++ l2), (S1 ++ S2).
    split; [exact (H _ P) | split; [apply Contrib_app; assumption | apply RelT_app; assumption]].
  - intros [P [S2 C2]]. split; [exact (H _ P) | exists (S1 ++ S2); apply Contrib_app; assumption].
  - intros [P [Pe [S2 C2]]]. split; [exact (H _ P) | split; [exact Pe | exists (S1 ++ S2); apply Contrib_app; assumption]].
Qed.
(* a segment that contributes nothing in front *)
Lemma cw_pre (R R' : tres -> Prop) c' o e1 e2 : Contrib e1 [] ->
  (forall x, R x -> R' x) -> cw R c' o e2 -> cw R' c' o (e1 ++ e2).
Proof.
  intros C1 H. apply (cw_cat R R' c' o e1 e2 [] [] C1 RelT_nil). intros x Hx. rewrite tcat_nil. apply H. exact Hx.
Qed.
(* a failing / raising invocation decides *)
Lemma cw_nok (R R' : tres -> Prop) c1 c' o evs : o <> Ok -> ca R c1 o evs ->
  (forall x, nok x -> R x -> R' x) -> cw R' c' o evs.
Proof.
  intros Ho K H. destruct o as [| |e]; [congruence | |]; simpl in *.
  - destruct K as [P Cn]. split; [apply H; [exact I | exact P] | exists []; exact Cn].
  - destruct K as [P [Pe Cn]]. split; [apply H; [exact I | exact P] | split; [exact Pe | exists []; exact Cn]].
Qed.
Lemma cw_nokw (R R' : tres -> Prop) c1 c' o evs : o <> Ok -> cw R c1 o evs ->
  (forall x, nok x -> R x -> R' x) -> cw R' c' o evs.
Proof.
  intros Ho K H. destruct o as [| |e]; [congruence | |]; simpl in *.
  - destruct K as [P Cn]. split; [apply H; [exact I | exact P] | exact Cn].
  - destruct K as [P Cn]. split; [apply H; [exact I | exact P] | exact Cn].
Qed.
Lemma cw_drop (R : tres -> Prop) c' o e1 e2 : o <> Ok -> (exists S1, Contrib e1 S1) -> cw R c' o e2 -> cw R c' o (e1 ++ e2).
Proof.
  intros Ho [S1 C1] K. destruct o as [| |e]; [congruence | |]; simpl in *.
  - destruct K as [P [S2 C2]]. split; [exact P | exists (S1 ++ S2); apply Contrib_app; assumption].
  - destruct K as [P [Pe [S2 C2]]]. split; [exact P | split; [exact Pe | exists (S1 ++ S2); apply Contrib_app; assumption]].
Qed.
Lemma cw_contrib R c' o evs : cw R c' o evs -> exists S, Contrib evs S.
Proof.
  destruct o as [| |e]; simpl.
  - intros [l [S [_ [Cn _]]]]. exists S; exact Cn.
  - intros [_ K]; exact K.
  - intros [_ [_ K]]; exact K.
Qed.
Lemma ca_contrib_nok R c' o evs : o <> Ok -> ca R c' o evs -> Contrib evs [].
Proof. destruct o as [| |e]; simpl; [congruence | intros _ [_ K]; exact K | intros _ [_ [_ K]]; exact K]. Qed.

Lemma prepend_inv evs x o c' e : prepend evs x = Res o c' e -> exists e2, x = Res o c' e2 /\ e = evs ++ e2.
Proof. destruct x as [o0 c0 e0| |]; simpl; intros H; inversion H; subst. eexists; split; reflexivity. Qed.

(* ---------- atoms ---------- *)
Lemma atom_den_catom h a : atom_den h a -> catom h = true.
Proof.
  intros [_ H]. unfold den_node in H. cbn [nhead nsubs] in H.
  destruct h; try discriminate H; try reflexivity; try (destruct pk; try discriminate H; try reflexivity; fail);
  destruct found; destruct pk; try discriminate H; reflexivity.
Qed.
Lemma catom_some eol h c : catom h = true -> exists x, eval_atom eol h c = Some x.
Proof.
  intros H. destruct h; try discriminate H; cbn [eval_atom]; try (eexists; reflexivity);
  destruct pk; try discriminate H; eexists; reflexivity.
Qed.
Lemma atom_den_wf h a : atom_den h a -> head_wf h.
Proof.
  intros [_ H]. unfold den_node in H. cbn [nhead nsubs] in H.
  destruct h; try exact I; try discriminate H; try (destruct pk; try discriminate H; exact I);
  destruct found; destruct pk; try discriminate H; exact I.
Qed.
Lemma ta_table_wf G att : ta_table G att -> table_wf G.
Proof.
  intros H r nd Hn. pose proof (H r nd Hn) as [_ K].
  destruct (nhead nd) eqn:Eh; try exact I; try contradiction;
  destruct K as [_ [a Ha]]; exact (atom_den_wf _ _ Ha).
Qed.

Lemma atom_soundT G att vt C ev n self h a A fam d c o c1 evs1 : atom_den h a -> bytes_ok (rest c) ->
  eval_head C ev n self h [] d c = Res o c1 evs1 ->
  cw (TBody G att vt A fam h [] (rest c) (pb c)) c1 o evs1.
Proof.
  intros Ha Hb Hh.
  destruct (atom_sound C ev n self h a d c _ Ha Hb Hh) as [v [Hv Hp]].
  pose proof (atom_den_catom _ _ Ha) as Hcat.
  destruct (catom_some (ceol C) h c Hcat) as [x Ex].
  unfold eval_head in Hh. rewrite Ex in Hh. subst x.
  pose proof (eval_atom_noev C _ _ _ Ex) as Hn. simpl in Hn. subst evs1.
  pose proof (B_atom G att vt A fam h a (rest c) (pb c) v Ha Hp) as K.
  destruct o as [| |e]; simpl in Hv; inversion Hv; subst v; simpl.
  - exists [], []. split; [|split; [apply Contrib_nil | apply RelT_nil]].
    pose proof (catom_PB _ _ _ _ _ Hcat Ex) as Hpb. unfold ActionExact.PB in Hpb.
    unfold tatom, adv_off in K. unfold pb in *. rewrite Hpb. exact K.
  - split; [exact K | exists []; apply Contrib_nil].
Qed.

(* ---------- match.hpp for plain, non-throwing actions: the log in every case ---------- *)
Section Inv2.
Variable C : cfg.
Hypothesis Habeh : forall f r b e, exists x, abeh C f r b e = ARet x.
Hypothesis Hrof : forall k r, raise_on_failure C k r = false.

Lemma match_hpp_inv2 ak body d r c o c' evs : match_hpp C ak body d r c = Res o c' evs ->
  exists d' o1 c1 evs1, (d' = d \/ d' = opt_ d) /\ body d' c = Res o1 c1 evs1 /\
    match o1 with
    | Ok => if vetoedb C d ak r (cpos c) (cpos c1)
            then o = Fail /\ evs = (EHook HkStart (dCtl d) r (cpos c) :: evs1 ++ action_events d ak r (cpos c) (cpos c1)) ++ [EHook HkFailure (dCtl d) r (cpos c1)]
            else o = Ok /\ c' = c1 /\ evs = EHook HkStart (dCtl d) r (cpos c) :: evs1 ++ action_events d ak r (cpos c) (cpos c1) ++ [EHook HkSuccess (dCtl d) r (cpos c1)]
    | Fail => o = Fail /\ evs = (EHook HkStart (dCtl d) r (cpos c) :: evs1) ++ [EHook HkFailure (dCtl d) r (cpos c1)]
    | Exc e => o = Exc e /\ exists post, evs = (EHook HkStart (dCtl d) r (cpos c) :: evs1) ++ post /\ Contrib post []
    end.
Proof.
  unfold match_hpp. set (d' := if use_guard d ak then opt_ d else d).
  assert (Hd : d' = d \/ d' = opt_ d) by (unfold d'; destruct (use_guard d ak); auto).
  destruct (body d' c) as [[| |e] c1 evs1| |] eqn:Eb; try discriminate.
  - pose proof (run_action_evs C d ak r (cpos c) (cpos c1)) as Hea.
    assert (Hres : fst (run_action C d ak r (cpos c) (cpos c1)) = ARet (negb (vetoedb C d ak r (cpos c) (cpos c1)))).
    { unfold run_action, vetoedb. destruct (dA d); [|reflexivity]. cbn [andb].
      destruct ak as [|isb|isb|m]; try reflexivity;
      destruct (Habeh (dAct d) r (cpos c) (cpos c1)) as [x Hx]; rewrite Hx; destruct isb, x; reflexivity. }
    destruct (run_action C d ak r (cpos c) (cpos c1)) as [ar ea]. simpl in Hea, Hres. subst ea ar.
    intros H. exists d', Ok, c1, evs1. split; [exact Hd|]. split; [exact Eb|].
    destruct (vetoedb C d ak r (cpos c) (cpos c1)); cbn [negb] in H.
    + unfold fail_hook in H. rewrite Hrof in H. inversion H; subst. auto.
    + inversion H; subst. auto.
  - unfold fail_hook. rewrite Hrof. intros H. inversion H; subst. exists d', Fail, c1, evs1. auto.
  - intros H. inversion H; subst. exists d', (Exc e), c1, evs1. split; [exact Hd|]. split; [exact Eb|]. split; [reflexivity|].
    eexists. split; [reflexivity|]. destruct (has_unwind C (dCtl d)); [apply Contrib_hook | apply Contrib_nil].
Qed.
End Inv2.

Lemma Contrib_raise k w p : Contrib [ERaise k w p] [].
Proof. intros stk cur tl. rewrite app_nil_r. reflexivity. Qed.
Lemma pexn_catches f e : pexn e -> catches f e = catches_parse f.
Proof. intros [w [p ->]]. destruct f; reflexivity. Qed.
Lemma bind_ext x k1 k2 : (forall c, k1 c = k2 c) -> bind x k1 = bind x k2.
Proof. intros H. destruct x as [[| |e] c evs| |]; simpl; try reflexivity. rewrite H. reflexivity. Qed.
Lemma rep_loop_seq ev k d r : forall c, rep_loop ev k d r c = seq_all ev d (repeat r k) c.
Proof. induction k as [|k IHk]; intros c; simpl; [reflexivity|]. apply bind_ext. exact IHk. Qed.
Lemma bump1_inv ch c c2 : bump_scan ch 1 c = Some c2 -> exists b, rest c = b :: rest c2 /\ pb c2 = pb c + 1.
Proof.
  intros H. pose proof (bump_scan_drop _ _ _ _ H) as Hd. destruct (ActionExact.bump_scan_PB _ _ _ _ H) as [Hp _].
  unfold ActionExact.PB in Hp. unfold pb. destruct (rest c) as [|b tl] eqn:E; [discriminate Hd|].
  simpl in Hd. inversion Hd as [Hd']. exists b. split; [reflexivity|]. rewrite Hp. rewrite <- Hd'. simpl length. f_equal. lia.
Qed.
Lemma in_empty_nil c : in_empty c = true -> rest c = [].
Proof. unfold in_empty. destruct (rest c); [reflexivity | discriminate]. Qed.
Lemma Forall_lt_repeat (n : nat) (r : rid) k : (r < n)%nat -> Forall (fun r1 => (r1 < n)%nat) (repeat r k).
Proof. intros H. induction k; simpl; constructor; auto. Qed.

Section Sound.
Variable G : grammar.
Variable C : cfg.
Variable vt : nat -> rid -> N -> N -> bool.
Hypothesis Hacts : forall f r, plain_ak (acts C f r).
Hypothesis Hvt : forall f r b e, abeh C f r b e = ARet (negb (vt f r (pbyte b) (pbyte e))).
Hypothesis Hrof : forall k r, raise_on_failure C k r = false.
Hypothesis Hen : forall f r nd, acts C f r <> AKNone -> nth_error G r = Some nd -> nenabled nd = true.
Hypothesis Hta : ta_table G (att_of C).
Hypothesis Hrmm : rmm_stable G (att_of C) vt.

Lemma HG : table_wf G.
Proof. exact (ta_table_wf G (att_of C) Hta). Qed.
Lemma Habeh : forall f r b e, exists x, abeh C f r b e = ARet x.
Proof. intros f r b e. rewrite Hvt. eexists; reflexivity. Qed.

Notation PG := (PegT G (att_of C) vt).
Notation BG := (TBody G (att_of C) vt).
Notation ltG := (fun r1 : rid => (r1 < length G)%nat).

Lemma wrap_veto d r c c1 l1 : vetoedb C d (acts C (dAct d) r) r (cpos c) (cpos c1) = true ->
  twrap (att_of C) vt (dA d) (dAct d) r (pb c) (TOk (rest c1) (pb c1) l1) = TFail.
Proof.
  unfold vetoedb, twrap, att_of, pb. intros H. apply andb_true_iff in H. destruct H as [-> H].
  destruct (acts C (dAct d) r) as [|isb|isb|m]; try discriminate H;
  (destruct isb; [|discriminate H]); rewrite Hvt in H; cbn [skind_of andb];
  destruct (vt (dAct d) r (pbyte (cpos c)) (pbyte (cpos c1))); [reflexivity | discriminate H | reflexivity | discriminate H].
Qed.
Lemma wrap_ok d r c c1 l1 : vetoedb C d (acts C (dAct d) r) r (cpos c) (cpos c1) = false ->
  twrap (att_of C) vt (dA d) (dAct d) r (pb c) (TOk (rest c1) (pb c1) l1) =
  TOk (rest c1) (pb c1) (l1 ++ map sact_bytes (own (dA d) (acts C (dAct d) r) r (cpos c) (cpos c1))).
Proof.
  unfold vetoedb, twrap, att_of, own, pb. intros H. destruct (dA d); [|simpl; rewrite app_nil_r; reflexivity].
  cbn [andb] in H. pose proof (Hacts (dAct d) r) as Hp.
  destruct (acts C (dAct d) r) as [|isb|isb|m]; cbn [skind_of]; [simpl; rewrite app_nil_r; reflexivity | | | contradiction];
  (destruct isb; [rewrite Hvt in H; destruct (vt (dAct d) r (pbyte (cpos c)) (pbyte (cpos c1))); [discriminate H | reflexivity] | reflexivity]).
Qed.

Lemma ca_traced R c' o evs0 k r a m p : cw R c' o evs0 ->
  ca R c' o (EEnter k r a m p :: evs0 ++ [EExit k r (okind o) (cpos c')]).
Proof.
  destruct o as [| |e]; simpl.
  - intros [l [S [P [Cn Rl]]]]. exists l, S. split; [exact P | split; [|exact Rl]]. exact (Contrib_traced _ _ _ _ _ (Some true) _ _ _ Cn).
  - intros [P [S Cn]]. split; [exact P|]. exact (Contrib_traced _ _ _ _ _ (Some false) _ _ _ Cn).
  - intros [P [Pe [S Cn]]]. split; [exact P | split; [exact Pe|]]. exact (Contrib_traced _ _ _ _ _ None _ _ _ Cn).
Qed.

Section Step.
Variable f : nat.
Hypothesis IH : forall d r c o c' evs, (r < length G)%nat -> bytes_ok (rest c) ->
  eval G C f d r c = Res o c' evs -> ca (PG (dA d) (dAct d) r (rest c) (pb c)) c' o evs.
Notation EV := (eval G C f).

Lemma EV_good : forall d r c, good AtomFacts.PT (dM d) c (EV d r c).
Proof. intros d r c. exact (eval_goodT G C f d r c HG). Qed.
Lemma adv_bytes c c' : adv AtomFacts.PT c c' -> bytes_ok (rest c) -> bytes_ok (rest c').
Proof. intros [pre [E _]] Hb. rewrite E in Hb. eapply bytes_ok_app_r; eauto. Qed.
Lemma seq_bytes d rs c o c' evs : seq_all EV d rs c = Res o c' evs -> bytes_ok (rest c) -> bytes_ok (rest c').
Proof.
  intros H Hb. pose proof (seq_all_good AtomFacts.PT PT_refl PT_trans EV EV_good d rs c) as K. rewrite H in K.
  destruct o as [| |e]; simpl in K; eapply adv_bytes; eauto.
Qed.
Lemma ev_bytes' d r c o c' evs : EV d r c = Res o c' evs -> o <> Fail -> bytes_ok (rest c) -> bytes_ok (rest c').
Proof. intros H Ho Hb. eapply (ev_bytes G C HG); eauto. Qed.

(* ----- seq_all in any mode ----- *)
Lemma seq_soundT rs : forall d c o c' evs, Forall ltG rs -> bytes_ok (rest c) ->
  seq_all EV d rs c = Res o c' evs -> cw (TSeq G (att_of C) vt (dA d) (dAct d) rs (rest c) (pb c)) c' o evs.
Proof.
  induction rs as [|r rs IHrs]; intros d c o c' evs Hcl Hb H.
  - simpl in H. inversion H; subst. simpl. exists [], []. split; [apply Ts_nil | split; [apply Contrib_nil | apply RelT_nil]].
  - inversion Hcl as [|? ? Hl Hls]; subst. rewrite seq_all_cons in H. unfold bind in H.
    destruct (EV d r c) as [[| |ex] c1 vs1| |] eqn:E; try discriminate H.
    + pose proof (IH _ _ _ _ _ _ Hl Hb E) as K1. simpl in K1. destruct K1 as [l1 [S1 [P1 [C1 R1]]]].
      apply prepend_inv in H. destruct H as [e2 [E2 ->]].
      assert (Hb1 : bytes_ok (rest c1)) by (eapply ev_bytes'; eauto; discriminate).
      pose proof (IHrs _ _ _ _ _ Hls Hb1 E2) as K2.
      eapply cw_cat; [exact C1 | exact R1 | | exact K2].
      intros x Hx. eapply Ts_ok; eauto.
    + inversion H; subst. eapply cw_nok; [discriminate | exact (IH _ _ _ _ _ _ Hl Hb E) |].
      intros x Hn Hx. apply Ts_nok; assumption.
    + inversion H; subst. eapply cw_nok; [discriminate | exact (IH _ _ _ _ _ _ Hl Hb E) |].
      intros x Hn Hx. apply Ts_nok; assumption.
Qed.

(* ----- seq_all in required mode read as a partial sequence ----- *)
Lemma par_soundT rs : forall d c o c' evs, Forall ltG rs -> bytes_ok (rest c) ->
  seq_all EV (req d) rs c = Res o c' evs ->
  match o with
  | Ok => exists l S, TPar G (att_of C) vt (dA d) (dAct d) rs (rest c) (pb c) true (TOk (rest c') (pb c') l) /\ Contrib evs S /\ RelT S l
  | Fail => exists l S, TPar G (att_of C) vt (dA d) (dAct d) rs (rest c) (pb c) false (TOk (rest c') (pb c') l) /\ Contrib evs S /\ RelT S l
  | Exc e => TPar G (att_of C) vt (dA d) (dAct d) rs (rest c) (pb c) false TRaise /\ pexn e /\ exists S, Contrib evs S
  end.
Proof.
  induction rs as [|r rs IHrs]; intros d c o c' evs Hcl Hb H.
  - simpl in H. inversion H; subst. exists [], []. split; [apply Tp_nil | split; [apply Contrib_nil | apply RelT_nil]].
  - inversion Hcl as [|? ? Hl Hls]; subst. rewrite seq_all_cons in H. unfold bind in H.
    destruct (EV (req d) r c) as [[| |ex] c1 vs1| |] eqn:E; try discriminate H.
    + pose proof (IH _ _ _ _ _ _ Hl Hb E) as K1. simpl in K1. destruct K1 as [l1 [S1 [P1 [C1 R1]]]].
      apply prepend_inv in H. destruct H as [e2 [E2 ->]].
      assert (Hb1 : bytes_ok (rest c1)) by (eapply ev_bytes'; eauto; discriminate).
      pose proof (IHrs _ _ _ _ _ Hls Hb1 E2) as K2.
      destruct o as [| |e].
      * destruct K2 as [l2 [S2 [P2 [C2 R2]]]]. exists (l1 ++ l2), (S1 ++ S2).
        split; [exact (Tp_ok G (att_of C) vt _ _ _ _ _ _ _ _ _ _ _ P1 P2) | split; [apply Contrib_app; assumption | apply RelT_app; assumption]].
      * destruct K2 as [l2 [S2 [P2 [C2 R2]]]]. exists (l1 ++ l2), (S1 ++ S2).
        split; [exact (Tp_ok G (att_of C) vt _ _ _ _ _ _ _ _ _ _ _ P1 P2) | split; [apply Contrib_app; assumption | apply RelT_app; assumption]].
      * destruct K2 as [P2 [Pe [S2 C2]]].
        split; [exact (Tp_ok G (att_of C) vt _ _ _ _ _ _ _ _ _ _ _ P1 P2) | split; [exact Pe | exists (S1 ++ S2); apply Contrib_app; assumption]].
    + inversion H; subst. pose proof (ev_req_fail G C HG _ _ _ _ _ _ E) as Ec. subst c'.
      pose proof (IH _ _ _ _ _ _ Hl Hb E) as K1. simpl in K1. destruct K1 as [P1 C1].
      exists [], []. split; [apply Tp_fail; exact P1 | split; [exact C1 | apply RelT_nil]].
    + inversion H; subst. pose proof (IH _ _ _ _ _ _ Hl Hb E) as K1. simpl in K1. destruct K1 as [P1 [Pe C1]].
      split; [apply Tp_raise; exact P1 | split; [exact Pe | exists []; exact C1]].
Qed.

Lemma star_soundT rs k : forall d c o c' evs, Forall ltG rs -> bytes_ok (rest c) ->
  star_loop EV k d rs c = Res o c' evs ->
  cw (TStar G (att_of C) vt (dA d) (dAct d) rs (rest c) (pb c)) c' o evs /\ o <> Fail.
Proof.
  induction k as [|k IHk]; intros d c o c' evs Hcl Hb H; [discriminate H|].
  cbn [star_loop] in H.
  destruct (seq_all EV (req d) rs c) as [[| |ex] c1 e1| |] eqn:E; try discriminate H.
  - pose proof (par_soundT _ _ _ _ _ _ Hcl Hb E) as K1. simpl in K1. destruct K1 as [l1 [S1 [P1 [C1 R1]]]].
    apply prepend_inv in H. destruct H as [e2 [E2 ->]].
    assert (Hb1 : bytes_ok (rest c1)) by (eapply seq_bytes; eauto).
    destruct (IHk _ _ _ _ _ Hcl Hb1 E2) as [K2 N2]. split; [|exact N2].
    eapply cw_cat; [exact C1 | exact R1 | | exact K2]. intros x Hx. eapply Tt_step; eauto.
  - inversion H; subst. pose proof (par_soundT _ _ _ _ _ _ Hcl Hb E) as K1. simpl in K1. destruct K1 as [l1 [S1 [P1 [C1 R1]]]].
    split; [|discriminate]. simpl. exists l1, S1. split; [apply Tt_stop; exact P1 | auto].
  - inversion H; subst. pose proof (par_soundT _ _ _ _ _ _ Hcl Hb E) as K1. simpl in K1. destruct K1 as [P1 [Pe Cn]].
    split; [|discriminate]. simpl. split; [apply Tt_stop; exact P1 | auto].
Qed.


Lemma until1_soundT k : forall d cnd c o c' evs, (cnd < length G)%nat -> bytes_ok (rest c) ->
  until1_loop C EV k d cnd c = Res o c' evs ->
  cw (TUntil1 G (att_of C) vt (dA d) (dAct d) cnd (rest c) (pb c)) c' o evs.
Proof.
  induction k as [|k IHk]; intros d cnd c o c' evs Hl Hb H; [discriminate H|].
  cbn [until1_loop] in H.
  destruct (EV (req d) cnd c) as [[| |ex] c1 e1| |] eqn:E; try discriminate H.
  - inversion H; subst. pose proof (IH _ _ _ _ _ _ Hl Hb E) as K1. simpl in K1 |- *.
    destruct K1 as [l1 [S1 [P1 K1]]]. exists l1, S1. split; [apply Tu1_stop; [exact P1 | discriminate] | exact K1].
  - pose proof (ev_req_fail G C HG _ _ _ _ _ _ E) as Ec. subst c1.
    pose proof (IH _ _ _ _ _ _ Hl Hb E) as K1. simpl in K1. destruct K1 as [P1 C1].
    destruct (in_empty c) eqn:Ee.
    + inversion H; subst. simpl. pose proof (in_empty_nil _ Ee) as Er. rewrite Er in *.
      split; [apply Tu1_eof; exact P1 | exists []; exact C1].
    + destruct (bump_scan (eol_ch (ceol C)) 1 c) as [c2|] eqn:Eb; [|discriminate H].
      apply prepend_inv in H. destruct H as [e2 [E2 ->]].
      destruct (bump1_inv _ _ _ Eb) as [b [Er Ep]].
      assert (Hb2 : bytes_ok (rest c2)) by (rewrite Er in Hb; inversion Hb; assumption).
      pose proof (IHk _ _ _ _ _ _ Hl Hb2 E2) as K2.
      eapply cw_pre; [exact C1 | | exact K2].
      intros x Hx. rewrite Er. apply Tu1_skip; [rewrite <- Er; exact P1 | rewrite <- Ep; exact Hx].
  - inversion H; subst. pose proof (IH _ _ _ _ _ _ Hl Hb E) as K1. simpl in K1 |- *.
    destruct K1 as [P1 [Pe C1]]. split; [apply Tu1_stop; [exact P1 | discriminate] | split; [exact Pe | exists []; exact C1]].
Qed.

Lemma until2_soundT k : forall d cnd r1 c o c' evs, (cnd < length G)%nat -> (r1 < length G)%nat -> bytes_ok (rest c) ->
  until2_loop EV k d cnd r1 c = Res o c' evs ->
  cw (TUntil2 G (att_of C) vt (dA d) (dAct d) cnd r1 (rest c) (pb c)) c' o evs.
Proof.
  induction k as [|k IHk]; intros d cnd r1 c o c' evs Hl Hl1 Hb H; [discriminate H|].
  cbn [until2_loop] in H.
  destruct (EV (req d) cnd c) as [[| |ex] c1 e1| |] eqn:E; try discriminate H.
  - inversion H; subst. pose proof (IH _ _ _ _ _ _ Hl Hb E) as K1. simpl in K1 |- *.
    destruct K1 as [l1 [S1 [P1 K1]]]. exists l1, S1. split; [apply Tu2_stop; [exact P1 | discriminate] | exact K1].
  - pose proof (ev_req_fail G C HG _ _ _ _ _ _ E) as Ec. subst c1.
    pose proof (IH _ _ _ _ _ _ Hl Hb E) as K1. simpl in K1. destruct K1 as [P1 C1].
    destruct (EV (opt_ d) r1 c) as [[| |ex] c2 e2| |] eqn:E1; try discriminate H.
    + apply prepend_inv in H. destruct H as [e3 [E3 ->]].
      pose proof (IH _ _ _ _ _ _ Hl1 Hb E1) as K2. simpl in K2. destruct K2 as [l2 [S2 [P2 [C2 R2]]]].
      assert (Hb2 : bytes_ok (rest c2)) by (eapply ev_bytes'; eauto; discriminate).
      pose proof (IHk _ _ _ _ _ _ _ Hl Hl1 Hb2 E3) as K3.
      rewrite <- app_assoc. eapply cw_pre; [exact C1 | intros x Hx; exact Hx |].
      eapply cw_cat; [exact C2 | exact R2 | | exact K3].
      intros x Hx. eapply Tu2_step; eauto.
    + simpl in H. inversion H; subst. eapply cw_pre; [exact C1 | intros x Hx; exact Hx |].
      eapply cw_nok; [discriminate | exact (IH _ _ _ _ _ _ Hl1 Hb E1) |]. intros x Hn Hx. apply Tu2_nok; assumption.
    + simpl in H. inversion H; subst. eapply cw_pre; [exact C1 | intros x Hx; exact Hx |].
      eapply cw_nok; [discriminate | exact (IH _ _ _ _ _ _ Hl1 Hb E1) |]. intros x Hn Hx. apply Tu2_nok; assumption.
  - inversion H; subst. pose proof (IH _ _ _ _ _ _ Hl Hb E) as K1. simpl in K1 |- *.
    destruct K1 as [P1 [Pe C1]]. split; [apply Tu2_stop; [exact P1 | discriminate] | split; [exact Pe | exists []; exact C1]].
Qed.

Lemma repopt_soundT k : forall d r1 c x b o c' evs, (r1 < length G)%nat -> bytes_ok (rest c) ->
  repopt_loop EV k d r1 c = (x, b) -> x = Res o c' evs ->
  o <> Fail /\ cw (TRepOpt G (att_of C) vt (dA d) (dAct d) k r1 (rest c) (pb c)) c' o evs /\
  (o <> Fail -> bytes_ok (rest c')) /\
  (o = Ok -> b = false -> PG (dA d) (dAct d) r1 (rest c') (pb c') TFail).
Proof.
  induction k as [|k IHk]; intros d r1 c x b o c' evs Hl Hb H Hx.
  - simpl in H. injection H as Ex Eb; subst x b. inversion Hx; subst. split; [discriminate|]. split; [|split; [auto | discriminate]].
    simpl. exists [], []. split; [apply Tr_zero | split; [apply Contrib_nil | apply RelT_nil]].
  - cbn [repopt_loop] in H.
    destruct (EV (req d) r1 c) as [[| |ex] c1 e1| |] eqn:E.
    + destruct (repopt_loop EV k d r1 c1) as [x2 b2] eqn:E2. injection H as Ex Eb; subst x b.
      apply prepend_inv in Hx. destruct Hx as [e2 [Hx2 ->]].
      pose proof (IH _ _ _ _ _ _ Hl Hb E) as K1. simpl in K1. destruct K1 as [l1 [S1 [P1 [C1 R1]]]].
      assert (Hb1 : bytes_ok (rest c1)) by (eapply ev_bytes'; eauto; discriminate).
      destruct (IHk _ _ _ _ _ _ _ _ Hl Hb1 E2 Hx2) as [N2 [K2 [B2 F2]]].
      split; [exact N2|]. split; [|split; [exact B2 | exact F2]].
      eapply cw_cat; [exact C1 | exact R1 | | exact K2]. intros y Hy. eapply Tr_step; eauto.
    + injection H as Ex Eb; subst x b. inversion Hx; subst.
      pose proof (ev_req_fail G C HG _ _ _ _ _ _ E) as Ec. subst c'.
      pose proof (IH _ _ _ _ _ _ Hl Hb E) as K1. simpl in K1. destruct K1 as [P1 C1].
      split; [discriminate|]. split; [|split; [auto | intros _ _; exact P1]].
      simpl. exists [], []. split; [apply Tr_fail; exact P1 | split; [exact C1 | apply RelT_nil]].
    + injection H as Ex Eb; subst x b. inversion Hx; subst.
      pose proof (IH _ _ _ _ _ _ Hl Hb E) as K1. simpl in K1. destruct K1 as [P1 [Pe C1]].
      split; [discriminate|]. split; [|split; [intros _; eapply ev_bytes'; eauto; discriminate | discriminate]].
      simpl. split; [apply Tr_raise; exact P1 | split; [exact Pe | exists []; exact C1]].
    + injection H as Ex Eb; subst x b. discriminate Hx.
    + injection H as Ex Eb; subst x b. discriminate Hx.
Qed.

Lemma rmm_soundT mn mx d (r1 : rid) c o c' evs : (r1 < length G)%nat -> rmm_sub G r1 -> bytes_ok (rest c) ->
  h_rep_min_max EV mn mx d r1 c = Res o c' evs ->
  cw (BG (dA d) (dAct d) (HRepMinMax mn mx) [r1] (rest c) (pb c)) c' o evs.
Proof.
  intros Hl Hsub Hb H. unfold h_rep_min_max in H. apply guard_inv in H. destruct H as [c0 [H Hc0]].
  eapply cw_cur; [|exact Hc0]. clear Hc0. unfold bind in H. rewrite rep_loop_seq in H.
  destruct (seq_all EV (opt_ d) (repeat r1 mn) c) as [[| |ex] c1 e1| |] eqn:E; try discriminate H.
  - pose proof (seq_soundT _ _ _ _ _ _ (Forall_lt_repeat _ _ mn Hl) Hb E) as K1. simpl in K1.
    destruct K1 as [l1 [S1 [P1 [C1 R1]]]].
    assert (Hb1 : bytes_ok (rest c1)) by (eapply seq_bytes; eauto).
    apply prepend_inv in H. destruct H as [e2 [H ->]].
    destruct (repopt_loop EV (mx - mn) d r1 c1) as [x2 b2] eqn:E2.
    destruct x2 as [o2 c2 v2| |].
    2:{ destruct b2; discriminate H. }
    2:{ destruct b2; discriminate H. }
    destruct (repopt_soundT _ _ _ _ _ _ _ _ _ Hl Hb1 E2 eq_refl) as [N2 [K2 [B2 F2]]].
    destruct o2 as [| |ex]; [|congruence|].
    + simpl in K2. destruct K2 as [l2 [S2 [P2 [C2 R2]]]]. specialize (B2 N2).
      destruct b2.
      * (* the loop ran to completion: not_at< R > *)
        apply prepend_inv in H. destruct H as [e3 [H ->]]. unfold h_at in H. apply look_invA in H.
        destruct H as [o3 [c3 [E3 [-> Ho]]]].
        pose proof (IH _ _ _ _ _ _ Hl B2 E3) as K3. cbn [dA dAct set_A opt_] in K3.
        assert (Bk : forall y, PG false (dAct d) r1 (rest c2) (pb c2) y ->
                  BG (dA d) (dAct d) (HRepMinMax mn mx) [r1] (rest c) (pb c)
                     (match y with TOk _ _ _ => TFail | TFail => TOk (rest c2) (pb c2) (l1 ++ l2) | TRaise => TRaise end)).
        { intros y Hy. exact (B_rmm G (att_of C) vt (dA d) (dAct d) mn mx r1 _ _ _ _ _ _ _ _ y P1 P2 Hy). }
        destruct o3 as [| |ex]; subst o; simpl in K3 |- *.
        -- destruct K3 as [l3 [S3 [P3 [C3 R3]]]]. split; [exact (Bk _ P3)|].
           eexists. apply Contrib_app; [exact C1 | apply Contrib_app; [exact C2 | exact C3]].
        -- destruct K3 as [P3 C3]. exists (l1 ++ l2), (S1 ++ S2 ++ []). split; [exact (Bk _ P3)|].
           split; [apply Contrib_app; [exact C1 | apply Contrib_app; [exact C2 | exact C3]]|].
           rewrite app_nil_r. apply RelT_app; assumption.
        -- destruct K3 as [P3 [Pe C3]]. split; [exact (Bk _ P3)|]. split; [exact Pe|].
           eexists. apply Contrib_app; [exact C1 | apply Contrib_app; [exact C2 | exact C3]].
      * (* stopped early: R has just failed here *)
        inversion H; subst. specialize (F2 eq_refl eq_refl).
        assert (P3 : PG false (dAct d) r1 (rest c0) (pb c0) TFail).
        { destruct (dA d) eqn:EA; [apply Hrmm; assumption | exact F2]. }
        simpl. exists (l1 ++ l2), (S1 ++ S2).
        split; [exact (B_rmm G (att_of C) vt (dA d) (dAct d) mn mx r1 _ _ _ _ _ _ _ _ _ P1 P2 P3)|].
        split; [apply Contrib_app; assumption | apply RelT_app; assumption].
    + assert (H' : Res (Exc ex) c2 v2 = Res o c0 e2) by (destruct b2; exact H). inversion H'; subst.
      simpl in K2 |- *. destruct K2 as [P2 [Pe [S2 C2]]].
      split; [exact (B_rmm_nok2 G (att_of C) vt _ _ mn mx r1 _ _ _ _ _ _ P1 P2 I)|]. split; [exact Pe|].
      eexists. apply Contrib_app; [exact C1 | exact C2].
  - inversion H; subst. pose proof (seq_soundT _ _ _ _ _ _ (Forall_lt_repeat _ _ mn Hl) Hb E) as K1.
    eapply cw_nokw; [discriminate | exact K1 |]. intros x Hn Hx. apply B_rmm_nok1; assumption.
  - inversion H; subst. pose proof (seq_soundT _ _ _ _ _ _ (Forall_lt_repeat _ _ mn Hl) Hb E) as K1.
    eapply cw_nokw; [discriminate | exact K1 |]. intros x Hn Hx. apply B_rmm_nok1; assumption.
Qed.


Lemma sor_soundT rs : forall d c o c' evs, Forall ltG rs -> bytes_ok (rest c) ->
  sor_any EV d rs c = Res o c' evs -> cw (TSor G (att_of C) vt (dA d) (dAct d) rs (rest c) (pb c)) c' o evs.
Proof.
  induction rs as [|r rs IHrs]; intros d c o c' evs Hcl Hb H.
  - simpl in H. inversion H; subst. simpl. split; [apply To_nil | exists []; apply Contrib_nil].
  - inversion Hcl as [|? ? Hl Hls]; subst. destruct rs as [|r2 rs'].
    + simpl in H. pose proof (IH _ _ _ _ _ _ Hl Hb H) as K1. destruct o as [| |ex]; simpl in K1 |- *.
      * destruct K1 as [l1 [S1 [P1 K1]]]. exists l1, S1. split; [apply To_stop; [exact P1 | discriminate] | exact K1].
      * destruct K1 as [P1 C1]. split; [apply To_next; [exact P1 | apply To_nil] | exists []; exact C1].
      * destruct K1 as [P1 [Pe C1]]. split; [apply To_stop; [exact P1 | discriminate] | split; [exact Pe | exists []; exact C1]].
    + change (sor_any EV d (r :: r2 :: rs') c) with
        (match EV (req d) r c with Res Fail c1 vs1 => prepend vs1 (sor_any EV d (r2 :: rs') c1) | x => x end) in H.
      destruct (EV (req d) r c) as [[| |ex] c1 vs1| |] eqn:E; try discriminate H.
      * inversion H; subst. pose proof (IH _ _ _ _ _ _ Hl Hb E) as K1. simpl in K1 |- *.
        destruct K1 as [l1 [S1 [P1 K1]]]. exists l1, S1. split; [apply To_stop; [exact P1 | discriminate] | exact K1].
      * pose proof (ev_req_fail G C HG _ _ _ _ _ _ E) as Ec. subst c1.
        apply prepend_inv in H. destruct H as [e2 [E2 ->]].
        pose proof (IH _ _ _ _ _ _ Hl Hb E) as K1. simpl in K1. destruct K1 as [P1 C1].
        pose proof (IHrs _ _ _ _ _ Hls Hb E2) as K2.
        eapply cw_pre; [exact C1 | | exact K2]. intros x Hx. apply To_next; assumption.
      * inversion H; subst. pose proof (IH _ _ _ _ _ _ Hl Hb E) as K1. simpl in K1 |- *.
        destruct K1 as [P1 [Pe C1]]. split; [apply To_stop; [exact P1 | discriminate] | split; [exact Pe | exists []; exact C1]].
Qed.

Lemma hseq_soundT rs d c o c' evs : Forall ltG rs -> bytes_ok (rest c) ->
  h_seq EV d rs c = Res o c' evs -> cw (TSeq G (att_of C) vt (dA d) (dAct d) rs (rest c) (pb c)) c' o evs.
Proof.
  intros Hcl Hb H. unfold h_seq in H.
  assert (Gen : forall rs0, Forall ltG rs0 -> guard (dM d) c (seq_all EV (opt_ d) rs0 c) = Res o c' evs ->
            cw (TSeq G (att_of C) vt (dA d) (dAct d) rs0 (rest c) (pb c)) c' o evs).
  { intros rs0 Hcl0 H0. apply guard_inv in H0. destruct H0 as [c2 [H0 Hc2]].
    eapply cw_cur; [exact (seq_soundT _ (opt_ d) _ _ _ _ Hcl0 Hb H0) | exact Hc2]. }
  destruct rs as [|r1 [|r2 rs']]; [apply Gen; assumption | | apply Gen; assumption].
  inversion Hcl as [|? ? Hl _]; subst. pose proof (IH _ _ _ _ _ _ Hl Hb H) as K1.
  destruct o as [| |ex].
  - simpl in K1 |- *. destruct K1 as [l1 [S1 [P1 K1]]]. exists l1, S1. split; [|exact K1].
    pose proof (Ts_ok G (att_of C) vt _ _ _ [] _ _ _ _ _ _ P1 (Ts_nil G (att_of C) vt _ _ _ _)) as T. rewrite tcat_nil_r in T. exact T.
  - eapply cw_nok; [discriminate | exact K1 |]. intros x Hn Hx. apply Ts_nok; assumption.
  - eapply cw_nok; [discriminate | exact K1 |]. intros x Hn Hx. apply Ts_nok; assumption.
Qed.
Lemma hseq_bytes rs d c o c' evs : h_seq EV d rs c = Res o c' evs -> o = Ok -> bytes_ok (rest c) -> bytes_ok (rest c').
Proof.
  intros H Ho Hb. pose proof (h_seq_good AtomFacts.PT PT_refl PT_trans EV EV_good d rs c) as K. rewrite H in K.
  subst o. simpl in K. eapply adv_bytes; eauto.
Qed.

Lemma sstrict_soundT k : forall d r1 rs c o c' evs, (r1 < length G)%nat -> Forall ltG rs -> bytes_ok (rest c) ->
  star_strict_loop EV k d r1 rs c = Res o c' evs ->
  cw (TSStrict G (att_of C) vt (dA d) (dAct d) r1 rs (rest c) (pb c)) c' o evs.
Proof.
  induction k as [|k IHk]; intros d r1 rs c o c' evs Hl Hcl Hb H; [discriminate H|].
  cbn [star_strict_loop] in H.
  destruct (EV (req d) r1 c) as [[| |ex] c1 e1| |] eqn:E; try discriminate H.
  - pose proof (IH _ _ _ _ _ _ Hl Hb E) as K1. simpl in K1. destruct K1 as [l1 [S1 [P1 [C1 R1]]]].
    assert (Hb1 : bytes_ok (rest c1)) by (eapply ev_bytes'; eauto; discriminate).
    destruct (h_seq EV (opt_ d) rs c1) as [[| |ex] c2 e2| |] eqn:E2; try discriminate H.
    + pose proof (hseq_soundT _ _ _ _ _ _ Hcl Hb1 E2) as K2. simpl in K2. destruct K2 as [l2 [S2 [P2 [C2 R2]]]].
      assert (Hb2 : bytes_ok (rest c2)) by (eapply hseq_bytes; eauto).
      apply prepend_inv in H. destruct H as [e3 [E3 ->]].
      pose proof (IHk _ _ _ _ _ _ _ Hl Hcl Hb2 E3) as K3. rewrite <- app_assoc.
      apply (cw_cat (fun y => TSStrict G (att_of C) vt (dA d) (dAct d) r1 rs (rest c) (pb c) (tcat l1 y)) _ c' o e1 (e2 ++ e3) l1 S1 C1 R1).
      { intros x Hx. exact Hx. }
      eapply cw_cat; [exact C2 | exact R2 | | exact K3].
      intros x Hx. cbn beta. eapply Tss_step; eauto.
    + simpl in H. inversion H; subst. pose proof (hseq_soundT _ _ _ _ _ _ Hcl Hb1 E2) as K2.
      apply cw_drop; [discriminate | exists S1; exact C1 |].
      eapply cw_nokw; [discriminate | exact K2 |]. intros x Hn Hx. eapply Tss_nok; eauto.
    + simpl in H. inversion H; subst. pose proof (hseq_soundT _ _ _ _ _ _ Hcl Hb1 E2) as K2.
      apply cw_drop; [discriminate | exists S1; exact C1 |].
      eapply cw_nokw; [discriminate | exact K2 |]. intros x Hn Hx. eapply Tss_nok; eauto.
  - pose proof (ev_req_fail G C HG _ _ _ _ _ _ E) as Ec. subst c1. inversion H; subst.
    pose proof (IH _ _ _ _ _ _ Hl Hb E) as K1. simpl in K1 |- *. destruct K1 as [P1 C1].
    exists [], []. split; [apply Tss_end; exact P1 | split; [exact C1 | apply RelT_nil]].
  - inversion H; subst. pose proof (IH _ _ _ _ _ _ Hl Hb E) as K1. simpl in K1 |- *. destruct K1 as [P1 [Pe C1]].
    split; [apply Tss_raise; exact P1 | split; [exact Pe | exists []; exact C1]].
Qed.

Lemma at_soundT inv d r1 c o c' evs : (r1 < length G)%nat -> bytes_ok (rest c) ->
  h_at EV inv d r1 c = Res o c' evs ->
  cw (BG (dA d) (dAct d) (if inv then HNotAt else HAt) [r1] (rest c) (pb c)) c' o evs.
Proof.
  intros Hl Hb H. unfold h_at in H. apply look_invA in H. destruct H as [o1 [c2 [E [-> Ho]]]].
  pose proof (IH _ _ _ _ _ _ Hl Hb E) as K1. cbn [dA dAct set_A opt_] in K1.
  destruct inv.
  - assert (Bk := fun x => B_not_at G (att_of C) vt (dA d) (dAct d) r1 (rest c) (pb c) x).
    destruct o1 as [| |ex]; subst o; simpl in K1 |- *.
    + destruct K1 as [l1 [S1 [P1 [C1 R1]]]]. split; [exact (Bk _ P1) | exists S1; exact C1].
    + destruct K1 as [P1 C1]. exists [], []. split; [exact (Bk _ P1) | split; [exact C1 | apply RelT_nil]].
    + destruct K1 as [P1 [Pe C1]]. split; [exact (Bk _ P1) | split; [exact Pe | exists []; exact C1]].
  - assert (Bk := fun x => B_at G (att_of C) vt (dA d) (dAct d) r1 (rest c) (pb c) x).
    destruct o1 as [| |ex]; subst o; simpl in K1 |- *.
    + destruct K1 as [l1 [S1 [P1 [C1 R1]]]]. exists l1, S1. split; [exact (Bk _ P1) | auto].
    + destruct K1 as [P1 C1]. split; [exact (Bk _ P1) | exists []; exact C1].
    + destruct K1 as [P1 [Pe C1]]. split; [exact (Bk _ P1) | split; [exact Pe | exists []; exact C1]].
Qed.


Lemma Forall1 (P : rid -> Prop) a : Forall P [a] -> P a.
Proof. intros H. inversion H; assumption. Qed.

(* a sub-rule evaluated in a modified dyn with the same / another apply mode and family: pass-through heads *)
Lemma pass_soundT (R : tres -> Prop) d' r1 c o c' evs : (r1 < length G)%nat -> bytes_ok (rest c) ->
  EV d' r1 c = Res o c' evs -> (forall x, PG (dA d') (dAct d') r1 (rest c) (pb c) x -> R x) -> cw R c' o evs.
Proof. intros Hl Hb H HR. eapply cw_mono; [exact HR | apply ca_cw; eapply IH; eauto]. Qed.

Lemma head_soundT nd d r c o c1 evs1 : nth_error G r = Some nd -> bytes_ok (rest c) ->
  eval_head C EV f r (nhead nd) (nsubs nd) d c = Res o c1 evs1 ->
  cw (BG (dA d) (dAct d) (nhead nd) (nsubs nd) (rest c) (pb c)) c1 o evs1.
Proof.
  intros Hn Hb Hh. pose proof (Hta r nd Hn) as [Hcl Hk].
  destruct (nhead nd) eqn:Eh;
  try (destruct Hk as [Hs [a Ha]]; rewrite Hs in Hh |- *; exact (atom_soundT G (att_of C) vt C EV f r _ a _ _ d c o c1 evs1 Ha Hb Hh); fail);
  try contradiction; unfold eval_head in Hh; cbn [eval_atom] in Hh.
  - (* seq *) eapply cw_mono; [intros x Hx; apply B_seq; exact Hx | eapply hseq_soundT; eauto].
  - (* sor *) eapply cw_mono; [intros x Hx; apply B_sor; exact Hx | eapply sor_soundT; eauto].
  - (* star_partial *) eapply cw_mono; [intros x Hx; apply B_star; exact Hx|].
    exact (proj1 (star_soundT _ _ _ _ _ _ _ Hcl Hb Hh)).
  - (* plus *) destruct Hk as [r1 Hs]. rewrite Hs in Hh, Hcl |- *. pose proof (Forall1 _ _ Hcl) as Hl.
    unfold h_plus, bind in Hh.
    destruct (EV d r1 c) as [[| |ex] c2 e2| |] eqn:E; try discriminate Hh.
    + apply prepend_inv in Hh. destruct Hh as [e3 [E3 ->]].
      pose proof (IH _ _ _ _ _ _ Hl Hb E) as K1. simpl in K1. destruct K1 as [l1 [S1 [P1 [C1 R1]]]].
      assert (Hb2 : bytes_ok (rest c2)) by (eapply ev_bytes'; eauto; discriminate).
      destruct (star_soundT _ _ _ _ _ _ _ Hcl Hb2 E3) as [K2 _].
      eapply cw_cat; [exact C1 | exact R1 | | exact K2]. intros x Hx. eapply B_plus_ok; eauto.
    + inversion Hh; subst. eapply cw_nok; [discriminate | exact (IH _ _ _ _ _ _ Hl Hb E) |]. intros x Hx Hp. apply B_plus_nok; assumption.
    + inversion Hh; subst. eapply cw_nok; [discriminate | exact (IH _ _ _ _ _ _ Hl Hb E) |]. intros x Hx Hp. apply B_plus_nok; assumption.
  - (* partial *) unfold h_partial in Hh.
    destruct (seq_all EV (req d) (nsubs nd) c) as [[| |ex] c2 e2| |] eqn:E; try discriminate Hh; inversion Hh; subst;
    pose proof (par_soundT _ _ _ _ _ _ Hcl Hb E) as K1; simpl in K1 |- *.
    + destruct K1 as [l1 [S1 [P1 K1]]]. exists l1, S1. split; [eapply B_partial; exact P1 | exact K1].
    + destruct K1 as [l1 [S1 [P1 K1]]]. exists l1, S1. split; [eapply B_partial; exact P1 | exact K1].
    + destruct K1 as [P1 K1]. split; [eapply B_partial; exact P1 | exact K1].
  - (* at *) destruct Hk as [r1 Hs]. rewrite Hs in Hh, Hcl |- *. pose proof (Forall1 _ _ Hcl) as Hl.
    exact (at_soundT false _ _ _ _ _ _ Hl Hb Hh).
  - (* not_at *) destruct Hk as [r1 Hs]. rewrite Hs in Hh, Hcl |- *. pose proof (Forall1 _ _ Hcl) as Hl.
    exact (at_soundT true _ _ _ _ _ _ Hl Hb Hh).
  - (* until< C > *) destruct Hk as [r1 Hs]. rewrite Hs in Hh, Hcl |- *. pose proof (Forall1 _ _ Hcl) as Hl.
    unfold h_until1 in Hh. apply guard_inv in Hh. destruct Hh as [c2 [Hh Hc2]].
    eapply cw_cur; [|exact Hc2]. eapply cw_mono; [intros x Hx; apply B_until1; exact Hx | eapply until1_soundT; eauto].
  - (* until< C, R > *) destruct Hk as [cnd [r1 Hs]]. rewrite Hs in Hh, Hcl |- *.
    inversion Hcl as [|? ? Hl Hcl2]; subst. pose proof (Forall1 _ _ Hcl2) as Hl1.
    unfold h_until2 in Hh. apply guard_inv in Hh. destruct Hh as [c2 [Hh Hc2]].
    eapply cw_cur; [|exact Hc2]. eapply cw_mono; [intros x Hx; apply B_until2; exact Hx | eapply until2_soundT; eauto].
  - (* rep *) destruct Hk as [r1 Hs]. rewrite Hs in Hh, Hcl |- *. pose proof (Forall1 _ _ Hcl) as Hl.
    unfold h_rep in Hh. apply guard_inv in Hh. destruct Hh as [c2 [Hh Hc2]]. rewrite rep_loop_seq in Hh.
    eapply cw_cur; [|exact Hc2]. eapply cw_mono; [intros x Hx; apply B_rep; exact Hx|].
    exact (seq_soundT _ (opt_ d) _ _ _ _ (Forall_lt_repeat _ _ n Hl) Hb Hh).
  - (* rep_min_max *) destruct Hk as [r1 Hs]. rewrite Hs in Hh, Hcl |- *. pose proof (Forall1 _ _ Hcl) as Hl.
    apply rmm_soundT; [exact Hl | exists r, nd, mn, mx; auto | exact Hb | exact Hh].
  - (* rep_opt *) destruct Hk as [r1 Hs]. rewrite Hs in Hh, Hcl |- *. pose proof (Forall1 _ _ Hcl) as Hl.
    unfold h_rep_opt in Hh. destruct (repopt_loop EV mx d r1 c) as [x2 b2] eqn:E2. simpl in Hh.
    destruct (repopt_soundT _ _ _ _ _ _ _ _ _ Hl Hb E2 Hh) as [_ [K _]].
    eapply cw_mono; [intros x Hx; apply B_rep_opt; exact Hx | exact K].
  - (* if_then_else *) destruct Hk as [cnd [t [e Hs]]]. rewrite Hs in Hh, Hcl |- *.
    inversion Hcl as [|? ? Hl Hcl2]; subst. inversion Hcl2 as [|? ? Hlt Hcl3]; subst. pose proof (Forall1 _ _ Hcl3) as Hle.
    unfold h_if_then_else in Hh. apply guard_inv in Hh. destruct Hh as [c2 [Hh Hc2]]. eapply cw_cur; [|exact Hc2].
    destruct (EV (req d) cnd c) as [[| |ex] c3 e3| |] eqn:E; try discriminate Hh.
    + apply prepend_inv in Hh. destruct Hh as [e4 [E4 ->]].
      pose proof (IH _ _ _ _ _ _ Hl Hb E) as K1. simpl in K1. destruct K1 as [l1 [S1 [P1 [C1 R1]]]].
      assert (Hb3 : bytes_ok (rest c3)) by (eapply ev_bytes'; eauto; discriminate).
      eapply cw_cat; [exact C1 | exact R1 | | exact (ca_cw _ _ _ _ (IH _ _ _ _ _ _ Hlt Hb3 E4))].
      intros x Hx. eapply B_ite_then; eauto.
    + pose proof (ev_req_fail G C HG _ _ _ _ _ _ E) as Ec. subst c3.
      apply prepend_inv in Hh. destruct Hh as [e4 [E4 ->]].
      pose proof (IH _ _ _ _ _ _ Hl Hb E) as K1. simpl in K1. destruct K1 as [P1 C1].
      eapply cw_pre; [exact C1 | | exact (ca_cw _ _ _ _ (IH _ _ _ _ _ _ Hle Hb E4))].
      intros x Hx. eapply B_ite_else; eauto.
    + inversion Hh; subst. pose proof (IH _ _ _ _ _ _ Hl Hb E) as K1. simpl in K1 |- *. destruct K1 as [P1 [Pe C1]].
      split; [apply B_ite_raise; exact P1 | split; [exact Pe | exists []; exact C1]].
  - (* if_must *) destruct Hk as [cnd [m [Hs Hm]]]. rewrite Hs in Hh, Hcl |- *.
    inversion Hcl as [|? ? Hl Hcl2]; subst. pose proof (Forall1 _ _ Hcl2) as Hlm.
    unfold h_if_must in Hh.
    assert (HdA : dA (if dflt then req d else d) = dA d) by (destruct dflt; reflexivity).
    assert (HdF : dAct (if dflt then req d else d) = dAct d) by (destruct dflt; reflexivity).
    destruct (EV (if dflt then req d else d) cnd c) as [[| |ex] c3 e3| |] eqn:E; try discriminate Hh;
    pose proof (IH _ _ _ _ _ _ Hl Hb E) as K1; rewrite HdA, HdF in K1; simpl in K1.
    + destruct K1 as [l1 [S1 [P1 [C1 R1]]]].
      assert (Hb3 : bytes_ok (rest c3)) by (eapply ev_bytes'; eauto; discriminate).
      destruct (EV d m c3) as [[| |ex] c4 e4| |] eqn:E4; try discriminate Hh.
      * simpl in Hh. inversion Hh; subst.
        eapply cw_cat; [exact C1 | exact R1 | | exact (ca_cw _ _ _ _ (IH _ _ _ _ _ _ Hlm Hb3 E4))].
        intros x Hx. eapply B_ifm_ok; eauto.
      * exfalso. pose proof (IH _ _ _ _ _ _ Hlm Hb3 E4) as K2. simpl in K2. destruct K2 as [P2 _].
        exact (must_plain_nofail _ _ _ _ _ _ _ _ Hm P2).
      * simpl in Hh. inversion Hh; subst.
        eapply cw_cat; [exact C1 | exact R1 | | exact (ca_cw _ _ _ _ (IH _ _ _ _ _ _ Hlm Hb3 E4))].
        intros x Hx. eapply B_ifm_ok; eauto.
    + destruct K1 as [P1 C1]. inversion Hh; subst.
      pose proof (B_ifm_fail G (att_of C) vt _ _ dflt cnd m _ _ P1) as Bk.
      destruct dflt; simpl.
      * pose proof (ev_req_fail G C HG _ _ _ _ _ _ E) as Ec. subst c1.
        exists [], []. split; [exact Bk | split; [exact C1 | apply RelT_nil]].
      * split; [exact Bk | exists []; exact C1].
    + destruct K1 as [P1 [Pe C1]]. inversion Hh; subst. simpl.
      split; [eapply B_ifm_raise; exact P1 | split; [exact Pe | exists []; exact C1]].
  - (* must *) destruct Hk as [r1 Hs]. rewrite Hs in Hh, Hcl |- *. pose proof (Forall1 _ _ Hcl) as Hl.
    unfold h_must in Hh. assert (Bk := fun x => B_must G (att_of C) vt (dA d) (dAct d) r1 (rest c) (pb c) x).
    destruct (EV (opt_ d) r1 c) as [[| |ex] c2 e2| |] eqn:E; try discriminate Hh;
    pose proof (IH _ _ _ _ _ _ Hl Hb E) as K1; simpl in K1.
    + inversion Hh; subst. simpl. destruct K1 as [l1 [S1 [P1 K1]]]. exists l1, S1. split; [exact (Bk _ P1) | exact K1].
    + unfold raise_at in Hh. inversion Hh; subst. simpl. destruct K1 as [P1 C1].
      split; [exact (Bk _ P1) | split; [eexists; eexists; reflexivity|]].
      exists ([] ++ []). apply Contrib_app; [exact C1 | apply Contrib_raise].
    + inversion Hh; subst. simpl. destruct K1 as [P1 [Pe C1]]. split; [exact (Bk _ P1) | split; [exact Pe | exists []; exact C1]].
  - (* raise *) destruct Hk as [t Hs]. rewrite Hs in Hh |- *. unfold raise_at in Hh. inversion Hh; subst. simpl.
    split; [apply B_raise | split; [eexists; eexists; reflexivity | exists []; apply Contrib_raise]].
  - (* strict *) destruct Hk as [r1 [rs Hs]]. rewrite Hs in Hh, Hcl |- *. inversion Hcl as [|? ? Hl Hcl2]; subst.
    unfold h_strict in Hh. apply guard_inv in Hh. destruct Hh as [c2 [Hh Hc2]]. eapply cw_cur; [|exact Hc2].
    destruct (EV (req d) r1 c) as [[| |ex] c3 e3| |] eqn:E; try discriminate Hh.
    + apply prepend_inv in Hh. destruct Hh as [e4 [E4 ->]].
      pose proof (IH _ _ _ _ _ _ Hl Hb E) as K1. simpl in K1. destruct K1 as [l1 [S1 [P1 [C1 R1]]]].
      assert (Hb3 : bytes_ok (rest c3)) by (eapply ev_bytes'; eauto; discriminate).
      eapply cw_cat; [exact C1 | exact R1 | | exact (hseq_soundT _ _ _ _ _ _ Hcl2 Hb3 E4)].
      intros x Hx. eapply B_strict_ok; eauto.
    + pose proof (ev_req_fail G C HG _ _ _ _ _ _ E) as Ec. subst c3. inversion Hh; subst.
      pose proof (IH _ _ _ _ _ _ Hl Hb E) as K1. simpl in K1 |- *. destruct K1 as [P1 C1].
      exists [], []. split; [apply B_strict_none; exact P1 | split; [exact C1 | apply RelT_nil]].
    + inversion Hh; subst. pose proof (IH _ _ _ _ _ _ Hl Hb E) as K1. simpl in K1 |- *. destruct K1 as [P1 [Pe C1]].
      split; [apply B_strict_raise; exact P1 | split; [exact Pe | exists []; exact C1]].
  - (* star_strict *) destruct Hk as [r1 [rs Hs]]. rewrite Hs in Hh, Hcl |- *. inversion Hcl as [|? ? Hl Hcl2]; subst.
    unfold h_star_strict in Hh. apply guard_inv in Hh. destruct Hh as [c2 [Hh Hc2]]. eapply cw_cur; [|exact Hc2].
    eapply cw_mono; [intros x Hx; apply B_star_strict; exact Hx | eapply sstrict_soundT; eauto].
  - (* try_catch_return_false *) destruct Hk as [r1 Hs]. rewrite Hs in Hh, Hcl |- *. pose proof (Forall1 _ _ Hcl) as Hl.
    unfold h_try_false in Hh. assert (Bk := fun x => B_try G (att_of C) vt (dA d) (dAct d) f0 r1 (rest c) (pb c) x).
    destruct (EV (opt_ d) r1 c) as [[| |ex] c2 e2| |] eqn:E; try discriminate Hh;
    pose proof (IH _ _ _ _ _ _ Hl Hb E) as K1; simpl in K1.
    + inversion Hh; subst. simpl. destruct K1 as [l1 [S1 [P1 K1]]]. exists l1, S1. split; [exact (Bk _ P1) | exact K1].
    + inversion Hh; subst. simpl. destruct K1 as [P1 C1]. split; [exact (Bk _ P1) | exists []; exact C1].
    + destruct K1 as [P1 [Pe C1]]. rewrite (pexn_catches f0 ex Pe) in Hh. specialize (Bk _ P1). simpl in Bk.
      destruct (catches_parse f0); inversion Hh; subst; simpl.
      * split; [exact Bk | exists []; exact C1].
      * split; [exact Bk | split; [exact Pe | exists []; exact C1]].
  - (* action< fam > *) destruct Hk as [r1 Hs]. rewrite Hs in Hh, Hcl |- *. pose proof (Forall1 _ _ Hcl) as Hl.
    eapply pass_soundT; [exact Hl | exact Hb | exact Hh |]. intros x Hx. apply B_action. exact Hx.
  - (* control< ctl > *) destruct Hk as [r1 Hs]. rewrite Hs in Hh, Hcl |- *. pose proof (Forall1 _ _ Hcl) as Hl.
    eapply pass_soundT; [exact Hl | exact Hb | exact Hh |]. intros x Hx. apply B_control. exact Hx.
  - (* enable *) destruct Hk as [r1 Hs]. rewrite Hs in Hh, Hcl |- *. pose proof (Forall1 _ _ Hcl) as Hl.
    eapply pass_soundT; [exact Hl | exact Hb | exact Hh |]. intros x Hx. apply B_enable. exact Hx.
  - (* disable *) destruct Hk as [r1 Hs]. rewrite Hs in Hh, Hcl |- *. pose proof (Forall1 _ _ Hcl) as Hl.
    eapply pass_soundT; [exact Hl | exact Hb | exact Hh |]. intros x Hx. apply B_disable. exact Hx.
Qed.


(* one invocation: the head's derivation wrapped by the node's own action *)
Lemma node_soundT nd d r c o c' evs : nth_error G r = Some nd -> bytes_ok (rest c) ->
  eval G C (S f) d r c = Res o c' evs -> ca (PG (dA d) (dAct d) r (rest c) (pb c)) c' o evs.
Proof.
  intros Hn Hb H. destruct (eval_invA G C Hacts _ _ _ _ _ _ _ _ Hn H) as [evs0 [-> Hp]].
  destruct (nenabled nd) eqn:Een.
  2:{ pose proof (head_soundT _ _ _ _ _ _ _ Hn Hb Hp) as K.
      assert (Ha : att_of C (dAct d) r = KNone).
      { unfold att_of. destruct (acts C (dAct d) r) eqn:Ea; try reflexivity; exfalso;
        (assert (Ht : nenabled nd = true) by (eapply (Hen (dAct d) r nd); [rewrite Ea; discriminate | exact Hn])); congruence. }
      apply ca_traced. eapply cw_mono; [|exact K]. intros x Hx.
      pose proof (T_node G (att_of C) vt _ _ _ _ _ _ _ Hn Hx) as T. rewrite (twrap_none _ _ _ _ _ _ _ Ha) in T. exact T. }
  destruct (match_hpp_inv2 C Habeh Hrof _ _ _ _ _ _ _ _ Hp) as [d' [o1 [c1 [evs1 [Hd' [Hbody Hcase]]]]]].
  assert (Hf' : dAct d' = dAct d) by (destruct Hd' as [-> | ->]; reflexivity).
  assert (HA' : dA d' = dA d) by (destruct Hd' as [-> | ->]; reflexivity).
  pose proof (head_soundT _ _ _ _ _ _ _ Hn Hb Hbody) as K. rewrite HA', Hf' in K.
  assert (TN := fun x => T_node G (att_of C) vt (dA d) (dAct d) r nd (rest c) (pb c) x Hn).
  destruct o1 as [| |ex]; simpl in K.
  - destruct K as [l1 [S1 [P1 [C1 R1]]]]. specialize (TN _ P1).
    destruct (vetoedb C d (acts C (dAct d) r) r (cpos c) (cpos c1)) eqn:Ev.
    + (* vetoed *) destruct Hcase as [-> ->]. rewrite (wrap_veto _ _ _ _ _ Ev) in TN. unfold ca. split; [exact TN|].
      apply Contrib_traced_fail. eexists. apply Contrib_app; [|apply Contrib_hook].
      apply Contrib_cons_hook. apply Contrib_app; [exact C1 | apply Contrib_action_events].
    + (* accepted *) destruct Hcase as [-> [-> ->]]. rewrite (wrap_ok _ _ _ _ _ Ev) in TN. unfold ca.
      eexists. eexists. split; [exact TN|]. split.
      * exact (Contrib_traced _ _ _ _ _ (Some true) _ _ _ (Contrib_inner_ok d _ r c c1 evs1 S1 C1)).
      * apply RelT_app; [exact R1 | reflexivity].
  - destruct Hcase as [-> ->]. destruct K as [P1 [S1 C1]]. specialize (TN _ P1). simpl in TN. unfold ca. split; [exact TN|].
    apply Contrib_traced_fail. eexists. apply Contrib_app; [|apply Contrib_hook]. apply Contrib_cons_hook. exact C1.
  - destruct Hcase as [-> [post [-> Cp]]]. destruct K as [P1 [Pe [S1 C1]]]. specialize (TN _ P1). simpl in TN. unfold ca.
    split; [exact TN | split; [exact Pe|]].
    assert (CX : Contrib ((EHook HkStart (dCtl d) r (cpos c) :: evs1) ++ post) (S1 ++ [])).
    { apply Contrib_app; [apply Contrib_cons_hook; exact C1 | exact Cp]. }
    exact (Contrib_traced _ _ _ _ _ None _ _ _ CX).
Qed.
End Step.

Theorem exact_soundT : forall f d r c o c' evs, (r < length G)%nat -> bytes_ok (rest c) ->
  eval G C f d r c = Res o c' evs -> ca (PG (dA d) (dAct d) r (rest c) (pb c)) c' o evs.
Proof.
  induction f as [|f IHf]; intros d r c o c' evs Hl Hb H; [discriminate H|].
  destruct (nth_error G r) as [nd|] eqn:Hn.
  - eapply (node_soundT f IHf); eauto.
  - apply nth_error_None in Hn. lia.
Qed.
End Sound.

(* ---------- the statement about whole runs ---------- *)
Definition action_cfg2 (G : grammar) (C : cfg) (vt : nat -> rid -> N -> N -> bool) : Prop :=
  (forall f r, plain_ak (acts C f r)) /\
  (forall f r b e, abeh C f r b e = ARet (negb (vt f r (pbyte b) (pbyte e)))) /\
  (forall k r, raise_on_failure C k r = false) /\
  (forall f r nd, acts C f r <> AKNone -> nth_error G r = Some nd -> nenabled nd = true).

Theorem invocation_exact2 G C vt : action_cfg2 G C vt -> ta_table G (att_of C) -> rmm_stable G (att_of C) vt ->
  forall f d r c o c' evs, (r < length G)%nat -> bytes_ok (rest c) -> eval G C f d r c = Res o c' evs ->
  match o with
  | Ok => exists l S, PegT G (att_of C) vt (dA d) (dAct d) r (rest c) (pbyte (cpos c)) (TOk (rest c') (pbyte (cpos c')) l) /\
                      Contrib evs S /\ map sact_bytes S = l
  | Fail => PegT G (att_of C) vt (dA d) (dAct d) r (rest c) (pbyte (cpos c)) TFail /\ Contrib evs []
  | Exc e => PegT G (att_of C) vt (dA d) (dAct d) r (rest c) (pbyte (cpos c)) TRaise /\ (exists w p, e = EParse w p) /\ Contrib evs []
  end.
Proof.
  intros [H1 [H2 [H3 H4]]] Hta Hrmm f d r c o c' evs Hl Hb H.
  pose proof (exact_soundT G C vt H1 H2 H3 H4 Hta Hrmm f d r c o c' evs Hl Hb H) as K.
  destruct o; exact K.
Qed.

Theorem survivors_exact2 G C vt : action_cfg2 G C vt -> ta_table G (att_of C) -> rmm_stable G (att_of C) vt ->
  forall f d r input p0 c' evs, (r < length G)%nat -> bytes_ok input ->
    run G C f d r input p0 = Res Ok c' evs ->
    exists l, PegT G (att_of C) vt (dA d) (dAct d) r input (pbyte p0) (TOk (rest c') (pbyte (cpos c')) l) /\
              map sact_bytes (survivors evs) = l.
Proof.
  intros Hc Hta Hrmm f d r input p0 c' evs Hl Hb H.
  pose proof (invocation_exact2 G C vt Hc Hta Hrmm f d r (mkcur input p0) Ok c' evs Hl Hb H) as K.
  simpl in K. destruct K as [l [S [P [Cn R]]]]. exists l. split; [exact P|].
  unfold survivors. specialize (Cn [] [] []). rewrite app_nil_r in Cn. simpl in Cn. rewrite Cn. exact R.
Qed.

(* a run that ends in a local failure or in an exception: the reference fails / raises too, and no action survives *)
Theorem survivors_none2 G C vt : action_cfg2 G C vt -> ta_table G (att_of C) -> rmm_stable G (att_of C) vt ->
  forall f d r input p0 o c' evs, (r < length G)%nat -> bytes_ok input -> o <> Ok ->
    run G C f d r input p0 = Res o c' evs ->
    PegT G (att_of C) vt (dA d) (dAct d) r input (pbyte p0) (match o with Fail => TFail | _ => TRaise end) /\
    survivors evs = [].
Proof.
  intros Hc Hta Hrmm f d r input p0 o c' evs Hl Hb Ho H.
  pose proof (invocation_exact2 G C vt Hc Hta Hrmm f d r (mkcur input p0) o c' evs Hl Hb H) as K.
  assert (Fin : forall evs0, Contrib evs0 [] -> survivors evs0 = []).
  { intros evs0 Cn. unfold survivors. specialize (Cn [] [] []). rewrite app_nil_r in Cn. exact Cn. }
  destruct o as [| |e]; [congruence | |]; simpl in K.
  - destruct K as [P Cn]. split; [exact P | exact (Fin _ Cn)].
  - destruct K as [P [_ Cn]]. split; [exact P | exact (Fin _ Cn)].
Qed.

(* ---------- when is the side condition on rep_min_max void? ---------- *)
Lemma rmm_stable_none G att vt :
  (forall r nd mn mx, nth_error G r = Some nd -> nhead nd <> HRepMinMax mn mx) -> rmm_stable G att vt.
Proof.
  intros H fam r1 s o [r [nd [mn [mx [Hn [Hh _]]]]]] _. exfalso. exact (H r nd mn mx Hn Hh).
Qed.
