(* Rfc8259.v — independent SPECIFICATION side of property C14.
   Nothing here is derived from the PEGTL sources.

   Part 1: RFC 8259 ("The JavaScript Object Notation (JSON) Data Interchange Format"), the
   collected ABNF of sections 2-7, transcribed production by production as inductive predicates
   over byte lists.  `unescaped = %x20-21 / %x23-5B / %x5D-10FFFF` ranges over Unicode code
   points; section 8.1 requires UTF-8, so an unescaped character is the well-formed UTF-8
   encoding (RFC 3629, Utf.utf8_enc: shortest form, no surrogates, at most U+10FFFF) of a code
   point in those ranges.

   Part 2: an executable recogniser `rfc8259_b` (a hand-written deterministic scanner).  It is
   proved equivalent to the inductive specification in Rfc8259Facts.v
   (rfc8259_b s = true <-> JSON_text s) and is the extracted ORACLE of checks/C14.py.
   Spec file: definitions only. *)
From Coq Require Import List NArith Bool.
From PegtlV Require Import Utf.
Import ListNotations.
Local Open Scope N_scope.

(* ====================================================================================== *)
(* Part 1: the grammar of RFC 8259                                                         *)
(* ====================================================================================== *)

(* ws = *( %x20 / %x09 / %x0A / %x0D ) *)
Definition is_ws (b : N) : Prop := b = 0x20 \/ b = 0x09 \/ b = 0x0A \/ b = 0x0D.
Inductive ws : list N -> Prop :=
| ws_nil : ws []
| ws_cons b s : is_ws b -> ws s -> ws (b :: s).

(* the six structural characters: ws %xNN ws *)
Definition structural (ch : N) (s : list N) : Prop :=
  exists w1 w2, ws w1 /\ ws w2 /\ s = w1 ++ [ch] ++ w2.
Definition begin_array := structural 0x5B.      (* [ *)
Definition begin_object := structural 0x7B.     (* { *)
Definition end_array := structural 0x5D.        (* ] *)
Definition end_object := structural 0x7D.       (* } *)
Definition name_separator := structural 0x3A.   (* : *)
Definition value_separator := structural 0x2C.  (* , *)

(* ---------- numbers (section 6) ---------- *)
Definition DIGIT (b : N) : Prop := 0x30 <= b /\ b <= 0x39.
Definition digit1_9 (b : N) : Prop := 0x31 <= b /\ b <= 0x39.
(* *DIGIT and 1*DIGIT *)
Inductive digits0 : list N -> Prop :=
| d0_nil : digits0 []
| d0_cons b s : DIGIT b -> digits0 s -> digits0 (b :: s).
Inductive digits1 : list N -> Prop :=
| d1_intro b s : DIGIT b -> digits0 s -> digits1 (b :: s).
(* int = zero / ( digit1-9 *DIGIT ) *)
Inductive int_ : list N -> Prop :=
| int_zero : int_ [0x30]
| int_nz b s : digit1_9 b -> digits0 s -> int_ (b :: s).
(* frac = decimal-point 1*DIGIT *)
Inductive frac : list N -> Prop :=
| frac_intro s : digits1 s -> frac (0x2E :: s).
(* exp = e [ minus / plus ] 1*DIGIT ;  e = %x65 / %x45 *)
Definition is_e (b : N) : Prop := b = 0x65 \/ b = 0x45.
Definition is_sign (b : N) : Prop := b = 0x2D \/ b = 0x2B.
Inductive exp_ : list N -> Prop :=
| exp_plain e s : is_e e -> digits1 s -> exp_ (e :: s)
| exp_signed e sg s : is_e e -> is_sign sg -> digits1 s -> exp_ (e :: sg :: s).
(* [ X ] *)
Definition optional (P : list N -> Prop) (s : list N) : Prop := s = [] \/ P s.
Definition minus (s : list N) : Prop := s = [0x2D].
(* number = [ minus ] int [ frac ] [ exp ] *)
Inductive number : list N -> Prop :=
| number_intro m i f e : optional minus m -> int_ i -> optional frac f -> optional exp_ e ->
    number (m ++ i ++ f ++ e).

(* ---------- strings (section 7) ---------- *)
(* HEXDIG (RFC 5234; "The hexadecimal letters A through F can be uppercase or lowercase") *)
Definition HEXDIG (b : N) : Prop := DIGIT b \/ (0x41 <= b /\ b <= 0x46) \/ (0x61 <= b /\ b <= 0x66).
(* unescaped = %x20-21 / %x23-5B / %x5D-10FFFF  (code points) *)
Definition unescaped_cp (cp : N) : Prop :=
  (0x20 <= cp /\ cp <= 0x21) \/ (0x23 <= cp /\ cp <= 0x5B) \/ (0x5D <= cp /\ cp <= 0x10FFFF).
(* the single characters that may follow the escape: quotation mark, reverse solidus, solidus, b f n r t *)
Definition escapable (b : N) : Prop :=
  b = 0x22 \/ b = 0x5C \/ b = 0x2F \/ b = 0x62 \/ b = 0x66 \/ b = 0x6E \/ b = 0x72 \/ b = 0x74.
(* char = unescaped / escape ( %x22 / ... / %x74 / %x75 4HEXDIG ) *)
Inductive char : list N -> Prop :=
| char_unescaped cp u : utf8_enc cp u -> unescaped_cp cp -> char u
| char_escaped b : escapable b -> char [0x5C; b]
| char_unicode h1 h2 h3 h4 : HEXDIG h1 -> HEXDIG h2 -> HEXDIG h3 -> HEXDIG h4 ->
    char [0x5C; 0x75; h1; h2; h3; h4].
(* *char *)
Inductive chars : list N -> Prop :=
| chars_nil : chars []
| chars_app c s : char c -> chars s -> chars (c ++ s).
(* string = quotation-mark *char quotation-mark *)
Inductive string_ : list N -> Prop :=
| string_intro s : chars s -> string_ (0x22 :: s ++ [0x22]).

(* ---------- values, objects, arrays (sections 3-5) ---------- *)
Definition lit_false : list N := [0x66; 0x61; 0x6C; 0x73; 0x65].
Definition lit_null : list N := [0x6E; 0x75; 0x6C; 0x6C].
Definition lit_true : list N := [0x74; 0x72; 0x75; 0x65].

(* value = false / null / true / object / array / number / string
   object = begin-object [ member *( value-separator member ) ] end-object
   member = string name-separator value
   array  = begin-array [ value *( value-separator value ) ] end-array *)
Inductive value : list N -> Prop :=
| v_false : value lit_false
| v_null : value lit_null
| v_true : value lit_true
| v_object s : object s -> value s
| v_array s : array s -> value s
| v_number s : number s -> value s
| v_string s : string_ s -> value s
with object : list N -> Prop :=
| object_empty b e : begin_object b -> end_object e -> object (b ++ e)
| object_members b ms e : begin_object b -> members ms -> end_object e -> object (b ++ ms ++ e)
with members : list N -> Prop :=            (* member *( value-separator member ) *)
| members_one m : member m -> members m
| members_more m sep ms : member m -> value_separator sep -> members ms -> members (m ++ sep ++ ms)
with member : list N -> Prop :=
| member_intro k ns v : string_ k -> name_separator ns -> value v -> member (k ++ ns ++ v)
with array : list N -> Prop :=
| array_empty b e : begin_array b -> end_array e -> array (b ++ e)
| array_elements b vs e : begin_array b -> elements vs -> end_array e -> array (b ++ vs ++ e)
with elements : list N -> Prop :=           (* value *( value-separator value ) *)
| elements_one v : value v -> elements v
| elements_more v sep vs : value v -> value_separator sep -> elements vs -> elements (v ++ sep ++ vs).

(* JSON-text = ws value ws *)
Definition JSON_text (s : list N) : Prop :=
  exists w1 v w2, ws w1 /\ value v /\ ws w2 /\ s = w1 ++ v ++ w2.

(* ====================================================================================== *)
(* Part 2: the executable recogniser                                                       *)
(* ====================================================================================== *)
(* A deterministic scanner.  Every scan_X returns the remaining input after the longest
   X at the front of its argument (None: no X there). *)

Definition in_rng (lo hi b : N) : bool := (lo <=? b) && (b <=? hi).

Definition is_wsb (b : N) : bool := (b =? 0x20) || (b =? 0x09) || (b =? 0x0A) || (b =? 0x0D).
Fixpoint skip_ws (s : list N) : list N :=
  match s with
  | b :: t => if is_wsb b then skip_ws t else s
  | [] => []
  end.

Definition is_digitb (b : N) : bool := in_rng 0x30 0x39 b.
Fixpoint skip_digits (s : list N) : list N :=
  match s with
  | b :: t => if is_digitb b then skip_digits t else s
  | [] => []
  end.
Definition scan_digits1 (s : list N) : option (list N) :=
  match s with
  | b :: t => if is_digitb b then Some (skip_digits t) else None
  | [] => None
  end.
Definition scan_int (s : list N) : option (list N) :=
  match s with
  | b :: t => if b =? 0x30 then Some t else if is_digitb b then Some (skip_digits t) else None
  | [] => None
  end.
(* [ frac ] and [ exp ]: the rest after the optional part (the argument itself if it is absent) *)
Definition scan_frac (s : list N) : list N :=
  match s with
  | b :: t => if b =? 0x2E then match scan_digits1 t with Some r => r | None => s end else s
  | [] => s
  end.
Definition is_eb (b : N) : bool := (b =? 0x65) || (b =? 0x45).
Definition is_signb (b : N) : bool := (b =? 0x2D) || (b =? 0x2B).
Definition skip_sign (s : list N) : list N :=
  match s with
  | b :: t => if is_signb b then t else s
  | [] => s
  end.
Definition scan_exp (s : list N) : list N :=
  match s with
  | b :: t => if is_eb b then match scan_digits1 (skip_sign t) with Some r => r | None => s end else s
  | [] => s
  end.
Definition skip_minus (s : list N) : list N :=
  match s with
  | b :: t => if b =? 0x2D then t else s
  | [] => s
  end.
Definition scan_number (s : list N) : option (list N) :=
  match scan_int (skip_minus s) with
  | Some r => Some (scan_exp (scan_frac r))
  | None => None
  end.

Definition is_hexb (b : N) : bool := is_digitb b || in_rng 0x41 0x46 b || in_rng 0x61 0x66 b.
Definition is_escb (b : N) : bool :=
  (b =? 0x22) || (b =? 0x5C) || (b =? 0x2F) || (b =? 0x62) || (b =? 0x66) || (b =? 0x6E) || (b =? 0x72) || (b =? 0x74).
Definition unescaped_cpb (cp : N) : bool :=
  in_rng 0x20 0x21 cp || in_rng 0x23 0x5B cp || in_rng 0x5D 0x10FFFF cp.

(* one well-formed UTF-8 sequence, by the table of RFC 3629 section 4; returns the code point
   (section 3 bit distribution) and the rest *)
Definition tail_b (b : N) : bool := in_rng 0x80 0xBF b.
Definition scan_utf8 (s : list N) : option (N * list N) :=
  match s with
  | [] => None
  | b0 :: t0 =>
    if b0 <=? 0x7F then Some (b0, t0)
    else
      match t0 with
      | [] => None
      | b1 :: t1 =>
        if in_rng 0xC2 0xDF b0 then (if tail_b b1 then Some (val2 b0 b1, t1) else None)
        else
          match t1 with
          | [] => None
          | b2 :: t2 =>
            if b0 =? 0xE0 then (if in_rng 0xA0 0xBF b1 && tail_b b2 then Some (val3 b0 b1 b2, t2) else None)
            else if in_rng 0xE1 0xEC b0 then (if tail_b b1 && tail_b b2 then Some (val3 b0 b1 b2, t2) else None)
            else if b0 =? 0xED then (if in_rng 0x80 0x9F b1 && tail_b b2 then Some (val3 b0 b1 b2, t2) else None)
            else if in_rng 0xEE 0xEF b0 then (if tail_b b1 && tail_b b2 then Some (val3 b0 b1 b2, t2) else None)
            else
              match t2 with
              | [] => None
              | b3 :: t3 =>
                if b0 =? 0xF0 then (if in_rng 0x90 0xBF b1 && tail_b b2 && tail_b b3 then Some (val4 b0 b1 b2 b3, t3) else None)
                else if in_rng 0xF1 0xF3 b0 then (if tail_b b1 && tail_b b2 && tail_b b3 then Some (val4 b0 b1 b2 b3, t3) else None)
                else if b0 =? 0xF4 then (if in_rng 0x80 0x8F b1 && tail_b b2 && tail_b b3 then Some (val4 b0 b1 b2 b3, t3) else None)
                else None
              end
          end
      end
  end.

(* *char quotation-mark : the rest after the closing quotation mark *)
Fixpoint scan_chars (fuel : nat) (s : list N) : option (list N) :=
  match fuel with
  | O => None
  | S f =>
    match s with
    | [] => None
    | b :: t =>
      if b =? 0x22 then Some t
      else if b =? 0x5C then
        match t with
        | [] => None
        | e :: t' =>
          if is_escb e then scan_chars f t'
          else if e =? 0x75 then
            match t' with
            | h1 :: h2 :: h3 :: h4 :: t'' =>
                if is_hexb h1 && is_hexb h2 && is_hexb h3 && is_hexb h4 then scan_chars f t'' else None
            | _ => None
            end
          else None
        end
      else
        match scan_utf8 s with
        | Some (cp, r) => if unescaped_cpb cp then scan_chars f r else None
        | None => None
        end
    end
  end.
(* every step consumes at least one byte: length + 1 is enough fuel *)
Definition scan_string (s : list N) : option (list N) :=
  match s with
  | b :: t => if b =? 0x22 then scan_chars (S (length t)) t else None
  | [] => None
  end.

Fixpoint strip_prefix (p s : list N) : option (list N) :=
  match p, s with
  | [], _ => Some s
  | x :: p', y :: s' => if x =? y then strip_prefix p' s' else None
  | _ :: _, [] => None
  end.

Section Containers.
(* the scanner for value one nesting level down *)
Variable val : list N -> option (list N).

(* value ws *)
Definition scan_element (s : list N) : option (list N) := option_map skip_ws (val s).
(* string ws ":" ws value ws *)
Definition scan_member (s : list N) : option (list N) :=
  match scan_string s with
  | Some s1 =>
    match skip_ws s1 with
    | c :: s2 => if c =? 0x3A then option_map skip_ws (val (skip_ws s2)) else None
    | [] => None
    end
  | None => None
  end.
(* *( "," ws item ) close : the rest after the closing bracket *)
Fixpoint scan_tail (item : list N -> option (list N)) (close : N) (n : nat) (s : list N) : option (list N) :=
  match n with
  | O => None
  | S n' =>
    match s with
    | c :: t =>
      if c =? close then Some t
      else if c =? 0x2C then
        match item (skip_ws t) with
        | Some s' => scan_tail item close n' s'
        | None => None
        end
      else None
    | [] => None
    end
  end.
(* after the opening bracket:  ws ( close / item *( "," ws item ) close ) *)
Definition scan_container (item : list N -> option (list N)) (close : N) (t : list N) : option (list N) :=
  match skip_ws t with
  | c :: t' =>
    if c =? close then Some t'
    else match item (c :: t') with
         | Some s' => scan_tail item close (S (length s')) s'
         | None => None
         end
  | [] => None
  end.
End Containers.

(* value (without surrounding ws); fuel bounds the nesting depth *)
Fixpoint scan_value (fuel : nat) (s : list N) : option (list N) :=
  match fuel with
  | O => None
  | S f =>
    match s with
    | [] => None
    | b :: t =>
      if b =? 0x22 then scan_string s
      else if b =? 0x7B then scan_container (scan_member (scan_value f)) 0x7D t
      else if b =? 0x5B then scan_container (scan_element (scan_value f)) 0x5D t
      else if b =? 0x66 then strip_prefix lit_false s
      else if b =? 0x74 then strip_prefix lit_true s
      else if b =? 0x6E then strip_prefix lit_null s
      else scan_number s
    end
  end.

(* nesting depth is at most the length: length + 1 is enough fuel *)
Definition scan_val (s : list N) : option (list N) := scan_value (S (length s)) s.

(* JSON-text = ws value ws, then end of input *)
Definition rfc8259_b (s : list N) : bool :=
  match scan_val (skip_ws s) with
  | Some r => match skip_ws r with [] => true | _ => false end
  | None => false
  end.
