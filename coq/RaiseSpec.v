(* RaiseSpec.v — C05, the INDEPENDENT specification: PEG extended with a global-failure outcome.
   A rule applied to an input has one of three verdicts: success with the remaining input, local
   failure, or a RAISE (global failure) that names the rule blamed and the remaining input where the
   raising must<>/raise<> attempt began.  must<R> = sor<R, raise<R>>; a raise aborts every enclosing
   operator; the first raise in evaluation order is the verdict.
   The table (grammar = list node) is used purely as SYNTAX: no modes, cursors, events, fuel, and no
   reference to Engine.v.  Definitions, determinism and the suffix property only. *)
From PegtlV Require Import Base Decode Grammar Spec Denote.
Local Open Scope N_scope.

Inductive sres :=
| ROk (s' : list byte)
| RFail
| RRaise (who : rid) (s0 : list byte).   (* s0 = remaining input where the raising must/raise attempt BEGAN *)

Definition is_atom_sexp (a : sexp) : bool :=
  match a with
  | SAny | SOne _ | SNotOne _ | SRange _ _ | SString _ | SEof | SSuccess | SFailure => true
  | _ => false
  end.

(* atomic heads: the atomic classes of Spec.v, tied to heads by Denote.den_node *)
Definition atom_den (h : head) (a : sexp) : Prop :=
  is_atom_sexp a = true /\ den_node (fun _ _ => false) (mknode h [] true) a = true.

Definition lift (r : option (list byte)) : sres := match r with Some s' => ROk s' | None => RFail end.

Section R.
Variable G : grammar.

Inductive RPeg : rid -> list byte -> sres -> Prop :=
| RP_atom r nd a s x : nth_error G r = Some nd -> nsubs nd = [] -> atom_den (nhead nd) a ->
    Peg [] a s x -> RPeg r s (lift x)
| RP_seq r nd s x : nth_error G r = Some nd -> nhead nd = HSeq -> nsubs nd <> [] ->
    RSeq (nsubs nd) s x -> RPeg r s x
| RP_sor r nd s x : nth_error G r = Some nd -> nhead nd = HSor -> nsubs nd <> [] ->
    RSor (nsubs nd) s x -> RPeg r s x
| RP_star r nd r1 s x : nth_error G r = Some nd -> nhead nd = HStarPartial -> nsubs nd = [r1] ->
    RStar r1 s x -> RPeg r s x
(* plus *)
| RP_plus_fail r nd r1 s : nth_error G r = Some nd -> nhead nd = HPlus -> nsubs nd = [r1] ->
    RPeg r1 s RFail -> RPeg r s RFail
| RP_plus_raise r nd r1 s w s0 : nth_error G r = Some nd -> nhead nd = HPlus -> nsubs nd = [r1] ->
    RPeg r1 s (RRaise w s0) -> RPeg r s (RRaise w s0)
| RP_plus_step r nd r1 s s1 x : nth_error G r = Some nd -> nhead nd = HPlus -> nsubs nd = [r1] ->
    RPeg r1 s (ROk s1) -> RStar r1 s1 x -> RPeg r s x
(* opt *)
| RP_opt_ok r nd r1 s s1 : nth_error G r = Some nd -> nhead nd = HPartial -> nsubs nd = [r1] ->
    RPeg r1 s (ROk s1) -> RPeg r s (ROk s1)
| RP_opt_none r nd r1 s : nth_error G r = Some nd -> nhead nd = HPartial -> nsubs nd = [r1] ->
    RPeg r1 s RFail -> RPeg r s (ROk s)
| RP_opt_raise r nd r1 s w s0 : nth_error G r = Some nd -> nhead nd = HPartial -> nsubs nd = [r1] ->
    RPeg r1 s (RRaise w s0) -> RPeg r s (RRaise w s0)
(* at: consumes nothing *)
| RP_at_ok r nd r1 s s1 : nth_error G r = Some nd -> nhead nd = HAt -> nsubs nd = [r1] ->
    RPeg r1 s (ROk s1) -> RPeg r s (ROk s)
| RP_at_fail r nd r1 s : nth_error G r = Some nd -> nhead nd = HAt -> nsubs nd = [r1] ->
    RPeg r1 s RFail -> RPeg r s RFail
| RP_at_raise r nd r1 s w s0 : nth_error G r = Some nd -> nhead nd = HAt -> nsubs nd = [r1] ->
    RPeg r1 s (RRaise w s0) -> RPeg r s (RRaise w s0)
(* not_at *)
| RP_not_at_ok r nd r1 s s1 : nth_error G r = Some nd -> nhead nd = HNotAt -> nsubs nd = [r1] ->
    RPeg r1 s (ROk s1) -> RPeg r s RFail
| RP_not_at_fail r nd r1 s : nth_error G r = Some nd -> nhead nd = HNotAt -> nsubs nd = [r1] ->
    RPeg r1 s RFail -> RPeg r s (ROk s)
| RP_not_at_raise r nd r1 s w s0 : nth_error G r = Some nd -> nhead nd = HNotAt -> nsubs nd = [r1] ->
    RPeg r1 s (RRaise w s0) -> RPeg r s (RRaise w s0)
(* must<R> = sor<R, raise<R>> *)
| RP_must_ok r nd r1 s s1 : nth_error G r = Some nd -> nhead nd = HMust -> nsubs nd = [r1] ->
    RPeg r1 s (ROk s1) -> RPeg r s (ROk s1)
| RP_must_fail r nd r1 s : nth_error G r = Some nd -> nhead nd = HMust -> nsubs nd = [r1] ->
    RPeg r1 s RFail -> RPeg r s (RRaise r1 s)                 (* blames R; the attempt began at s *)
| RP_must_raise r nd r1 s w s0 : nth_error G r = Some nd -> nhead nd = HMust -> nsubs nd = [r1] ->
    RPeg r1 s (RRaise w s0) -> RPeg r s (RRaise w s0)         (* an inner raise comes first in evaluation order *)
(* raise<T> *)
| RP_raise r nd t s : nth_error G r = Some nd -> nhead nd = HRaise -> nsubs nd = [t] ->
    RPeg r s (RRaise t s)
(* if_must<Default, Cond, Rules...> with subs [cnd; m], m = the must<Rules...> part (never fails locally) *)
| RP_ifmust_cfail r nd dflt cnd m s : nth_error G r = Some nd -> nhead nd = HIfMust dflt -> nsubs nd = [cnd; m] ->
    RPeg cnd s RFail -> RPeg r s (if dflt then ROk s else RFail)
| RP_ifmust_craise r nd dflt cnd m s w s0 : nth_error G r = Some nd -> nhead nd = HIfMust dflt -> nsubs nd = [cnd; m] ->
    RPeg cnd s (RRaise w s0) -> RPeg r s (RRaise w s0)
| RP_ifmust_ok r nd dflt cnd m s s1 s2 : nth_error G r = Some nd -> nhead nd = HIfMust dflt -> nsubs nd = [cnd; m] ->
    RPeg cnd s (ROk s1) -> RPeg m s1 (ROk s2) -> RPeg r s (ROk s2)
| RP_ifmust_raise r nd dflt cnd m s s1 w s0 : nth_error G r = Some nd -> nhead nd = HIfMust dflt -> nsubs nd = [cnd; m] ->
    RPeg cnd s (ROk s1) -> RPeg m s1 (RRaise w s0) -> RPeg r s (RRaise w s0)
(* n-ary sequence *)
with RSeq : list rid -> list byte -> sres -> Prop :=
| RS_nil s : RSeq [] s (ROk s)
| RS_fail r rs s : RPeg r s RFail -> RSeq (r :: rs) s RFail
| RS_raise r rs s w s0 : RPeg r s (RRaise w s0) -> RSeq (r :: rs) s (RRaise w s0)
| RS_ok r rs s s1 x : RPeg r s (ROk s1) -> RSeq rs s1 x -> RSeq (r :: rs) s x
(* n-ary ordered choice: every alternative is tried on the SAME input *)
with RSor : list rid -> list byte -> sres -> Prop :=
| RO_nil s : RSor [] s RFail
| RO_ok r rs s s1 : RPeg r s (ROk s1) -> RSor (r :: rs) s (ROk s1)
| RO_raise r rs s w s0 : RPeg r s (RRaise w s0) -> RSor (r :: rs) s (RRaise w s0)
| RO_next r rs s x : RPeg r s RFail -> RSor rs s x -> RSor (r :: rs) s x
(* greedy repetition of one rule *)
with RStar : rid -> list byte -> sres -> Prop :=
| RT_end r1 s : RPeg r1 s RFail -> RStar r1 s (ROk s)
| RT_raise r1 s w s0 : RPeg r1 s (RRaise w s0) -> RStar r1 s (RRaise w s0)
| RT_step r1 s s1 x : RPeg r1 s (ROk s1) -> RStar r1 s1 x -> RStar r1 s x.

Scheme RPeg_mind := Minimality for RPeg Sort Prop
  with RSeq_mind := Minimality for RSeq Sort Prop
  with RSor_mind := Minimality for RSor Sort Prop
  with RStar_mind := Minimality for RStar Sort Prop.
Combined Scheme RPeg_mutind from RPeg_mind, RSeq_mind, RSor_mind, RStar_mind.

End R.

(* ---------- a head denotes at most one atomic class ---------- *)
Lemma eqb_zs_true a : forall b, eqb_zs a b = true -> a = b.
Proof.
  induction a as [|x a IH]; intros [|y b] H; simpl in H; try discriminate; [reflexivity|].
  apply andb_true_iff in H. destruct H as [H1 H2]. apply Z.eqb_eq in H1. f_equal; auto.
Qed.
Lemma eqb_ns_true a : forall b, eqb_ns a b = true -> a = b.
Proof.
  induction a as [|x a IH]; intros [|y b] H; simpl in H; try discriminate; [reflexivity|].
  apply andb_true_iff in H. destruct H as [H1 H2]. apply N.eqb_eq in H1. f_equal; auto.
Qed.
Lemma map_ZofN_inj a : forall b, map Z.of_N a = map Z.of_N b -> a = b.
Proof.
  induction a as [|x a IH]; intros [|y b] H; simpl in H; try discriminate; [reflexivity|].
  inversion H as [[H1 H2]]. apply N2Z.inj in H1. f_equal; auto.
Qed.

Lemma atom_den_inj h a a' : atom_den h a -> atom_den h a' -> a = a'.
Proof.
  intros [_ H] [_ H']. unfold den_node in H, H'. cbn [nhead nsubs] in H, H'.
  destruct h; try discriminate H.
  - destruct a; try discriminate H. destruct a'; try discriminate H'. reflexivity.
  - destruct a; try discriminate H. destruct a'; try discriminate H'. reflexivity.
  - destruct a; try discriminate H. destruct a'; try discriminate H'. reflexivity.
  - destruct pk; try discriminate H. destruct a; try discriminate H. destruct a'; try discriminate H'. reflexivity.
  - destruct found; destruct pk; try discriminate H;
    destruct a; try discriminate H; destruct a'; try discriminate H';
    apply andb_true_iff in H; destruct H as [H _]; apply andb_true_iff in H'; destruct H' as [H' _];
    apply eqb_zs_true in H; apply eqb_zs_true in H'; rewrite H in H'; apply map_ZofN_inj in H'; subst; reflexivity.
  - destruct found; destruct pk; try discriminate H.
    destruct a; try discriminate H. destruct a'; try discriminate H'.
    apply andb_true_iff in H. destruct H as [H _]. apply andb_true_iff in H. destruct H as [H _].
    apply andb_true_iff in H. destruct H as [H1 H2].
    apply andb_true_iff in H'. destruct H' as [H' _]. apply andb_true_iff in H'. destruct H' as [H' _].
    apply andb_true_iff in H'. destruct H' as [H1' H2'].
    apply Z.eqb_eq in H1, H2, H1', H2'. rewrite H1 in H1'. rewrite H2 in H2'.
    apply N2Z.inj in H1', H2'. subst. reflexivity.
  - destruct a; try discriminate H. destruct a'; try discriminate H'.
    apply eqb_ns_true in H. apply eqb_ns_true in H'. subst. reflexivity.
Qed.

(* ---------- determinism ---------- *)
Ltac same_node :=
  repeat match goal with
  | H1 : nth_error ?G ?r = Some ?a, H2 : nth_error ?G ?r = Some ?b |- _ =>
      rewrite H1 in H2; inversion H2; subst; clear H2
  end.
Ltac same_subs :=
  repeat match goal with
  | H1 : nsubs ?nd = ?a, H2 : nsubs ?nd = ?b |- _ => rewrite H1 in H2; inversion H2; subst; clear H2
  | H1 : nhead ?nd = ?a, H2 : nhead ?nd = ?b |- _ => rewrite H1 in H2; inversion H2; subst; clear H2
  end.
Ltac fin_eq E :=
  first [ discriminate E
        | match type of E with ?a = ?a => clear E end
        | inversion E; subst; try clear E ].
Ltac use_ih G :=
  repeat match goal with
  | IH : forall y, RPeg G ?r ?s y -> ?x = y, H : RPeg G ?r ?s ?z |- _ =>
      let E := fresh "E" in pose proof (IH _ H) as E; clear H; fin_eq E
  | IH : forall y, RSeq G ?r ?s y -> ?x = y, H : RSeq G ?r ?s ?z |- _ =>
      let E := fresh "E" in pose proof (IH _ H) as E; clear H; fin_eq E
  | IH : forall y, RSor G ?r ?s y -> ?x = y, H : RSor G ?r ?s ?z |- _ =>
      let E := fresh "E" in pose proof (IH _ H) as E; clear H; fin_eq E
  | IH : forall y, RStar G ?r ?s y -> ?x = y, H : RStar G ?r ?s ?z |- _ =>
      let E := fresh "E" in pose proof (IH _ H) as E; clear H; fin_eq E
  end.

Lemma RPeg_det_all G :
  (forall r s x, RPeg G r s x -> forall y, RPeg G r s y -> x = y) /\
  (forall rs s x, RSeq G rs s x -> forall y, RSeq G rs s y -> x = y) /\
  (forall rs s x, RSor G rs s x -> forall y, RSor G rs s y -> x = y) /\
  (forall r1 s x, RStar G r1 s x -> forall y, RStar G r1 s y -> x = y).
Proof.
  apply RPeg_mutind; intros;
  match goal with H : _ _ _ _ ?y |- _ = ?y => inversion H; subst end;
  same_node; try congruence; same_subs; try congruence; use_ih G; try reflexivity; try congruence.
  - (* atom / atom *)
    match goal with A1 : atom_den _ ?a, A2 : atom_den _ ?b |- _ => pose proof (atom_den_inj _ _ _ A1 A2); subst end.
    match goal with P1 : Peg [] ?a ?s ?x, P2 : Peg [] ?a ?s ?y |- _ => rewrite (Peg_deterministic _ _ _ _ P1 _ P2) end.
    reflexivity.
Qed.

Theorem RPeg_det G r s x y : RPeg G r s x -> RPeg G r s y -> x = y.
Proof. intros H1 H2. exact (proj1 (RPeg_det_all G) r s x H1 y H2). Qed.
Theorem RSeq_det G rs s x y : RSeq G rs s x -> RSeq G rs s y -> x = y.
Proof. intros H1 H2. exact (proj1 (proj2 (RPeg_det_all G)) rs s x H1 y H2). Qed.
Theorem RSor_det G rs s x y : RSor G rs s x -> RSor G rs s y -> x = y.
Proof. intros H1 H2. exact (proj1 (proj2 (proj2 (RPeg_det_all G))) rs s x H1 y H2). Qed.
Theorem RStar_det G r1 s x y : RStar G r1 s x -> RStar G r1 s y -> x = y.
Proof. intros H1 H2. exact (proj2 (proj2 (proj2 (RPeg_det_all G))) r1 s x H1 y H2). Qed.

(* ---------- suffix property: what remains (on success) and where the raising attempt began (on raise)
   are suffixes of the input ---------- *)
Definition suf (s t : list byte) : Prop := exists pre, s = pre ++ t.
Lemma suf_refl s : suf s s. Proof. exists []. reflexivity. Qed.
Lemma suf_trans a b c : suf a b -> suf b c -> suf a c.
Proof. intros [p ->] [q ->]. exists (p ++ q). rewrite app_assoc. reflexivity. Qed.
Definition sres_suf (s : list byte) (x : sres) : Prop :=
  match x with ROk s' => suf s s' | RFail => True | RRaise _ s0 => suf s s0 end.
Lemma sres_suf_trans s s1 x : suf s s1 -> sres_suf s1 x -> sres_suf s x.
Proof. intros H. destruct x; simpl; auto; apply suf_trans; exact H. Qed.

Lemma RPeg_suf_all G :
  (forall r s x, RPeg G r s x -> sres_suf s x) /\
  (forall rs s x, RSeq G rs s x -> sres_suf s x) /\
  (forall rs s x, RSor G rs s x -> sres_suf s x) /\
  (forall r1 s x, RStar G r1 s x -> sres_suf s x).
Proof.
  apply RPeg_mutind; intros; simpl in *; auto using suf_refl; try (eapply sres_suf_trans; eauto; fail).
  - (* atom *) destruct x as [s'|]; simpl; [|exact I].
    match goal with P : Peg _ _ _ _ |- _ => exact (Peg_suffix _ _ _ _ P s' eq_refl) end.
  - (* if_must, cond fails *) destruct dflt; simpl; auto using suf_refl.
  - eapply suf_trans; eauto.
  - eapply suf_trans; eauto.
Qed.

Theorem RPeg_suffix G r s s' : RPeg G r s (ROk s') -> exists pre, s = pre ++ s'.
Proof. intros H. exact (proj1 (RPeg_suf_all G) r s _ H). Qed.
Theorem RPeg_raise_suffix G r s w s0 : RPeg G r s (RRaise w s0) -> exists pre, s = pre ++ s0.
Proof. intros H. exact (proj1 (RPeg_suf_all G) r s _ H). Qed.
