(* RaiseSound2.v — C05 "identity", soundness direction on the EXTENDED fragment: tables over the classical
   heads + must / raise / if_must / opt_must (cm_table of RaiseSound.v) + until (both forms), rep, rep_opt,
   rep_min_max, if_then_else, if_must / opt_must without further rules, action / control / enable / disable /
   state wrappers, try_catch_return_false (cm2_table), void configurations:
   whatever the engine answers is the verdict of the independent relation RaiseSpec2.XPeg; an exception is a
   parse_error blaming exactly the rule XPeg blames, at a byte at or after the begin of the blamed attempt. *)
From Coq Require Import Lia.
From PegtlV Require Import Base Decode Grammar Engine EngineFacts AtomFacts Mono Spec Denote ExactSound ExactTop RaiseSpec RaiseSound RaiseSpec2.
Local Open Scope N_scope.

(* ---------- the extended fragment ---------- *)
Definition cm2_node (G : grammar) (nd : node) : Prop :=
  Forall (fun r1 => (r1 < length G)%nat) (nsubs nd) /\
  match nhead nd with
  | HSeq | HSor => nsubs nd <> []
  | HStarPartial | HPlus | HPartial | HAt | HNotAt | HMust | HRaise
  | HUntil1 | HRep _ | HRepOpt _ | HRepMinMax _ _
  | HAction _ | HControl _ | HEnable | HDisable | HState | HTryCatchFalse _ => exists r1, nsubs nd = [r1]
  | HUntil2 => exists cnd r1, nsubs nd = [cnd; r1]
  | HIfThenElse => exists cnd t e, nsubs nd = [cnd; t; e]
  | HIfMust _ => (exists cnd m, nsubs nd = [cnd; m] /\ must_like G m) \/ (exists cnd, nsubs nd = [cnd])
  | h => nsubs nd = [] /\ exists a, atom_den h a
  end.
Definition cm2_table (G : grammar) : Prop := forall r nd, nth_error G r = Some nd -> cm2_node G nd.

Lemma cm_cm2 G : cm_table G -> cm2_table G.
Proof.
  intros H r nd Hn. pose proof (H r nd Hn) as K. unfold cm_node in K. unfold cm2_node. destruct K as [K1 K2]. split; [exact K1|].
  destruct (nhead nd); try exact K2; try (left; exact K2);
  destruct K2 as [_ [a [_ Ha]]]; unfold den_node in Ha; simpl in Ha; discriminate Ha.
Qed.

Lemma cres_exc t e c1 c' (R R' : sres -> Prop) :
  (forall w s0, R (RRaise w s0) -> R' (RRaise w s0)) -> cres t (Exc e) c1 R -> cres t (Exc e) c' R'.
Proof. intros H [w [p [s0 [He [Hr Hp]]]]]. exists w, p, s0. auto. Qed.
Lemma catches_EParse f w p : catches f (EParse w p) = catches_parse f.
Proof. destruct f; reflexivity. Qed.
Lemma Forall_three {A} (P : A -> Prop) a b c : Forall P [a; b; c] -> P a /\ P b /\ P c.
Proof. intros H. inversion H as [|? ? H1 H2]; subst. apply Forall_two in H2. tauto. Qed.

Section Raise2.
Variable G : grammar.
Variable C : cfg.
Hypothesis HG : table_wf G.
Hypothesis Hacts : forall fam r, void_ak (acts C fam r).
Hypothesis Habeh : forall fam r b e, exists x, abeh C fam r b e = ARet x.
Hypothesis Hrof : forall k r, raise_on_failure C k r = false.
Hypothesis Hcm : cm2_table G.

Definition concl2 (r : rid) (c : cursor) (o : outcome) (c' : cursor) : Prop :=
  cres (T c) o c' (XPeg G r (rest c)).

Lemma cm2_okh : forall r nd, nth_error G r = Some nd -> okh (nhead nd).
Proof.
  intros r nd Hn. pose proof (Hcm r nd Hn) as Hk. unfold cm2_node in Hk. destruct Hk as [_ Hk]. unfold okh.
  destruct (nhead nd); try (right; exact (proj2 Hk)); left; intros eol c; reflexivity.
Qed.

Lemma ev_T2 f d r c o c1 evs : eval G C f d r c = Res o c1 evs -> T c1 = T c /\ pbyte (cpos c) <= pbyte (cpos c1).
Proof.
  intros H.
  pose proof (eval_good PB PB_refl PB_trans C okh (fun n c0 c0' H0 => bump_scan_PB _ n c0 c0' H0)
                (fun h c0 x m Ho Hx => atom_PB _ h c0 x m Ho Hx) G cm2_okh f d r c) as K.
  rewrite H in K. destruct o as [| |ex]; simpl in K.
  - apply adv_T; exact K.
  - destruct (dM d); [subst c1; split; [reflexivity | lia] | apply adv_T; exact K].
  - apply adv_T; exact K.
Qed.

Section Step.
Variable f : nat.
Hypothesis IH : forall d r c o c' evs, (r < length G)%nat -> bytes_ok (rest c) ->
  eval G C f d r c = Res o c' evs -> concl2 r c o c'.

Lemma ev_okb d r c c1 evs : eval G C f d r c = Res Ok c1 evs -> bytes_ok (rest c) -> bytes_ok (rest c1).
Proof. intros H Hb. eapply (ev_bytes G C HG); eauto. discriminate. Qed.

Lemma seq_sound2 rs : forall d c o c' evs, Forall (fun r1 => (r1 < length G)%nat) rs -> bytes_ok (rest c) ->
  seq_all (eval G C f) d rs c = Res o c' evs -> cres (T c) o c' (XSeq G rs (rest c)).
Proof.
  induction rs as [|r rs IHrs]; intros d c o c' evs Hcl Hb H.
  - simpl in H. inversion H; subst. simpl. apply XS_nil.
  - inversion Hcl as [|? ? Hl Hls]; subst. rewrite seq_all_cons in H. unfold bind in H.
    destruct (eval G C f d r c) as [[| |ex] c1 vs1| |] eqn:E; try discriminate H.
    + pose proof (IH _ _ _ _ _ _ Hl Hb E) as K1. unfold concl2 in K1. simpl in K1.
      destruct (seq_all (eval G C f) d rs c1) as [o2 c2 e2| |] eqn:E2; try discriminate H.
      simpl in H. inversion H; subst.
      pose proof (IHrs _ _ _ _ _ Hls (ev_okb _ _ _ _ _ E Hb) E2) as K2.
      eapply cres_mono; [|apply (cres_T (T c1)); [exact (proj1 (ev_T2 _ _ _ _ _ _ _ E)) | exact K2]].
      intros x Hx. eapply XS_ok; eauto.
    + inversion H; subst. pose proof (IH _ _ _ _ _ _ Hl Hb E) as K1. unfold concl2 in K1. simpl in *. apply XS_fail. exact K1.
    + inversion H; subst. pose proof (IH _ _ _ _ _ _ Hl Hb E) as K1. unfold concl2 in K1.
      eapply cres_exc; [|exact K1]. intros w s0 Hr. apply XS_raise; exact Hr.
Qed.

Lemma sor_one2 r c o c' : concl2 r c o c' -> cres (T c) o c' (XSor G [r] (rest c)).
Proof.
  unfold concl2. destruct o as [| |ex]; simpl.
  - intros K. eapply XO_ok; exact K.
  - intros K. apply XO_next; [exact K | apply XO_nil].
  - intros [w [p [s0 [He [Hr Hp]]]]]. exists w, p, s0. split; [exact He | split; [apply XO_raise; exact Hr | exact Hp]].
Qed.

Lemma sor_sound2 rs : forall d c o c' evs, Forall (fun r1 => (r1 < length G)%nat) rs -> bytes_ok (rest c) ->
  sor_any (eval G C f) d rs c = Res o c' evs -> cres (T c) o c' (XSor G rs (rest c)).
Proof.
  induction rs as [|r rs IHrs]; intros d c o c' evs Hcl Hb H.
  - simpl in H. inversion H; subst. simpl. apply XO_nil.
  - inversion Hcl as [|? ? Hl Hls]; subst. destruct rs as [|r2 rs'].
    + simpl in H. apply sor_one2. eapply IH; eauto.
    + change (sor_any (eval G C f) d (r :: r2 :: rs') c) with
        (match eval G C f (req d) r c with Res Fail c1 vs1 => prepend vs1 (sor_any (eval G C f) d (r2 :: rs') c1) | x => x end) in H.
      destruct (eval G C f (req d) r c) as [[| |ex] c1 vs1| |] eqn:E; try discriminate H.
      * inversion H; subst. pose proof (IH _ _ _ _ _ _ Hl Hb E) as K1. unfold concl2 in K1. simpl in *. eapply XO_ok; exact K1.
      * pose proof (ev_req_fail G C HG _ _ _ _ _ _ E) as Ec. subst c1.
        destruct (sor_any (eval G C f) d (r2 :: rs') c) as [o2 c2 e2| |] eqn:E2; try discriminate H.
        simpl in H. inversion H; subst.
        pose proof (IH _ _ _ _ _ _ Hl Hb E) as K1. unfold concl2 in K1. simpl in K1.
        pose proof (IHrs _ _ _ _ _ Hls Hb E2) as K2.
        eapply cres_mono; [|exact K2]. intros x Hx. apply XO_next; assumption.
      * inversion H; subst. pose proof (IH _ _ _ _ _ _ Hl Hb E) as K1. unfold concl2 in K1.
        eapply cres_exc; [|exact K1]. intros w s0 Hr. apply XO_raise; exact Hr.
Qed.

Lemma star_sound2 k : forall d r1 c o c' evs, (r1 < length G)%nat -> bytes_ok (rest c) ->
  star_loop (eval G C f) k d [r1] c = Res o c' evs -> cres (T c) o c' (XStar G r1 (rest c)).
Proof.
  induction k as [|k IHk]; intros d r1 c o c' evs Hl Hb H; [discriminate H|].
  cbn [star_loop seq_all] in H. unfold bind in H.
  destruct (eval G C f (req d) r1 c) as [[| |ex] c1 e1| |] eqn:E; try discriminate H.
  - simpl in H. rewrite app_nil_r in H.
    destruct (star_loop (eval G C f) k d [r1] c1) as [o2 c2 e2| |] eqn:E2; try discriminate H.
    simpl in H. inversion H; subst.
    pose proof (IH _ _ _ _ _ _ Hl Hb E) as K1. unfold concl2 in K1. simpl in K1.
    pose proof (IHk _ _ _ _ _ _ Hl (ev_okb _ _ _ _ _ E Hb) E2) as K2.
    eapply cres_mono; [|apply (cres_T (T c1)); [exact (proj1 (ev_T2 _ _ _ _ _ _ _ E)) | exact K2]].
    intros x Hx. eapply XT_step; eauto.
  - pose proof (ev_req_fail G C HG _ _ _ _ _ _ E) as Ec. subst c1. inversion H; subst.
    pose proof (IH _ _ _ _ _ _ Hl Hb E) as K1. unfold concl2 in K1. simpl in *. apply XT_end. exact K1.
  - inversion H; subst. pose proof (IH _ _ _ _ _ _ Hl Hb E) as K1. unfold concl2 in K1.
    eapply cres_exc; [|exact K1]. intros w s0 Hr. apply XT_raise; exact Hr.
Qed.

(* ---------- the new loops ---------- *)
Lemma until1_sound k : forall d cnd c o c' evs, (cnd < length G)%nat -> bytes_ok (rest c) ->
  until1_loop C (eval G C f) k d cnd c = Res o c' evs -> cres (T c) o c' (XUntil1 G cnd (rest c)).
Proof.
  induction k as [|k IHk]; intros d cnd c o c' evs Hl Hb H; [discriminate H|].
  cbn [until1_loop] in H.
  destruct (eval G C f (req d) cnd c) as [[| |ex] c1 e1| |] eqn:E; try discriminate H.
  - inversion H; subst. pose proof (IH _ _ _ _ _ _ Hl Hb E) as K1. unfold concl2 in K1. simpl in *. apply XU1_ok. exact K1.
  - pose proof (ev_req_fail G C HG _ _ _ _ _ _ E) as Ec. subst c1.
    pose proof (IH _ _ _ _ _ _ Hl Hb E) as K1. unfold concl2 in K1. simpl in K1.
    destruct (in_empty c) eqn:Ee.
    + unfold in_empty in Ee. destruct (rest c) as [|b tl] eqn:Er; [|discriminate Ee].
      inversion H; subst o c' evs. simpl. apply XU1_eof. exact K1.
    + destruct (bump_scan (eol_ch (ceol C)) 1 c) as [c2|] eqn:Eb; [|discriminate H].
      destruct (until1_loop C (eval G C f) k d cnd c2) as [o2 c3 e3| |] eqn:E2; try discriminate H.
      simpl in H. inversion H; subst.
      pose proof (proj1 (adv_T _ _ (bump_scan_PB _ _ _ _ Eb))) as Et.
      simpl in Eb. destruct (rest c) as [|b tl] eqn:Er; [discriminate Eb|].
      assert (Er2 : rest c2 = tl) by (inversion Eb; reflexivity).
      assert (Hb2 : bytes_ok (rest c2)) by (rewrite Er2; inversion Hb; assumption).
      pose proof (IHk _ _ _ _ _ _ Hl Hb2 E2) as K2. rewrite Er2 in K2.
      eapply cres_mono; [|apply (cres_T _ _ _ _ _ Et); exact K2].
      intros x Hx. apply XU1_skip; assumption.
  - inversion H; subst. pose proof (IH _ _ _ _ _ _ Hl Hb E) as K1. unfold concl2 in K1.
    eapply cres_exc; [|exact K1]. intros w s0 Hr. apply XU1_raise; exact Hr.
Qed.

Lemma until2_sound k : forall d cnd r1 c o c' evs, (cnd < length G)%nat -> (r1 < length G)%nat -> bytes_ok (rest c) ->
  until2_loop (eval G C f) k d cnd r1 c = Res o c' evs -> cres (T c) o c' (XUntil2 G cnd r1 (rest c)).
Proof.
  induction k as [|k IHk]; intros d cnd r1 c o c' evs Hl Hl1 Hb H; [discriminate H|].
  cbn [until2_loop] in H.
  destruct (eval G C f (req d) cnd c) as [[| |ex] c1 e1| |] eqn:E; try discriminate H.
  - inversion H; subst. pose proof (IH _ _ _ _ _ _ Hl Hb E) as K1. unfold concl2 in K1. simpl in *. apply XU2_ok. exact K1.
  - pose proof (ev_req_fail G C HG _ _ _ _ _ _ E) as Ec. subst c1.
    pose proof (IH _ _ _ _ _ _ Hl Hb E) as K1. unfold concl2 in K1. simpl in K1.
    destruct (eval G C f (opt_ d) r1 c) as [[| |ex] c2 e2| |] eqn:E2; simpl in H; try discriminate H.
    + destruct (until2_loop (eval G C f) k d cnd r1 c2) as [o3 c3 e3| |] eqn:E3; simpl in H; try discriminate H.
      inversion H; subst.
      pose proof (IH _ _ _ _ _ _ Hl1 Hb E2) as K2. unfold concl2 in K2. simpl in K2.
      pose proof (IHk _ _ _ _ _ _ _ Hl Hl1 (ev_okb _ _ _ _ _ E2 Hb) E3) as K3.
      eapply cres_mono; [|apply (cres_T (T c2)); [exact (proj1 (ev_T2 _ _ _ _ _ _ _ E2)) | exact K3]].
      intros x Hx. eapply XU2_step; eauto.
    + inversion H; subst. pose proof (IH _ _ _ _ _ _ Hl1 Hb E2) as K2. unfold concl2 in K2. simpl in *.
      apply XU2_fail; assumption.
    + inversion H; subst. pose proof (IH _ _ _ _ _ _ Hl1 Hb E2) as K2. unfold concl2 in K2.
      eapply cres_exc; [|exact K2]. intros w s0 Hr. apply XU2_rraise; assumption.
  - inversion H; subst. pose proof (IH _ _ _ _ _ _ Hl Hb E) as K1. unfold concl2 in K1.
    eapply cres_exc; [|exact K1]. intros w s0 Hr. apply XU2_raise; exact Hr.
Qed.

Lemma rep_sound k : forall d r1 c o c' evs, (r1 < length G)%nat -> bytes_ok (rest c) ->
  rep_loop (eval G C f) k d r1 c = Res o c' evs ->
  cres (T c) o c' (XRep G k r1 (rest c)) /\ (o = Ok -> T c' = T c /\ bytes_ok (rest c')).
Proof.
  induction k as [|k IHk]; intros d r1 c o c' evs Hl Hb H.
  - simpl in H. inversion H; subst. split; [simpl; apply XR_zero | auto].
  - cbn [rep_loop] in H. unfold bind in H.
    destruct (eval G C f d r1 c) as [[| |ex] c1 e1| |] eqn:E; try discriminate H.
    + destruct (rep_loop (eval G C f) k d r1 c1) as [o2 c2 e2| |] eqn:E2; try discriminate H.
      simpl in H. inversion H; subst.
      pose proof (IH _ _ _ _ _ _ Hl Hb E) as K1. unfold concl2 in K1. simpl in K1.
      pose proof (proj1 (ev_T2 _ _ _ _ _ _ _ E)) as Et.
      destruct (IHk _ _ _ _ _ _ Hl (ev_okb _ _ _ _ _ E Hb) E2) as [K2 K3]. split.
      * eapply cres_mono; [|apply (cres_T (T c1)); [exact Et | exact K2]]. intros x Hx. eapply XR_step; eauto.
      * intros Eo. destruct (K3 Eo) as [A B]. split; [congruence | exact B].
    + inversion H; subst. pose proof (IH _ _ _ _ _ _ Hl Hb E) as K1. unfold concl2 in K1. simpl in *.
      split; [apply XR_fail; exact K1 | discriminate].
    + inversion H; subst. pose proof (IH _ _ _ _ _ _ Hl Hb E) as K1. unfold concl2 in K1.
      split; [|discriminate]. eapply cres_exc; [|exact K1]. intros w s0 Hr. apply XR_raise; exact Hr.
Qed.

Lemma repopt_sound k : forall d r1 c x b, (r1 < length G)%nat -> bytes_ok (rest c) ->
  repopt_loop (eval G C f) k d r1 c = (x, b) -> forall o c' evs, x = Res o c' evs ->
  cres (T c) o c' (XRepOpt G k r1 (rest c)) /\ o <> Fail /\
  (o = Ok -> T c' = T c /\ bytes_ok (rest c') /\ (b = false -> XPeg G r1 (rest c') RFail)).
Proof.
  induction k as [|k IHk]; intros d r1 c x b Hl Hb H o c' evs Hx; subst x.
  - simpl in H. inversion H; subst o c' evs b. split; [simpl; apply XQ_zero|]. split; [discriminate|].
    intros _. split; [reflexivity|]. split; [exact Hb | discriminate].
  - cbn [repopt_loop] in H.
    destruct (eval G C f (req d) r1 c) as [[| |ex] c1 e1| |] eqn:E.
    + destruct (repopt_loop (eval G C f) k d r1 c1) as [x2 b2] eqn:E2.
      destruct x2 as [o2 c2 e2| |]; simpl in H; try discriminate H. inversion H; subst o2 c2 evs b2.
      pose proof (IH _ _ _ _ _ _ Hl Hb E) as K1. unfold concl2 in K1. simpl in K1.
      pose proof (proj1 (ev_T2 _ _ _ _ _ _ _ E)) as Et.
      destruct (IHk _ _ _ _ _ Hl (ev_okb _ _ _ _ _ E Hb) E2 _ _ _ eq_refl) as [K2 [K3 K4]]. split; [|split; [exact K3|]].
      * eapply cres_mono; [|apply (cres_T (T c1)); [exact Et | exact K2]]. intros x Hx'. eapply XQ_step; eauto.
      * intros Eo. destruct (K4 Eo) as [A B]. split; [congruence | exact B].
    + pose proof (ev_req_fail G C HG _ _ _ _ _ _ E) as Ec. subst c1. inversion H; subst o c' evs b.
      pose proof (IH _ _ _ _ _ _ Hl Hb E) as K1. unfold concl2 in K1. simpl in K1.
      split; [simpl; apply XQ_stop; exact K1|]. split; [discriminate|]. intros _. split; [reflexivity|]. split; [exact Hb | intros _; exact K1].
    + inversion H; subst o c' evs b.
      pose proof (IH _ _ _ _ _ _ Hl Hb E) as K1. unfold concl2 in K1.
      split; [|split; discriminate]. eapply cres_exc; [|exact K1]. intros w s0 Hr. apply XQ_raise; exact Hr.
    + discriminate H.
    + discriminate H.
Qed.

(* one node, given that its sub-rules satisfy IH *)
Lemma node_sound2 nd d r c o c' evs : nth_error G r = Some nd -> bytes_ok (rest c) ->
  eval G C (S f) d r c = Res o c' evs -> concl2 r c o c'.
Proof.
  intros Hn Hb H.
  destruct (eval_unfold G C Hacts Habeh Hrof _ _ _ _ _ _ _ _ Hn H) as [d' [c1 [evs1 [Hh [Hc _]]]]]. clear H.
  pose proof (Hcm r nd Hn) as Hk. unfold cm2_node in Hk. destruct Hk as [Hcl Hk]. unfold concl2.
  destruct (nhead nd) eqn:Eh;
  try (destruct Hk as [Hs [a Ha]]; rewrite Hs in Hh;
       destruct (atom_sound _ _ _ _ _ _ _ _ _ Ha Hb Hh) as [v [Hv Hp]];
       rewrite <- Eh in Ha;
       pose proof (XP_atom G r nd a (rest c) v Hn Hs Ha Hp) as K;
       destruct o as [| |ex]; simpl in Hv; inversion Hv; subst v; simpl in K; simpl;
       [rewrite (Hc eq_refl); exact K | exact K]; fail).
  - (* seq *) unfold eval_head in Hh. simpl in Hh. unfold h_seq in Hh.
    eapply cres_mono; [intros x Hx; exact (XP_seq G r nd (rest c) x Hn Eh Hk Hx)|].
    destruct (nsubs nd) as [|r1 [|r2 rs]] eqn:Es; [congruence | |].
    + apply Forall_one in Hcl. rename Hcl into Hl. pose proof (IH _ _ _ _ _ _ Hl Hb Hh) as K1. unfold concl2 in K1.
      eapply cres_cur; [|exact Hc].
      destruct o as [| |ex]; simpl in *.
      * eapply XS_ok; [exact K1 | apply XS_nil].
      * apply XS_fail; exact K1.
      * destruct K1 as [w [p [s0 [He [Hr Hp]]]]]. exists w, p, s0. split; [exact He | split; [apply XS_raise; exact Hr | exact Hp]].
    + apply guard_inv in Hh. destruct Hh as [c2 [Hh Hc2]].
      eapply cres_cur; [eapply seq_sound2; eauto|]. intros E. rewrite (Hc E). symmetry. apply Hc2. exact E.
  - (* sor *) unfold eval_head in Hh. simpl in Hh.
    eapply cres_mono; [intros x Hx; exact (XP_sor G r nd (rest c) x Hn Eh Hk Hx)|].
    eapply cres_cur; [eapply sor_sound2; eauto | exact Hc].
  - (* star *) destruct Hk as [r1 Hs]. rewrite Hs in Hh, Hcl. apply Forall_one in Hcl. rename Hcl into Hl. unfold eval_head in Hh. simpl in Hh.
    eapply cres_mono; [intros x Hx; exact (XP_star G r nd r1 (rest c) x Hn Eh Hs Hx)|].
    eapply cres_cur; [eapply star_sound2; eauto | exact Hc].
  - (* plus *) destruct Hk as [r1 Hs]. rewrite Hs in Hh, Hcl. apply Forall_one in Hcl. rename Hcl into Hl. unfold eval_head in Hh. simpl in Hh.
    unfold h_plus, bind in Hh.
    destruct (eval G C f d' r1 c) as [[| |ex] c2 e2| |] eqn:E; try discriminate Hh.
    + destruct (star_loop (eval G C f) f d' [r1] c2) as [o3 c3 e3| |] eqn:E3; try discriminate Hh.
      simpl in Hh. inversion Hh; subst.
      pose proof (IH _ _ _ _ _ _ Hl Hb E) as K1. unfold concl2 in K1. simpl in K1.
      pose proof (star_sound2 _ _ _ _ _ _ _ Hl (ev_okb _ _ _ _ _ E Hb) E3) as K2.
      eapply cres_cur; [|exact Hc].
      eapply cres_mono; [|apply (cres_T (T c2)); [exact (proj1 (ev_T2 _ _ _ _ _ _ _ E)) | exact K2]].
      intros x Hx. exact (XP_plus_step G r nd r1 (rest c) (rest c2) x Hn Eh Hs K1 Hx).
    + inversion Hh; subst. pose proof (IH _ _ _ _ _ _ Hl Hb E) as K1. unfold concl2 in K1. simpl in *.
      exact (XP_plus_fail G r nd r1 (rest c) Hn Eh Hs K1).
    + inversion Hh; subst. pose proof (IH _ _ _ _ _ _ Hl Hb E) as K1. unfold concl2 in K1.
      eapply cres_exc; [|exact K1]. intros w s0 Hr. exact (XP_plus_raise G r nd r1 (rest c) w s0 Hn Eh Hs Hr).
  - (* opt *) destruct Hk as [r1 Hs]. rewrite Hs in Hh, Hcl. apply Forall_one in Hcl. rename Hcl into Hl. unfold eval_head in Hh. simpl in Hh.
    unfold h_partial in Hh. cbn [seq_all] in Hh. unfold bind in Hh.
    destruct (eval G C f (req d') r1 c) as [[| |ex] c2 e2| |] eqn:E; try discriminate Hh.
    + simpl in Hh. inversion Hh; subst. pose proof (IH _ _ _ _ _ _ Hl Hb E) as K1. unfold concl2 in K1. simpl in *.
      rewrite (Hc eq_refl). exact (XP_opt_ok G r nd r1 (rest c) (rest c1) Hn Eh Hs K1).
    + pose proof (ev_req_fail G C HG _ _ _ _ _ _ E) as Ec. subst c2. inversion Hh; subst.
      pose proof (IH _ _ _ _ _ _ Hl Hb E) as K1. unfold concl2 in K1. simpl in *.
      rewrite (Hc eq_refl). exact (XP_opt_none G r nd r1 (rest c1) Hn Eh Hs K1).
    + inversion Hh; subst. pose proof (IH _ _ _ _ _ _ Hl Hb E) as K1. unfold concl2 in K1.
      eapply cres_exc; [|exact K1]. intros w s0 Hr. exact (XP_opt_raise G r nd r1 (rest c) w s0 Hn Eh Hs Hr).
  - (* at *) destruct Hk as [r1 Hs]. rewrite Hs in Hh, Hcl. apply Forall_one in Hcl. rename Hcl into Hl. unfold eval_head in Hh. simpl in Hh.
    unfold h_at in Hh. apply look_inv in Hh. destruct Hh as [Ec Hx]. subst c1.
    destruct (eval G C f (set_A (opt_ d') false) r1 c) as [[| |ex] c2 e2| |] eqn:E; try contradiction;
    pose proof (IH _ _ _ _ _ _ Hl Hb E) as K1; unfold concl2 in K1; subst o.
    + simpl in *. rewrite (Hc eq_refl). exact (XP_at_ok G r nd r1 (rest c) (rest c2) Hn Eh Hs K1).
    + simpl in *. exact (XP_at_fail G r nd r1 (rest c) Hn Eh Hs K1).
    + eapply cres_exc; [|exact K1]. intros w s0 Hr. exact (XP_at_raise G r nd r1 (rest c) w s0 Hn Eh Hs Hr).
  - (* not_at *) destruct Hk as [r1 Hs]. rewrite Hs in Hh, Hcl. apply Forall_one in Hcl. rename Hcl into Hl. unfold eval_head in Hh. simpl in Hh.
    unfold h_at in Hh. apply look_inv in Hh. destruct Hh as [Ec Hx]. subst c1.
    destruct (eval G C f (set_A (opt_ d') false) r1 c) as [[| |ex] c2 e2| |] eqn:E; try contradiction;
    pose proof (IH _ _ _ _ _ _ Hl Hb E) as K1; unfold concl2 in K1; subst o.
    + simpl in *. exact (XP_not_at_ok G r nd r1 (rest c) (rest c2) Hn Eh Hs K1).
    + simpl in *. rewrite (Hc eq_refl). exact (XP_not_at_fail G r nd r1 (rest c) Hn Eh Hs K1).
    + eapply cres_exc; [|exact K1]. intros w s0 Hr. exact (XP_not_at_raise G r nd r1 (rest c) w s0 Hn Eh Hs Hr).
  - (* until< C > *) destruct Hk as [cnd Hs]. rewrite Hs in Hh, Hcl. apply Forall_one in Hcl. rename Hcl into Hl. unfold eval_head in Hh. simpl in Hh.
    unfold h_until1 in Hh. apply guard_inv in Hh. destruct Hh as [c2 [Hh Hc2]].
    eapply cres_mono; [intros x Hx; exact (XP_until1 G r nd cnd (rest c) x Hn Eh Hs Hx)|].
    eapply cres_cur; [eapply until1_sound; eauto|]. intros E. rewrite (Hc E). symmetry. apply Hc2. exact E.
  - (* until< C, R > *) destruct Hk as [cnd [r1 Hs]]. rewrite Hs in Hh, Hcl. apply Forall_two in Hcl. destruct Hcl as [Hl Hl1]. unfold eval_head in Hh. simpl in Hh.
    unfold h_until2 in Hh. apply guard_inv in Hh. destruct Hh as [c2 [Hh Hc2]].
    eapply cres_mono; [intros x Hx; exact (XP_until2 G r nd cnd r1 (rest c) x Hn Eh Hs Hx)|].
    eapply cres_cur; [eapply until2_sound; eauto|]. intros E. rewrite (Hc E). symmetry. apply Hc2. exact E.
  - (* rep *) destruct Hk as [r1 Hs]. rewrite Hs in Hh, Hcl. apply Forall_one in Hcl. rename Hcl into Hl. unfold eval_head in Hh. simpl in Hh.
    unfold h_rep in Hh. apply guard_inv in Hh. destruct Hh as [c2 [Hh Hc2]].
    eapply cres_mono; [intros x Hx; exact (XP_rep G r nd n r1 (rest c) x Hn Eh Hs Hx)|].
    eapply cres_cur; [exact (proj1 (rep_sound _ _ _ _ _ _ _ Hl Hb Hh))|]. intros E. rewrite (Hc E). symmetry. apply Hc2. exact E.
  - (* rep_min_max *) destruct Hk as [r1 Hs]. rewrite Hs in Hh, Hcl. apply Forall_one in Hcl. rename Hcl into Hl. unfold eval_head in Hh. simpl in Hh.
    unfold h_rep_min_max in Hh. apply guard_inv in Hh. destruct Hh as [c2 [Hh Hc2]].
    assert (Hcc : o = Ok -> c' = c2) by (intros E; rewrite (Hc E); symmetry; apply Hc2; exact E).
    eapply cres_cur; [|exact Hcc]. clear Hc Hc2 Hcc.
    unfold bind in Hh.
    destruct (rep_loop (eval G C f) mn (opt_ d') r1 c) as [[| |ex] c3 e3| |] eqn:E1; try discriminate Hh.
    + destruct (rep_sound _ _ _ _ _ _ _ Hl Hb E1) as [K1 K1b]. simpl in K1. destruct (K1b eq_refl) as [Et3 Hb3].
      destruct (repopt_loop (eval G C f) (mx - mn) d' r1 c3) as [x2 b2] eqn:E2.
      destruct x2 as [o4 c4 e4| |]; [|destruct b2; discriminate Hh|destruct b2; discriminate Hh].
      destruct (repopt_sound _ _ _ _ _ _ Hl Hb3 E2 _ _ _ eq_refl) as [K2 [K2f K2b]].
      destruct o4 as [| |ex4]; [|congruence|].
      * (* the optional part succeeded *)
        simpl in K2. destruct (K2b eq_refl) as [Et4 [Hb4 Kstop]].
        destruct b2.
        -- (* ran to completion: not_at< R > *)
           simpl in Hh. unfold h_at in Hh.
           destruct (eval G C f (set_A (opt_ (opt_ d')) false) r1 c4) as [[| |ex5] c5 e5| |] eqn:E5; simpl in Hh; try discriminate Hh;
           inversion Hh; subst; pose proof (IH _ _ _ _ _ _ Hl Hb4 E5) as K5; unfold concl2 in K5.
           ++ simpl in *. exact (XP_rmm_more G r nd mn mx r1 (rest c) (rest c3) (rest c2) (rest c5) Hn Eh Hs K1 K2 K5).
           ++ simpl in *. exact (XP_rmm_ok G r nd mn mx r1 (rest c) (rest c3) (rest c2) Hn Eh Hs K1 K2 K5).
           ++ apply (cres_T (T c2)); [congruence|].
              eapply cres_exc; [|exact K5]. intros w s0 Hr.
              exact (XP_rmm_more_raise G r nd mn mx r1 (rest c) (rest c3) (rest c2) w s0 Hn Eh Hs K1 K2 Hr).
        -- (* stopped early: R has just failed here *)
           simpl in Hh. inversion Hh; subst. simpl.
           exact (XP_rmm_ok G r nd mn mx r1 (rest c) (rest c3) (rest c2) Hn Eh Hs K1 K2 (Kstop eq_refl)).
      * (* the optional part raised *)
        assert (Hh' : Res (Exc ex4) c4 (e3 ++ e4) = Res o c2 evs1) by (destruct b2; exact Hh).
        inversion Hh'; subst.
        apply (cres_T (T c3)); [exact Et3|].
        eapply cres_exc; [|exact K2]. intros w s0 Hr.
        exact (XP_rmm_opt_raise G r nd mn mx r1 (rest c) (rest c3) w s0 Hn Eh Hs K1 Hr).
    + inversion Hh; subst. destruct (rep_sound _ _ _ _ _ _ _ Hl Hb E1) as [K1 _]. simpl in *.
      exact (XP_rmm_fail G r nd mn mx r1 (rest c) Hn Eh Hs K1).
    + inversion Hh; subst. destruct (rep_sound _ _ _ _ _ _ _ Hl Hb E1) as [K1 _].
      eapply cres_exc; [|exact K1]. intros w s0 Hr. exact (XP_rmm_raise G r nd mn mx r1 (rest c) w s0 Hn Eh Hs Hr).
  - (* rep_opt *) destruct Hk as [r1 Hs]. rewrite Hs in Hh, Hcl. apply Forall_one in Hcl. rename Hcl into Hl. unfold eval_head in Hh. simpl in Hh.
    unfold h_rep_opt in Hh.
    destruct (repopt_loop (eval G C f) mx d' r1 c) as [x2 b2] eqn:E2. simpl in Hh. subst x2.
    destruct (repopt_sound _ _ _ _ _ _ Hl Hb E2 _ _ _ eq_refl) as [K2 _].
    eapply cres_mono; [intros x Hx; exact (XP_rep_opt G r nd mx r1 (rest c) x Hn Eh Hs Hx)|].
    eapply cres_cur; [exact K2 | exact Hc].
  - (* if_then_else *) destruct Hk as [cnd [t [e Hs]]]. rewrite Hs in Hh, Hcl. apply Forall_three in Hcl. destruct Hcl as [Hl [Hlt Hle]]. unfold eval_head in Hh. simpl in Hh.
    unfold h_if_then_else in Hh. apply guard_inv in Hh. destruct Hh as [c2 [Hh Hc2]].
    assert (Hcc : o = Ok -> c' = c2) by (intros E; rewrite (Hc E); symmetry; apply Hc2; exact E).
    eapply cres_cur; [|exact Hcc]. clear Hc Hc2 Hcc.
    destruct (eval G C f (req d') cnd c) as [[| |ex] c3 e3| |] eqn:E; try discriminate Hh.
    + destruct (eval G C f (opt_ d') t c3) as [o4 c4 e4| |] eqn:E4; simpl in Hh; try discriminate Hh. inversion Hh; subst.
      pose proof (IH _ _ _ _ _ _ Hl Hb E) as K1. unfold concl2 in K1. simpl in K1.
      pose proof (IH _ _ _ _ _ _ Hlt (ev_okb _ _ _ _ _ E Hb) E4) as K4. unfold concl2 in K4.
      eapply cres_mono; [|apply (cres_T (T c3)); [exact (proj1 (ev_T2 _ _ _ _ _ _ _ E)) | exact K4]].
      intros x Hx. exact (XP_ite_then G r nd cnd t e (rest c) (rest c3) x Hn Eh Hs K1 Hx).
    + pose proof (ev_req_fail G C HG _ _ _ _ _ _ E) as Ec. subst c3.
      destruct (eval G C f (opt_ d') e c) as [o4 c4 e4| |] eqn:E4; simpl in Hh; try discriminate Hh. inversion Hh; subst.
      pose proof (IH _ _ _ _ _ _ Hl Hb E) as K1. unfold concl2 in K1. simpl in K1.
      pose proof (IH _ _ _ _ _ _ Hle Hb E4) as K4. unfold concl2 in K4.
      eapply cres_mono; [|exact K4].
      intros x Hx. exact (XP_ite_else G r nd cnd t e (rest c) x Hn Eh Hs K1 Hx).
    + inversion Hh; subst. pose proof (IH _ _ _ _ _ _ Hl Hb E) as K1. unfold concl2 in K1.
      eapply cres_exc; [|exact K1]. intros w s0 Hr. exact (XP_ite_raise G r nd cnd t e (rest c) w s0 Hn Eh Hs Hr).
  - (* if_must *) destruct Hk as [[cnd [m [Hs Hm]]] | [cnd Hs]].
    + rewrite Hs in Hh, Hcl. apply Forall_two in Hcl. destruct Hcl as [Hl Hl2]. unfold eval_head in Hh. simpl in Hh.
      unfold h_if_must in Hh.
      destruct (eval G C f (if dflt then req d' else d') cnd c) as [[| |ex] c2 e2| |] eqn:E; try discriminate Hh.
      * pose proof (IH _ _ _ _ _ _ Hl Hb E) as K1. unfold concl2 in K1. simpl in K1.
        assert (Hb2 : bytes_ok (rest c2)) by (eapply (ev_bytes G C HG); eauto; discriminate).
        destruct (eval G C f d' m c2) as [[| |ex] c3 e3| |] eqn:E3; try discriminate Hh.
        -- simpl in Hh. inversion Hh; subst. pose proof (IH _ _ _ _ _ _ Hl2 Hb2 E3) as K2. unfold concl2 in K2. simpl in *.
           rewrite (Hc eq_refl). exact (XP_ifmust_ok G r nd dflt cnd m (rest c) (rest c2) (rest c1) Hn Eh Hs K1 K2).
        -- exfalso. exact (must_like_nofail G C Hacts Habeh Hrof _ _ _ _ _ _ Hm E3).
        -- simpl in Hh. inversion Hh; subst. pose proof (IH _ _ _ _ _ _ Hl2 Hb2 E3) as K2. unfold concl2 in K2.
           apply (cres_T (T c2)); [exact (proj1 (ev_T2 _ _ _ _ _ _ _ E))|].
           eapply cres_exc; [|exact K2]. intros w s0 Hr.
           exact (XP_ifmust_raise G r nd dflt cnd m (rest c) (rest c2) w s0 Hn Eh Hs K1 Hr).
      * pose proof (IH _ _ _ _ _ _ Hl Hb E) as K1. unfold concl2 in K1. simpl in K1.
        pose proof (XP_ifmust_cfail G r nd dflt cnd m (rest c) Hn Eh Hs K1) as K.
        destruct dflt.
        -- pose proof (ev_req_fail G C HG _ _ _ _ _ _ E) as Ec. subst c2. inversion Hh; subst.
           simpl. rewrite (Hc eq_refl). exact K.
        -- inversion Hh; subst. simpl. exact K.
      * inversion Hh; subst. pose proof (IH _ _ _ _ _ _ Hl Hb E) as K1. unfold concl2 in K1.
        eapply cres_exc; [|exact K1]. intros w s0 Hr. exact (XP_ifmust_craise G r nd dflt cnd m (rest c) w s0 Hn Eh Hs Hr).
    + rewrite Hs in Hh, Hcl. apply Forall_one in Hcl. rename Hcl into Hl. unfold eval_head in Hh. simpl in Hh.
      unfold h_if_must in Hh.
      destruct (eval G C f (if dflt then req d' else d') cnd c) as [[| |ex] c2 e2| |] eqn:E; try discriminate Hh.
      * inversion Hh; subst. pose proof (IH _ _ _ _ _ _ Hl Hb E) as K1. unfold concl2 in K1. simpl in *.
        rewrite (Hc eq_refl). exact (XP_ifmust1_ok G r nd dflt cnd (rest c) (rest c1) Hn Eh Hs K1).
      * pose proof (IH _ _ _ _ _ _ Hl Hb E) as K1. unfold concl2 in K1. simpl in K1.
        pose proof (XP_ifmust1_fail G r nd dflt cnd (rest c) Hn Eh Hs K1) as K.
        destruct dflt.
        -- pose proof (ev_req_fail G C HG _ _ _ _ _ _ E) as Ec. subst c2. inversion Hh; subst.
           simpl. rewrite (Hc eq_refl). exact K.
        -- inversion Hh; subst. simpl. exact K.
      * inversion Hh; subst. pose proof (IH _ _ _ _ _ _ Hl Hb E) as K1. unfold concl2 in K1.
        eapply cres_exc; [|exact K1]. intros w s0 Hr. exact (XP_ifmust1_raise G r nd dflt cnd (rest c) w s0 Hn Eh Hs Hr).
  - (* must *) destruct Hk as [r1 Hs]. rewrite Hs in Hh, Hcl. apply Forall_one in Hcl. rename Hcl into Hl. unfold eval_head in Hh. simpl in Hh.
    unfold h_must in Hh.
    destruct (eval G C f (opt_ d') r1 c) as [[| |ex] c2 e2| |] eqn:E; try discriminate Hh.
    + inversion Hh; subst. pose proof (IH _ _ _ _ _ _ Hl Hb E) as K1. unfold concl2 in K1. simpl in *.
      rewrite (Hc eq_refl). exact (XP_must_ok G r nd r1 (rest c) (rest c1) Hn Eh Hs K1).
    + unfold raise_at in Hh. inversion Hh; subst.
      pose proof (IH _ _ _ _ _ _ Hl Hb E) as K1. unfold concl2 in K1. simpl in *.
      exists r1, (cpos c1), (rest c). split; [reflexivity|].
      split; [exact (XP_must_fail G r nd r1 (rest c) Hn Eh Hs K1)|].
      pose proof (proj2 (ev_T2 _ _ _ _ _ _ _ E)) as Et. unfold T. lia.
    + inversion Hh; subst. pose proof (IH _ _ _ _ _ _ Hl Hb E) as K1. unfold concl2 in K1.
      eapply cres_exc; [|exact K1]. intros w s0 Hr. exact (XP_must_raise G r nd r1 (rest c) w s0 Hn Eh Hs Hr).
  - (* raise *) destruct Hk as [t Hs]. rewrite Hs in Hh. unfold eval_head in Hh. simpl in Hh.
    unfold raise_at in Hh. inversion Hh; subst. simpl.
    exists t, (cpos c1), (rest c1). split; [reflexivity|].
    split; [exact (XP_raise G r nd t (rest c1) Hn Eh Hs) | unfold T; lia].
  - (* try_catch_return_false *) destruct Hk as [r1 Hs]. rewrite Hs in Hh, Hcl. apply Forall_one in Hcl. rename Hcl into Hl. unfold eval_head in Hh. simpl in Hh.
    unfold h_try_false in Hh.
    destruct (eval G C f (opt_ d') r1 c) as [[| |ex] c2 e2| |] eqn:E; try discriminate Hh.
    + inversion Hh; subst. pose proof (IH _ _ _ _ _ _ Hl Hb E) as K1. unfold concl2 in K1. simpl in *.
      rewrite (Hc eq_refl). exact (XP_try_ok G r nd f0 r1 (rest c) (rest c1) Hn Eh Hs K1).
    + inversion Hh; subst. pose proof (IH _ _ _ _ _ _ Hl Hb E) as K1. unfold concl2 in K1. simpl in *.
      exact (XP_try_fail G r nd f0 r1 (rest c) Hn Eh Hs K1).
    + pose proof (IH _ _ _ _ _ _ Hl Hb E) as K1. unfold concl2 in K1. simpl in K1.
      destruct K1 as [w [p [s0 [He [Hr Hp]]]]]. subst ex. rewrite catches_EParse in Hh.
      pose proof (XP_try_raise G r nd f0 r1 (rest c) w s0 Hn Eh Hs Hr) as K.
      destruct (catches_parse f0); inversion Hh; subst; simpl; [exact K|].
      exists w, p, s0. auto.
  - (* state *) destruct Hk as [r1 Hs]. rewrite Hs in Hh, Hcl. apply Forall_one in Hcl. rename Hcl into Hl. unfold eval_head in Hh. simpl in Hh.
    eapply cres_mono; [intros x Hx; exact (XP_wrap G r nd r1 (rest c) x Hn ltac:(rewrite Eh; reflexivity) Hs Hx)|].
    unfold st_scope in Hh. destruct (eval G C f d' r1 c) as [[| |ex] c2 e2| |] eqn:E; try discriminate Hh; inversion Hh; subst;
    (eapply cres_cur; [exact (IH _ _ _ _ _ _ Hl Hb E) | exact Hc]).
  - (* action *) destruct Hk as [r1 Hs]. rewrite Hs in Hh, Hcl. apply Forall_one in Hcl. rename Hcl into Hl. unfold eval_head in Hh. simpl in Hh.
    eapply cres_mono; [intros x Hx; exact (XP_wrap G r nd r1 (rest c) x Hn ltac:(rewrite Eh; reflexivity) Hs Hx)|].
    eapply cres_cur; [exact (IH _ _ _ _ _ _ Hl Hb Hh) | exact Hc].
  - (* control *) destruct Hk as [r1 Hs]. rewrite Hs in Hh, Hcl. apply Forall_one in Hcl. rename Hcl into Hl. unfold eval_head in Hh. simpl in Hh.
    eapply cres_mono; [intros x Hx; exact (XP_wrap G r nd r1 (rest c) x Hn ltac:(rewrite Eh; reflexivity) Hs Hx)|].
    eapply cres_cur; [exact (IH _ _ _ _ _ _ Hl Hb Hh) | exact Hc].
  - (* enable *) destruct Hk as [r1 Hs]. rewrite Hs in Hh, Hcl. apply Forall_one in Hcl. rename Hcl into Hl. unfold eval_head in Hh. simpl in Hh.
    eapply cres_mono; [intros x Hx; exact (XP_wrap G r nd r1 (rest c) x Hn ltac:(rewrite Eh; reflexivity) Hs Hx)|].
    eapply cres_cur; [exact (IH _ _ _ _ _ _ Hl Hb Hh) | exact Hc].
  - (* disable *) destruct Hk as [r1 Hs]. rewrite Hs in Hh, Hcl. apply Forall_one in Hcl. rename Hcl into Hl. unfold eval_head in Hh. simpl in Hh.
    eapply cres_mono; [intros x Hx; exact (XP_wrap G r nd r1 (rest c) x Hn ltac:(rewrite Eh; reflexivity) Hs Hx)|].
    eapply cres_cur; [exact (IH _ _ _ _ _ _ Hl Hb Hh) | exact Hc].
Qed.
End Step.

Theorem raise_sound2_sec : forall f d r c o c' evs, (r < length G)%nat -> bytes_ok (rest c) ->
  eval G C f d r c = Res o c' evs -> concl2 r c o c'.
Proof.
  induction f as [|f IHf]; intros d r c o c' evs Hl Hb H; [discriminate H|].
  destruct (nth_error G r) as [nd|] eqn:Hn.
  - eapply (node_sound2 f IHf); eauto.
  - apply nth_error_None in Hn. lia.
Qed.
End Raise2.

Theorem raise_sound2_pos : forall G C, table_wf G -> void_cfg C -> cm2_table G ->
  forall f d r c o c' evs, (r < length G)%nat -> bytes_ok (rest c) -> eval G C f d r c = Res o c' evs ->
  match o with
  | Ok => XPeg G r (rest c) (ROk (rest c'))
  | Fail => XPeg G r (rest c) RFail
  | Exc e => exists who p s0, e = EParse (WRule who) p /\ XPeg G r (rest c) (RRaise who s0) /\
               N.of_nat (length (rest c)) + pbyte (cpos c) <= pbyte p + N.of_nat (length s0)
  end.
Proof.
  intros G C HG [H1 [H2 H3]] Hcm f d r c o c' evs Hl Hb H.
  pose proof (raise_sound2_sec G C HG H1 H2 H3 Hcm f d r c o c' evs Hl Hb H) as K.
  unfold concl2, cres, T in K. destruct o; exact K.
Qed.

Print Assumptions raise_sound2_pos.
