(* EquivBisim2.v — C09: the table checker of EquivBisim.v extended with the expansions of EquivTable2 / EquivAtoms* /
   EquivShebang / EquivCong, recognised by pattern at the root, and proved sound:
     table_equiv2 G0 k r1 r2 = true  ->  in EVERY table G extending the schema G0, r1 and r2 are observationally equivalent.
   Used on the alias schemas dumped by the compiler on every run: c09_decided2 is whatever subset of ALL the
   (rule, reference clause) pairs the checker accepts on this run (no pair is assumed to be accepted). *)
From Coq Require Import Lia Bool ZArith NArith.
From PegtlV Require Import Base Decode Grammar Engine EngineFacts AtomFacts Mono Equiv EquivFacts EquivEval EquivHeads EquivTable EquivBisim
  EquivHeads2 EquivTable2 EquivTableU EquivCong EquivAtoms EquivAtoms2 EquivShebang EquivGen.

Section Check2.
Variable G0 : grammar.

Definition hd_of (r : rid) : option (head * list rid) :=
  match nth_error G0 r with Some nd => Some (nhead nd, nsubs nd) | None => None end.
Notation nis := (node_is G0).

Definition m_rep (r1 r2 : rid) : bool :=
  match hd_of r1 with Some (HRep n, [r]) => nis r1 (HRep n) [r] && nis r2 HSeq (repeat r n) | _ => false end.
Definition m_rep_opt (r1 r2 : rid) : bool :=
  match hd_of r1, hd_of r2 with
  | Some (HRepOpt n, [r]), Some (_, [o]) => nis r1 (HRepOpt n) [r] && nis r2 (HRep n) [o] && nis o HPartial [r]
  | _, _ => false end.
Definition m_rmm (r1 r2 : rid) : bool :=
  match hd_of r1, hd_of r2 with
  | Some (HRepMinMax mn mx, [r]), Some (_, [a; b; na]) =>
      nis r1 (HRepMinMax mn mx) [r] && nis r2 HSeq [a; b; na] && nis a (HRep mn) [r] && nis b (HRepOpt (mx - mn)) [r] && nis na HNotAt [r]
  | _, _ => false end.
Definition m_plus (r1 r2 : rid) : bool :=
  match hd_of r1, hd_of r2 with
  | Some (HPlus, [r]), Some (_, [x; st]) =>
      nis r1 HPlus [r] && nis r2 HSeq [x; st] && nis st HStarPartial [r] && ((x =? r) || nis x (HRep 1) [r])
  | _, _ => false end.
Definition m_opt (r1 r2 : rid) : bool :=
  match hd_of r1, hd_of r2 with
  | Some (HPartial, [r]), Some (_, [_; su]) => nis r1 HPartial [r] && nis r2 HSor [r; su] && nis su HSuccess []
  | _, _ => false end.
Definition m_partial (r1 r2 : rid) : bool :=
  match hd_of r1, hd_of r2 with
  | Some (HPartial, q1 :: qs), Some (_, [sq]) =>
      match hd_of sq with
      | Some (_, [_; p']) => nis r1 HPartial (q1 :: qs) && nis r2 HPartial [sq] && nis sq HSeq [q1; p'] && nis p' HPartial qs
      | _ => false end
  | _, _ => false end.
Definition m_until1 (r1 r2 : rid) : bool :=
  match hd_of r1, hd_of r2 with
  | Some (HUntil1, [cnd]), Some (_, [_; a]) => nis r1 HUntil1 [cnd] && nis r2 HUntil2 [cnd; a] && nis a (HAny PkChar) []
  | _, _ => false end.
Definition m_until_pack (r1 r2 : rid) : bool :=
  match hd_of r1, hd_of r2 with
  | Some (HUntil2, [cnd; sq1]), Some (_, [st; _]) =>
      match hd_of sq1, hd_of st with
      | Some (_, s :: ss), Some (_, [sq2]) =>
          match hd_of sq2 with
          | Some (_, na :: _) =>
              nis r1 HUntil2 [cnd; sq1] && nis sq1 HSeq (s :: ss) && nis r2 HSeq [st; cnd] && nis st HStarPartial [sq2] &&
              nis sq2 HSeq (na :: s :: ss) && nis na HNotAt [cnd]
          | _ => false end
      | _, _ => false end
  | _, _ => false end.
Definition m_strict (r1 r2 : rid) : bool :=
  match hd_of r1, hd_of r2 with
  | Some (HStrict, q1 :: qs), Some (_, [na; sq]) =>
      nis r1 HStrict (q1 :: qs) && nis r2 HSor [na; sq] && nis na HNotAt [q1] && nis sq HSeq (q1 :: qs)
  | _, _ => false end.
Definition m_star_strict (r1 r2 : rid) : bool :=
  match hd_of r1, hd_of r2 with
  | Some (HStarStrict, q1 :: qs), Some (_, [st; na]) =>
      match hd_of st with
      | Some (_, [sq]) => nis r1 HStarStrict (q1 :: qs) && nis r2 HSeq [st; na] && nis st HStarPartial [sq] && nis sq HSeq (q1 :: qs) && nis na HNotAt [q1]
      | _ => false end
  | _, _ => false end.
Definition m_list_tail (r1 r2 : rid) : bool :=
  match hd_of r1, hd_of r2 with
  | Some (HSeq, [r; sp]), Some (_, [li; os]) =>
      match hd_of sp, hd_of li with
      | Some (_, [s; _]), Some (_, [_; st]) =>
          match hd_of st with
          | Some (_, [sq]) =>
              nis r1 HSeq [r; sp] && nis sp HStarPartial [s; r] && nis r2 HSeq [li; os] && nis li HSeq [r; st] &&
              nis st HStarPartial [sq] && nis sq HSeq [s; r] && nis os HPartial [s]
          | _ => false end
      | _, _ => false end
  | _, _ => false end.
Definition m_eolf (r1 r2 : rid) : bool :=
  match hd_of r2 with
  | Some (_, [e; l]) => nis r1 HEolf [] && nis r2 HSor [e; l] && nis e HEof [] && nis l HEol []
  | _ => false end.
Definition m_everything (r1 r2 : rid) : bool :=
  match hd_of r2 with
  | Some (_, [e; a]) => nis r1 HEverything [] && nis r2 HUntil2 [e; a] && nis e HEof [] && nis a (HAny PkChar) []
  | _ => false end.
Fixpoint ranges_altsb (n : nat) (cs : list Z) (qs : list rid) : bool :=
  match n with
  | O => false
  | S n' =>
    match cs, qs with
    | [], [] => true
    | [x], [a] => nis a (HOne true PkChar [x]) []
    | lo :: hi :: tl, a :: qs' => nis a (HRange true PkChar lo hi) [] && ranges_altsb n' tl qs'
    | _, _ => false
    end
  end.
Definition m_ranges (r1 r2 : rid) : bool :=
  match hd_of r1, hd_of r2 with
  | Some (HRanges PkChar cs, []), Some (_, qs) => nis r1 (HRanges PkChar cs) [] && nis r2 HSor qs && ranges_altsb (S (length cs)) cs qs
  | _, _ => false end.
Definition m_shebang (r1 r2 : rid) : bool :=
  match hd_of r1, hd_of r2 with
  | Some (HSeq, [a; u]), Some (_, [a2; m]) =>
      match hd_of u, hd_of m, hd_of a with
      | Some (_, [el]), Some (_, [u2]), Some (h, []) =>
          match hd_of u2 with
          | Some (_, [el2]) =>
              nis r1 HSeq [a; u] && nis u HUntil1 [el] && nis el HEolf [] && nis r2 (HIfMust false) [a2; m] && nis m HMust [u2] &&
              nis u2 HUntil1 [el2] && nis el2 HEolf [] && nis a h [] && nis a2 h [] && negb (names_sub h) && negb (is_opaque h)
          | _ => false end
      | _, _, _ => false end
  | _, _ => false end.
Definition m_list_must (r1 r2 : rid) : bool :=
  match hd_of r1, hd_of r2 with
  | Some (HSeq, [r; st1]), Some (_, [_; st2]) =>
      match hd_of st1, hd_of st2 with
      | Some (_, [sq]), Some (_, [im]) =>
          match hd_of sq with
          | Some (_, [s; m]) =>
              nis r1 HSeq [r; st1] && nis st1 HStarPartial [sq] && nis sq HSeq [s; m] && nis r2 HSeq [r; st2] && nis st2 HStarPartial [im] &&
              nis im (HIfMust false) [s; m]
          | _ => false end
      | _, _ => false end
  | _, _ => false end.

(* sub-rules of the expansion side are matched modulo: identity, structural bisimilarity (teq2), a seq< R > wrapper *)
Definition leafeq (k : nat) (r s : rid) : bool :=
  (r =? s) || teq2 G0 k r s ||
  match hd_of s with
  | Some (HSeq, [x]) => nis s HSeq [x] && ((x =? r) || teq2 G0 k r x)
  | _ => false end.
Definition m_rep_gen (k : nat) (r1 r2 : rid) : bool :=
  match hd_of r1, hd_of r2 with
  | Some (HRep n, [r]), Some (_, ss) => nis r1 (HRep n) [r] && nis r2 HSeq ss && (length ss =? n) && forallb (leafeq k r) ss
  | _, _ => false end.
Definition m_opt_gen (k : nat) (r1 r2 : rid) : bool :=
  match hd_of r1, hd_of r2 with
  | Some (HPartial, [r]), Some (_, [x; su]) => nis r1 HPartial [r] && nis r2 HSor [x; su] && nis su HSuccess [] && leafeq k r x
  | _, _ => false end.
Definition rep_likeb (a : rid) (n : nat) (r : rid) : bool := nis a (HRep n) [r] || ((n =? 0) && nis a HSuccess []).
Definition repopt_likeb (b : rid) (n : nat) (r : rid) : bool := nis b (HRepOpt n) [r] || ((n =? 0) && nis b HSuccess []).
Definition m_rmm_gen (r1 r2 : rid) : bool :=
  match hd_of r1, hd_of r2 with
  | Some (HRepMinMax mn mx, [r]), Some (_, [a; b; na]) =>
      nis r1 (HRepMinMax mn mx) [r] && nis r2 HSeq [a; b; na] && rep_likeb a mn r && repopt_likeb b (mx - mn) r && nis na HNotAt [r]
  | _, _ => false end.

Definition m_list_must_gen (k : nat) (r1 r2 : rid) : bool :=
  match hd_of r1, hd_of r2 with
  | Some (HSeq, [r; st1]), Some (_, [_; st2]) =>
      match hd_of st1, hd_of st2 with
      | Some (_, [sq]), Some (_, [im]) =>
          match hd_of sq, hd_of im with
          | Some (_, [s'; m]), Some (_, [s; _]) =>
              nis r1 HSeq [r; st1] && nis st1 HStarPartial [sq] && nis sq HSeq [s'; m] && nis r2 HSeq [r; st2] && nis st2 HStarPartial [im] &&
              nis im (HIfMust false) [s; m] && leafeq k s s'
          | _, _ => false end
      | _, _ => false end
  | _, _ => false end.

Definition table_equiv2 (k : nat) (r1 r2 : rid) : bool :=
  m_list_must_gen k r1 r2 || m_rep_gen k r1 r2 || m_opt_gen k r1 r2 || m_rmm_gen r1 r2 ||
  table_equiv G0 k r1 r2 || m_rep r1 r2 || m_rep_opt r1 r2 || m_rmm r1 r2 || m_plus r1 r2 || m_opt r1 r2 || m_partial r1 r2 ||
  m_until1 r1 r2 || m_until_pack r1 r2 || m_strict r1 r2 || m_star_strict r1 r2 || m_list_tail r1 r2 || m_eolf r1 r2 ||
  m_everything r1 r2 || m_ranges r1 r2 || m_shebang r1 r2 || m_list_must r1 r2.

Variable G : grammar.
Variable C : cfg.
Hypothesis HC : noact_cfg C.
Hypothesis HG : plain_table G.
Hypothesis HW : table_wf G.
Hypothesis HE : extends G0 G.

Ltac split_ands H := repeat (let H' := fresh "H" in apply andb_true_iff in H; destruct H as [H H']).
Ltac nodes := apply (node_is_node G0 G HE); [discriminate | assumption].

Lemma ranges_altsb_sound n : forall cs qs, ranges_altsb n cs qs = true -> ranges_alts G cs qs.
Proof.
  induction n as [|n IH]; intros cs qs H; [discriminate|]. cbn [ranges_altsb] in H.
  destruct cs as [|lo [|hi tl]]; destruct qs as [|a qs]; try discriminate.
  - constructor.
  - destruct qs; [|discriminate]. constructor. nodes.
  - apply andb_true_iff in H. destruct H as [H1 H2]. constructor; [nodes | apply IH; exact H2].
Qed.

Lemma leafeq_sound k r s : leafeq k r s = true -> uequiv G C r s.
Proof.
  unfold leafeq. intros H. apply orb_true_iff in H. destruct H as [H|H]; [apply orb_true_iff in H; destruct H as [H|H]|].
  - apply Nat.eqb_eq in H. subst. apply (uequiv_refl G C HC HG).
  - apply (leq_uequiv G C). eapply teq2_leq; eauto.
  - destruct (hd_of s) as [[[] [|x [|? ?]]]|]; try discriminate. apply andb_true_iff in H. destruct H as [H1 H2].
    assert (Ns : node G s HSeq [x]) by nodes.
    apply (uequiv_sym G C). apply (uequiv_trans G C s x r); [apply (seq1_uequiv G C HC HG s x Ns)|].
    apply orb_true_iff in H2. destruct H2 as [H2|H2].
    + apply Nat.eqb_eq in H2. subst. apply (uequiv_refl G C HC HG).
    + apply (uequiv_sym G C). apply (leq_uequiv G C). eapply teq2_leq; eauto.
Qed.
Lemma rep_likeb_sound a n r : rep_likeb a n r = true -> rep_like G a n r.
Proof.
  unfold rep_likeb. intros H. apply orb_true_iff in H. destruct H as [H|H]; [left; nodes|].
  apply andb_true_iff in H. destruct H as [H1 H2]. apply Nat.eqb_eq in H1. right. split; [exact H1 | nodes].
Qed.
Lemma repopt_likeb_sound b n r : repopt_likeb b n r = true -> repopt_like G b n r.
Proof.
  unfold repopt_likeb. intros H. apply orb_true_iff in H. destruct H as [H|H]; [left; nodes|].
  apply andb_true_iff in H. destruct H as [H1 H2]. apply Nat.eqb_eq in H1. right. split; [exact H1 | nodes].
Qed.

Theorem table_equiv2_sound k r1 r2 : table_equiv2 k r1 r2 = true -> obs_equiv G C r1 r2.
Proof.
  unfold table_equiv2. intros H. remember (table_equiv G0 k r1 r2) as te eqn:Ete.
  remember (m_rep_gen k r1 r2) as g1 eqn:Eg1. remember (m_opt_gen k r1 r2) as g2 eqn:Eg2. remember (m_rmm_gen r1 r2) as g3 eqn:Eg3.
  remember (m_list_must_gen k r1 r2) as g4 eqn:Eg4.
  repeat (apply orb_true_iff in H; destruct H as [H|H]).
  - subst g4. unfold m_list_must_gen in H. destruct (hd_of r1) as [[[] [|r [|st1 [|? ?]]]]|]; try discriminate.
    destruct (hd_of r2) as [[h2 [|x [|st2 [|? ?]]]]|]; try discriminate.
    destruct (hd_of st1) as [[h3 [|sq [|? ?]]]|]; try discriminate. destruct (hd_of st2) as [[h4 [|im [|? ?]]]|]; try discriminate.
    destruct (hd_of sq) as [[h5 [|s' [|m [|? ?]]]]|]; try discriminate. destruct (hd_of im) as [[h6 [|s [|y [|? ?]]]]|]; try discriminate.
    split_ands H.
    apply uequiv_obs_equiv. apply (list_must_gen G C HC HG HW r1 st1 sq r2 st2 im r s s' m); try nodes. eapply leafeq_sound; eassumption.
  - subst g1. unfold m_rep_gen in H. destruct (hd_of r1) as [[[] [|r [|? ?]]]|]; try discriminate.
    destruct (hd_of r2) as [[h2 ss]|]; try discriminate. split_ands H. apply Nat.eqb_eq in H1. subst n.
    apply uequiv_obs_equiv. apply (rep_seq_gen G C HC HG HW r1 r2 r ss); [nodes | nodes|].
    apply Forall_forall. intros x Hx. apply (leafeq_sound k). exact (proj1 (forallb_forall _ _) H0 x Hx).
  - subst g2. unfold m_opt_gen in H. destruct (hd_of r1) as [[[] [|r [|? ?]]]|]; try discriminate.
    destruct (hd_of r2) as [[h2 [|x [|su [|? ?]]]]|]; try discriminate. split_ands H.
    apply uequiv_obs_equiv. apply (opt_sor_gen G C HC HG r1 r2 x su r); [nodes | nodes | nodes | eapply leafeq_sound; eassumption].
  - subst g3. unfold m_rmm_gen in H. destruct (hd_of r1) as [[[] [|r [|? ?]]]|]; try discriminate.
    destruct (hd_of r2) as [[h2 [|a [|b [|na [|? ?]]]]]|]; try discriminate. split_ands H.
    apply uequiv_obs_equiv. apply (rep_min_max_gen G C HC HG HW mn mx r1 r2 a b na r); [nodes | nodes | apply rep_likeb_sound; assumption | apply repopt_likeb_sound; assumption | nodes].
  - subst te. exact (table_equiv_sound G0 G C HC HG HW HE k r1 r2 H).
  - unfold m_rep in H. destruct (hd_of r1) as [[[] [|r [|? ?]]]|]; try discriminate. split_ands H.
    apply (rep_seq_table G C HC HG HW n r1 r2 r); nodes.
  - unfold m_rep_opt in H. destruct (hd_of r1) as [[[] [|r [|? ?]]]|]; try discriminate.
    destruct (hd_of r2) as [[h2 [|o [|? ?]]]|]; try discriminate. split_ands H.
    apply (rep_opt_table G C HC HG HW mx r1 r2 o r); nodes.
  - unfold m_rmm in H. destruct (hd_of r1) as [[[] [|r [|? ?]]]|]; try discriminate.
    destruct (hd_of r2) as [[h2 [|a [|b [|na [|? ?]]]]]|]; try discriminate. split_ands H.
    apply (rep_min_max_table G C HC HG HW mn mx r1 r2 a b na r); nodes.
  - unfold m_plus in H. destruct (hd_of r1) as [[[] [|r [|? ?]]]|]; try discriminate.
    destruct (hd_of r2) as [[h2 [|x [|st [|? ?]]]]|]; try discriminate. split_ands H.
    apply orb_true_iff in H0. destruct H0 as [Hx|Hx].
    + apply Nat.eqb_eq in Hx. subst x. apply (plus_table G C HC HG HW r1 r2 st r); nodes.
    + apply (plus_rep_min_table G C HC HG HW r1 r2 x st r); nodes.
  - unfold m_opt in H. destruct (hd_of r1) as [[[] [|r [|? ?]]]|]; try discriminate.
    destruct (hd_of r2) as [[h2 [|x [|su [|? ?]]]]|]; try discriminate. split_ands H.
    apply (opt_sor_table G C HC HG r1 r2 su r); nodes.
  - unfold m_partial in H. destruct (hd_of r1) as [[[] [|q1 qs]]|]; try discriminate.
    destruct (hd_of r2) as [[h2 [|sq [|? ?]]]|]; try discriminate.
    destruct (hd_of sq) as [[h3 [|x [|p' [|? ?]]]]|]; try discriminate. split_ands H.
    apply (partial_table G C HC HG HW r1 r2 sq p' q1 qs); nodes.
  - unfold m_until1 in H. destruct (hd_of r1) as [[[] [|cnd [|? ?]]]|]; try discriminate.
    destruct (hd_of r2) as [[h2 [|x [|a [|? ?]]]]|]; try discriminate. split_ands H.
    apply (until1_table G C HC HG r1 r2 cnd a); nodes.
  - unfold m_until_pack in H. destruct (hd_of r1) as [[[] [|cnd [|sq1 [|? ?]]]]|]; try discriminate.
    destruct (hd_of r2) as [[h2 [|st [|x [|? ?]]]]|]; try discriminate.
    destruct (hd_of sq1) as [[h3 [|s ss]]|]; try discriminate. destruct (hd_of st) as [[h4 [|sq2 [|? ?]]]|]; try discriminate.
    destruct (hd_of sq2) as [[h5 [|na ?]]|]; try discriminate. split_ands H.
    apply (until_pack_table G C HC HG HW r1 sq1 r2 st sq2 na cnd s ss); nodes.
  - unfold m_strict in H. destruct (hd_of r1) as [[[] [|q1 qs]]|]; try discriminate.
    destruct (hd_of r2) as [[h2 [|na [|sq [|? ?]]]]|]; try discriminate. split_ands H.
    apply (strict_table G C HC HG HW r1 r2 na sq q1 qs); nodes.
  - unfold m_star_strict in H. destruct (hd_of r1) as [[[] [|q1 qs]]|]; try discriminate.
    destruct (hd_of r2) as [[h2 [|st [|na [|? ?]]]]|]; try discriminate.
    destruct (hd_of st) as [[h3 [|sq [|? ?]]]|]; try discriminate. split_ands H.
    apply (star_strict_table G C HC HG HW r1 r2 st sq na q1 qs); nodes.
  - unfold m_list_tail in H. destruct (hd_of r1) as [[[] [|r [|sp [|? ?]]]]|]; try discriminate.
    destruct (hd_of r2) as [[h2 [|li [|os [|? ?]]]]|]; try discriminate.
    destruct (hd_of sp) as [[h3 [|s [|x [|? ?]]]]|]; try discriminate. destruct (hd_of li) as [[h4 [|y [|st [|? ?]]]]|]; try discriminate.
    destruct (hd_of st) as [[h5 [|sq [|? ?]]]|]; try discriminate. split_ands H.
    apply (list_tail_table G C HC HG HW r1 sp r2 li st sq os r s); nodes.
  - unfold m_eolf in H. destruct (hd_of r2) as [[h2 [|e [|l [|? ?]]]]|]; try discriminate. split_ands H.
    apply (eolf_table G C HC HG r1 r2 e l); nodes.
  - unfold m_everything in H. destruct (hd_of r2) as [[h2 [|e [|a [|? ?]]]]|]; try discriminate. split_ands H.
    apply (everything_table G C HC HG r1 r2 e a); nodes.
  - unfold m_ranges in H. destruct (hd_of r1) as [[[] [|? ?]]|]; try discriminate; try (destruct pk; discriminate). destruct pk; try discriminate.
    destruct (hd_of r2) as [[h2 qs]|]; try discriminate. split_ands H.
    apply (ranges_table G C HC HG r1 r2 cs qs); [nodes | nodes | eapply ranges_altsb_sound; eassumption].
  - unfold m_shebang in H. destruct (hd_of r1) as [[[] [|a [|u [|? ?]]]]|]; try discriminate.
    destruct (hd_of r2) as [[h2 [|a2 [|m [|? ?]]]]|]; try discriminate.
    destruct (hd_of u) as [[h3 [|el [|? ?]]]|]; try discriminate. destruct (hd_of m) as [[h4 [|u2 [|? ?]]]|]; try discriminate.
    destruct (hd_of a) as [[h [|? ?]]|]; try discriminate. destruct (hd_of u2) as [[h5 [|el2 [|? ?]]]|]; try discriminate.
    split_ands H. apply negb_true_iff in H0, H1.
    assert (Hno : h <> HOpaque) by (intros ->; discriminate).
    apply (shebang_table G C HC HG HW r1 r2 a u el a2 m u2 el2 h); try nodes; try exact H1;
      apply (node_is_node G0 G HE); assumption.
  - unfold m_list_must in H. destruct (hd_of r1) as [[[] [|r [|st1 [|? ?]]]]|]; try discriminate.
    destruct (hd_of r2) as [[h2 [|x [|st2 [|? ?]]]]|]; try discriminate.
    destruct (hd_of st1) as [[h3 [|sq [|? ?]]]|]; try discriminate. destruct (hd_of st2) as [[h4 [|im [|? ?]]]|]; try discriminate.
    destruct (hd_of sq) as [[h5 [|s [|m [|? ?]]]]|]; try discriminate. split_ands H.
    apply uequiv_obs_equiv. apply (list_must_utable G C HC HG HW r1 st1 sq r2 st2 im r s m); nodes.
Qed.

End Check2.
