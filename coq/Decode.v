(* Decode.v — the Peek classes: internal/peek_char.hpp, peek_utf8.hpp,
   contrib/internal/peek_{uint8,mask_uint8,uint,mask_uint,utf16,utf32}.hpp, read_uint.hpp.
   Each decoder is written against the input API (size check first, then reads through
   peek_at); a read outside [current,end) yields POob.  Model file: definitions only. *)
From PegtlV Require Import Base.
Local Open Scope N_scope.

Inductive endian := BE | LE.
Inductive peek :=
| PkChar | PkUtf8 | PkUint8 | PkMaskUint8 (m : N)
| PkUint (w : nat) (e : endian)            (* w = 2, 4, 8 bytes *)
| PkMaskUint (w : nat) (e : endian) (m : N)
| PkUtf16 (e : endian) | PkUtf32 (e : endian).

(* data_and_size: PNone = {0,0};  data as a mathematical integer (signed for char) *)
Inductive peekres := PNone | PSome (data : Z) (size : nat) | POob.

Definition rd (c : cursor) (i : nat) (k : N -> peekres) : peekres :=
  match peek_at c i with None => POob | Some b => k b end.

(* R::read(in.current()) for w bytes at byte offset off: memcpy + byte swap *)
Fixpoint read_be (c : cursor) (off w : nat) (acc : N) (k : N -> peekres) : peekres :=
  match w with
  | O => k acc
  | S w' => rd c off (fun b => read_be c (S off) w' (acc * 256 + b) k)
  end.
Fixpoint read_le (c : cursor) (off w : nat) (shift : N) (acc : N) (k : N -> peekres) : peekres :=
  match w with
  | O => k acc
  | S w' => rd c off (fun b => read_le c (S off) w' (shift + 8) (acc + N.shiftl b shift) k)
  end.
Definition read_uint (e : endian) (c : cursor) (off w : nat) (k : N -> peekres) : peekres :=
  match e with BE => read_be c off w 0 k | LE => read_le c off w 0 0 k end.

Definition peek_char (c : cursor) : peekres :=
  if in_empty c then PNone else rd c 0 (fun b => PSome (schar b) 1).

Definition peek_uint8 (m : option N) (c : cursor) : peekres :=
  if in_empty c then PNone
  else rd c 0 (fun b => PSome (Z.of_N (match m with None => b | Some mk => N.land b mk end)) 1).

Definition cont (b : N) : bool := N.land b 192 =? 128.       (* (c & 0xC0) == 0x80 *)

Definition peek_utf8 (c : cursor) : peekres :=
  if in_empty c then PNone else
  rd c 0 (fun c0 =>
    if N.land c0 128 =? 0 then PSome (Z.of_N c0) 1
    else if N.land c0 224 =? 192 then
      if (2 <=? in_size c)%nat then
        rd c 1 (fun c1 =>
          if cont c1 then
            let v := N.lor (N.shiftl (N.land c0 31) 6) (N.land c1 63) in
            if 128 <=? v then PSome (Z.of_N v) 2 else PNone
          else PNone)
      else PNone
    else if N.land c0 240 =? 224 then
      if (3 <=? in_size c)%nat then
        rd c 1 (fun c1 => rd c 2 (fun c2 =>
          if cont c1 && cont c2 then
            let v := N.lor (N.shiftl (N.lor (N.shiftl (N.land c0 15) 6) (N.land c1 63)) 6) (N.land c2 63) in
            if (2048 <=? v) && negb ((55296 <=? v) && (v <=? 57343)) then PSome (Z.of_N v) 3 else PNone
          else PNone))
      else PNone
    else if N.land c0 248 =? 240 then
      if (4 <=? in_size c)%nat then
        rd c 1 (fun c1 => rd c 2 (fun c2 => rd c 3 (fun c3 =>
          if cont c1 && cont c2 && cont c3 then
            let v := N.lor (N.shiftl (N.lor (N.shiftl (N.lor (N.shiftl (N.land c0 7) 6) (N.land c1 63)) 6) (N.land c2 63)) 6) (N.land c3 63) in
            if (65536 <=? v) && (v <=? 1114111) then PSome (Z.of_N v) 4 else PNone
          else PNone)))
      else PNone
    else PNone).

Definition peek_uint (w : nat) (e : endian) (m : option N) (c : cursor) : peekres :=
  if (in_size c <? w)%nat then PNone
  else read_uint e c 0 w (fun v => PSome (Z.of_N (match m with None => v | Some mk => N.land v mk end)) w).

Definition peek_utf16 (e : endian) (c : cursor) : peekres :=
  if (in_size c <? 2)%nat then PNone else
  read_uint e c 0 2 (fun t =>
    if (t <? 55296) || (57343 <? t) then PSome (Z.of_N t) 2
    else if (56320 <=? t) || (in_size c <? 4)%nat then PNone
    else read_uint e c 2 2 (fun u =>
      if (56320 <=? u) && (u <=? 57343)
      then PSome (Z.of_N (N.lor (N.shiftl (N.land t 1023) 10) (N.land u 1023) + 65536)) 4
      else PNone)).

Definition peek_utf32 (e : endian) (c : cursor) : peekres :=
  if (in_size c <? 4)%nat then PNone else
  read_uint e c 0 4 (fun t =>
    if (t <=? 1114111) && negb ((55296 <=? t) && (t <=? 57343)) then PSome (Z.of_N t) 4 else PNone).

Definition do_peek (pk : peek) (c : cursor) : peekres :=
  match pk with
  | PkChar => peek_char c
  | PkUtf8 => peek_utf8 c
  | PkUint8 => peek_uint8 None c
  | PkMaskUint8 m => peek_uint8 (Some m) c
  | PkUint w e => peek_uint w e None c
  | PkMaskUint w e m => peek_uint w e (Some m) c
  | PkUtf16 e => peek_utf16 e c
  | PkUtf32 e => peek_utf32 e c
  end.

(* conversion of the eol character (an int) to the decoder's data_t, as bump_help does *)
Definition ch_as_data (pk : peek) (ch : N) : Z := Z.of_N ch.   (* 10 and 13 are positive in every data_t *)

(* test_one of one / range / ranges *)
Definition test_one_set (found : bool) (cs : list Z) (v : Z) : bool :=
  Bool.eqb (existsb (Z.eqb v) cs) found.
Definition test_one_range (found : bool) (lo hi v : Z) : bool :=
  Bool.eqb ((lo <=? v)%Z && (v <=? hi)%Z) found.
Fixpoint test_ranges (cs : list Z) (v : Z) : bool :=
  match cs with
  | lo :: hi :: tl => ((lo <=? v)%Z && (v <=? hi)%Z) || test_ranges tl v
  | [x] => (v =? x)%Z
  | [] => false
  end.
