(* EquivSpanSpec.v — C09: the prose of rematch< R, S... > and minus< M, S > (Rule-Reference.md), formalised directly.
   "Succeeds if R matches, and each S matches the input that R matched":  the input that R matched is the
   sub-input `span_of c c1` (the bytes between the start cursor c and the cursor c1 that R reached, positioned at
   the start); "S matches it" = S, run from the beginning of that sub-input, succeeds (it need not consume all of it).
   Definitions only. *)
From PegtlV Require Import Base Decode Grammar Engine.

Definition span_of (c c1 : cursor) : option cursor :=
  match take (length (rest c) - length (rest c1)) (rest c) with
  | Some bs => Some (mkcur bs (cpos c))
  | None => None
  end.

(* big-step verdict of a rule of the table: in some apply/rewind mode, family and fuel *)
Definition Bs (G : grammar) (C : cfg) (r : rid) (c : cursor) (o : outcome) (c' : cursor) : Prop :=
  exists f d evs, eval G C f d r c = Res o c' evs.

Definition matches_on (G : grammar) (C : cfg) (span : cursor) (s : rid) : Prop := exists c2, Bs G C s span Ok c2.

(* rematch< R, S... > started at c: verdict and cursor left behind (every non-success rewinds to c) *)
Inductive rematch_spec (G : grammar) (C : cfg) (hd : rid) (ss : list rid) (c : cursor) : outcome -> cursor -> Prop :=
| RS_ok c1 span :
    Bs G C hd c Ok c1 -> span_of c c1 = Some span -> Forall (matches_on G C span) ss -> rematch_spec G C hd ss c Ok c1
| RS_head_fail c' :
    Bs G C hd c Fail c' -> rematch_spec G C hd ss c Fail c
| RS_head_exc e c' :
    Bs G C hd c (Exc e) c' -> rematch_spec G C hd ss c (Exc e) c
| RS_sub_fail c1 span pre s post c2 :
    Bs G C hd c Ok c1 -> span_of c c1 = Some span -> ss = pre ++ s :: post -> Forall (matches_on G C span) pre ->
    Bs G C s span Fail c2 -> rematch_spec G C hd ss c Fail c
| RS_sub_exc c1 span pre s post e c2 :
    Bs G C hd c Ok c1 -> span_of c c1 = Some span -> ss = pre ++ s :: post -> Forall (matches_on G C span) pre ->
    Bs G C s span (Exc e) c2 -> rematch_spec G C hd ss c (Exc e) c.

(* minus< M, S >: "Succeeds if M matches, and S does not match all of the input that M matched" *)
Definition matches_all_of (G : grammar) (C : cfg) (span : cursor) (s : rid) : Prop := exists c2, Bs G C s span Ok c2 /\ rest c2 = [].
