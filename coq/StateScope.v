(* StateScope.v — C13: the scoping discipline of state objects and of the action / control /
   apply-mode switches, as an executable checker over event logs (specification side).

   The checker replays a log on a stack of frames.  An invocation frame FI r v carries the scoped
   part v = (apply mode, action family, control family) of the template parameters that rule r was
   ENTERED with; the value a child must be entered with is COMPUTED from the enclosing frame alone
   (lexical scoping): the parent's own value, changed only by the parent's own switching head
   (action<>, control<>, enable<>, disable<>, at<>, not_at<>) or by the match-level action attached
   to the parent (change_action, change_action_and_state, change_control, enable_action,
   disable_action).  Popping a frame at its EExit forgets the child's value, so whatever follows is
   again judged against the parent's value: a switch reaches exactly the sub-tree of the rule it is
   attached to and nothing after it.  The action family is not printed in EEnter; it is propagated by
   the checker and tied to the log at every EApply / EApply0 event (their fam field).

   State blocks FB r k: opened by EStNew r p inside the invocation frame of r, at the position p that frame was
   entered at (the state is constructed before anything of the rule has run), closed by EStDrop r
   (always, also when an exception passes), EStSuccess at most once and only as the last event
   before EStDrop.
   - kind KS (the state< S, R > rule): the block contains the invocation of the sub-rule;
     EStSuccess r p is present iff the event just before it is that invocation's EExit with result
     true at the same position p, and absent iff the sub-rule failed or an exception passed.
   - kind KA (change_state / change_action_and_state attached to r): the block is closed
     immediately before the EExit of r's own frame; EStSuccess r p is present iff that EExit reports
     result true at position p AND the frame was entered with apply_mode::action.
   Model file: definitions only. *)
From PegtlV Require Import Base Decode Grammar Engine.

Record dv := mkdv { vA : bool; vAct : nat; vCtl : nat }.
Definition dv_of (d : dyn) : dv := mkdv (dA d) (dAct d) (dCtl d).

Inductive bkind := KS | KA.
Inductive frame :=
| FRoot (v : dv)                                       (* the caller of parse<>: fixes the initial values *)
| FI (r : rid) (v : dv) (pend : option (option pos)) (bp : pos)   (* invocation of r entered at bp; pend = Some s: its KA block was closed (s = success position), only EExit may follow *)
| FB (r : rid) (k : bkind) (succ : option pos).        (* open state block; succ = Some p: success( p ) delivered, only EStDrop may follow *)

Definition pos_eqb (p q : pos) : bool :=
  N.eqb (pbyte p) (pbyte q) && N.eqb (pline p) (pline q) && N.eqb (pcol p) (pcol q).
Definition opos_eqb (a b : option pos) : bool :=
  match a, b with Some p, Some q => pos_eqb p q | None, None => true | _, _ => false end.
Definition is_true (o : option bool) : bool := match o with Some true => true | _ => false end.

(* what Action< Rule > does to the scoped values *)
Definition state_action (ak : akind) : bool :=
  match ak with AKMatch MChangeState | AKMatch (MChangeActionAndState _) => true | _ => false end.
Definition redispatch (ak : akind) : option nat :=        (* Control< Rule >::match is re-entered with a new action family *)
  match ak with AKMatch (MChangeAction f) | AKMatch (MChangeActionAndState f) => Some f | _ => None end.
Definition eff (ak : akind) (v : dv) : dv :=              (* values the rule's own hooks / body run with *)
  match ak with
  | AKMatch (MChangeControl k) => mkdv (vA v) (vAct v) k
  | AKMatch MEnableAction => mkdv true (vAct v) (vCtl v)
  | AKMatch MDisableAction => mkdv false (vAct v) (vCtl v)
  | _ => v
  end.
(* what the rule's head does to the values its sub-rules are entered with *)
Definition a_ok (h : head) (pa a : bool) : bool :=
  match h with
  | HEnable => a
  | HDisable | HAt | HNotAt => negb a
  | HRepMinMax _ _ => implb a pa                          (* its trailing not_at< Rule > runs with apply_mode::nothing *)
  | _ => Bool.eqb a pa
  end.
Definition child_fam (h : head) (f : nat) : nat := match h with HAction f' => f' | _ => f end.
Definition child_ctl (h : head) (k : nat) : nat := match h with HControl k' => k' | _ => k end.
Definition child_of_head (h : head) (v : dv) (a : bool) (ctl : nat) : option dv :=
  if a_ok h (vA v) a && Nat.eqb ctl (child_ctl h (vCtl v)) then Some (mkdv a (child_fam h (vAct v)) ctl) else None.
Definition is_state (h : head) : bool := match h with HState => true | _ => false end.
Definition is_exit_true_at (pv : option event) (p : pos) : bool :=
  match pv with Some (EExit _ _ (Some true) q) => pos_eqb q p | _ => false end.
Definition is_exit_true (pv : option event) : bool :=
  match pv with Some (EExit _ _ (Some true) _) => true | _ => false end.

Section Machine.
Variable G : grammar.
Variable C : cfg.

Definition head_of (r : rid) : head := match nth_error G r with Some nd => nhead nd | None => HOpaque end.

Definition sealed (st : list frame) : bool :=
  match st with FB _ _ (Some _) :: _ => true | FI _ _ (Some _) _ :: _ => true | _ => false end.
Definition ks_top (st : list frame) : bool := match st with FB _ KS _ :: _ => true | _ => false end.
(* a change_state-like action is attached to the rule on top and its block has not been opened yet *)
Definition pre_a (st : list frame) : bool :=
  match st with FI r v None _ :: _ => state_action (acts C (vAct v) r) | _ => false end.
(* innermost invocation frame, below the state blocks opened in it *)
Fixpoint ctx (st : list frame) : option frame :=
  match st with FB _ _ _ :: tl => ctx tl | f :: _ => Some f | [] => None end.

(* the scoped values a sub-invocation entered here with ( a, ctl ) carries; None = may not be entered like that *)
Definition child_dv (st : list frame) (a : bool) (ctl : nat) : option dv :=
  if sealed st then None else
  match ctx st with
  | Some (FRoot v) => if Bool.eqb a (vA v) && Nat.eqb ctl (vCtl v) then Some v else None
  | Some (FI r0 v0 None _) =>
      let ak := acts C (vAct v0) r0 in
      match redispatch ak with
      | Some f => if Bool.eqb a (vA v0) && Nat.eqb ctl (vCtl v0) then Some (mkdv a f ctl) else None
      | None => child_of_head (head_of r0) (eff ak v0) a ctl
      end
  | _ => None
  end.

(* whose hooks / actions / raises / state< > blocks may occur here, and with which values *)
Definition own (st : list frame) : option (rid * dv) :=
  if sealed st || ks_top st then None else
  match ctx st with
  | Some (FI r v None _) =>
      match redispatch (acts C (vAct v) r) with
      | None => Some (r, eff (acts C (vAct v) r) v)
      | Some _ => None
      end
  | _ => None
  end.

(* where the innermost invocation was entered *)
Definition frame_pos (st : list frame) : option pos :=
  match ctx st with Some (FI _ _ _ bp) => Some bp | _ => None end.
Definition at_frame_pos (st : list frame) (p : pos) : bool :=
  match frame_pos st with Some bp => pos_eqb bp p | None => false end.

Definition own_check (st : list frame) (f : rid -> dv -> bool) : option (list frame) :=
  match own st with Some (r, v) => if f r v then Some st else None | None => None end.

Definition step (pv : option event) (st : list frame) (e : event) : option (list frame) :=
  match e with
  | EEnter ctl r a m p =>
      match child_dv st a ctl with Some v => Some (FI r v None p :: st) | None => None end
  | EExit ctl r o p =>
      match st with
      | FI r' v pend _ :: tl =>
          if Nat.eqb r r' && Nat.eqb ctl (vCtl v)
             && match pend with
                | None => true
                | Some succ => opos_eqb succ (if vA v && is_true o then Some p else None)
                end
          then Some tl else None
      | _ => None
      end
  | EStNew r p =>
      if pre_a st then
        match st with FI r' v None bp :: _ => if Nat.eqb r r' && pos_eqb bp p then Some (FB r KA None :: st) else None | _ => None end
      else
        match own st with
        | Some (r', _) => if Nat.eqb r r' && is_state (head_of r) && at_frame_pos st p then Some (FB r KS None :: st) else None
        | None => None
        end
  | EStSuccess r p =>
      match st with
      | FB r' k None :: tl =>
          if Nat.eqb r r' && match k with KS => is_exit_true_at pv p | KA => true end
          then Some (FB r' k (Some p) :: tl) else None
      | _ => None
      end
  | EStDrop r =>
      match st with
      | FB r' KS succ :: tl =>
          if Nat.eqb r r' && match succ with Some _ => true | None => negb (is_exit_true pv) end then Some tl else None
      | FB r' KA succ :: FI r'' v None bp :: tl =>
          if Nat.eqb r r' then Some (FI r'' v (Some succ) bp :: tl) else None
      | _ => None
      end
  | EHook _ ctl r _ => own_check st (fun r' v => Nat.eqb r r' && Nat.eqb ctl (vCtl v))
  | EApply fam r _ _ | EApply0 fam r _ => own_check st (fun r' v => Nat.eqb r r' && Nat.eqb fam (vAct v) && vA v)
  | ERaise ctl _ _ | ERaiseNested ctl _ _ => own_check st (fun _ v => Nat.eqb ctl (vCtl v))
  | EInline _ _ _ | EInline0 _ => own_check st (fun _ v => vA v)
  end.

Fixpoint run (pv : option event) (st : list frame) (evs : list event) : option (list frame) :=
  match evs with
  | [] => Some st
  | e :: tl => match step pv st e with Some st' => run (Some e) st' tl | None => None end
  end.

Definition accepts (v : dv) (evs : list event) : bool :=
  match run None [FRoot v] evs with Some [FRoot _] => true | _ => false end.

End Machine.

(* ---------- the state events alone: a Dyck word (what the driver's instance numbering relies on) ---------- *)
Definition bstep (bs : list rid) (e : event) : option (list rid) :=
  match e with
  | EStNew r _ => Some (r :: bs)
  | EStSuccess r _ => match bs with r' :: _ => if Nat.eqb r r' then Some bs else None | [] => None end
  | EStDrop r => match bs with r' :: tl => if Nat.eqb r r' then Some tl else None | [] => None end
  | _ => Some bs
  end.
Fixpoint blocks (bs : list rid) (evs : list event) : option (list rid) :=
  match evs with
  | [] => Some bs
  | e :: tl => match bstep bs e with Some bs' => blocks bs' tl | None => None end
  end.
Fixpoint fbs (st : list frame) : list rid :=
  match st with FB r _ _ :: tl => r :: fbs tl | _ :: tl => fbs tl | [] => [] end.

(* diagnostics for the oracle: index of the first event the checker rejects (None: every step was accepted) *)
Fixpoint first_reject (G : grammar) (C : cfg) (pv : option event) (st : list frame) (evs : list event) (i : nat) : option nat :=
  match evs with
  | [] => None
  | e :: tl => match step G C pv st e with Some st' => first_reject G C (Some e) st' tl (S i) | None => Some i end
  end.
