(* Properties_C14.v — the JSON grammar accepts exactly RFC 8259 (property C14).
   PROVISIONAL (being strengthened): sanity examples only; the theorems C14_sound, C14_no_raise,
   C14_terminates, C14_complete are added as they are closed. *)
From Coq Require Import List NArith.
From PegtlV Require Import Base Decode Grammar Engine Rfc8259 JsonModel.
Import ListNotations.

(* [1, {"a" : null}]  is accepted by the oracle and by the engine model on the generated table *)
Definition sample : list N := [91; 49; 44; 32; 123; 34; 97; 34; 32; 58; 32; 110; 117; 108; 108; 125; 93]%N.
Example C14_sample_oracle : rfc8259_b sample = true.
Proof. vm_compute. reflexivity. Qed.
Print Assumptions C14_sample_oracle.
Example C14_sample_model : json_verdict 200 sample = VTrue.
Proof. vm_compute. reflexivity. Qed.
Print Assumptions C14_sample_model.
