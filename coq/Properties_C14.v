(* Properties_C14.v — property C14: "The shipped JSON grammar, followed by end of input, succeeds
   on a byte string if and only if that string is a well-formed UTF-8 encoded JSON text according
   to RFC 8259, and never throws."

   Objects:
     json_table / json_root   gen/Json_gen.v, the table the C++ compiler dumped for
                              seq< json::text, eof >, REGENERATED from /repo on every run
     eval                     Engine.v, the model of match.hpp and of every rule class
     JSON_text                Rfc8259.v, the RFC 8259 ABNF as inductive predicates over bytes
                              (unescaped characters = well-formed UTF-8, RFC 3629, Utf.utf8_enc)
     rfc8259_b                Rfc8259.v, the executable recogniser extracted as the check's oracle
     void_cfg C               ExactTop.v: no veto/throwing actions, no raise-on-failure control
                              (covers Action = nothing / Control = normal of a plain parse call)
     bytes_ok s               every element of s is below 256
   Statements hold for every such configuration C, every apply mode / rewind mode / action family /
   control family d, every start position p and every fuel.  Proofs: JsonProof.v (about the generated
   table), JsonLockstep.v / JsonSem.v (generic: engine = plain PEG reading), Rfc8259Facts.v. *)
From Coq Require Import List NArith.
From PegtlV Require Import Base Decode Grammar Engine ExactSound ExactTop Rfc8259 Rfc8259Facts JsonModel JsonSem JsonLockstep JsonProof.
From PegtlV.gen Require Import Json_gen.
Import ListNotations.

(* ---------- the oracle is the specification ---------- *)
Theorem C14_oracle_is_spec : forall s : list N, rfc8259_b s = true <-> JSON_text s.
Proof. exact rfc8259_b_correct. Qed.
Print Assumptions C14_oracle_is_spec.

(* ---------- soundness: whatever the engine accepts is an RFC 8259 JSON text ---------- *)
Theorem C14_sound : forall (C : cfg) (d : dyn) (p : pos) (s : list N) (f : nat) (c' : cursor) (evs : list event),
  void_cfg C -> bytes_ok s ->
  eval json_table C f d json_root (mkcur s p) = Res Ok c' evs -> JSON_text s.
Proof. intros C d p s f c' evs HC. exact (json_sound C HC d p s f c' evs). Qed.
Print Assumptions C14_sound.

(* ---------- completeness: every RFC 8259 JSON text is accepted, consuming all input ---------- *)
Theorem C14_complete : forall (C : cfg) (d : dyn) (p : pos) (s : list N),
  void_cfg C -> bytes_ok s -> JSON_text s ->
  exists f c' evs, eval json_table C f d json_root (mkcur s p) = Res Ok c' evs /\ rest c' = [].
Proof. intros C d p s HC. exact (json_complete C HC d p s). Qed.
Print Assumptions C14_complete.

(* ... and everything else is rejected by local failure (not by an exception, not by divergence) *)
Theorem C14_rejects : forall (C : cfg) (d : dyn) (p : pos) (s : list N),
  void_cfg C -> bytes_ok s -> ~ JSON_text s ->
  exists f c' evs, eval json_table C f d json_root (mkcur s p) = Res Fail c' evs.
Proof. intros C d p s HC. exact (json_rejects C HC d p s). Qed.
Print Assumptions C14_rejects.

(* ---------- never throws (and never touches memory outside the input: no Err) ---------- *)
Theorem C14_no_raise : forall (C : cfg) (d : dyn) (p : pos) (s : list N) (f : nat),
  void_cfg C -> bytes_ok s ->
  match eval json_table C f d json_root (mkcur s p) with Res (Exc _) _ _ => False | Err => False | _ => True end.
Proof. intros C d p s f HC. exact (json_no_raise C HC d p s f). Qed.
Print Assumptions C14_no_raise.
(* the syntactic reason: no must / raise / if_must / try_catch / action head in the generated table *)
Theorem C14_no_raising_head : existsb (fun nd => raising_head (nhead nd)) json_table = false.
Proof. exact json_no_raising_head. Qed.
Print Assumptions C14_no_raising_head.

(* ---------- termination: every input gets a verdict with finite fuel; more fuel never changes it ---------- *)
Theorem C14_terminates : forall (C : cfg) (d : dyn) (p : pos) (s : list N),
  void_cfg C -> bytes_ok s ->
  exists f o c' evs, (o = Ok \/ o = Fail) /\
    forall f', (f <= f')%nat -> eval json_table C f' d json_root (mkcur s p) = Res o c' evs.
Proof. intros C d p s HC. exact (json_terminates C HC d p s). Qed.
Print Assumptions C14_terminates.

(* ---------- the extracted model column of the check (JsonModel.json_verdict) ---------- *)
Theorem C14_model_is_oracle : forall s : list N, bytes_ok s ->
  (exists f, forall f', (f <= f')%nat -> json_verdict f' s = if rfc8259_b s then VTrue else VFalse) /\
  (forall f, json_verdict f s = VOutOfFuel \/ json_verdict f s = if rfc8259_b s then VTrue else VFalse).
Proof. exact json_model_exact. Qed.
Print Assumptions C14_model_is_oracle.

(* ---------- sub-rules: json::value and json::text as plain PEG readings of the table ---------- *)
Theorem C14_value_rule : forall s : list N, Sem json_table json_value s (scan_val s).
Proof. exact value_total. Qed.
Print Assumptions C14_value_rule.
Theorem C14_text_rule : forall s : list N, Sem json_table json_text s (scan_text s).
Proof. exact text_total. Qed.
Print Assumptions C14_text_rule.

(* ---------- the hypotheses are satisfiable; sample evaluations ---------- *)
Example C14_void_cfg_example : void_cfg json_cfg.
Proof. exact (no_actions_void _). Qed.
Print Assumptions C14_void_cfg_example.
Example C14_supported_example : supported json_table = true.
Proof. exact json_supported. Qed.
Print Assumptions C14_supported_example.

(* [1, {"a" : null}] *)
Definition sample : list N := [91; 49; 44; 32; 123; 34; 97; 34; 32; 58; 32; 110; 117; 108; 108; 125; 93]%N.
Example C14_sample_bytes : bytes_ok sample.
Proof. unfold bytes_ok, sample. repeat constructor. Qed.
Print Assumptions C14_sample_bytes.
Example C14_sample_spec : JSON_text sample.
Proof. apply rfc8259_b_correct. vm_compute. reflexivity. Qed.
Print Assumptions C14_sample_spec.
Example C14_sample_model : json_verdict 200 sample = VTrue.
Proof. vm_compute. reflexivity. Qed.
Print Assumptions C14_sample_model.
(* 01 (leading zero) is not a JSON text, and the model rejects it *)
Example C14_sample_reject : ~ JSON_text [48; 49]%N /\ json_verdict 200 [48; 49]%N = VFalse.
Proof. split; [intros H; apply rfc8259_b_correct in H; vm_compute in H; discriminate | vm_compute; reflexivity]. Qed.
Print Assumptions C14_sample_reject.
