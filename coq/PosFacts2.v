(* PosFacts2.v — C06, part 1: the specification of `track` (the property's arithmetic statement) and the
   atoms: every bump an atom performs is correct for the bytes it skips, i.e. every atom satisfies the
   generic cursor invariant of EngineFacts instantiated with the position relation PTr
   (position after = track (position before) (consumed bytes)).
     - bump() scans: always right;
     - bump_in_this_line(n) (chosen by bump_help when Rule::test_any(eol char) is false): right when none of
       the n skipped bytes is the eol character — from the rule's test for single-byte decoders, from the
       shape of multi-byte UTF-8 sequences (no byte below 0x80) for peek_utf8;
     - bump_to_next_line(n) (eol / eolf): right when the skipped bytes contain the eol character exactly once,
       as their last byte.
   head_ok is the (decidable) class of heads for which this holds; it refines PosFacts.head_tracked. *)
From Coq Require Import Lia.
From PegtlV Require Import Base Decode Grammar Engine EngineFacts AtomFacts PosFacts.
Local Open Scope N_scope.

(* ---------- the specification: what `track` computes, arithmetically ---------- *)
Fixpoint count_ch (ch : N) (l : list byte) : nat :=
  match l with [] => O | b :: tl => ((if (b =? ch)%N then 1 else 0) + count_ch ch tl)%nat end.
(* the bytes after the last occurrence of ch; None when ch does not occur *)
Fixpoint after_last (ch : N) (l : list byte) : option (list byte) :=
  match l with
  | [] => None
  | b :: tl => match after_last ch tl with
               | Some s => Some s
               | None => if b =? ch then Some tl else None
               end
  end.

Lemma after_last_none ch l : after_last ch l = None <-> ~ In ch l.
Proof.
  induction l as [|b tl IH]; simpl; [tauto|].
  destruct (after_last ch tl) as [s|] eqn:E.
  - split; [discriminate|]. intros H. exfalso. apply H. right.
    destruct (in_dec N.eq_dec ch tl) as [i|n]; [exact i|]. apply IH in n. discriminate.
  - destruct (N.eqb_spec b ch) as [->|Hne].
    + split; [discriminate|]. intros H. exfalso. apply H. left. reflexivity.
    + split; [|reflexivity]. intros _ [H|H]; [contradiction|]. apply (proj1 IH); [reflexivity | exact H].
Qed.
Lemma after_last_app ch a s : ~ In ch s -> after_last ch (a ++ ch :: s) = Some s.
Proof.
  intros H. induction a as [|x a IH]; simpl.
  - apply after_last_none in H. rewrite H, N.eqb_refl. reflexivity.
  - rewrite IH. reflexivity.
Qed.
Lemma after_last_inv ch : forall l s, after_last ch l = Some s -> exists a, l = a ++ ch :: s /\ ~ In ch s.
Proof.
  induction l as [|b tl IH]; intros s; simpl; [discriminate|].
  destruct (after_last ch tl) as [s'|] eqn:E.
  - intros H. inversion H; subst s'. destruct (IH s eq_refl) as [a [H1 H2]]. exists (b :: a). simpl. rewrite H1. split; [reflexivity | exact H2].
  - apply after_last_none in E. destruct (N.eqb_spec b ch) as [Hb|Hb]; [|discriminate].
    intros H. inversion H; subst. exists []. split; [reflexivity | exact E].
Qed.
Lemma after_last_some ch l s : after_last ch l = Some s <-> exists a, l = a ++ ch :: s /\ ~ In ch s.
Proof.
  split; [apply after_last_inv|]. intros [a [-> H]]. apply after_last_app. exact H.
Qed.

Lemma track_cons ch p b l : track ch p (b :: l) = track ch (bump1_pos ch p b) l.
Proof. reflexivity. Qed.

(* byte = initial byte + |prefix|; line = initial line + number of eol characters in the prefix;
   column = 1 + number of bytes since the last of them (initial column + |prefix| if there is none) *)
Lemma track_spec ch : forall l p,
  pbyte (track ch p l) = pbyte p + N.of_nat (length l) /\
  pline (track ch p l) = pline p + N.of_nat (count_ch ch l) /\
  pcol (track ch p l) = match after_last ch l with
                        | Some s => 1 + N.of_nat (length s)
                        | None => pcol p + N.of_nat (length l)
                        end.
Proof.
  induction l as [|b tl IH]; intros p.
  - simpl. repeat split; lia.
  - rewrite track_cons. destruct (IH (bump1_pos ch p b)) as [H1 [H2 H3]]. rewrite H1, H2, H3. clear H1 H2 H3 IH.
    cbn [length count_ch after_last]. unfold bump1_pos. destruct (after_last ch tl) as [s|]; destruct (b =? ch); cbn [pbyte pline pcol]; repeat split; lia.
Qed.

(* ---------- small list facts ---------- *)
Lemma app_eq_len (A : Type) : forall (a c b d : list A), a ++ b = c ++ d -> length a = length c -> a = c /\ b = d.
Proof.
  induction a as [|x a IH]; intros [|y c] b d H L; simpl in *; try discriminate; [split; [reflexivity | exact H]|].
  inversion H; subst. destruct (IH c b d) as [-> ->]; [assumption | lia | split; reflexivity].
Qed.
Lemma take_app n : forall l bs, take n l = Some bs -> exists tl, l = bs ++ tl /\ length bs = n.
Proof.
  induction n as [|n IH]; intros l bs H; simpl in H.
  - inversion H; subst. exists l. split; reflexivity.
  - destruct l as [|b l]; [discriminate|]. destruct (take n l) as [bs'|] eqn:E; [|discriminate]. inversion H; subst.
    destruct (IH l bs' E) as [tl [H1 H2]]. exists tl. simpl. split; [f_equal; exact H1 | f_equal; exact H2].
Qed.
Lemma Forall_prefix_nth (Q : byte -> Prop) (l : list byte) n :
  (forall i b, (i < n)%nat -> nth_error l i = Some b -> Q b) ->
  forall pre tl, l = pre ++ tl -> length pre = n -> Forall Q pre.
Proof.
  intros H pre tl E L. apply Forall_forall. intros b Hb. apply In_nth_error in Hb. destruct Hb as [i Hi].
  apply (H i b).
  - rewrite <- L. apply nth_error_Some. rewrite Hi. discriminate.
  - rewrite E. rewrite nth_error_app1; [exact Hi|]. apply nth_error_Some. rewrite Hi. discriminate.
Qed.

(* ---------- which heads keep the eager position in step with `track` ---------- *)
Definition peek_wfb (pk : peek) : bool :=
  match pk with PkUint w _ | PkMaskUint w _ _ => (1 <=? w)%nat | _ => true end.
(* decoders whose unit is a byte (or a UTF-8 sequence): the only ones the property covers for in-line bumps *)
Definition byte_peek (pk : peek) : bool :=
  match pk with PkChar | PkUtf8 | PkUint8 | PkMaskUint8 _ => true | _ => false end.
(* the data the decoder yields when the byte it reads IS the eol character *)
Definition ch_data (pk : peek) (ch : N) : Z :=
  match pk with PkMaskUint8 m => Z.of_N (N.land ch m) | _ => Z.of_N ch end.
(* bump_help asks test( eol char ): true -> scanning bump (always right);
   false -> bump_in_this_line, right iff the rule cannot have matched the eol byte: test( data of the eol byte ) = false *)
Definition test_ok (ch : N) (pk : peek) (test : Z -> bool) : bool :=
  peek_wfb pk && (test (Z.of_N ch) || (byte_peek pk && negb (test (ch_data pk ch)))).
Definition head_ok (e : eolp) (h : head) : bool :=
  let ch := eol_ch e in
  match h with
  | HOne f pk cs => test_ok ch pk (test_one_set f cs)
  | HRange f pk lo hi => test_ok ch pk (test_one_range f lo hi)
  | HRanges pk cs => test_ok ch pk (test_ranges cs)
  | HAny pk => peek_wfb pk
  | HEol | HEolf => match e with EolCrCrlf => false | _ => true end
  | _ => true
  end.
Definition table_ok (e : eolp) (G : grammar) : Prop :=
  forall r nd, nth_error G r = Some nd -> head_ok e (nhead nd) = true.

Lemma peek_wfb_wf pk : peek_wfb pk = true -> peek_wf pk.
Proof. destruct pk; simpl; intros H; try exact I; apply Nat.leb_le; exact H. Qed.

(* head_ok refines PosFacts.head_tracked (on well-formed heads) *)
Lemma head_tracked_ok e h : head_wf h -> head_tracked e h = true -> head_ok e h = true.
Proof.
  assert (K : forall ch pk test, peek_wf pk -> pk_tracked pk = true -> test_ok ch pk test = true).
  { intros ch pk test W T. unfold test_ok. destruct pk; simpl in T; try discriminate; simpl; destruct (test (Z.of_N ch)); reflexivity. }
  destruct h; simpl; intros W T; try reflexivity; try exact T; try (apply K; assumption).
  destruct pk; simpl in *; try reflexivity; try discriminate.
Qed.

(* eol / eolf: bump_to_next_line over exactly the matched line ending *)
Lemma adv_next1 ch c a tl : rest c = a :: tl -> a = ch ->
  adv (PTr ch) c (mkcur tl (mkpos (pbyte (cpos c) + 1) (pline (cpos c) + 1) 1)).
Proof.
  intros E Ha. exists [a]. simpl. split; [exact E|]. unfold PTr, track. simpl. unfold bump1_pos. subst a. rewrite N.eqb_refl. reflexivity.
Qed.
Lemma adv_next2 ch c a b tl : rest c = a :: b :: tl -> a <> ch -> b = ch ->
  adv (PTr ch) c (mkcur tl (mkpos (pbyte (cpos c) + 2) (pline (cpos c) + 1) 1)).
Proof.
  intros E Ha Hb. exists [a; b]. simpl. split; [exact E|]. unfold PTr, track. simpl. unfold bump1_pos.
  apply N.eqb_neq in Ha. rewrite Ha. subst b. simpl. rewrite N.eqb_refl. simpl. f_equal. lia.
Qed.

Lemma eol_match_goodP e c : e <> EolCrCrlf ->
  match eol_match e c with
  | None => False
  | Some (true, _, c') => adv (PTr (eol_ch e)) c c'
  | Some (false, _, c') => c' = c
  end.
Proof.
  intros Hne. unfold eol_match, in_size, peek_at, bump_next_line.
  destruct (rest c) as [|a tl] eqn:E; [reflexivity|]. cbn [length Nat.eqb nth_error].
  destruct e; try contradiction; cbn [eol_ch] in *.
  - destruct (N.eqb_spec a 10) as [Ha|Ha]; [|reflexivity]. cbn [drop option_map N.of_nat]. eapply adv_next1; eassumption.
  - destruct (N.eqb_spec a 13) as [Ha|Ha]; [|reflexivity]. cbn [drop option_map N.of_nat]. eapply adv_next1; eassumption.
  - destruct tl as [|b tl]; [reflexivity|]. cbn [length Nat.ltb Nat.leb nth_error].
    destruct (N.eqb_spec a 13) as [Ha|Ha]; [|reflexivity].
    destruct (N.eqb_spec b 10) as [Hb|Hb]; [|reflexivity]. cbn [drop option_map]. eapply adv_next2; [eassumption | lia | assumption].
  - destruct (N.eqb_spec a 10) as [Ha|Ha]; [cbn [drop option_map N.of_nat]; eapply adv_next1; eassumption|].
    destruct tl as [|b tl]; [destruct (a =? 13); reflexivity|]. cbn [length Nat.ltb Nat.leb nth_error].
    destruct (N.eqb_spec a 13) as [Ha3|Ha3]; [|reflexivity]. cbn [andb].
    destruct (N.eqb_spec b 10) as [Hb|Hb]; [|reflexivity]. cbn [drop option_map]. eapply adv_next2; [eassumption | lia | assumption].
Qed.

Section Atoms.
Variable e : eolp.
Let ch := eol_ch e.
Notation P := (PTr ch).
Notation advP := (adv (PTr ch)).
Notation goodP := (good (PTr ch)).

Lemma ch_cases : ch = 10 \/ ch = 13.
Proof. unfold ch. destruct e; simpl; auto. Qed.

(* every byte of the unit a byte-decoder has read: if it is the eol character, the decoded data is ch_data *)
Lemma peek_char_bytes c v n : peek_char c = PSome v n ->
  forall i b, (i < n)%nat -> peek_at c i = Some b -> b = ch -> v = Z.of_N ch.
Proof.
  unfold peek_char, rd. destruct (in_empty c); [discriminate|]. destruct (peek_at c 0) as [b0|] eqn:E0; [|discriminate].
  intros H i b Hi Hb Hc. inversion H; subst v n. assert (i = 0)%nat by lia. subst i. rewrite E0 in Hb. inversion Hb; subst b0.
  rewrite Hc. destruct ch_cases as [-> | ->]; reflexivity.
Qed.
Lemma peek_uint8_bytes m c v n : peek_uint8 m c = PSome v n ->
  forall i b, (i < n)%nat -> peek_at c i = Some b -> b = ch ->
  v = Z.of_N (match m with None => ch | Some mk => N.land ch mk end).
Proof.
  unfold peek_uint8, rd. destruct (in_empty c); [discriminate|]. destruct (peek_at c 0) as [b0|] eqn:E0; [|discriminate].
  intros H i b Hi Hb Hc. inversion H; subst v n. assert (i = 0)%nat by lia. subst i. rewrite E0 in Hb. inversion Hb; subst b0.
  rewrite Hc. reflexivity.
Qed.

(* the eol characters are not UTF-8 lead bytes of a multi-byte sequence and not continuation bytes *)
Lemma ch_not_lead2 : (N.land ch 224 =? 192) = false. Proof. destruct ch_cases as [-> | ->]; reflexivity. Qed.
Lemma ch_not_lead3 : (N.land ch 240 =? 224) = false. Proof. destruct ch_cases as [-> | ->]; reflexivity. Qed.
Lemma ch_not_lead4 : (N.land ch 248 =? 240) = false. Proof. destruct ch_cases as [-> | ->]; reflexivity. Qed.
Lemma ch_not_cont : cont ch = false. Proof. unfold cont. destruct ch_cases as [-> | ->]; reflexivity. Qed.
Lemma ch_ascii : (N.land ch 128 =? 0) = true. Proof. destruct ch_cases as [-> | ->]; reflexivity. Qed.

Lemma peek_utf8_bytes c v n : peek_utf8 c = PSome v n ->
  forall i b, (i < n)%nat -> peek_at c i = Some b -> b = ch -> v = Z.of_N ch.
Proof.
  unfold peek_utf8, rd. destruct (in_empty c); [discriminate|].
  destruct (peek_at c 0) as [c0|] eqn:E0; [|discriminate].
  destruct (N.land c0 128 =? 0) eqn:L1.
  { intros H i b Hi Hb Hc. inversion H; subst v n. assert (i = 0)%nat by lia. subst i. rewrite E0 in Hb. inversion Hb; subst c0. rewrite Hc. reflexivity. }
  assert (N0 : c0 <> ch). { intros ->. rewrite ch_ascii in L1. discriminate. }
  destruct (N.land c0 224 =? 192) eqn:L2.
  { destruct (2 <=? in_size c)%nat; [|discriminate]. destruct (peek_at c 1) as [c1|] eqn:E1; [|discriminate].
    destruct (cont c1) eqn:K1; [|discriminate].
    destruct (128 <=? _); [|discriminate]. intros H i b Hi Hb Hc. inversion H; subst n. exfalso.
    destruct i as [|[|i]]; [| |lia].
    - rewrite E0 in Hb. inversion Hb; subst. apply N0. reflexivity.
    - rewrite E1 in Hb. inversion Hb; subst. rewrite ch_not_cont in K1. discriminate. }
  destruct (N.land c0 240 =? 224) eqn:L3.
  { destruct (3 <=? in_size c)%nat; [|discriminate]. destruct (peek_at c 1) as [c1|] eqn:E1; [|discriminate].
    destruct (peek_at c 2) as [c2|] eqn:E2; [|discriminate].
    destruct (cont c1) eqn:K1; [|discriminate]. destruct (cont c2) eqn:K2; [|discriminate]. cbn [andb].
    destruct (_ && _); [|discriminate]. intros H i b Hi Hb Hc. inversion H; subst n. exfalso.
    destruct i as [|[|[|i]]]; [| | |lia].
    - rewrite E0 in Hb. inversion Hb; subst. apply N0. reflexivity.
    - rewrite E1 in Hb. inversion Hb; subst. rewrite ch_not_cont in K1. discriminate.
    - rewrite E2 in Hb. inversion Hb; subst. rewrite ch_not_cont in K2. discriminate. }
  destruct (N.land c0 248 =? 240) eqn:L4; [|discriminate].
  destruct (4 <=? in_size c)%nat; [|discriminate]. destruct (peek_at c 1) as [c1|] eqn:E1; [|discriminate].
  destruct (peek_at c 2) as [c2|] eqn:E2; [|discriminate]. destruct (peek_at c 3) as [c3|] eqn:E3; [|discriminate].
  destruct (cont c1) eqn:K1; [|discriminate]. destruct (cont c2) eqn:K2; [|discriminate]. destruct (cont c3) eqn:K3; [|discriminate]. cbn [andb].
  destruct (_ && _); [|discriminate]. intros H i b Hi Hb Hc. inversion H; subst n. exfalso.
  destruct i as [|[|[|[|i]]]]; [| | | |lia].
  - rewrite E0 in Hb. inversion Hb; subst. apply N0. reflexivity.
  - rewrite E1 in Hb. inversion Hb; subst. rewrite ch_not_cont in K1. discriminate.
  - rewrite E2 in Hb. inversion Hb; subst. rewrite ch_not_cont in K2. discriminate.
  - rewrite E3 in Hb. inversion Hb; subst. rewrite ch_not_cont in K3. discriminate.
Qed.

Lemma do_peek_bytes pk c v n : byte_peek pk = true -> do_peek pk c = PSome v n ->
  forall i b, (i < n)%nat -> peek_at c i = Some b -> b = ch -> v = ch_data pk ch.
Proof.
  destruct pk; simpl; intros B H; try discriminate.
  - eapply peek_char_bytes; eauto.
  - eapply peek_utf8_bytes; eauto.
  - apply (peek_uint8_bytes None c v n H).
  - apply (peek_uint8_bytes (Some m) c v n H).
Qed.

Lemma ok_or_err_goodP m c o : (exists c', o = Some c' /\ advP c c') -> goodP m c (ok_or_err o).
Proof. intros [c' [-> A]]. simpl. exact A. Qed.

Lemma scan_goodP m n c : (n <= in_size c)%nat -> goodP m c (ok_or_err (bump_scan ch n c)).
Proof.
  intros H. apply ok_or_err_goodP. destruct (bump_scan_some ch n c H) as [c' Hc]. exists c'. split; [exact Hc | eapply bump_scan_track; eauto].
Qed.

Lemma in_line_goodP m n c : (n <= in_size c)%nat ->
  (forall i b, (i < n)%nat -> peek_at c i = Some b -> b <> ch) -> goodP m c (ok_or_err (bump_in_line n c)).
Proof.
  intros H Hb. apply ok_or_err_goodP. destruct (bump_in_line_some n c H) as [c' Hc]. exists c'. split; [exact Hc|].
  eapply bump_in_line_track; [exact Hc|]. intros pre tl E L. eapply Forall_prefix_nth; eauto.
Qed.

Lemma peek_test_bump_goodP pk test c m : test_ok ch pk test = true -> goodP m c (peek_test_bump ch pk test c).
Proof.
  unfold test_ok. intros T. apply andb_true_iff in T. destruct T as [W T]. apply peek_wfb_wf in W.
  unfold peek_test_bump. pose proof (do_peek_safe pk c W) as S.
  destruct (do_peek pk c) as [|v n|] eqn:Ep; simpl in S; [apply good_fail_same; apply PTr_refl | | contradiction].
  destruct (test v) eqn:Tv; [|apply good_fail_same; apply PTr_refl].
  unfold bump_help, ch_as_data. destruct (test (Z.of_N ch)) eqn:Tc.
  - apply scan_goodP. lia.
  - simpl in T. apply andb_true_iff in T. destruct T as [B T]. apply negb_true_iff in T.
    apply in_line_goodP; [lia|]. intros i b Hi Hb Hc.
    rewrite (do_peek_bytes pk c v n B Ep i b Hi Hb Hc) in Tv. congruence.
Qed.

(* string / istring *)
Lemma eqb_bytes_eq : forall a b, eqb_bytes a b = true -> a = b.
Proof.
  induction a as [|x a IH]; intros [|y b] H; simpl in H; try discriminate; [reflexivity|].
  apply andb_true_iff in H. destruct H as [H1 H2]. apply N.eqb_eq in H1. subst. f_equal. apply IH. exact H2.
Qed.
Lemma existsb_ch_false cs : existsb (N.eqb ch) cs = false -> Forall (fun b => b <> ch) cs.
Proof.
  induction cs as [|x cs IH]; simpl; intros H; [constructor|]. apply orb_false_iff in H. destruct H as [H1 H2].
  constructor; [|apply IH; exact H2]. intros ->. rewrite N.eqb_refl in H1. discriminate.
Qed.
Definition alpha_fold_ok (c : N) : bool :=
  if is_alpha c then negb (N.lor c 32 =? 42) && negb (N.lor c 32 =? 45) else true.
Lemma alpha_fold_sweep : forallb alpha_fold_ok (map N.of_nat (seq 0 128)) = true.
Proof. vm_compute. reflexivity. Qed.
Lemma is_alpha_small c : is_alpha c = true -> c < 128.
Proof.
  unfold is_alpha. intros H. apply orb_true_iff in H. destruct H as [H|H]; apply andb_true_iff in H; destruct H as [_ H]; apply N.leb_le in H; lia.
Qed.
Lemma ichar_equal_ch c b : ichar_equal c b = true -> b = ch -> c = ch.
Proof.
  unfold ichar_equal. destruct (is_alpha c) eqn:A.
  - intros H Hb. exfalso. apply N.eqb_eq in H. pose proof (is_alpha_small c A) as Hs.
    assert (K : alpha_fold_ok c = true).
    { pose proof (proj1 (forallb_forall _ _) alpha_fold_sweep c) as F. apply F. apply in_map_iff. exists (N.to_nat c). split; [lia|]. apply in_seq. lia. }
    unfold alpha_fold_ok in K. rewrite A in K. apply andb_true_iff in K. destruct K as [K1 K2].
    apply negb_true_iff in K1. apply negb_true_iff in K2. apply N.eqb_neq in K1. apply N.eqb_neq in K2.
    subst b. destruct ch_cases as [E|E]; rewrite E in H; simpl in H; congruence.
  - intros H Hb. apply N.eqb_eq in H. congruence.
Qed.
Lemma ieqb_bytes_ch : forall cs bs, ieqb_bytes cs bs = true -> Forall (fun b => b <> ch) cs -> Forall (fun b => b <> ch) bs.
Proof.
  induction cs as [|x cs IH]; intros [|y bs] H F; simpl in H; try discriminate; [constructor|].
  apply andb_true_iff in H. destruct H as [H1 H2]. inversion F as [|? ? Fx Fc]; subst. constructor; [|apply IH; assumption].
  intros Hy. apply Fx. eapply ichar_equal_ch; eauto.
Qed.
Lemma ieqb_bytes_length : forall cs bs, ieqb_bytes cs bs = true -> length cs = length bs.
Proof.
  induction cs as [|x cs IH]; intros [|y bs] H; simpl in H; try discriminate; [reflexivity|].
  apply andb_true_iff in H. destruct H as [_ H]. simpl. f_equal. apply IH. exact H.
Qed.

Lemma bump_help_goodP flag n c m : (n <= in_size c)%nat ->
  (flag = false -> forall pre tl, rest c = pre ++ tl -> length pre = n -> Forall (fun b => b <> ch) pre) ->
  goodP m c (bump_help ch flag n c).
Proof.
  intros H F. unfold bump_help. destruct flag; [apply scan_goodP; exact H|].
  apply ok_or_err_goodP. destruct (bump_in_line_some n c H) as [c' Hc]. exists c'. split; [exact Hc|].
  eapply bump_in_line_track; [exact Hc | apply F; reflexivity].
Qed.

Lemma eval_atom_goodP h c x m : head_ok e h = true -> eval_atom e h c = Some x -> goodP m c x.
Proof.
  intros Hok. pose proof (PTr_refl ch) as R. fold ch in Hok.
  destruct h; simpl in Hok |- *; intros H; try discriminate H; try (injection H as <-);
  try (apply good_fail_same; exact R); try (apply good_ok_same; exact R).
  - destruct (in_empty c); [apply good_ok_same | apply good_fail_same]; exact R.
  - assert (Hne : e <> EolCrCrlf) by (intros ->; discriminate).
    pose proof (eol_match_goodP e c Hne) as K. destruct (eol_match e c) as [[[[|] z] c']|]; [exact K | apply good_fail_same; exact R | contradiction].
  - assert (Hne : e <> EolCrCrlf) by (intros ->; discriminate).
    pose proof (eol_match_goodP e c Hne) as K. destruct (eol_match e c) as [[[[|] z] c']|]; [exact K | | contradiction].
    destruct z; [apply good_ok_same | apply good_fail_same]; exact R.
  - destruct (pbyte (cpos c) =? 0); [apply good_ok_same | apply good_fail_same]; exact R.
  - destruct (pcol (cpos c) =? 1); [apply good_ok_same | apply good_fail_same]; exact R.
  - apply scan_goodP. apply le_n.
  - (* any *)
    apply peek_wfb_wf in Hok.
    assert (A : goodP m c (match do_peek pk c with POob => Err | PNone => Res Fail c [] | PSome _ n => ok_or_err (bump_scan ch n c) end)).
    { pose proof (do_peek_safe pk c Hok) as K. destruct (do_peek pk c) as [|v n|]; simpl in K; [apply good_fail_same; exact R | | contradiction].
      apply scan_goodP. lia. }
    destruct pk; injection H as <-; try exact A.
    destruct (in_empty c) eqn:E; [apply good_fail_same; exact R|]. apply in_empty_size in E. exact (scan_goodP m 1%nat c E).
  - apply peek_test_bump_goodP; exact Hok.
  - apply peek_test_bump_goodP; exact Hok.
  - apply peek_test_bump_goodP; exact Hok.
  - destruct (length cs <=? in_size c)%nat eqn:E; [|apply good_fail_same; exact R]. apply Nat.leb_le in E.
    destruct (take (length cs) (rest c)) as [bs|] eqn:Et; [|destruct (take_some _ _ E) as [bs Hb]; congruence].
    destruct (eqb_bytes cs bs) eqn:Eq; [|apply good_fail_same; exact R]. apply eqb_bytes_eq in Eq. subst bs.
    apply bump_help_goodP; [exact E|]. intros Hf pre tl Hr Hl.
    destruct (take_app _ _ _ Et) as [tl2 [H1 H2]]. rewrite H1 in Hr.
    destruct (app_eq_len _ cs pre tl2 tl Hr) as [<- _]; [congruence|]. apply existsb_ch_false. exact Hf.
  - destruct (length cs <=? in_size c)%nat eqn:E; [|apply good_fail_same; exact R]. apply Nat.leb_le in E.
    destruct (take (length cs) (rest c)) as [bs|] eqn:Et; [|destruct (take_some _ _ E) as [bs Hb]; congruence].
    destruct (ieqb_bytes cs bs) eqn:Eq; [|apply good_fail_same; exact R].
    apply bump_help_goodP; [exact E|]. intros Hf pre tl Hr Hl.
    destruct (take_app _ _ _ Et) as [tl2 [H1 H2]]. rewrite H1 in Hr.
    destruct (app_eq_len _ bs pre tl2 tl Hr) as [<- _]; [congruence|]. eapply ieqb_bytes_ch; [exact Eq | apply existsb_ch_false; exact Hf].
  - destruct (n <=? in_size c)%nat eqn:E; [|apply good_fail_same; exact R]. apply Nat.leb_le in E. apply scan_goodP. exact E.
  - destruct (n <=? in_size c)%nat; [apply good_ok_same | apply good_fail_same]; exact R.
Qed.

End Atoms.

(* ---------- the engine invariant with PTr: the final cursor of every evaluation ---------- *)
Theorem eval_goodP G C f d r c : table_ok (ceol C) G ->
  good (PTr (eol_ch (ceol C))) (dM d) c (eval G C f d r c).
Proof.
  intros HG.
  apply (eval_good (PTr (eol_ch (ceol C))) (PTr_refl _) (PTr_trans _) C (fun h => head_ok (ceol C) h = true)).
  - intros n c0 c' H. eapply bump_scan_track; eauto.
  - intros h c0 x m Hw H. eapply eval_atom_goodP; eauto.
  - exact HG.
Qed.
