(* JsonModel.v — the model side of property C14: the engine model (Engine.eval) applied to the
   table that the compiler dumped for  seq< json::text, eof >  (gen/Json_gen.v, regenerated from
   /repo on every run), under the configuration of a plain
     parse< seq< json::text, eof > >( memory_input<>( data, size, "" ) )
   call: no actions (Action = nothing), Control = normal (no raise on failure, no unwind),
   apply_mode::action, rewind_mode::required, eol::lf_crlf.  Model file: definitions only. *)
From PegtlV Require Import Base Decode Grammar Engine.
From PegtlV.gen Require Import Json_gen.

Definition no_actions (e : eolp) : cfg :=
  mkcfg e (fun _ _ => AKNone) (fun _ _ _ _ => ARet true) (fun _ _ _ => ARet true) (fun _ => false) (fun _ _ => false).
Definition json_cfg : cfg := no_actions EolLfCrlf.
Definition json_dyn : dyn := mkdyn true true 0 0 0.

(* the whole run: fuel, input bytes *)
Definition json_eval (f : nat) (s : list byte) : result := run json_table json_cfg f json_dyn json_root s pos0.

Inductive verdict := VTrue | VFalse | VThrow | VOutOfFuel | VError.
Definition verdict_of (x : result) : verdict :=
  match x with
  | Res Ok _ _ => VTrue
  | Res Fail _ _ => VFalse
  | Res (Exc _) _ _ => VThrow
  | Oof => VOutOfFuel
  | Err => VError
  end.
Definition json_verdict (f : nat) (s : list byte) : verdict := verdict_of (json_eval f s).
