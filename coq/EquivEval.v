(* EquivEval.v — C09: on action-free configurations the verdict of a rule does not depend on the
   apply mode, the rewind mode, the action/control family or the fuel (eval_sim), and a
   control-enabled node is observationally its own match() body (node transparency).
   This is the generic lemma "hook visibility does not influence outcomes". *)
From Coq Require Import Lia Bool.
From PegtlV Require Import Base Decode Grammar Engine Mono Equiv EquivFacts.

(* configurations of the PEG formalism: no Action< Rule > anywhere, failure() does not raise *)
Definition noact_cfg (C : cfg) : Prop :=
  (forall fam r, acts C fam r = AKNone) /\ (forall k r, raise_on_failure C k r = false).

(* internal::if_must< D, Cond, Rules... > always has subs_t = < Cond, must< Rules... > >, and must< Rules... > is
   success, must< R > or seq< must< R >... >: it cannot fail locally *)
Definition is_must1 (G : grammar) (q : rid) : Prop :=
  exists nq q', nth_error G q = Some nq /\ nhead nq = HMust /\ nsubs nq = [q'].
Definition mustlike (G : grammar) (m : rid) : Prop :=
  exists nd, nth_error G m = Some nd /\
    ((nhead nd = HSuccess) \/ (nhead nd = HMust /\ exists q, nsubs nd = [q]) \/
     (nhead nd = HSeq /\ forall q, In q (nsubs nd) -> is_must1 G q)).
Definition plain_table (G : grammar) : Prop :=
  forall r nd, nth_error G r = Some nd ->
    head_plain (nhead nd) /\ (forall dflt, nhead nd = HIfMust dflt -> forall m, In m (tl (nsubs nd)) -> mustlike G m).

Section NoAct.
Variable G : grammar.
Variable C : cfg.
Hypothesis HC : noact_cfg C.

Lemma match_hpp_noact_r bf bx body d r c : sim bf bx (body d c) (match_hpp C AKNone body d r c).
Proof.
  destruct HC as [_ Hrof]. unfold match_hpp, use_guard, run_action, fail_hook. rewrite Hrof.
  replace (dA d && false) with false by (destruct (dA d); reflexivity).
  dres (body d c); [| | |left; reflexivity|right; exact I].
  - destruct (dA d); right; simpl; reflexivity.
  - right. simpl. destruct bf; reflexivity.
  - right. simpl. split; [reflexivity | destruct bx; reflexivity].
Qed.
Lemma match_hpp_noact_l bf bx body d r c : sim bf bx (match_hpp C AKNone body d r c) (body d c).
Proof.
  destruct HC as [_ Hrof]. unfold match_hpp, use_guard, run_action, fail_hook. rewrite Hrof.
  replace (dA d && false) with false by (destruct (dA d); reflexivity).
  dres (body d c); [| | |left; reflexivity|right; exact I].
  - destruct (dA d); right; simpl; reflexivity.
  - right. simpl. destruct bf; reflexivity.
  - right. simpl. split; [reflexivity | destruct bx; reflexivity].
Qed.

(* one node, seen from outside, is its eval_head (either direction, any flags) *)

Lemma traced_sim_r bf bx k r a m c0 x : sim bf bx x (traced k r a m c0 x).
Proof. dres x; [right; simpl; auto | right; simpl; destruct bf; auto | right; simpl; split; auto; destruct bx; auto | left; reflexivity | right; exact I]. Qed.
Lemma traced_sim_l bf bx k r a m c0 x : sim bf bx (traced k r a m c0 x) x.
Proof. dres x; [right; simpl; auto | right; simpl; destruct bf; auto | right; simpl; split; auto; destruct bx; auto | left; reflexivity | right; exact I]. Qed.
Lemma sim_refl bf bx x : sim bf bx x x.
Proof. destruct x as [o c e| |]; [right; apply oeq_refl; discriminate | left; reflexivity | right; exact I]. Qed.

Lemma eval_node_r bf bx f d r c nd : nth_error G r = Some nd ->
  sim bf bx (eval_head C (eval G C f) f r (nhead nd) (nsubs nd) d c) (eval G C (S f) d r c).
Proof.
  intros Hn. simpl. rewrite Hn. destruct HC as [Ha _]. rewrite Ha.
  eapply sim_trans; [|apply traced_sim_r]. destruct (nenabled nd); [apply match_hpp_noact_r | apply sim_refl].
Qed.
Lemma eval_node_l bf bx f d r c nd : nth_error G r = Some nd ->
  sim bf bx (eval G C (S f) d r c) (eval_head C (eval G C f) f r (nhead nd) (nsubs nd) d c).
Proof.
  intros Hn. simpl. rewrite Hn. destruct HC as [Ha _]. rewrite Ha.
  eapply sim_trans; [apply traced_sim_l|]. destruct (nenabled nd); [apply match_hpp_noact_l | apply sim_refl].
Qed.
Lemma eval_none f d r c : nth_error G r = None -> eval G C (S f) d r c = Res Fail c [].
Proof. intros Hn. simpl. rewrite Hn. reflexivity. Qed.

Hypothesis HG : plain_table G.

Lemma must1_nofail f q : is_must1 G q -> nofail (eval G C f) q.
Proof.
  intros [nq [q' [Hn [Hh Hs]]]] d c c' evs H. destruct f as [|f]; [discriminate|].
  pose proof (eval_node_l false false f d q c nq Hn) as K. rewrite H, Hh, Hs in K.
  unfold eval_head in K. simpl in K. unfold h_must, raise_at in K.
  destruct K as [K|K]; [discriminate|]. dres (eval G C f (opt_ d) q' c); simpl in K; contradiction.
Qed.

Lemma seq_all_nofail e d rs : (forall q, In q rs -> nofail e q) -> forall c c' evs, seq_all e d rs c <> Res Fail c' evs.
Proof.
  induction rs as [|r rs IH]; intros Hq c c' evs; simpl; [discriminate|].
  unfold bind. pose proof (Hq r (or_introl eq_refl) d c) as Hn.
  dres (e d r c); try discriminate.
  - intros H. pose proof (IH (fun q Hq' => Hq q (or_intror Hq')) c0) as K.
    destruct (seq_all e d rs c0) as [o2 c2 e2| |]; simpl in H; try discriminate. inversion H; subst. eapply K; reflexivity.
  - intros H. eapply Hn; reflexivity.
Qed.

Lemma mustlike_nofail f m : mustlike G m -> nofail (eval G C f) m.
Proof.
  intros [nd [Hn Hk]] d c c' evs H. destruct f as [|f]; [discriminate|].
  pose proof (eval_node_l false false f d m c nd Hn) as K. rewrite H in K.
  destruct K as [K|K]; [discriminate|].
  destruct Hk as [Hh|[[Hh [q Hs]]|[Hh Hq]]]; rewrite Hh in K; unfold eval_head in K; simpl in K.
  - destruct (nsubs nd); simpl in K; contradiction.
  - rewrite Hs in K. unfold h_must, raise_at in K. dres (eval G C f (opt_ d) q c); simpl in K; contradiction.
  - unfold h_seq in K. destruct (nsubs nd) as [|r1 [|r2 rs]] eqn:Es.
    + simpl in K. contradiction.
    + pose proof (must1_nofail f r1 (Hq r1 (or_introl eq_refl)) d c) as Hn1.
      dres (eval G C f d r1 c); simpl in K; try contradiction. eapply Hn1; reflexivity.
    + pose proof (seq_all_nofail (eval G C f) (opt_ d) (r1 :: r2 :: rs) (fun q Hq' => must1_nofail f q (Hq q Hq')) c) as Hs.
      destruct (seq_all (eval G C f) (opt_ d) (r1 :: r2 :: rs) c) as [[| |ex] c2 e2| |]; simpl in K; try contradiction.
      eapply Hs; reflexivity.
Qed.

Lemma Forall2_eq_refl {A} (l : list A) : Forall2 eq l l.
Proof. induction l; constructor; auto. Qed.

(* mode / family / fuel insensitivity *)
Theorem eval_sim f1 : forall f2, f1 <= f2 -> forall d1 d2 r c,
  Sim true (dM d1) (dM d2) (eval G C f1 d1 r c) (eval G C f2 d2 r c).
Proof.
  induction f1 as [|f1 IH]; intros f2 Hf d1 d2 r c; [left; reflexivity|].
  destruct f2 as [|f2]; [lia|].
  destruct (nth_error G r) as [nd|] eqn:Hn.
  - eapply sim_trans; [apply (eval_node_l _ _ f1 d1 r c nd Hn)|].
    eapply sim_trans; [|apply (eval_node_r _ _ f2 d2 r c nd Hn)].
    destruct (HG r nd Hn) as [Hp Hm].
    apply (eval_head_sim C (eval G C f1) (eval G C f2) eq true).
    + intros r1 r2 <- e1 e2 c0. apply IH. lia.
    + lia.
    + exact Hp.
    + apply Forall2_eq_refl.
    + intros _. split; [reflexivity|]. intros q _ e1 e2 c0. apply IH. lia.
    + intros dflt Hh m Hin. apply mustlike_nofail. eapply Hm; eauto.
  - rewrite !eval_none by exact Hn. right. simpl. destruct (eqb (dM d1) (dM d2)); auto.
Qed.

Corollary eval_obs f1 f2 d1 d2 r c : f1 <= f2 -> sim (dM d1 && dM d2) false (eval G C f1 d1 r c) (eval G C f2 d2 r c).
Proof.
  intros Hf. eapply sim_weaken; [| |apply (eval_sim f1 f2 Hf d1 d2 r c)].
  - unfold flagf. destruct (dM d1), (dM d2); simpl; auto.
  - discriminate.
Qed.

End NoAct.
