(* HookFacts.v — the hook protocol checker accepts every log the engine can produce (C08):
   for every table, configuration, mode, input and fuel, and for every outcome (success, local
   failure, exception at any depth).  In strict mode (controls with unwind(), no throwing
   Action<Rule>::apply, no raising failure hook) every attempt is closed by exactly one hook that
   agrees with the attempt's result. *)
From Coq Require Import Lia.
From PegtlV Require Import Base Decode Grammar Engine Hooks.

Section HF.
Variable strict : bool.
Variable G : grammar.
Variable C : cfg.
Variable post_raise : rid -> bool.
Notation runm := (run strict (raise_ok_of G C) post_raise).
Notation stepm := (step strict (raise_ok_of G C) post_raise).
Hypothesis Hpost : forall fam r n, acts C fam r = AKMatch (MLimitBytes n) \/ acts C fam r = AKMatch (MCheckBytes n) -> post_raise r = true.

Hypothesis Hstrict_unwind : strict = true -> forall k, has_unwind C k = true.
Hypothesis Hstrict_nothrow : strict = true -> forall fam r b e t, abeh C fam r b e <> AThrow t.
Hypothesis Hstrict_rof : strict = true -> forall k r, raise_on_failure C k r = false.

Lemma run_app a : forall st b, runm st (a ++ b) = match runm st a with Some st1 => runm st1 b | None => None end.
Proof. induction a as [|e a IH]; intros st b; simpl; [reflexivity|]. destruct (stepm st e); [apply IH | reflexivity]. Qed.

Definition Bal (evs : list event) : Prop := forall st, runm st evs = Some st.
Definition BalAt (r : rid) (evs : list event) : Prop := forall st, top_rule st = Some r -> runm st evs = Some st.

Lemma Bal_nil : Bal []. Proof. intros st; reflexivity. Qed.
Lemma Bal_app a b : Bal a -> Bal b -> Bal (a ++ b).
Proof. intros Ha Hb st. rewrite run_app, Ha. apply Hb. Qed.
Lemma Bal_BalAt r evs : Bal evs -> BalAt r evs.
Proof. intros H st _. apply H. Qed.
Lemma BalAt_nil r : BalAt r []. Proof. intros st _; reflexivity. Qed.
Lemma BalAt_app r a b : BalAt r a -> BalAt r b -> BalAt r (a ++ b).
Proof. intros Ha Hb st Ht. rewrite run_app, (Ha st Ht). apply Hb; exact Ht. Qed.

Definition neutral (e : event) : Prop :=
  match e with EInline _ _ _ | EInline0 _ | EStNew _ _ | EStSuccess _ _ | EStDrop _ | ERaiseNested _ _ _ => True | _ => False end.
Lemma Bal_neutral e : neutral e -> Bal [e].
Proof. intros H st. destruct e; simpl in H; try contradiction; reflexivity. Qed.
Lemma Bal_cons_neutral e evs : neutral e -> Bal evs -> Bal (e :: evs).
Proof. intros H1 H2. change (e :: evs) with ([e] ++ evs). apply Bal_app; [apply Bal_neutral; exact H1 | exact H2]. Qed.
Lemma Bal_all_neutral evs : Forall neutral evs -> Bal evs.
Proof. induction 1; [apply Bal_nil | apply Bal_cons_neutral; assumption]. Qed.

Definition GoodB (x : result) : Prop := match x with Res _ _ evs => Bal evs | _ => True end.
Definition GoodAt (r : rid) (x : result) : Prop := match x with Res _ _ evs => BalAt r evs | _ => True end.
Lemma GoodB_At r x : GoodB x -> GoodAt r x.
Proof. destruct x; simpl; auto. apply Bal_BalAt. Qed.
Lemma GoodB_prepend evs x : Bal evs -> GoodB x -> GoodB (prepend evs x).
Proof. destruct x; simpl; auto. intros; apply Bal_app; assumption. Qed.
Lemma GoodAt_prepend r evs x : BalAt r evs -> GoodAt r x -> GoodAt r (prepend evs x).
Proof. destruct x; simpl; auto. intros; apply BalAt_app; assumption. Qed.

Ltac dres x := destruct x as [[| |?e] ?c ?evs| |].

Section HelperFacts.
Variable ev : dyn -> rid -> cursor -> result.
Hypothesis Hev : forall d r c, GoodB (ev d r c).

Lemma guard_B m s x : GoodB x -> GoodB (guard m s x).
Proof. dres x; simpl; auto. Qed.
Lemma look_B i s x : GoodB x -> GoodB (look i s x).
Proof. dres x; simpl; auto. Qed.
Lemma bind_B x k : GoodB x -> (forall c, GoodB (k c)) -> GoodB (bind x k).
Proof. intros Hx Hk. dres x; simpl in *; auto. apply GoodB_prepend; auto. Qed.

Lemma seq_all_B d rs : forall c, GoodB (seq_all ev d rs c).
Proof. induction rs as [|r rs IH]; intros c; simpl; [apply Bal_nil|]. apply bind_B; [apply Hev | exact IH]. Qed.
Lemma sor_any_B d rs : forall c, GoodB (sor_any ev d rs c).
Proof.
  induction rs as [|r rs IH]; intros c; [apply Bal_nil|]. destruct rs as [|r2 rs']; [apply Hev|].
  change (sor_any ev d (r :: r2 :: rs') c) with (match ev (req d) r c with Res Fail c' evs => prepend evs (sor_any ev d (r2 :: rs') c') | x => x end).
  pose proof (Hev (req d) r c) as H. dres (ev (req d) r c); simpl in *; auto. apply GoodB_prepend; [exact H | apply IH].
Qed.
Lemma star_loop_B n d rs : forall c, GoodB (star_loop ev n d rs c).
Proof.
  induction n as [|n IH]; intros c; simpl; [exact I|].
  pose proof (seq_all_B (req d) rs c) as H. dres (seq_all ev (req d) rs c); simpl in *; auto. apply GoodB_prepend; [exact H | apply IH].
Qed.
Lemma until1_B n d cn : forall c, GoodB (until1_loop C ev n d cn c).
Proof.
  induction n as [|n IH]; intros c; cbn [until1_loop]; [exact I|].
  pose proof (Hev (req d) cn c) as H. dres (ev (req d) cn c); cbn [GoodB] in H |- *; auto.
  destruct (in_empty c0); [exact H|]. destruct (bump_scan (eol_ch (ceol C)) 1 c0) as [c2|]; [|exact I]. apply GoodB_prepend; [exact H | apply IH].
Qed.
Lemma until2_B n d cn r : forall c, GoodB (until2_loop ev n d cn r c).
Proof.
  induction n as [|n IH]; intros c; simpl; [exact I|].
  pose proof (Hev (req d) cn c) as H. dres (ev (req d) cn c); simpl in *; auto.
  pose proof (Hev (opt_ d) r c0) as H2. dres (ev (opt_ d) r c0); simpl in *; auto; try (apply Bal_app; assumption).
  apply GoodB_prepend; [apply Bal_app; assumption | apply IH].
Qed.
Lemma rep_loop_B k d r : forall c, GoodB (rep_loop ev k d r c).
Proof. induction k as [|k IH]; intros c; simpl; [apply Bal_nil|]. apply bind_B; [apply Hev | exact IH]. Qed.
Lemma repopt_loop_B k d r : forall c, GoodB (fst (repopt_loop ev k d r c)).
Proof.
  induction k as [|k IH]; intros c; simpl; [apply Bal_nil|].
  pose proof (Hev (req d) r c) as H. dres (ev (req d) r c); simpl in *; auto.
  specialize (IH c0). destruct (repopt_loop ev k d r c0) as [x b]. simpl in *. apply GoodB_prepend; assumption.
Qed.
Lemma h_seq_B d rs c : GoodB (h_seq ev d rs c).
Proof. unfold h_seq. destruct rs as [|r1 [|r2 rs]]; [apply Bal_nil | apply Hev | apply guard_B, seq_all_B]. Qed.
Lemma h_at_B i d r1 c : GoodB (h_at ev i d r1 c).
Proof. apply look_B, Hev. Qed.
Lemma star_strict_B n d r1 rs : forall c, GoodB (star_strict_loop ev n d r1 rs c).
Proof.
  induction n as [|n IH]; intros c; simpl; [exact I|].
  pose proof (Hev (req d) r1 c) as H. dres (ev (req d) r1 c); simpl in *; auto.
  pose proof (h_seq_B (opt_ d) rs c0) as H2. dres (h_seq ev (opt_ d) rs c0); simpl in *; auto; try (apply Bal_app; assumption).
  apply GoodB_prepend; [apply Bal_app; assumption | apply IH].
Qed.
Lemma rematch_all_B d rs i2 : GoodB (rematch_all ev d rs i2).
Proof.
  induction rs as [|r rs IH]; simpl; [apply Bal_nil|].
  pose proof (Hev d r i2) as H. dres (ev d r i2); simpl in *; auto. apply GoodB_prepend; assumption.
Qed.
Lemma st_scope_B b r c0 x : GoodB x -> GoodB (st_scope b r c0 x).
Proof.
  dres x; simpl; auto; intros H.
  - apply Bal_cons_neutral; [exact I|]. apply Bal_app; [exact H|]. destruct b; simpl; repeat (apply Bal_cons_neutral; [exact I|]); apply Bal_nil.
  - apply Bal_cons_neutral; [exact I|]. apply Bal_app; [exact H|]. apply Bal_neutral; exact I.
  - apply Bal_cons_neutral; [exact I|]. apply Bal_app; [exact H|]. apply Bal_neutral; exact I.
Qed.
Lemma run_inline_neutral acts_ b e : Forall neutral (snd (run_inline C acts_ b e)).
Proof.
  induction acts_ as [|a tl IH]; simpl; [constructor|].
  destruct (ibeh C a b e) as [[|]|t]; simpl; try (constructor; [exact I | constructor]).
  destruct (run_inline C tl b e) as [x evs]. simpl in *. constructor; [exact I | exact IH].
Qed.
Lemma run_inline0_neutral acts_ p : Forall neutral (snd (run_inline0 C acts_ p)).
Proof.
  induction acts_ as [|a tl IH]; simpl; [constructor|].
  destruct (ibeh C a p p) as [[|]|t]; simpl; try (constructor; [exact I | constructor]).
  destruct (run_inline0 C tl p) as [x evs]. simpl in *. constructor; [exact I | exact IH].
Qed.
Lemma inline_result_B x c1 c2 pre : Bal pre -> Forall neutral (snd x) -> GoodB (inline_result x c1 c2 pre).
Proof.
  intros Hp Hn. destruct x as [[[|]|t] evs]; simpl in *; apply Bal_app; try exact Hp; apply Bal_all_neutral; exact Hn.
Qed.

Lemma eval_head_At n self h subs d c :
  nth_error G self = Some (mknode h subs (match nth_error G self with Some nd => nenabled nd | None => false end)) ->
  GoodAt self (eval_head C ev n self h subs d c).
Proof.
  intros Hself. unfold eval_head.
  destruct (eval_atom (ceol C) h c) as [x|] eqn:Ea.
  { (* atoms emit no events *)
    apply GoodB_At.
    assert (A : forall c' o, GoodB (Res o c' [])) by (intros; apply Bal_nil).
    assert (O : forall o, GoodB (ok_or_err o)) by (intros [?|]; simpl; [apply Bal_nil | exact I]).
    assert (BH : forall ch b k, GoodB (bump_help ch b k c)) by (intros; unfold bump_help; apply O).
    assert (PT : forall ch pk t, GoodB (peek_test_bump ch pk t c)).
    { intros. unfold peek_test_bump. destruct (do_peek pk c); try exact I; [apply A|]. destruct (t data); [apply BH | apply A]. }
    destruct h; simpl in Ea; try discriminate Ea; try (injection Ea as <-); try apply A; try apply O; try apply PT.
    - destruct (eol_match (ceol C) c) as [[[[|] z] c']|]; try apply A; exact I.
    - destruct (eol_match (ceol C) c) as [[[[|] z] c']|]; try apply A; exact I.
    - destruct pk; injection Ea as <-;
      try (match goal with |- GoodB (match ?x with PNone => _ | PSome _ _ => _ | POob => _ end) => destruct x; [apply A | apply O | exact I] end).
      destruct (in_empty c); [apply A | apply O].
    - destruct (_ <=? _)%nat; [|apply A]. destruct (take _ _); [|exact I]. destruct (eqb_bytes _ _); [apply BH | apply A].
    - destruct (_ <=? _)%nat; [|apply A]. destruct (take _ _); [|exact I]. destruct (ieqb_bytes _ _); [apply BH | apply A].
    - destruct (_ <=? _)%nat; [apply O | apply A]. }
  assert (F : GoodAt self (Res Fail c [])) by (apply BalAt_nil).
  destruct h; try exact F; try (simpl in Ea; discriminate Ea).
  - apply GoodB_At, h_seq_B.
  - apply GoodB_At, sor_any_B.
  - apply GoodB_At, star_loop_B.
  - destruct subs as [|r1 [|? ?]]; try exact F. apply GoodB_At. unfold h_plus. apply bind_B; [apply Hev | intros; apply star_loop_B].
  - apply GoodB_At. unfold h_partial. pose proof (seq_all_B (req d) subs c) as H. dres (seq_all ev (req d) subs c); simpl in *; auto.
  - destruct subs as [|r1 [|? ?]]; try exact F. apply GoodB_At, h_at_B.
  - destruct subs as [|r1 [|? ?]]; try exact F. apply GoodB_At, h_at_B.
  - destruct subs as [|r1 [|? ?]]; try exact F. apply GoodB_At, guard_B, until1_B.
  - destruct subs as [|cn [|r1 [|? ?]]]; try exact F. apply GoodB_At, guard_B, until2_B.
  - destruct subs as [|r1 [|? ?]]; try exact F. apply GoodB_At, guard_B, rep_loop_B.
  - destruct subs as [|r1 [|? ?]]; try exact F. apply GoodB_At. unfold h_rep_min_max. apply guard_B. apply bind_B; [apply rep_loop_B|].
    intros c1. pose proof (repopt_loop_B (mx - mn) d r1 c1) as H. destruct (repopt_loop ev (mx - mn) d r1 c1) as [x b]. simpl in H.
    dres x; simpl in *; auto. destruct b; [|exact H]. apply GoodB_prepend; [exact H | apply h_at_B].
  - destruct subs as [|r1 [|? ?]]; try exact F. apply GoodB_At, repopt_loop_B.
  - destruct subs as [|cn [|t [|e [|? ?]]]]; try exact F. apply GoodB_At. unfold h_if_then_else. apply guard_B.
    pose proof (Hev (req d) cn c) as H. dres (ev (req d) cn c); simpl in *; auto; apply GoodB_prepend; auto; apply Hev.
  - destruct subs as [|cn rest_]; try exact F. apply GoodB_At. unfold h_if_must.
    pose proof (Hev (if dflt then req d else d) cn c) as H. dres (ev (if dflt then req d else d) cn c); simpl in *; auto.
    destruct rest_ as [|m ?]; [exact H|]. pose proof (Hev d m c0) as H2. dres (ev d m c0); simpl in *; auto; apply Bal_app; assumption.
  - (* must: the raise event is emitted while this node is the innermost attempt *)
    destruct subs as [|r1 [|? ?]]; try exact F. unfold h_must, raise_at.
    pose proof (Hev (opt_ d) r1 c) as H. dres (ev (opt_ d) r1 c); simpl in *; try (apply Bal_BalAt; exact H); auto.
    apply BalAt_app; [apply Bal_BalAt; exact H|]. intros st Ht. simpl. rewrite Ht. unfold raise_ok_of. rewrite Hself. simpl.
    rewrite Nat.eqb_refl. reflexivity.
  - (* raise *)
    destruct subs as [|t [|? ?]]; try exact F. unfold raise_at. simpl. intros st Ht. simpl. rewrite Ht. unfold raise_ok_of. rewrite Hself. simpl.
    rewrite Nat.eqb_refl. reflexivity.
  - destruct subs as [|r1 rs]; try exact F. apply GoodB_At. unfold h_strict. apply guard_B.
    pose proof (Hev (req d) r1 c) as H. dres (ev (req d) r1 c); simpl in *; auto. apply GoodB_prepend; [exact H | apply h_seq_B].
  - destruct subs as [|r1 rs]; try exact F. apply GoodB_At, guard_B, star_strict_B.
  - destruct subs as [|hd rs]; try exact F. apply GoodB_At. unfold h_rematch. destruct rs as [|r rs']; [apply Hev|].
    pose proof (Hev (opt_ d) hd c) as H. dres (ev (opt_ d) hd c); cbn [GoodB] in H |- *; auto.
    destruct (take _ (rest c)) as [span|]; [|exact I].
    pose proof (rematch_all_B (opt_ d) (r :: rs') (mkcur span (cpos c))) as H2.
    dres (rematch_all ev (opt_ d) (r :: rs') (mkcur span (cpos c))); cbn [GoodB] in H2 |- *; auto; apply Bal_app; assumption.
  - destruct subs as [|r1 [|? ?]]; try exact F. apply GoodB_At. unfold h_try_false.
    pose proof (Hev (opt_ d) r1 c) as H. dres (ev (opt_ d) r1 c); simpl in *; auto.
  - destruct subs as [|r1 [|? ?]]; try exact F. apply GoodB_At. unfold h_try_nested.
    pose proof (Hev (opt_ d) r1 c) as H. dres (ev (opt_ d) r1 c); simpl in *; auto.
    destruct (catches f e); simpl; [|exact H]. apply Bal_app; [exact H | apply Bal_neutral; exact I].
  - destruct subs as [|r1 [|? ?]]; try exact F. apply GoodB_At, st_scope_B, Hev.
  - destruct subs as [|r1 [|? ?]]; try exact F. apply GoodB_At, Hev.
  - destruct subs as [|r1 [|? ?]]; try exact F. apply GoodB_At, Hev.
  - destruct subs as [|r1 [|? ?]]; try exact F. apply GoodB_At, Hev.
  - destruct subs as [|r1 [|? ?]]; try exact F. apply GoodB_At, Hev.
  - destruct subs; try exact F. apply GoodB_At. unfold h_apply. destruct (dA d); [|apply Bal_nil].
    apply inline_result_B; [apply Bal_nil | apply run_inline_neutral].
  - destruct subs; try exact F. apply GoodB_At. unfold h_apply0. destruct (dA d); [|apply Bal_nil].
    apply inline_result_B; [apply Bal_nil | apply run_inline0_neutral].
  - destruct subs as [|r1 [|? ?]]; try exact F. apply GoodB_At. unfold h_if_apply.
    destruct (dA d && _); [|apply Hev].
    pose proof (Hev (set_A (opt_ d) true) r1 c) as H. dres (ev (set_A (opt_ d) true) r1 c); simpl in *; auto.
    apply inline_result_B; [exact H | apply run_inline_neutral].
Qed.

End HelperFacts.
(* ---------- one invocation: Control< Rule >::match seen from outside ---------- *)
Definition Lvl (r : rid) (x : result) : Prop :=
  match x with
  | Res o c' evs => forall tl k p, runm (FInv r false None :: tl) (evs ++ [EExit k r (okind o) p]) = Some tl
  | _ => True end.

Lemma run_neutrals ns : Forall neutral ns -> forall st, runm st ns = Some st.
Proof. intros H. apply Bal_all_neutral. exact H. Qed.
Lemma run_insert ns a b st : Forall neutral ns -> runm st (a ++ ns ++ b) = runm st (a ++ b).
Proof.
  intros H. rewrite (run_app a st (ns ++ b)), (run_app a st b). destruct (runm st a) as [st1|]; [|reflexivity].
  rewrite run_app, (run_neutrals ns H). reflexivity.
Qed.

Lemma Lvl_of_At r x : GoodAt r x -> Lvl r x.
Proof.
  destruct x as [o c' evs| |]; simpl; auto. intros H tl k p. rewrite run_app, (H (FInv r false None :: tl) eq_refl). simpl.
  rewrite Nat.eqb_refl. reflexivity.
Qed.

Lemma match_hpp_Lvl ak body d r c : (forall d c, GoodAt r (body d c)) -> Lvl r (match_hpp C ak body d r c).
Proof.
  intros Hb. unfold match_hpp. set (g := use_guard d ak).
  pose proof (Hb (if g then opt_ d else d) c) as H.
  destruct (body (if g then opt_ d else d) c) as [[| |e] c1 evs| |]; simpl in H; try exact I.
  - (* body matched: action, then success / failure *)
    destruct (run_action C d ak r (cpos c) (cpos c1)) as [[[|]|t] ea] eqn:Er.
    + (* accepted *)
      simpl. intros tl k p. rewrite Nat.eqb_refl. simpl.
      rewrite <- !app_assoc. rewrite run_app. rewrite (H (FHook (dCtl d) r :: FInv r true None :: tl) eq_refl).
      assert (Ea : runm (FHook (dCtl d) r :: FInv r true None :: tl) ea = Some (FHook (dCtl d) r :: FInv r true None :: tl)).
      { unfold run_action in Er. destruct (dA d); [|inversion Er; reflexivity].
        destruct ak as [|isb|isb|mk]; inversion Er; subst; simpl; rewrite ?Nat.eqb_refl; reflexivity. }
      rewrite run_app, Ea. simpl. rewrite !Nat.eqb_refl. simpl. rewrite Nat.eqb_refl. reflexivity.
    + (* vetoed *)
      assert (Ea : forall k0 tl0, runm (FHook k0 r :: tl0) ea = Some (FHook k0 r :: tl0)).
      { intros k0 tl0. unfold run_action in Er. destruct (dA d); [|inversion Er].
        destruct ak as [|isb|isb|mk]; inversion Er; subst; simpl; rewrite ?Nat.eqb_refl; reflexivity. }
      unfold fail_hook. destruct (raise_on_failure C (dCtl d) r) eqn:Erof; simpl; intros tl k p; rewrite Nat.eqb_refl; simpl;
      rewrite <- !app_assoc; rewrite run_app, (H (FHook (dCtl d) r :: FInv r true None :: tl) eq_refl);
      rewrite run_app, Ea; simpl; rewrite !Nat.eqb_refl; simpl; rewrite Nat.eqb_refl; simpl; try reflexivity.
      destruct strict eqn:Es; [rewrite (Hstrict_rof eq_refl) in Erof; discriminate | reflexivity].
    + (* the rule's own action threw: no closing hook (the unwind guard only spans Rule::match) *)
      simpl. intros tl k p. rewrite Nat.eqb_refl. simpl.
      rewrite <- !app_assoc. rewrite run_app, (H (FHook (dCtl d) r :: FInv r true None :: tl) eq_refl).
      assert (Ea : runm (FHook (dCtl d) r :: FInv r true None :: tl) ea = Some (FHook (dCtl d) r :: FInv r true None :: tl) /\ strict = false).
      { unfold run_action in Er. destruct (dA d); [|inversion Er].
        destruct ak as [|isb|isb|mk]; try (inversion Er; fail);
        destruct (abeh C (dAct d) r (cpos c) (cpos c1)) as [x|t'] eqn:Eab; inversion Er; subst; simpl; rewrite ?Nat.eqb_refl;
        (split; [reflexivity|]); destruct strict eqn:Es; try reflexivity; exfalso; eapply (Hstrict_nothrow eq_refl); eauto. }
      destruct Ea as [Ea Es]. rewrite run_app, Ea. simpl. rewrite !Nat.eqb_refl. rewrite Es. reflexivity.
  - (* body failed *)
    unfold fail_hook. destruct (raise_on_failure C (dCtl d) r) eqn:Erof; simpl; intros tl k p; rewrite Nat.eqb_refl; simpl;
    rewrite <- !app_assoc; rewrite run_app, (H (FHook (dCtl d) r :: FInv r true None :: tl) eq_refl); simpl; rewrite !Nat.eqb_refl; simpl; rewrite Nat.eqb_refl; simpl; try reflexivity.
    destruct strict eqn:Es; [rewrite (Hstrict_rof eq_refl) in Erof; discriminate | reflexivity].
  - (* exception passed through the body *)
    simpl. intros tl k p. rewrite Nat.eqb_refl. simpl.
    rewrite <- !app_assoc. rewrite run_app, (H (FHook (dCtl d) r :: FInv r true None :: tl) eq_refl).
    destruct (has_unwind C (dCtl d)) eqn:Eu; simpl; rewrite !Nat.eqb_refl; simpl; rewrite ?Nat.eqb_refl; simpl; try reflexivity.
    destruct strict eqn:Es; [rewrite (Hstrict_unwind eq_refl) in Eu; discriminate | reflexivity].
Qed.

Lemma Lvl_wrap r o c' evs pre post : Forall neutral pre -> Forall neutral post ->
  Lvl r (Res o c' evs) -> Lvl r (Res o c' (pre ++ evs ++ post)).
Proof.
  intros Hpre Hpo H. simpl in *. intros tl k p.
  replace ((pre ++ evs ++ post) ++ [EExit k r (okind o) p]) with ([] ++ pre ++ (evs ++ post ++ [EExit k r (okind o) p]))
    by (simpl; rewrite <- !app_assoc; reflexivity).
  rewrite run_insert by exact Hpre. simpl. rewrite (run_insert post evs [EExit k r (okind o) p]) by exact Hpo. apply H.
Qed.

Lemma Lvl_st_scope b r0 c0 r x : Lvl r x -> Lvl r (st_scope b r0 c0 x).
Proof.
  destruct x as [[| |e] c' evs| |]; cbn [st_scope]; auto; intros H.
  - apply (Lvl_wrap r Ok c' evs [EStNew r0 (cpos c0)] ((if b then [EStSuccess r0 (cpos c')] else []) ++ [EStDrop r0])); [repeat constructor | destruct b; repeat constructor | exact H].
  - apply (Lvl_wrap r Fail c' evs [EStNew r0 (cpos c0)] [EStDrop r0]); [repeat constructor | repeat constructor | exact H].
  - apply (Lvl_wrap r (Exc e) c' evs [EStNew r0 (cpos c0)] [EStDrop r0]); [repeat constructor | repeat constructor | exact H].
Qed.

Lemma Lvl_of_B r x : GoodB x -> Lvl r x.
Proof. intros H. apply Lvl_of_At, GoodB_At, H. Qed.

Lemma action_match_Lvl ev plain enabled m d r c : acts C (dAct d) r = AKMatch m ->
  (forall d c, GoodB (ev d r c)) -> (forall d c, Lvl r (plain d c)) -> Lvl r (action_match ev plain enabled m d r c).
Proof.
  intros Hact He Hp. destruct m; cbn [action_match].
  - apply Lvl_of_B, He.
  - apply Lvl_st_scope, Hp.
  - apply Lvl_st_scope, Lvl_of_B, He.
  - apply Hp. - apply Hp. - apply Hp.
  - destruct enabled; [|apply Hp]. destruct (n <? S (dDepth d))%nat; [|apply Hp].
    unfold raise_at. simpl. intros tl k p. rewrite Nat.eqb_refl. reflexivity.
  - pose proof (Hp d (mkcur (firstn n (rest c)) (cpos c))) as H.
    destruct (plain d (mkcur (firstn n (rest c)) (cpos c))) as [[| |e] c1 evs| |]; try exact I; try exact H.
    destruct (in_empty c1 && negb (is_nil (skipn n (rest c)))); [|exact H].
    (* matched, then the limit raises: the attempt was closed by success, the invocation ends in an exception *)
    unfold raise_at. cbn [Lvl okind] in H |- *. intros tl k p.
    specialize (H tl k p). rewrite run_app in H. rewrite <- app_assoc, run_app.
    destruct (runm (FInv r false None :: tl) evs) as [st1|] eqn:E1; [|discriminate H].
    simpl in H. destruct st1 as [|[r' started closed|k' r'] tl1]; try discriminate H.
    + destruct (Nat.eqb r r' && consistent strict (post_raise r) started closed (Some true)) eqn:Ec; [|discriminate H].
      inversion H; subst tl1. apply andb_true_iff in Ec. destruct Ec as [Er Ec]. apply Nat.eqb_eq in Er. subst r'.
      simpl. rewrite Nat.eqb_refl. simpl.
      rewrite (Hpost (dAct d) r n (or_introl Hact)).
      destruct started; destruct closed as [[| | |]|]; simpl in Ec |- *; try discriminate Ec; try reflexivity; rewrite orb_true_r; reflexivity.
    + destruct tl1 as [|[r'' [|] [cl|]|] tl2]; try discriminate H.
      exfalso. revert H. simpl. rewrite andb_false_r. discriminate.
  - pose proof (Hp d c) as H. destruct (plain d c) as [[| |e] c1 evs| |]; try exact I; try exact H.
    destruct (n <? length (rest c) - length (rest c1))%nat; [|exact H].
    cbn [Lvl okind] in H |- *. intros tl k p. specialize (H tl k p). rewrite run_app in H |- *.
    destruct (runm (FInv r false None :: tl) evs) as [st1|] eqn:E1; [|discriminate H].
    simpl in H |- *. destruct st1 as [|[r' started closed|k' r'] tl1]; try discriminate H.
    + destruct (Nat.eqb r r' && consistent strict (post_raise r) started closed (Some true)) eqn:Ec; [|discriminate H].
      inversion H; subst tl1. apply andb_true_iff in Ec. destruct Ec as [Er Ec]. rewrite Er. simpl.
      rewrite (Hpost (dAct d) r n (or_intror Hact)).
      destruct started; destruct closed as [[| | |]|]; simpl in Ec |- *; try discriminate Ec; try reflexivity; rewrite orb_true_r; reflexivity.
    + destruct tl1 as [|[r'' [|] [cl|]|] tl2]; try discriminate H.
      exfalso. revert H. simpl. rewrite andb_false_r. discriminate.
Qed.

Lemma traced_B k r a m c x : Lvl r x -> GoodB (traced k r a m c x).
Proof.
  destruct x as [o c' evs| |]; simpl; auto. intros H st. simpl. apply H.
Qed.

Theorem eval_B f : forall d r c, GoodB (eval G C f d r c).
Proof.
  induction f as [|f IH]; intros d r c; simpl; [exact I|].
  destruct (nth_error G r) as [nd|] eqn:En; [|apply Bal_nil].
  apply traced_B.
  assert (Hbody : forall d' c', GoodAt r (eval_head C (eval G C f) f r (nhead nd) (nsubs nd) d' c')).
  { intros d' c'. apply eval_head_At; [exact IH|]. rewrite En. destruct nd; reflexivity. }
  assert (Hplain : forall ak d' c', Lvl r
            (if nenabled nd then match_hpp C ak (eval_head C (eval G C f) f r (nhead nd) (nsubs nd)) d' r c'
             else eval_head C (eval G C f) f r (nhead nd) (nsubs nd) d' c')).
  { intros ak d' c'. destruct (nenabled nd); [apply match_hpp_Lvl; exact Hbody | apply Lvl_of_At, Hbody]. }
  destruct (acts C (dAct d) r) as [| | |mk] eqn:Ea; try apply Hplain.
  apply action_match_Lvl; [exact Ea | intros; apply IH | apply Hplain].
Qed.

End HF.
