(* LimitsSpec.v — C18: specification-side definitions.
   (1) The RAII counter machine of input_with_depth / depth_guard, run over the ghost invocation trace
       (EEnter / EExit of every Control< Rule >::match): entering a guarded rule increments the counter,
       leaving it — by return true, return false or exception alike — decrements it; an entry that would
       push the counter beyond the rule's limit must instead be followed by the raise and the exit.
   (2) `within`: the same counter over the trace of the UNGUARDED run = "the input needs at most the
       configured nesting".
   (3) A small concrete recursive table for the Examples. *)
From PegtlV Require Import Base Decode Grammar Engine.

(* which rules carry a depth guard, and with which limit *)
Definition ld_of (ak : akind) : option nat := match ak with AKMatch (MLimitDepth n) => Some n | _ => None end.

Section Machine.
Variable lim : rid -> option nat.      (* Some n: the rule is guarded (enabled control + limit_depth< n > attached) *)

Inductive mstate := MNormal (k : nat) | MExpectRaise (k : nat) (r : rid) | MExpectExit (k : nat) (r : rid) | MBad.

Definition mstep (s : mstate) (e : event) : mstate :=
  match s with
  | MBad => MBad
  | MExpectRaise k r => match e with ERaise _ WLimitDepth _ => MExpectExit k r | _ => MBad end
  | MExpectExit k r => match e with EExit _ r' None _ => if Nat.eqb r' r then MNormal k else MBad | _ => MBad end
  | MNormal k =>
      match e with
      | EEnter _ r _ _ _ =>
          match lim r with
          | Some n => if (n <? S k)%nat then MExpectRaise k r else MNormal (S k)      (* ++m_depth; if( m_depth > Maximum ) raise *)
          | None => MNormal k
          end
      | EExit _ r _ _ =>
          match lim r with
          | Some _ => match k with S k' => MNormal k' | O => MBad end               (* ~depth_guard: --m_depth *)
          | None => MNormal k
          end
      | ERaise _ WLimitDepth _ => MBad                                                (* the depth error is raised nowhere else *)
      | _ => MNormal k
      end
  end.

Definition mrun (s : mstate) (evs : list event) : mstate := fold_left mstep evs s.

(* the counter over a trace without raises (the unguarded run): true iff no guarded entry exceeds its limit *)
Fixpoint within (k : nat) (evs : list event) : bool :=
  match evs with
  | [] => true
  | EEnter _ r _ _ _ :: tl =>
      match lim r with
      | Some n => (S k <=? n)%nat && within (S k) tl
      | None => within k tl
      end
  | EExit _ r _ _ :: tl =>
      match lim r with
      | Some _ => within (Nat.pred k) tl
      | None => within k tl
      end
  | _ :: tl => within k tl
  end.

(* net effect of a trace on the counter *)
Fixpoint cnt (k : nat) (evs : list event) : nat :=
  match evs with
  | [] => k
  | EEnter _ r _ _ _ :: tl => match lim r with Some _ => cnt (S k) tl | None => cnt k tl end
  | EExit _ r _ _ :: tl => match lim r with Some _ => cnt (Nat.pred k) tl | None => cnt k tl end
  | _ :: tl => cnt k tl
  end.
End Machine.

Definition is_ld_raise (e : event) : bool := match e with ERaise _ WLimitDepth _ => true | _ => false end.
Definition has_ld (evs : list event) : bool := existsb is_ld_raise evs.

(* the configuration with every depth guard removed (Action< Rule > = nothing for those rules) *)
Definition strip_ak (ak : akind) : akind := match ak with AKMatch (MLimitDepth _) => AKNone | a => a end.
Definition strip_depth (C : cfg) : cfg :=
  mkcfg (ceol C) (fun fam r => strip_ak (acts C fam r)) (abeh C) (ibeh C) (has_unwind C) (raise_on_failure C).

(* two dyn records that differ at most in the depth counter *)
Definition same_but_depth (d d' : dyn) : Prop := dA d = dA d' /\ dM d = dM d' /\ dAct d = dAct d' /\ dCtl d = dCtl d'.

(* ---------- a concrete recursive table for the Examples ----------
   0: N0 = seq< one<'('>, opt< N0 >, one<')'> >     (guarded by limit_depth in family 9)
   4: L  = star< any >                               (guarded by limit_bytes / check_bytes in family 9)
   6: G  = seq< N0, L >                                                                     *)
Definition ex_table : grammar :=
  [ mknode HSeq [1; 2; 3]%nat true
  ; mknode (HOne true PkChar [40%Z]) [] true
  ; mknode HPartial [0]%nat true
  ; mknode (HOne true PkChar [41%Z]) [] true
  ; mknode HStarPartial [5]%nat true
  ; mknode (HAny PkChar) [] true
  ; mknode HSeq [0; 4]%nat true ].

Definition ex_cfg (on_n0 on_l : akind) : cfg :=
  mkcfg EolLfCrlf
        (fun fam r => if Nat.eqb fam 9 then (if Nat.eqb r 0 then on_n0 else if Nat.eqb r 4 then on_l else AKNone) else AKNone)
        (fun _ _ _ _ => ARet true) (fun _ _ _ => ARet true) (fun k => Nat.even k) (fun _ _ => false).
Definition ex_dyn : dyn := mkdyn true true 9 2 0.
Definition ex_lim (n : nat) : rid -> option nat := fun r => if Nat.eqb r 0 then Some n else None.
Definition lp : byte := 40%N.
Definition rp : byte := 41%N.
