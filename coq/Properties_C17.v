(* Properties_C17.v — property C17: unescape helpers produce exact UTF-8 and reject invalid code
   points.  Theorems only; the proofs are in UnescapeFacts.v.
   Model: Unescape.v (contrib/unescape.hpp), Decode.peek_utf8 (internal/peek_utf8.hpp).
   Specification: UnescapeSpec.v (RFC 3629 sections 3 and 4, RFC 8259 section 7). *)
From PegtlV Require Import Base Decode Unescape UnescapeSpec UnescapeFacts.
Local Open Scope N_scope.

(* ---------- utf8_append_utf32 ---------- *)

(* for ALL 32-bit values: scalar values get exactly the RFC 3629 encoding appended, everything else
   (surrogates, values above U+10FFFF) is refused and nothing is appended *)
Theorem C17_append_exact : forall str cp, cp < 2 ^ 32 ->
  utf8_append_utf32 str cp = if is_scalar cp then (str ++ encode cp, true) else (str, false).
Proof. exact (fun str cp _ => append_exact str cp). Qed.
Print Assumptions C17_append_exact.

(* the encoding is a well-formed UTF8-char (RFC 3629 ABNF) denoting cp, of length 1..4 by range *)
Theorem C17_encode_wf : forall cp, is_scalar cp = true ->
  utf8_char (encode cp) cp /\
  length (encode cp) = (if cp <? 0x80 then 1%nat else if cp <? 0x800 then 2%nat else if cp <? 0x10000 then 3%nat else 4%nat).
Proof. exact (fun cp H => conj (encode_wf cp H) (encode_length cp H)). Qed.
Print Assumptions C17_encode_wf.

(* uniqueness: any well-formed UTF8-char denoting v is encode v (and v is a scalar value) *)
Theorem C17_encode_unique : forall bs v, utf8_char bs v -> bs = encode v /\ is_scalar v = true.
Proof. exact utf8_char_unique. Qed.
Print Assumptions C17_encode_unique.

Theorem C17_encode_inj : forall a b, is_scalar a = true -> is_scalar b = true -> encode a = encode b -> a = b.
Proof. exact encode_inj. Qed.
Print Assumptions C17_encode_inj.

(* round trip with the independently written decoder of the library *)
Theorem C17_decode_encode : forall cp rst p, is_scalar cp = true ->
  peek_utf8 (mkcur (encode cp ++ rst) p) = PSome (Z.of_N cp) (length (encode cp)).
Proof. exact decode_encode. Qed.
Print Assumptions C17_decode_encode.

(* ... which decodes every well-formed UTF8-char to the character number it denotes *)
Theorem C17_decode_wf : forall bs v rst p, utf8_char bs v ->
  peek_utf8 (mkcur (bs ++ rst) p) = PSome (Z.of_N v) (length bs).
Proof. exact decode_wf. Qed.
Print Assumptions C17_decode_wf.

(* ---------- unhex_char / unhex_string ---------- *)

(* every character: the documented digit value, std::terminate() (None) for non-digits *)
Theorem C17_unhex_char_exact : forall c, unhex_char c = hex_digit c.
Proof. exact unhex_char_spec. Qed.
Print Assumptions C17_unhex_char_exact.

(* digit strings that fit the w-bit target (4 bits per digit): the exact value *)
Theorem C17_unhex_exact : forall w l, xdigits l -> 4 * N.of_nat (length l) <= w ->
  unhex_string w l = Some (hexval l).
Proof. exact unhex_exact. Qed.
Print Assumptions C17_unhex_exact.

(* any length: the value modulo 2^w (silent wrap-around beyond the width) *)
Theorem C17_unhex_wrap : forall w l, xdigits l -> unhex_string w l = Some (hexval l mod 2 ^ w).
Proof. exact unhex_wrap. Qed.
Print Assumptions C17_unhex_wrap.

(* ---------- unescape_c ---------- *)

(* first matching character of T = one< Qs... > selects the replacement at the same index *)
Theorem C17_unescape_c_exact : forall qs rs c s,
  unescape_c qs rs [c] s =
  match assoc c (combine qs rs) with Some r => UOk (s ++ [r]) | None => UTerminate end.
Proof. exact unescape_c_exact. Qed.
Print Assumptions C17_unescape_c_exact.

(* the shipped JSON instance implements the table of RFC 8259 section 7 *)
Theorem C17_unescape_c_json : forall c s,
  unescape_c json_qs json_rs [c] s =
  match assoc c json_escapes with Some r => UOk (s ++ [r]) | None => UTerminate end.
Proof. exact unescape_c_json. Qed.
Print Assumptions C17_unescape_c_json.

(* the instance of the unescape example implements the C simple escape sequences *)
Theorem C17_unescape_c_cex : forall c s,
  unescape_c cex_qs cex_rs [c] s =
  match assoc c c_escapes with Some r => UOk (s ++ [r]) | None => UTerminate end.
Proof. exact unescape_c_cex. Qed.
Print Assumptions C17_unescape_c_cex.

(* ---------- unescape_x ---------- *)

Theorem C17_unescape_x_exact : forall c0 ds s, xdigits ds -> (length ds <= 2)%nat ->
  unescape_x (c0 :: ds) s = UOk (s ++ [hexval ds]).
Proof. exact unescape_x_exact. Qed.
Print Assumptions C17_unescape_x_exact.

(* ---------- unescape_u (any number of digits up to 8, in particular the 4- and 8-digit forms) ---------- *)

Theorem C17_unescape_u_exact : forall c0 ds s, xdigits ds -> (length ds <= 8)%nat ->
  unescape_u (c0 :: ds) s =
  if is_scalar (hexval ds) then UOk (s ++ encode (hexval ds)) else UThrow s.
Proof. exact unescape_u_exact. Qed.
Print Assumptions C17_unescape_u_exact.

(* more than 8 digits: the value is reduced modulo 2^32 before it is judged *)
Theorem C17_unescape_u_wrap : forall c0 ds s, xdigits ds ->
  unescape_u (c0 :: ds) s =
  if is_scalar (hexval ds mod 2 ^ 32) then UOk (s ++ encode (hexval ds mod 2 ^ 32)) else UThrow s.
Proof. exact unescape_u_wrap. Qed.
Print Assumptions C17_unescape_u_wrap.

(* ---------- unescape_j ---------- *)

(* any number of consecutive groups  c0 XXXX ( ?? XXXX )* : every high/low pair becomes one code
   point, everything else is encoded individually, and the action throws exactly when the RFC 8259
   reading has a lone surrogate (then the string holds what was decoded before it) *)
Theorem C17_unescape_j_exact : forall c0 body us s, j_body body us ->
  unescape_j (c0 :: body) s =
  match pair_units us with
  | Some cps => UOk (s ++ encode_all cps)
  | None => UThrow (s ++ encode_all (pair_prefix us))
  end.
Proof. exact unescape_j_exact. Qed.
Print Assumptions C17_unescape_j_exact.

(* what unescape_j appends is well-formed UTF-8 *)
Theorem C17_unescape_j_wf : forall c0 body us s s', j_body body us ->
  unescape_j (c0 :: body) s = UOk s' ->
  exists cps, pair_units us = Some cps /\ s' = s ++ encode_all cps /\ wf_utf8 (encode_all cps) cps.
Proof. exact unescape_j_wf. Qed.
Print Assumptions C17_unescape_j_wf.

(* ---------- non-trivial instances (hypotheses are satisfiable; the statements compute) ---------- *)

(* U+1F600 *)
Example ex_append_1F600 : utf8_append_utf32 [0x41] 0x1F600 = ([0x41; 0xF0; 0x9F; 0x98; 0x80], true).
Proof. vm_compute. reflexivity. Qed.
Print Assumptions ex_append_1F600.

Example ex_append_boundaries :
  map (fun cp => utf8_append_utf32 [] cp)
      [0x7F; 0x80; 0x7FF; 0x800; 0xD7FF; 0xD800; 0xDFFF; 0xE000; 0xFFFF; 0x10000; 0x10FFFF; 0x110000; 0xFFFFFFFF] =
  [ ([0x7F], true); ([0xC2; 0x80], true); ([0xDF; 0xBF], true); ([0xE0; 0xA0; 0x80], true);
    ([0xED; 0x9F; 0xBF], true); ([], false); ([], false); ([0xEE; 0x80; 0x80], true);
    ([0xEF; 0xBF; 0xBF], true); ([0xF0; 0x90; 0x80; 0x80], true); ([0xF4; 0x8F; 0xBF; 0xBF], true);
    ([], false); ([], false) ].
Proof. vm_compute. reflexivity. Qed.
Print Assumptions ex_append_boundaries.

(* the matched text  uD83D\uDE00  (U+1F600 as a surrogate pair) satisfies the input hypothesis ... *)
Example ex_j_body_pair : j_body [68; 56; 51; 68; 92; 117; 100; 101; 48; 48] [0xD83D; 0xDE00].
Proof.
  refine (JB_more [68; 56; 51; 68] 92 117 [100; 101; 48; 48] [0xDE00] _ (JB_last [100; 101; 48; 48] _));
    (split; [reflexivity | repeat constructor]).
Qed.
Print Assumptions ex_j_body_pair.

(* ... and is turned into the single four-byte sequence *)
Example ex_j_pair : unescape_j [117; 68; 56; 51; 68; 92; 117; 100; 101; 48; 48] [0x22] = UOk [0x22; 0xF0; 0x9F; 0x98; 0x80].
Proof. vm_compute. reflexivity. Qed.
Print Assumptions ex_j_pair.

(* u0041\uD83DA : 'A' is appended, then the lone high surrogate is rejected *)
Example ex_j_lone_high :
  unescape_j [117; 48; 48; 52; 49; 92; 117; 68; 56; 51; 68; 92; 117; 48; 48; 52; 49] [] = UThrow [0x41].
Proof. vm_compute. reflexivity. Qed.
Print Assumptions ex_j_lone_high.

(* uDE00\uD83D : low before high is not a pair *)
Example ex_j_low_first : unescape_j [117; 68; 69; 48; 48; 92; 117; 68; 56; 51; 68] [] = UThrow [].
Proof. vm_compute. reflexivity. Qed.
Print Assumptions ex_j_low_first.

Example ex_decode_encode :
  peek_utf8 (mkcur (encode 0x1F600 ++ [0x41]) pos0) = PSome 128512%Z 4.
Proof. vm_compute. reflexivity. Qed.
Print Assumptions ex_decode_encode.

(* fFfF fits 16 bits exactly; 123 does not fit 8 bits and wraps to 0x23 *)
Example ex_unhex : unhex_string 16 [102; 70; 102; 70] = Some 0xFFFF /\ unhex_string 8 [49; 50; 51] = Some 0x23 /\
                   unhex_string 32 [49; 103] = None.
Proof. vm_compute. repeat split. Qed.
Print Assumptions ex_unhex.

(* U0001F600 (8 digits), uD800 (rejected), x7e, and the JSON escape n *)
Example ex_actions :
  unescape_u [85; 48; 48; 48; 49; 70; 54; 48; 48] [] = UOk [0xF0; 0x9F; 0x98; 0x80] /\
  unescape_u [117; 68; 56; 48; 48] [0x41] = UThrow [0x41] /\
  unescape_x [120; 55; 101] [] = UOk [0x7E] /\
  unescape_c json_qs json_rs [110] [] = UOk [10].
Proof. vm_compute. repeat split. Qed.
Print Assumptions ex_actions.
