(* Properties_C05.v — C05: global failure (identity, position, propagation, conversion of exceptions).
   Theorems only; proofs are in RaiseFacts.v (propagation, try_catch), RaisePos.v (positions),
   RaiseSpec.v / RaiseSound.v (identity against the PEG formalism extended with global failure).
   Strengthened at the end of the file (sections "identity, two-way" and "position, all tracked atoms"):
     - C05_identity : BOTH directions (soundness + completeness, RaiseComplete.v) on cm_table / void_cfg; it
       supersedes C05_identity_partial;
     - C05_identity_ext* : the same two-way identity on the extended fragment cm2_table (RaiseSpec2.v,
       RaiseSound2.v: + until (both forms), rep, rep_opt, rep_min_max, if_then_else, if_must/opt_must without
       further rules, the transparent wrappers action<> / control<> / enable / disable / state<>, and
       try_catch_return_false (a raise inside becomes a local failure); star_must / list_must are aliases inside
       the fragment), conservative over RPeg;
     - C05_position_tracked_ok : C05_position_tracked for every PosFacts2.table_ok table (eol / eolf under every
       policy but cr_crlf, istring, utf8 / uint8 / masked decoders), RaisePos2.v; supersedes C05_position_tracked.
   Still partial: identity is stated for void configurations (no vetoing / throwing action, no match-level
   action, no raising failure hook) and for the heads listed; eol::cr_crlf and uint8::mask_* on the eol byte
   remain excluded from the tracked-position statement (they are the C06 findings).
   Quantifiers: every grammar table G, every configuration C (action attachments incl. throwing
   actions of every family, vetoes, match-level actions, controls with/without unwind, must_if-style
   raising failure hooks), every dynamic context d, rule r, cursor c (all inputs) and fuel f. *)
From PegtlV Require Import Base Decode Grammar Engine EngineFacts AtomFacts PosFacts ExactSound ExactTop RaiseFacts RaisePos RaiseSpec RaiseSound.
Local Open Scope N_scope.

(* ---------------------------------------------------------------- propagation *)
(* Tables without try_catch rules: whatever the outcome, the log splits as
     calm prefix ++ [one throwing event] ++ unwinding-only suffix         (outcome Exc e, and that event throws exactly e)
   or is entirely calm (outcome Ok / Fail): the exception that reaches the caller of parse() is the
   FIRST one thrown in evaluation order (a raise of must/raise/limit_*, a raising failure hook, a
   throwing apply/apply0/inline action — std or foreign), and it is passed unchanged through every
   combinator, every match.hpp frame, every state/action/control switch.  (check_bytes throws its
   parse_error without calling Control::raise: no event marks it; second disjunct of first_throw.) *)
Theorem C05_propagation :
  forall G C f d r c o c' evs, no_catch G -> eval G C f d r c = Res o c' evs ->
    match o with
    | Exc e => first_throw C e evs
    | _ => Forall (quiet C) evs
    end.
Proof. exact first_exception. Qed.
Print Assumptions C05_propagation.

(* All tables (try_catch rules included): an exceptional outcome e has a log of shape Thrown e, a
   local outcome a log of shape Calm, where a throw is followed only by unwinding until a try_catch
   rule converts it (Calm_caught: into a local failure; Th_nested: into a nested parse_error). *)
Theorem C05_propagation_general :
  forall G C f d r c o c' evs, eval G C f d r c = Res o c' evs ->
    match o with
    | Exc e => Thrown C true e evs
    | _ => Calm C true evs
    end.
Proof. exact log_shape. Qed.
Print Assumptions C05_propagation_general.

(* ---------------------------------------------------------------- try_catch family *)
(* try_catch_[any_|std_|type_]return_false< R >: Ok passes; a local failure and every exception
   admitted by the filter become Fail with the cursor restored to the start when M = required and
   left where the callee left it when M = optional (the guard is rewind_guard< M >); any other
   exception passes through unchanged (same value). *)
Theorem C05_try_catch_return_false :
  forall G C f d r c flt r1,
    nth_error G r = Some (mknode (HTryCatchFalse flt) [r1] false) -> (forall m, acts C (dAct d) r <> AKMatch m) ->
    forall o c' evs, eval G C (S f) d r c = Res o c' evs ->
    exists o1 c1 evs1, eval G C f (opt_ d) r1 c = Res o1 c1 evs1 /\
      evs = EEnter (dCtl d) r (dA d) (dM d) (cpos c) :: evs1 ++ [EExit (dCtl d) r (okind o) (cpos c')] /\
      match o1 with
      | Ok => o = Ok /\ c' = c1
      | Fail => o = Fail /\ c' = (if dM d then c else c1)
      | Exc e => o = (if catches flt e then Fail else Exc e) /\ c' = (if dM d then c else c1)
      end.
Proof. exact try_catch_false_eval. Qed.
Print Assumptions C05_try_catch_return_false.

(* try_catch_*_raise_nested< R >: the guard is always rewind_mode::required: failure and every
   exception leave the cursor at the start; an admitted exception e becomes
   ENested R start_position e (Control< R >::raise_nested( saved position )), others pass unchanged. *)
Theorem C05_try_catch_raise_nested :
  forall G C f d r c flt r1,
    nth_error G r = Some (mknode (HTryCatchNested flt) [r1] false) -> (forall m, acts C (dAct d) r <> AKMatch m) ->
    forall o c' evs, eval G C (S f) d r c = Res o c' evs ->
    exists o1 c1 evs1, eval G C f (opt_ d) r1 c = Res o1 c1 evs1 /\
      match o1 with
      | Ok => o = Ok /\ c' = c1 /\ evs = EEnter (dCtl d) r (dA d) (dM d) (cpos c) :: evs1 ++ [EExit (dCtl d) r (Some true) (cpos c1)]
      | Fail => o = Fail /\ c' = c /\ evs = EEnter (dCtl d) r (dA d) (dM d) (cpos c) :: evs1 ++ [EExit (dCtl d) r (Some false) (cpos c)]
      | Exc e =>
          c' = c /\
          if catches flt e
          then o = Exc (ENested r1 (cpos c) e) /\
               evs = EEnter (dCtl d) r (dA d) (dM d) (cpos c) :: (evs1 ++ [ERaiseNested (dCtl d) r1 (cpos c)]) ++ [EExit (dCtl d) r None (cpos c)]
          else o = Exc e /\ evs = EEnter (dCtl d) r (dA d) (dM d) (cpos c) :: evs1 ++ [EExit (dCtl d) r None (cpos c)]
      end.
Proof. exact try_catch_nested_eval. Qed.
Print Assumptions C05_try_catch_raise_nested.

(* the same two statements for the match() body of ANY try_catch node (control-enabled public wrappers
   included: match.hpp wraps this body with hooks and the rule's own action), for any callee *)
Theorem C05_try_catch_body :
  forall C ev n self flt r1 d c,
    try_false_post flt d c (ev (opt_ d) r1 c) (eval_head C ev n self (HTryCatchFalse flt) [r1] d c) /\
    try_nested_post flt d r1 c (ev (opt_ d) r1 c) (eval_head C ev n self (HTryCatchNested flt) [r1] d c).
Proof. intros. split; [apply try_false_body | apply try_nested_body]. Qed.
Print Assumptions C05_try_catch_body.

(* which exception types each filter names: catch(...) / std::exception / parse_error_base / a named type *)
Theorem C05_filters :
  forall e,
    catches FAny e = true /\
    catches FStd e = (match e with EAct t => N.eqb t 0 | _ => true end) /\
    catches FParse e = (match e with EAct _ => false | _ => true end) /\
    forall t, catches (FType t) e = (match e with EAct t' => N.eqb t' t | _ => false end).
Proof. intros e. split; [apply catches_any|]. split; [apply catches_std|]. split; [apply catches_parse | intros t; apply catches_type]. Qed.
Print Assumptions C05_filters.

(* ---------------------------------------------------------------- position *)
(* Every position stored in an exception (parse_error of must / raise / limit_depth / limit_bytes /
   check_bytes / a raising failure hook, and every level of a nested exception) lies inside the part of
   the input the evaluation started on: start byte <= byte <= end of input.  All well-formed tables, all
   configurations. *)
Theorem C05_position_bytes :
  forall G C f d r c e c' evs, table_wf G -> eval G C f d r c = Res (Exc e) c' evs ->
    Forall (fun p => pbyte (cpos c) <= pbyte p <= pbyte (cpos c) + N.of_nat (length (rest c))) (exn_pos e).
Proof. exact exn_byte_range. Qed.
Print Assumptions C05_position_bytes.

(* byte, line and column are mutually consistent: each such position is track(start position, consumed
   prefix) for a prefix of the remaining input — PROVIDED the atoms of the table keep the eager counters
   in step with tracking (hypothesis atoms_tracked, a statement about eval_atom only; it is the per-atom
   obligation of C06 and is false for eol under eol::cr_crlf and for uint8::mask_* on the eol byte).
   The combinators, match.hpp, rewinding, try_catch, rematch and limit_bytes windows add nothing to it. *)
Theorem C05_position_tracked_partial :
  forall G C f d r c e c' evs, atoms_tracked C G -> eval G C f d r c = Res (Exc e) c' evs ->
    Forall (fun p => exists pre suf, rest c = pre ++ suf /\ p = track (eol_ch (ceol C)) (cpos c) pre) (exn_pos e).
Proof. exact exn_tracked. Qed.
Print Assumptions C05_position_tracked_partial.

(* ... and the hypothesis is discharged for tables whose atoms are the char-level ones (one / not_one /
   range / not_range / ranges / any over char, string, bytes, eof, bof, bol, success, failure, everything,
   require, discard) with arbitrary combinators around them, under every eol policy: there the reported
   (byte, line, column) of every must / raise / limit / check_bytes / nested error is exactly
   track(start, consumed prefix). *)
Theorem C05_position_tracked :
  forall G C f d r c e c' evs, char_table G -> eval G C f d r c = Res (Exc e) c' evs ->
    Forall (fun p => exists pre suf, rest c = pre ++ suf /\ p = track (eol_ch (ceol C)) (cpos c) pre) (exn_pos e).
Proof. exact exn_tracked_char. Qed.
Print Assumptions C05_position_tracked.

(* must< R > (internal::must, control-disabled): success and exceptions of R pass through; a local
   failure of R — called with rewind_mode::optional — raises Control< R >::raise at the cursor R's
   attempt left behind: between the must's start and the end of the input (rest c = pre ++ rest c1),
   byte = start byte + |pre|; the R event carries the same position. *)
Theorem C05_position_must :
  forall G C f d r c r1,
    nth_error G r = Some (mknode HMust [r1] false) -> (forall m, acts C (dAct d) r <> AKMatch m) -> table_wf G ->
    forall o c' evs, eval G C (S f) d r c = Res o c' evs ->
    exists o1 c1 evs1, eval G C f (opt_ d) r1 c = Res o1 c1 evs1 /\
      match o1 with
      | Ok => o = Ok /\ c' = c1
      | Fail => o = Exc (EParse (WRule r1) (cpos c1)) /\ c' = c1 /\
                (exists pre, rest c = pre ++ rest c1 /\ pbyte (cpos c1) = pbyte (cpos c) + N.of_nat (length pre)) /\
                In (ERaise (dCtl d) (WRule r1) (cpos c1)) evs
      | Exc e => o = Exc e /\ c' = c1
      end.
Proof. exact must_position. Qed.
Print Assumptions C05_position_must.

(* ---------------------------------------------------------------- identity *)
(* Independent specification (RaiseSpec.v): the PEG formalism read over the table, extended with the
   outcome RRaise who s0 — must< R > = sor< R, raise< R > >, a raise aborts every enclosing operator,
   evaluation order decides which raise is first.  It is deterministic (C05_identity_unique).
   Soundness of the engine against it, for tables over the classical heads + must / raise / if_must /
   opt_must (cm_table) and configurations whose actions do not veto or throw (void_cfg): whatever the
   engine answers is the formalism's verdict; an exception is a parse_error blaming exactly the rule the
   formalism blames, at a byte position at or after the point where the formalism says the blamed attempt
   began.  _partial: soundness direction only (engine -> formalism), restricted fragment. *)
Theorem C05_identity_partial :
  forall G C, table_wf G -> void_cfg C -> cm_table G ->
  forall f d r c o c' evs, (r < length G)%nat -> bytes_ok (rest c) -> eval G C f d r c = Res o c' evs ->
  match o with
  | Ok => RPeg G r (rest c) (ROk (rest c'))
  | Fail => RPeg G r (rest c) RFail
  | Exc e => exists who p s0, e = EParse (WRule who) p /\ RPeg G r (rest c) (RRaise who s0) /\
               N.of_nat (length (rest c)) + pbyte (cpos c) <= pbyte p + N.of_nat (length s0)
  end.
Proof. exact raise_sound_pos. Qed.
Print Assumptions C05_identity_partial.
Theorem C05_identity_unique : forall G r s x y, RPeg G r s x -> RPeg G r s y -> x = y.
Proof. exact RPeg_det. Qed.
Print Assumptions C05_identity_unique.

(* ---------------------------------------------------------------- examples (non-vacuity) *)
Definition ex_C : cfg :=
  mkcfg EolLfCrlf (fun fam r => match fam with 5%nat => AKApply false | _ => AKNone end)
        (fun fam r b e => if Nat.eqb r 1 then AThrow 1 else ARet true) (fun _ _ _ => ARet true) (fun _ => true) (fun _ _ => false).
(* 0: seq< 1, 2 >   1: one<'a'>   2: must< 3 >   3: one<'b'>   4: try_catch_return_false< 0 >   5: try_catch_any_raise_nested< 0 > *)
Definition ex_G : grammar :=
  [ mknode HSeq [1; 2]%nat true; mknode (HOne true PkChar [97%Z]) [] true; mknode HMust [3%nat] false;
    mknode (HOne true PkChar [98%Z]) [] true; mknode (HTryCatchFalse FParse) [0%nat] false; mknode (HTryCatchNested FAny) [0%nat] false ].
Definition ex_c : cursor := mkcur [97; 99]%N pos0.

(* "ac": must< one<'b'> > raises at byte 1 (line 1, column 2) and the seq passes it on unchanged *)
Example C05_example_raise :
  exists c' evs, eval ex_G ex_C 10 (mkdyn true true 0 0 0) 0%nat ex_c = Res (Exc (EParse (WRule 3%nat) (mkpos 1 1 2))) c' evs /\
                 first_throw ex_C (EParse (WRule 3%nat) (mkpos 1 1 2)) evs.
Proof.
  eexists. eexists. split; [vm_compute; reflexivity|].
  eapply (C05_propagation (firstn 4 ex_G) ex_C 10 (mkdyn true true 0 0 0) 0%nat ex_c (Exc _)).
  - intros r nd H. destruct r as [|[|[|[|r]]]]; simpl in H; try (inversion H; subst; exact I). destruct r; discriminate.
  - vm_compute. reflexivity.
Qed.
Print Assumptions C05_example_raise.
(* the same failure under try_catch_return_false (parse_error filter): local failure, cursor restored (required) / left at byte 1 (optional) *)
Example C05_example_caught :
  (exists evs, eval ex_G ex_C 10 (mkdyn true true 0 0 0) 4%nat ex_c = Res Fail ex_c evs) /\
  (exists evs, eval ex_G ex_C 10 (mkdyn true false 0 0 0) 4%nat ex_c = Res Fail (mkcur [99]%N (mkpos 1 1 2)) evs).
Proof. split; eexists; vm_compute; reflexivity. Qed.
Print Assumptions C05_example_caught.
(* a foreign exception thrown by the action of rule 1 (family 5) is not a parse_error: it passes try_catch_return_false unchanged,
   and try_catch_any_raise_nested wraps it at the start position *)
Example C05_example_foreign :
  (exists c' evs, eval ex_G ex_C 10 (mkdyn true true 5 0 0) 4%nat ex_c = Res (Exc (EAct 1)) c' evs) /\
  (exists c' evs, eval ex_G ex_C 10 (mkdyn true true 5 0 0) 5%nat ex_c = Res (Exc (ENested 0%nat pos0 (EAct 1))) c' evs).
Proof. split; eexists; eexists; vm_compute; reflexivity. Qed.
Print Assumptions C05_example_foreign.

(* the formalism blames the same rule: RRaise 3 at the remaining input "c" (where must< one<'b'> > began) *)
Example C05_example_identity :
  cm_table (firstn 4 ex_G) /\ RPeg (firstn 4 ex_G) 0%nat [97; 99]%N (RRaise 3%nat [99]%N).
Proof.
  split; [exact RaiseSound.ex_G_cm | exact (proj2 RaiseSound.raise_sound_example)].
Qed.
Print Assumptions C05_example_identity.
(* positions: the exception of the first example lies in [0, 2] *)
Example C05_example_position :
  Forall (fun p => 0 <= pbyte p <= 2) (exn_pos (EParse (WRule 3%nat) (mkpos 1 1 2))).
Proof. constructor; [simpl; split; discriminate | constructor]. Qed.
Print Assumptions C05_example_position.

Example C05_example_char_table : char_table ex_G.
Proof.
  intros r nd H. destruct r as [|[|[|[|[|[|r]]]]]]; simpl in H; try (inversion H; subst; simpl; auto; fail). destruct r; discriminate.
Qed.
Print Assumptions C05_example_char_table.

(* ================================================================ strengthened statements *)
From PegtlV Require Import PosFacts2 RaisePos2 RaiseSpec2 RaiseSound2 RaiseComplete.

(* ---------------------------------------------------------------- identity, two-way *)
(* `agrees c x o c'` (RaiseComplete.v): the engine outcome o / final cursor c' is the formalism's verdict x:
   same remaining input on success, Fail on local failure, and on RRaise who s0 a parse_error blaming exactly
   `who`, at a byte at or after the begin of the blamed attempt (s0 = input left there).
   COMPLETENESS: whenever RPeg assigns a verdict, the engine with enough fuel reaches it — in every apply mode,
   rewind mode, action/control family (every d), under every void configuration. *)
Theorem C05_identity_complete :
  forall G C, table_wf G -> void_cfg C -> cm_table G ->
  forall d r c x, bytes_ok (rest c) -> RPeg G r (rest c) x ->
  exists f o c' evs, eval G C f d r c = Res o c' evs /\ agrees c x o c'.
Proof. exact raise_complete. Qed.
Print Assumptions C05_identity_complete.

(* both directions, and: the engine reaches a verdict exactly when the formalism has a derivation *)
Theorem C05_identity :
  forall G C, table_wf G -> void_cfg C -> cm_table G ->
  forall d r c, (r < length G)%nat -> bytes_ok (rest c) ->
  (forall x, RPeg G r (rest c) x -> exists f o c' evs, eval G C f d r c = Res o c' evs /\ agrees c x o c') /\
  (forall f o c' evs, eval G C f d r c = Res o c' evs -> exists x, RPeg G r (rest c) x /\ agrees c x o c') /\
  ((exists x, RPeg G r (rest c) x) <-> (exists f o c' evs, eval G C f d r c = Res o c' evs)).
Proof. exact identity. Qed.
Print Assumptions C05_identity.

(* the extended fragment: cm_table + until< C >, until< C, R >, rep, rep_opt, rep_min_max, if_then_else,
   if_must< C > / opt_must< C >, action< A, R > / control< K, R > / enable< R > / disable< R > / state< S, R >
   (transparent), try_catch_[any_|std_|type_]return_false< R > (a parse_error raised inside R becomes a local
   failure unless the filter is a foreign type); XPeg = RPeg + these operators (RaiseSpec2.v) *)
Theorem C05_identity_ext_sound :
  forall G C, table_wf G -> void_cfg C -> cm2_table G ->
  forall f d r c o c' evs, (r < length G)%nat -> bytes_ok (rest c) -> eval G C f d r c = Res o c' evs ->
  match o with
  | Ok => XPeg G r (rest c) (ROk (rest c'))
  | Fail => XPeg G r (rest c) RFail
  | Exc e => exists who p s0, e = EParse (WRule who) p /\ XPeg G r (rest c) (RRaise who s0) /\
               N.of_nat (length (rest c)) + pbyte (cpos c) <= pbyte p + N.of_nat (length s0)
  end.
Proof. exact raise_sound2_pos. Qed.
Print Assumptions C05_identity_ext_sound.
Theorem C05_identity_ext_complete :
  forall G C, table_wf G -> void_cfg C -> cm2_table G ->
  forall d r c x, bytes_ok (rest c) -> XPeg G r (rest c) x ->
  exists f o c' evs, eval G C f d r c = Res o c' evs /\ agrees c x o c'.
Proof. exact raise_complete2. Qed.
Print Assumptions C05_identity_ext_complete.
Theorem C05_identity_ext :
  forall G C, table_wf G -> void_cfg C -> cm2_table G ->
  forall d r c, (r < length G)%nat -> bytes_ok (rest c) ->
  (forall x, XPeg G r (rest c) x -> exists f o c' evs, eval G C f d r c = Res o c' evs /\ agrees c x o c') /\
  (forall f o c' evs, eval G C f d r c = Res o c' evs -> exists x, XPeg G r (rest c) x /\ agrees c x o c').
Proof. exact identity2. Qed.
Print Assumptions C05_identity_ext.
Theorem C05_identity_ext_terminates :
  forall G C, table_wf G -> void_cfg C -> cm2_table G ->
  forall d r c, (r < length G)%nat -> bytes_ok (rest c) ->
  ((exists x, XPeg G r (rest c) x) <-> (exists f o c' evs, eval G C f d r c = Res o c' evs)).
Proof. exact terminates_iff2. Qed.
Print Assumptions C05_identity_ext_terminates.
(* the extended formalism is deterministic, contains the old one, adds nothing on tables without the new heads,
   and the extended fragment contains the old fragment *)
Theorem C05_identity_ext_unique : forall G r s x y, XPeg G r s x -> XPeg G r s y -> x = y.
Proof. exact XPeg_det. Qed.
Print Assumptions C05_identity_ext_unique.
Theorem C05_identity_ext_conservative :
  forall G, (forall r s x, RPeg G r s x -> XPeg G r s x) /\
            (old_table G -> forall r s x, XPeg G r s x -> RPeg G r s x) /\
            (cm_table G -> cm2_table G /\ old_table G).
Proof.
  intros G. split; [exact (RPeg_XPeg G)|]. split; [intros Ho r s x; exact (XPeg_RPeg G r s x Ho)|].
  intros H. split; [exact (cm_cm2 G H) | exact (cm_old G H)].
Qed.
Print Assumptions C05_identity_ext_conservative.

(* ---------------------------------------------------------------- position, all tracked atoms *)
(* atoms_tracked discharged for EVERY table_ok table (PosFacts2.head_ok, the decidable class for which C06 proves
   the per-atom bump correctness: additionally eol / eolf under every policy except eol::cr_crlf, istring, any /
   one / range / ranges over utf8, uint8 and masked-uint8 decoders whose test cannot match the eol byte through an
   in-line bump): every stored exception position is track(start, consumed prefix) *)
Theorem C05_position_tracked_ok :
  forall G C f d r c e c' evs, table_ok (ceol C) G -> eval G C f d r c = Res (Exc e) c' evs ->
    Forall (fun p => exists pre suf, rest c = pre ++ suf /\ p = track (eol_ch (ceol C)) (cpos c) pre) (exn_pos e).
Proof. exact exn_tracked_ok. Qed.
Print Assumptions C05_position_tracked_ok.
(* the same, arithmetically: byte = start byte + |prefix|, line = start line + eol characters in the prefix,
   column = 1 + bytes since the last of them (start column + |prefix| when there is none) *)
Theorem C05_position_tracked_ok_arith :
  forall G C f d r c e c' evs, table_ok (ceol C) G -> eval G C f d r c = Res (Exc e) c' evs ->
  Forall (fun p => exists pre suf, rest c = pre ++ suf /\
            pbyte p = pbyte (cpos c) + N.of_nat (length pre) /\
            pline p = pline (cpos c) + N.of_nat (count_ch (eol_ch (ceol C)) pre) /\
            pcol p = match after_last (eol_ch (ceol C)) pre with
                     | Some s => 1 + N.of_nat (length s)
                     | None => pcol (cpos c) + N.of_nat (length pre)
                     end) (exn_pos e).
Proof. exact exn_tracked_ok_arith. Qed.
Print Assumptions C05_position_tracked_ok_arith.
(* it contains the char-level class of C05_position_tracked *)
Theorem C05_char_table_ok : forall e G, char_table G -> table_ok e G.
Proof. exact char_table_ok. Qed.
Print Assumptions C05_char_table_ok.

(* ---------------------------------------------------------------- examples for the strengthened statements *)
(* seq< rep_min_max< 1, 2, one<'a'> >, if_then_else< one<'b'>, must< until< one<'b'> > >, eof > > on "aabcc":
   the formalism blames rule 6 (the until) with the blamed attempt beginning at "cc"; the engine raises rule 6 at byte 5 *)
Example C05_example_identity_ext :
  cm2_table xx_G /\
  XPeg xx_G 0%nat [97; 97; 98; 99; 99]%N (RRaise 6%nat [99; 99]%N) /\
  exists c' evs, run xx_G RaiseSound.ex_C 30 (mkdyn true true 0 0 0) 0%nat [97; 97; 98; 99; 99]%N pos0
                 = Res (Exc (EParse (WRule 6%nat) (mkpos 5 1 6))) c' evs.
Proof. split; [exact xx_G_cm2 | exact identity2_example]. Qed.
Print Assumptions C05_example_identity_ext.
(* eol (lf_crlf) + istring + utf8::range + must: "\r\nAb" U+00E9 "y" raises at byte 6 = line 2, column 5 *)
Example C05_example_tracked_ok :
  table_ok (ceol ok_C) ok_G /\
  exists c' evs, run ok_G ok_C 10 (mkdyn true true 0 0 0) 0%nat [13; 10; 65; 98; 195; 169; 121]%N pos0
                 = Res (Exc (EParse (WRule 5%nat) (mkpos 6 2 5))) c' evs.
Proof. split; [exact ok_G_table_ok | exact exn_tracked_ok_example]. Qed.
Print Assumptions C05_example_tracked_ok.
(* aliases and conversion: list_must< one<'a'>, one<','> > on "a,b" raises the rule that must follow the separator;
   wrapped in try_catch_return_false the same input is a local failure; star_must< one<'a'>, one<','> > on "a,a;"
   blames the ','.  (The formalism's verdicts are obtained from the engine runs through C05_identity_ext_sound.) *)
Example C05_example_aliases :
  table_wf al_G /\ cm2_table al_G /\ void_cfg RaiseSound.ex_C /\
  (exists s0, XPeg al_G 1%nat [97; 44; 98]%N (RRaise 2%nat s0)) /\
  XPeg al_G 0%nat [97; 44; 98]%N RFail /\
  (exists s0, XPeg al_G 7%nat [97; 44; 97; 59]%N (RRaise 5%nat s0)).
Proof. split; [exact al_G_wf|]. split; [exact al_G_cm2|]. split; [exact ex_C_void | exact alias_example]. Qed.
Print Assumptions C05_example_aliases.
