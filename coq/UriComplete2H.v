(* UriComplete2H.v — C20: lemmas behind the extended completeness certificate (UriCert2.v):
   1. soundness of the emptiness test and of the verified left quotient lq;
   2. per-combinator lemmas over an abstract sub-evaluator `ev`, for cursors whose rest is at most N bytes
      (okc): completeness (CmpE), no-raise on a language (NrE), soundness (SndE), follow information (FolE),
      for seq / sor / opt / star / plus / if_must / must / at / not_at and the bounded repetitions.
   star and plus terminate because their body's language is not nullable (every successful iteration
   consumes) and the loop fuel exceeds the length of the rest. *)
From Coq Require Import List NArith ZArith Bool Lia FMapPositive.
From PegtlV Require Import Base Decode Grammar Engine EngineFacts AtomFacts Mono Spec ExactSound.
From PegtlV Require Import Regex RegexIncl RegexQuot Rfc3986 UriModel UriProof UriComplete UriCert2.
Import ListNotations.
Local Open Scope N_scope.

(* ================================================================== 1. regular-language checks *)
Lemma re_empty_sound r : re_empty r = true -> forall s, ~ matches r s.
Proof.
  induction r as [| |cs|a IHa b IHb|a IHa b IHb|a IHa]; simpl; intros H s M; try discriminate.
  - eapply empty_inv; eauto.
  - destruct cs; [|discriminate]. apply chr_inv in M. destruct M as [b [_ Hm]]. discriminate.
  - apply cat_inv in M. destruct M as [s1 [s2 [_ [M1 M2]]]]. apply orb_true_iff in H.
    destruct H as [H|H]; [eapply IHa | eapply IHb]; eauto.
  - apply andb_true_iff in H. destruct H as [H1 H2]. apply alt_inv in M. destruct M as [M|M]; [eapply IHa | eapply IHb]; eauto.
Qed.

Section LQsound.
Variable atoms : list cset.
Variable reps : list N.
Variable Ks : list re.
Hypothesis Hreps : reps_ok atoms reps = true.

Theorem lqcheck_sound tbl : lqcheck reps Ks tbl = true ->
  forall w a l, seen tbl (a, l) = true ->
  (forall cs, In cs (csets a) -> In cs atoms) -> (forall cs, In cs (csets l) -> In cs atoms) ->
  bytes_lt256 w -> matches a w -> forall r, matches l (w ++ r) -> exists k, In k Ks /\ matches k r.
Proof.
  intros Hc. induction w as [|c w IH]; intros a l Hs Aa Al Hb Ha r Hl.
  - unfold seen in Hs. apply orb_true_iff in Hs. destruct Hs as [Hs|Hs]; [exfalso; eapply skip_false; eauto|].
    pose proof (tbl_forall_mem _ _ _ Hc Hs) as Q. unfold lq_pair in Q. simpl in Q.
    apply andb_true_iff in Q. destruct Q as [Q _].
    apply nullable_iff in Ha. rewrite Ha in Q. simpl in Q. simpl in Hl.
    apply existsb_exists in Q. destruct Q as [k [Hk E]]. apply re_eqb_eq in E. subst k. exists l. auto.
  - unfold seen in Hs. apply orb_true_iff in Hs. destruct Hs as [Hs|Hs]; [exfalso; eapply skip_false; eauto|].
    pose proof (tbl_forall_mem _ _ _ Hc Hs) as Q. unfold lq_pair in Q. simpl in Q.
    apply andb_true_iff in Q. destruct Q as [_ Q].
    inversion Hb as [|? ? Hc1 Hb']; subst.
    destruct (reps_ok_spec atoms reps c Hreps Hc1) as [c' [Hin Hsig]].
    assert (Ea : deriv c a = deriv c' a) by (apply deriv_ext; intros cs Hcs; apply Hsig; apply Aa; exact Hcs).
    assert (El : deriv c l = deriv c' l) by (apply deriv_ext; intros cs Hcs; apply Hsig; apply Al; exact Hcs).
    rewrite forallb_forall in Q.
    assert (Hq : seen tbl (deriv c' a, deriv c' l) = true).
    { apply Q. unfold succs. apply (in_map (fun c0 => (deriv c0 (fst (a, l)), deriv c0 (snd (a, l)))) reps c' Hin). }
    apply (IH (deriv c' a) (deriv c' l) Hq).
    + intros cs Hcs. apply Aa. eapply deriv_csets; eauto.
    + intros cs Hcs. apply Al. eapply deriv_csets; eauto.
    + exact Hb'.
    + rewrite <- Ea. apply deriv_iff. exact Ha.
    + rewrite <- El. apply deriv_iff. exact Hl.
Qed.
End LQsound.

Lemma alt_of_acc r : forall l acc, (matches acc r \/ exists k, In k l /\ matches k r) ->
  matches (fold_left (fun acc0 k => mkalt k acc0) l acc) r.
Proof.
  induction l as [|k l IH]; intros acc H; simpl.
  - destruct H as [H|[k [[] _]]]. exact H.
  - apply IH. destruct H as [H|[k0 [[->|Hin] Hm]]].
    + left. apply mkalt_iff. apply MAltR. exact H.
    + left. apply mkalt_iff. apply MAltL. exact Hm.
    + right. exists k0. auto.
Qed.

Theorem lq_sound fuel R L Q : lq fuel R L = Some Q ->
  forall w t, bytes_lt256 w -> matches R w -> matches L (w ++ t) -> matches Q t.
Proof.
  unfold lq.
  destruct (qexplore (pick_reps (dedup (csets (norm R) ++ csets (norm L)) [])) fuel [(norm R, norm L)] (PositiveMap.empty _)) as [tbl|]; [|discriminate].
  match goal with |- (if ?b then _ else _) = _ -> _ => destruct b eqn:Eb end; [|discriminate].
  intros HQ. inversion HQ; subst Q. clear HQ.
  rewrite !andb_true_iff in Eb. destruct Eb as [[[[H1 Ha] Hl] Hs] Hq]. intros w t Hw Mw Ml.
  destruct (lqcheck_sound _ _ (lq_collect tbl) H1 tbl Hq w (norm R) (norm L) Hs) with (r := t) as [k [Hk Mk]].
  - apply atoms_in_spec. exact Ha.
  - apply atoms_in_spec. exact Hl.
  - exact Hw.
  - apply norm_iff. exact Mw.
  - apply norm_iff. exact Ml.
  - unfold alt_of. apply alt_of_acc. right. exists k. auto.
Qed.

Lemma flat_map_csets_in (ls : list re) l cs : In l ls -> In cs (csets l) -> In cs (flat_map csets ls).
Proof. intros Hl Hc. apply in_flat_map. exists l. auto. Qed.

Lemma alt_elems_sem r s : matches r s <-> exists x, In x (alt_elems r) /\ matches x s.
Proof.
  induction r as [| |cs|a IHa b IHb|a IHa b IHb|a IHa]; simpl;
    try (split; [intros H; eexists; split; [left; reflexivity | exact H] | intros [x [[<-|[]] H]]; exact H]).
  rewrite alt_inv, IHa, IHb. split.
  - intros [[x [Hx Mx]]|[x [Hx Mx]]]; exists x; (split; [apply in_or_app; auto | exact Mx]).
  - intros [x [Hx Mx]]. apply in_app_or in Hx. destruct Hx as [Hx|Hx]; [left | right]; exists x; auto.
Qed.
Lemma alt_sub_sound l k : alt_sub l k = true -> forall s, matches l s -> matches k s.
Proof.
  unfold alt_sub. rewrite forallb_forall. intros H s M. apply alt_elems_sem in M. destruct M as [x [Hx Mx]].
  specialize (H x Hx). apply orb_true_iff in H. destruct H as [H|H].
  - destruct x; try discriminate. exfalso. eapply empty_inv; eauto.
  - apply existsb_exists in H. destruct H as [y [Hy E]]. apply re_eqb_eq in E. subst y.
    apply alt_elems_sem. exists x. auto.
Qed.

Theorem incl_many_sound fuel ls K : incl_many fuel ls K = true ->
  forall l, In l ls -> forall s, bytes_lt256 s -> matches l s -> matches K s.
Proof.
  unfold incl_many. intros H l Hl s Hs Ml.
  destruct (alt_sub l (norm K)) eqn:Et.
  { apply norm_iff. eapply alt_sub_sound; eauto. }
  assert (Hl' : In l (filter (fun l0 => negb (alt_sub l0 (norm K))) ls)).
  { apply filter_In. split; [exact Hl | rewrite Et; reflexivity]. }
  destruct (filter (fun l0 => negb (alt_sub l0 (norm K))) ls) as [|x0 ls0] eqn:Ef; [contradiction|].
  set (ls' := x0 :: ls0) in *.
  set (atoms := dedup (flat_map csets ls' ++ csets (norm K)) []) in *.
  destruct (explore (pick_reps atoms) fuel (map (fun l => (l, norm K)) ls') (PositiveMap.empty _)) as [tbl|]; [|discriminate].
  rewrite !andb_true_iff in H. destruct H as [[[H1 Hk] Hls] H3].
  rewrite forallb_forall in Hls. specialize (Hls l Hl'). apply andb_true_iff in Hls. destruct Hls as [Ha H2].
  unfold ok_pair in H2. simpl in H2. apply orb_true_iff in H2. destruct H2 as [H2|H2].
  { destruct l; try discriminate H2; exfalso; eapply empty_inv; eauto. }
  apply norm_iff. eapply (check_sound atoms (pick_reps atoms) H1 tbl H3 s l (norm K) H2).
  - apply atoms_in_spec. exact Ha.
  - apply atoms_in_spec. exact Hk.
  - exact Hs.
  - exact Ml.
Qed.

Lemma dedup_re_in x : forall l acc, (In x l \/ In x acc) -> In x (dedup_re l acc).
Proof.
  induction l as [|y l IH]; intros acc H; simpl.
  - destruct H as [[]|H]; exact H.
  - destruct (existsb (re_eqb y) acc) eqn:E.
    + apply IH. destruct H as [[->|H]|H]; auto.
      right. apply existsb_exists in E. destruct E as [z [Hz Ez]]. apply re_eqb_eq in Ez. subst z. exact Hz.
    + apply IH. destruct H as [[->|H]|H]; [right; left; reflexivity | left; exact H | right; right; exact H].
Qed.
Lemma dedup_re_sub x : forall l acc, In x (dedup_re l acc) -> In x l \/ In x acc.
Proof.
  induction l as [|y l IH]; intros acc H; simpl in H; [right; exact H|].
  destruct (existsb (re_eqb y) acc).
  - destruct (IH acc H) as [K|K]; [left; right; exact K | right; exact K].
  - destruct (IH (y :: acc) H) as [K|[->|K]]; [left; right; exact K | left; left; reflexivity | right; exact K].
Qed.

Theorem quot2_sound fuel R L K : quot2 fuel R L K = true ->
  forall w r, bytes_lt256 w -> bytes_lt256 r -> matches R w -> matches L (w ++ r) -> matches K r.
Proof.
  unfold quot2.
  destruct (qexplore (pick_reps (dedup (csets (norm R) ++ csets (norm L)) [])) fuel [(norm R, norm L)] (PositiveMap.empty _)) as [tbl|]; [|discriminate].
  rewrite !andb_true_iff. intros [[[[[H1 Ha] Hl] Hs] Hq] Hi] w r Hw Hr Mw Ml.
  destruct (lqcheck_sound _ _ (dedup_re (lq_collect tbl) []) H1 tbl Hq w (norm R) (norm L) Hs) with (r := r) as [k [Hk Mk]].
  - apply atoms_in_spec. exact Ha.
  - apply atoms_in_spec. exact Hl.
  - exact Hw.
  - apply norm_iff. exact Mw.
  - apply norm_iff. exact Ml.
  - exact (incl_many_sound fuel _ K Hi k Hk r Hr Mk).
Qed.

(* ---------- the first-byte abstraction ---------- *)
Lemma fabs_incl K : fabs_ok K = true -> forall t, bytes_ok t -> matches K t -> matches (fabs K) t.
Proof.
  unfold fabs_ok, fabs. rewrite forallb_forall. intros H t Hb M. apply norm_iff in M.
  destruct t as [|b t'].
  - apply MAltR. apply nullable_iff in M. rewrite M. constructor.
  - apply MAltL. inversion Hb as [|? ? Hb1 Hb2]; subst. specialize (H b (all_bytes_in b Hb1)).
    apply andb_true_iff in H. destruct H as [H _]. apply deriv_iff in M.
    apply orb_true_iff in H. destruct H as [H|H].
    + destruct (deriv b (norm K)); try discriminate. exfalso. eapply empty_inv; eauto.
    + change (b :: t') with ([b] ++ t'). apply MCat; [constructor; exact H | apply any_matches; exact Hb2].
Qed.
Lemma opt_eps_inv b t : matches (opt_eps b) t -> b = true /\ t = [].
Proof. destruct b; simpl; intros M; [apply eps_inv in M; auto | exfalso; eapply empty_inv; eauto]. Qed.
Lemma chr_any_inv cs t : matches (Cat (Chr cs) Any) t -> exists b t', t = b :: t' /\ cs_mem b cs = true.
Proof.
  intros M. apply cat_inv in M. destruct M as [a [k [-> [Ha _]]]]. apply chr_inv in Ha. destruct Ha as [b [-> Hm]].
  exists b, k. auto.
Qed.
Lemma fabs_disj K : fabs_ok K = true -> forall t, bytes_ok t -> matches (fabs K) t -> matches (cofabs K) t -> False.
Proof.
  unfold fabs_ok, fabs, cofabs. rewrite forallb_forall. intros H t Hb M1 M2.
  apply alt_inv in M1. apply alt_inv in M2.
  destruct M1 as [M1|M1]; destruct M2 as [M2|M2].
  - apply chr_any_inv in M1. destruct M1 as [b [t' [-> Hm1]]]. apply chr_any_inv in M2. destruct M2 as [b2 [t2 [E Hm2]]].
    inversion E; subst b2 t2. inversion Hb as [|? ? Hb1 Hb2]; subst. specialize (H b (all_bytes_in b Hb1)).
    apply andb_true_iff in H. destruct H as [_ H]. rewrite Hm1, Hm2 in H. discriminate.
  - apply chr_any_inv in M1. destruct M1 as [b [t' [-> _]]]. apply opt_eps_inv in M2. destruct M2 as [_ E]. discriminate.
  - apply chr_any_inv in M2. destruct M2 as [b [t' [-> _]]]. apply opt_eps_inv in M1. destruct M1 as [_ E]. discriminate.
  - apply opt_eps_inv in M1. apply opt_eps_inv in M2. destruct M1 as [E1 _]. destruct M2 as [E2 _]. rewrite E1 in E2. discriminate.
Qed.

Definition nf2_pred (o : option re) (t : list byte) : Prop := match o with Some X => ~ matches X t | None => True end.
Lemma kx2_sem o K t : nf2_pred o t -> matches (Kx2 o K) t -> matches K t.
Proof.
  destruct o as [X|]; simpl; [|auto]. intros Hn M. apply alt_inv in M. destruct M as [M|M]; [exact M | contradiction].
Qed.
Lemma quot2_sem o R L K : quot2 CF R L (Kx2 o K) = true ->
  forall w t, bytes_ok (w ++ t) -> matches R w -> nf2_pred o t -> matches L (w ++ t) -> matches K t.
Proof.
  intros H w t Hb Mw Hn Ml. apply (kx2_sem o K t Hn).
  exact (quot2_sound CF R L (Kx2 o K) H w t (bytes_ok_app_l _ _ Hb) (bytes_ok_app_r _ _ Hb) Mw Ml).
Qed.

Lemma quotf_sem o R L K : quot2 CF R L (Kx o K) = true ->
  forall w t, bytes_ok (w ++ t) -> matches R w -> nf_pred o t -> matches L (w ++ t) -> matches K t.
Proof.
  intros H w t Hb Mw Hn Ml. apply (kx_sem o K t Hn).
  exact (quot2_sound CF R L (Kx o K) H w t (bytes_ok_app_l _ _ Hb) (bytes_ok_app_r _ _ Hb) Mw Ml).
Qed.

Lemma cat_assoc_r A B K s : matches (Cat (Cat A B) K) s -> matches (Cat A (Cat B K)) s.
Proof.
  intros M. apply cat_inv in M. destruct M as [a [k [-> [Ha Hk]]]]. apply cat_inv in Ha. destruct Ha as [a1 [a2 [-> [A1 A2]]]].
  rewrite <- app_assoc. apply MCat; [exact A1 | apply MCat; assumption].
Qed.

(* ================================================================== 2. combinators *)
Section H2.
Variable ev : dyn -> rid -> cursor -> result.
Variable N : nat.
Hypothesis Hgood : forall d r c, goodT (dM d) c (ev d r c).

Definition okc (c : cursor) : Prop := bytes_ok (rest c) /\ (length (rest c) <= N)%nat.
Lemma okc_adv c c' : adv PT c c' -> okc c -> okc c'.
Proof.
  intros [pre [E _]] [Hb Hl]. split.
  - rewrite E in Hb. eapply bytes_ok_app_r; eauto.
  - rewrite E, app_length in Hl. lia.
Qed.
Lemma ok_okc d r c c' evs : ev d r c = Res Ok c' evs -> okc c -> okc c'.
Proof. intros E Hk. pose proof (Hgood d r c) as Gd. rewrite E in Gd. simpl in Gd. eapply okc_adv; eauto. Qed.
Lemma fail_rq d r c c' evs : dM d = true -> ev d r c = Res Fail c' evs -> c' = c.
Proof. intros Hd E. pose proof (Hgood d r c) as Gd. rewrite E, Hd in Gd. exact Gd. Qed.

Definition SndE (r : rid) (R : re) : Prop :=
  forall d c c' evs, okc c -> ev d r c = Res Ok c' evs -> exists pre, rest c = pre ++ rest c' /\ matches R pre.
Definition NrE (r : rid) (P : list byte -> Prop) : Prop :=
  forall d c, okc c -> P (rest c) -> exists v, ov (ev d r c) = Some v.
Definition CmpE (r : rid) (R K : re) : Prop :=
  forall d c, okc c -> matches (Cat R K) (rest c) -> exists c', ov (ev d r c) = Some (Some c') /\ matches K (rest c').
Definition FolE (r : rid) (P : list byte -> Prop) : Prop :=
  forall d c c' evs, okc c -> ev d r c = Res Ok c' evs -> P (rest c').

Lemma NrE_weaken r (P P' : list byte -> Prop) : NrE r P' -> (forall t, bytes_ok t -> P t -> P' t) -> NrE r P.
Proof. intros H W d c Hk Hp. apply H; [exact Hk | apply W; [exact (proj1 Hk) | exact Hp]]. Qed.

Lemma seq1_eq d r c : seq_all ev d [r] c = match ev d r c with Res Ok c1 e1 => Res Ok c1 (e1 ++ []) | y => y end.
Proof. cbn [seq_all]. unfold bind. destruct (ev d r c) as [[| |e] c1 e1| |]; reflexivity. Qed.

(* --- seq --- *)
Fixpoint SeqOK2 (rs : list rid) (Rs : list re) (K : re) : Prop :=
  match rs, Rs with
  | [], [] => True
  | r :: rs', R :: Rs' => CmpE r R (Cat (fr Rs') K) /\ SeqOK2 rs' Rs' K
  | _, _ => False
  end.

Lemma seq_all_cmp2 d : forall rs Rs K, SeqOK2 rs Rs K -> forall c, okc c -> matches (Cat (fr Rs) K) (rest c) ->
  exists c', ov (seq_all ev d rs c) = Some (Some c') /\ matches K (rest c').
Proof.
  induction rs as [|r rs IH]; intros Rs K Hs c Hb M; destruct Rs as [|R Rs]; simpl in Hs; try contradiction.
  - simpl in M. apply cat_inv in M. destruct M as [a [b [E [Ha Hbm]]]]. apply eps_inv in Ha. subst a. simpl in E.
    exists c. simpl. split; [reflexivity | rewrite E; exact Hbm].
  - destruct Hs as [H1 H2]. cbn [fr fold_right] in M. apply cat_assoc_r in M.
    destruct (H1 d c Hb M) as [c1 [E1 M1]]. apply ov_ok in E1. destruct E1 as [e1 E1].
    cbn [seq_all]. rewrite E1. simpl. rewrite ov_prepend.
    apply (IH Rs K H2 c1); [eapply ok_okc; eauto | exact M1].
Qed.

Fixpoint SeqNR (rs : list rid) (P : list byte -> Prop) : Prop :=
  match rs with
  | [] => True
  | r :: rs' => NrE r P /\
      exists (R : re) (P' : list byte -> Prop), SndE r R /\ (forall w t, bytes_ok (w ++ t) -> matches R w -> P (w ++ t) -> P' t) /\ SeqNR rs' P'
  end.

Lemma seq_all_nr d : forall rs P, SeqNR rs P -> forall c, okc c -> P (rest c) -> exists v, ov (seq_all ev d rs c) = Some v.
Proof.
  induction rs as [|r rs IH]; intros P Hs c Hk Hp; cbn [seq_all]; [eexists; reflexivity|].
  destruct Hs as [H1 [R [P' [Hsd [Hq Hr]]]]]. destruct (H1 d c Hk Hp) as [v Ev].
  destruct (ev d r c) as [[| |e] c1 e1| |] eqn:E; simpl in Ev; try discriminate.
  - simpl. rewrite ov_prepend.
    assert (Hk1 : okc c1) by (eapply ok_okc; eauto).
    destruct (Hsd d c c1 e1 Hk E) as [pre [Ep Mp]].
    assert (P1 : P' (rest c1)).
    { apply (Hq pre (rest c1)); [rewrite <- Ep; exact (proj1 Hk) | exact Mp | rewrite <- Ep; exact Hp]. }
    exact (IH P' Hr c1 Hk1 P1).
  - simpl. eexists; reflexivity.
Qed.

Lemma SeqNR_true : forall rs P, Forall (fun r => NrE r (fun _ => True) /\ exists R, SndE r R) rs -> SeqNR rs P.
Proof.
  induction rs as [|r rs IH]; intros P Hf; simpl; [exact I|].
  inversion Hf as [|? ? [H1 [R HR]] H2]; subst. split.
  - eapply NrE_weaken; [exact H1 | intros; exact I].
  - exists R, (fun _ => True). split; [exact HR|]. split; [intros; exact I | apply IH; exact H2].
Qed.

(* --- sor --- *)
Fixpoint SorOK2 (rs : list rid) (Rs : list re) (K : re) : Prop :=
  match rs, Rs with
  | [], [] => True
  | r :: rs', R :: Rs' =>
      CmpE r R K /\ NrE r (matches (Cat (fa Rs') K)) /\ SndE r R /\
      (exists P, FolE r P /\
         forall w t, bytes_ok (w ++ t) -> matches R w -> P t -> matches (Cat (fa Rs') K) (w ++ t) -> matches K t) /\
      SorOK2 rs' Rs' K
  | _, _ => False
  end.

Lemma sor_any_cmp2 d : forall rs Rs K, SorOK2 rs Rs K -> forall c, okc c -> matches (Cat (fa Rs) K) (rest c) ->
  exists c', ov (sor_any ev d rs c) = Some (Some c') /\ matches K (rest c').
Proof.
  induction rs as [|r rs IH]; intros Rs K Hs c Hb M; destruct Rs as [|R Rs]; simpl in Hs; try contradiction.
  - simpl in M. apply cat_inv in M. destruct M as [a [b [_ [Ha _]]]]. exfalso. eapply empty_inv; eauto.
  - destruct Hs as [Hc [Ht [Hsd [[P [Hf Hq]] Hrest]]]].
    cbn [fa fold_right] in M. apply cat_inv in M. destruct M as [a [k [E [Ha Hk]]]]. apply alt_inv in Ha.
    destruct rs as [|r2 rs'].
    + destruct Rs as [|? ?]; simpl in Hrest; try contradiction.
      destruct Ha as [Ha|Ha]; [|exfalso; simpl in Ha; eapply empty_inv; eauto].
      simpl. apply Hc; [exact Hb | rewrite E; apply MCat; assumption].
    + change (sor_any ev d (r :: r2 :: rs') c) with
        (match ev (req d) r c with Res Fail c' evs => prepend evs (sor_any ev d (r2 :: rs') c') | x => x end).
      destruct Ha as [Ha|Ha].
      * assert (M1 : matches (Cat R K) (rest c)) by (rewrite E; apply MCat; assumption).
        destruct (Hc (req d) c Hb M1) as [c1 [E1 K1]]. apply ov_ok in E1. destruct E1 as [e1 E1]. rewrite E1.
        exists c1. split; [reflexivity | exact K1].
      * assert (M2 : matches (Cat (fa Rs) K) (rest c)) by (rewrite E; apply MCat; assumption).
        destruct (Ht (req d) c Hb M2) as [v Ev].
        destruct (ev (req d) r c) as [[| |e] c1 e1| |] eqn:E1; simpl in Ev; try discriminate.
        -- destruct (Hsd (req d) c c1 e1 Hb E1) as [pre [Ep Mp]].
           exists c1. split; [reflexivity|].
           apply (Hq pre (rest c1)); [rewrite <- Ep; exact (proj1 Hb) | exact Mp | exact (Hf _ _ _ _ Hb E1) | rewrite <- Ep; exact M2].
        -- assert (c1 = c) by (eapply (fail_rq (req d)); [reflexivity | exact E1]). subst c1.
           rewrite ov_prepend. apply (IH Rs K Hrest c Hb). exact M2.
Qed.

Lemma sor_any_nr d (P : list byte -> Prop) : forall rs, Forall (fun r => NrE r P) rs -> forall c, okc c -> P (rest c) ->
  exists v, ov (sor_any ev d rs c) = Some v.
Proof.
  induction rs as [|r rs IH]; intros Ht c Hb Hp; [simpl; eexists; reflexivity|].
  inversion Ht as [|? ? T1 T2]; subst.
  destruct rs as [|r2 rs']; [simpl; apply T1; assumption|].
  change (sor_any ev d (r :: r2 :: rs') c) with
    (match ev (req d) r c with Res Fail c' evs => prepend evs (sor_any ev d (r2 :: rs') c') | x => x end).
  destruct (T1 (req d) c Hb Hp) as [v Ev].
  destruct (ev (req d) r c) as [[| |e] c1 e1| |] eqn:E1; simpl in Ev; try discriminate.
  - eexists; reflexivity.
  - assert (c1 = c) by (eapply (fail_rq (req d)); [reflexivity | exact E1]). subst c1.
    rewrite ov_prepend. apply IH; assumption.
Qed.

(* --- opt< r > --- *)
Lemma h_partial_cmp2 d r R K c (P : list byte -> Prop) : CmpE r R K -> NrE r (matches K) -> SndE r R -> FolE r P ->
  (forall w t, bytes_ok (w ++ t) -> matches R w -> P t -> matches K (w ++ t) -> matches K t) ->
  okc c -> matches (Cat (Alt R Eps) K) (rest c) ->
  exists c', ov (h_partial ev d [r] c) = Some (Some c') /\ matches K (rest c').
Proof.
  intros Hc Ht Hs Hf Hq Hb M. unfold h_partial. cbn [seq_all]. unfold bind.
  apply cat_inv in M. destruct M as [a [k [E [Ha Hk]]]]. apply alt_inv in Ha. destruct Ha as [Ha|Ha].
  - assert (M1 : matches (Cat R K) (rest c)) by (rewrite E; apply MCat; assumption).
    destruct (Hc (req d) c Hb M1) as [c1 [E1 K1]]. apply ov_ok in E1. destruct E1 as [e1 E1]. rewrite E1. simpl.
    exists c1. split; [reflexivity | exact K1].
  - apply eps_inv in Ha. subst a. simpl in E.
    assert (Mk : matches K (rest c)) by (rewrite E; exact Hk).
    destruct (Ht (req d) c Hb Mk) as [v Ev].
    destruct (ev (req d) r c) as [[| |e] c1 e1| |] eqn:E1; simpl in Ev; try discriminate.
    + simpl. destruct (Hs (req d) c c1 e1 Hb E1) as [pre [Ep Mp]].
      exists c1. split; [reflexivity|].
      apply (Hq pre (rest c1)); [rewrite <- Ep; exact (proj1 Hb) | exact Mp | exact (Hf _ _ _ _ Hb E1) | rewrite <- Ep; exact Mk].
    + assert (c1 = c) by (eapply (fail_rq (req d)); [reflexivity | exact E1]). subst c1.
      exists c. split; [reflexivity | exact Mk].
Qed.
Lemma h_partial_nr d r c (P : list byte -> Prop) : NrE r P -> okc c -> P (rest c) -> exists v, ov (h_partial ev d [r] c) = Some v.
Proof.
  intros Ht Hb Hp. unfold h_partial. cbn [seq_all]. unfold bind. destruct (Ht (req d) c Hb Hp) as [v Ev].
  destruct (ev (req d) r c) as [[| |e] c1 e1| |]; simpl in Ev; try discriminate; simpl; eexists; reflexivity.
Qed.

(* --- star / plus --- *)
Lemma snd_consumes r R d c c1 e1 : SndE r R -> nullable R = false -> okc c -> ev d r c = Res Ok c1 e1 ->
  (length (rest c1) < length (rest c))%nat.
Proof.
  intros Hs Hn Hk E. destruct (Hs d c c1 e1 Hk E) as [pre [Ep Mp]].
  destruct pre as [|x pre]; [apply nullable_iff in Mp; congruence|].
  rewrite Ep. simpl. rewrite app_length. lia.
Qed.

Lemma star_loop_cmp2 d r R K (P : list byte -> Prop) :
  SndE r R -> nullable R = false -> CmpE r R (Cat (Star R) K) -> NrE r (matches (Cat (Star R) K)) -> FolE r P ->
  (forall w t, bytes_ok (w ++ t) -> matches R w -> P t -> matches (Cat (Star R) K) (w ++ t) -> matches (Cat (Star R) K) t) ->
  forall m c, (length (rest c) < m)%nat -> okc c -> matches (Cat (Star R) K) (rest c) ->
  exists c' evs, star_loop ev m d [r] c = Res Ok c' evs /\ matches K (rest c') /\ okc c' /\
                 ~ matches (Cat R (Cat (Star R) K)) (rest c').
Proof.
  intros Hs Hn Hc Ht Hf Hq. induction m as [|m IH]; intros c Hlen Hk M; [lia|].
  cbn [star_loop]. rewrite seq1_eq. destruct (Ht (req d) c Hk M) as [v Ev].
  destruct (ev (req d) r c) as [[| |e] c1 e1| |] eqn:E1; simpl in Ev; try discriminate.
  - assert (Hl1 : (length (rest c1) < length (rest c))%nat) by (eapply snd_consumes; eauto).
    assert (Hk1 : okc c1) by (eapply ok_okc; eauto).
    destruct (Hs (req d) c c1 e1 Hk E1) as [pre [Ep Mp]].
    assert (M1 : matches (Cat (Star R) K) (rest c1)).
    { apply (Hq pre (rest c1)); [rewrite <- Ep; exact (proj1 Hk) | exact Mp | exact (Hf _ _ _ _ Hk E1) | rewrite <- Ep; exact M]. }
    destruct (IH c1 ltac:(lia) Hk1 M1) as [c' [evs [E2 [K2 [O2 F2]]]]]. rewrite E2. simpl.
    exists c', ((e1 ++ []) ++ evs). auto.
  - assert (c1 = c) by (eapply (fail_rq (req d)); [reflexivity | exact E1]). subst c1.
    assert (Hneg : ~ matches (Cat R (Cat (Star R) K)) (rest c)).
    { intros M3. destruct (Hc (req d) c Hk M3) as [c2 [E2 _]]. rewrite E1 in E2. simpl in E2. discriminate. }
    exists c, e1. split; [reflexivity|]. split; [|split; [exact Hk | exact Hneg]].
    apply cat_inv in M. destruct M as [a [k [E [Ha Hkk]]]]. destruct a as [|x a].
    + simpl in E. rewrite E. exact Hkk.
    + exfalso. apply Hneg. apply star_cons_inv in Ha. destruct Ha as [s1 [s2 [-> [A1 A2]]]].
      assert (E' : rest c = (x :: s1) ++ (s2 ++ k)) by (rewrite E; simpl; rewrite app_assoc; reflexivity).
      rewrite E'. apply MCat; [exact A1 | apply MCat; assumption].
Qed.

Lemma star_loop_nr d r R (I : list byte -> Prop) :
  SndE r R -> nullable R = false -> NrE r I ->
  (forall w t, bytes_ok (w ++ t) -> matches R w -> I (w ++ t) -> I t) ->
  forall m c, (length (rest c) < m)%nat -> okc c -> I (rest c) ->
  exists c' evs, star_loop ev m d [r] c = Res Ok c' evs /\ okc c'.
Proof.
  intros Hs Hn Ht Hq. induction m as [|m IH]; intros c Hlen Hk Hi; [lia|].
  cbn [star_loop]. rewrite seq1_eq. destruct (Ht (req d) c Hk Hi) as [v Ev].
  destruct (ev (req d) r c) as [[| |e] c1 e1| |] eqn:E1; simpl in Ev; try discriminate.
  - assert (Hl1 : (length (rest c1) < length (rest c))%nat) by (eapply snd_consumes; eauto).
    assert (Hk1 : okc c1) by (eapply ok_okc; eauto).
    destruct (Hs (req d) c c1 e1 Hk E1) as [pre [Ep Mp]].
    assert (I1 : I (rest c1)).
    { apply (Hq pre (rest c1)); [rewrite <- Ep; exact (proj1 Hk) | exact Mp | rewrite <- Ep; exact Hi]. }
    destruct (IH c1 ltac:(lia) Hk1 I1) as [c' [evs [E2 O2]]]. rewrite E2. simpl.
    exists c', ((e1 ++ []) ++ evs). auto.
  - assert (c1 = c) by (eapply (fail_rq (req d)); [reflexivity | exact E1]). subst c1.
    exists c, e1. auto.
Qed.

Lemma h_plus_cmp2 m d r R K c (P : list byte -> Prop) :
  SndE r R -> nullable R = false -> CmpE r R (Cat (Star R) K) -> NrE r (matches (Cat (Star R) K)) -> FolE r P ->
  (forall w t, bytes_ok (w ++ t) -> matches R w -> P t -> matches (Cat (Star R) K) (w ++ t) -> matches (Cat (Star R) K) t) ->
  (N < m)%nat -> okc c -> matches (Cat (Cat R (Star R)) K) (rest c) ->
  exists c' evs, h_plus ev m d r c = Res Ok c' evs /\ matches K (rest c') /\ ~ matches (Cat R (Cat (Star R) K)) (rest c').
Proof.
  intros Hs Hn Hc Ht Hf Hq Hm Hk M. unfold h_plus. apply cat_assoc_r in M.
  destruct (Hc d c Hk M) as [c1 [E1 M1]]. apply ov_ok in E1. destruct E1 as [e1 E1]. rewrite E1. simpl.
  assert (Hk1 : okc c1) by (eapply ok_okc; eauto).
  destruct (star_loop_cmp2 d r R K P Hs Hn Hc Ht Hf Hq m c1 ltac:(destruct Hk1; lia) Hk1 M1) as [c' [evs [E2 [K2 [_ F2]]]]].
  rewrite E2. simpl. exists c', (e1 ++ evs). auto.
Qed.

Lemma h_plus_nr m d r R c (I : list byte -> Prop) :
  SndE r R -> nullable R = false -> NrE r I ->
  (forall w t, bytes_ok (w ++ t) -> matches R w -> I (w ++ t) -> I t) ->
  (N < m)%nat -> okc c -> I (rest c) -> exists v, ov (h_plus ev m d r c) = Some v.
Proof.
  intros Hs Hn Ht Hq Hm Hk Hi. unfold h_plus. destruct (Ht d c Hk Hi) as [v Ev].
  destruct (ev d r c) as [[| |e] c1 e1| |] eqn:E1; simpl in Ev; try discriminate; simpl; [|eexists; reflexivity].
  assert (Hk1 : okc c1) by (eapply ok_okc; eauto).
  destruct (Hs d c c1 e1 Hk E1) as [pre [Ep Mp]].
  assert (I1 : I (rest c1)).
  { apply (Hq pre (rest c1)); [rewrite <- Ep; exact (proj1 Hk) | exact Mp | rewrite <- Ep; exact Hi]. }
  destruct (star_loop_nr d r R I Hs Hn Ht Hq m c1 ltac:(destruct Hk1; lia) Hk1 I1) as [c' [evs [E2 _]]].
  rewrite E2. simpl. eexists; reflexivity.
Qed.

(* --- if_must / opt_must / must --- *)
Lemma h_if_must_cmp2 (dflt : bool) d cnd m Rc Rm K c (P : list byte -> Prop) :
  CmpE cnd Rc (Cat Rm K) -> CmpE m Rm K -> SndE cnd Rc -> FolE cnd P ->
  (dflt = true -> NrE cnd (matches K) /\
     forall w t, bytes_ok (w ++ t) -> matches Rc w -> P t -> matches K (w ++ t) -> matches (Cat Rm K) t) ->
  okc c -> matches (Cat (if dflt then Alt (Cat Rc Rm) Eps else Cat Rc Rm) K) (rest c) ->
  exists c', ov (h_if_must ev dflt d cnd [m] c) = Some (Some c') /\ matches K (rest c').
Proof.
  intros Hcc Hcm Hs Hf Hd Hk M. unfold h_if_must.
  assert (After : forall c1 e1, okc c1 -> matches (Cat Rm K) (rest c1) ->
            exists c', ov (match ev d m c1 with Res Fail c'' evs2 => Res Ok c'' (e1 ++ evs2) | x => prepend e1 x end) = Some (Some c') /\ matches K (rest c')).
  { intros c1 e1 Hk1 M1. destruct (Hcm d c1 Hk1 M1) as [c2 [E2 K2]]. apply ov_ok in E2. destruct E2 as [e2 E2].
    rewrite E2. simpl. exists c2. auto. }
  assert (Right : matches (Cat Rc (Cat Rm K)) (rest c) ->
            exists c', ov (match ev (if dflt then req d else d) cnd c with
                           | Res Ok c' evs => match ev d m c' with Res Fail c'' evs2 => Res Ok c'' (evs ++ evs2) | x => prepend evs x end
                           | Res Fail c' evs => Res (if dflt then Ok else Fail) c' evs
                           | x => x end) = Some (Some c') /\ matches K (rest c')).
  { intros M1. destruct (Hcc (if dflt then req d else d) c Hk M1) as [c1 [E1 K1]]. apply ov_ok in E1. destruct E1 as [e1 E1].
    rewrite E1. apply After; [eapply ok_okc; eauto | exact K1]. }
  destruct dflt.
  - apply cat_inv in M. destruct M as [a [k [E [Ha Hkk]]]]. apply alt_inv in Ha. destruct Ha as [Ha|Ha].
    + apply Right. apply cat_assoc_r. rewrite E. apply MCat; assumption.
    + apply eps_inv in Ha. subst a. simpl in E. assert (Mk : matches K (rest c)) by (rewrite E; exact Hkk).
      destruct (Hd eq_refl) as [Hn Hq]. destruct (Hn (req d) c Hk Mk) as [v Ev].
      destruct (ev (req d) cnd c) as [[| |e] c1 e1| |] eqn:E1; simpl in Ev; try discriminate.
      * destruct (Hs (req d) c c1 e1 Hk E1) as [pre [Ep Mp]].
        apply After; [eapply ok_okc; eauto|].
        apply (Hq pre (rest c1)); [rewrite <- Ep; exact (proj1 Hk) | exact Mp | exact (Hf _ _ _ _ Hk E1) | rewrite <- Ep; exact Mk].
      * assert (c1 = c) by (eapply (fail_rq (req d)); [reflexivity | exact E1]). subst c1.
        exists c. split; [reflexivity | exact Mk].
  - apply Right. apply cat_assoc_r. exact M.
Qed.

Lemma h_if_must_nr (dflt : bool) d cnd m Rc c (P P' : list byte -> Prop) :
  NrE cnd P -> SndE cnd Rc -> NrE m P' ->
  (forall w t, bytes_ok (w ++ t) -> matches Rc w -> P (w ++ t) -> P' t) ->
  okc c -> P (rest c) -> exists v, ov (h_if_must ev dflt d cnd [m] c) = Some v.
Proof.
  intros Hn Hs Hm Hq Hk Hp. unfold h_if_must. destruct (Hn (if dflt then req d else d) c Hk Hp) as [v Ev].
  destruct (ev (if dflt then req d else d) cnd c) as [[| |e] c1 e1| |] eqn:E1; simpl in Ev; try discriminate.
  - destruct (Hs _ c c1 e1 Hk E1) as [pre [Ep Mp]].
    assert (Hk1 : okc c1) by (eapply ok_okc; eauto).
    assert (P1 : P' (rest c1)) by (apply (Hq pre); [rewrite <- Ep; exact (proj1 Hk) | exact Mp | rewrite <- Ep; exact Hp]).
    destruct (Hm d c1 Hk1 P1) as [v2 Ev2].
    destruct (ev d m c1) as [[| |e] c2 e2| |]; simpl in Ev2; try discriminate; simpl; eexists; reflexivity.
  - destruct dflt; simpl; eexists; reflexivity.
Qed.

Lemma h_must_cmp2 d r R K c : CmpE r R K -> okc c -> matches (Cat R K) (rest c) ->
  exists c', ov (h_must ev d r c) = Some (Some c') /\ matches K (rest c').
Proof.
  intros Hc Hk M. unfold h_must. destruct (Hc (opt_ d) c Hk M) as [c1 [E1 K1]]. apply ov_ok in E1. destruct E1 as [e1 E1].
  rewrite E1. exists c1. auto.
Qed.
Lemma h_must_fol d r c c' evs (P : list byte -> Prop) : FolE r P -> okc c -> h_must ev d r c = Res Ok c' evs -> P (rest c').
Proof.
  intros Hf Hk H. unfold h_must in H. destruct (ev (opt_ d) r c) as [[| |e] c1 e1| |] eqn:E1; try discriminate.
  inversion H; subst. eapply Hf; eauto.
Qed.

(* --- at / not_at --- *)
Lemma h_at_nr inv d r c (P : list byte -> Prop) : NrE r P -> okc c -> P (rest c) -> exists v, ov (h_at ev inv d r c) = Some v.
Proof.
  intros Hn Hk Hp. unfold h_at, look. destruct (Hn (set_A (opt_ d) false) c Hk Hp) as [v Ev].
  destruct (ev (set_A (opt_ d) false) r c) as [[| |e] c1 e1| |]; simpl in Ev; try discriminate; destruct inv; simpl; eexists; reflexivity.
Qed.
Lemma h_notat_cmp2 d r R K c : NrE r (matches K) -> SndE r R ->
  (forall w t, bytes_ok (w ++ t) -> matches R w -> matches K (w ++ t) -> False) ->
  okc c -> matches K (rest c) -> ov (h_at ev true d r c) = Some (Some c).
Proof.
  intros Hn Hs Hq Hk Mk. unfold h_at, look. destruct (Hn (set_A (opt_ d) false) c Hk Mk) as [v Ev].
  destruct (ev (set_A (opt_ d) false) r c) as [[| |e] c1 e1| |] eqn:E1; simpl in Ev; try discriminate; simpl; [|reflexivity].
  exfalso. destruct (Hs _ c c1 e1 Hk E1) as [pre [Ep Mp]]. apply (Hq pre (rest c1)); [rewrite <- Ep; exact (proj1 Hk) | exact Mp | rewrite <- Ep; exact Mk].
Qed.
Lemma h_notat_fol d r R c c' evs : CmpE r R Any -> okc c -> h_at ev true d r c = Res Ok c' evs -> ~ matches (Cat R Any) (rest c').
Proof.
  intros Hc Hk H M. unfold h_at, look in H.
  destruct (ev (set_A (opt_ d) false) r c) as [[| |e] c1 e1| |] eqn:E1; simpl in H; try discriminate.
  inversion H; subst c'. destruct (Hc (set_A (opt_ d) false) c Hk M) as [c2 [E2 _]]. rewrite E1 in E2. simpl in E2. discriminate.
Qed.

(* --- bounded repetitions: totality only (used below pure nodes) --- *)
Lemma rep_loop_nr d r : NrE r (fun _ => True) -> forall k c, okc c -> exists v, ov (rep_loop ev k d r c) = Some v.
Proof.
  intros Ht. induction k as [|k IH]; intros c Hb; cbn [rep_loop]; [eexists; reflexivity|].
  destruct (Ht d c Hb I) as [v Ev].
  destruct (ev d r c) as [[| |e] c1 e1| |] eqn:E; simpl in Ev; try discriminate; simpl.
  - rewrite ov_prepend. apply IH. eapply ok_okc; eauto.
  - eexists; reflexivity.
Qed.
Lemma repopt_loop_nr d r : NrE r (fun _ => True) -> forall k c, okc c ->
  exists c' evs b, repopt_loop ev k d r c = (Res Ok c' evs, b) /\ okc c'.
Proof.
  intros Ht. induction k as [|k IH]; intros c Hb; cbn [repopt_loop]; [exists c, [], true; auto|].
  destruct (Ht (req d) c Hb I) as [v Ev].
  destruct (ev (req d) r c) as [[| |e] c1 e1| |] eqn:E1; simpl in Ev; try discriminate.
  - assert (Hb1 : okc c1) by (eapply ok_okc; eauto).
    destruct (IH c1 Hb1) as [c' [evs [b [E2 B2]]]]. rewrite E2. simpl. exists c', (e1 ++ evs), b. auto.
  - assert (c1 = c) by (eapply (fail_rq (req d)); [reflexivity | exact E1]). subst c1. exists c, e1, false. auto.
Qed.
Lemma h_rep_min_max_nr mn mx d r c : NrE r (fun _ => True) -> okc c -> exists v, ov (h_rep_min_max ev mn mx d r c) = Some v.
Proof.
  intros Ht Hb. unfold h_rep_min_max. rewrite ov_guard.
  destruct (rep_loop_nr (opt_ d) r Ht mn c Hb) as [v Ev].
  destruct (rep_loop ev mn (opt_ d) r c) as [[| |e] c1 e1| |] eqn:E1; simpl in Ev; try discriminate; simpl; [|eexists; reflexivity].
  rewrite ov_prepend.
  assert (Hb1 : okc c1).
  { pose proof (rep_loop_good PT PT_refl PT_trans ev Hgood mn (opt_ d) r eq_refl c) as Gd. rewrite E1 in Gd. simpl in Gd. eapply okc_adv; eauto. }
  destruct (repopt_loop_nr d r Ht (mx - mn) c1 Hb1) as [c2 [evs [b [E2 B2]]]]. rewrite E2.
  destruct b; [|eexists; reflexivity]. rewrite ov_prepend. apply (h_at_nr true (opt_ d) r c2 (fun _ => True)); auto.
Qed.
(* --- where the last sub-rule of a sequence / the last iteration of a star was run --- *)
Lemma seq_all_last2 d : forall rs c c' evs rl, seq_all ev d rs c = Res Ok c' evs -> okc c -> lastopt rs = Some rl ->
  exists cp e, ev d rl cp = Res Ok c' e /\ okc cp.
Proof.
  induction rs as [|r rs IH]; intros c c' evs rl H Hb Hl; [discriminate|].
  cbn [seq_all] in H. apply bind_ok in H. destruct H as [c1 [e1 [e2 [H1 H2]]]].
  destruct rs as [|r2 rs'].
  - simpl in Hl. inversion Hl; subst rl. simpl in H2. inversion H2; subst. eauto.
  - apply (IH c1 c' e2 rl H2); [eapply ok_okc; eauto | exact Hl].
Qed.

Lemma star_loop_last d r : forall m c c' evs, star_loop ev m d [r] c = Res Ok c' evs -> okc c ->
  okc c' /\ exists e', ev (req d) r c' = Res Fail c' e'.
Proof.
  induction m as [|m IH]; intros c c' evs H Hk; [discriminate|].
  cbn [star_loop] in H. rewrite seq1_eq in H.
  destruct (ev (req d) r c) as [[| |e] c1 e1| |] eqn:E1; try discriminate.
  - assert (Hk1 : okc c1) by (eapply ok_okc; eauto).
    destruct (star_loop ev m d [r] c1) as [[| |e] c2 e2| |] eqn:E2; simpl in H; try discriminate.
    inversion H; subst c2. eapply IH; eauto.
  - inversion H; subst c1 evs. assert (c' = c) by (eapply (fail_rq (req d)); [reflexivity | exact E1]). subst c'.
    split; [exact Hk | eauto].
Qed.

Lemma star_loop_fol d r R L m c c' evs : CmpE r R L -> star_loop ev m d [r] c = Res Ok c' evs -> okc c ->
  ~ matches (Cat R L) (rest c').
Proof.
  intros Hc H Hk M. destruct (star_loop_last d r m c c' evs H Hk) as [Hk' [e' E']].
  destruct (Hc (req d) c' Hk' M) as [c2 [E2 _]]. rewrite E' in E2. simpl in E2. discriminate.
Qed.
Lemma h_plus_fol d r R L m c c' evs : CmpE r R L -> h_plus ev m d r c = Res Ok c' evs -> okc c ->
  ~ matches (Cat R L) (rest c').
Proof.
  intros Hc H Hk. unfold h_plus in H. apply bind_ok in H. destruct H as [c1 [e1 [e2 [H1 H2]]]].
  eapply star_loop_fol; eauto. eapply ok_okc; eauto.
Qed.
End H2.
