(* UriModel.v — model side of property C20 (definitions only).

   1. evalx: the engine of Engine.v with ONE extension: a node listed in MX is a leaf whose match()
      is tao::pegtl::maximum_rule< Unsigned, Maximum >::match (contrib/integer.hpp), interpreted by
      the C15 model Integer.maximum_rule.  uri::dec_octet derives from maximum_rule< std::uint8_t >;
      the table dump prints that class as `opaque` (Engine.v has no head for it) and checks/C20.py
      dumps its node index, bit width and maximum next to the table (gen/Uri_gen.v:
      uri_dec_octet, uri_dec_octet_bits, uri_dec_octet_max).  Everything else (match.hpp, every
      combinator, every atom) is Engine.eval_head / match_hpp / action_match unchanged, so the
      generic helper lemmas of EngineFacts.v / Mono.v apply to evalx as they do to eval.
   2. re_of: the "CFG reading" of a PEG table as a regular expression (sequence -> concatenation,
      ordered choice -> union, star/plus/opt/rep -> their regular counterparts, if_must/must ->
      concatenation, look-ahead -> nothing consumed), defined for the non-recursive fragment the
      URI grammar uses.  UriProof.v proves that whatever evalx accepts lies in this language.
   3. the instantiation for the generated table gen/Uri_gen.v. *)
From Coq Require Import List NArith ZArith Bool.
From PegtlV Require Import Base Decode Grammar Engine Integer Regex Rfc3986.
From PegtlV.gen Require Import Uri_gen.
Import ListNotations.
Local Open Scope N_scope.

(* ---------- 1. the engine with maximum_rule leaves ---------- *)
Definition mx_result (m : mres unit) : result :=
  match m with
  | MOk c' _ => Res Ok c' []
  | MFail c' _ => Res Fail c' []
  | MExc _ _ _ _ => Err          (* the nothrow variant has no throw statement *)
  | MOob => Err
  end.

Section EvalX.
Variable G : grammar.
Variable C : cfg.
Variable MX : rid -> option (nat * N).       (* node -> (bit width, Maximum) of a maximum_rule leaf *)

Fixpoint evalx (f : nat) (d : dyn) (r : rid) (c : cursor) {struct f} : result :=
  match f with
  | O => Oof
  | S f' =>
    match nth_error G r with
    | None => Res Fail c []
    | Some nd =>
      let body :=
        match MX r with
        | Some (w, mx) => fun (_ : dyn) (c' : cursor) => mx_result (maximum_rule w mx c' tt)
        | None => eval_head C (evalx f') f' r (nhead nd) (nsubs nd)
        end in
      let plain (ak : akind) (d' : dyn) (c' : cursor) :=
        if nenabled nd then match_hpp C ak body d' r c' else body d' c' in
      traced (dCtl d) r (dA d) (dM d) c
        match acts C (dAct d) r with
        | AKMatch m => action_match (evalx f') (plain AKNone) (nenabled nd) m d r c
        | ak => plain ak d c
        end
    end
  end.
End EvalX.

(* parse< Rule >( memory_input ) with the default template arguments: Action = nothing,
   Control = normal, apply_mode::action, rewind_mode::required, eol::lf_crlf *)
Definition C0 : cfg :=
  mkcfg EolLfCrlf (fun _ _ => AKNone) (fun _ _ _ _ => ARet true) (fun _ _ _ => ARet true)
        (fun _ => false) (fun _ _ => false).
Definition d0 : dyn := mkdyn true true 0 0 0.

Definition verdict_code (x : result) : N :=
  match x with
  | Res Ok _ _ => 1                                   (* parse returned true *)
  | Res Fail _ _ => 0                                 (* parse returned false *)
  | Res (Exc e) _ _ => if is_parse_error e then 2 else 3    (* parse_error / any other exception *)
  | Oof => 4
  | Err => 5
  end.

(* ---------- 2. PEG table -> regular expression ---------- *)
Definition bytes256 : list N := map N.of_nat (seq 0 256).
Definition z2n (z : Z) : N := Z.to_N (if (z <? 0)%Z then (z + 256)%Z else z).
Definition cs_of_one (cs : list Z) : cset := map (fun z => (z2n z, z2n z)) cs.
Fixpoint cs_of_ranges (cs : list Z) : cset :=
  match cs with
  | lo :: hi :: tl => (z2n lo, z2n hi) :: cs_of_ranges tl
  | [x] => [(z2n x, z2n x)]
  | [] => []
  end.
(* the class is accepted only if it agrees with the C++ test on every byte value *)
Definition class_checked (cs : cset) (t : Z -> bool) : bool :=
  forallb (fun b => Bool.eqb (cs_mem b cs) (t (schar b))) bytes256.
Definition class_re (cs : cset) (t : Z -> bool) : option (re * bool) :=
  if class_checked cs t then Some (Chr cs, false) else None.

Fixpoint cat_list (l : list re) : re :=
  match l with [] => Eps | [r] => r | r :: l' => Cat r (cat_list l') end.
Fixpoint alt_list (l : list re) : re :=
  match l with [] => Empty | [r] => r | r :: l' => Alt r (alt_list l') end.
Fixpoint pow (n : nat) (r : re) : re :=
  match n with O => Eps | S n' => Cat r (pow n' r) end.

(* the language of maximum_rule< w bits, Maximum >: canonical decimal numerals <= Maximum;
   described for the one instantiation the URI grammar uses *)
Definition re_maxrule (w : nat) (mx : N) : option re :=
  if Nat.eqb w 8 && (mx =? 255) then Some Rfc3986.dec_octet else None.

(* (expression, "never fails locally") of an atom; outer None = not an atom *)
Definition atom_re (h : head) : option (option (re * bool)) :=
  match h with
  | HSuccess => Some (Some (Eps, true))
  | HFailure => Some (Some (Empty, false))
  | HOpaque => Some (Some (Empty, false))
  | HEof => Some (Some (Eps, false))
  | HOne true PkChar cs => Some (class_re (cs_of_one cs) (test_one_set true cs))
  | HRange true PkChar lo hi => Some (class_re [(z2n lo, z2n hi)] (test_one_range true lo hi))
  | HRanges PkChar cs => Some (class_re (cs_of_ranges cs) (test_ranges cs))
  | HString cs => Some (Some (cat_list (map lit cs), false))
  | HSeq | HSor | HStarPartial | HPlus | HPartial | HRep _ | HRepOpt _ | HRepMinMax _ _
  | HIfMust _ | HMust | HAt | HNotAt => None
  | _ => Some None                                    (* not in the supported fragment *)
  end.

Section ReOf.
Variable G : grammar.
Variable MX : rid -> option (nat * N).

Fixpoint subs_re (sub : rid -> option (re * bool)) (rs : list rid) : option (list (re * bool)) :=
  match rs with
  | [] => Some []
  | r :: rs' => match sub r, subs_re sub rs' with
                | Some x, Some l => Some (x :: l)
                | _, _ => None
                end
  end.

Definition re_step (sub : rid -> option (re * bool)) (r : rid) (nd : node) : option (re * bool) :=
  match MX r with
  | Some (w, mx) => option_map (fun R => (R, false)) (re_maxrule w mx)
  | None =>
    match atom_re (nhead nd) with
    | Some x => x
    | None =>
      match nhead nd, nsubs nd with
      | HSeq, rs => option_map (fun l => (cat_list (map fst l), forallb snd l)) (subs_re sub rs)
      | HSor, rs => option_map (fun l => (alt_list (map fst l), existsb snd l)) (subs_re sub rs)
      | HStarPartial, [r1] => option_map (fun x => (Star (fst x), true)) (sub r1)
      | HPlus, [r1] => option_map (fun x => (Cat (fst x) (Star (fst x)), snd x)) (sub r1)
      | HPartial, [r1] => option_map (fun x => (Alt (fst x) Eps, true)) (sub r1)
      | HRep k, [r1] => option_map (fun x => (pow k (fst x), false)) (sub r1)
      | HRepOpt k, [r1] => option_map (fun x => (pow k (Alt (fst x) Eps), true)) (sub r1)
      | HRepMinMax mn mx, [r1] =>
          option_map (fun x => (Cat (pow mn (fst x)) (pow (mx - mn) (Alt (fst x) Eps)), false)) (sub r1)
      | HIfMust dflt, [cnd; m] =>
          match sub cnd, sub m with
          | Some (Rc, _), Some (Rm, true) => Some (if dflt then Alt (Cat Rc Rm) Eps else Cat Rc Rm, dflt)
          | _, _ => None
          end
      | HMust, [r1] => option_map (fun x => (fst x, true)) (sub r1)
      | HAt, [r1] => option_map (fun _ => (Eps, false)) (sub r1)         (* look-ahead consumes nothing *)
      | HNotAt, [r1] => option_map (fun _ => (Eps, false)) (sub r1)
      | _, _ => None
      end
    end
  end.

(* n bounds the nesting depth (the fragment is not recursive) *)
Fixpoint re_of (n : nat) (r : rid) : option (re * bool) :=
  match n with
  | O => None
  | S n' => match nth_error G r with
            | None => Some (Empty, false)
            | Some nd => re_step (re_of n') r nd
            end
  end.
End ReOf.

(* ---------- 3. the generated URI table ---------- *)
Definition uri_mx (r : rid) : option (nat * N) :=
  if Nat.eqb r uri_dec_octet then
    match nth_error uri_table r with
    | Some (mknode HOpaque [] _) => Some (uri_dec_octet_bits, N.of_nat uri_dec_octet_max)
    | _ => None
    end
  else None.

Definition uri_root (t : top) : rid :=
  match t with
  | TURI => uri_URI | TURI_reference => uri_URI_reference | Tabsolute_URI => uri_absolute_URI
  | TIPv4address => uri_IPv4address | TIPv6address => uri_IPv6address
  end.

(* parse< seq< uri::X, eof > >( memory_input( s ) ) *)
Definition uri_run (f : nat) (t : top) (s : list byte) : result :=
  evalx uri_table C0 uri_mx f d0 (uri_root t) (mkcur s pos0).
Definition uri_fuel (s : list byte) : nat := 64 + 2 * length s.
Definition uri_verdict (t : top) (s : list byte) : N := verdict_code (uri_run (uri_fuel s) t s).

Definition uri_re_depth : nat := 40.
Definition uri_re (t : top) : option (re * bool) := re_of uri_table uri_mx uri_re_depth (uri_root t).

(* fuel-free reading *)
Definition uri_accepts (t : top) (s : list byte) : Prop :=
  exists f c' evs, uri_run f t s = Res Ok c' evs.
Definition uri_rejects (t : top) (s : list byte) : Prop :=
  exists f c' evs, uri_run f t s = Res Fail c' evs \/ exists e, uri_run f t s = Res (Exc e) c' evs.

(* the specification-side recogniser *)
Definition rfc_match (t : top) (s : list byte) : bool := re_match (rfc t) s.
