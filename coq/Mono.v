(* Mono.v — fuel monotonicity of the engine and the fuel-free big-step relation Out.
   eval f = Res x  /\  f <= f'  ->  eval f' = Res x   (Oof is never confused with a verdict). *)
From Coq Require Import Lia.
From PegtlV Require Import Base Decode Grammar Engine.

Definition le_res (x y : result) : Prop := x = Oof \/ x = y.
Lemma le_refl x : le_res x x. Proof. right; reflexivity. Qed.
Lemma le_oof y : le_res Oof y. Proof. left; reflexivity. Qed.
Lemma le_map (F : result -> result) x y : F Oof = Oof -> le_res x y -> le_res (F x) (F y).
Proof. intros HF [H|H]; rewrite H; [left; exact HF | apply le_refl]. Qed.

Ltac dres x := destruct x as [[| |?e] ?c ?evs| |].
Ltac mono H := destruct H as [H|H]; rewrite H; [try apply le_oof | clear H].

Lemma prepend_mono evs x y : le_res x y -> le_res (prepend evs x) (prepend evs y).
Proof. apply le_map. reflexivity. Qed.
Lemma guard_mono m s x y : le_res x y -> le_res (guard m s x) (guard m s y).
Proof. apply le_map. reflexivity. Qed.
Lemma look_mono i s x y : le_res x y -> le_res (look i s x) (look i s y).
Proof. apply le_map. reflexivity. Qed.
Lemma st_scope_mono b r c x y : le_res x y -> le_res (st_scope b r c x) (st_scope b r c y).
Proof. apply le_map. reflexivity. Qed.
Lemma traced_mono k r a m c x y : le_res x y -> le_res (traced k r a m c x) (traced k r a m c y).
Proof. apply le_map. reflexivity. Qed.

Section MonoHelpers.
Variable C : cfg.
Variables e1 e2 : dyn -> rid -> cursor -> result.
Hypothesis Hle : forall d r c, le_res (e1 d r c) (e2 d r c).

Lemma seq_all_mono d rs : forall c, le_res (seq_all e1 d rs c) (seq_all e2 d rs c).
Proof.
  induction rs as [|r rs IH]; intros c; simpl; [apply le_refl|]. unfold bind.
  pose proof (Hle d r c) as H. mono H. dres (e2 d r c); try apply le_refl. apply prepend_mono, IH.
Qed.

Lemma sor_any_mono d rs : forall c, le_res (sor_any e1 d rs c) (sor_any e2 d rs c).
Proof.
  induction rs as [|r rs IH]; intros c; [apply le_refl|].
  destruct rs as [|r2 rs']; [simpl; apply Hle|].
  change (sor_any e1 d (r :: r2 :: rs') c) with (match e1 (req d) r c with Res Fail c' evs => prepend evs (sor_any e1 d (r2 :: rs') c') | x => x end).
  change (sor_any e2 d (r :: r2 :: rs') c) with (match e2 (req d) r c with Res Fail c' evs => prepend evs (sor_any e2 d (r2 :: rs') c') | x => x end).
  pose proof (Hle (req d) r c) as H. mono H. dres (e2 (req d) r c); try apply le_refl. apply prepend_mono, IH.
Qed.

Lemma star_loop_mono n1 : forall n2, n1 <= n2 -> forall d rs c, le_res (star_loop e1 n1 d rs c) (star_loop e2 n2 d rs c).
Proof.
  induction n1 as [|n1 IH]; intros n2 Hn d rs c; [apply le_oof|].
  destruct n2 as [|n2]; [lia|]. simpl.
  pose proof (seq_all_mono (req d) rs c) as H. mono H.
  dres (seq_all e2 (req d) rs c); try apply le_refl. apply prepend_mono, IH. lia.
Qed.

Lemma until1_mono n1 : forall n2, n1 <= n2 -> forall d cn c, le_res (until1_loop C e1 n1 d cn c) (until1_loop C e2 n2 d cn c).
Proof.
  induction n1 as [|n1 IH]; intros n2 Hn d cn c; [apply le_oof|].
  destruct n2 as [|n2]; [lia|]. cbn [until1_loop].
  pose proof (Hle (req d) cn c) as H. mono H. dres (e2 (req d) cn c); try apply le_refl.
  destruct (in_empty c0); [apply le_refl|]. destruct (bump_scan _ 1 c0); [|apply le_refl]. apply prepend_mono, IH. lia.
Qed.

Lemma until2_mono n1 : forall n2, n1 <= n2 -> forall d cn r c, le_res (until2_loop e1 n1 d cn r c) (until2_loop e2 n2 d cn r c).
Proof.
  induction n1 as [|n1 IH]; intros n2 Hn d cn r c; [apply le_oof|].
  destruct n2 as [|n2]; [lia|]. simpl.
  pose proof (Hle (req d) cn c) as H. mono H. dres (e2 (req d) cn c); try apply le_refl.
  pose proof (Hle (opt_ d) r c0) as H. mono H. dres (e2 (opt_ d) r c0); try apply le_refl. apply prepend_mono, IH. lia.
Qed.

Lemma rep_loop_mono k d r : forall c, le_res (rep_loop e1 k d r c) (rep_loop e2 k d r c).
Proof.
  induction k as [|k IH]; intros c; simpl; [apply le_refl|]. unfold bind.
  pose proof (Hle d r c) as H. mono H. dres (e2 d r c); try apply le_refl. apply prepend_mono, IH.
Qed.

Lemma repopt_loop_mono k d r : forall c,
  fst (repopt_loop e1 k d r c) = Oof \/ repopt_loop e1 k d r c = repopt_loop e2 k d r c.
Proof.
  induction k as [|k IH]; intros c; simpl; [right; reflexivity|].
  pose proof (Hle (req d) r c) as H. destruct H as [H|H]; rewrite H; [left; reflexivity|].
  dres (e2 (req d) r c); try (right; reflexivity).
  destruct (IH c0) as [K|K].
  - left. destruct (repopt_loop e1 k d r c0) as [x b]. simpl in *. subst x. reflexivity.
  - right. rewrite K. reflexivity.
Qed.

Lemma h_seq_mono d rs c : le_res (h_seq e1 d rs c) (h_seq e2 d rs c).
Proof. unfold h_seq. destruct rs as [|r1 [|r2 rs]]; [apply le_refl | apply Hle | apply guard_mono, seq_all_mono]. Qed.

Lemma h_at_mono i d r1 c : le_res (h_at e1 i d r1 c) (h_at e2 i d r1 c).
Proof. apply look_mono, Hle. Qed.

Lemma star_strict_mono n1 : forall n2, n1 <= n2 -> forall d r1 rs c, le_res (star_strict_loop e1 n1 d r1 rs c) (star_strict_loop e2 n2 d r1 rs c).
Proof.
  induction n1 as [|n1 IH]; intros n2 Hn d r1 rs c; [apply le_oof|].
  destruct n2 as [|n2]; [lia|]. simpl.
  pose proof (Hle (req d) r1 c) as H. mono H. dres (e2 (req d) r1 c); try apply le_refl.
  pose proof (h_seq_mono (opt_ d) rs c0) as H. mono H. dres (h_seq e2 (opt_ d) rs c0); try apply le_refl. apply prepend_mono, IH. lia.
Qed.

Lemma rematch_all_mono d rs i2 : le_res (rematch_all e1 d rs i2) (rematch_all e2 d rs i2).
Proof.
  induction rs as [|r rs IH]; simpl; [apply le_refl|].
  pose proof (Hle d r i2) as H. mono H. dres (e2 d r i2); try apply le_refl. apply prepend_mono, IH.
Qed.

Lemma eval_head_mono n1 n2 self h subs d c : n1 <= n2 ->
  le_res (eval_head C e1 n1 self h subs d c) (eval_head C e2 n2 self h subs d c).
Proof.
  intros Hn. unfold eval_head. destruct (eval_atom (ceol C) h c); [apply le_refl|].
  destruct h; try apply le_refl.
  - apply h_seq_mono.
  - apply sor_any_mono.
  - apply star_loop_mono; exact Hn.
  - destruct subs as [|r1 [|? ?]]; try apply le_refl. unfold h_plus, bind.
    pose proof (Hle d r1 c) as H. mono H. dres (e2 d r1 c); try apply le_refl. apply prepend_mono, star_loop_mono; exact Hn.
  - unfold h_partial. pose proof (seq_all_mono (req d) subs c) as H. mono H. apply le_refl.
  - destruct subs as [|r1 [|? ?]]; try apply le_refl. apply h_at_mono.
  - destruct subs as [|r1 [|? ?]]; try apply le_refl. apply h_at_mono.
  - destruct subs as [|r1 [|? ?]]; try apply le_refl. apply guard_mono, until1_mono; exact Hn.
  - destruct subs as [|cn [|r1 [|? ?]]]; try apply le_refl. apply guard_mono, until2_mono; exact Hn.
  - destruct subs as [|r1 [|? ?]]; try apply le_refl. apply guard_mono, rep_loop_mono.
  - destruct subs as [|r1 [|? ?]]; try apply le_refl. unfold h_rep_min_max, bind. apply guard_mono.
    pose proof (rep_loop_mono mn (opt_ d) r1 c) as H. mono H. dres (rep_loop e2 mn (opt_ d) r1 c); try apply le_refl.
    apply prepend_mono.
    destruct (repopt_loop_mono (mx - mn) d r1 c0) as [H|H].
    + destruct (repopt_loop e1 (mx - mn) d r1 c0) as [x b]. simpl in H. subst x. destruct b; apply le_oof.
    + rewrite H. destruct (repopt_loop e2 (mx - mn) d r1 c0) as [x b]. dres x; try apply le_refl.
      destruct b; [|apply le_refl]. apply prepend_mono, h_at_mono.
  - destruct subs as [|r1 [|? ?]]; try apply le_refl. unfold h_rep_opt.
    destruct (repopt_loop_mono mx d r1 c) as [H|H]; [left; exact H | rewrite H; apply le_refl].
  - destruct subs as [|cn [|t [|e [|? ?]]]]; try apply le_refl. unfold h_if_then_else. apply guard_mono.
    pose proof (Hle (req d) cn c) as H. mono H. dres (e2 (req d) cn c); try apply le_refl; apply prepend_mono, Hle.
  - destruct subs as [|cn rest_]; try apply le_refl. unfold h_if_must.
    pose proof (Hle (if dflt then req d else d) cn c) as H. mono H. dres (e2 (if dflt then req d else d) cn c); try apply le_refl.
    destruct rest_ as [|m ?]; [apply le_refl|]. pose proof (Hle d m c0) as H. mono H. apply le_refl.
  - destruct subs as [|r1 [|? ?]]; try apply le_refl. unfold h_must.
    pose proof (Hle (opt_ d) r1 c) as H. mono H. apply le_refl.
  - destruct subs as [|r1 rs]; try apply le_refl. unfold h_strict. apply guard_mono.
    pose proof (Hle (req d) r1 c) as H. mono H. dres (e2 (req d) r1 c); try apply le_refl. apply prepend_mono, h_seq_mono.
  - destruct subs as [|r1 rs]; try apply le_refl. apply guard_mono, star_strict_mono; exact Hn.
  - destruct subs as [|hd rs]; try apply le_refl. unfold h_rematch. destruct rs as [|r rs']; [apply Hle|].
    pose proof (Hle (opt_ d) hd c) as H. mono H. dres (e2 (opt_ d) hd c); try apply le_refl.
    destruct (take _ (rest c)); [|apply le_refl].
    pose proof (rematch_all_mono (opt_ d) (r :: rs') (mkcur l (cpos c))) as H. mono H. apply le_refl.
  - destruct subs as [|r1 [|? ?]]; try apply le_refl. unfold h_try_false.
    pose proof (Hle (opt_ d) r1 c) as H. mono H. apply le_refl.
  - destruct subs as [|r1 [|? ?]]; try apply le_refl. unfold h_try_nested.
    pose proof (Hle (opt_ d) r1 c) as H. mono H. apply le_refl.
  - destruct subs as [|r1 [|? ?]]; try apply le_refl. apply st_scope_mono, Hle.
  - destruct subs as [|r1 [|? ?]]; try apply le_refl. apply Hle.
  - destruct subs as [|r1 [|? ?]]; try apply le_refl. apply Hle.
  - destruct subs as [|r1 [|? ?]]; try apply le_refl. apply Hle.
  - destruct subs as [|r1 [|? ?]]; try apply le_refl. apply Hle.
  - destruct subs as [|r1 [|? ?]]; try apply le_refl. unfold h_if_apply.
    destruct (dA d && _); [|apply Hle].
    pose proof (Hle (set_A (opt_ d) true) r1 c) as H. mono H. apply le_refl.
Qed.

Lemma match_hpp_mono ak (b1 b2 : dyn -> cursor -> result) d r c :
  (forall d c, le_res (b1 d c) (b2 d c)) -> le_res (match_hpp C ak b1 d r c) (match_hpp C ak b2 d r c).
Proof.
  intros Hb. unfold match_hpp.
  pose proof (Hb (if use_guard d ak then opt_ d else d) c) as H. mono H. apply le_refl.
Qed.

Lemma action_match_mono (p1 p2 : dyn -> cursor -> result) enabled m d r c :
  (forall d c, le_res (p1 d c) (p2 d c)) -> le_res (action_match e1 p1 enabled m d r c) (action_match e2 p2 enabled m d r c).
Proof.
  intros Hp. destruct m; simpl.
  - apply Hle. - apply st_scope_mono, Hp. - apply st_scope_mono, Hle. - apply Hp. - apply Hp. - apply Hp.
  - destruct enabled; [|apply Hp]. destruct (n <? S (dDepth d)); [apply le_refl | apply Hp].
  - pose proof (Hp d (mkcur (firstn n (rest c)) (cpos c))) as H. mono H. apply le_refl.
  - pose proof (Hp d c) as H. mono H. apply le_refl.
Qed.
End MonoHelpers.

Theorem eval_mono G C f1 : forall f2, f1 <= f2 -> forall d r c, le_res (eval G C f1 d r c) (eval G C f2 d r c).
Proof.
  induction f1 as [|f1 IH]; intros f2 Hf d r c; [apply le_oof|].
  destruct f2 as [|f2]; [lia|]. simpl.
  destruct (nth_error G r) as [nd|]; [|apply le_refl].
  assert (Hle : forall d r c, le_res (eval G C f1 d r c) (eval G C f2 d r c)) by (apply IH; lia).
  apply traced_mono.
  assert (Hplain : forall ak d' c', le_res
            (if nenabled nd then match_hpp C ak (eval_head C (eval G C f1) f1 r (nhead nd) (nsubs nd)) d' r c'
             else eval_head C (eval G C f1) f1 r (nhead nd) (nsubs nd) d' c')
            (if nenabled nd then match_hpp C ak (eval_head C (eval G C f2) f2 r (nhead nd) (nsubs nd)) d' r c'
             else eval_head C (eval G C f2) f2 r (nhead nd) (nsubs nd) d' c')).
  { intros ak d' c'. destruct (nenabled nd).
    - apply match_hpp_mono. intros d2 c2. apply eval_head_mono; [exact Hle | lia].
    - apply eval_head_mono; [exact Hle | lia]. }
  destruct (acts C (dAct d) r) as [| | |mk]; try apply Hplain.
  apply action_match_mono; [exact Hle | apply Hplain].
Qed.

Corollary eval_mono_res G C f1 f2 d r c o c' evs :
  eval G C f1 d r c = Res o c' evs -> f1 <= f2 -> eval G C f2 d r c = Res o c' evs.
Proof.
  intros H L. destruct (eval_mono G C f1 f2 L d r c) as [E|E]; [congruence | rewrite <- E; exact H].
Qed.
Corollary eval_mono_err G C f1 f2 d r c :
  eval G C f1 d r c = Err -> f1 <= f2 -> eval G C f2 d r c = Err.
Proof.
  intros H L. destruct (eval_mono G C f1 f2 L d r c) as [E|E]; [congruence | rewrite <- E; exact H].
Qed.

(* fuel-free big-step view of the engine *)
Definition Out G C (d : dyn) (r : rid) (c : cursor) (o : outcome) (c' : cursor) (evs : list event) : Prop :=
  exists f, eval G C f d r c = Res o c' evs.

Theorem Out_functional G C d r c o1 c1 e1 o2 c2 e2 :
  Out G C d r c o1 c1 e1 -> Out G C d r c o2 c2 e2 -> o1 = o2 /\ c1 = c2 /\ e1 = e2.
Proof.
  intros [f1 H1] [f2 H2].
  destruct (Nat.le_ge_cases f1 f2) as [L|L].
  - pose proof (eval_mono_res _ _ _ _ _ _ _ _ _ _ H1 L) as E. rewrite H2 in E. inversion E. auto.
  - pose proof (eval_mono_res _ _ _ _ _ _ _ _ _ _ H2 L) as E. rewrite H1 in E. inversion E. auto.
Qed.
