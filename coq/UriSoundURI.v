(* UriSoundURI.v — C20 soundness of the generated table for one production (split from UriProof.v so that the
   three large inclusion checks compile in parallel). *)
From PegtlV Require Import Base Grammar Engine ExactSound Regex Rfc3986 UriModel UriProof.

Lemma sound_URI : forall s, bytes_ok s -> uri_accepts TURI s -> matches (rfc TURI) s.
Proof. apply sound_of_cert. vm_cast_no_check (eq_refl true). Qed.
