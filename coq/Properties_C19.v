(* Properties_C19.v — C19: error-reporting helpers return the exact source line of any position.
   Theorems only; proofs are in LinesFacts.v, the model in Lines.v, the specification in
   LinesSpec.v.  p = track e init (firstn k s) is the position after k consumed bytes (what both
   eager bumping and the lazy re-scan compute, C19_lazy_eq_eager). *)
From PegtlV Require Import Base Engine Lines LinesSpec LinesFacts.

(* ---- the specification functions are the greatest / least indices of the property text ---- *)

Theorem C19_spec_line_begin_greatest : forall e s k, is_line_begin e s k (line_begin e s k).
Proof. exact line_begin_is. Qed.
Print Assumptions C19_spec_line_begin_greatest.

Theorem C19_spec_line_end_least : forall e s k, (k <= length s)%nat ->
  is_line_end e s k (line_end e s k).
Proof. exact line_end_is. Qed.
Print Assumptions C19_spec_line_end_least.

(* ---- default initial byte (and column); ANY initial line; every policy; k = |s| included ---- *)

Theorem C19_at : forall e s init k, (k <= length s)%nat -> pbyte init = 0%N ->
  at_ (track e init (firstn k s)) = Z.of_nat k.
Proof. exact at_default. Qed.
Print Assumptions C19_at.

Theorem C19_bol : forall e s init k, (k <= length s)%nat -> pbyte init = 0%N -> pcol init = 1%N ->
  begin_of_line (track e init (firstn k s)) = Z.of_nat (line_begin e s k).
Proof. exact bol_default. Qed.
Print Assumptions C19_bol.

Theorem C19_eol : forall e s init k, (k <= length s)%nat -> pbyte init = 0%N ->
  end_of_line e (mkin s init) (track e init (firstn k s)) = Off (Z.of_nat (line_end e s k)).
Proof. exact eol_default. Qed.
Print Assumptions C19_eol.

Theorem C19_line_at : forall e s init k, (k <= length s)%nat -> pbyte init = 0%N -> pcol init = 1%N ->
  line_at e (mkin s init) (track e init (firstn k s)) = Line (line_bytes e s k).
Proof. exact line_at_default. Qed.
Print Assumptions C19_line_at.

Theorem C19_in_bounds : forall e s init k, (k <= length s)%nat -> pbyte init = 0%N -> pcol init = 1%N ->
  let p := track e init (firstn k s) in
  (0 <= at_ p <= Z.of_nat (length s))%Z /\
  (0 <= begin_of_line p <= at_ p)%Z /\
  exists z, end_of_line e (mkin s init) p = Off z /\ (at_ p <= z <= Z.of_nat (length s))%Z.
Proof. exact in_bounds_default. Qed.
Print Assumptions C19_in_bounds.

Theorem C19_relational : forall e s init k, (k <= length s)%nat ->
  pbyte init = 0%N -> pcol init = 1%N ->
  let p := track e init (firstn k s) in
  exists b j, begin_of_line p = Z.of_nat b /\ is_line_begin e s k b /\
              end_of_line e (mkin s init) p = Off (Z.of_nat j) /\ is_line_end e s k j /\
              line_at e (mkin s init) p = Line (firstn (j - b) (skipn b s)).
Proof. exact default_relational. Qed.
Print Assumptions C19_relational.

(* ---- the true part next to the recorded finding ---- *)

Theorem C19_default_counters_partial : forall init,
  pbyte init = 0%N -> pcol init = 1%N -> c19_holds_for init.
Proof. exact default_counters_partial. Qed.
Print Assumptions C19_default_counters_partial.

(* a non-default initial LINE alone is harmless *)
Theorem C19_any_initial_line : forall l, c19_holds_for (mkpos 0 l 1).
Proof. exact any_initial_line. Qed.
Print Assumptions C19_any_initial_line.

Theorem C19_helpers_ignore_line : forall e s b l l' c pre,
  let p := track e (mkpos b l c) pre in let p' := track e (mkpos b l' c) pre in
  at_ p = at_ p' /\ begin_of_line p = begin_of_line p' /\
  end_of_line e (mkin s (mkpos b l c)) p = end_of_line e (mkin s (mkpos b l' c)) p' /\
  line_at e (mkin s (mkpos b l c)) p = line_at e (mkin s (mkpos b l' c)) p'.
Proof. exact helpers_ignore_line. Qed.
Print Assumptions C19_helpers_ignore_line.

(* a non-default initial COLUMN (default byte) spoils begin_of_line on the first line only *)
Theorem C19_initial_column_partial : forall e s init k, (k <= length s)%nat -> pbyte init = 0%N ->
  let p := track e init (firstn k s) in
  at_ p = Z.of_nat k /\
  end_of_line e (mkin s init) p = Off (Z.of_nat (line_end e s k)) /\
  (line_begin e s k <> 0%nat -> begin_of_line p = Z.of_nat (line_begin e s k)) /\
  (line_begin e s k = 0%nat -> begin_of_line p = (1 - Z.of_N (pcol init))%Z).
Proof. exact initial_column_partial. Qed.
Print Assumptions C19_initial_column_partial.

(* exact deviation for arbitrary counters *)
Theorem C19_at_general : forall e s init k, (k <= length s)%nat ->
  at_ (track e init (firstn k s)) = (Z.of_N (pbyte init) + Z.of_nat k)%Z.
Proof. exact at_general. Qed.
Print Assumptions C19_at_general.

Theorem C19_bol_general : forall e s init k, (k <= length s)%nat ->
  begin_of_line (track e init (firstn k s)) =
    (Z.of_N (pbyte init) + Z.of_nat (line_begin e s k)
     - (if (line_begin e s k =? 0)%nat then Z.of_N (pcol init) - 1 else 0))%Z.
Proof. exact bol_general. Qed.
Print Assumptions C19_bol_general.

(* ---- the finding: non-default initial byte / column ---- *)

Theorem C19_refuted_initial_byte :
  (exists e s init k, (k <= length s)%nat /\ pline init = 1%N /\ pcol init = 1%N /\
     let p := track e init (firstn k s) in
     s = [120;120;120;120;120;120;120;120]%N /\ init = mkpos 100 1 1 /\ k = 4%nat /\
     at_ p = 104%Z /\ (at_ p > Z.of_nat (length s))%Z /\ begin_of_line p = 100%Z /\
     end_of_line e (mkin s init) p = OutOfData /\
     line_at e (mkin s init) p = LineOut 100 OutOfData) /\
  (exists e s init k, (k <= length s)%nat /\ pline init = 1%N /\ pcol init = 1%N /\
     let p := track e init (firstn k s) in
     s = [] /\ init = mkpos 1 1 1 /\ k = 0%nat /\
     (at_ p > Z.of_nat (length s))%Z /\ end_of_line e (mkin s init) p = OutOfData).
Proof. exact refuted_initial_byte. Qed.
Print Assumptions C19_refuted_initial_byte.

Theorem C19_refuted_initial_byte_wrong_line :
  exists e s init k, (k <= length s)%nat /\ pcol init = 1%N /\
     let p := track e init (firstn k s) in
     line_bytes e s k = [97;98]%N /\ at_ p = 1%Z /\ line_at e (mkin s init) p = Line [98]%N.
Proof. exact refuted_initial_byte_wrong_line. Qed.
Print Assumptions C19_refuted_initial_byte_wrong_line.

Theorem C19_refuted_initial_column :
  (exists e s init k, (k <= length s)%nat /\ pbyte init = 0%N /\ pline init = 1%N /\
     let p := track e init (firstn k s) in
     s = [97;98]%N /\ init = mkpos 0 1 4 /\ k = 1%nat /\
     at_ p = 1%Z /\ begin_of_line p = (-3)%Z /\ (begin_of_line p < 0)%Z /\
     end_of_line e (mkin s init) p = Off 2 /\
     line_at e (mkin s init) p = LineOut (-3) (Off 2)) /\
  (exists e s init k, (k <= length s)%nat /\ pbyte init = 0%N /\ pline init = 1%N /\
     let p := track e init (firstn k s) in
     s = [] /\ init = mkpos 0 1 2 /\ k = 0%nat /\ (begin_of_line p < 0)%Z).
Proof. exact refuted_initial_column. Qed.
Print Assumptions C19_refuted_initial_column.

(* C19 holds for exactly the initial counters with byte = 0 and column = 1 *)
Theorem C19_holds_iff_default_byte_and_column : forall init,
  c19_holds_for init <-> (pbyte init = 0%N /\ pcol init = 1%N).
Proof. exact c19_holds_iff. Qed.
Print Assumptions C19_holds_iff_default_byte_and_column.

(* ---- tracking modes ---- *)

Theorem C19_lazy_eq_eager : forall e inp k, (k <= length (idata inp))%nat ->
  eager_position e inp k = Some (lazy_position e inp k).
Proof. exact eager_is_lazy. Qed.
Print Assumptions C19_lazy_eq_eager.

Theorem C19_helpers_mode_independent : forall e inp k (r r' : report),
  c19_report true e inp k = Some r -> c19_report false e inp k = Some r' ->
  r_pos r = r_pos r' /\ r_at r = r_at r' /\ r_bol r = r_bol r' /\ r_eol r = r_eol r' /\ r_line r = r_line r'.
Proof. exact report_modes. Qed.
Print Assumptions C19_helpers_mode_independent.

(* lazy byte() = initial byte + ( current - begin ) = position().byte (defect repaired by /repo e0cf8e4; before, the initial
   byte counter was not added) *)
Theorem C19_lazy_byte_is_position_byte : forall e inp k, (k <= length (idata inp))%nat ->
  pbyte (lazy_position e inp k) = lazy_byte inp k.
Proof. exact lazy_byte_is_position_byte. Qed.
Print Assumptions C19_lazy_byte_is_position_byte.

Theorem C19_eager_byte_is_position_byte : forall e inp k, (k <= length (idata inp))%nat ->
  eager_byte e inp k = Some (pbyte (lazy_position e inp k)).
Proof. exact eager_byte_is_position_byte. Qed.
Print Assumptions C19_eager_byte_is_position_byte.

(* ---- hypotheses are satisfiable by non-trivial inputs ---- *)

Example C19_example_lf_crlf :
  let s := [97;98;13;10;99;100;10;101;102]%N in let init := mkpos 0 3 1 in
  let p := track EolLfCrlf init (firstn 5 s) in
  p = mkpos 5 4 2 /\ at_ p = 5%Z /\ begin_of_line p = 4%Z /\
  end_of_line EolLfCrlf (mkin s init) p = Off 6 /\
  line_at EolLfCrlf (mkin s init) p = Line [99;100]%N /\
  line_begin EolLfCrlf s 5 = 4%nat /\ line_end EolLfCrlf s 5 = 6%nat.
Proof. exact example_lf_crlf. Qed.
Print Assumptions C19_example_lf_crlf.

Example C19_example_at_end :
  let s := [97;98;10]%N in let p := track EolLf pos0 (firstn 3 s) in
  p = mkpos 3 2 1 /\ begin_of_line p = 3%Z /\ end_of_line EolLf (mkin s pos0) p = Off 3 /\
  line_at EolLf (mkin s pos0) p = Line [].
Proof. exact example_at_end. Qed.
Print Assumptions C19_example_at_end.

Example C19_example_crlf_lone_lf :
  let s := [120;10;121]%N in
  line_at EolCrlf (mkin s pos0) (track EolCrlf pos0 (firstn 0 s)) = Line [120;10;121]%N /\
  line_at EolCrlf (mkin s pos0) (track EolCrlf pos0 (firstn 2 s)) = Line [121]%N.
Proof. exact example_crlf_lone_lf. Qed.
Print Assumptions C19_example_crlf_lone_lf.

Example C19_example_cr_crlf_pair :
  let s := [97;13;10;98]%N in
  line_at EolCrCrlf (mkin s pos0) (track EolCrCrlf pos0 (firstn 3 s)) = Line [10;98]%N.
Proof. exact example_cr_crlf_pair. Qed.
Print Assumptions C19_example_cr_crlf_pair.
