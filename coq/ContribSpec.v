(* ContribSpec.v — independent specifications for the contrib rules modelled in Contrib.v.
   Nothing here mentions the loops, size questions or bump functions of the models:
     advance      the cursor after consuming n bytes: the remaining input is the n-th suffix and the
                  position is what (lazy) tracking computes from the consumed bytes (PosFacts.track);
     run_len      length of the maximal run of bytes satisfying a test at the start of a list,
                  characterised declaratively by maximal_run;
     pred_sat     the boolean combination denoted by a predicates type, as a proposition;
     hexdigit / hex_value   hexadecimal digits as byte ranges and the arbitrary-precision value of a
                  digit string;
     *_spec       what each rule is documented to do, as a function from the cursor to the result. *)
From PegtlV Require Import Base Decode Grammar Engine DecodeFacts PosFacts Contrib.
Local Open Scope N_scope.

(* ------------------------------------------------------------------ consuming n bytes *)

Definition advance (ch : N) (n : nat) (c : cursor) : cursor :=
  mkcur (skipn n (rest c)) (track ch (cpos c) (firstn n (rest c))).

(* the same without looking at the bytes: legal when none of them is the eol character *)
Definition advance_in_line (n : nat) (c : cursor) : cursor :=
  mkcur (skipn n (rest c))
        (mkpos (pbyte (cpos c) + N.of_nat n) (pline (cpos c)) (pcol (cpos c) + N.of_nat n)).

(* ------------------------------------------------------------------ maximal runs *)

Fixpoint run_len (f : byte -> bool) (l : list byte) : nat :=
  match l with
  | b :: tl => if f b then S (run_len f tl) else O
  | [] => O
  end.

Definition maximal_run (f : byte -> bool) (l : list byte) (n : nat) : Prop :=
  (n <= length l)%nat /\
  (forall i b, (i < n)%nat -> nth_error l i = Some b -> f b = true) /\
  (forall b, nth_error l n = Some b -> f b = false).

(* ------------------------------------------------------------------ rep_one_min_max *)

(* in.peek_char( i ) == C, a comparison of two (signed) chars *)
Definition is_char (cb : byte) (b : byte) : bool := (schar b =? schar cb)%Z.

(* rep_min_max< Min, Max, one< C > > as the reference describes it: between Min and Max times C,
   NOT followed by a further C *)
Definition rom_spec (mn mx : nat) (cb : byte) (ch : N) (c : cursor) : result :=
  let r := run_len (is_char cb) (rest c) in
  if (mn <=? r)%nat && (r <=? mx)%nat then Res Ok (advance ch r c) [] else Res Fail c [].

(* the atom one< C > as the engine evaluates it (Engine.eval_atom on HOne true PkChar [C]) *)
Definition ev_one (ch : N) (cb : byte) : dyn -> rid -> cursor -> result :=
  fun _ _ c => peek_test_bump ch PkChar (test_one_set true [schar cb]) c.

(* ------------------------------------------------------------------ predicates *)

Fixpoint pred_sat (p : pred) (v : Z) : Prop :=
  match p with
  | POne found cs => (In v cs <-> found = true)
  | PRange found lo hi => ((lo <= v <= hi)%Z <-> found = true)
  | PRanges cs => in_ranges_spec cs v
  | PAnd ps => (fix go (l : list pred) : Prop :=
                  match l with [] => True | q :: l' => pred_sat q v /\ go l' end) ps
  | POr ps => (fix go (l : list pred) : Prop :=
                 match l with [] => False | q :: l' => pred_sat q v \/ go l' end) ps
  | PNot q => ~ pred_sat q v
  end.

(* accept exactly when the decoder yields a unit (value v, n bytes) and v satisfies the combination *)
Definition predicates_spec (ch : N) (pk : peek) (p : pred) (c : cursor) (x : result) : Prop :=
  match do_peek pk c with
  | PSome v n => (pred_sat p v /\ x = Res Ok (advance ch n c) []) \/ (~ pred_sat p v /\ x = Res Fail c [])
  | _ => x = Res Fail c []
  end.

(* ------------------------------------------------------------------ hexadecimal numerals *)

Definition hexdigit (b : byte) : option N :=
  if (48 <=? b) && (b <=? 57) then Some (b - 48)
  else if (65 <=? b) && (b <=? 70) then Some (b - 55)
  else if (97 <=? b) && (b <=? 102) then Some (b - 87)
  else None.
Definition is_hex (b : byte) : bool := match hexdigit b with Some _ => true | None => false end.

(* value of a digit string, most significant digit first, arbitrary precision *)
Definition hex_value (ds : list byte) : N :=
  fold_left (fun acc b => acc * 16 + match hexdigit b with Some d => d | None => 0 end) ds 0.

(* chunk_size: the maximal run of hex digits; success iff it is non-empty; the state receives the
   value of the run — reduced modulo 2^64 (the C++ shifts a 64-bit variable and drops the overflow
   silently for runs of more than 16 significant digits) *)
Definition chunk_size_spec (ch : N) (c : cursor) : result * N :=
  let k := run_len is_hex (rest c) in
  (if (0 <? k)%nat then Res Ok (advance ch k c) [] else Res Fail c [],
   hex_value (firstn k (rest c)) mod 2 ^ 64).

(* chunk_data: exactly `size` bytes, iff that many are there *)
Definition chunk_data_spec (ch : N) (size : N) (c : cursor) : result :=
  if size <=? N.of_nat (in_size c) then Res Ok (advance ch (N.to_nat size) c) [] else Res Fail c [].

(* ------------------------------------------------------------------ http::chunk without extension *)

Definition starts_with (p l : list byte) : bool := eqb_bytes p (firstn (length p) l).

(* chunk = 1*HEXDIG CRLF <size octets> CRLF with size = value of the digits (modulo 2^64, see chunk_size_spec);
   rewind_mode::required: a failure leaves the cursor where it was.  CkExt: a ';' follows the digits (chunk
   extensions are outside the model). *)
Definition http_chunk_spec (ch : N) (c : cursor) : chunk_res :=
  let l := rest c in
  let k := run_len is_hex l in
  let size := hex_value (firstn k l) mod 2 ^ 64 in
  if (0 <? k)%nat then
    match nth_error l k with
    | Some 59 => CkExt
    | _ =>
      let n := N.to_nat size in
      CkRes (if starts_with [13; 10] (skipn k l)
                && (size <=? N.of_nat (length l - (k + 2)))
                && starts_with [13; 10] (skipn (k + 2 + n) l)
             then Res Ok (advance ch (k + 2 + n + 2) c) []
             else Res Fail c []) size
    end
  else CkRes (Res Fail c []) 0.
