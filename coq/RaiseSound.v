(* RaiseSound.v — C05 "identity": on tables made of the classical PEG heads plus must<> / raise<> /
   if_must<>, with only void actions attached, the engine model raises exactly the rule that the
   independent big-step formalism of RaiseSpec.v blames (must<R> = sor<R, raise<R>>, a raise aborts
   every enclosing operator, first raise in evaluation order), and otherwise returns the formalism's
   verdict with the prescribed remaining input. *)
From Coq Require Import Lia.
From PegtlV Require Import Base Decode Grammar Engine EngineFacts AtomFacts Mono Spec Denote ExactSound ExactTop RaiseSpec.
Local Open Scope N_scope.

(* ---------- the fragment ---------- *)
Definition must_node (G : grammar) (r : rid) : Prop :=
  exists nd r1, nth_error G r = Some nd /\ nhead nd = HMust /\ nsubs nd = [r1].
(* the must<Rules...> part of if_must: must<R>, success (must<>), or seq<must<R1>, must<R2>, ...> *)
Definition must_like (G : grammar) (m : rid) : Prop :=
  exists nd, nth_error G m = Some nd /\
    ((nhead nd = HMust /\ exists r1, nsubs nd = [r1]) \/
     (nhead nd = HSuccess /\ nsubs nd = []) \/
     (nhead nd = HSeq /\ nsubs nd <> [] /\ Forall (must_node G) (nsubs nd))).

Definition cm_node (G : grammar) (nd : node) : Prop :=
  Forall (fun r1 => (r1 < length G)%nat) (nsubs nd) /\        (* the table is closed: every sub-rule id is defined *)
  match nhead nd with
  | HSeq | HSor => nsubs nd <> []                     (* one-element seq / sor allowed *)
  | HStarPartial | HPlus | HPartial | HAt | HNotAt | HMust | HRaise => exists r1, nsubs nd = [r1]
  | HIfMust _ => exists cnd m, nsubs nd = [cnd; m] /\ must_like G m
  | h => nsubs nd = [] /\ exists a, atom_den h a      (* the atomic heads of Denote.den_node *)
  end.
Definition cm_table (G : grammar) : Prop := forall r nd, nth_error G r = Some nd -> cm_node G nd.

(* ---------- byte-offset tracking: an instance of the generic cursor invariant ---------- *)
Definition PB (p : pos) (pre : list byte) (q : pos) : Prop := pbyte q = pbyte p + N.of_nat (length pre).
Lemma PB_refl p : PB p [] p.
Proof. unfold PB. simpl. lia. Qed.
Lemma PB_trans p a q b r : PB p a q -> PB q b r -> PB p (a ++ b) r.
Proof. unfold PB. rewrite app_length. lia. Qed.

(* total = bytes still to read + bytes already read: constant along one parse *)
Definition T (c : cursor) : N := N.of_nat (length (rest c)) + pbyte (cpos c).
Lemma adv_T c c' : adv PB c c' -> T c' = T c /\ pbyte (cpos c) <= pbyte (cpos c').
Proof. intros [pre [H1 H2]]. unfold T, PB in *. rewrite H1, app_length. lia. Qed.

Lemma bump_scan_PB ch n : forall c c', bump_scan ch n c = Some c' -> adv PB c c'.
Proof.
  induction n as [|n IHn]; intros c c' H; simpl in H.
  - inversion H; subst. apply adv_refl. exact PB_refl.
  - destruct (rest c) as [|b tl] eqn:E; [discriminate H|]. apply IHn in H. destruct H as [pre [H1 H2]].
    exists (b :: pre). simpl in H1, H2. rewrite E, H1. split; [reflexivity|].
    unfold PB in *. unfold bump1_pos in H2. simpl length. destruct (b =? ch); simpl in H2; lia.
Qed.
Lemma bump_in_line_PB n c c' : bump_in_line n c = Some c' -> adv PB c c'.
Proof.
  unfold bump_in_line. destruct (drop n (rest c)) as [tl|] eqn:E; [|discriminate]. intros H. inversion H; subst.
  apply drop_app in E. destruct E as [pre [E L]]. exists pre. simpl. split; [exact E|]. unfold PB. simpl. rewrite L. reflexivity.
Qed.
Lemma bump_help_PB ch t n c m : (n <= in_size c)%nat -> good PB m c (bump_help ch t n c).
Proof.
  intros H. unfold bump_help. destruct t.
  - destruct (bump_scan_some ch n c H) as [c' Hc]. rewrite Hc. simpl. eapply bump_scan_PB; eauto.
  - destruct (bump_in_line_some n c H) as [c' Hc]. rewrite Hc. simpl. eapply bump_in_line_PB; eauto.
Qed.
Lemma ptb_char_PB ch test c m : good PB m c (peek_test_bump ch PkChar test c).
Proof.
  unfold peek_test_bump, do_peek, peek_char, in_empty, rd, peek_at.
  destruct (rest c) as [|b tl] eqn:E; [apply good_fail_same; exact PB_refl|]. simpl.
  destruct (test (schar b)); [|apply good_fail_same; exact PB_refl].
  apply bump_help_PB. unfold in_size. rewrite E. simpl. lia.
Qed.

(* heads whose atom evaluation keeps the byte offset in step: the atomic classes of the fragment
   (and, vacuously, every head that is not an atom of the engine) *)
Definition okh (h : head) : Prop := (forall eol c, eval_atom eol h c = None) \/ exists a, atom_den h a.
Lemma atom_PB eol h c x m : okh h -> eval_atom eol h c = Some x -> good PB m c x.
Proof.
  intros [Hn | [a [_ H]]] Hx; [rewrite Hn in Hx; discriminate Hx|].
  unfold den_node in H. cbn [nhead nsubs] in H.
  destruct h; try discriminate H.
  - simpl in Hx. injection Hx as <-. apply good_ok_same. exact PB_refl.
  - simpl in Hx. injection Hx as <-. apply good_fail_same. exact PB_refl.
  - simpl in Hx. injection Hx as <-. destruct (in_empty c); [apply good_ok_same | apply good_fail_same]; exact PB_refl.
  - destruct pk; try discriminate H. cbn [eval_atom] in Hx. injection Hx as <-.
    destruct (in_empty c) eqn:E; [apply good_fail_same; exact PB_refl|]. apply in_empty_size in E.
    destruct (bump_scan_some (eol_ch eol) 1 c E) as [c' Hc]. change (good PB m c (ok_or_err (bump_scan (eol_ch eol) 1 c))). rewrite Hc. simpl. eapply bump_scan_PB; eauto.
  - destruct found; destruct pk; try discriminate H; simpl in Hx; injection Hx as <-; apply ptb_char_PB.
  - destruct found; destruct pk; try discriminate H. simpl in Hx. injection Hx as <-. apply ptb_char_PB.
  - simpl in Hx. injection Hx as <-.
    destruct (length cs <=? in_size c)%nat eqn:E; [|apply good_fail_same; exact PB_refl]. apply Nat.leb_le in E.
    destruct (take_some (length cs) (rest c) E) as [bs Hbs]. rewrite Hbs.
    destruct (eqb_bytes cs bs); [apply bump_help_PB; exact E | apply good_fail_same; exact PB_refl].
Qed.

(* outcome of the engine against a verdict predicate of the formalism; t = total of the cursor the
   evaluation started from (bytes to read + bytes read): the raise position p and the remaining input s0
   where the raising attempt began satisfy  t <= pbyte p + |s0|,  i.e. p is at or after the begin of
   the attempt (must<R> raises where R left the cursor, which is past the begin when R fails late) *)
Definition cres (t : N) (o : outcome) (c' : cursor) (R : sres -> Prop) : Prop :=
  match o with
  | Ok => R (ROk (rest c'))
  | Fail => R RFail
  | Exc e => exists w p s0, e = EParse (WRule w) p /\ R (RRaise w s0) /\ t <= pbyte p + N.of_nat (length s0)
  end.
Lemma cres_mono t o c' (R R' : sres -> Prop) : (forall x, R x -> R' x) -> cres t o c' R -> cres t o c' R'.
Proof.
  intros H. destruct o as [| |e]; simpl; auto.
  intros [w [p [s0 [He [Hr Hp]]]]]. exists w, p, s0. auto.
Qed.
Lemma cres_cur t o c2 c' (R : sres -> Prop) : cres t o c2 R -> (o = Ok -> c' = c2) -> cres t o c' R.
Proof. intros K E. destruct o as [| |e]; simpl in *; auto. rewrite (E eq_refl). exact K. Qed.
Lemma cres_T t t' o c' (R : sres -> Prop) : t = t' -> cres t o c' R -> cres t' o c' R.
Proof. intros ->. auto. Qed.

(* ---------- atoms ---------- *)
Lemma atom_sound C ev n self h a d c x : atom_den h a -> bytes_ok (rest c) ->
  eval_head C ev n self h [] d c = x -> exists v, vres x = Some v /\ Peg [] a (rest c) v.
Proof.
  intros [_ H] Hb Hx. unfold den_node in H. cbn [nhead nsubs] in H. unfold eval_head in Hx.
  destruct h; try discriminate H.
  - (* success *) destruct a; try discriminate H. simpl in Hx. subst x. eexists. split; [reflexivity | constructor].
  - (* failure *) destruct a; try discriminate H. simpl in Hx. subst x. eexists. split; [reflexivity | constructor].
  - (* eof *) destruct a; try discriminate H.
    destruct (eval_atom (ceol C) HEof c) as [y|] eqn:Ea; [|discriminate Ea]. subst y.
    eexists. split; [exact (eof_verdict _ _ _ Ea) | apply P_eof].
  - (* any *) destruct pk; try discriminate H. destruct a; try discriminate H.
    destruct (eval_atom (ceol C) (HAny PkChar) c) as [y|] eqn:Ea; [|discriminate Ea]. subst y.
    eexists. split; [exact (any_verdict _ _ _ Ea) | apply P_any].
  - (* one / not_one *)
    destruct found; destruct pk; try discriminate H; destruct a; try discriminate H;
    apply andb_true_iff in H; destruct H as [Hz Hs]; apply eqb_zs_eq in Hz; subst cs; simpl in Hx; subst x.
    + eexists. split; [|apply P_one].
      apply (ptb_char (eol_ch (ceol C)) (test_one_set true (map Z.of_N cs0)) (fun b => mem b cs0) c Hb).
      intros b Hb'. exact (eq_trans (test_set_mem true cs0 b Hb' Hs) (eqb_true_r _)).
    + eexists. split; [|apply P_not_one].
      apply (ptb_char (eol_ch (ceol C)) (test_one_set false (map Z.of_N cs0)) (fun b => negb (mem b cs0)) c Hb).
      intros b Hb'. rewrite (test_set_mem false cs0 b Hb' Hs). destruct (mem b cs0); reflexivity.
  - (* range *)
    destruct found; destruct pk; try discriminate H. destruct a; try discriminate H.
    apply andb_true_iff in H. destruct H as [H Hh2]. apply andb_true_iff in H. destruct H as [H Hl2].
    apply andb_true_iff in H. destruct H as [Hz1 Hz2]. apply Z.eqb_eq in Hz1, Hz2. subst lo hi.
    apply N.ltb_lt in Hl2, Hh2. simpl in Hx. subst x.
    eexists. split; [|apply P_range].
    apply (ptb_char (eol_ch (ceol C)) (test_one_range true (Z.of_N lo0) (Z.of_N hi0)) (fun b => (lo0 <=? b) && (b <=? hi0)) c Hb).
    intros b Hb'. exact (test_range_mem lo0 hi0 b Hb' Hl2 Hh2).
  - (* string *)
    destruct a; try discriminate H. apply eqb_ns_eq in H. subst cs.
    destruct (eval_atom (ceol C) (HString cs0) c) as [y|] eqn:Ea; [|discriminate Ea]. subst y.
    eexists. split; [exact (string_verdict _ _ _ _ Ea) | apply P_string].
Qed.

Lemma Forall_one {A} (P : A -> Prop) a : Forall P [a] -> P a.
Proof. intros H. inversion H; assumption. Qed.
Lemma Forall_two {A} (P : A -> Prop) a b : Forall P [a; b] -> P a /\ P b.
Proof. intros H. inversion H as [|? ? H1 H2]; subst. inversion H2; subst. auto. Qed.

Section Raise.
Variable G : grammar.
Variable C : cfg.
Hypothesis HG : table_wf G.
Hypothesis Hacts : forall fam r, void_ak (acts C fam r).
Hypothesis Habeh : forall fam r b e, exists x, abeh C fam r b e = ARet x.
Hypothesis Hrof : forall k r, raise_on_failure C k r = false.
Hypothesis Hcm : cm_table G.

Definition concl (r : rid) (c : cursor) (o : outcome) (c' : cursor) : Prop :=
  cres (T c) o c' (RPeg G r (rest c)).

Lemma cm_okh : forall r nd, nth_error G r = Some nd -> okh (nhead nd).
Proof.
  intros r nd Hn. pose proof (Hcm r nd Hn) as Hk. unfold cm_node in Hk. destruct Hk as [_ Hk]. unfold okh.
  destruct (nhead nd); try (right; exact (proj2 Hk)); left; intros eol c; reflexivity.
Qed.

Lemma ev_T f d r c o c1 evs : eval G C f d r c = Res o c1 evs -> T c1 = T c /\ pbyte (cpos c) <= pbyte (cpos c1).
Proof.
  intros H.
  pose proof (eval_good PB PB_refl PB_trans C okh (fun n c0 c0' H0 => bump_scan_PB _ n c0 c0' H0)
                (fun h c0 x m Ho Hx => atom_PB _ h c0 x m Ho Hx) G cm_okh f d r c) as K.
  rewrite H in K. destruct o as [| |ex]; simpl in K.
  - apply adv_T; exact K.
  - destruct (dM d); [subst c1; split; [reflexivity | lia] | apply adv_T; exact K].
  - apply adv_T; exact K.
Qed.

(* a must<> node never fails locally *)
Lemma must_node_nofail f d r c c' evs : must_node G r -> eval G C f d r c <> Res Fail c' evs.
Proof.
  intros [nd [r1 [Hn [Hh Hs]]]] H. destruct f as [|f]; [discriminate H|].
  destruct (eval_unfold G C Hacts Habeh Hrof _ _ _ _ _ _ _ _ Hn H) as [d' [c1 [evs1 [Hh1 _]]]].
  rewrite Hh, Hs in Hh1. unfold eval_head in Hh1. simpl in Hh1. unfold h_must in Hh1.
  destruct (eval G C f (opt_ d') r1 c) as [[| |ex] c2 e2| |] eqn:E; discriminate Hh1.
Qed.

Lemma seq_all_nofail f rs : Forall (must_node G) rs -> forall d c c' evs,
  seq_all (eval G C f) d rs c <> Res Fail c' evs.
Proof.
  induction 1 as [|r rs Hr Hrs IHrs]; intros d c c' evs H; [discriminate H|].
  rewrite seq_all_cons in H. unfold bind in H.
  destruct (eval G C f d r c) as [[| |ex] c1 e1| |] eqn:E; try discriminate H.
  - destruct (seq_all (eval G C f) d rs c1) as [o2 c2 e2| |] eqn:E2; try discriminate H.
    simpl in H. inversion H; subst. exact (IHrs _ _ _ _ E2).
  - exact (must_node_nofail _ _ _ _ _ _ Hr E).
Qed.

Lemma must_like_nofail f d m c c' evs : must_like G m -> eval G C f d m c <> Res Fail c' evs.
Proof.
  intros [nd [Hn Hk]] H. destruct Hk as [[Hh [r1 Hs]] | [[Hh Hs] | [Hh [Hne Hall]]]].
  - assert (Hm : must_node G m) by (exists nd, r1; auto). exact (must_node_nofail _ _ _ _ _ _ Hm H).
  - destruct f as [|f]; [discriminate H|].
    destruct (eval_unfold G C Hacts Habeh Hrof _ _ _ _ _ _ _ _ Hn H) as [d' [c1 [evs1 [Hh1 _]]]].
    rewrite Hh, Hs in Hh1. unfold eval_head in Hh1. simpl in Hh1. discriminate Hh1.
  - destruct f as [|f]; [discriminate H|].
    destruct (eval_unfold G C Hacts Habeh Hrof _ _ _ _ _ _ _ _ Hn H) as [d' [c1 [evs1 [Hh1 _]]]].
    rewrite Hh in Hh1. unfold eval_head in Hh1. simpl in Hh1. unfold h_seq in Hh1.
    destruct (nsubs nd) as [|r1 [|r2 rs]] eqn:Es; [congruence | |].
    + inversion Hall as [|? ? Hm1 _]; subst. exact (must_node_nofail _ _ _ _ _ _ Hm1 Hh1).
    + apply guard_inv in Hh1. destruct Hh1 as [c2 [Hh1 _]]. exact (seq_all_nofail _ _ Hall _ _ _ _ Hh1).
Qed.

Section Step.
Variable f : nat.
(* induction hypothesis: the statement for the sub-evaluations (fuel f) *)
Hypothesis IH : forall d r c o c' evs, (r < length G)%nat -> bytes_ok (rest c) ->
  eval G C f d r c = Res o c' evs -> concl r c o c'.

Lemma seq_sound rs : forall d c o c' evs, Forall (fun r1 => (r1 < length G)%nat) rs -> bytes_ok (rest c) ->
  seq_all (eval G C f) d rs c = Res o c' evs -> cres (T c) o c' (RSeq G rs (rest c)).
Proof.
  induction rs as [|r rs IHrs]; intros d c o c' evs Hcl Hb H.
  - simpl in H. inversion H; subst. simpl. apply RS_nil.
  - inversion Hcl as [|? ? Hl Hls]; subst. rewrite seq_all_cons in H. unfold bind in H.
    destruct (eval G C f d r c) as [[| |ex] c1 vs1| |] eqn:E; try discriminate H.
    + pose proof (IH _ _ _ _ _ _ Hl Hb E) as K1. unfold concl in K1. simpl in K1.
      destruct (seq_all (eval G C f) d rs c1) as [o2 c2 e2| |] eqn:E2; try discriminate H.
      simpl in H. inversion H; subst.
      assert (Hb1 : bytes_ok (rest c1)) by (eapply (ev_bytes G C HG); eauto; discriminate).
      pose proof (IHrs _ _ _ _ _ Hls Hb1 E2) as K2.
      eapply cres_mono; [|apply (cres_T (T c1)); [exact (proj1 (ev_T _ _ _ _ _ _ _ E)) | exact K2]].
      intros x Hx. eapply RS_ok; eauto.
    + inversion H; subst. pose proof (IH _ _ _ _ _ _ Hl Hb E) as K1. unfold concl in K1. simpl in *. apply RS_fail. exact K1.
    + inversion H; subst. pose proof (IH _ _ _ _ _ _ Hl Hb E) as K1. unfold concl in K1. simpl in *.
      destruct K1 as [w [p [s0 [He [Hr Hp]]]]]. exists w, p, s0. split; [exact He | split; [apply RS_raise; exact Hr | exact Hp]].
Qed.

Lemma sor_one r c o c' : concl r c o c' -> cres (T c) o c' (RSor G [r] (rest c)).
Proof.
  unfold concl. destruct o as [| |ex]; simpl.
  - intros K. eapply RO_ok; exact K.
  - intros K. apply RO_next; [exact K | apply RO_nil].
  - intros [w [p [s0 [He [Hr Hp]]]]]. exists w, p, s0. split; [exact He | split; [apply RO_raise; exact Hr | exact Hp]].
Qed.

Lemma sor_sound rs : forall d c o c' evs, Forall (fun r1 => (r1 < length G)%nat) rs -> bytes_ok (rest c) ->
  sor_any (eval G C f) d rs c = Res o c' evs -> cres (T c) o c' (RSor G rs (rest c)).
Proof.
  induction rs as [|r rs IHrs]; intros d c o c' evs Hcl Hb H.
  - simpl in H. inversion H; subst. simpl. apply RO_nil.
  - inversion Hcl as [|? ? Hl Hls]; subst. destruct rs as [|r2 rs'].
    + simpl in H. apply sor_one. eapply IH; eauto.
    + change (sor_any (eval G C f) d (r :: r2 :: rs') c) with
        (match eval G C f (req d) r c with Res Fail c1 vs1 => prepend vs1 (sor_any (eval G C f) d (r2 :: rs') c1) | x => x end) in H.
      destruct (eval G C f (req d) r c) as [[| |ex] c1 vs1| |] eqn:E; try discriminate H.
      * inversion H; subst. pose proof (IH _ _ _ _ _ _ Hl Hb E) as K1. unfold concl in K1. simpl in *. eapply RO_ok; exact K1.
      * pose proof (ev_req_fail G C HG _ _ _ _ _ _ E) as Ec. subst c1.
        destruct (sor_any (eval G C f) d (r2 :: rs') c) as [o2 c2 e2| |] eqn:E2; try discriminate H.
        simpl in H. inversion H; subst.
        pose proof (IH _ _ _ _ _ _ Hl Hb E) as K1. unfold concl in K1. simpl in K1.
        pose proof (IHrs _ _ _ _ _ Hls Hb E2) as K2.
        eapply cres_mono; [|exact K2]. intros x Hx. apply RO_next; assumption.
      * inversion H; subst. pose proof (IH _ _ _ _ _ _ Hl Hb E) as K1. unfold concl in K1. simpl in *.
        destruct K1 as [w [p [s0 [He [Hr Hp]]]]]. exists w, p, s0. split; [exact He | split; [apply RO_raise; exact Hr | exact Hp]].
Qed.

Lemma star_sound k : forall d r1 c o c' evs, (r1 < length G)%nat -> bytes_ok (rest c) ->
  star_loop (eval G C f) k d [r1] c = Res o c' evs -> cres (T c) o c' (RStar G r1 (rest c)).
Proof.
  induction k as [|k IHk]; intros d r1 c o c' evs Hl Hb H; [discriminate H|].
  cbn [star_loop seq_all] in H. unfold bind in H.
  destruct (eval G C f (req d) r1 c) as [[| |ex] c1 e1| |] eqn:E; try discriminate H.
  - simpl in H. rewrite app_nil_r in H.
    destruct (star_loop (eval G C f) k d [r1] c1) as [o2 c2 e2| |] eqn:E2; try discriminate H.
    simpl in H. inversion H; subst.
    assert (Hb1 : bytes_ok (rest c1)) by (eapply (ev_bytes G C HG); eauto; discriminate).
    pose proof (IH _ _ _ _ _ _ Hl Hb E) as K1. unfold concl in K1. simpl in K1.
    pose proof (IHk _ _ _ _ _ _ Hl Hb1 E2) as K2.
    eapply cres_mono; [|apply (cres_T (T c1)); [exact (proj1 (ev_T _ _ _ _ _ _ _ E)) | exact K2]].
    intros x Hx. eapply RT_step; eauto.
  - pose proof (ev_req_fail G C HG _ _ _ _ _ _ E) as Ec. subst c1. inversion H; subst.
    pose proof (IH _ _ _ _ _ _ Hl Hb E) as K1. unfold concl in K1. simpl in *. apply RT_end. exact K1.
  - inversion H; subst. pose proof (IH _ _ _ _ _ _ Hl Hb E) as K1. unfold concl in K1. simpl in *.
    destruct K1 as [w [p [s0 [He [Hr Hp]]]]]. exists w, p, s0. split; [exact He | split; [apply RT_raise; exact Hr | exact Hp]].
Qed.

(* one node, given that its sub-rules satisfy IH *)
Lemma node_sound nd d r c o c' evs : nth_error G r = Some nd -> bytes_ok (rest c) ->
  eval G C (S f) d r c = Res o c' evs -> concl r c o c'.
Proof.
  intros Hn Hb H.
  destruct (eval_unfold G C Hacts Habeh Hrof _ _ _ _ _ _ _ _ Hn H) as [d' [c1 [evs1 [Hh [Hc _]]]]]. clear H.
  pose proof (Hcm r nd Hn) as Hk. unfold cm_node in Hk. destruct Hk as [Hcl Hk]. unfold concl.
  destruct (nhead nd) eqn:Eh;
  try (destruct Hk as [Hs [a Ha]]; rewrite Hs in Hh;
       destruct (atom_sound _ _ _ _ _ _ _ _ _ Ha Hb Hh) as [v [Hv Hp]];
       rewrite <- Eh in Ha;
       pose proof (RP_atom G r nd a (rest c) v Hn Hs Ha Hp) as K;
       destruct o as [| |ex]; simpl in Hv; inversion Hv; subst v; simpl in K; simpl;
       [rewrite (Hc eq_refl); exact K | exact K]; fail).
  - (* seq *) unfold eval_head in Hh. simpl in Hh. unfold h_seq in Hh.
    eapply cres_mono; [intros x Hx; exact (RP_seq G r nd (rest c) x Hn Eh Hk Hx)|].
    destruct (nsubs nd) as [|r1 [|r2 rs]] eqn:Es; [congruence | |].
    + apply Forall_one in Hcl. rename Hcl into Hl. pose proof (IH _ _ _ _ _ _ Hl Hb Hh) as K1. unfold concl in K1.
      eapply cres_cur; [|exact Hc].
      destruct o as [| |ex]; simpl in *.
      * eapply RS_ok; [exact K1 | apply RS_nil].
      * apply RS_fail; exact K1.
      * destruct K1 as [w [p [s0 [He [Hr Hp]]]]]. exists w, p, s0. split; [exact He | split; [apply RS_raise; exact Hr | exact Hp]].
    + apply guard_inv in Hh. destruct Hh as [c2 [Hh Hc2]].
      eapply cres_cur; [eapply seq_sound; eauto|]. intros E. rewrite (Hc E). symmetry. apply Hc2. exact E.
  - (* sor *) unfold eval_head in Hh. simpl in Hh.
    eapply cres_mono; [intros x Hx; exact (RP_sor G r nd (rest c) x Hn Eh Hk Hx)|].
    eapply cres_cur; [eapply sor_sound; eauto | exact Hc].
  - (* star *) destruct Hk as [r1 Hs]. rewrite Hs in Hh, Hcl. apply Forall_one in Hcl. rename Hcl into Hl. unfold eval_head in Hh. simpl in Hh.
    eapply cres_mono; [intros x Hx; exact (RP_star G r nd r1 (rest c) x Hn Eh Hs Hx)|].
    eapply cres_cur; [eapply star_sound; eauto | exact Hc].
  - (* plus *) destruct Hk as [r1 Hs]. rewrite Hs in Hh, Hcl. apply Forall_one in Hcl. rename Hcl into Hl. unfold eval_head in Hh. simpl in Hh.
    unfold h_plus, bind in Hh.
    destruct (eval G C f d' r1 c) as [[| |ex] c2 e2| |] eqn:E; try discriminate Hh.
    + destruct (star_loop (eval G C f) f d' [r1] c2) as [o3 c3 e3| |] eqn:E3; try discriminate Hh.
      simpl in Hh. inversion Hh; subst.
      assert (Hb2 : bytes_ok (rest c2)) by (eapply (ev_bytes G C HG); eauto; discriminate).
      pose proof (IH _ _ _ _ _ _ Hl Hb E) as K1. unfold concl in K1. simpl in K1.
      pose proof (star_sound _ _ _ _ _ _ _ Hl Hb2 E3) as K2.
      eapply cres_cur; [|exact Hc].
      eapply cres_mono; [|apply (cres_T (T c2)); [exact (proj1 (ev_T _ _ _ _ _ _ _ E)) | exact K2]].
      intros x Hx. exact (RP_plus_step G r nd r1 (rest c) (rest c2) x Hn Eh Hs K1 Hx).
    + inversion Hh; subst. pose proof (IH _ _ _ _ _ _ Hl Hb E) as K1. unfold concl in K1. simpl in *.
      exact (RP_plus_fail G r nd r1 (rest c) Hn Eh Hs K1).
    + inversion Hh; subst. pose proof (IH _ _ _ _ _ _ Hl Hb E) as K1. unfold concl in K1. simpl in *.
      destruct K1 as [w [p [s0 [He [Hr Hp]]]]]. exists w, p, s0. split; [exact He|]. split; [|exact Hp].
      exact (RP_plus_raise G r nd r1 (rest c) w s0 Hn Eh Hs Hr).
  - (* opt *) destruct Hk as [r1 Hs]. rewrite Hs in Hh, Hcl. apply Forall_one in Hcl. rename Hcl into Hl. unfold eval_head in Hh. simpl in Hh.
    unfold h_partial in Hh. cbn [seq_all] in Hh. unfold bind in Hh.
    destruct (eval G C f (req d') r1 c) as [[| |ex] c2 e2| |] eqn:E; try discriminate Hh.
    + simpl in Hh. inversion Hh; subst. pose proof (IH _ _ _ _ _ _ Hl Hb E) as K1. unfold concl in K1. simpl in *.
      rewrite (Hc eq_refl). exact (RP_opt_ok G r nd r1 (rest c) (rest c1) Hn Eh Hs K1).
    + pose proof (ev_req_fail G C HG _ _ _ _ _ _ E) as Ec. subst c2. inversion Hh; subst.
      pose proof (IH _ _ _ _ _ _ Hl Hb E) as K1. unfold concl in K1. simpl in *.
      rewrite (Hc eq_refl). exact (RP_opt_none G r nd r1 (rest c1) Hn Eh Hs K1).
    + inversion Hh; subst. pose proof (IH _ _ _ _ _ _ Hl Hb E) as K1. unfold concl in K1. simpl in *.
      destruct K1 as [w [p [s0 [He [Hr Hp]]]]]. exists w, p, s0. split; [exact He|]. split; [|exact Hp].
      exact (RP_opt_raise G r nd r1 (rest c) w s0 Hn Eh Hs Hr).
  - (* at *) destruct Hk as [r1 Hs]. rewrite Hs in Hh, Hcl. apply Forall_one in Hcl. rename Hcl into Hl. unfold eval_head in Hh. simpl in Hh.
    unfold h_at in Hh. apply look_inv in Hh. destruct Hh as [Ec Hx]. subst c1.
    destruct (eval G C f (set_A (opt_ d') false) r1 c) as [[| |ex] c2 e2| |] eqn:E; try contradiction;
    pose proof (IH _ _ _ _ _ _ Hl Hb E) as K1; unfold concl in K1; subst o; simpl in *.
    + rewrite (Hc eq_refl). exact (RP_at_ok G r nd r1 (rest c) (rest c2) Hn Eh Hs K1).
    + exact (RP_at_fail G r nd r1 (rest c) Hn Eh Hs K1).
    + destruct K1 as [w [p [s0 [He [Hr Hp]]]]]. exists w, p, s0. split; [exact He|]. split; [|exact Hp].
      exact (RP_at_raise G r nd r1 (rest c) w s0 Hn Eh Hs Hr).
  - (* not_at *) destruct Hk as [r1 Hs]. rewrite Hs in Hh, Hcl. apply Forall_one in Hcl. rename Hcl into Hl. unfold eval_head in Hh. simpl in Hh.
    unfold h_at in Hh. apply look_inv in Hh. destruct Hh as [Ec Hx]. subst c1.
    destruct (eval G C f (set_A (opt_ d') false) r1 c) as [[| |ex] c2 e2| |] eqn:E; try contradiction;
    pose proof (IH _ _ _ _ _ _ Hl Hb E) as K1; unfold concl in K1; subst o; simpl in *.
    + exact (RP_not_at_ok G r nd r1 (rest c) (rest c2) Hn Eh Hs K1).
    + rewrite (Hc eq_refl). exact (RP_not_at_fail G r nd r1 (rest c) Hn Eh Hs K1).
    + destruct K1 as [w [p [s0 [He [Hr Hp]]]]]. exists w, p, s0. split; [exact He|]. split; [|exact Hp].
      exact (RP_not_at_raise G r nd r1 (rest c) w s0 Hn Eh Hs Hr).
  - (* if_must *) destruct Hk as [cnd [m [Hs Hm]]]. rewrite Hs in Hh, Hcl. apply Forall_two in Hcl. destruct Hcl as [Hl Hl2]. unfold eval_head in Hh. simpl in Hh.
    unfold h_if_must in Hh.
    destruct (eval G C f (if dflt then req d' else d') cnd c) as [[| |ex] c2 e2| |] eqn:E; try discriminate Hh.
    + (* condition ok *)
      pose proof (IH _ _ _ _ _ _ Hl Hb E) as K1. unfold concl in K1. simpl in K1.
      assert (Hb2 : bytes_ok (rest c2)) by (eapply (ev_bytes G C HG); eauto; discriminate).
      destruct (eval G C f d' m c2) as [[| |ex] c3 e3| |] eqn:E3; try discriminate Hh.
      * simpl in Hh. inversion Hh; subst. pose proof (IH _ _ _ _ _ _ Hl2 Hb2 E3) as K2. unfold concl in K2. simpl in *.
        rewrite (Hc eq_refl). exact (RP_ifmust_ok G r nd dflt cnd m (rest c) (rest c2) (rest c1) Hn Eh Hs K1 K2).
      * exfalso. exact (must_like_nofail _ _ _ _ _ _ Hm E3).
      * simpl in Hh. inversion Hh; subst. pose proof (IH _ _ _ _ _ _ Hl2 Hb2 E3) as K2. unfold concl in K2. simpl in *.
        destruct K2 as [w [p [s0 [He [Hr Hp]]]]]. exists w, p, s0. split; [exact He|].
        pose proof (proj1 (ev_T _ _ _ _ _ _ _ E)) as Et. split; [|unfold T in *; lia].
        exact (RP_ifmust_raise G r nd dflt cnd m (rest c) (rest c2) w s0 Hn Eh Hs K1 Hr).
    + (* condition fails *)
      pose proof (IH _ _ _ _ _ _ Hl Hb E) as K1. unfold concl in K1. simpl in K1.
      pose proof (RP_ifmust_cfail G r nd dflt cnd m (rest c) Hn Eh Hs K1) as K.
      destruct dflt.
      * pose proof (ev_req_fail G C HG _ _ _ _ _ _ E) as Ec. subst c2. inversion Hh; subst.
        simpl. rewrite (Hc eq_refl). exact K.
      * inversion Hh; subst. simpl. exact K.
    + (* condition raises *)
      inversion Hh; subst. pose proof (IH _ _ _ _ _ _ Hl Hb E) as K1. unfold concl in K1. simpl in *.
      destruct K1 as [w [p [s0 [He [Hr Hp]]]]]. exists w, p, s0. split; [exact He|]. split; [|exact Hp].
      exact (RP_ifmust_craise G r nd dflt cnd m (rest c) w s0 Hn Eh Hs Hr).
  - (* must *) destruct Hk as [r1 Hs]. rewrite Hs in Hh, Hcl. apply Forall_one in Hcl. rename Hcl into Hl. unfold eval_head in Hh. simpl in Hh.
    unfold h_must in Hh.
    destruct (eval G C f (opt_ d') r1 c) as [[| |ex] c2 e2| |] eqn:E; try discriminate Hh.
    + inversion Hh; subst. pose proof (IH _ _ _ _ _ _ Hl Hb E) as K1. unfold concl in K1. simpl in *.
      rewrite (Hc eq_refl). exact (RP_must_ok G r nd r1 (rest c) (rest c1) Hn Eh Hs K1).
    + unfold raise_at in Hh. inversion Hh; subst.
      pose proof (IH _ _ _ _ _ _ Hl Hb E) as K1. unfold concl in K1. simpl in *.
      exists r1, (cpos c1), (rest c). split; [reflexivity|].
      split; [exact (RP_must_fail G r nd r1 (rest c) Hn Eh Hs K1)|].
      pose proof (proj2 (ev_T _ _ _ _ _ _ _ E)) as Et. unfold T. lia.
    + inversion Hh; subst. pose proof (IH _ _ _ _ _ _ Hl Hb E) as K1. unfold concl in K1. simpl in *.
      destruct K1 as [w [p [s0 [He [Hr Hp]]]]]. exists w, p, s0. split; [exact He|]. split; [|exact Hp].
      exact (RP_must_raise G r nd r1 (rest c) w s0 Hn Eh Hs Hr).
  - (* raise *) destruct Hk as [t Hs]. rewrite Hs in Hh. unfold eval_head in Hh. simpl in Hh.
    unfold raise_at in Hh. inversion Hh; subst. simpl.
    exists t, (cpos c1), (rest c1). split; [reflexivity|].
    split; [exact (RP_raise G r nd t (rest c1) Hn Eh Hs) | unfold T; lia].
Qed.
End Step.

Theorem raise_sound_sec : forall f d r c o c' evs, (r < length G)%nat -> bytes_ok (rest c) ->
  eval G C f d r c = Res o c' evs -> concl r c o c'.
Proof.
  induction f as [|f IHf]; intros d r c o c' evs Hl Hb H; [discriminate H|].
  destruct (nth_error G r) as [nd|] eqn:Hn.
  - eapply (node_sound f IHf); eauto.
  - apply nth_error_None in Hn. lia.
Qed.
End Raise.

(* ---------- C05, soundness half of the identity ---------- *)
Theorem raise_sound : forall G C, table_wf G -> void_cfg C -> cm_table G ->
  forall f d r c o c' evs, (r < length G)%nat -> bytes_ok (rest c) -> eval G C f d r c = Res o c' evs ->
  match o with
  | Ok => RPeg G r (rest c) (ROk (rest c'))
  | Fail => RPeg G r (rest c) RFail
  | Exc e => exists who p s0, e = EParse (WRule who) p /\ RPeg G r (rest c) (RRaise who s0)
  end.
Proof.
  intros G C HG [H1 [H2 H3]] Hcm f d r c o c' evs Hl Hb H.
  pose proof (raise_sound_sec G C HG H1 H2 H3 Hcm f d r c o c' evs Hl Hb H) as K.
  unfold concl, cres in K. destruct o as [| |ex]; try exact K.
  destruct K as [w [p [s0 [He [Hr _]]]]]. exists w, p, s0. auto.
Qed.

(* the same with the position link: the reported position p lies at or after the place where the
   blamed attempt began (s0 = the remaining input there); both sides count bytes from the same origin *)
Theorem raise_sound_pos : forall G C, table_wf G -> void_cfg C -> cm_table G ->
  forall f d r c o c' evs, (r < length G)%nat -> bytes_ok (rest c) -> eval G C f d r c = Res o c' evs ->
  match o with
  | Ok => RPeg G r (rest c) (ROk (rest c'))
  | Fail => RPeg G r (rest c) RFail
  | Exc e => exists who p s0, e = EParse (WRule who) p /\ RPeg G r (rest c) (RRaise who s0) /\
               N.of_nat (length (rest c)) + pbyte (cpos c) <= pbyte p + N.of_nat (length s0)
  end.
Proof.
  intros G C HG [H1 [H2 H3]] Hcm f d r c o c' evs Hl Hb H.
  pose proof (raise_sound_sec G C HG H1 H2 H3 Hcm f d r c o c' evs Hl Hb H) as K.
  unfold concl, cres, T in K. destruct o; exact K.
Qed.

(* ---------- worked example: seq< one<'a'>, must< one<'b'> > > on "ac" ---------- *)
Definition ex_G : grammar :=
  [ mknode HSeq [1%nat; 2%nat] true;
    mknode (HOne true PkChar [97%Z]) [] true;
    mknode HMust [3%nat] false;
    mknode (HOne true PkChar [98%Z]) [] true ].
Definition ex_C : cfg :=
  mkcfg EolLfCrlf (fun _ _ => AKNone) (fun _ _ _ _ => ARet true) (fun _ _ _ => ARet true) (fun _ => true) (fun _ _ => false).

Example raise_sound_example :
  (exists c' evs, run ex_G ex_C 20 (mkdyn true true 0 0 0) 0%nat [97; 99] pos0
                  = Res (Exc (EParse (WRule 3%nat) (mkpos 1 1 2))) c' evs) /\
  RPeg ex_G 0%nat [97; 99] (RRaise 3%nat [99]).
Proof.
  split.
  - eexists. eexists. vm_compute. reflexivity.
  - eapply RP_seq; [reflexivity | reflexivity | discriminate |]. cbn [nsubs].
    apply (RS_ok ex_G 1%nat [2%nat] [97; 99] [99]).
    + change (ROk [99]) with (lift (Some [99])).
      eapply (RP_atom ex_G 1%nat _ (SOne [97])); [reflexivity | reflexivity | split; reflexivity |].
      exact (P_one [] [97] [97; 99]).
    + apply RS_raise.
      eapply RP_must_fail; [reflexivity | reflexivity | reflexivity |].
      change RFail with (lift None).
      eapply (RP_atom ex_G 3%nat _ (SOne [98])); [reflexivity | reflexivity | split; reflexivity |].
      exact (P_one [] [98] [99]).
Qed.

Lemma ex_G_cm : cm_table ex_G.
Proof.
  intros r nd H. destruct r as [|[|[|[|r]]]]; simpl in H; try (destruct r; discriminate H); inversion H; subst; unfold cm_node; simpl.
  - split; [repeat constructor | discriminate].
  - split; [constructor|]. split; [reflexivity|]. exists (SOne [97]). split; reflexivity.
  - split; [repeat constructor|]. exists 3%nat. reflexivity.
  - split; [constructor|]. split; [reflexivity|]. exists (SOne [98]). split; reflexivity.
Qed.

Print Assumptions raise_sound.
Print Assumptions raise_sound_pos.
Print Assumptions RPeg_det.
Print Assumptions RPeg_suffix.
Print Assumptions RPeg_raise_suffix.
Print Assumptions raise_sound_example.
