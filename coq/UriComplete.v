(* UriComplete.v — completeness of the engine on a PEG table against its regular reading, under
   side conditions that are checked by computation on regular expressions (RegexQuot.v):
   for a node r with regular reading R and a continuation language K,
       rest c in R.K  ->  the engine succeeds on r and leaves a rest in K            (CmpR)
   provided every ordered choice / option / bounded repetition inside r is "prefix-safe" w.r.t. what may
   follow (an earlier alternative that matches a prefix of a string of a later one leaves a rest that is
   still in K; a not_at / maximum_rule is never followed by what it forbids).  The fragment covered is the
   one uri::IPv4address and uri::IPv6address use: atoms, seq, sor, opt, rep, rep_opt, rep_min_max over a
   byte class, the maximum_rule leaf, eof.  No star / must (those need termination and no-raise arguments). *)
From Coq Require Import List NArith ZArith Bool Lia.
From PegtlV Require Import Base Decode Grammar Engine EngineFacts AtomFacts Mono Spec ExactSound Integer IntegerSpec.
From PegtlV Require IntegerFacts.
From PegtlV Require Import Regex RegexIncl RegexQuot Rfc3986 UriModel UriProof.
Import ListNotations.
Local Open Scope N_scope.

(* verdict of a result: Some (Some c') = true with cursor c', Some None = false, None = anything else *)
Definition ov (x : result) : option (option cursor) :=
  match x with Res Ok c _ => Some (Some c) | Res Fail _ _ => Some None | _ => None end.

Lemma ov_prepend evs x : ov (prepend evs x) = ov x.
Proof. destruct x as [[| |e] c e2| |]; reflexivity. Qed.
Lemma ov_guard m s x : ov (guard m s x) = ov x.
Proof. destruct x as [[| |e] c e2| |]; reflexivity. Qed.
Lemma ov_traced k r a m c x : ov (traced k r a m c x) = ov x.
Proof. destruct x as [[| |e] c1 e2| |]; reflexivity. Qed.
Lemma ov_match_hpp (body : dyn -> cursor -> result) d r c : ov (match_hpp C0 AKNone body d r c) = ov (body d c).
Proof.
  unfold match_hpp. assert (Eg : use_guard d AKNone = false) by (unfold use_guard; apply andb_false_r). rewrite Eg.
  destruct (body d c) as [[| |e] c1 evs| |]; try reflexivity.
  unfold run_action. destruct (dA d); reflexivity.
Qed.
Lemma ov_ok x c' : ov x = Some (Some c') -> exists evs, x = Res Ok c' evs.
Proof. destruct x as [[| |e] c e2| |]; simpl; intros H; inversion H; subst. eexists; reflexivity. Qed.
Lemma ov_fail x : ov x = Some None -> exists c evs, x = Res Fail c evs.
Proof. destruct x as [[| |e] c e2| |]; simpl; intros H; inversion H; subst. eexists; eexists; reflexivity. Qed.

Lemma bytes_ok_app_l (a b : list byte) : bytes_ok (a ++ b) -> bytes_ok a.
Proof. unfold bytes_ok. rewrite Forall_app. tauto. Qed.

Lemma strip_complete cs k : strip cs (cs ++ k) = Some k.
Proof. induction cs as [|c cs IH]; simpl; [reflexivity|]. rewrite N.eqb_refl. exact IH. Qed.
Lemma lits_inv cs : forall w, matches (fr (map lit cs)) w -> w = cs.
Proof.
  induction cs as [|c cs IH]; intros w H; simpl in H.
  - apply eps_inv in H. exact H.
  - apply cat_inv in H. destruct H as [a [b [-> [Ha Hb]]]]. apply chr_inv in Ha. destruct Ha as [x [-> Hx]].
    unfold cs_mem, in_range in Hx. simpl in Hx. rewrite orb_false_r in Hx. apply andb_true_iff in Hx. destruct Hx as [H1 H2].
    apply N.leb_le in H1. apply N.leb_le in H2. assert (x = c) by lia. subst x. simpl. f_equal. apply IH. exact Hb.
Qed.

Section Complete.
Variable G : grammar.
Variable MX : rid -> option (nat * N).
Hypothesis HG : table_wf G.

Definition Tot (f : nat) (r : rid) : Prop :=
  forall d c, bytes_ok (rest c) -> exists v, ov (evalx G C0 MX f d r c) = Some v.
Definition CmpR (f : nat) (r : rid) (R K : re) : Prop :=
  forall d c, bytes_ok (rest c) -> matches (Cat R K) (rest c) ->
    exists c', ov (evalx G C0 MX f d r c) = Some (Some c') /\ matches K (rest c').

Lemma ov_node f d r c nd : nth_error G r = Some nd ->
  ov (evalx G C0 MX (S f) d r c) =
  ov ((match MX r with
       | Some (w, mx) => fun (_ : dyn) (c' : cursor) => mx_result (maximum_rule w mx c' tt)
       | None => eval_head C0 (evalx G C0 MX f) f r (nhead nd) (nsubs nd)
       end) d c).
Proof.
  intros En. cbn [evalx]. rewrite En. rewrite ov_traced. change (acts C0 (dAct d) r) with AKNone. cbv iota.
  destruct (nenabled nd); [apply ov_match_hpp | reflexivity].
Qed.

(* ---------- helpers over an abstract sub-evaluator ---------- *)
Section Helpers.
Variable ev : dyn -> rid -> cursor -> result.
Hypothesis Hgood : forall d r c, goodT (dM d) c (ev d r c).

Definition SoundE (r : rid) (R : re) : Prop :=
  forall d c c' evs, bytes_ok (rest c) -> ev d r c = Res Ok c' evs -> exists pre, rest c = pre ++ rest c' /\ matches R pre.
Definition TotE (r : rid) : Prop := forall d c, bytes_ok (rest c) -> exists v, ov (ev d r c) = Some v.
Definition CmpE (r : rid) (R K : re) : Prop :=
  forall d c, bytes_ok (rest c) -> matches (Cat R K) (rest c) -> exists c', ov (ev d r c) = Some (Some c') /\ matches K (rest c').

Lemma ok_bytes d r c c' evs : ev d r c = Res Ok c' evs -> bytes_ok (rest c) -> bytes_ok (rest c').
Proof. intros E Hb. pose proof (Hgood d r c) as Gd. rewrite E in Gd. simpl in Gd. eapply bytes_ok_adv; eauto. Qed.
Lemma fail_req d r c c' evs : dM d = true -> ev d r c = Res Fail c' evs -> c' = c.
Proof. intros Hd E. pose proof (Hgood d r c) as Gd. rewrite E, Hd in Gd. exact Gd. Qed.

(* --- seq --- *)
Fixpoint SeqOK (rs : list rid) (Rs : list re) (K : re) : Prop :=
  match rs, Rs with
  | [], [] => True
  | r :: rs', R :: Rs' => CmpE r R (Cat (fr Rs') K) /\ SeqOK rs' Rs' K
  | _, _ => False
  end.

Lemma seq_all_cmp d : forall rs Rs K, SeqOK rs Rs K -> forall c, bytes_ok (rest c) -> matches (Cat (fr Rs) K) (rest c) ->
  exists c', ov (seq_all ev d rs c) = Some (Some c') /\ matches K (rest c').
Proof.
  induction rs as [|r rs IH]; intros Rs K Hs c Hb M; destruct Rs as [|R Rs]; simpl in Hs; try contradiction.
  - simpl in M. apply cat_inv in M. destruct M as [a [b [E [Ha Hbm]]]]. apply eps_inv in Ha. subst a. simpl in E.
    exists c. simpl. split; [reflexivity | rewrite E; exact Hbm].
  - destruct Hs as [H1 H2]. cbn [fr fold_right] in M.
    assert (M' : matches (Cat R (Cat (fr Rs) K)) (rest c)).
    { apply cat_inv in M. destruct M as [a [k [E [Ha Hk]]]]. apply cat_inv in Ha. destruct Ha as [a1 [a2 [-> [A1 A2]]]].
      rewrite E, <- app_assoc. apply MCat; [exact A1 | apply MCat; assumption]. }
    destruct (H1 d c Hb M') as [c1 [E1 M1]]. apply ov_ok in E1. destruct E1 as [e1 E1].
    cbn [seq_all]. rewrite E1. simpl. rewrite ov_prepend.
    apply (IH Rs K H2 c1); [eapply ok_bytes; eauto | exact M1].
Qed.

Lemma seq_all_tot d : forall rs, Forall TotE rs -> forall c, bytes_ok (rest c) -> exists v, ov (seq_all ev d rs c) = Some v.
Proof.
  induction rs as [|r rs IH]; intros Ht c Hb; cbn [seq_all]; [eexists; reflexivity|].
  inversion Ht as [|? ? T1 T2]; subst. destruct (T1 d c Hb) as [v Ev].
  destruct (ev d r c) as [[| |e] c1 e1| |] eqn:E; simpl in Ev; try discriminate.
  - simpl. rewrite ov_prepend. apply IH; [exact T2 | eapply ok_bytes; eauto].
  - simpl. eexists; reflexivity.
Qed.

(* --- sor --- *)
Fixpoint SorOK (rs : list rid) (Rs : list re) (K : re) : Prop :=
  match rs, Rs with
  | [], [] => True
  | r :: rs', R :: Rs' =>
      CmpE r R K /\ TotE r /\ SoundE r R /\
      (forall w t, bytes_ok (w ++ t) -> matches R w -> matches (Cat (fa Rs') K) (w ++ t) -> matches K t) /\
      SorOK rs' Rs' K
  | _, _ => False
  end.

Lemma sor_any_cmp d : forall rs Rs K, SorOK rs Rs K -> forall c, bytes_ok (rest c) -> matches (Cat (fa Rs) K) (rest c) ->
  exists c', ov (sor_any ev d rs c) = Some (Some c') /\ matches K (rest c').
Proof.
  induction rs as [|r rs IH]; intros Rs K Hs c Hb M; destruct Rs as [|R Rs]; simpl in Hs; try contradiction.
  - simpl in M. apply cat_inv in M. destruct M as [a [b [_ [Ha _]]]]. exfalso. eapply empty_inv; eauto.
  - destruct Hs as [Hc [Ht [Hsd [Hq Hrest]]]].
    cbn [fa fold_right] in M. apply cat_inv in M. destruct M as [a [k [E [Ha Hk]]]]. apply alt_inv in Ha.
    destruct rs as [|r2 rs'].
    + (* last alternative *)
      destruct Rs as [|? ?]; simpl in Hrest; try contradiction.
      destruct Ha as [Ha|Ha]; [|exfalso; simpl in Ha; eapply empty_inv; eauto].
      simpl. apply Hc; [exact Hb | rewrite E; apply MCat; assumption].
    + change (sor_any ev d (r :: r2 :: rs') c) with
        (match ev (req d) r c with Res Fail c' evs => prepend evs (sor_any ev d (r2 :: rs') c') | x => x end).
      destruct Ha as [Ha|Ha].
      * assert (M1 : matches (Cat R K) (rest c)) by (rewrite E; apply MCat; assumption).
        destruct (Hc (req d) c Hb M1) as [c1 [E1 K1]]. apply ov_ok in E1. destruct E1 as [e1 E1]. rewrite E1.
        exists c1. split; [reflexivity | exact K1].
      * destruct (Ht (req d) c Hb) as [v Ev].
        destruct (ev (req d) r c) as [[| |e] c1 e1| |] eqn:E1; simpl in Ev; try discriminate.
        -- destruct (Hsd (req d) c c1 e1 Hb E1) as [pre [Ep Mp]].
           exists c1. split; [reflexivity|]. apply (Hq pre (rest c1)); [rewrite <- Ep; exact Hb | exact Mp|].
           rewrite <- Ep, E. apply MCat; assumption.
        -- assert (c1 = c) by (eapply (fail_req (req d)); [reflexivity | exact E1]). subst c1.
           rewrite ov_prepend. apply (IH Rs K Hrest c Hb). rewrite E. apply MCat; assumption.
Qed.

Lemma sor_any_tot d : forall rs, Forall TotE rs -> forall c, bytes_ok (rest c) -> exists v, ov (sor_any ev d rs c) = Some v.
Proof.
  induction rs as [|r rs IH]; intros Ht c Hb; [simpl; eexists; reflexivity|].
  inversion Ht as [|? ? T1 T2]; subst.
  destruct rs as [|r2 rs']; [simpl; apply T1; exact Hb|].
  change (sor_any ev d (r :: r2 :: rs') c) with
    (match ev (req d) r c with Res Fail c' evs => prepend evs (sor_any ev d (r2 :: rs') c') | x => x end).
  destruct (T1 (req d) c Hb) as [v Ev].
  destruct (ev (req d) r c) as [[| |e] c1 e1| |] eqn:E1; simpl in Ev; try discriminate.
  - eexists; reflexivity.
  - assert (c1 = c) by (eapply (fail_req (req d)); [reflexivity | exact E1]). subst c1.
    rewrite ov_prepend. apply IH; assumption.
Qed.

(* --- opt< r > (partial with one sub-rule) --- *)
Lemma h_partial_cmp d r R K c : CmpE r R K -> TotE r -> SoundE r R ->
  (forall w t, bytes_ok (w ++ t) -> matches R w -> matches K (w ++ t) -> matches K t) ->
  bytes_ok (rest c) -> matches (Cat (Alt R Eps) K) (rest c) ->
  exists c', ov (h_partial ev d [r] c) = Some (Some c') /\ matches K (rest c').
Proof.
  intros Hc Ht Hs Hq Hb M. unfold h_partial. cbn [seq_all]. unfold bind.
  apply cat_inv in M. destruct M as [a [k [E [Ha Hk]]]]. apply alt_inv in Ha. destruct Ha as [Ha|Ha].
  - assert (M1 : matches (Cat R K) (rest c)) by (rewrite E; apply MCat; assumption).
    destruct (Hc (req d) c Hb M1) as [c1 [E1 K1]]. apply ov_ok in E1. destruct E1 as [e1 E1]. rewrite E1. simpl.
    exists c1. split; [reflexivity | exact K1].
  - apply eps_inv in Ha. subst a. simpl in E.
    destruct (Ht (req d) c Hb) as [v Ev].
    destruct (ev (req d) r c) as [[| |e] c1 e1| |] eqn:E1; simpl in Ev; try discriminate.
    + simpl. destruct (Hs (req d) c c1 e1 Hb E1) as [pre [Ep Mp]].
      exists c1. split; [reflexivity|]. apply (Hq pre (rest c1)); [rewrite <- Ep; exact Hb | exact Mp | rewrite <- Ep, E; exact Hk].
    + assert (c1 = c) by (eapply (fail_req (req d)); [reflexivity | exact E1]). subst c1.
      exists c. split; [reflexivity | rewrite E; exact Hk].
Qed.
Lemma h_partial_tot d r c : TotE r -> bytes_ok (rest c) -> exists v, ov (h_partial ev d [r] c) = Some v.
Proof.
  intros Ht Hb. unfold h_partial. cbn [seq_all]. unfold bind. destruct (Ht (req d) c Hb) as [v Ev].
  destruct (ev (req d) r c) as [[| |e] c1 e1| |]; simpl in Ev; try discriminate; simpl; eexists; reflexivity.
Qed.

(* --- rep< k, r > --- *)
Fixpoint RepOK (r : rid) (R : re) (k : nat) (K : re) : Prop :=
  match k with O => True | S k' => CmpE r R (Cat (pow k' R) K) /\ RepOK r R k' K end.
Lemma rep_loop_cmp d r R K : forall k, RepOK r R k K -> forall c, bytes_ok (rest c) -> matches (Cat (pow k R) K) (rest c) ->
  exists c', ov (rep_loop ev k d r c) = Some (Some c') /\ matches K (rest c').
Proof.
  induction k as [|k IH]; intros Hr c Hb M; cbn [rep_loop pow] in *.
  - apply cat_inv in M. destruct M as [a [b [E [Ha Hbm]]]]. apply eps_inv in Ha. subst a.
    exists c. split; [reflexivity | rewrite E; exact Hbm].
  - destruct Hr as [H1 H2].
    assert (M' : matches (Cat R (Cat (pow k R) K)) (rest c)).
    { apply cat_inv in M. destruct M as [a [k0 [E [Ha Hk]]]]. apply cat_inv in Ha. destruct Ha as [a1 [a2 [-> [A1 A2]]]].
      rewrite E, <- app_assoc. apply MCat; [exact A1 | apply MCat; assumption]. }
    destruct (H1 d c Hb M') as [c1 [E1 M1]]. apply ov_ok in E1. destruct E1 as [e1 E1].
    rewrite E1. simpl. rewrite ov_prepend. apply (IH H2 c1); [eapply ok_bytes; eauto | exact M1].
Qed.
Lemma rep_loop_tot d r : TotE r -> forall k c, bytes_ok (rest c) -> exists v, ov (rep_loop ev k d r c) = Some v.
Proof.
  intros Ht. induction k as [|k IH]; intros c Hb; cbn [rep_loop]; [eexists; reflexivity|].
  destruct (Ht d c Hb) as [v Ev].
  destruct (ev d r c) as [[| |e] c1 e1| |] eqn:E; simpl in Ev; try discriminate; simpl.
  - rewrite ov_prepend. apply IH. eapply ok_bytes; eauto.
  - eexists; reflexivity.
Qed.

(* --- rep_opt< k, r > --- *)
Lemma pow_opt_mono R k : forall w, matches (pow k (Alt R Eps)) w -> matches (pow (S k) (Alt R Eps)) w.
Proof.
  intros w H. cbn [pow]. change w with ([] ++ w). apply MCat; [apply MAltR; constructor | exact H].
Qed.
Lemma pow_opt_split R : forall k w, matches (pow k (Alt R Eps)) w ->
  w = [] \/ exists x w', w = x ++ w' /\ matches R x /\ matches (pow k (Alt R Eps)) w'.
Proof.
  induction k as [|k IH]; intros w H; cbn [pow] in H.
  - apply eps_inv in H. left. exact H.
  - apply cat_inv in H. destruct H as [a [b [-> [Ha Hb]]]]. apply alt_inv in Ha. destruct Ha as [Ha|Ha].
    + right. exists a, b. split; [reflexivity | split; [exact Ha | apply pow_opt_mono; exact Hb]].
    + apply eps_inv in Ha. subst a. simpl. destruct (IH b Hb) as [->|[x [w' [-> [Hx Hw]]]]]; [left; reflexivity|].
      right. exists x, w'. split; [reflexivity | split; [exact Hx | apply pow_opt_mono; exact Hw]].
Qed.

Fixpoint RepOptOK (r : rid) (R : re) (k : nat) (K : re) : Prop :=
  match k with
  | O => True
  | S k' => let L := Cat (pow k' (Alt R Eps)) K in
            CmpE r R L /\
            (forall w t, bytes_ok (w ++ t) -> matches R w -> matches L (w ++ t) -> matches L t) /\
            RepOptOK r R k' K
  end.

Lemma repopt_loop_cmp d r R K : TotE r -> SoundE r R ->
  forall k, RepOptOK r R k K -> forall c, bytes_ok (rest c) -> matches (Cat (pow k (Alt R Eps)) K) (rest c) ->
  exists c' evs b, repopt_loop ev k d r c = (Res Ok c' evs, b) /\ matches K (rest c') /\ bytes_ok (rest c').
Proof.
  intros Ht Hs. induction k as [|k IH]; intros Hr c Hb M; cbn [repopt_loop pow] in *.
  - apply cat_inv in M. destruct M as [a [b [E [Ha Hbm]]]]. apply eps_inv in Ha. subst a.
    exists c, [], true. split; [reflexivity | split; [rewrite E; exact Hbm | exact Hb]].
  - destruct Hr as [Hc [Hq Hr]].
    (* either the first factor is an R-block, or the whole input is already in L_k *)
    assert (Cases : matches (Cat R (Cat (pow k (Alt R Eps)) K)) (rest c) \/ matches (Cat (pow k (Alt R Eps)) K) (rest c)).
    { apply cat_inv in M. destruct M as [a [k0 [E [Ha Hk]]]]. apply cat_inv in Ha. destruct Ha as [a1 [a2 [-> [A1 A2]]]].
      apply alt_inv in A1. destruct A1 as [A1|A1].
      - left. rewrite E, <- app_assoc. apply MCat; [exact A1 | apply MCat; assumption].
      - apply eps_inv in A1. subst a1. right. rewrite E. apply MCat; assumption. }
    destruct (Ht (req d) c Hb) as [v Ev].
    assert (Step : forall c1 e1, ev (req d) r c = Res Ok c1 e1 -> matches (Cat (pow k (Alt R Eps)) K) (rest c1) ->
              exists c' evs b, (let '(x, b0) := repopt_loop ev k d r c1 in (prepend e1 x, b0)) = (Res Ok c' evs, b) /\ matches K (rest c') /\ bytes_ok (rest c')).
    { intros c1 e1 E1 M1. assert (Hb1 : bytes_ok (rest c1)) by (eapply ok_bytes; eauto).
      destruct (IH Hr c1 Hb1 M1) as [c' [evs [b [E2 [K2 B2]]]]]. rewrite E2. simpl. exists c', (e1 ++ evs), b. auto. }
    destruct Cases as [M1|M2].
    + destruct (Hc (req d) c Hb M1) as [c1 [E1 K1]]. apply ov_ok in E1. destruct E1 as [e1 E1]. rewrite E1.
      apply (Step c1 e1 E1 K1).
    + destruct (ev (req d) r c) as [[| |e] c1 e1| |] eqn:E1; simpl in Ev; try discriminate.
      * destruct (Hs (req d) c c1 e1 Hb E1) as [pre [Ep Mp]].
        apply (Step c1 e1 eq_refl). apply (Hq pre (rest c1)); [rewrite <- Ep; exact Hb | exact Mp | rewrite <- Ep; exact M2].
      * assert (c1 = c) by (eapply (fail_req (req d)); [reflexivity | exact E1]). subst c1.
        exists c, e1, false. split; [reflexivity | split; [|exact Hb]].
        (* the input is in L_k and r failed: it cannot start with an R-block, so it is in K *)
        apply cat_inv in M2. destruct M2 as [a [k0 [E [Ha Hk]]]].
        destruct (pow_opt_split R k a Ha) as [->|[x [w' [-> [Hx Hw]]]]]; [simpl in E; rewrite E; exact Hk|].
        exfalso. assert (M3 : matches (Cat R (Cat (pow k (Alt R Eps)) K)) (rest c)).
        { rewrite E, <- app_assoc. apply MCat; [exact Hx | apply MCat; assumption]. }
        destruct (Hc (req d) c Hb M3) as [c2 [E2 _]]. rewrite E1 in E2. simpl in E2. discriminate.
Qed.

Lemma repopt_loop_tot d r : TotE r -> forall k c, bytes_ok (rest c) ->
  exists c' evs b, repopt_loop ev k d r c = (Res Ok c' evs, b) /\ bytes_ok (rest c').
Proof.
  intros Ht. induction k as [|k IH]; intros c Hb; cbn [repopt_loop]; [exists c, [], true; auto|].
  destruct (Ht (req d) c Hb) as [v Ev].
  destruct (ev (req d) r c) as [[| |e] c1 e1| |] eqn:E1; simpl in Ev; try discriminate.
  - assert (Hb1 : bytes_ok (rest c1)) by (eapply ok_bytes; eauto).
    destruct (IH c1 Hb1) as [c' [evs [b [E2 B2]]]]. rewrite E2. simpl. exists c', (e1 ++ evs), b. auto.
  - assert (c1 = c) by (eapply (fail_req (req d)); [reflexivity | exact E1]). subst c1. exists c, e1, false. auto.
Qed.

(* --- rep_min_max< mn, mx, r > over a byte class --- *)
Lemma not_at_class d r cs K c : TotE r -> SoundE r (Chr cs) ->
  (forall b k, b < 256 -> cs_mem b cs = true -> ~ matches K (b :: k)) ->
  bytes_ok (rest c) -> matches K (rest c) -> ov (h_at ev true d r c) = Some (Some c).
Proof.
  intros Ht Hs Hn Hb Mk. unfold h_at, look. destruct (Ht (set_A (opt_ d) false) c Hb) as [v Ev].
  destruct (ev (set_A (opt_ d) false) r c) as [[| |e] c1 e1| |] eqn:E1; simpl in Ev; try discriminate; simpl; [|reflexivity].
  exfalso. destruct (Hs _ c c1 e1 Hb E1) as [pre [Ep Mp]]. apply chr_inv in Mp. destruct Mp as [b [-> Hm]].
  simpl in Ep. rewrite Ep in Mk, Hb. inversion Hb; subst. eapply Hn; eauto.
Qed.

Lemma h_rep_min_max_cmp mn mx d r cs K c : TotE r -> SoundE r (Chr cs) ->
  (forall b k, b < 256 -> cs_mem b cs = true -> ~ matches K (b :: k)) ->
  RepOK r (Chr cs) mn (Cat (pow (mx - mn) (Alt (Chr cs) Eps)) K) -> RepOptOK r (Chr cs) (mx - mn) K ->
  bytes_ok (rest c) -> matches (Cat (Cat (pow mn (Chr cs)) (pow (mx - mn) (Alt (Chr cs) Eps))) K) (rest c) ->
  exists c', ov (h_rep_min_max ev mn mx d r c) = Some (Some c') /\ matches K (rest c').
Proof.
  intros Ht Hs Hn H1 H2 Hb M. unfold h_rep_min_max. rewrite ov_guard.
  assert (M' : matches (Cat (pow mn (Chr cs)) (Cat (pow (mx - mn) (Alt (Chr cs) Eps)) K)) (rest c)).
  { apply cat_inv in M. destruct M as [a [k0 [E [Ha Hk]]]]. apply cat_inv in Ha. destruct Ha as [a1 [a2 [-> [A1 A2]]]].
    rewrite E, <- app_assoc. apply MCat; [exact A1 | apply MCat; assumption]. }
  destruct (rep_loop_cmp (opt_ d) r (Chr cs) _ mn H1 c Hb M') as [c1 [E1 M1]]. apply ov_ok in E1. destruct E1 as [e1 E1].
  rewrite E1. simpl. rewrite ov_prepend.
  assert (Hb1 : bytes_ok (rest c1)).
  { pose proof (rep_loop_good PT PT_refl PT_trans ev Hgood mn (opt_ d) r eq_refl c) as Gd. rewrite E1 in Gd. simpl in Gd. eapply bytes_ok_adv; eauto. }
  destruct (repopt_loop_cmp d r (Chr cs) K Ht Hs (mx - mn) H2 c1 Hb1 M1) as [c2 [evs [b [E2 [K2 B2]]]]]. rewrite E2.
  destruct b; [|exists c2; split; [reflexivity | exact K2]].
  rewrite ov_prepend. exists c2. split; [|exact K2]. eapply not_at_class; eauto.
Qed.

Lemma h_rep_min_max_tot mn mx d r c : TotE r -> bytes_ok (rest c) -> exists v, ov (h_rep_min_max ev mn mx d r c) = Some v.
Proof.
  intros Ht Hb. unfold h_rep_min_max. rewrite ov_guard.
  destruct (rep_loop_tot (opt_ d) r Ht mn c Hb) as [v Ev].
  destruct (rep_loop ev mn (opt_ d) r c) as [[| |e] c1 e1| |] eqn:E1; simpl in Ev; try discriminate; simpl; [|eexists; reflexivity].
  rewrite ov_prepend.
  assert (Hb1 : bytes_ok (rest c1)).
  { pose proof (rep_loop_good PT PT_refl PT_trans ev Hgood mn (opt_ d) r eq_refl c) as Gd. rewrite E1 in Gd. simpl in Gd. eapply bytes_ok_adv; eauto. }
  destruct (repopt_loop_tot d r Ht (mx - mn) c1 Hb1) as [c2 [evs [b [E2 B2]]]]. rewrite E2.
  destruct b; [|eexists; reflexivity]. rewrite ov_prepend. unfold h_at, look.
  destruct (Ht (set_A (opt_ (opt_ d)) false) c2 B2) as [v2 Ev2].
  destruct (ev (set_A (opt_ (opt_ d)) false) r c2) as [[| |e] c3 e3| |]; simpl in Ev2; try discriminate; simpl; eexists; reflexivity.
Qed.
End Helpers.

(* ---------- atoms and the maximum_rule leaf ---------- *)
Lemma vres_ov x v : vres x = Some v ->
  match v with Some s => exists c', ov x = Some (Some c') /\ rest c' = s | None => ov x = Some None end.
Proof.
  destruct x as [[| |e] c e2| |]; simpl; intros H; inversion H; subst; [|reflexivity]. exists c. auto.
Qed.

Lemma class_cmp ch cs t c K : class_checked cs t = true -> bytes_ok (rest c) ->
  (exists v, ov (peek_test_bump ch PkChar t c) = Some v) /\
  (matches (Cat (Chr cs) K) (rest c) -> exists c', ov (peek_test_bump ch PkChar t c) = Some (Some c') /\ matches K (rest c')).
Proof.
  intros Hc Hb. pose proof (ptb_char ch t (fun b => cs_mem b cs) c Hb (class_checked_spec cs t Hc)) as V.
  apply vres_ov in V. split.
  - revert V. destruct (atom1 (fun b => cs_mem b cs) (rest c)); intros V; [destruct V as [c' [E1 _]]|]; eexists; eauto.
  - intros M. apply cat_inv in M. destruct M as [a [k [E [Ha Hk]]]]. apply chr_inv in Ha. destruct Ha as [b [-> Hm]].
    rewrite E in V. simpl in V. rewrite Hm in V. destruct V as [c' [E1 E2]]. exists c'. split; [exact E1 | rewrite E2; exact Hk].
Qed.

Lemma oct_ok c w k : rest c = w ++ k -> bytes_ok (rest c) -> matches Rfc3986.dec_octet w -> no_digit_follows k ->
  exists c', maximum_rule 8 255 c tt = MOk c' tt /\ rest c' = k.
Proof.
  intros Hr Hb Mw Hnd.
  assert (Hbw : bytes_ok w) by (rewrite Hr in Hb; eapply bytes_ok_app_l; eauto).
  destruct (dec_octet_numeral w Hbw Mw) as [Hn Hv].
  assert (Hw : (4 <= 8)%nat) by lia. assert (HM : 255 < pow2 8) by (vm_compute; reflexivity).
  destruct (IntegerFacts.maximum_rule_syntax_exact unit 8 255 c tt Hw HM Hb) as [Kx _].
  assert (Lx : unsigned_lexeme (rest c) (length w)) by (exists w, k; auto).
  destruct (Kx (length w) Lx) as [K1 _]. cbv zeta in K1.
  rewrite Hr, IntegerFacts.firstn_app_exact in K1. change (Z.of_N 255) with 255%Z in K1.
  destruct (K1 Hv) as [c' [Hbump Hmax]]. exists c'. split; [exact Hmax|].
  apply IntegerFacts.bump_some_advance in Hbump. destruct Hbump as [-> _]. simpl. rewrite Hr.
  rewrite skipn_app, skipn_all, Nat.sub_diag. reflexivity.
Qed.

Lemma mx_cmp c K : bytes_ok (rest c) ->
  (forall b k, b < 256 -> cs_mem b [(48, 57)] = true -> ~ matches K (b :: k)) ->
  (exists v, ov (mx_result (maximum_rule 8 255 c tt)) = Some v) /\
  (matches (Cat Rfc3986.dec_octet K) (rest c) ->
     exists c', ov (mx_result (maximum_rule 8 255 c tt)) = Some (Some c') /\ matches K (rest c')).
Proof.
  intros Hb Hn. split.
  - unfold maximum_rule. pose proof (match_nothrow_good 8 255 c 0) as Gd.
    destruct (match_nothrow 8 255 c 0); simpl in Gd; try contradiction; simpl; eexists; reflexivity.
  - intros M. apply cat_inv in M. destruct M as [w [k [E [Hw Hk]]]].
    assert (Hnd : no_digit_follows k).
    { destruct k as [|b k']; [exact I|]. simpl. intros Hd.
      assert (Hb256 : b < 256) by (rewrite E in Hb; apply bytes_ok_app_r in Hb; inversion Hb; assumption).
      apply (Hn b k' Hb256); [|exact Hk]. unfold isdigit in Hd. unfold cs_mem, in_range. simpl.
      destruct (N.leb_spec 48 b); [|lia]. destruct (N.leb_spec b 57); [reflexivity | lia]. }
    destruct (oct_ok c w k E Hb Hw Hnd) as [c' [E1 E2]]. rewrite E1. simpl. exists c'. split; [reflexivity | rewrite E2; exact Hk].
Qed.

Lemma atom_cmp h c x R nf K : atom_re h = Some (Some (R, nf)) ->
  (h = HEof -> forall k, bytes_ok k -> matches K k -> k = []) ->
  eval_atom (ceol C0) h c = Some x -> bytes_ok (rest c) ->
  (exists v, ov x = Some v) /\ (matches (Cat R K) (rest c) -> exists c', ov x = Some (Some c') /\ matches K (rest c')).
Proof.
  intros Ha Heof He Hb. destruct h; cbn [atom_re] in Ha; try discriminate.
  - (* success *) inversion Ha; subst. simpl in He. inversion He; subst. split; [eexists; reflexivity|].
    intros M. apply cat_inv in M. destruct M as [a [k [E [Ha' Hk]]]]. apply eps_inv in Ha'. subst a.
    exists c. split; [reflexivity | rewrite E; exact Hk].
  - (* failure *) inversion Ha; subst. simpl in He. inversion He; subst. split; [eexists; reflexivity|].
    intros M. apply cat_inv in M. destruct M as [a [k [_ [Ha' _]]]]. exfalso. eapply empty_inv; eauto.
  - (* eof *) inversion Ha; subst. simpl in He. inversion He; subst. split; [destruct (in_empty c); eexists; reflexivity|].
    intros M. apply cat_inv in M. destruct M as [a [k [E [Ha' Hk]]]]. apply eps_inv in Ha'. subst a. simpl in E.
    assert (Hk0 : k = []) by (apply (Heof eq_refl); [rewrite <- E; exact Hb | exact Hk]).
    rewrite Hk0 in E. unfold in_empty. rewrite E. exists c. split; [reflexivity | rewrite E, <- Hk0; exact Hk].
  - (* one *) destruct found; try discriminate. destruct pk; try discriminate.
    unfold class_re in Ha. destruct (class_checked (cs_of_one cs) (test_one_set true cs)) eqn:Ec; [|discriminate].
    inversion Ha; subst. cbn [eval_atom] in He. inversion He; subst. apply class_cmp; assumption.
  - (* range *) destruct found; try discriminate. destruct pk; try discriminate.
    unfold class_re in Ha. destruct (class_checked [(z2n lo, z2n hi)] (test_one_range true lo hi)) eqn:Ec; [|discriminate].
    inversion Ha; subst. cbn [eval_atom] in He. inversion He; subst. apply class_cmp; assumption.
  - (* ranges *) destruct pk; try discriminate.
    unfold class_re in Ha. destruct (class_checked (cs_of_ranges cs) (test_ranges cs)) eqn:Ec; [|discriminate].
    inversion Ha; subst. cbn [eval_atom] in He. inversion He; subst. apply class_cmp; assumption.
  - (* string *) inversion Ha; subst. pose proof (string_verdict (ceol C0) cs c x He) as V. apply vres_ov in V. split.
    + revert V. destruct (strip cs (rest c)); intros V; [destruct V as [c' [E1 _]]|]; eexists; eauto.
    + intros M. apply cat_inv in M. destruct M as [a [k [E [Ha' Hk]]]]. apply cat_list_iff in Ha'. apply lits_inv in Ha'. subst a.
      rewrite E, strip_complete in V. destruct V as [c' [E1 E2]]. exists c'. split; [exact E1 | rewrite E2; exact Hk].
  - (* opaque *) inversion Ha; subst. simpl in He. inversion He; subst. split; [eexists; reflexivity|].
    intros M. apply cat_inv in M. destruct M as [a [k [_ [Ha' _]]]]. exfalso. eapply empty_inv; eauto.
Qed.
End Complete.
