(* UriComplete.v — completeness of the engine on a PEG table against its regular reading, under
   side conditions that are checked by computation on regular expressions (RegexQuot.v):
   for a node r with regular reading R and a continuation language K,
       rest c in R.K  ->  the engine succeeds on r and leaves a rest in K            (CmpR)
   provided every ordered choice / option / bounded repetition inside r is "prefix-safe" w.r.t. what may
   follow (an earlier alternative that matches a prefix of a string of a later one leaves a rest that is
   still in K; a not_at / maximum_rule is never followed by what it forbids).  The fragment covered is the
   one uri::IPv4address and uri::IPv6address use: atoms, seq, sor, opt, rep, rep_opt, rep_min_max over a
   byte class, the maximum_rule leaf, eof.  No star / must (those need termination and no-raise arguments). *)
From Coq Require Import List NArith ZArith Bool Lia.
From PegtlV Require Import Base Decode Grammar Engine EngineFacts AtomFacts Mono Spec ExactSound Integer IntegerSpec.
From PegtlV Require IntegerFacts.
From PegtlV Require Import Regex RegexIncl RegexQuot Rfc3986 UriModel UriProof.
From PegtlV.gen Require Import Uri_gen.
Import ListNotations.
Local Open Scope N_scope.

(* verdict of a result: Some (Some c') = true with cursor c', Some None = false, None = anything else *)
Definition ov (x : result) : option (option cursor) :=
  match x with Res Ok c _ => Some (Some c) | Res Fail _ _ => Some None | _ => None end.

Lemma ov_prepend evs x : ov (prepend evs x) = ov x.
Proof. destruct x as [[| |e] c e2| |]; reflexivity. Qed.
Lemma ov_guard m s x : ov (guard m s x) = ov x.
Proof. destruct x as [[| |e] c e2| |]; reflexivity. Qed.
Lemma ov_traced k r a m c x : ov (traced k r a m c x) = ov x.
Proof. destruct x as [[| |e] c1 e2| |]; reflexivity. Qed.
Lemma ov_match_hpp (body : dyn -> cursor -> result) d r c : ov (match_hpp C0 AKNone body d r c) = ov (body d c).
Proof.
  unfold match_hpp. assert (Eg : use_guard d AKNone = false) by (unfold use_guard; apply andb_false_r). rewrite Eg.
  destruct (body d c) as [[| |e] c1 evs| |]; try reflexivity.
  unfold run_action. destruct (dA d); reflexivity.
Qed.
Lemma ov_ok x c' : ov x = Some (Some c') -> exists evs, x = Res Ok c' evs.
Proof. destruct x as [[| |e] c e2| |]; simpl; intros H; inversion H; subst. eexists; reflexivity. Qed.
Lemma ov_fail x : ov x = Some None -> exists c evs, x = Res Fail c evs.
Proof. destruct x as [[| |e] c e2| |]; simpl; intros H; inversion H; subst. eexists; eexists; reflexivity. Qed.

Lemma bytes_ok_app_l (a b : list byte) : bytes_ok (a ++ b) -> bytes_ok a.
Proof. unfold bytes_ok. rewrite Forall_app. tauto. Qed.

Lemma strip_complete cs k : strip cs (cs ++ k) = Some k.
Proof. induction cs as [|c cs IH]; simpl; [reflexivity|]. rewrite N.eqb_refl. exact IH. Qed.
Lemma lits_inv cs : forall w, matches (fr (map lit cs)) w -> w = cs.
Proof.
  induction cs as [|c cs IH]; intros w H; simpl in H.
  - apply eps_inv in H. exact H.
  - apply cat_inv in H. destruct H as [a [b [-> [Ha Hb]]]]. apply chr_inv in Ha. destruct Ha as [x [-> Hx]].
    unfold cs_mem, in_range in Hx. simpl in Hx. rewrite orb_false_r in Hx. apply andb_true_iff in Hx. destruct Hx as [H1 H2].
    apply N.leb_le in H1. apply N.leb_le in H2. assert (x = c) by lia. subst x. simpl. f_equal. apply IH. exact Hb.
Qed.

Section Complete.
Variable G : grammar.
Variable MX : rid -> option (nat * N).
Hypothesis HG : table_wf G.

Definition Tot (f : nat) (r : rid) : Prop :=
  forall d c, bytes_ok (rest c) -> exists v, ov (evalx G C0 MX f d r c) = Some v.
Definition CmpR (f : nat) (r : rid) (R K : re) : Prop :=
  forall d c, bytes_ok (rest c) -> matches (Cat R K) (rest c) ->
    exists c', ov (evalx G C0 MX f d r c) = Some (Some c') /\ matches K (rest c').

Lemma ov_node f d r c nd : nth_error G r = Some nd ->
  ov (evalx G C0 MX (S f) d r c) =
  ov ((match MX r with
       | Some (w, mx) => fun (_ : dyn) (c' : cursor) => mx_result (maximum_rule w mx c' tt)
       | None => eval_head C0 (evalx G C0 MX f) f r (nhead nd) (nsubs nd)
       end) d c).
Proof.
  intros En. cbn [evalx]. rewrite En. rewrite ov_traced. change (acts C0 (dAct d) r) with AKNone. cbv iota.
  destruct (nenabled nd); [apply ov_match_hpp | reflexivity].
Qed.

(* ---------- helpers over an abstract sub-evaluator ---------- *)
Section Helpers.
Variable ev : dyn -> rid -> cursor -> result.
Hypothesis Hgood : forall d r c, goodT (dM d) c (ev d r c).

Definition SoundE (r : rid) (R : re) : Prop :=
  forall d c c' evs, bytes_ok (rest c) -> ev d r c = Res Ok c' evs -> exists pre, rest c = pre ++ rest c' /\ matches R pre.
Definition TotE (r : rid) : Prop := forall d c, bytes_ok (rest c) -> exists v, ov (ev d r c) = Some v.
Definition CmpE (r : rid) (R K : re) : Prop :=
  forall d c, bytes_ok (rest c) -> matches (Cat R K) (rest c) -> exists c', ov (ev d r c) = Some (Some c') /\ matches K (rest c').

Definition FolE (r : rid) (P : list byte -> Prop) : Prop :=
  forall d c c' evs, bytes_ok (rest c) -> ev d r c = Res Ok c' evs -> P (rest c').

Lemma ok_bytes d r c c' evs : ev d r c = Res Ok c' evs -> bytes_ok (rest c) -> bytes_ok (rest c').
Proof. intros E Hb. pose proof (Hgood d r c) as Gd. rewrite E in Gd. simpl in Gd. eapply bytes_ok_adv; eauto. Qed.
Lemma fail_req d r c c' evs : dM d = true -> ev d r c = Res Fail c' evs -> c' = c.
Proof. intros Hd E. pose proof (Hgood d r c) as Gd. rewrite E, Hd in Gd. exact Gd. Qed.

(* --- seq --- *)
Fixpoint SeqOK (rs : list rid) (Rs : list re) (K : re) : Prop :=
  match rs, Rs with
  | [], [] => True
  | r :: rs', R :: Rs' => CmpE r R (Cat (fr Rs') K) /\ SeqOK rs' Rs' K
  | _, _ => False
  end.

Lemma seq_all_cmp d : forall rs Rs K, SeqOK rs Rs K -> forall c, bytes_ok (rest c) -> matches (Cat (fr Rs) K) (rest c) ->
  exists c', ov (seq_all ev d rs c) = Some (Some c') /\ matches K (rest c').
Proof.
  induction rs as [|r rs IH]; intros Rs K Hs c Hb M; destruct Rs as [|R Rs]; simpl in Hs; try contradiction.
  - simpl in M. apply cat_inv in M. destruct M as [a [b [E [Ha Hbm]]]]. apply eps_inv in Ha. subst a. simpl in E.
    exists c. simpl. split; [reflexivity | rewrite E; exact Hbm].
  - destruct Hs as [H1 H2]. cbn [fr fold_right] in M.
    assert (M' : matches (Cat R (Cat (fr Rs) K)) (rest c)).
    { apply cat_inv in M. destruct M as [a [k [E [Ha Hk]]]]. apply cat_inv in Ha. destruct Ha as [a1 [a2 [-> [A1 A2]]]].
      rewrite E, <- app_assoc. apply MCat; [exact A1 | apply MCat; assumption]. }
    destruct (H1 d c Hb M') as [c1 [E1 M1]]. apply ov_ok in E1. destruct E1 as [e1 E1].
    cbn [seq_all]. rewrite E1. simpl. rewrite ov_prepend.
    apply (IH Rs K H2 c1); [eapply ok_bytes; eauto | exact M1].
Qed.

Lemma seq_all_tot d : forall rs, Forall TotE rs -> forall c, bytes_ok (rest c) -> exists v, ov (seq_all ev d rs c) = Some v.
Proof.
  induction rs as [|r rs IH]; intros Ht c Hb; cbn [seq_all]; [eexists; reflexivity|].
  inversion Ht as [|? ? T1 T2]; subst. destruct (T1 d c Hb) as [v Ev].
  destruct (ev d r c) as [[| |e] c1 e1| |] eqn:E; simpl in Ev; try discriminate.
  - simpl. rewrite ov_prepend. apply IH; [exact T2 | eapply ok_bytes; eauto].
  - simpl. eexists; reflexivity.
Qed.

(* --- sor --- *)
Fixpoint SorOK (rs : list rid) (Rs : list re) (K : re) : Prop :=
  match rs, Rs with
  | [], [] => True
  | r :: rs', R :: Rs' =>
      CmpE r R K /\ TotE r /\ SoundE r R /\
      (exists P, FolE r P /\
         forall w t, bytes_ok (w ++ t) -> matches R w -> P t -> matches (Cat (fa Rs') K) (w ++ t) -> matches K t) /\
      SorOK rs' Rs' K
  | _, _ => False
  end.

Lemma sor_any_cmp d : forall rs Rs K, SorOK rs Rs K -> forall c, bytes_ok (rest c) -> matches (Cat (fa Rs) K) (rest c) ->
  exists c', ov (sor_any ev d rs c) = Some (Some c') /\ matches K (rest c').
Proof.
  induction rs as [|r rs IH]; intros Rs K Hs c Hb M; destruct Rs as [|R Rs]; simpl in Hs; try contradiction.
  - simpl in M. apply cat_inv in M. destruct M as [a [b [_ [Ha _]]]]. exfalso. eapply empty_inv; eauto.
  - destruct Hs as [Hc [Ht [Hsd [[P [Hf Hq]] Hrest]]]].
    cbn [fa fold_right] in M. apply cat_inv in M. destruct M as [a [k [E [Ha Hk]]]]. apply alt_inv in Ha.
    destruct rs as [|r2 rs'].
    + (* last alternative *)
      destruct Rs as [|? ?]; simpl in Hrest; try contradiction.
      destruct Ha as [Ha|Ha]; [|exfalso; simpl in Ha; eapply empty_inv; eauto].
      simpl. apply Hc; [exact Hb | rewrite E; apply MCat; assumption].
    + change (sor_any ev d (r :: r2 :: rs') c) with
        (match ev (req d) r c with Res Fail c' evs => prepend evs (sor_any ev d (r2 :: rs') c') | x => x end).
      destruct Ha as [Ha|Ha].
      * assert (M1 : matches (Cat R K) (rest c)) by (rewrite E; apply MCat; assumption).
        destruct (Hc (req d) c Hb M1) as [c1 [E1 K1]]. apply ov_ok in E1. destruct E1 as [e1 E1]. rewrite E1.
        exists c1. split; [reflexivity | exact K1].
      * destruct (Ht (req d) c Hb) as [v Ev].
        destruct (ev (req d) r c) as [[| |e] c1 e1| |] eqn:E1; simpl in Ev; try discriminate.
        -- destruct (Hsd (req d) c c1 e1 Hb E1) as [pre [Ep Mp]].
           exists c1. split; [reflexivity|]. apply (Hq pre (rest c1)); [rewrite <- Ep; exact Hb | exact Mp | exact (Hf _ _ _ _ Hb E1) |].
           rewrite <- Ep, E. apply MCat; assumption.
        -- assert (c1 = c) by (eapply (fail_req (req d)); [reflexivity | exact E1]). subst c1.
           rewrite ov_prepend. apply (IH Rs K Hrest c Hb). rewrite E. apply MCat; assumption.
Qed.

Lemma sor_any_tot d : forall rs, Forall TotE rs -> forall c, bytes_ok (rest c) -> exists v, ov (sor_any ev d rs c) = Some v.
Proof.
  induction rs as [|r rs IH]; intros Ht c Hb; [simpl; eexists; reflexivity|].
  inversion Ht as [|? ? T1 T2]; subst.
  destruct rs as [|r2 rs']; [simpl; apply T1; exact Hb|].
  change (sor_any ev d (r :: r2 :: rs') c) with
    (match ev (req d) r c with Res Fail c' evs => prepend evs (sor_any ev d (r2 :: rs') c') | x => x end).
  destruct (T1 (req d) c Hb) as [v Ev].
  destruct (ev (req d) r c) as [[| |e] c1 e1| |] eqn:E1; simpl in Ev; try discriminate.
  - eexists; reflexivity.
  - assert (c1 = c) by (eapply (fail_req (req d)); [reflexivity | exact E1]). subst c1.
    rewrite ov_prepend. apply IH; assumption.
Qed.

(* --- opt< r > (partial with one sub-rule) --- *)
Lemma h_partial_cmp d r R K c (P : list byte -> Prop) : CmpE r R K -> TotE r -> SoundE r R -> FolE r P ->
  (forall w t, bytes_ok (w ++ t) -> matches R w -> P t -> matches K (w ++ t) -> matches K t) ->
  bytes_ok (rest c) -> matches (Cat (Alt R Eps) K) (rest c) ->
  exists c', ov (h_partial ev d [r] c) = Some (Some c') /\ matches K (rest c').
Proof.
  intros Hc Ht Hs Hf Hq Hb M. unfold h_partial. cbn [seq_all]. unfold bind.
  apply cat_inv in M. destruct M as [a [k [E [Ha Hk]]]]. apply alt_inv in Ha. destruct Ha as [Ha|Ha].
  - assert (M1 : matches (Cat R K) (rest c)) by (rewrite E; apply MCat; assumption).
    destruct (Hc (req d) c Hb M1) as [c1 [E1 K1]]. apply ov_ok in E1. destruct E1 as [e1 E1]. rewrite E1. simpl.
    exists c1. split; [reflexivity | exact K1].
  - apply eps_inv in Ha. subst a. simpl in E.
    destruct (Ht (req d) c Hb) as [v Ev].
    destruct (ev (req d) r c) as [[| |e] c1 e1| |] eqn:E1; simpl in Ev; try discriminate.
    + simpl. destruct (Hs (req d) c c1 e1 Hb E1) as [pre [Ep Mp]].
      exists c1. split; [reflexivity|]. apply (Hq pre (rest c1)); [rewrite <- Ep; exact Hb | exact Mp | exact (Hf _ _ _ _ Hb E1) | rewrite <- Ep, E; exact Hk].
    + assert (c1 = c) by (eapply (fail_req (req d)); [reflexivity | exact E1]). subst c1.
      exists c. split; [reflexivity | rewrite E; exact Hk].
Qed.
Lemma h_partial_tot d r c : TotE r -> bytes_ok (rest c) -> exists v, ov (h_partial ev d [r] c) = Some v.
Proof.
  intros Ht Hb. unfold h_partial. cbn [seq_all]. unfold bind. destruct (Ht (req d) c Hb) as [v Ev].
  destruct (ev (req d) r c) as [[| |e] c1 e1| |]; simpl in Ev; try discriminate; simpl; eexists; reflexivity.
Qed.

(* --- rep< k, r > --- *)
Fixpoint RepOK (r : rid) (R : re) (k : nat) (K : re) : Prop :=
  match k with O => True | S k' => CmpE r R (Cat (pow k' R) K) /\ RepOK r R k' K end.
Lemma rep_loop_cmp d r R K : forall k, RepOK r R k K -> forall c, bytes_ok (rest c) -> matches (Cat (pow k R) K) (rest c) ->
  exists c', ov (rep_loop ev k d r c) = Some (Some c') /\ matches K (rest c').
Proof.
  induction k as [|k IH]; intros Hr c Hb M; cbn [rep_loop pow] in *.
  - apply cat_inv in M. destruct M as [a [b [E [Ha Hbm]]]]. apply eps_inv in Ha. subst a.
    exists c. split; [reflexivity | rewrite E; exact Hbm].
  - destruct Hr as [H1 H2].
    assert (M' : matches (Cat R (Cat (pow k R) K)) (rest c)).
    { apply cat_inv in M. destruct M as [a [k0 [E [Ha Hk]]]]. apply cat_inv in Ha. destruct Ha as [a1 [a2 [-> [A1 A2]]]].
      rewrite E, <- app_assoc. apply MCat; [exact A1 | apply MCat; assumption]. }
    destruct (H1 d c Hb M') as [c1 [E1 M1]]. apply ov_ok in E1. destruct E1 as [e1 E1].
    rewrite E1. simpl. rewrite ov_prepend. apply (IH H2 c1); [eapply ok_bytes; eauto | exact M1].
Qed.
Lemma rep_loop_tot d r : TotE r -> forall k c, bytes_ok (rest c) -> exists v, ov (rep_loop ev k d r c) = Some v.
Proof.
  intros Ht. induction k as [|k IH]; intros c Hb; cbn [rep_loop]; [eexists; reflexivity|].
  destruct (Ht d c Hb) as [v Ev].
  destruct (ev d r c) as [[| |e] c1 e1| |] eqn:E; simpl in Ev; try discriminate; simpl.
  - rewrite ov_prepend. apply IH. eapply ok_bytes; eauto.
  - eexists; reflexivity.
Qed.

(* --- rep_opt< k, r > --- *)
Lemma pow_opt_mono R k : forall w, matches (pow k (Alt R Eps)) w -> matches (pow (S k) (Alt R Eps)) w.
Proof.
  intros w H. cbn [pow]. change w with ([] ++ w). apply MCat; [apply MAltR; constructor | exact H].
Qed.
Lemma pow_opt_split R : forall k w, matches (pow k (Alt R Eps)) w ->
  w = [] \/ exists x w', w = x ++ w' /\ matches R x /\ matches (pow k (Alt R Eps)) w'.
Proof.
  induction k as [|k IH]; intros w H; cbn [pow] in H.
  - apply eps_inv in H. left. exact H.
  - apply cat_inv in H. destruct H as [a [b [-> [Ha Hb]]]]. apply alt_inv in Ha. destruct Ha as [Ha|Ha].
    + right. exists a, b. split; [reflexivity | split; [exact Ha | apply pow_opt_mono; exact Hb]].
    + apply eps_inv in Ha. subst a. simpl. destruct (IH b Hb) as [->|[x [w' [-> [Hx Hw]]]]]; [left; reflexivity|].
      right. exists x, w'. split; [reflexivity | split; [exact Hx | apply pow_opt_mono; exact Hw]].
Qed.

Fixpoint RepOptOK (r : rid) (R : re) (P : list byte -> Prop) (k : nat) (K : re) : Prop :=
  match k with
  | O => True
  | S k' => let L := Cat (pow k' (Alt R Eps)) K in
            CmpE r R L /\
            (forall w t, bytes_ok (w ++ t) -> matches R w -> P t -> matches L (w ++ t) -> matches L t) /\
            RepOptOK r R P k' K
  end.

Lemma repopt_loop_cmp d r R K (P : list byte -> Prop) : TotE r -> SoundE r R -> FolE r P ->
  forall k, RepOptOK r R P k K -> forall c, bytes_ok (rest c) -> matches (Cat (pow k (Alt R Eps)) K) (rest c) ->
  exists c' evs b, repopt_loop ev k d r c = (Res Ok c' evs, b) /\ matches K (rest c') /\ bytes_ok (rest c').
Proof.
  intros Ht Hs Hf. induction k as [|k IH]; intros Hr c Hb M; cbn [repopt_loop pow] in *.
  - apply cat_inv in M. destruct M as [a [b [E [Ha Hbm]]]]. apply eps_inv in Ha. subst a.
    exists c, [], true. split; [reflexivity | split; [rewrite E; exact Hbm | exact Hb]].
  - destruct Hr as [Hc [Hq Hr]].
    (* either the first factor is an R-block, or the whole input is already in L_k *)
    assert (Cases : matches (Cat R (Cat (pow k (Alt R Eps)) K)) (rest c) \/ matches (Cat (pow k (Alt R Eps)) K) (rest c)).
    { apply cat_inv in M. destruct M as [a [k0 [E [Ha Hk]]]]. apply cat_inv in Ha. destruct Ha as [a1 [a2 [-> [A1 A2]]]].
      apply alt_inv in A1. destruct A1 as [A1|A1].
      - left. rewrite E, <- app_assoc. apply MCat; [exact A1 | apply MCat; assumption].
      - apply eps_inv in A1. subst a1. right. rewrite E. apply MCat; assumption. }
    destruct (Ht (req d) c Hb) as [v Ev].
    assert (Step : forall c1 e1, ev (req d) r c = Res Ok c1 e1 -> matches (Cat (pow k (Alt R Eps)) K) (rest c1) ->
              exists c' evs b, (let '(x, b0) := repopt_loop ev k d r c1 in (prepend e1 x, b0)) = (Res Ok c' evs, b) /\ matches K (rest c') /\ bytes_ok (rest c')).
    { intros c1 e1 E1 M1. assert (Hb1 : bytes_ok (rest c1)) by (eapply ok_bytes; eauto).
      destruct (IH Hr c1 Hb1 M1) as [c' [evs [b [E2 [K2 B2]]]]]. rewrite E2. simpl. exists c', (e1 ++ evs), b. auto. }
    destruct Cases as [M1|M2].
    + destruct (Hc (req d) c Hb M1) as [c1 [E1 K1]]. apply ov_ok in E1. destruct E1 as [e1 E1]. rewrite E1.
      apply (Step c1 e1 E1 K1).
    + destruct (ev (req d) r c) as [[| |e] c1 e1| |] eqn:E1; simpl in Ev; try discriminate.
      * destruct (Hs (req d) c c1 e1 Hb E1) as [pre [Ep Mp]].
        apply (Step c1 e1 eq_refl). apply (Hq pre (rest c1)); [rewrite <- Ep; exact Hb | exact Mp | exact (Hf _ _ _ _ Hb E1) | rewrite <- Ep; exact M2].
      * assert (c1 = c) by (eapply (fail_req (req d)); [reflexivity | exact E1]). subst c1.
        exists c, e1, false. split; [reflexivity | split; [|exact Hb]].
        (* the input is in L_k and r failed: it cannot start with an R-block, so it is in K *)
        apply cat_inv in M2. destruct M2 as [a [k0 [E [Ha Hk]]]].
        destruct (pow_opt_split R k a Ha) as [->|[x [w' [-> [Hx Hw]]]]]; [simpl in E; rewrite E; exact Hk|].
        exfalso. assert (M3 : matches (Cat R (Cat (pow k (Alt R Eps)) K)) (rest c)).
        { rewrite E, <- app_assoc. apply MCat; [exact Hx | apply MCat; assumption]. }
        destruct (Hc (req d) c Hb M3) as [c2 [E2 _]]. rewrite E1 in E2. simpl in E2. discriminate.
Qed.

Lemma repopt_loop_tot d r : TotE r -> forall k c, bytes_ok (rest c) ->
  exists c' evs b, repopt_loop ev k d r c = (Res Ok c' evs, b) /\ bytes_ok (rest c').
Proof.
  intros Ht. induction k as [|k IH]; intros c Hb; cbn [repopt_loop]; [exists c, [], true; auto|].
  destruct (Ht (req d) c Hb) as [v Ev].
  destruct (ev (req d) r c) as [[| |e] c1 e1| |] eqn:E1; simpl in Ev; try discriminate.
  - assert (Hb1 : bytes_ok (rest c1)) by (eapply ok_bytes; eauto).
    destruct (IH c1 Hb1) as [c' [evs [b [E2 B2]]]]. rewrite E2. simpl. exists c', (e1 ++ evs), b. auto.
  - assert (c1 = c) by (eapply (fail_req (req d)); [reflexivity | exact E1]). subst c1. exists c, e1, false. auto.
Qed.

(* --- rep_min_max< mn, mx, r > over a byte class --- *)
Lemma not_at_class d r cs K c : TotE r -> SoundE r (Chr cs) ->
  (forall b k, b < 256 -> cs_mem b cs = true -> ~ matches K (b :: k)) ->
  bytes_ok (rest c) -> matches K (rest c) -> ov (h_at ev true d r c) = Some (Some c).
Proof.
  intros Ht Hs Hn Hb Mk. unfold h_at, look. destruct (Ht (set_A (opt_ d) false) c Hb) as [v Ev].
  destruct (ev (set_A (opt_ d) false) r c) as [[| |e] c1 e1| |] eqn:E1; simpl in Ev; try discriminate; simpl; [|reflexivity].
  exfalso. destruct (Hs _ c c1 e1 Hb E1) as [pre [Ep Mp]]. apply chr_inv in Mp. destruct Mp as [b [-> Hm]].
  simpl in Ep. rewrite Ep in Mk, Hb. inversion Hb; subst. eapply Hn; eauto.
Qed.

Lemma h_rep_min_max_cmp mn mx d r cs K c : TotE r -> SoundE r (Chr cs) ->
  (forall b k, b < 256 -> cs_mem b cs = true -> ~ matches K (b :: k)) ->
  RepOK r (Chr cs) mn (Cat (pow (mx - mn) (Alt (Chr cs) Eps)) K) -> RepOptOK r (Chr cs) (fun _ => True) (mx - mn) K ->
  bytes_ok (rest c) -> matches (Cat (Cat (pow mn (Chr cs)) (pow (mx - mn) (Alt (Chr cs) Eps))) K) (rest c) ->
  exists c', ov (h_rep_min_max ev mn mx d r c) = Some (Some c') /\ matches K (rest c').
Proof.
  intros Ht Hs Hn H1 H2 Hb M. unfold h_rep_min_max. rewrite ov_guard.
  assert (M' : matches (Cat (pow mn (Chr cs)) (Cat (pow (mx - mn) (Alt (Chr cs) Eps)) K)) (rest c)).
  { apply cat_inv in M. destruct M as [a [k0 [E [Ha Hk]]]]. apply cat_inv in Ha. destruct Ha as [a1 [a2 [-> [A1 A2]]]].
    rewrite E, <- app_assoc. apply MCat; [exact A1 | apply MCat; assumption]. }
  destruct (rep_loop_cmp (opt_ d) r (Chr cs) _ mn H1 c Hb M') as [c1 [E1 M1]]. apply ov_ok in E1. destruct E1 as [e1 E1].
  rewrite E1. simpl. rewrite ov_prepend.
  assert (Hb1 : bytes_ok (rest c1)).
  { pose proof (rep_loop_good PT PT_refl PT_trans ev Hgood mn (opt_ d) r eq_refl c) as Gd. rewrite E1 in Gd. simpl in Gd. eapply bytes_ok_adv; eauto. }
  destruct (repopt_loop_cmp d r (Chr cs) K (fun _ => True) Ht Hs (fun _ _ _ _ _ _ => I) (mx - mn) H2 c1 Hb1 M1) as [c2 [evs [b [E2 [K2 B2]]]]]. rewrite E2.
  destruct b; [|exists c2; split; [reflexivity | exact K2]].
  rewrite ov_prepend. exists c2. split; [|exact K2]. eapply not_at_class; eauto.
Qed.

Lemma h_rep_min_max_tot mn mx d r c : TotE r -> bytes_ok (rest c) -> exists v, ov (h_rep_min_max ev mn mx d r c) = Some v.
Proof.
  intros Ht Hb. unfold h_rep_min_max. rewrite ov_guard.
  destruct (rep_loop_tot (opt_ d) r Ht mn c Hb) as [v Ev].
  destruct (rep_loop ev mn (opt_ d) r c) as [[| |e] c1 e1| |] eqn:E1; simpl in Ev; try discriminate; simpl; [|eexists; reflexivity].
  rewrite ov_prepend.
  assert (Hb1 : bytes_ok (rest c1)).
  { pose proof (rep_loop_good PT PT_refl PT_trans ev Hgood mn (opt_ d) r eq_refl c) as Gd. rewrite E1 in Gd. simpl in Gd. eapply bytes_ok_adv; eauto. }
  destruct (repopt_loop_tot d r Ht (mx - mn) c1 Hb1) as [c2 [evs [b [E2 B2]]]]. rewrite E2.
  destruct b; [|eexists; reflexivity]. rewrite ov_prepend. unfold h_at, look.
  destruct (Ht (set_A (opt_ (opt_ d)) false) c2 B2) as [v2 Ev2].
  destruct (ev (set_A (opt_ (opt_ d)) false) r c2) as [[| |e] c3 e3| |]; simpl in Ev2; try discriminate; simpl; eexists; reflexivity.
Qed.

(* --- what can follow a successful match (used to sharpen the quotient conditions) --- *)
Definition nofirst (cs : cset) (t : list byte) : Prop := match t with b :: _ => cs_mem b cs = false | [] => True end.
Definition Any : re := Star (Chr [(0, 255)]).
Lemma any_matches k : bytes_ok k -> matches Any k.
Proof.
  induction k as [|b k IH]; intros Hb; [constructor|]. inversion Hb as [|? ? H1 H2]; subst.
  change (b :: k) with ([b] ++ k). apply MStarS; [|apply IH; exact H2].
  constructor. unfold cs_mem, in_range. simpl. rewrite orb_false_r. apply andb_true_iff. split; apply N.leb_le; lia.
Qed.
Lemma fail_nofirst d r cs c : CmpE r (Chr cs) Any -> ov (ev d r c) = Some None -> bytes_ok (rest c) -> nofirst cs (rest c).
Proof.
  intros Hc Hf Hb. unfold nofirst. destruct (rest c) as [|b k] eqn:Er; [exact I|].
  destruct (cs_mem b cs) eqn:Em; [|reflexivity]. exfalso.
  assert (Hk : bytes_ok k) by (inversion Hb; assumption).
  rewrite <- Er in Hb.
  assert (M : matches (Cat (Chr cs) Any) (rest c)).
  { rewrite Er. change (b :: k) with ([b] ++ k). apply MCat; [constructor; exact Em|]. apply any_matches. exact Hk. }
  destruct (Hc d c Hb M) as [c' [E _]]. rewrite Hf in E. discriminate.
Qed.

Lemma repopt_false d r : forall k c c' evs, repopt_loop ev k d r c = (Res Ok c' evs, false) -> bytes_ok (rest c) ->
  ov (ev (req d) r c') = Some None /\ bytes_ok (rest c').
Proof.
  induction k as [|k IH]; intros c c' evs H Hb; cbn [repopt_loop] in H; [inversion H|].
  destruct (ev (req d) r c) as [[| |e] c1 e1| |] eqn:E1.
  - destruct (repopt_loop ev k d r c1) as [x b] eqn:E2. inversion H; subst b.
    destruct x as [[| |e] c2 e2| |]; simpl in H1; inversion H1; subst. apply (IH c1 c' e2 E2). eapply ok_bytes; eauto.
  - inversion H; subst. assert (c' = c) by (eapply (fail_req (req d)); [reflexivity | exact E1]). subst c'.
    rewrite E1. split; [reflexivity | exact Hb].
  - inversion H.
  - inversion H.
  - inversion H.
Qed.

Lemma h_rep_min_max_fol mn mx d r cs c c' evs : TotE r -> CmpE r (Chr cs) Any ->
  h_rep_min_max ev mn mx d r c = Res Ok c' evs -> bytes_ok (rest c) -> nofirst cs (rest c').
Proof.
  intros Ht Hc H Hb. unfold h_rep_min_max in H. apply guard_ok in H. apply bind_ok in H.
  destruct H as [c1 [e1 [e2 [H1 H2]]]].
  assert (Hb1 : bytes_ok (rest c1)).
  { pose proof (rep_loop_good PT PT_refl PT_trans ev Hgood mn (opt_ d) r eq_refl c) as Gd. rewrite H1 in Gd. simpl in Gd. eapply bytes_ok_adv; eauto. }
  destruct (repopt_loop ev (mx - mn) d r c1) as [x b] eqn:E2.
  destruct x as [[| |e] c2 ev2| |]; try (destruct b; discriminate).
  destruct b.
  - (* ran to completion: not_at< r > succeeded at c2 *)
    destruct (repopt_loop_tot d r Ht (mx - mn) c1 Hb1) as [c2' [evs' [b' [E3 B3]]]]. rewrite E2 in E3. inversion E3; subst c2' evs' b'.
    unfold h_at, look in H2.
    destruct (ev (set_A (opt_ (opt_ d)) false) r c2) as [[| |e] c3 e3| |] eqn:E4; simpl in H2; inversion H2; subst.
    eapply fail_nofirst; eauto. rewrite E4. reflexivity.
  - inversion H2; subst. destruct (repopt_false d r _ _ _ _ E2 Hb1) as [F1 F2]. eapply fail_nofirst; eauto.
Qed.

Fixpoint lastopt (rs : list rid) : option rid :=
  match rs with [] => None | [r] => Some r | _ :: rs' => lastopt rs' end.
Lemma seq_all_last d : forall rs c c' evs rl, seq_all ev d rs c = Res Ok c' evs -> bytes_ok (rest c) -> lastopt rs = Some rl ->
  exists cp e, ev d rl cp = Res Ok c' e /\ bytes_ok (rest cp).
Proof.
  induction rs as [|r rs IH]; intros c c' evs rl H Hb Hl; [discriminate|].
  cbn [seq_all] in H. apply bind_ok in H. destruct H as [c1 [e1 [e2 [H1 H2]]]].
  destruct rs as [|r2 rs'].
  - simpl in Hl. inversion Hl; subst rl. simpl in H2. inversion H2; subst. eauto.
  - apply (IH c1 c' e2 rl H2); [eapply ok_bytes; eauto | exact Hl].
Qed.
End Helpers.

(* ---------- atoms and the maximum_rule leaf ---------- *)
Lemma vres_ov x v : vres x = Some v ->
  match v with Some s => exists c', ov x = Some (Some c') /\ rest c' = s | None => ov x = Some None end.
Proof.
  destruct x as [[| |e] c e2| |]; simpl; intros H; inversion H; subst; [|reflexivity]. exists c. auto.
Qed.

Lemma class_cmp ch cs t c K : class_checked cs t = true -> bytes_ok (rest c) ->
  (exists v, ov (peek_test_bump ch PkChar t c) = Some v) /\
  (matches (Cat (Chr cs) K) (rest c) -> exists c', ov (peek_test_bump ch PkChar t c) = Some (Some c') /\ matches K (rest c')).
Proof.
  intros Hc Hb. pose proof (ptb_char ch t (fun b => cs_mem b cs) c Hb (class_checked_spec cs t Hc)) as V.
  apply vres_ov in V. split.
  - revert V. destruct (atom1 (fun b => cs_mem b cs) (rest c)); intros V; [destruct V as [c' [E1 _]]|]; eexists; eauto.
  - intros M. apply cat_inv in M. destruct M as [a [k [E [Ha Hk]]]]. apply chr_inv in Ha. destruct Ha as [b [-> Hm]].
    rewrite E in V. simpl in V. rewrite Hm in V. destruct V as [c' [E1 E2]]. exists c'. split; [exact E1 | rewrite E2; exact Hk].
Qed.

Lemma oct_ok c w k : rest c = w ++ k -> bytes_ok (rest c) -> matches Rfc3986.dec_octet w -> no_digit_follows k ->
  exists c', maximum_rule 8 255 c tt = MOk c' tt /\ rest c' = k.
Proof.
  intros Hr Hb Mw Hnd.
  assert (Hbw : bytes_ok w) by (rewrite Hr in Hb; eapply bytes_ok_app_l; eauto).
  destruct (dec_octet_numeral w Hbw Mw) as [Hn Hv].
  assert (Hw : (4 <= 8)%nat) by lia. assert (HM : 255 < pow2 8) by (vm_compute; reflexivity).
  destruct (IntegerFacts.maximum_rule_syntax_exact unit 8 255 c tt Hw HM Hb) as [Kx _].
  assert (Lx : unsigned_lexeme (rest c) (length w)) by (exists w, k; auto).
  destruct (Kx (length w) Lx) as [K1 _]. cbv zeta in K1.
  rewrite Hr, IntegerFacts.firstn_app_exact in K1. change (Z.of_N 255) with 255%Z in K1.
  destruct (K1 Hv) as [c' [Hbump Hmax]]. exists c'. split; [exact Hmax|].
  apply IntegerFacts.bump_some_advance in Hbump. destruct Hbump as [-> _]. simpl. rewrite Hr.
  rewrite skipn_app, skipn_all, Nat.sub_diag. reflexivity.
Qed.

Lemma mx_cmp c K : bytes_ok (rest c) ->
  (forall b k, b < 256 -> cs_mem b [(48, 57)] = true -> ~ matches K (b :: k)) ->
  (exists v, ov (mx_result (maximum_rule 8 255 c tt)) = Some v) /\
  (matches (Cat Rfc3986.dec_octet K) (rest c) ->
     exists c', ov (mx_result (maximum_rule 8 255 c tt)) = Some (Some c') /\ matches K (rest c')).
Proof.
  intros Hb Hn. split.
  - unfold maximum_rule. pose proof (match_nothrow_good 8 255 c 0) as Gd.
    destruct (match_nothrow 8 255 c 0); simpl in Gd; try contradiction; simpl; eexists; reflexivity.
  - intros M. apply cat_inv in M. destruct M as [w [k [E [Hw Hk]]]].
    assert (Hnd : no_digit_follows k).
    { destruct k as [|b k']; [exact I|]. simpl. intros Hd.
      assert (Hb256 : b < 256) by (rewrite E in Hb; apply bytes_ok_app_r in Hb; inversion Hb; assumption).
      apply (Hn b k' Hb256); [|exact Hk]. unfold isdigit in Hd. unfold cs_mem, in_range. simpl.
      destruct (N.leb_spec 48 b); [|lia]. destruct (N.leb_spec b 57); [reflexivity | lia]. }
    destruct (oct_ok c w k E Hb Hw Hnd) as [c' [E1 E2]]. rewrite E1. simpl. exists c'. split; [reflexivity | rewrite E2; exact Hk].
Qed.

Lemma atom_cmp h c x R nf K : atom_re h = Some (Some (R, nf)) ->
  (h = HEof -> forall k, bytes_ok k -> matches K k -> k = []) ->
  eval_atom (ceol C0) h c = Some x -> bytes_ok (rest c) ->
  (exists v, ov x = Some v) /\ (matches (Cat R K) (rest c) -> exists c', ov x = Some (Some c') /\ matches K (rest c')).
Proof.
  intros Ha Heof He Hb. destruct h; cbn [atom_re] in Ha; try discriminate.
  - (* success *) inversion Ha; subst. simpl in He. inversion He; subst. split; [eexists; reflexivity|].
    intros M. apply cat_inv in M. destruct M as [a [k [E [Ha' Hk]]]]. apply eps_inv in Ha'. subst a.
    exists c. split; [reflexivity | rewrite E; exact Hk].
  - (* failure *) inversion Ha; subst. simpl in He. inversion He; subst. split; [eexists; reflexivity|].
    intros M. apply cat_inv in M. destruct M as [a [k [_ [Ha' _]]]]. exfalso. eapply empty_inv; eauto.
  - (* eof *) inversion Ha; subst. simpl in He. inversion He; subst. split; [destruct (in_empty c); eexists; reflexivity|].
    intros M. apply cat_inv in M. destruct M as [a [k [E [Ha' Hk]]]]. apply eps_inv in Ha'. subst a. simpl in E.
    assert (Hk0 : k = []) by (apply (Heof eq_refl); [rewrite <- E; exact Hb | exact Hk]).
    rewrite Hk0 in E. unfold in_empty. rewrite E. exists c. split; [reflexivity | rewrite E, <- Hk0; exact Hk].
  - (* one *) destruct found; try discriminate. destruct pk; try discriminate.
    unfold class_re in Ha. destruct (class_checked (cs_of_one cs) (test_one_set true cs)) eqn:Ec; [|discriminate].
    inversion Ha; subst. cbn [eval_atom] in He. inversion He; subst. apply class_cmp; assumption.
  - (* range *) destruct found; try discriminate. destruct pk; try discriminate.
    unfold class_re in Ha. destruct (class_checked [(z2n lo, z2n hi)] (test_one_range true lo hi)) eqn:Ec; [|discriminate].
    inversion Ha; subst. cbn [eval_atom] in He. inversion He; subst. apply class_cmp; assumption.
  - (* ranges *) destruct pk; try discriminate.
    unfold class_re in Ha. destruct (class_checked (cs_of_ranges cs) (test_ranges cs)) eqn:Ec; [|discriminate].
    inversion Ha; subst. cbn [eval_atom] in He. inversion He; subst. apply class_cmp; assumption.
  - (* string *) inversion Ha; subst. pose proof (string_verdict (ceol C0) cs c x He) as V. apply vres_ov in V. split.
    + revert V. destruct (strip cs (rest c)); intros V; [destruct V as [c' [E1 _]]|]; eexists; eauto.
    + intros M. apply cat_inv in M. destruct M as [a [k [E [Ha' Hk]]]]. apply cat_list_iff in Ha'. apply lits_inv in Ha'. subst a.
      rewrite E, strip_complete in V. destruct V as [c' [E1 E2]]. exists c'. split; [exact E1 | rewrite E2; exact Hk].
  - (* opaque *) inversion Ha; subst. simpl in He. inversion He; subst. split; [eexists; reflexivity|].
    intros M. apply cat_inv in M. destruct M as [a [k [_ [Ha' _]]]]. exfalso. eapply empty_inv; eauto.
Qed.

(* ---------- the computable certificate ---------- *)
Definition CF : nat := 1000 * 1000.

(* the byte class that cannot start the rest after node r succeeded (None = no information) *)
Fixpoint nfol (n : nat) (r : rid) : option cset :=
  match n with
  | O => None
  | S n' =>
    match nth_error G r with
    | None => None
    | Some nd =>
      match MX r with
      | Some _ => Some [(48, 57)]
      | None =>
        match nhead nd, nsubs nd with
        | HRepMinMax _ _, [r1] => match re_of G MX n' r1 with Some (Chr cs, _) => Some cs | _ => None end
        | HSeq, rs => match rs with _ :: _ :: _ => match lastopt rs with Some rl => nfol n' rl | None => None end | _ => None end
        | _, _ => None
        end
      end
    end
  end.
Definition nf_pred (o : option cset) (t : list byte) : Prop := match o with Some cs => nofirst cs t | None => True end.
Definition Kx (o : option cset) (K : re) : re := match o with Some cs => Alt K (Cat (Chr cs) Any) | None => K end.
Lemma kx_sem o K t : nf_pred o t -> matches (Kx o K) t -> matches K t.
Proof.
  destruct o as [cs|]; simpl; [|auto]. intros Hn M. apply alt_inv in M. destruct M as [M|M]; [exact M|].
  exfalso. apply cat_inv in M. destruct M as [a [k [-> [Ha _]]]]. apply chr_inv in Ha. destruct Ha as [b [-> Hm]].
  simpl in Hn. congruence.
Qed.

Fixpoint cc_seq (sub : rid -> re -> bool) (subre : rid -> option (re * bool)) (rs : list rid) (K : re) : bool :=
  match rs with
  | [] => true
  | r :: rs' => match subs_re subre rs' with
                | Some l => sub r (Cat (fr (map fst l)) K) && cc_seq sub subre rs' K
                | None => false
                end
  end.
Fixpoint cc_sor (sub : rid -> re -> bool) (subre : rid -> option (re * bool)) (fol : rid -> option cset) (rs : list rid) (K : re) : bool :=
  match rs with
  | [] => true
  | r :: rs' => match subre r, subs_re subre rs' with
                | Some (R, _), Some l => sub r K && quot_auto CF R (Cat (fa (map fst l)) K) (Kx (fol r) K) && cc_sor sub subre fol rs' K
                | _, _ => false
                end
  end.
Fixpoint cc_rep (sub : rid -> re -> bool) (r : rid) (R : re) (k : nat) (K : re) : bool :=
  match k with O => true | S k' => sub r (Cat (pow k' R) K) && cc_rep sub r R k' K end.
Fixpoint cc_repopt (sub : rid -> re -> bool) (o : option cset) (r : rid) (R : re) (k : nat) (K : re) : bool :=
  match k with
  | O => true
  | S k' => let L := Cat (pow k' (Alt R Eps)) K in sub r L && quot_auto CF R L (Kx o L) && cc_repopt sub o r R k' K
  end.

Fixpoint cc (n : nat) (r : rid) (K : re) : bool :=
  match n with
  | O => false
  | S n' =>
    match nth_error G r with
    | None => false
    | Some nd =>
      match MX r with
      | Some (w, mx) => Nat.eqb w 8 && (mx =? 255) && noprefix [(48, 57)] K
      | None =>
        match atom_re (nhead nd) with
        | Some (Some _) => match nhead nd with HEof => incl_auto CF K Eps | _ => true end
        | Some None => false
        | None =>
          match nhead nd, nsubs nd with
          | HSeq, rs => cc_seq (cc n') (re_of G MX n') rs K
          | HSor, rs => cc_sor (cc n') (re_of G MX n') (nfol n') rs K
          | HPartial, [r1] => match re_of G MX n' r1 with
                              | Some (R, _) => cc n' r1 K && quot_auto CF R K (Kx (nfol n' r1) K)
                              | None => false end
          | HRep (S k), [r1] => match re_of G MX n' r1 with Some (R, _) => cc_rep (cc n') r1 R (S k) K | None => false end
          | HRepOpt (S k), [r1] => match re_of G MX n' r1 with Some (R, _) => cc_repopt (cc n') (nfol n' r1) r1 R (S k) K | None => false end
          | HRepMinMax (S mn0) mx, [r1] =>
              let mn := S mn0 in
              match re_of G MX n' r1 with
              | Some (Chr cs, _) => noprefix cs K && cc n' r1 Any
                                    && cc_rep (cc n') r1 (Chr cs) mn (Cat (pow (mx - mn) (Alt (Chr cs) Eps)) K)
                                    && cc_repopt (cc n') None r1 (Chr cs) (mx - mn) K
              | _ => false end
          | _, _ => false
          end
        end
      end
    end
  end.

Lemma quot_sem o R L K : quot_auto CF R L (Kx o K) = true ->
  forall w t, bytes_ok (w ++ t) -> matches R w -> nf_pred o t -> matches L (w ++ t) -> matches K t.
Proof.
  intros H w t Hb Mw Hn Ml. apply (kx_sem o K t Hn).
  exact (quot_auto_sound CF R L (Kx o K) H w t (bytes_ok_app_l _ _ Hb) (bytes_ok_app_r _ _ Hb) Mw Ml).
Qed.

Lemma cat_cong A A' K s : (forall w, matches A w <-> matches A' w) -> matches (Cat A K) s -> matches (Cat A' K) s.
Proof. intros H M. apply cat_inv in M. destruct M as [a [k [-> [Ha Hk]]]]. apply MCat; [apply H; exact Ha | exact Hk]. Qed.

Definition FolOK (n : nat) (r : rid) : Prop :=
  forall d c c' evs, bytes_ok (rest c) -> evalx G C0 MX n d r c = Res Ok c' evs -> nf_pred (nfol n r) (rest c').

Section Step.
Variable n : nat.
Let ev := evalx G C0 MX n.
Hypothesis IH : forall r K R nf, cc n r K = true -> re_of G MX n r = Some (R, nf) -> Tot n r /\ CmpR n r R K /\ FolOK n r.

Lemma Hgd : forall d r c, goodT (dM d) c (ev d r c).
Proof. intros. apply evalx_good. exact HG. Qed.
Lemma sound_sub r R nf : re_of G MX n r = Some (R, nf) -> SoundE ev r R.
Proof.
  intros Hr d c c' evs Hb E.
  pose proof (evalx_inv G C0 MX HG C0_acts C0_rof n n d r c R nf Hr Hb) as K. unfold ev in E. rewrite E in K. exact K.
Qed.

Lemma cc_seq_ok K : forall rs l, subs_re (re_of G MX n) rs = Some l -> cc_seq (cc n) (re_of G MX n) rs K = true ->
  SeqOK ev rs (map fst l) K /\ Forall (TotE ev) rs.
Proof.
  induction rs as [|r rs IHrs]; intros l Hs Hc; simpl in Hs.
  - inversion Hs; subst. simpl. split; [exact I | constructor].
  - destruct (re_of G MX n r) as [[R nf]|] eqn:Er; [|discriminate].
    destruct (subs_re (re_of G MX n) rs) as [l'|] eqn:El; [|discriminate]. inversion Hs; subst. clear Hs.
    cbn [cc_seq] in Hc. rewrite El in Hc. apply andb_true_iff in Hc. destruct Hc as [C1 C2].
    destruct (IH r _ R nf C1 Er) as [T1 [P1 _]]. destruct (IHrs l' eq_refl C2) as [S2 T2].
    split; [simpl; split; [exact P1 | exact S2] | constructor; [exact T1 | exact T2]].
Qed.

Lemma cc_sor_ok K : forall rs l, subs_re (re_of G MX n) rs = Some l -> cc_sor (cc n) (re_of G MX n) (nfol n) rs K = true ->
  SorOK ev rs (map fst l) K /\ Forall (TotE ev) rs.
Proof.
  induction rs as [|r rs IHrs]; intros l Hs Hc; simpl in Hs.
  - inversion Hs; subst. simpl. split; [exact I | constructor].
  - destruct (re_of G MX n r) as [[R nf]|] eqn:Er; [|discriminate].
    destruct (subs_re (re_of G MX n) rs) as [l'|] eqn:El; [|discriminate]. inversion Hs; subst. clear Hs.
    cbn [cc_sor] in Hc. rewrite Er, El in Hc. rewrite !andb_true_iff in Hc. destruct Hc as [[C1 Q1] C2].
    destruct (IH r _ R nf C1 Er) as [T1 [P1 F1]]. destruct (IHrs l' eq_refl C2) as [S2 T2].
    split; [|constructor; [exact T1 | exact T2]].
    simpl. split; [exact P1|]. split; [exact T1|]. split; [eapply sound_sub; eauto|]. split; [|exact S2].
    exists (nf_pred (nfol n r)). split; [exact F1|]. apply (quot_sem (nfol n r)). exact Q1.
Qed.

Lemma cc_rep_ok r R nf K : re_of G MX n r = Some (R, nf) -> forall k, cc_rep (cc n) r R k K = true -> RepOK ev r R k K.
Proof.
  intros Er. induction k as [|k IHk]; intros Hc; simpl; [exact I|].
  cbn [cc_rep] in Hc. apply andb_true_iff in Hc. destruct Hc as [C1 C2].
  split; [exact (proj1 (proj2 (IH r _ R nf C1 Er))) | apply IHk; exact C2].
Qed.
Lemma cc_repopt_ok o r R nf K : re_of G MX n r = Some (R, nf) -> forall k, cc_repopt (cc n) o r R k K = true -> RepOptOK ev r R (nf_pred o) k K.
Proof.
  intros Er. induction k as [|k IHk]; intros Hc; simpl; [exact I|].
  cbn [cc_repopt] in Hc. rewrite !andb_true_iff in Hc. destruct Hc as [[C1 Q1] C2].
  split; [exact (proj1 (proj2 (IH r _ R nf C1 Er)))|]. split; [apply (quot_sem o); exact Q1 | apply IHk; exact C2].
Qed.
End Step.

Lemma ov_seq1 (ev : dyn -> rid -> cursor -> result) d r c : ov (seq_all ev d [r] c) = ov (ev d r c).
Proof. cbn [seq_all]. unfold bind. destruct (ev d r c) as [[| |e] c1 e1| |]; reflexivity. Qed.

Lemma node_ok n d r c nd c' evs : nth_error G r = Some nd -> evalx G C0 MX (S n) d r c = Res Ok c' evs ->
  exists evs', (match MX r with
       | Some (w, mx) => fun (_ : dyn) (c0 : cursor) => mx_result (maximum_rule w mx c0 tt)
       | None => eval_head C0 (evalx G C0 MX n) n r (nhead nd) (nsubs nd)
       end) d c = Res Ok c' evs'.
Proof.
  intros En H. pose proof (ov_node n d r c nd En) as Q. rewrite H in Q. simpl in Q. symmetry in Q. apply ov_ok in Q. exact Q.
Qed.

Lemma mx_fol c c' evs : bytes_ok (rest c) -> mx_result (maximum_rule 8 255 c tt) = Res Ok c' evs -> nofirst [(48, 57)] (rest c').
Proof.
  intros Hb H. unfold maximum_rule in H.
  assert (Hw : (4 <= 8)%nat) by lia. assert (HM : 255 < pow2 8) by (vm_compute; reflexivity).
  pose proof (IntegerFacts.match_nothrow_char 8 255 c Hw HM Hb) as K.
  destruct (lex_unsigned (rest c)) as [k|] eqn:El.
  - cbv zeta in K. destruct K as [K1 K2]. change (Z.of_N 255) with 255%Z in *.
    destruct (Z.le_gt_cases (unsigned_value (firstn k (rest c))) 255) as [L|L].
    + rewrite (K1 L) in H. simpl in H. inversion H; subst. simpl.
      apply IntegerFacts.lex_unsigned_iff in El. destruct El as [ds [r0 [Es [Ek [_ Hnd]]]]].
      rewrite Es. subst k. rewrite skipn_app, skipn_all, Nat.sub_diag. simpl.
      unfold nofirst. destruct r0 as [|b r0']; [exact I|]. simpl in Hnd. unfold isdigit in Hnd.
      unfold cs_mem, in_range. simpl. destruct (N.leb_spec 48 b); [|reflexivity]. destruct (N.leb_spec b 57); [exfalso; apply Hnd; lia | reflexivity].
    + destruct (K2 L) as [st' Hs]. rewrite Hs in H. simpl in H. discriminate.
  - rewrite K in H. simpl in H. discriminate.
Qed.

Lemma cc_seq_last n K : forall rs l rl, subs_re (re_of G MX n) rs = Some l -> cc_seq (cc n) (re_of G MX n) rs K = true ->
  lastopt rs = Some rl -> exists Kl Rl nfl, cc n rl Kl = true /\ re_of G MX n rl = Some (Rl, nfl).
Proof.
  induction rs as [|a rs0 IHr]; intros l rl El Hc Elast; [discriminate|].
  simpl in El. destruct (re_of G MX n a) as [[Ra nfa]|] eqn:Era; [|discriminate].
  destruct (subs_re (re_of G MX n) rs0) as [l'|] eqn:El'; [|discriminate].
  cbn [cc_seq] in Hc. rewrite El' in Hc. apply andb_true_iff in Hc. destruct Hc as [C1 C2].
  destruct rs0 as [|b rs1].
  - simpl in Elast. inversion Elast; subst. eauto.
  - apply (IHr l' rl eq_refl C2). exact Elast.
Qed.

Theorem cc_sound : forall n r K R nf, cc n r K = true -> re_of G MX n r = Some (R, nf) -> Tot n r /\ CmpR n r R K /\ FolOK n r.
Proof.
  induction n as [|n IH]; intros r K R nf Hc Hr; [discriminate|].
  cbn [cc re_of] in Hc, Hr. destruct (nth_error G r) as [nd|] eqn:En; [|discriminate].
  assert (Split : (Tot (S n) r /\ CmpR (S n) r R K) -> FolOK (S n) r -> Tot (S n) r /\ CmpR (S n) r R K /\ FolOK (S n) r) by tauto.
  unfold re_step in Hr. destruct (MX r) as [[w mx]|] eqn:Em.
  - (* maximum_rule leaf *)
    rewrite !andb_true_iff in Hc. destruct Hc as [[E1 E2] Hn]. apply Nat.eqb_eq in E1. apply N.eqb_eq in E2. subst w mx.
    simpl in Hr. inversion Hr; subst R nf.
    apply Split.
    + unfold Tot, CmpR. setoid_rewrite (fun d c => ov_node n d r c nd En). rewrite Em.
      split; intros d c Hb; [apply (proj1 (mx_cmp c K Hb (noprefix_sound _ _ Hn))) | apply (proj2 (mx_cmp c K Hb (noprefix_sound _ _ Hn)))].
    + intros d c c' evs Hb H. destruct (node_ok n d r c nd c' evs En H) as [e2 H2]. rewrite Em in H2.
      cbn [nfol]. rewrite En, Em. simpl. eapply mx_fol; eauto.
  - destruct (atom_re (nhead nd)) as [[y|]|] eqn:Ea.
    + (* atoms *)
      inversion Hr; subst y.
      assert (Heof : nhead nd = HEof -> forall k, bytes_ok k -> matches K k -> k = []).
      { intros Eh k Hk Mk. rewrite Eh in Hc. pose proof (incl_auto_sound CF K Eps Hc k Hk Mk) as Me. apply eps_inv in Me. exact Me. }
      assert (Q : forall d c, bytes_ok (rest c) ->
                 (exists v, ov (eval_head C0 (evalx G C0 MX n) n r (nhead nd) (nsubs nd) d c) = Some v) /\
                 (matches (Cat R K) (rest c) -> exists c', ov (eval_head C0 (evalx G C0 MX n) n r (nhead nd) (nsubs nd) d c) = Some (Some c') /\ matches K (rest c'))).
      { intros d c Hb. destruct (atom_is_atom (nhead nd) (ceol C0) c (R, nf) Ea) as [x Hx].
        unfold eval_head. rewrite Hx. eapply atom_cmp; eauto. }
      apply Split.
      * unfold Tot, CmpR. setoid_rewrite (fun d c => ov_node n d r c nd En). rewrite Em.
        split; intros d c Hb; [apply (proj1 (Q d c Hb)) | apply (proj2 (Q d c Hb))].
      * intros d c c' evs Hb H. cbn [nfol]. rewrite En, Em.
        destruct (nhead nd); cbn [atom_re] in Ea; try discriminate; try exact I; try (destruct found; discriminate).
    + discriminate.
    + (* combinators *)
      pose proof (Hgd n) as Hgood.
      assert (IH' : forall r0 K0 R0 nf0, cc n r0 K0 = true -> re_of G MX n r0 = Some (R0, nf0) -> Tot n r0 /\ CmpR n r0 R0 K0) by (intros; edestruct IH as [A [B _]]; eauto).
      destruct (nhead nd) eqn:Eh; cbn [atom_re] in Ea; try discriminate; try (destruct found; discriminate); try discriminate.
      * (* seq *)
        destruct (subs_re (re_of G MX n) (nsubs nd)) as [l|] eqn:El; [|discriminate]. simpl in Hr. inversion Hr; subst R nf.
        destruct (cc_seq_ok n IH K (nsubs nd) l El Hc) as [S1 T1].
        assert (Q : forall d c, ov (h_seq (evalx G C0 MX n) d (nsubs nd) c) = ov (seq_all (evalx G C0 MX n) (match nsubs nd with [_] => d | _ => opt_ d end) (nsubs nd) c)).
        { intros d c. unfold h_seq. destruct (nsubs nd) as [|r1 [|r2 rs]]; [apply ov_guard | symmetry; apply ov_seq1 | apply ov_guard]. }
        apply Split.
        -- unfold Tot, CmpR. setoid_rewrite (fun d c => ov_node n d r c nd En). rewrite Em. unfold eval_head. rewrite Eh. cbn [eval_atom].
           split; intros d c Hb; rewrite Q.
           ++ apply (seq_all_tot (evalx G C0 MX n) Hgood); assumption.
           ++ intros M. apply (seq_all_cmp (evalx G C0 MX n) Hgood _ (nsubs nd) (map fst l) K S1 c Hb).
              eapply cat_cong; [|exact M]. intros w0. apply cat_list_iff.
        -- intros d c c' evs Hb H. destruct (node_ok n d r c nd c' evs En H) as [e2 H2]. rewrite Em in H2.
           cbn [nfol]. rewrite En, Em, Eh.
           destruct (nsubs nd) as [|r1 [|r2 rs]] eqn:Ens; try exact I.
           destruct (lastopt (r1 :: r2 :: rs)) as [rl|] eqn:Elast; [|exact I].
           unfold eval_head in H2. rewrite Eh in H2. cbn [eval_atom] in H2. unfold h_seq in H2. apply guard_ok in H2.
           destruct (seq_all_last (evalx G C0 MX n) Hgood (opt_ d) (r1 :: r2 :: rs) c c' e2 rl H2 Hb Elast) as [cp [e3 [H3 Hbp]]].
           (* the last sub-rule has a certificate: it occurs in the list checked by cc_seq *)
           pose proof (cc_seq_last n K _ l rl El Hc Elast) as Hin.
           destruct Hin as [Kl [Rl [nfl [Cl Rel]]]]. destruct (IH rl Kl Rl nfl Cl Rel) as [_ [_ Fl]].
           exact (Fl (opt_ d) cp c' e3 Hbp H3).
      * (* sor *)
        destruct (subs_re (re_of G MX n) (nsubs nd)) as [l|] eqn:El; [|discriminate]. simpl in Hr. inversion Hr; subst R nf.
        destruct (cc_sor_ok n IH K (nsubs nd) l El Hc) as [S1 T1].
        apply Split.
        -- unfold Tot, CmpR. setoid_rewrite (fun d c => ov_node n d r c nd En). rewrite Em. unfold eval_head. rewrite Eh. cbn [eval_atom].
           split; intros d c Hb.
           ++ apply (sor_any_tot (evalx G C0 MX n) Hgood); assumption.
           ++ intros M. apply (sor_any_cmp (evalx G C0 MX n) Hgood d (nsubs nd) (map fst l) K S1 c Hb).
              eapply cat_cong; [|exact M]. intros w0. apply alt_list_iff.
        -- intros d c c' evs Hb H. cbn [nfol]. rewrite En, Em, Eh. exact I.
      * (* partial *)
        destruct (nsubs nd) as [|r1 [|? ?]] eqn:Ens; try discriminate.
        destruct (re_of G MX n r1) as [[R1 nf1]|] eqn:E1; [|discriminate]. simpl in Hr. inversion Hr; subst R nf.
        apply andb_true_iff in Hc. destruct Hc as [C1 Q1]. destruct (IH r1 K R1 nf1 C1 E1) as [T1 [P1 F1]].
        apply Split.
        -- unfold Tot, CmpR. setoid_rewrite (fun d c => ov_node n d r c nd En). rewrite Em. unfold eval_head. rewrite Eh, Ens. cbn [eval_atom].
           split; intros d c Hb.
           ++ apply h_partial_tot; assumption.
           ++ intros M. apply (h_partial_cmp (evalx G C0 MX n) Hgood d r1 R1 K c (nf_pred (nfol n r1)) P1 T1 (sound_sub n r1 R1 nf1 E1) F1 (quot_sem _ _ _ _ Q1) Hb M).
        -- intros d c c' evs Hb H. cbn [nfol]. rewrite En, Em, Eh. exact I.
      * (* rep *)
        destruct n0 as [|k0]; [discriminate|].
        destruct (nsubs nd) as [|r1 [|? ?]] eqn:Ens; try discriminate.
        destruct (re_of G MX n r1) as [[R1 nf1]|] eqn:E1; [|discriminate]. simpl in Hr. inversion Hr; subst R nf.
        pose proof (cc_rep_ok n IH r1 R1 nf1 K E1 _ Hc) as R1ok.
        assert (T1 : TotE (evalx G C0 MX n) r1).
        { cbn [cc_rep] in Hc. apply andb_true_iff in Hc. destruct Hc as [C1 _]. exact (proj1 (IH' r1 _ R1 nf1 C1 E1)). }
        apply Split.
        -- unfold Tot, CmpR. setoid_rewrite (fun d c => ov_node n d r c nd En). rewrite Em. unfold eval_head. rewrite Eh, Ens. cbn [eval_atom].
           split; intros d c Hb; unfold h_rep; rewrite ov_guard.
           ++ apply (rep_loop_tot (evalx G C0 MX n) Hgood); assumption.
           ++ intros M. apply (rep_loop_cmp (evalx G C0 MX n) Hgood (opt_ d) r1 R1 K _ R1ok c Hb M).
        -- intros d c c' evs Hb H. cbn [nfol]. rewrite En, Em, Eh. exact I.
      * (* rep_min_max *)
        destruct mn as [|mn0]; [discriminate|].
        destruct (nsubs nd) as [|r1 [|? ?]] eqn:Ens; try discriminate.
        destruct (re_of G MX n r1) as [[R1 nf1]|] eqn:E1; [|discriminate]. destruct R1; try discriminate.
        simpl in Hr. inversion Hr; subst R nf.
        rewrite !andb_true_iff in Hc. destruct Hc as [[[Hn Ca] C1] C2].
        pose proof (cc_rep_ok n IH r1 (Chr cs) nf1 _ E1 _ C1) as Rok.
        pose proof (cc_repopt_ok n IH None r1 (Chr cs) nf1 K E1 _ C2) as Ook.
        destruct (IH' r1 Any (Chr cs) nf1 Ca E1) as [T1 Pa].
        apply Split.
        -- unfold Tot, CmpR. setoid_rewrite (fun d c => ov_node n d r c nd En). rewrite Em. unfold eval_head. rewrite Eh, Ens. cbn [eval_atom].
           split; intros d c Hb.
           ++ apply (h_rep_min_max_tot (evalx G C0 MX n) Hgood); assumption.
           ++ intros M. apply (h_rep_min_max_cmp (evalx G C0 MX n) Hgood (S mn0) mx d r1 cs K c T1 (sound_sub n r1 (Chr cs) nf1 E1) (noprefix_sound _ _ Hn) Rok Ook Hb M).
        -- intros d c c' evs Hb H. destruct (node_ok n d r c nd c' evs En H) as [e2 H2]. rewrite Em in H2.
           cbn [nfol]. rewrite En, Em, Eh, Ens, E1. simpl.
           unfold eval_head in H2. rewrite Eh, Ens in H2. cbn [eval_atom] in H2.
           eapply (h_rep_min_max_fol (evalx G C0 MX n) Hgood); eauto.
      * (* rep_opt *)
        destruct mx as [|k0]; [discriminate|].
        destruct (nsubs nd) as [|r1 [|? ?]] eqn:Ens; try discriminate.
        destruct (re_of G MX n r1) as [[R1 nf1]|] eqn:E1; [|discriminate]. simpl in Hr. inversion Hr; subst R nf.
        pose proof (cc_repopt_ok n IH (nfol n r1) r1 R1 nf1 K E1 _ Hc) as Ook.
        assert (TF : TotE (evalx G C0 MX n) r1 /\ FolE (evalx G C0 MX n) r1 (nf_pred (nfol n r1))).
        { cbn [cc_repopt] in Hc. rewrite !andb_true_iff in Hc. destruct Hc as [[C3 _] _]. destruct (IH r1 _ R1 nf1 C3 E1) as [A [_ B]]. split; assumption. }
        destruct TF as [T1 F1].
        apply Split.
        -- unfold Tot, CmpR. setoid_rewrite (fun d c => ov_node n d r c nd En). rewrite Em. unfold eval_head. rewrite Eh, Ens. cbn [eval_atom].
           split; intros d c Hb; unfold h_rep_opt.
           ++ destruct (repopt_loop_tot (evalx G C0 MX n) Hgood d r1 T1 (S k0) c Hb) as [c' [evs [b [E2 _]]]]. rewrite E2. eexists; reflexivity.
           ++ intros M. destruct (repopt_loop_cmp (evalx G C0 MX n) Hgood d r1 R1 K (nf_pred (nfol n r1)) T1 (sound_sub n r1 R1 nf1 E1) F1 (S k0) Ook c Hb M) as [c' [evs [b [E2 [K2 _]]]]].
              rewrite E2. exists c'. split; [reflexivity | exact K2].
        -- intros d c c' evs Hb H. cbn [nfol]. rewrite En, Em, Eh. exact I.
Qed.
End Complete.

(* ---------- the generated URI table ---------- *)
Definition complete_cert (t : top) : bool :=
  match uri_re t with
  | Some (R, _) => incl_auto CF (rfc t) R && cc uri_table uri_mx uri_re_depth (uri_root t) Eps
  | None => false
  end.

Lemma complete_of_cert t : complete_cert t = true ->
  forall s, bytes_ok s -> matches (rfc t) s -> uri_accepts t s.
Proof.
  unfold complete_cert, uri_re. intros Hc s Hs M.
  destruct (re_of uri_table uri_mx uri_re_depth (uri_root t)) as [[R nf]|] eqn:ER; [|discriminate].
  apply andb_true_iff in Hc. destruct Hc as [Hi Hcc].
  destruct (cc_sound uri_table uri_mx uri_table_wf uri_re_depth (uri_root t) Eps R nf Hcc ER) as [_ [Cm _]].
  assert (M2 : matches (Cat R Eps) (rest (mkcur s pos0))).
  { simpl. rewrite <- (app_nil_r s). apply MCat; [|constructor]. eapply incl_auto_sound; eauto. }
  destruct (Cm d0 (mkcur s pos0) Hs M2) as [c' [E _]]. apply ov_ok in E. destruct E as [evs E].
  exists uri_re_depth, c', evs. exact E.
Qed.
