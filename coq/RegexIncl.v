(* RegexIncl.v — a verified decision procedure for language inclusion of regular expressions:
     incl_auto fuel a b = true  ->  forall s over bytes < 256, matches a s -> matches b s.
   The exploration of pairs of simultaneous Brzozowski derivatives (explore) is NOT trusted: only its
   result, a finite table of pairs, is checked (check): the start pair is in the table, every pair
   (x, y) of the table has "x nullable -> y nullable", and the derivative pair for every class
   representative is again in the table.  Soundness of the check is a plain induction on the input.
   Bytes are grouped into classes that no byte class occurring in the two expressions separates;
   the grouping is also checked, not trusted (reps_ok). *)
From Coq Require Import List NArith PArith Bool Lia FMapPositive.
From PegtlV Require Import Regex.
Import ListNotations.
Local Open Scope N_scope.

Definition bytes_lt256 (s : list N) : Prop := Forall (fun b => b < 256) s.
Definition all_bytes : list N := map N.of_nat (seq 0 256).
Lemma all_bytes_in c : c < 256 -> In c all_bytes.
Proof.
  intros H. unfold all_bytes. rewrite <- (N2Nat.id c). apply in_map. apply in_seq. lia.
Qed.

(* ---------- the byte classes occurring in an expression ---------- *)
Fixpoint csets (r : re) : list cset :=
  match r with
  | Chr cs => [cs]
  | Cat a b => csets a ++ csets b
  | Alt a b => csets a ++ csets b
  | Star a => csets a
  | _ => []
  end.

Lemma deriv_ext c c' r : (forall cs, In cs (csets r) -> cs_mem c cs = cs_mem c' cs) -> deriv c r = deriv c' r.
Proof.
  induction r as [| |cs|a IHa b IHb|a IHa b IHb|a IHa]; intros H; cbn [deriv]; try reflexivity.
  - rewrite (H cs) by (left; reflexivity). reflexivity.
  - rewrite IHa, IHb; [reflexivity | |]; intros cs Hc; apply H; cbn [csets]; apply in_or_app; auto.
  - rewrite IHa, IHb; [reflexivity | |]; intros cs Hc; apply H; cbn [csets]; apply in_or_app; auto.
  - rewrite IHa; [reflexivity|]. intros cs Hc. apply H. exact Hc.
Qed.

Definition cset_eqb (a b : cset) : bool := match cmp_cset a b with Eq => true | _ => false end.
Lemma cset_eqb_eq a b : cset_eqb a b = true -> a = b.
Proof. unfold cset_eqb. destruct (cmp_cset a b) eqn:E; try discriminate. intros _. apply cmp_cset_eq. exact E. Qed.

Definition atoms_in (atoms : list cset) (r : re) : bool :=
  forallb (fun cs => existsb (cset_eqb cs) atoms) (csets r).
Lemma atoms_in_spec atoms r : atoms_in atoms r = true -> forall cs, In cs (csets r) -> In cs atoms.
Proof.
  unfold atoms_in. rewrite forallb_forall. intros H cs Hc. specialize (H cs Hc).
  apply existsb_exists in H. destruct H as [x [Hx E]]. apply cset_eqb_eq in E. subst. exact Hx.
Qed.

Definition same_sig (atoms : list cset) (c c' : N) : bool :=
  forallb (fun cs => Bool.eqb (cs_mem c cs) (cs_mem c' cs)) atoms.
Definition reps_ok (atoms : list cset) (reps : list N) : bool :=
  forallb (fun c => existsb (same_sig atoms c) reps) all_bytes.
Lemma reps_ok_spec atoms reps c : reps_ok atoms reps = true -> c < 256 ->
  exists c', In c' reps /\ forall cs, In cs atoms -> cs_mem c cs = cs_mem c' cs.
Proof.
  unfold reps_ok. rewrite forallb_forall. intros H Hc. specialize (H c (all_bytes_in c Hc)).
  apply existsb_exists in H. destruct H as [c' [Hin Hs]]. exists c'. split; [exact Hin|].
  unfold same_sig in Hs. rewrite forallb_forall in Hs. intros cs Hcs. specialize (Hs cs Hcs).
  apply eqb_prop in Hs. exact Hs.
Qed.

(* ---------- the table of visited pairs ---------- *)
(* hash without division: multiply by small constants and mask to 24 bits *)
Definition HM : N := 16777215.
Fixpoint hash_cs (cs : cset) : N :=
  match cs with
  | [] => 7
  | p :: t => N.land (fst p * 131 + snd p * 31 + hash_cs t * 17 + 3) HM
  end.
Fixpoint re_hash (r : re) : N :=
  match r with
  | Empty => 1
  | Eps => 2
  | Chr cs => N.land (hash_cs cs * 5 + 11) HM
  | Cat a b => N.land (re_hash a * 37 + re_hash b * 101 + 13) HM
  | Alt a b => N.land (re_hash a * 43 + re_hash b * 107 + 17) HM
  | Star a => N.land (re_hash a * 53 + 19) HM
  end.
Definition pair_key (p : re * re) : positive := N.succ_pos (N.land (re_hash (fst p) * 61 + re_hash (snd p)) HM).

Definition table := PositiveMap.t (list (re * re)).
Definition pair_eqb (p q : re * re) : bool := re_eqb (fst p) (fst q) && re_eqb (snd p) (snd q).
Lemma pair_eqb_eq p q : pair_eqb p q = true -> p = q.
Proof.
  unfold pair_eqb. rewrite andb_true_iff. intros [H1 H2]. apply re_eqb_eq in H1. apply re_eqb_eq in H2.
  destruct p, q. simpl in *. subst. reflexivity.
Qed.
Definition mem (tbl : table) (p : re * re) : bool :=
  match PositiveMap.find (pair_key p) tbl with
  | Some l => existsb (pair_eqb p) l
  | None => false
  end.
Definition add (tbl : table) (p : re * re) : table :=
  let k := pair_key p in
  PositiveMap.add k (p :: match PositiveMap.find k tbl with Some l => l | None => [] end) tbl.

Definition is_empty (r : re) : bool := match r with Empty => true | _ => false end.

Section Check.
Variable atoms : list cset.
Variable reps : list N.

Definition succs (p : re * re) : list (re * re) := map (fun c => (deriv c (fst p), deriv c (snd p))) reps.

(* untrusted exploration *)
Fixpoint explore (fuel : nat) (todo : list (re * re)) (tbl : table) : option table :=
  match fuel with
  | O => None
  | S f =>
    match todo with
    | [] => Some tbl
    | p :: todo' =>
        if mem tbl p then explore f todo' tbl
        else if is_empty (fst p) then explore f todo' (add tbl p)
        else explore f (succs p ++ todo') (add tbl p)
    end
  end.

(* the checked condition *)
Definition check_pair (tbl : table) (p : re * re) : bool :=
  is_empty (fst p) ||
  (atoms_in atoms (fst p) && atoms_in atoms (snd p) && implb (nullable (fst p)) (nullable (snd p)) && forallb (mem tbl) (succs p)).
Definition check (tbl : table) : bool :=
  forallb (fun kv => forallb (check_pair tbl) (snd kv)) (PositiveMap.elements tbl).

Lemma check_mem tbl p : check tbl = true -> mem tbl p = true -> check_pair tbl p = true.
Proof.
  unfold check, mem. intros Hc Hm.
  destruct (PositiveMap.find (pair_key p) tbl) as [l|] eqn:Ef; [|discriminate].
  apply existsb_exists in Hm. destruct Hm as [q [Hq E]]. apply pair_eqb_eq in E. subst q.
  rewrite forallb_forall in Hc. specialize (Hc (pair_key p, l) (PositiveMap.elements_correct tbl (pair_key p) Ef)).
  simpl in Hc. rewrite forallb_forall in Hc. apply Hc. exact Hq.
Qed.

Hypothesis Hreps : reps_ok atoms reps = true.

Theorem check_sound tbl : check tbl = true ->
  forall s a b, mem tbl (a, b) = true -> bytes_lt256 s -> matches a s -> matches b s.
Proof.
  intros Hc. induction s as [|c s IH]; intros a b Hm Hb Ha.
  - pose proof (check_mem tbl (a, b) Hc Hm) as K. unfold check_pair in K. simpl in K.
    apply orb_true_iff in K. destruct K as [K|K].
    + destruct a; try discriminate. exfalso. eapply empty_inv; eauto.
    + rewrite !andb_true_iff in K. destruct K as [[[_ _] K] _].
      apply nullable_iff in Ha. rewrite Ha in K. simpl in K. apply nullable_iff. exact K.
  - pose proof (check_mem tbl (a, b) Hc Hm) as K. unfold check_pair in K. simpl in K.
    apply orb_true_iff in K. destruct K as [K|K].
    + destruct a; try discriminate. exfalso. eapply empty_inv; eauto.
    + rewrite !andb_true_iff in K. destruct K as [[[Ka Kb] _] Ks].
      inversion Hb as [|? ? Hc1 Hb']; subst.
      destruct (reps_ok_spec atoms reps c Hreps Hc1) as [c' [Hin Hsig]].
      assert (Ea : deriv c a = deriv c' a).
      { apply deriv_ext. intros cs Hcs. apply Hsig. exact (atoms_in_spec atoms a Ka cs Hcs). }
      assert (Eb : deriv c b = deriv c' b).
      { apply deriv_ext. intros cs Hcs. apply Hsig. exact (atoms_in_spec atoms b Kb cs Hcs). }
      apply deriv_iff. rewrite Eb. apply (IH (deriv c' a) (deriv c' b)); [|exact Hb'|rewrite <- Ea; apply deriv_iff; exact Ha].
      rewrite forallb_forall in Ks. apply Ks. unfold succs. simpl.
      apply (in_map (fun c0 => (deriv c0 a, deriv c0 b)) reps c' Hin).
Qed.

End Check.

(* ---------- choosing atoms and representatives (untrusted; checked by reps_ok / atoms_in) ---------- *)
Fixpoint dedup (l : list cset) (acc : list cset) : list cset :=
  match l with
  | [] => acc
  | x :: l' => if existsb (cset_eqb x) acc then dedup l' acc else dedup l' (x :: acc)
  end.
Definition pick_reps (atoms : list cset) : list N :=
  fold_left (fun acc c => if existsb (same_sig atoms c) acc then acc else c :: acc) all_bytes [].

Definition incl_run (fuel : nat) (a b : re) : option (list cset * list N * table) :=
  let atoms := dedup (csets a ++ csets b) [] in
  let reps := pick_reps atoms in
  match explore reps fuel [(a, b)] (PositiveMap.empty _) with
  | Some tbl => Some (atoms, reps, tbl)
  | None => None
  end.

Definition incl_auto (fuel : nat) (a b : re) : bool :=
  let a' := norm a in
  let b' := norm b in
  match incl_run fuel a' b' with
  | Some (atoms, reps, tbl) => reps_ok atoms reps && mem tbl (a', b') && check atoms reps tbl
  | None => false
  end.

Theorem incl_auto_sound fuel a b : incl_auto fuel a b = true ->
  forall s, bytes_lt256 s -> matches a s -> matches b s.
Proof.
  unfold incl_auto. destruct (incl_run fuel (norm a) (norm b)) as [[[atoms reps] tbl]|]; [|discriminate].
  rewrite !andb_true_iff. intros [[H1 H2] H3] s Hs Ha.
  apply norm_iff. eapply check_sound; eauto. apply norm_iff. exact Ha.
Qed.

(* number of pairs in a table (reporting only) *)
Definition table_size (tbl : table) : nat :=
  fold_left (fun n kv => (n + length (snd kv))%nat) (PositiveMap.elements tbl) O.
