(* RegexIncl.v — a verified decision procedure for language inclusion of regular expressions:
     incl_auto fuel a b = true  ->  forall s over bytes < 256, matches a s -> matches b s.
   The exploration of pairs of simultaneous Brzozowski derivatives (explore) is NOT trusted: only its
   result, a finite table of pairs, is checked (check): the start pair is in the table, every pair
   (x, y) of the table has "x nullable -> y nullable", and the derivative pair for every class
   representative is again in the table.  Soundness of the check is a plain induction on the input.
   Bytes are grouped into classes that no byte class occurring in the two expressions separates;
   the grouping is also checked, not trusted (reps_ok). *)
From Coq Require Import List NArith PArith Bool Lia FMapPositive.
From PegtlV Require Import Regex.
Import ListNotations.
Local Open Scope N_scope.

Definition bytes_lt256 (s : list N) : Prop := Forall (fun b => b < 256) s.
Definition all_bytes : list N := map N.of_nat (seq 0 256).
Lemma all_bytes_in c : c < 256 -> In c all_bytes.
Proof.
  intros H. unfold all_bytes. rewrite <- (N2Nat.id c). apply in_map. apply in_seq. lia.
Qed.

(* ---------- the byte classes occurring in an expression ---------- *)
Fixpoint csets (r : re) : list cset :=
  match r with
  | Chr cs => [cs]
  | Cat a b => csets a ++ csets b
  | Alt a b => csets a ++ csets b
  | Star a => csets a
  | _ => []
  end.

Lemma deriv_ext c c' r : (forall cs, In cs (csets r) -> cs_mem c cs = cs_mem c' cs) -> deriv c r = deriv c' r.
Proof.
  induction r as [| |cs|a IHa b IHb|a IHa b IHb|a IHa]; intros H; cbn [deriv]; try reflexivity.
  - rewrite (H cs) by (left; reflexivity). reflexivity.
  - rewrite IHa, IHb; [reflexivity | |]; intros cs Hc; apply H; cbn [csets]; apply in_or_app; auto.
  - rewrite IHa, IHb; [reflexivity | |]; intros cs Hc; apply H; cbn [csets]; apply in_or_app; auto.
  - rewrite IHa; [reflexivity|]. intros cs Hc. apply H. exact Hc.
Qed.

(* derivatives never invent a byte class *)
Lemma alt_ins_csets x r : forall cs, In cs (csets (alt_ins x r)) -> In cs (csets x) \/ In cs (csets r).
Proof.
  assert (Base : forall y cs, In cs (csets (match re_cmp x y with Eq => y | Lt => Alt x y | Gt => Alt y x end)) -> In cs (csets x) \/ In cs (csets y)).
  { intros y cs. destruct (re_cmp x y); cbn [csets]; rewrite ?in_app_iff; tauto. }
  induction r as [| |c0|a1 IH1 a2 IH2|a1 IH1 a2 IH2|a1 IH1]; intros cs; try apply Base.
  cbn [alt_ins]. destruct (re_cmp x a1); cbn [csets]; rewrite ?in_app_iff; try tauto.
  intros [H|H]; [tauto|]. apply IH2 in H. tauto.
Qed.
Lemma mkalt_csets a : forall b cs, In cs (csets (mkalt a b)) -> In cs (csets a) \/ In cs (csets b).
Proof.
  assert (Base : forall x b cs, In cs (csets (match b with Empty => x | _ => alt_ins x b end)) -> In cs (csets x) \/ In cs (csets b)).
  { intros x b cs. destruct b; try apply alt_ins_csets. tauto. }
  induction a as [| |c0|a1 IH1 a2 IH2|a1 IH1 a2 IH2|a1 IH1]; intros b cs; try apply Base.
  - cbn [mkalt]. tauto.
  - cbn [mkalt].
    assert (K : In cs (csets (alt_ins a1 (mkalt a2 b))) -> In cs (csets (Alt a1 a2)) \/ In cs (csets b)).
    { intros H. apply alt_ins_csets in H. cbn [csets]. rewrite in_app_iff. destruct H as [H|H]; [tauto|]. apply IH2 in H. tauto. }
    destruct a1; try exact K.
    intros H. apply IH2 in H. cbn [csets]. rewrite in_app_iff. tauto.
Qed.
Lemma mkcat_csets a b cs : In cs (csets (mkcat a b)) -> In cs (csets a) \/ In cs (csets b).
Proof. destruct a; destruct b; cbn [mkcat csets]; rewrite ?in_app_iff; cbn [In]; tauto. Qed.
Lemma deriv_csets c r : forall cs, In cs (csets (deriv c r)) -> In cs (csets r).
Proof.
  induction r as [| |c0|a IHa b IHb|a IHa b IHb|a IHa]; intros cs; cbn [deriv].
  - tauto.
  - cbn [csets In]. tauto.
  - destruct (cs_mem c c0); cbn [csets In]; tauto.
  - intros H. apply mkalt_csets in H. cbn [csets]. rewrite in_app_iff. destruct H as [H|H].
    + apply mkcat_csets in H. destruct H as [H|H]; [left; apply IHa; exact H | right; exact H].
    + destruct (nullable a); [right; apply IHb; exact H | cbn [csets In] in H; tauto].
  - intros H. apply mkalt_csets in H. cbn [csets]. rewrite in_app_iff. destruct H as [H|H]; [left; apply IHa | right; apply IHb]; exact H.
  - intros H. apply mkcat_csets in H. cbn [csets] in *. destruct H as [H|H]; [apply IHa; exact H | exact H].
Qed.

Definition cset_eqb (a b : cset) : bool := match cmp_cset a b with Eq => true | _ => false end.
Lemma cset_eqb_eq a b : cset_eqb a b = true -> a = b.
Proof. unfold cset_eqb. destruct (cmp_cset a b) eqn:E; try discriminate. intros _. apply cmp_cset_eq. exact E. Qed.

Definition atoms_in (atoms : list cset) (r : re) : bool :=
  forallb (fun cs => existsb (cset_eqb cs) atoms) (csets r).
Lemma atoms_in_spec atoms r : atoms_in atoms r = true -> forall cs, In cs (csets r) -> In cs atoms.
Proof.
  unfold atoms_in. rewrite forallb_forall. intros H cs Hc. specialize (H cs Hc).
  apply existsb_exists in H. destruct H as [x [Hx E]]. apply cset_eqb_eq in E. subst. exact Hx.
Qed.

Definition same_sig (atoms : list cset) (c c' : N) : bool :=
  forallb (fun cs => Bool.eqb (cs_mem c cs) (cs_mem c' cs)) atoms.
Definition reps_ok (atoms : list cset) (reps : list N) : bool :=
  forallb (fun c => existsb (same_sig atoms c) reps) all_bytes.
Lemma reps_ok_spec atoms reps c : reps_ok atoms reps = true -> c < 256 ->
  exists c', In c' reps /\ forall cs, In cs atoms -> cs_mem c cs = cs_mem c' cs.
Proof.
  unfold reps_ok. rewrite forallb_forall. intros H Hc. specialize (H c (all_bytes_in c Hc)).
  apply existsb_exists in H. destruct H as [c' [Hin Hs]]. exists c'. split; [exact Hin|].
  unfold same_sig in Hs. rewrite forallb_forall in Hs. intros cs Hcs. specialize (Hs cs Hcs).
  apply eqb_prop in Hs. exact Hs.
Qed.

(* ---------- the table of visited pairs ---------- *)
(* a cheap hash (additions, doublings and a 24-bit mask; no multiplication or division) *)
Definition HM : N := 16777215.
Fixpoint hash_cs (cs : cset) : N :=
  match cs with
  | [] => 7
  | p :: t => N.land (fst p + N.double (snd p) + N.double (N.double (hash_cs t)) + 3) HM
  end.
Fixpoint re_hash (r : re) : N :=
  match r with
  | Empty => 1
  | Eps => 2
  | Chr cs => hash_cs cs
  | Cat a b => N.land (re_hash a + N.double (re_hash b) + 3) HM
  | Alt a b => N.land (N.double (N.double (re_hash a)) + re_hash b + 5) HM
  | Star a => N.land (N.double (re_hash a) + 9) HM
  end.
Definition pair_key (p : re * re) : positive := N.succ_pos (N.land (N.double (N.double (N.double (re_hash (fst p)))) + re_hash (snd p)) HM).

Definition table := PositiveMap.t (list (re * re)).
Definition pair_eqb (p q : re * re) : bool := re_eqb (fst p) (fst q) && re_eqb (snd p) (snd q).
Lemma pair_eqb_eq p q : pair_eqb p q = true -> p = q.
Proof.
  unfold pair_eqb. rewrite andb_true_iff. intros [H1 H2]. apply re_eqb_eq in H1. apply re_eqb_eq in H2.
  destruct p, q. simpl in *. subst. reflexivity.
Qed.
Definition mem (tbl : table) (p : re * re) : bool :=
  match PositiveMap.find (pair_key p) tbl with
  | Some l => existsb (pair_eqb p) l
  | None => false
  end.
Definition add (tbl : table) (p : re * re) : table :=
  let k := pair_key p in
  PositiveMap.add k (p :: match PositiveMap.find k tbl with Some l => l | None => [] end) tbl.

Definition is_empty (r : re) : bool := match r with Empty => true | _ => false end.

Section Check.
Variable atoms : list cset.
Variable reps : list N.

Definition succs (p : re * re) : list (re * re) := map (fun c => (deriv c (fst p), deriv c (snd p))) reps.

(* a pair whose left side is Empty needs no table entry *)
Definition ok_pair (tbl : table) (p : re * re) : bool := is_empty (fst p) || mem tbl p.

(* untrusted exploration *)
Fixpoint explore (fuel : nat) (todo : list (re * re)) (tbl : table) : option table :=
  match fuel with
  | O => None
  | S f =>
    match todo with
    | [] => Some tbl
    | p :: todo' =>
        if ok_pair tbl p then explore f todo' tbl
        else explore f (succs p ++ todo') (add tbl p)
    end
  end.

(* the checked condition *)
Definition check_pair (tbl : table) (p : re * re) : bool :=
  is_empty (fst p) ||
  (implb (nullable (fst p)) (nullable (snd p)) && forallb (ok_pair tbl) (succs p)).
Definition check (tbl : table) : bool :=
  forallb (fun kv => forallb (check_pair tbl) (snd kv)) (PositiveMap.elements tbl).

Lemma check_mem tbl p : check tbl = true -> mem tbl p = true -> check_pair tbl p = true.
Proof.
  unfold check, mem. intros Hc Hm.
  destruct (PositiveMap.find (pair_key p) tbl) as [l|] eqn:Ef; [|discriminate].
  apply existsb_exists in Hm. destruct Hm as [q [Hq E]]. apply pair_eqb_eq in E. subst q.
  rewrite forallb_forall in Hc. specialize (Hc (pair_key p, l) (PositiveMap.elements_correct tbl (pair_key p) Ef)).
  simpl in Hc. rewrite forallb_forall in Hc. apply Hc. exact Hq.
Qed.

Hypothesis Hreps : reps_ok atoms reps = true.

Theorem check_sound tbl : check tbl = true ->
  forall s a b, mem tbl (a, b) = true ->
  (forall cs, In cs (csets a) -> In cs atoms) -> (forall cs, In cs (csets b) -> In cs atoms) ->
  bytes_lt256 s -> matches a s -> matches b s.
Proof.
  intros Hc. induction s as [|c s IH]; intros a b Hm Aa Ab Hb Ha.
  - pose proof (check_mem tbl (a, b) Hc Hm) as K. unfold check_pair in K. simpl in K.
    apply orb_true_iff in K. destruct K as [K|K].
    + destruct a; try discriminate. exfalso. eapply empty_inv; eauto.
    + rewrite !andb_true_iff in K. destruct K as [K _].
      apply nullable_iff in Ha. rewrite Ha in K. simpl in K. apply nullable_iff. exact K.
  - pose proof (check_mem tbl (a, b) Hc Hm) as K. unfold check_pair in K. simpl in K.
    apply orb_true_iff in K. destruct K as [K|K].
    + destruct a; try discriminate. exfalso. eapply empty_inv; eauto.
    + rewrite !andb_true_iff in K. destruct K as [_ Ks].
      inversion Hb as [|? ? Hc1 Hb']; subst.
      destruct (reps_ok_spec atoms reps c Hreps Hc1) as [c' [Hin Hsig]].
      assert (Ea : deriv c a = deriv c' a).
      { apply deriv_ext. intros cs Hcs. apply Hsig. apply Aa. exact Hcs. }
      assert (Eb : deriv c b = deriv c' b).
      { apply deriv_ext. intros cs Hcs. apply Hsig. apply Ab. exact Hcs. }
      apply deriv_iff. rewrite Eb.
      assert (Ko : ok_pair tbl (deriv c' a, deriv c' b) = true).
      { rewrite forallb_forall in Ks. apply Ks. unfold succs. simpl.
        apply (in_map (fun c0 => (deriv c0 a, deriv c0 b)) reps c' Hin). }
      assert (Hd : matches (deriv c' a) s) by (rewrite <- Ea; apply deriv_iff; exact Ha).
      unfold ok_pair in Ko. simpl in Ko. apply orb_true_iff in Ko. destruct Ko as [Ko|Ko].
      { destruct (deriv c' a); try discriminate. exfalso. eapply empty_inv; eauto. }
      apply (IH (deriv c' a) (deriv c' b)).
      * exact Ko.
      * intros cs Hcs. apply Aa. eapply deriv_csets; eauto.
      * intros cs Hcs. apply Ab. eapply deriv_csets; eauto.
      * exact Hb'.
      * exact Hd.
Qed.

End Check.

(* ---------- choosing atoms and representatives (untrusted; checked by reps_ok / atoms_in) ---------- *)
Fixpoint dedup (l : list cset) (acc : list cset) : list cset :=
  match l with
  | [] => acc
  | x :: l' => if existsb (cset_eqb x) acc then dedup l' acc else dedup l' (x :: acc)
  end.
Definition pick_reps (atoms : list cset) : list N :=
  fold_left (fun acc c => if existsb (same_sig atoms c) acc then acc else c :: acc) all_bytes [].

Definition incl_run (fuel : nat) (a b : re) : option (list cset * list N * table) :=
  let atoms := dedup (csets a ++ csets b) [] in
  let reps := pick_reps atoms in
  match explore reps fuel [(a, b)] (PositiveMap.empty _) with
  | Some tbl => Some (atoms, reps, tbl)
  | None => None
  end.

Definition incl_auto (fuel : nat) (a b : re) : bool :=
  let a' := norm a in
  let b' := norm b in
  match incl_run fuel a' b' with
  | Some (atoms, reps, tbl) => reps_ok atoms reps && atoms_in atoms a' && atoms_in atoms b' && ok_pair tbl (a', b') && check reps tbl
  | None => false
  end.

Theorem incl_auto_sound fuel a b : incl_auto fuel a b = true ->
  forall s, bytes_lt256 s -> matches a s -> matches b s.
Proof.
  unfold incl_auto. destruct (incl_run fuel (norm a) (norm b)) as [[[atoms reps] tbl]|]; [|discriminate].
  rewrite !andb_true_iff. intros [[[[H1 Ha1] Hb1] H2] H3] s Hs Ha.
  assert (Hn : matches (norm a) s) by (apply norm_iff; exact Ha).
  unfold ok_pair in H2. simpl in H2. apply orb_true_iff in H2. destruct H2 as [H2|H2].
  { destruct (norm a); try discriminate. exfalso. eapply empty_inv; eauto. }
  apply norm_iff. eapply (check_sound atoms reps H1 tbl H3 s (norm a) (norm b) H2).
  - apply atoms_in_spec. exact Ha1.
  - apply atoms_in_spec. exact Hb1.
  - exact Hs.
  - apply norm_iff. exact Ha.
Qed.

(* number of pairs in a table (reporting only) *)
Definition table_size (tbl : table) : nat :=
  fold_left (fun n kv => (n + length (snd kv))%nat) (PositiveMap.elements tbl) O.
