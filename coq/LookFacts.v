(* LookFacts.v — at<> / not_at<> leave the cursor where it was whatever their result,
   also seen through match.hpp (hooks, actions, vetoes) and through every match-level action. *)
From Coq Require Import Lia.
From PegtlV Require Import Base Decode Grammar Engine EngineFacts AtomFacts.
Local Open Scope N_scope.

Definition fixes (c : cursor) (x : result) : Prop :=
  match x with Res _ c' _ => c' = c | _ => True end.

Lemma look_fixes inv c x : fixes c (look inv c x).
Proof. destruct x as [[| |e] c' evs| |]; simpl; auto. Qed.

Lemma match_hpp_fixes C ak body d r c :
  (forall d c, fixes c (body d c)) -> fixes c (match_hpp C ak body d r c).
Proof.
  intros Hb. unfold match_hpp.
  pose proof (Hb (if use_guard d ak then opt_ d else d) c) as H.
  destruct (body (if use_guard d ak then opt_ d else d) c) as [[| |e] c1 evs| |]; simpl in *; auto; subst c1.
  - destruct (run_action C d ak r (cpos c) (cpos c)) as [[[|]|t] ea]; simpl; auto.
    + unfold fail_hook. destruct (raise_on_failure C (dCtl d) r); simpl; destruct (use_guard d ak); reflexivity.
    + destruct (use_guard d ak); reflexivity.
  - unfold fail_hook. destruct (raise_on_failure C (dCtl d) r); simpl; destruct (use_guard d ak); reflexivity.
  - destruct (use_guard d ak); reflexivity.
Qed.

Lemma st_scope_fixes b r c0 c x : fixes c x -> fixes c (st_scope b r c0 x).
Proof. destruct x as [[| |e] c' evs| |]; simpl; auto. Qed.

Lemma action_match_fixes ev plain enabled m d r c :
  (forall d c, fixes c (ev d r c)) -> (forall d c, fixes c (plain d c)) -> fixes c (action_match ev plain enabled m d r c).
Proof.
  intros He Hp. destruct m; simpl.
  - apply He. - apply st_scope_fixes, Hp. - apply st_scope_fixes, He.
  - apply Hp. - apply Hp. - apply Hp.
  - destruct enabled; [|apply Hp]. destruct (n <? S (dDepth d))%nat; [reflexivity | apply Hp].
  - pose proof (Hp d (mkcur (firstn n (rest c)) (cpos c))) as H.
    destruct (plain d (mkcur (firstn n (rest c)) (cpos c))) as [[| |e] c1 evs| |]; simpl in *; auto; subst c1; simpl.
    + destruct (in_empty _ && _); simpl; rewrite firstn_skipn; apply cursor_eta.
    + rewrite firstn_skipn; apply cursor_eta.
    + rewrite firstn_skipn; apply cursor_eta.
  - pose proof (Hp d c) as H. destruct (plain d c) as [[| |e] c1 evs| |]; simpl in *; auto.
    destruct (n <? _)%nat; simpl; exact H.
Qed.

Definition is_look (h : head) : bool := match h with HAt | HNotAt => true | _ => false end.

Theorem lookahead_fixes G C r nd :
  nth_error G r = Some nd -> is_look (nhead nd) = true -> (exists r1, nsubs nd = [r1]) ->
  forall f d c, fixes c (eval G C f d r c).
Proof.
  intros Hn Hl [r1 Hs] f. induction f as [|f IH]; intros d c; simpl; [exact I|].
  rewrite Hn.
  assert (Hbody : forall d' c', fixes c' (eval_head C (eval G C f) f r (nhead nd) (nsubs nd) d' c')).
  { intros d' c'. rewrite Hs. destruct (nhead nd); try discriminate Hl; unfold eval_head; simpl; apply look_fixes. }
  assert (Hplain : forall ak d' c', fixes c'
            (if nenabled nd then match_hpp C ak (eval_head C (eval G C f) f r (nhead nd) (nsubs nd)) d' r c'
             else eval_head C (eval G C f) f r (nhead nd) (nsubs nd) d' c')).
  { intros ak d' c'. destruct (nenabled nd); [apply match_hpp_fixes; exact Hbody | apply Hbody]. }
  assert (T : forall x, fixes c x -> fixes c (traced (dCtl d) r (dA d) (dM d) c x)).
  { intros x. destruct x as [[| |e] c' evs| |]; simpl; auto. }
  apply T.
  destruct (acts C (dAct d) r) as [| | |mk]; try apply Hplain.
  apply action_match_fixes; [exact IH | apply Hplain].
Qed.
