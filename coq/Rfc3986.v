(* Rfc3986.v — SPECIFICATION side of property C20: RFC 3986 Appendix A ("Collected ABNF for URI"),
   transcribed production by production as regular expressions (Regex.v).  The grammar is not
   recursive, so every production is a closed `re` term.  Core rules ALPHA / DIGIT / HEXDIG are
   those of RFC 5234 Appendix B.1; ABNF literal strings are case-insensitive (RFC 5234 2.3), which
   matters for the "v" of IPvFuture and for the letters of HEXDIG ("A".."F" also match "a".."f").
   Independent of the engine model and of the PEGTL headers: imports only Regex. *)
From Coq Require Import List NArith.
From PegtlV Require Import Regex.
Import ListNotations.
Local Open Scope N_scope.

(* ---------- ABNF operators ---------- *)
Definition lit (b : N) : re := Chr [(b, b)].                       (* a one-byte literal *)
Definition ropt (r : re) : re := Alt r Eps.                         (* [ r ] *)
Definition rplus (r : re) : re := Cat r (Star r).                   (* 1*r *)
Fixpoint rrep (n : nat) (r : re) : re :=                            (* <n>r : exactly n *)
  match n with O => Eps | S n' => Cat r (rrep n' r) end.
Fixpoint rupto (n : nat) (r : re) : re :=                           (* *<n>r : at most n *)
  match n with O => Eps | S n' => ropt (Cat r (rupto n' r)) end.
Fixpoint alts (l : list re) : re :=                                (* r1 / r2 / ... *)
  match l with [] => Empty | [r] => r | r :: l' => Alt r (alts l') end.
Fixpoint cats (l : list re) : re :=                                (* r1 r2 ... *)
  match l with [] => Eps | [r] => r | r :: l' => Cat r (cats l') end.

(* ---------- RFC 5234 core rules ---------- *)
Definition ALPHA : re := Chr [(65, 90); (97, 122)].                (* %x41-5A / %x61-7A *)
Definition DIGIT : re := Chr [(48, 57)].                           (* %x30-39 *)
Definition HEXDIG : re := Chr [(48, 57); (65, 70); (97, 102)].     (* DIGIT / "A" / ... / "F", case-insensitive *)

(* ---------- characters ---------- *)
(* gen-delims    = ":" / "/" / "?" / "#" / "[" / "]" / "@" *)
Definition gen_delims : re := alts [lit 58; lit 47; lit 63; lit 35; lit 91; lit 93; lit 64].
(* sub-delims    = "!" / "$" / "&" / "'" / "(" / ")" / "*" / "+" / "," / ";" / "=" *)
Definition sub_delims : re := alts [lit 33; lit 36; lit 38; lit 39; lit 40; lit 41; lit 42; lit 43; lit 44; lit 59; lit 61].
(* reserved      = gen-delims / sub-delims *)
Definition reserved : re := Alt gen_delims sub_delims.
(* unreserved    = ALPHA / DIGIT / "-" / "." / "_" / "~" *)
Definition unreserved : re := alts [ALPHA; DIGIT; lit 45; lit 46; lit 95; lit 126].
(* pct-encoded   = "%" HEXDIG HEXDIG *)
Definition pct_encoded : re := cats [lit 37; HEXDIG; HEXDIG].
(* pchar         = unreserved / pct-encoded / sub-delims / ":" / "@" *)
Definition pchar : re := alts [unreserved; pct_encoded; sub_delims; lit 58; lit 64].

(* ---------- query, fragment, path ---------- *)
(* query         = *( pchar / "/" / "?" ) *)
Definition query : re := Star (alts [pchar; lit 47; lit 63]).
(* fragment      = *( pchar / "/" / "?" ) *)
Definition fragment : re := Star (alts [pchar; lit 47; lit 63]).
(* segment       = *pchar *)
Definition segment : re := Star pchar.
(* segment-nz    = 1*pchar *)
Definition segment_nz : re := rplus pchar.
(* segment-nz-nc = 1*( unreserved / pct-encoded / sub-delims / "@" ) *)
Definition segment_nz_nc : re := rplus (alts [unreserved; pct_encoded; sub_delims; lit 64]).
(* path-abempty  = *( "/" segment ) *)
Definition path_abempty : re := Star (Cat (lit 47) segment).
(* path-absolute = "/" [ segment-nz *( "/" segment ) ] *)
Definition path_absolute : re := Cat (lit 47) (ropt (Cat segment_nz (Star (Cat (lit 47) segment)))).
(* path-noscheme = segment-nz-nc *( "/" segment ) *)
Definition path_noscheme : re := Cat segment_nz_nc (Star (Cat (lit 47) segment)).
(* path-rootless = segment-nz *( "/" segment ) *)
Definition path_rootless : re := Cat segment_nz (Star (Cat (lit 47) segment)).
(* path-empty    = 0<pchar> *)
Definition path_empty : re := Eps.
(* path          = path-abempty / path-absolute / path-noscheme / path-rootless / path-empty *)
Definition path : re := alts [path_abempty; path_absolute; path_noscheme; path_rootless; path_empty].

(* ---------- host ---------- *)
(* dec-octet     = DIGIT / %x31-39 DIGIT / "1" 2DIGIT / "2" %x30-34 DIGIT / "25" %x30-35 *)
Definition dec_octet : re :=
  alts [DIGIT;
        Cat (Chr [(49, 57)]) DIGIT;
        Cat (lit 49) (rrep 2 DIGIT);
        cats [lit 50; Chr [(48, 52)]; DIGIT];
        cats [lit 50; lit 53; Chr [(48, 53)]]].
(* IPv4address   = dec-octet "." dec-octet "." dec-octet "." dec-octet *)
Definition IPv4address : re := cats [dec_octet; lit 46; dec_octet; lit 46; dec_octet; lit 46; dec_octet].
(* h16           = 1*4HEXDIG *)
Definition h16 : re := Cat HEXDIG (rupto 3 HEXDIG).
(* ls32          = ( h16 ":" h16 ) / IPv4address *)
Definition ls32 : re := Alt (cats [h16; lit 58; h16]) IPv4address.
Definition h16c : re := Cat h16 (lit 58).                          (* ( h16 ":" ) *)
Definition dcolon : re := Cat (lit 58) (lit 58).                   (* "::" *)
(* IPv6address, nine alternatives in the order of the RFC *)
Definition IPv6address : re :=
  alts [ cats [                                     rrep 6 h16c; ls32];     (*                            6( h16 ":" ) ls32 *)
         cats [                             dcolon; rrep 5 h16c; ls32];     (*                       "::" 5( h16 ":" ) ls32 *)
         cats [ropt h16;                     dcolon; rrep 4 h16c; ls32];     (* [               h16 ] "::" 4( h16 ":" ) ls32 *)
         cats [ropt (Cat (rupto 1 h16c) h16); dcolon; rrep 3 h16c; ls32];     (* [ *1( h16 ":" ) h16 ] "::" 3( h16 ":" ) ls32 *)
         cats [ropt (Cat (rupto 2 h16c) h16); dcolon; rrep 2 h16c; ls32];     (* [ *2( h16 ":" ) h16 ] "::" 2( h16 ":" ) ls32 *)
         cats [ropt (Cat (rupto 3 h16c) h16); dcolon; h16c;       ls32];     (* [ *3( h16 ":" ) h16 ] "::"    h16 ":"   ls32 *)
         cats [ropt (Cat (rupto 4 h16c) h16); dcolon;             ls32];     (* [ *4( h16 ":" ) h16 ] "::"              ls32 *)
         cats [ropt (Cat (rupto 5 h16c) h16); dcolon;             h16];      (* [ *5( h16 ":" ) h16 ] "::"              h16 *)
         cats [ropt (Cat (rupto 6 h16c) h16); dcolon] ].                     (* [ *6( h16 ":" ) h16 ] "::" *)
(* IPvFuture     = "v" 1*HEXDIG "." 1*( unreserved / sub-delims / ":" ) *)
Definition IPvFuture : re := cats [Chr [(118, 118); (86, 86)]; rplus HEXDIG; lit 46; rplus (alts [unreserved; sub_delims; lit 58])].
(* IP-literal    = "[" ( IPv6address / IPvFuture  ) "]" *)
Definition IP_literal : re := cats [lit 91; Alt IPv6address IPvFuture; lit 93].
(* reg-name      = *( unreserved / pct-encoded / sub-delims ) *)
Definition reg_name : re := Star (alts [unreserved; pct_encoded; sub_delims]).
(* host          = IP-literal / IPv4address / reg-name *)
Definition host : re := alts [IP_literal; IPv4address; reg_name].
(* port          = *DIGIT *)
Definition port : re := Star DIGIT.
(* userinfo      = *( unreserved / pct-encoded / sub-delims / ":" ) *)
Definition userinfo : re := Star (alts [unreserved; pct_encoded; sub_delims; lit 58]).
(* authority     = [ userinfo "@" ] host [ ":" port ] *)
Definition authority : re := cats [ropt (Cat userinfo (lit 64)); host; ropt (Cat (lit 58) port)].

(* ---------- top level ---------- *)
(* scheme        = ALPHA *( ALPHA / DIGIT / "+" / "-" / "." ) *)
Definition scheme : re := Cat ALPHA (Star (alts [ALPHA; DIGIT; lit 43; lit 45; lit 46])).
(* hier-part     = "//" authority path-abempty / path-absolute / path-rootless / path-empty *)
Definition hier_part : re :=
  alts [cats [lit 47; lit 47; authority; path_abempty]; path_absolute; path_rootless; path_empty].
(* relative-part = "//" authority path-abempty / path-absolute / path-noscheme / path-empty *)
Definition relative_part : re :=
  alts [cats [lit 47; lit 47; authority; path_abempty]; path_absolute; path_noscheme; path_empty].
(* URI           = scheme ":" hier-part [ "?" query ] [ "#" fragment ] *)
Definition URI : re := cats [scheme; lit 58; hier_part; ropt (Cat (lit 63) query); ropt (Cat (lit 35) fragment)].
(* relative-ref  = relative-part [ "?" query ] [ "#" fragment ] *)
Definition relative_ref : re := cats [relative_part; ropt (Cat (lit 63) query); ropt (Cat (lit 35) fragment)].
(* URI-reference = URI / relative-ref *)
Definition URI_reference : re := Alt URI relative_ref.
(* absolute-URI  = scheme ":" hier-part [ "?" query ] *)
Definition absolute_URI : re := cats [scheme; lit 58; hier_part; ropt (Cat (lit 63) query)].

(* the five productions property C20 names *)
Inductive top := TURI | TURI_reference | Tabsolute_URI | TIPv4address | TIPv6address.
Definition rfc (t : top) : re :=
  match t with
  | TURI => URI | TURI_reference => URI_reference | Tabsolute_URI => absolute_URI
  | TIPv4address => IPv4address | TIPv6address => IPv6address
  end.
