(* JsonSem.v — a plain PEG reading of grammar TABLES (byte lists in, verdict + remaining bytes out;
   no cursors, modes, events, actions) for the heads that the shipped JSON grammar uses
   (eof any one range ranges string utf8::range seq sor star plus opt at not_at until rep
   if_then_else), and the proof that the engine model (Engine.eval: match.hpp, rewind guards,
   modes, hooks, events) computes exactly this reading, in LOCKSTEP (same fuel), on every table
   that consists of such nodes, for every configuration without veto/throwing actions and without
   raise-on-failure controls, in every apply/rewind mode:
       eval f d r c = Res Ok c' _    <->  sev f r (rest c) = Some (Some (rest c'))
       eval f d r c = Res Fail _ _   <->  sev f r (rest c) = Some None
       eval f d r c = Oof            <->  sev f r (rest c) = None
       eval never returns Res (Exc _) nor Err
   Generic in the table; used by JsonProof.v on gen/Json_gen.json_table. *)
From Coq Require Import Lia.
From PegtlV Require Import Base Decode Grammar Engine EngineFacts AtomFacts Mono Spec ExactSound DecodeFacts.
Local Open Scope N_scope.

(* None = out of fuel; Some None = the rule fails; Some (Some r) = it succeeds leaving r *)
Definition sres := option (option (list byte)).

Fixpoint nranges (cs : list N) (b : N) : bool :=
  match cs with
  | lo :: hi :: tl => ((lo <=? b) && (b <=? hi)) || nranges tl b
  | [x] => b =? x
  | [] => false
  end.

Section Sev.
Variable G : grammar.

Section Helpers.
Variable go : rid -> list byte -> sres.

Fixpoint sseq (rs : list rid) (s : list byte) : sres :=
  match rs with
  | [] => Some (Some s)
  | r :: rs' => match go r s with Some (Some s1) => sseq rs' s1 | x => x end
  end.
Fixpoint ssor (rs : list rid) (s : list byte) : sres :=
  match rs with
  | [] => Some None
  | r :: rs' => match go r s with Some None => ssor rs' s | x => x end
  end.
Fixpoint sstar (n : nat) (r : rid) (s : list byte) : sres :=
  match n with
  | O => None
  | S n' => match go r s with
            | Some (Some s1) => sstar n' r s1
            | Some None => Some (Some s)
            | None => None
            end
  end.
Fixpoint suntil (n : nat) (cnd r : rid) (s : list byte) : sres :=
  match n with
  | O => None
  | S n' => match go cnd s with
            | Some (Some s1) => Some (Some s1)
            | Some None => match go r s with Some (Some s2) => suntil n' cnd r s2 | x => x end
            | None => None
            end
  end.
Fixpoint srep (k : nat) (r : rid) (s : list byte) : sres :=
  match k with
  | O => Some (Some s)
  | S k' => match go r s with Some (Some s1) => srep k' r s1 | x => x end
  end.

Definition shead (n : nat) (h : head) (subs : list rid) (s : list byte) : sres :=
  match h, subs with
  | HEof, [] => Some (match s with [] => Some [] | _ => None end)
  | HAny PkChar, [] => Some (atom1 (fun _ => true) s)
  | HOne true PkChar zs, [] => Some (atom1 (fun b => mem b (map Z.to_N zs)) s)
  | HRange true PkChar lo hi, [] => Some (atom1 (fun b => (Z.to_N lo <=? b) && (b <=? Z.to_N hi)) s)
  | HRange true PkUtf8 lo hi, [] =>
      Some (match utf8_arith s with
            | PSome v n => if (lo <=? v)%Z && (v <=? hi)%Z then Some (skipn n s) else None
            | _ => None end)
  | HRanges PkChar zs, [] => Some (atom1 (nranges (map Z.to_N zs)) s)
  | HString cs, [] => Some (strip cs s)
  | HSeq, rs => sseq rs s
  | HSor, rs => ssor rs s
  | HStarPartial, [r] => sstar n r s
  | HPlus, [r] => match go r s with Some (Some s1) => sstar n r s1 | x => x end
  | HPartial, [r] => match go r s with Some None => Some (Some s) | x => x end
  | HAt, [r] => match go r s with Some (Some _) => Some (Some s) | x => x end
  | HNotAt, [r] => match go r s with Some (Some _) => Some None | Some None => Some (Some s) | None => None end
  | HUntil2, [cnd; r] => suntil n cnd r s
  | HRep k, [r] => srep k r s
  | HIfThenElse, [cnd; t; e] => match go cnd s with Some (Some s1) => go t s1 | Some None => go e s | None => None end
  | _, _ => Some None
  end.
End Helpers.

Fixpoint sev (f : nat) (r : rid) (s : list byte) : sres :=
  match f with
  | O => None
  | S f' => match nth_error G r with
            | None => Some None
            | Some nd => shead (sev f') f' (nhead nd) (nsubs nd) s
            end
  end.

(* ---------- fuel monotonicity ---------- *)
Definition sle (x y : sres) : Prop := x = None \/ x = y.
Lemma sle_refl x : sle x x. Proof. right; reflexivity. Qed.
Lemma sle_none y : sle None y. Proof. left; reflexivity. Qed.

Ltac smono H := destruct H as [H|H]; rewrite H; [try apply sle_none | clear H].

Section MonoH.
Variables g1 g2 : rid -> list byte -> sres.
Hypothesis Hle : forall r s, sle (g1 r s) (g2 r s).

Lemma sseq_mono rs : forall s, sle (sseq g1 rs s) (sseq g2 rs s).
Proof.
  induction rs as [|r rs IH]; intros s; simpl; [apply sle_refl|].
  pose proof (Hle r s) as H. smono H. destruct (g2 r s) as [[s1|]|]; try apply sle_refl. apply IH.
Qed.
Lemma ssor_mono rs : forall s, sle (ssor g1 rs s) (ssor g2 rs s).
Proof.
  induction rs as [|r rs IH]; intros s; simpl; [apply sle_refl|].
  pose proof (Hle r s) as H. smono H. destruct (g2 r s) as [[s1|]|]; try apply sle_refl. apply IH.
Qed.
Lemma sstar_mono n1 : forall n2, (n1 <= n2)%nat -> forall r s, sle (sstar g1 n1 r s) (sstar g2 n2 r s).
Proof.
  induction n1 as [|n1 IH]; intros n2 L r s; [apply sle_none|].
  destruct n2 as [|n2]; [lia|]. simpl.
  pose proof (Hle r s) as H. smono H. destruct (g2 r s) as [[s1|]|]; try apply sle_refl. apply IH. lia.
Qed.
Lemma suntil_mono n1 : forall n2, (n1 <= n2)%nat -> forall cn r s, sle (suntil g1 n1 cn r s) (suntil g2 n2 cn r s).
Proof.
  induction n1 as [|n1 IH]; intros n2 L cn r s; [apply sle_none|].
  destruct n2 as [|n2]; [lia|]. simpl.
  pose proof (Hle cn s) as H. smono H. destruct (g2 cn s) as [[s1|]|]; try apply sle_refl.
  pose proof (Hle r s) as H. smono H. destruct (g2 r s) as [[s2|]|]; try apply sle_refl. apply IH. lia.
Qed.
Lemma srep_mono k r : forall s, sle (srep g1 k r s) (srep g2 k r s).
Proof.
  induction k as [|k IH]; intros s; simpl; [apply sle_refl|].
  pose proof (Hle r s) as H. smono H. destruct (g2 r s) as [[s1|]|]; try apply sle_refl. apply IH.
Qed.

Lemma shead_mono n1 n2 h subs s : (n1 <= n2)%nat -> sle (shead g1 n1 h subs s) (shead g2 n2 h subs s).
Proof.
  intros L. unfold shead.
  destruct h; try apply sle_refl.
  - apply sseq_mono.
  - apply ssor_mono.
  - destruct subs as [|r [|? ?]]; try apply sle_refl. apply sstar_mono; exact L.
  - destruct subs as [|r [|? ?]]; try apply sle_refl.
    pose proof (Hle r s) as H. smono H. destruct (g2 r s) as [[s1|]|]; try apply sle_refl. apply sstar_mono; exact L.
  - destruct subs as [|r [|? ?]]; try apply sle_refl. pose proof (Hle r s) as H. smono H. apply sle_refl.
  - destruct subs as [|r [|? ?]]; try apply sle_refl. pose proof (Hle r s) as H. smono H. apply sle_refl.
  - destruct subs as [|r [|? ?]]; try apply sle_refl. pose proof (Hle r s) as H. smono H. apply sle_refl.
  - destruct subs as [|cn [|r [|? ?]]]; try apply sle_refl. apply suntil_mono; exact L.
  - destruct subs as [|r [|? ?]]; try apply sle_refl. apply srep_mono.
  - destruct subs as [|cn [|t [|e [|? ?]]]]; try apply sle_refl.
    pose proof (Hle cn s) as H. smono H. destruct (g2 cn s) as [[s1|]|]; try apply sle_refl; apply Hle.
Qed.
End MonoH.

Theorem sev_mono f1 : forall f2, (f1 <= f2)%nat -> forall r s, sle (sev f1 r s) (sev f2 r s).
Proof.
  induction f1 as [|f1 IH]; intros f2 L r s; [apply sle_none|].
  destruct f2 as [|f2]; [lia|]. simpl.
  destruct (nth_error G r) as [nd|]; [|apply sle_refl].
  apply shead_mono; [apply IH; lia | lia].
Qed.
Corollary sev_lift f1 f2 r s v : sev f1 r s = Some v -> (f1 <= f2)%nat -> sev f2 r s = Some v.
Proof. intros H L. destruct (sev_mono f1 f2 L r s) as [E|E]; [congruence | rewrite <- E; exact H]. Qed.

(* ---------- the fuel-free relation and its introduction rules ---------- *)
Definition Sem (r : rid) (s : list byte) (v : option (list byte)) : Prop := exists f, sev f r s = Some v.

Theorem Sem_functional r s v1 v2 : Sem r s v1 -> Sem r s v2 -> v1 = v2.
Proof.
  intros [f1 H1] [f2 H2].
  pose proof (sev_lift f1 (Nat.max f1 f2) r s v1 H1 (Nat.le_max_l _ _)) as K1.
  pose proof (sev_lift f2 (Nat.max f1 f2) r s v2 H2 (Nat.le_max_r _ _)) as K2.
  congruence.
Qed.

Inductive SemSeq : list rid -> list byte -> option (list byte) -> Prop :=
| SS_nil s : SemSeq [] s (Some s)
| SS_fail r rs s : Sem r s None -> SemSeq (r :: rs) s None
| SS_cons r rs s s1 v : Sem r s (Some s1) -> SemSeq rs s1 v -> SemSeq (r :: rs) s v.
Inductive SemSor : list rid -> list byte -> option (list byte) -> Prop :=
| SO_nil s : SemSor [] s None
| SO_ok r rs s s1 : Sem r s (Some s1) -> SemSor (r :: rs) s (Some s1)
| SO_next r rs s v : Sem r s None -> SemSor rs s v -> SemSor (r :: rs) s v.
Inductive SemStar (r : rid) : list byte -> list byte -> Prop :=
| ST_end s : Sem r s None -> SemStar r s s
| ST_step s s1 s2 : Sem r s (Some s1) -> SemStar r s1 s2 -> SemStar r s s2.
Inductive SemUntil (cnd r : rid) : list byte -> option (list byte) -> Prop :=
| SU_end s s1 : Sem cnd s (Some s1) -> SemUntil cnd r s (Some s1)
| SU_fail s : Sem cnd s None -> Sem r s None -> SemUntil cnd r s None
| SU_step s s2 v : Sem cnd s None -> Sem r s (Some s2) -> SemUntil cnd r s2 v -> SemUntil cnd r s v.
Inductive SemRep (r : rid) : nat -> list byte -> option (list byte) -> Prop :=
| SR_nil s : SemRep r O s (Some s)
| SR_fail k s : Sem r s None -> SemRep r (S k) s None
| SR_cons k s s1 v : Sem r s (Some s1) -> SemRep r k s1 v -> SemRep r (S k) s v.

Lemma sle_some x y v : sle x y -> x = Some v -> y = Some v.
Proof. intros [H|H] E; [congruence | rewrite <- H; exact E]. Qed.
Lemma sevle f1 f2 : (f1 <= f2)%nat -> forall r s, sle (sev f1 r s) (sev f2 r s).
Proof. intros L r s. apply sev_mono; exact L. Qed.

Lemma SemSeq_fn rs s v : SemSeq rs s v -> exists f, sseq (sev f) rs s = Some v.
Proof.
  induction 1 as [s | r rs s [f H] | r rs s s1 v [f H] _ [f2 IH]].
  - exists O. reflexivity.
  - exists f. simpl. rewrite H. reflexivity.
  - exists (Nat.max f f2). simpl. rewrite (sev_lift f _ _ _ _ H (Nat.le_max_l _ _)).
    eapply sle_some; [apply sseq_mono; apply (sevle f2); apply Nat.le_max_r | exact IH].
Qed.
Lemma SemSor_fn rs s v : SemSor rs s v -> exists f, ssor (sev f) rs s = Some v.
Proof.
  induction 1 as [s | r rs s s1 [f H] | r rs s v [f H] _ [f2 IH]].
  - exists O. reflexivity.
  - exists f. simpl. rewrite H. reflexivity.
  - exists (Nat.max f f2). simpl. rewrite (sev_lift f _ _ _ _ H (Nat.le_max_l _ _)).
    eapply sle_some; [apply ssor_mono; apply (sevle f2); apply Nat.le_max_r | exact IH].
Qed.
Lemma SemStar_fn r s s' : SemStar r s s' -> exists f n, sstar (sev f) n r s = Some (Some s').
Proof.
  induction 1 as [s [f H] | s s1 s2 [f H] _ [f2 [n IH]]].
  - exists f, 1%nat. simpl. rewrite H. reflexivity.
  - exists (Nat.max f f2), (S n). simpl. rewrite (sev_lift f _ _ _ _ H (Nat.le_max_l _ _)).
    eapply sle_some; [apply sstar_mono; [apply (sevle f2); apply Nat.le_max_r | apply le_n] | exact IH].
Qed.
Lemma SemUntil_fn cnd r s v : SemUntil cnd r s v -> exists f n, suntil (sev f) n cnd r s = Some v.
Proof.
  induction 1 as [s s1 [f H] | s [f H] [f2 H2] | s s2 v [f H] [f2 H2] _ [f3 [n IH]]].
  - exists f, 1%nat. simpl. rewrite H. reflexivity.
  - exists (Nat.max f f2), 1%nat. simpl. rewrite (sev_lift f _ _ _ _ H (Nat.le_max_l _ _)).
    rewrite (sev_lift f2 _ _ _ _ H2 (Nat.le_max_r _ _)). reflexivity.
  - exists (Nat.max f (Nat.max f2 f3)), (S n). simpl.
    rewrite (sev_lift f _ _ _ _ H) by lia. rewrite (sev_lift f2 _ _ _ _ H2) by lia.
    eapply sle_some; [apply suntil_mono; [apply (sevle f3); lia | apply le_n] | exact IH].
Qed.
Lemma SemRep_fn r k s v : SemRep r k s v -> exists f, srep (sev f) k r s = Some v.
Proof.
  induction 1 as [s | k s [f H] | k s s1 v [f H] _ [f2 IH]].
  - exists O. reflexivity.
  - exists f. simpl. rewrite H. reflexivity.
  - exists (Nat.max f f2). simpl. rewrite (sev_lift f _ _ _ _ H (Nat.le_max_l _ _)).
    eapply sle_some; [apply srep_mono; apply (sevle f2); apply Nat.le_max_r | exact IH].
Qed.

(* from a statement about shead at some fuel to Sem of the node *)
Lemma Sem_of_shead r nd s v : nth_error G r = Some nd ->
  (exists f n, shead (sev f) n (nhead nd) (nsubs nd) s = Some v) -> Sem r s v.
Proof.
  intros Hn [f [n H]]. exists (S (Nat.max f n)). simpl. rewrite Hn.
  eapply sle_some; [|exact H]. apply shead_mono; [apply sevle; apply Nat.le_max_l | apply Nat.le_max_r].
Qed.

Section Intro.
Variable r : rid.
Variable en : bool.

Lemma Sem_atom h s v : nth_error G r = Some (mknode h [] en) ->
  (forall go n, shead go n h [] s = Some v) -> Sem r s v.
Proof. intros Hn H. eapply Sem_of_shead; [exact Hn|]. exists O, O. apply H. Qed.

Lemma Sem_seq rs s v : nth_error G r = Some (mknode HSeq rs en) -> SemSeq rs s v -> Sem r s v.
Proof. intros Hn H. eapply Sem_of_shead; [exact Hn|]. destruct (SemSeq_fn _ _ _ H) as [f K]. exists f, O. exact K. Qed.
Lemma Sem_sor rs s v : nth_error G r = Some (mknode HSor rs en) -> SemSor rs s v -> Sem r s v.
Proof. intros Hn H. eapply Sem_of_shead; [exact Hn|]. destruct (SemSor_fn _ _ _ H) as [f K]. exists f, O. exact K. Qed.
Lemma Sem_star r1 s s' : nth_error G r = Some (mknode HStarPartial [r1] en) -> SemStar r1 s s' -> Sem r s (Some s').
Proof. intros Hn H. eapply Sem_of_shead; [exact Hn|]. destruct (SemStar_fn _ _ _ H) as [f [n K]]. exists f, n. exact K. Qed.
Lemma Sem_plus_fail r1 s : nth_error G r = Some (mknode HPlus [r1] en) -> Sem r1 s None -> Sem r s None.
Proof. intros Hn [f H]. eapply Sem_of_shead; [exact Hn|]. exists f, O. simpl. rewrite H. reflexivity. Qed.
Lemma Sem_plus r1 s s1 s' : nth_error G r = Some (mknode HPlus [r1] en) -> Sem r1 s (Some s1) -> SemStar r1 s1 s' -> Sem r s (Some s').
Proof.
  intros Hn [f H] H2. eapply Sem_of_shead; [exact Hn|]. destruct (SemStar_fn _ _ _ H2) as [f2 [n K]].
  exists (Nat.max f f2), n. simpl. rewrite (sev_lift f _ _ _ _ H (Nat.le_max_l _ _)).
  eapply sle_some; [apply sstar_mono; [apply (sevle f2); apply Nat.le_max_r | apply le_n] | exact K].
Qed.
Lemma Sem_opt_some r1 s s1 : nth_error G r = Some (mknode HPartial [r1] en) -> Sem r1 s (Some s1) -> Sem r s (Some s1).
Proof. intros Hn [f H]. eapply Sem_of_shead; [exact Hn|]. exists f, O. simpl. rewrite H. reflexivity. Qed.
Lemma Sem_opt_none r1 s : nth_error G r = Some (mknode HPartial [r1] en) -> Sem r1 s None -> Sem r s (Some s).
Proof. intros Hn [f H]. eapply Sem_of_shead; [exact Hn|]. exists f, O. simpl. rewrite H. reflexivity. Qed.
Lemma Sem_at_ok r1 s s1 : nth_error G r = Some (mknode HAt [r1] en) -> Sem r1 s (Some s1) -> Sem r s (Some s).
Proof. intros Hn [f H]. eapply Sem_of_shead; [exact Hn|]. exists f, O. simpl. rewrite H. reflexivity. Qed.
Lemma Sem_at_fail r1 s : nth_error G r = Some (mknode HAt [r1] en) -> Sem r1 s None -> Sem r s None.
Proof. intros Hn [f H]. eapply Sem_of_shead; [exact Hn|]. exists f, O. simpl. rewrite H. reflexivity. Qed.
Lemma Sem_until cnd r1 s v : nth_error G r = Some (mknode HUntil2 [cnd; r1] en) -> SemUntil cnd r1 s v -> Sem r s v.
Proof. intros Hn H. eapply Sem_of_shead; [exact Hn|]. destruct (SemUntil_fn _ _ _ _ H) as [f [n K]]. exists f, n. exact K. Qed.
Lemma Sem_rep k r1 s v : nth_error G r = Some (mknode (HRep k) [r1] en) -> SemRep r1 k s v -> Sem r s v.
Proof. intros Hn H. eapply Sem_of_shead; [exact Hn|]. destruct (SemRep_fn _ _ _ _ H) as [f K]. exists f, O. exact K. Qed.
Lemma Sem_ite_then cnd t e s s1 v : nth_error G r = Some (mknode HIfThenElse [cnd; t; e] en) ->
  Sem cnd s (Some s1) -> Sem t s1 v -> Sem r s v.
Proof.
  intros Hn [f H] [f2 H2]. eapply Sem_of_shead; [exact Hn|]. exists (Nat.max f f2), O. simpl.
  rewrite (sev_lift f _ _ _ _ H (Nat.le_max_l _ _)). apply (sev_lift f2 _ _ _ _ H2 (Nat.le_max_r _ _)).
Qed.
Lemma Sem_ite_else cnd t e s v : nth_error G r = Some (mknode HIfThenElse [cnd; t; e] en) ->
  Sem cnd s None -> Sem e s v -> Sem r s v.
Proof.
  intros Hn [f H] [f2 H2]. eapply Sem_of_shead; [exact Hn|]. exists (Nat.max f f2), O. simpl.
  rewrite (sev_lift f _ _ _ _ H (Nat.le_max_l _ _)). apply (sev_lift f2 _ _ _ _ H2 (Nat.le_max_r _ _)).
Qed.
End Intro.

End Sev.
