(* RawStringSpec.v — declarative specification of Lua long-bracket literals (property C16),
   written from the property text and the Lua reference manual, independent of raw_string.hpp
   and of the model in RawString.v (imports only Base.v for the byte type and the names of the
   five end-of-line policies).

   "The raw string rule matches exactly an opening long bracket of some level n, then the
    shortest following text that ends with the first closing long bracket of the same level n,
    consuming through that closing bracket; the content presented to the action is the text
    between the brackets without a single line ending that immediately follows the opening
    bracket; brackets of other levels inside the content are ignored; without a matching close
    the rule fails."

   1. LongBracket      the declarative predicate (exists-style decomposition of the input)
   2. long_bracket     a naive reference function (count markers, first occurrence by linear
                       search, strip one line ending)
   3. long_bracket_iff the two agree (for Open <> Marker, without which "level" is ambiguous). *)
From PegtlV Require Import Base.
From Coq Require Import Lia.
Local Open Scope N_scope.

(* ---------- brackets ---------- *)
Definition open_bracket (o m : byte) (n : nat) : list byte := o :: repeat m n ++ [o].
Definition close_bracket (c m : byte) (n : nat) : list byte := c :: repeat m n ++ [c].

Definition prefix_of (p l : list byte) : Prop := exists tl, l = p ++ tl.

(* ---------- line endings per policy (tao::pegtl::eol::{lf,cr,crlf,lf_crlf,cr_crlf}) ---------- *)
Inductive is_line_end : eolp -> list byte -> Prop :=
| le_lf        : is_line_end EolLf [10]
| le_cr        : is_line_end EolCr [13]
| le_crlf      : is_line_end EolCrlf [13; 10]
| le_lf_crlf_1 : is_line_end EolLfCrlf [10]
| le_lf_crlf_2 : is_line_end EolLfCrlf [13; 10]
| le_cr_crlf_1 : is_line_end EolCrCrlf [13]
| le_cr_crlf_2 : is_line_end EolCrCrlf [13; 10].

(* `le` is the single line ending removed from the head of the text T between the brackets:
   the longest line ending T starts with, or nothing when T does not start with one. *)
Definition stripped_line_end (e : eolp) (T le : list byte) : Prop :=
  (is_line_end e le /\ prefix_of le T /\
   forall le', is_line_end e le' -> prefix_of le' T -> (length le' <= length le)%nat)
  \/ (le = [] /\ forall le', is_line_end e le' -> ~ prefix_of le' T).

(* ---------- 1. the predicate ----------
   s = open(n) . le . content . close(n) . rest, where le.content contains no earlier start of a
   closing bracket of level n (the close found is the first one), and le is the stripped line
   ending.  Offsets are bytes from the start of s:
     [cb, ce) = the content presented to the action,   total = bytes consumed. *)
Definition LongBracket (o m c : byte) (e : eolp) (s : list byte) (cb ce total : nat) : Prop :=
  exists (n : nat) (le content rest_ : list byte),
    s = open_bracket o m n ++ (le ++ content) ++ close_bracket c m n ++ rest_ /\
    stripped_line_end e (le ++ content) le /\
    (forall j, (j < length (le ++ content))%nat ->
               ~ prefix_of (close_bracket c m n) (skipn j ((le ++ content) ++ close_bracket c m n ++ rest_))) /\
    cb = (n + 2 + length le)%nat /\ ce = (cb + length content)%nat /\ total = (ce + n + 2)%nat.

(* ---------- 2. the reference function ---------- *)
Fixpoint is_prefix (p l : list byte) : bool :=
  match p, l with
  | [], _ => true
  | x :: p', y :: l' => (x =? y) && is_prefix p' l'
  | _ :: _, [] => false
  end.

(* index of the first occurrence of p in l, by trying every position from the left *)
Fixpoint find_first (p l : list byte) {struct l} : option nat :=
  if is_prefix p l then Some O
  else match l with
       | [] => None
       | _ :: tl => option_map S (find_first p tl)
       end.

Fixpoint count_markers (m : byte) (l : list byte) : nat :=
  match l with
  | b :: t => if b =? m then S (count_markers m t) else O
  | [] => O
  end.

(* level of the opening long bracket s starts with, and what follows it *)
Definition open_level (o m : byte) (s : list byte) : option (nat * list byte) :=
  match s with
  | b :: t =>
    if b =? o then
      let n := count_markers m t in
      match skipn n t with
      | b2 :: after => if b2 =? o then Some (n, after) else None
      | [] => None
      end
    else None
  | [] => None
  end.

(* length of the line ending l starts with (longest match), 0 if none *)
Definition eol_len (e : eolp) (l : list byte) : nat :=
  match l with
  | [] => O
  | a :: t =>
    let lf_next := match t with b :: _ => b =? 10 | [] => false end in
    match e with
    | EolLf => if a =? 10 then 1%nat else O
    | EolCr => if a =? 13 then 1%nat else O
    | EolCrlf => if (a =? 13) && lf_next then 2%nat else O
    | EolLfCrlf => if a =? 10 then 1%nat else if (a =? 13) && lf_next then 2%nat else O
    | EolCrCrlf => if a =? 13 then (if lf_next then 2%nat else 1%nat) else O
    end
  end.

Definition long_bracket (o m c : byte) (e : eolp) (s : list byte) : option (nat * nat * nat) :=
  match open_level o m s with
  | None => None
  | Some (n, after) =>
    match find_first (close_bracket c m n) after with
    | None => None
    | Some j =>
      let k := eol_len e (firstn j after) in
      Some ((n + 2 + k)%nat, (n + 2 + j)%nat, (n + 2 + j + n + 2)%nat)
    end
  end.

(* ---------- 3. equivalence ---------- *)
Lemma is_prefix_iff : forall p l, is_prefix p l = true <-> prefix_of p l.
Proof.
  induction p as [|x p IH]; intros l; split.
  - intros _. exists l. reflexivity.
  - intros _. reflexivity.
  - destruct l as [|y l]; cbn [is_prefix]; intro H.
    + discriminate H.
    + apply andb_true_iff in H. destruct H as [Hxy Hp]. apply N.eqb_eq in Hxy. subst y.
      apply IH in Hp. destruct Hp as [tl Htl]. exists tl. subst l. reflexivity.
  - intros [tl Htl]. subst l. cbn [is_prefix app]. rewrite N.eqb_refl. cbn [andb].
    apply IH. exists tl. reflexivity.
Qed.

Lemma is_prefix_false_iff : forall p l, is_prefix p l = false <-> ~ prefix_of p l.
Proof.
  intros p l. rewrite <- is_prefix_iff. destruct (is_prefix p l); split; intro H.
  - discriminate H.
  - exfalso. apply H. reflexivity.
  - intro K. discriminate K.
  - reflexivity.
Qed.

Lemma is_prefix_app : forall p tl, is_prefix p (p ++ tl) = true.
Proof. intros p tl. apply is_prefix_iff. exists tl. reflexivity. Qed.

Lemma find_first_some : forall p l j,
  find_first p l = Some j <->
  ((j <= length l)%nat /\ is_prefix p (skipn j l) = true /\
   forall j', (j' < j)%nat -> is_prefix p (skipn j' l) = false).
Proof.
  intros p. induction l as [|b tl IH]; intros j; cbn [find_first].
  - destruct (is_prefix p []) eqn:Hp; split.
    + intro H. injection H as H. subst j. cbn [skipn length]. repeat split; [lia | exact Hp | intros j' Hj'; lia].
    + intros [Hle [Hj _]]. cbn [length] in Hle. assert (j = O) by lia. subst j. reflexivity.
    + intro H. discriminate H.
    + intros [Hle [Hj _]]. cbn [length] in Hle. assert (j = O) by lia. subst j. cbn [skipn] in Hj. congruence.
  - destruct (is_prefix p (b :: tl)) eqn:Hp; split.
    + intro H. injection H as H. subst j. cbn [skipn]. repeat split; [lia | exact Hp | intros j' Hj'; lia].
    + intros [Hle [Hj Hmin]]. destruct j as [|j]; [reflexivity|].
      specialize (Hmin O ltac:(lia)). cbn [skipn] in Hmin. congruence.
    + intro H. destruct (find_first p tl) as [j0|] eqn:Hf; cbn [option_map] in H; [|discriminate H].
      injection H as H. subst j. destruct (proj1 (IH j0) eq_refl) as [Hle [Hj Hmin]].
      cbn [length skipn]. repeat split; [lia | exact Hj |].
      intros j' Hj'. destruct j' as [|j']; [exact Hp|]. cbn [skipn]. apply Hmin. lia.
    + intros [Hle [Hj Hmin]]. destruct j as [|j].
      * cbn [skipn] in Hj. congruence.
      * cbn [skipn length] in *. assert (Hf : find_first p tl = Some j).
        { apply IH. repeat split; [lia | exact Hj |]. intros j' Hj'. apply (Hmin (S j')). lia. }
        rewrite Hf. reflexivity.
Qed.

Lemma find_first_none : forall p l,
  find_first p l = None <-> forall j, is_prefix p (skipn j l) = false.
Proof.
  intros p. induction l as [|b tl IH]; cbn [find_first].
  - destruct (is_prefix p []) eqn:Hp; split.
    + intro H. discriminate H.
    + intro H. specialize (H O). cbn [skipn] in H. congruence.
    + intros _ j. destruct j; exact Hp.
    + reflexivity.
  - destruct (is_prefix p (b :: tl)) eqn:Hp; split.
    + intro H. discriminate H.
    + intro H. specialize (H O). cbn [skipn] in H. congruence.
    + intro H. destruct (find_first p tl) eqn:Hf; cbn [option_map] in H; [discriminate H|].
      intros j. destruct j as [|j]; [exact Hp|]. cbn [skipn]. apply IH. reflexivity.
    + intro H. assert (Hf : find_first p tl = None).
      { apply IH. intro j. apply (H (S j)). }
      rewrite Hf. reflexivity.
Qed.

Lemma count_markers_repeat : forall m n b tl, b <> m -> count_markers m (repeat m n ++ b :: tl) = n.
Proof.
  intros m n b tl Hb. induction n as [|n IH]; cbn [repeat app count_markers].
  - destruct (b =? m) eqn:E; [apply N.eqb_eq in E; contradiction | reflexivity].
  - rewrite N.eqb_refl. rewrite IH. reflexivity.
Qed.

Lemma count_markers_split : forall m l,
  l = repeat m (count_markers m l) ++ skipn (count_markers m l) l.
Proof.
  intros m. induction l as [|b t IH]; cbn [count_markers].
  - reflexivity.
  - destruct (b =? m) eqn:E.
    + apply N.eqb_eq in E. subst b. cbn [repeat app skipn]. rewrite <- IH. reflexivity.
    + reflexivity.
Qed.

Lemma skipn_repeat_app : forall (m : byte) n l, skipn n (repeat m n ++ l) = l.
Proof. intros m n l. induction n as [|n IH]; cbn [repeat app skipn]; [reflexivity | exact IH]. Qed.

Lemma open_level_iff : forall o m s n after, o <> m ->
  (open_level o m s = Some (n, after) <-> s = open_bracket o m n ++ after).
Proof.
  intros o m s n after Hom. unfold open_level, open_bracket. split.
  - destruct s as [|b t]; [intro H; discriminate H|].
    destruct (b =? o) eqn:Eb; [|intro H; discriminate H]. apply N.eqb_eq in Eb. subst b.
    destruct (skipn (count_markers m t) t) as [|b2 aft] eqn:Es; [intro H; discriminate H|].
    destruct (b2 =? o) eqn:Eb2; [|intro H; discriminate H]. apply N.eqb_eq in Eb2. subst b2.
    intro H. injection H as Hn Ha. subst after.
    rewrite (count_markers_split m t) at 1. rewrite Es. rewrite Hn.
    cbn [app]. rewrite <- app_assoc. reflexivity.
  - intro H. subst s. cbn [app]. rewrite N.eqb_refl. rewrite <- app_assoc. cbn [app].
    rewrite (count_markers_repeat m n o after Hom). rewrite skipn_repeat_app. rewrite N.eqb_refl. reflexivity.
Qed.

Lemma eol_len_le : forall e l, (eol_len e l <= length l)%nat.
Proof.
  intros e l. destruct l as [|a [|b t]]; cbn [eol_len length]; [lia | |].
  - destruct e; destruct (a =? 10); destruct (a =? 13); cbn [andb]; lia.
  - destruct e; destruct (a =? 10); destruct (a =? 13); destruct (b =? 10); cbn [andb]; lia.
Qed.

Lemma prefix_cons_inv : forall (x y : byte) p l, prefix_of (x :: p) (y :: l) -> x = y /\ prefix_of p l.
Proof. intros x y p l [tl H]. cbn [app] in H. injection H as Hxy Hl. split; [congruence | exists tl; exact Hl]. Qed.

Lemma prefix_nil_inv : forall (x : byte) p, ~ prefix_of (x :: p) [].
Proof. intros x p [tl H]. cbn [app] in H. discriminate H. Qed.

Ltac eqb_cases :=
  repeat match goal with
  | H : (_ =? _) = true |- _ => apply N.eqb_eq in H; subst
  | H : (_ =? _) = false |- _ => apply N.eqb_neq in H
  end.

Lemma eol_len_spec : forall e T le, stripped_line_end e T le <-> le = firstn (eol_len e T) T.
Proof.
  intros e T le. split.
  - intros [[Hle [Hpre Hmax]] | [Hnil Hnone]].
    + destruct Hpre as [tl Htl]. subst T.
      inversion Hle; subst; cbn [app eol_len firstn N.eqb Pos.eqb andb]; try reflexivity.
      * (* cr_crlf, "\r": maximality says no "\n" follows *)
        destruct tl as [|b t]; [reflexivity|].
        destruct (b =? 10) eqn:Eb; [|reflexivity]. apply N.eqb_eq in Eb. subst b.
        specialize (Hmax [13; 10] le_cr_crlf_2). cbn [length] in Hmax.
        assert (K : (2 <= 1)%nat) by (apply Hmax; exists t; reflexivity). lia.
    + subst le. destruct T as [|a t]; [reflexivity|].
      assert (Ha10 : forall e', (e' = EolLf \/ e' = EolLfCrlf) -> e = e' -> a <> 10).
      { intros e' He' Hee Ha. subst a. apply (Hnone [10]).
        - destruct He' as [He'|He']; subst; constructor.
        - exists t. reflexivity. }
      assert (Ha13 : forall e', (e' = EolCr \/ e' = EolCrCrlf) -> e = e' -> a <> 13).
      { intros e' He' Hee Ha. subst a. apply (Hnone [13]).
        - destruct He' as [He'|He']; subst; constructor.
        - exists t. reflexivity. }
      assert (Hcrlf : forall e', (e' = EolCrlf \/ e' = EolLfCrlf) -> e = e' ->
                                 forall t', t = 10 :: t' -> a <> 13).
      { intros e' He' Hee t' Ht Ha. subst a t. apply (Hnone [13; 10]).
        - destruct He' as [He'|He']; subst; constructor.
        - exists t'. reflexivity. }
      cbn [eol_len].
      destruct e.
      * destruct (a =? 10) eqn:E1; [|reflexivity]. eqb_cases. exfalso. apply (Ha10 EolLf); auto.
      * destruct (a =? 13) eqn:E1; [|reflexivity]. eqb_cases. exfalso. apply (Ha13 EolCr); auto.
      * destruct (a =? 13) eqn:E1; cbn [andb]; [|reflexivity].
        destruct t as [|b t']; [reflexivity|]. destruct (b =? 10) eqn:E2; [|reflexivity].
        eqb_cases. exfalso. apply (Hcrlf EolCrlf (or_introl eq_refl) eq_refl t'); reflexivity.
      * destruct (a =? 10) eqn:E0; [eqb_cases; exfalso; apply (Ha10 EolLfCrlf); auto|].
        destruct (a =? 13) eqn:E1; cbn [andb]; [|reflexivity].
        destruct t as [|b t']; [reflexivity|]. destruct (b =? 10) eqn:E2; [|reflexivity].
        eqb_cases. exfalso. apply (Hcrlf EolLfCrlf (or_intror eq_refl) eq_refl t'); reflexivity.
      * destruct (a =? 13) eqn:E1; [|reflexivity]. eqb_cases. exfalso. apply (Ha13 EolCrCrlf); auto.
  - intro H. subst le. unfold stripped_line_end.
    destruct T as [|a t].
    + right. split; [reflexivity|]. intros le' Hle' Hp. inversion Hle'; subst; apply (prefix_nil_inv _ _ Hp).
    + cbn [eol_len].
      destruct e.
      * destruct (a =? 10) eqn:E1; eqb_cases.
        -- left. cbn [firstn]. split; [constructor|]. split; [exists t; reflexivity|].
           intros le' Hle' _. inversion Hle'; subst; cbn [length]; lia.
        -- right. split; [reflexivity|]. intros le' Hle' Hp. inversion Hle'; subst.
           apply prefix_cons_inv in Hp. destruct Hp as [Hp _]. congruence.
      * destruct (a =? 13) eqn:E1; eqb_cases.
        -- left. cbn [firstn]. split; [constructor|]. split; [exists t; reflexivity|].
           intros le' Hle' _. inversion Hle'; subst; cbn [length]; lia.
        -- right. split; [reflexivity|]. intros le' Hle' Hp. inversion Hle'; subst.
           apply prefix_cons_inv in Hp. destruct Hp as [Hp _]. congruence.
      * destruct (a =? 13) eqn:E1; cbn [andb]; eqb_cases.
        -- destruct t as [|b t'].
           ++ right. split; [reflexivity|]. intros le' Hle' Hp. inversion Hle'; subst.
              apply prefix_cons_inv in Hp. destruct Hp as [_ Hp]. apply (prefix_nil_inv _ _ Hp).
           ++ destruct (b =? 10) eqn:E2; eqb_cases.
              ** left. cbn [firstn]. split; [constructor|]. split; [exists t'; reflexivity|].
                 intros le' Hle' _. inversion Hle'; subst; cbn [length]; lia.
              ** right. split; [reflexivity|]. intros le' Hle' Hp. inversion Hle'; subst.
                 apply prefix_cons_inv in Hp. destruct Hp as [_ Hp].
                 apply prefix_cons_inv in Hp. destruct Hp as [Hp _]. congruence.
        -- right. split; [reflexivity|]. intros le' Hle' Hp. inversion Hle'; subst.
           apply prefix_cons_inv in Hp. destruct Hp as [Hp _]. congruence.
      * destruct (a =? 10) eqn:E0; eqb_cases.
        -- left. cbn [firstn]. split; [constructor|]. split; [exists t; reflexivity|].
           intros le' Hle' Hp. inversion Hle'; subst; cbn [length]; [lia|].
           apply prefix_cons_inv in Hp. destruct Hp as [Hp _]. discriminate Hp.
        -- destruct (a =? 13) eqn:E1; cbn [andb]; eqb_cases.
           ++ destruct t as [|b t'].
              ** right. split; [reflexivity|]. intros le' Hle' Hp. inversion Hle'; subst.
                 --- apply prefix_cons_inv in Hp. destruct Hp as [Hp _]. discriminate Hp.
                 --- apply prefix_cons_inv in Hp. destruct Hp as [_ Hp]. apply (prefix_nil_inv _ _ Hp).
              ** destruct (b =? 10) eqn:E2; eqb_cases.
                 --- left. cbn [firstn]. split; [constructor|]. split; [exists t'; reflexivity|].
                     intros le' Hle' _. inversion Hle'; subst; cbn [length]; lia.
                 --- right. split; [reflexivity|]. intros le' Hle' Hp. inversion Hle'; subst.
                     +++ apply prefix_cons_inv in Hp. destruct Hp as [Hp _]. discriminate Hp.
                     +++ apply prefix_cons_inv in Hp. destruct Hp as [_ Hp].
                         apply prefix_cons_inv in Hp. destruct Hp as [Hp _]. congruence.
           ++ right. split; [reflexivity|]. intros le' Hle' Hp. inversion Hle'; subst.
              --- apply prefix_cons_inv in Hp. destruct Hp as [Hp _]. congruence.
              --- apply prefix_cons_inv in Hp. destruct Hp as [Hp _]. congruence.
      * destruct (a =? 13) eqn:E1; eqb_cases.
        -- destruct t as [|b t'].
           ++ left. cbn [firstn]. split; [constructor|]. split; [exists []; reflexivity|].
              intros le' Hle' Hp. inversion Hle'; subst; cbn [length]; [lia|].
              apply prefix_cons_inv in Hp. destruct Hp as [_ Hp]. exfalso. apply (prefix_nil_inv _ _ Hp).
           ++ destruct (b =? 10) eqn:E2; eqb_cases.
              ** left. cbn [firstn]. split; [constructor|]. split; [exists t'; reflexivity|].
                 intros le' Hle' _. inversion Hle'; subst; cbn [length]; lia.
              ** left. cbn [firstn]. split; [constructor|]. split; [exists (b :: t'); reflexivity|].
                 intros le' Hle' Hp. inversion Hle'; subst; cbn [length]; [lia|].
                 apply prefix_cons_inv in Hp. destruct Hp as [_ Hp].
                 apply prefix_cons_inv in Hp. destruct Hp as [Hp _]. congruence.
        -- right. split; [reflexivity|]. intros le' Hle' Hp. inversion Hle'; subst.
           ++ apply prefix_cons_inv in Hp. destruct Hp as [Hp _]. congruence.
           ++ apply prefix_cons_inv in Hp. destruct Hp as [Hp _]. congruence.
Qed.

Lemma close_bracket_length : forall c m n, length (close_bracket c m n) = (n + 2)%nat.
Proof. intros c m n. unfold close_bracket. cbn [length]. rewrite app_length, repeat_length. cbn [length]. lia. Qed.

Lemma open_bracket_length : forall o m n, length (open_bracket o m n) = (n + 2)%nat.
Proof. intros o m n. unfold open_bracket. cbn [length]. rewrite app_length, repeat_length. cbn [length]. lia. Qed.

Lemma skipn_length_app : forall (a b : list byte), skipn (length a) (a ++ b) = b.
Proof. intros a b. induction a as [|x a IH]; cbn [length app skipn]; [reflexivity | exact IH]. Qed.

Lemma firstn_length_app : forall (a b : list byte), firstn (length a) (a ++ b) = a.
Proof. intros a b. induction a as [|x a IH]; cbn [length app firstn]; [reflexivity | rewrite IH; reflexivity]. Qed.

Theorem long_bracket_iff : forall o m c e s cb ce total, o <> m ->
  (LongBracket o m c e s cb ce total <-> long_bracket o m c e s = Some (cb, ce, total)).
Proof.
  intros o m c e s cb ce total Hom. split.
  - intros [n [le [content [rest_ [Hs [Hle [Hfirst [Hcb [Hce Htot]]]]]]]]].
    unfold long_bracket.
    assert (Hop : open_level o m s = Some (n, (le ++ content) ++ close_bracket c m n ++ rest_)).
    { apply open_level_iff; assumption. }
    rewrite Hop.
    assert (Hff : find_first (close_bracket c m n) ((le ++ content) ++ close_bracket c m n ++ rest_)
                  = Some (length (le ++ content))).
    { apply find_first_some. split; [|split].
      - rewrite (app_length (le ++ content)). lia.
      - rewrite skipn_length_app. apply is_prefix_app.
      - intros j' Hj'. apply is_prefix_false_iff. apply Hfirst. exact Hj'. }
    rewrite Hff. rewrite firstn_length_app.
    apply eol_len_spec in Hle.
    assert (Hk : length le = eol_len e (le ++ content)).
    { rewrite Hle at 1. rewrite firstn_length. pose proof (eol_len_le e (le ++ content)). lia. }
    rewrite <- Hk. rewrite app_length in *. f_equal. f_equal; [f_equal|]; lia.
  - unfold long_bracket. intro H.
    destruct (open_level o m s) as [[n after]|] eqn:Hop; [|discriminate H].
    destruct (find_first (close_bracket c m n) after) as [j|] eqn:Hff; [|discriminate H].
    injection H as Hcb Hce Htot.
    apply open_level_iff in Hop; [|assumption].
    apply find_first_some in Hff. destruct Hff as [Hjle [Hj Hmin]].
    apply is_prefix_iff in Hj. destruct Hj as [rest_ Hrest].
    set (T := firstn j after).
    set (k := eol_len e T).
    assert (HT : after = T ++ close_bracket c m n ++ rest_).
    { rewrite <- Hrest. unfold T. symmetry. apply firstn_skipn. }
    assert (HlenT : length T = j). { unfold T. rewrite firstn_length. lia. }
    assert (Hk : (k <= length T)%nat) by apply eol_len_le.
    exists n, (firstn k T), (skipn k T), rest_.
    rewrite firstn_skipn.
    split; [rewrite Hop, HT; reflexivity|].
    split; [apply eol_len_spec; reflexivity|].
    split.
    + intros j' Hj'. rewrite <- HT. apply is_prefix_false_iff. apply Hmin. lia.
    + rewrite firstn_length, skipn_length. subst k T. lia.
Qed.

(* the specification is functional: at most one answer per input *)
Corollary LongBracket_unique : forall o m c e s cb ce total cb' ce' total', o <> m ->
  LongBracket o m c e s cb ce total -> LongBracket o m c e s cb' ce' total' ->
  cb = cb' /\ ce = ce' /\ total = total'.
Proof.
  intros o m c e s cb ce total cb' ce' total' Hom H1 H2.
  apply long_bracket_iff in H1; [|assumption]. apply long_bracket_iff in H2; [|assumption].
  rewrite H1 in H2. injection H2 as -> -> ->. repeat split.
Qed.
