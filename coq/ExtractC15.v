(* ExtractC15.v — extraction of the integer.hpp model for the C15 correspondence
   (ExtrOcamlBasic only; numbers stay Coq's positive/N/Z/nat inductives). *)
From PegtlV Require Import Base Integer.
From Coq Require Import Extraction ExtrOcamlBasic.
Extraction Language OCaml.
Extraction "c15_model.ml"
  unsigned_rule unsigned_rule_with_action maximum_rule maximum_rule_with_action
  signed_rule signed_rule_with_action
  unsigned_rule_unsigned_action maximum_rule_maximum_action signed_rule_signed_action
  accumulate_digit umax pos0 N.add N.mul.
