(* ExtractC13.v — extraction of the C13 scope checker (specification side, StateScope.v): it is applied to the
   IMPLEMENTATION's event logs as the oracle.  ExtrOcamlBasic only; numbers stay positive/N/Z/nat inductives. *)
From PegtlV Require Import Base Decode Grammar Engine StateScope.
From Coq Require Import Extraction ExtrOcamlBasic.
Extraction Language OCaml.
Extraction "c13_model.ml" accepts first_reject N.add N.mul.
