(* ExactComplete.v — C01, completeness half: whenever the PEG formalism assigns a verdict to a
   classical surface expression on an input, the engine (with enough fuel) reaches that verdict on
   every table node denoting the expression, in every apply mode / rewind mode / control family
   and under every attachment of void actions, having consumed exactly the prescribed prefix. *)
From Coq Require Import Lia.
From PegtlV Require Import Base Decode Grammar Engine EngineFacts AtomFacts Mono Spec Denote ExactSound.
Local Open Scope N_scope.

Lemma le_res_res a b o c e : le_res a b -> a = Res o c e -> b = Res o c e.
Proof. intros [H|H] E; [congruence | rewrite <- H; exact E]. Qed.

Definition okf (r : option (list byte)) : outcome := match r with Some _ => Ok | None => Fail end.
Definition fin (r : option (list byte)) (c' : cursor) : Prop := forall s', r = Some s' -> rest c' = s'.

Lemma vres_fwd x r : vres x = Some r -> exists c' evs, x = Res (okf r) c' evs /\ fin r c'.
Proof.
  destruct x as [[| |e] c' evs| |]; simpl; intros H; inversion H; subst; simpl.
  - exists c', evs. split; [reflexivity|]. intros s' E. inversion E. reflexivity.
  - exists c', evs. split; [reflexivity|]. intros s' E. discriminate.
Qed.

Section Complete.
Variable G : grammar.
Variable g : sgrammar.
Variable nm : nat -> rid.
Variable C : cfg.
Hypothesis HG : table_wf G.
Hypothesis Hacts : forall fam r, void_ak (acts C fam r).
Hypothesis Habeh : forall fam r b e, exists x, abeh C fam r b e = ARet x.
Hypothesis Hrof : forall k r, raise_on_failure C k r = false.
Hypothesis Hdefs : forall k e, nth_error g k = Some e -> not_ref e = true /\ exists n, denb G g nm n (nm k) e = true.

Notation ev := (eval G C).
Lemma evle f1 f2 : (f1 <= f2)%nat -> forall d r c, le_res (ev f1 d r c) (ev f2 d r c).
Proof. intros L d r c. apply eval_mono. exact L. Qed.

(* ---------- fuel-free evaluation relations ---------- *)
Definition EvOut d rr c o (P : cursor -> Prop) := exists f c' evs, ev f d rr c = Res o c' evs /\ P c'.
Definition SeqOut d rs c o (P : cursor -> Prop) := exists f c' evs, seq_all (ev f) d rs c = Res o c' evs /\ P c'.
Definition SorOut d rs c o (P : cursor -> Prop) := exists f c' evs, sor_any (ev f) d rs c = Res o c' evs /\ P c'.
Definition StarOut d r1 c (P : cursor -> Prop) := exists f k c' evs, star_loop (ev f) k d [r1] c = Res Ok c' evs /\ P c'.
(* what eval_head must deliver for one node, for all large fuels *)
Definition HeadOut nd rr d c o (P : cursor -> Prop) :=
  exists F, forall N, (F <= N)%nat -> exists c1 evs1,
    eval_head C (ev N) N rr (nhead nd) (nsubs nd) d c = Res o c1 evs1 /\ P c1.

Lemma match_hpp_fold ak body d r c o c1 evs1 : void_ak ak -> (o = Ok \/ o = Fail) ->
  body (if use_guard d ak then opt_ d else d) c = Res o c1 evs1 ->
  exists c' evs, match_hpp C ak body d r c = Res o c' evs /\ (o = Ok -> c' = c1).
Proof.
  intros Hv Ho Hb. unfold match_hpp. rewrite Hb. destruct Ho as [-> | ->].
  - destruct (run_action_void C Habeh d ak r (cpos c) (cpos c1) Hv) as [ea ->]. eexists. eexists. split; [reflexivity | auto].
  - unfold fail_hook. rewrite Hrof. eexists. eexists. split; [reflexivity | discriminate].
Qed.

Lemma node_fold nd rr d c o P : nth_error G rr = Some nd -> (o = Ok \/ o = Fail) ->
  (forall d', HeadOut nd rr d' c o P) -> EvOut d rr c o (fun c' => o = Ok -> P c').
Proof.
  intros Hn Ho Hh.
  destruct (Hh d) as [F1 H1]. destruct (Hh (opt_ d)) as [F2 H2].
  set (N := Nat.max F1 F2).
  destruct (H1 N) as [c1 [e1 [K1 P1]]]; [lia|]. destruct (H2 N) as [c2 [e2 [K2 P2]]]; [lia|].
  exists (S N). simpl. rewrite Hn.
  assert (T : forall x c' evs0, x = Res o c' evs0 -> (o = Ok -> P c') ->
              exists c'' evs, traced (dCtl d) rr (dA d) (dM d) c x = Res o c'' evs /\ (o = Ok -> P c'')).
  { intros x c' evs0 -> Hp. simpl. eexists. eexists. split; [reflexivity | exact Hp]. }
  pose proof (Hacts (dAct d) rr) as Hv.
  assert (Plain : forall ak, void_ak ak -> exists c' evs0,
            (if nenabled nd then match_hpp C ak (eval_head C (ev N) N rr (nhead nd) (nsubs nd)) d rr c
             else eval_head C (ev N) N rr (nhead nd) (nsubs nd) d c) = Res o c' evs0 /\ (o = Ok -> P c')).
  { intros ak Hak. destruct (nenabled nd).
    - destruct (use_guard d ak) eqn:Eg.
      + destruct (match_hpp_fold ak (eval_head C (ev N) N rr (nhead nd) (nsubs nd)) d rr c o c2 e2 Hak Ho) as [c' [evs0 [M1 M2]]]; [rewrite Eg; exact K2|].
        exists c', evs0. split; [exact M1|]. intros E. rewrite (M2 E). exact P2.
      + destruct (match_hpp_fold ak (eval_head C (ev N) N rr (nhead nd) (nsubs nd)) d rr c o c1 e1 Hak Ho) as [c' [evs0 [M1 M2]]]; [rewrite Eg; exact K1|].
        exists c', evs0. split; [exact M1|]. intros E. rewrite (M2 E). exact P1.
    - exists c1, e1. split; [exact K1 | intros _; exact P1]. }
  destruct (acts C (dAct d) rr) as [|isb|isb|m] eqn:Ea; simpl in Hv; try contradiction.
  - destruct (Plain AKNone I) as [c' [evs0 [K Pk]]]. eapply T; eauto.
  - destruct isb; [contradiction|]. destruct (Plain (AKApply false) I) as [c' [evs0 [K Pk]]]. eapply T; eauto.
  - destruct isb; [contradiction|]. destruct (Plain (AKApply0 false) I) as [c' [evs0 [K Pk]]]. eapply T; eauto.
Qed.

(* ---------- fuel lifting ---------- *)
Lemma seq_lift f1 f2 d rs c o c' evs : (f1 <= f2)%nat -> seq_all (ev f1) d rs c = Res o c' evs -> seq_all (ev f2) d rs c = Res o c' evs.
Proof. intros L. apply le_res_res. apply seq_all_mono. apply evle; exact L. Qed.
Lemma sor_lift f1 f2 d rs c o c' evs : (f1 <= f2)%nat -> sor_any (ev f1) d rs c = Res o c' evs -> sor_any (ev f2) d rs c = Res o c' evs.
Proof. intros L. apply le_res_res. apply sor_any_mono. apply evle; exact L. Qed.
Lemma star_lift f1 f2 k1 k2 d rs c o c' evs : (f1 <= f2)%nat -> (k1 <= k2)%nat ->
  star_loop (ev f1) k1 d rs c = Res o c' evs -> star_loop (ev f2) k2 d rs c = Res o c' evs.
Proof. intros L K. apply le_res_res. apply star_loop_mono; [apply evle; exact L | exact K]. Qed.
Lemma ev_lift f1 f2 d r c o c' evs : (f1 <= f2)%nat -> ev f1 d r c = Res o c' evs -> ev f2 d r c = Res o c' evs.
Proof. intros L H. eapply eval_mono_res; eauto. Qed.

Lemma star_loop_dM e n : forall d rs c, star_loop e n (opt_ d) rs c = star_loop e n d rs c.
Proof. induction n as [|n IH]; intros d rs c; simpl; [reflexivity|]. change (req (opt_ d)) with (req d).
  destruct (seq_all e (req d) rs c) as [[| |x] c1 e1| |]; try reflexivity. rewrite IH. reflexivity. Qed.

(* ---------- the three statements proved together by induction on the derivation ---------- *)
Definition A (e : sexp) (s : list byte) (r : option (list byte)) : Prop :=
  forall n rr d c, denb G g nm n rr e = true -> rest c = s -> bytes_ok s -> EvOut d rr c (okf r) (fin r).
Definition B (e : sexp) (s : list byte) (r : option (list byte)) : Prop :=
  forall n rs d c, den_seqb (denb G g nm n) rs e = true -> rest c = s -> bytes_ok s -> SeqOut d rs c (okf r) (fin r).
Definition Cs (e : sexp) (s : list byte) (r : option (list byte)) : Prop :=
  forall n rs d c, den_sorb (denb G g nm n) rs e = true -> rest c = s -> bytes_ok s -> SorOut d rs c (okf r) (fin r).

Lemma fin_some s' c' : fin (Some s') c' -> rest c' = s'.
Proof. intros H. apply H. reflexivity. Qed.
Lemma okf_cases r : okf r = Ok \/ okf r = Fail.
Proof. destruct r; simpl; auto. Qed.

(* A for a non-reference expression from a per-node statement *)
Lemma A_of_head e s r : not_ref e = true ->
  (forall n nd rr c, nth_error G rr = Some nd -> den_node (denb G g nm n) nd e = true -> rest c = s -> bytes_ok s ->
     forall d', HeadOut nd rr d' c (okf r) (fin r)) -> A e s r.
Proof.
  intros Hnr Hh n rr d c Hd Hs Hb. destruct n as [|n]; [discriminate|]. cbn [denb] in Hd.
  destruct (nth_error G rr) as [nd|] eqn:Hn; [|discriminate].
  assert (Hd' : den_node (denb G g nm n) nd e = true) by (destruct e; try exact Hd; discriminate Hnr).
  destruct (node_fold nd rr d c (okf r) (fin r) Hn (okf_cases r) (Hh n nd rr c Hn Hd' Hs Hb)) as [f [c' [evs [K P]]]].
  exists f, c', evs. split; [exact K|]. intros s' E. subst r. apply P; reflexivity.
Qed.

(* B: singleton from A; two or more from the head expression and the tail list *)
Lemma B_single e s r : A e s r -> forall n r1 d c, denb G g nm n r1 e = true -> rest c = s -> bytes_ok s -> SeqOut d [r1] c (okf r) (fin r).
Proof.
  intros HA n r1 d c Hd Hs Hb. destruct (HA n r1 d c Hd Hs Hb) as [f [c' [evs [K P]]]].
  exists f. cbn [seq_all]. unfold bind. rewrite K. destruct r; simpl in *.
  - exists c', (evs ++ []). auto.
  - exists c', evs. auto.
Qed.
Lemma C_single e s r : A e s r -> forall n r1 d c, denb G g nm n r1 e = true -> rest c = s -> bytes_ok s -> SorOut d [r1] c (okf r) (fin r).
Proof. intros HA n r1 d c Hd Hs Hb. destruct (HA n r1 d c Hd Hs Hb) as [f [c' [evs [K P]]]]. exists f, c', evs. auto. Qed.

Lemma B_not_seq e s r : A e s r -> (forall a b, e <> SSeq a b) -> B e s r.
Proof.
  intros HA Hne n rs d c Hd Hs Hb. destruct rs as [|r1 [|r2 rs']]; [discriminate| |].
  - eapply B_single; eauto.
  - cbn [den_seqb] in Hd. destruct e; try discriminate. exfalso. eapply Hne; reflexivity.
Qed.
Lemma C_not_sor e s r : A e s r -> (forall a b, e <> SSor a b) -> Cs e s r.
Proof.
  intros HA Hne n rs d c Hd Hs Hb. destruct rs as [|r1 [|r2 rs']]; [discriminate| |].
  - eapply C_single; eauto.
  - cbn [den_sorb] in Hd. destruct e; try discriminate. exfalso. eapply Hne; reflexivity.
Qed.

Lemma ev_ok_bytes f d r c c1 evs : ev f d r c = Res Ok c1 evs -> bytes_ok (rest c) -> bytes_ok (rest c1).
Proof. intros H Hb. eapply ev_bytes; eauto. discriminate. Qed.

(* sequences with at least two elements *)
Lemma B_multi_ok a b s s1 r : A a s (Some s1) -> B b s1 r ->
  forall n r1 r2 rs d c, den_seqb (denb G g nm n) (r1 :: r2 :: rs) (SSeq a b) = true -> rest c = s -> bytes_ok s ->
    SeqOut d (r1 :: r2 :: rs) c (okf r) (fin r).
Proof.
  intros HA HB n r1 r2 rs d c Hd Hs Hb. cbn [den_seqb] in Hd. apply andb_true_iff in Hd. destruct Hd as [Hd1 Hd2].
  destruct (HA n r1 d c Hd1 Hs Hb) as [f1 [c1 [e1 [K1 P1]]]]. apply fin_some in P1. simpl in K1.
  assert (Hb1 : bytes_ok s1) by (rewrite <- P1; eapply ev_ok_bytes; eauto; rewrite Hs; exact Hb).
  destruct (HB n (r2 :: rs) d c1 Hd2 P1 Hb1) as [f2 [c2 [e2 [K2 P2]]]].
  exists (Nat.max f1 f2). rewrite seq_all_cons. unfold bind.
  rewrite (ev_lift f1 (Nat.max f1 f2) _ _ _ _ _ _ (Nat.le_max_l _ _) K1).
  rewrite (seq_lift f2 (Nat.max f1 f2) _ _ _ _ _ _ (Nat.le_max_r _ _) K2). simpl. eexists. eexists. split; [reflexivity | exact P2].
Qed.
Lemma B_multi_fail a b s : A a s None ->
  forall n r1 r2 rs d c, den_seqb (denb G g nm n) (r1 :: r2 :: rs) (SSeq a b) = true -> rest c = s -> bytes_ok s ->
    SeqOut d (r1 :: r2 :: rs) c Fail (fin None).
Proof.
  intros HA n r1 r2 rs d c Hd Hs Hb. cbn [den_seqb] in Hd. apply andb_true_iff in Hd. destruct Hd as [Hd1 Hd2].
  destruct (HA n r1 d c Hd1 Hs Hb) as [f1 [c1 [e1 [K1 P1]]]]. simpl in K1.
  exists f1. rewrite seq_all_cons. unfold bind. rewrite K1. eexists. eexists. split; [reflexivity | intros s' E; discriminate].
Qed.

Lemma sor_any_cons2 e d r r2 rs c : sor_any e d (r :: r2 :: rs) c =
  match e (req d) r c with Res Fail c' evs => prepend evs (sor_any e d (r2 :: rs) c') | x => x end.
Proof. reflexivity. Qed.

Lemma C_multi_ok a b s s1 : A a s (Some s1) ->
  forall n r1 r2 rs d c, den_sorb (denb G g nm n) (r1 :: r2 :: rs) (SSor a b) = true -> rest c = s -> bytes_ok s ->
    SorOut d (r1 :: r2 :: rs) c Ok (fin (Some s1)).
Proof.
  intros HA n r1 r2 rs d c Hd Hs Hb. cbn [den_sorb] in Hd. apply andb_true_iff in Hd. destruct Hd as [Hd1 Hd2].
  destruct (HA n r1 (req d) c Hd1 Hs Hb) as [f1 [c1 [e1 [K1 P1]]]]. simpl in K1.
  exists f1. rewrite sor_any_cons2. rewrite K1. eexists. eexists. split; [reflexivity | exact P1].
Qed.
Lemma C_multi_next a b s r : A a s None -> Cs b s r ->
  forall n r1 r2 rs d c, den_sorb (denb G g nm n) (r1 :: r2 :: rs) (SSor a b) = true -> rest c = s -> bytes_ok s ->
    SorOut d (r1 :: r2 :: rs) c (okf r) (fin r).
Proof.
  intros HA HC n r1 r2 rs d c Hd Hs Hb. cbn [den_sorb] in Hd. apply andb_true_iff in Hd. destruct Hd as [Hd1 Hd2].
  destruct (HA n r1 (req d) c Hd1 Hs Hb) as [f1 [c1 [e1 [K1 P1]]]]. simpl in K1.
  pose proof (ev_req_fail G C HG _ _ _ _ _ _ K1) as ->.
  destruct (HC n (r2 :: rs) d c Hd2 Hs Hb) as [f2 [c2 [e2 [K2 P2]]]].
  exists (Nat.max f1 f2). rewrite sor_any_cons2.
  rewrite (ev_lift f1 (Nat.max f1 f2) _ _ _ _ _ _ (Nat.le_max_l _ _) K1).
  rewrite (sor_lift f2 (Nat.max f1 f2) _ _ _ _ _ _ (Nat.le_max_r _ _) K2). simpl. eexists. eexists. split; [reflexivity | exact P2].
Qed.

(* head-level delivery from the list relations *)
Lemma head_seq nd rr d c o P : nhead nd = HSeq -> (2 <= length (nsubs nd))%nat -> SeqOut (opt_ d) (nsubs nd) c o P -> (o = Ok \/ o = Fail) ->
  HeadOut nd rr d c o (fun c' => o = Ok -> P c').
Proof.
  intros Hh Hl [f [c' [evs [K Pc]]]] Ho. exists f. intros N L. unfold eval_head. rewrite Hh. cbn [eval_atom]. unfold h_seq.
  destruct (nsubs nd) as [|r1 [|r2 rs]]; simpl in Hl; try lia.
  rewrite (seq_lift f N _ _ _ _ _ _ L K). destruct Ho as [-> | ->]; simpl; eexists; eexists; split; try reflexivity; auto. discriminate.
Qed.
Lemma head_sor nd rr d c o P : nhead nd = HSor -> SorOut d (nsubs nd) c o P ->
  HeadOut nd rr d c o P.
Proof.
  intros Hh [f [c' [evs [K Pc]]]]. exists f. intros N L. unfold eval_head. rewrite Hh. cbn [eval_atom].
  rewrite (sor_lift f N _ _ _ _ _ _ L K). eexists; eexists; split; [reflexivity | exact Pc].
Qed.

Lemma head_atom nd rr d c r x : eval_atom (ceol C) (nhead nd) c = Some x -> vres x = Some r -> HeadOut nd rr d c (okf r) (fin r).
Proof.
  intros Ha Hv. exists 0%nat. intros N _. unfold eval_head. rewrite Ha. apply vres_fwd. exact Hv.
Qed.

(* star loops directly from the derivation (needed by plus, whose table has no star node) *)
Definition St (e : sexp) (s : list byte) (r : option (list byte)) : Prop :=
  forall e1, e = SStar e1 -> forall n r1 d c, denb G g nm n r1 e1 = true -> rest c = s -> bytes_ok s -> StarOut d r1 c (fin r).

Lemma star_end e1 s : A e1 s None -> St (SStar e1) s (Some s).
Proof.
  intros HA e1' E n r1 d c Hd Hs Hb. inversion E; subst e1'.
  destruct (HA n r1 (req d) c Hd Hs Hb) as [f [c1 [e [K _]]]]. simpl in K.
  pose proof (ev_req_fail G C HG _ _ _ _ _ _ K) as ->.
  exists f, 1%nat, c, e. split.
  - cbn [star_loop seq_all]. unfold bind. rewrite K. reflexivity.
  - intros s' E'. injection E' as <-. exact Hs.
Qed.
Lemma star_step e1 s s1 r : A e1 s (Some s1) -> St (SStar e1) s1 r -> St (SStar e1) s r.
Proof.
  intros HA HS e1' E n r1 d c Hd Hs Hb. inversion E; subst e1'.
  destruct (HA n r1 (req d) c Hd Hs Hb) as [f1 [c1 [ev1 [K1 P1]]]]. apply fin_some in P1. simpl in K1.
  assert (Hb1 : bytes_ok s1) by (rewrite <- P1; eapply ev_ok_bytes; eauto; rewrite Hs; exact Hb).
  destruct (HS e1 eq_refl n r1 d c1 Hd P1 Hb1) as [f2 [k2 [c2 [ev2 [K2 P2]]]]].
  exists (Nat.max f1 f2), (S k2). cbn [star_loop seq_all]. unfold bind.
  rewrite (ev_lift f1 (Nat.max f1 f2) _ _ _ _ _ _ (Nat.le_max_l _ _) K1). simpl.
  rewrite (star_lift f2 (Nat.max f1 f2) k2 k2 _ _ _ _ _ _ (Nat.le_max_r _ _) (le_n _) K2). simpl.
  eexists. eexists. split; [reflexivity | exact P2].
Qed.
Lemma head_star nd rr d c r1 P : nhead nd = HStarPartial -> nsubs nd = [r1] -> StarOut d r1 c P -> HeadOut nd rr d c Ok P.
Proof.
  intros Hh Hs [f [k [c' [evs [K Pc]]]]]. exists (Nat.max f k). intros N L. unfold eval_head. rewrite Hh, Hs. cbn [eval_atom].
  rewrite (star_lift f N k N _ _ _ _ _ _ (Nat.max_lub_l _ _ _ L) (Nat.max_lub_r _ _ _ L) K). eexists. eexists. split; [reflexivity | exact Pc].
Qed.
Lemma Peg_star_some e1 s r : Peg g (SStar e1) s r -> exists s', r = Some s'.
Proof.
  remember (SStar e1) as e eqn:E. intros H. revert E. induction H; intros E; try discriminate; eauto.
Qed.

Lemma pack_simple e s r : A e s r -> (forall a b, e <> SSeq a b) -> (forall a b, e <> SSor a b) -> (forall e1, e <> SStar e1) ->
  A e s r /\ B e s r /\ Cs e s r /\ St e s r.
Proof.
  intros HA H1 H2 H3. split; [exact HA|]. split; [apply B_not_seq; assumption|]. split; [apply C_not_sor; assumption|].
  intros e1 E. exfalso. eapply H3; eauto.
Qed.

Ltac kill Hd :=
  solve [ discriminate Hd
        | repeat (match type of Hd with context [match ?x with _ => _ end] => destruct x end; try discriminate Hd) ].

Ltac nodecases Hd :=
  unfold den_node in Hd;
  match type of Hd with context [nhead ?nd] =>
    destruct (nhead nd) eqn:Eh; try discriminate Hd;
    try (match goal with pk : peek |- _ => destruct pk; try discriminate Hd end);
    try (match goal with found : bool |- _ => destruct found; try discriminate Hd end);
    destruct (nsubs nd) as [|?r1 [|?r2 ?rs]] eqn:Es; try discriminate Hd
  end.

Theorem complete_all e s r : Peg g e s r -> A e s r /\ B e s r /\ Cs e s r /\ St e s r.
Proof.
  induction 1.
  - (* any *) apply pack_simple; try discriminate. apply A_of_head; [reflexivity|]. intros n nd rr c Hn Hd Hs Hb d'. subst s.
    nodecases Hd. destruct (eval_atom (ceol C) (HAny PkChar) c) as [x|] eqn:Ea; [|discriminate Ea].
    eapply head_atom; [rewrite Eh; exact Ea | eapply any_verdict; eauto].
  - (* one *) apply pack_simple; try discriminate. apply A_of_head; [reflexivity|]. intros n nd rr c Hn Hd Hs Hb d'. subst s.
    nodecases Hd. apply andb_true_iff in Hd. destruct Hd as [Hz Hsm]. apply eqb_zs_eq in Hz. subst cs0.
    eapply head_atom; [rewrite Eh; reflexivity|].
    apply (ptb_char (eol_ch (ceol C)) (test_one_set true (map Z.of_N cs)) (fun b => mem b cs) c Hb).
    intros b Hb'. rewrite (test_set_mem true cs b Hb' Hsm). apply eqb_true_r.
  - (* not_one *) apply pack_simple; try discriminate. apply A_of_head; [reflexivity|]. intros n nd rr c Hn Hd Hs Hb d'. subst s.
    nodecases Hd. apply andb_true_iff in Hd. destruct Hd as [Hz Hsm]. apply eqb_zs_eq in Hz. subst cs0.
    eapply head_atom; [rewrite Eh; reflexivity|].
    apply (ptb_char (eol_ch (ceol C)) (test_one_set false (map Z.of_N cs)) (fun b => negb (mem b cs)) c Hb).
    intros b Hb'. rewrite (test_set_mem false cs b Hb' Hsm). destruct (mem b cs); reflexivity.
  - (* range *) apply pack_simple; try discriminate. apply A_of_head; [reflexivity|]. intros n nd rr c Hn Hd Hs Hb d'. subst s.
    nodecases Hd. apply andb_true_iff in Hd. destruct Hd as [Hd Hh2]. apply andb_true_iff in Hd. destruct Hd as [Hd Hl2].
    apply andb_true_iff in Hd. destruct Hd as [Hz1 Hz2]. apply Z.eqb_eq in Hz1, Hz2. subst lo0 hi0. apply N.ltb_lt in Hl2, Hh2.
    eapply head_atom; [rewrite Eh; reflexivity|].
    apply (ptb_char (eol_ch (ceol C)) (test_one_range true (Z.of_N lo) (Z.of_N hi)) (fun b => (lo <=? b) && (b <=? hi)) c Hb).
    intros b Hb'. apply test_range_mem; assumption.
  - (* string *) apply pack_simple; try discriminate. apply A_of_head; [reflexivity|]. intros n nd rr c Hn Hd Hs Hb d'. subst s.
    nodecases Hd. apply eqb_ns_eq in Hd. subst cs0.
    destruct (eval_atom (ceol C) (HString cs) c) as [x|] eqn:Ea; [|discriminate Ea].
    eapply head_atom; [rewrite Eh; exact Ea | eapply string_verdict; eauto].
  - (* eof *) apply pack_simple; try discriminate. apply A_of_head; [reflexivity|]. intros n nd rr c Hn Hd Hs Hb d'. subst s.
    nodecases Hd. destruct (eval_atom (ceol C) HEof c) as [x|] eqn:Ea; [|discriminate Ea].
    eapply head_atom; [rewrite Eh; exact Ea | eapply eof_verdict; eauto].
  - (* success *) apply pack_simple; try discriminate. apply A_of_head; [reflexivity|]. intros n nd rr c Hn Hd Hs Hb d'. subst s.
    nodecases Hd. eapply head_atom; [rewrite Eh; reflexivity | reflexivity].
  - (* failure *) apply pack_simple; try discriminate. apply A_of_head; [reflexivity|]. intros n nd rr c Hn Hd Hs Hb d'. subst s.
    nodecases Hd. eapply head_atom; [rewrite Eh; reflexivity | reflexivity].
  - (* seq ok *)
    destruct IHPeg1 as [Aa _]. destruct IHPeg2 as [Ab [Bb _]].
    assert (Bm : forall n r1 r2 rs d c, den_seqb (denb G g nm n) (r1 :: r2 :: rs) (SSeq a b) = true -> rest c = s -> bytes_ok s ->
                   SeqOut d (r1 :: r2 :: rs) c (okf r) (fin r)) by (eapply B_multi_ok; eauto).
    assert (AA : A (SSeq a b) s r).
    { apply A_of_head; [reflexivity|]. intros n nd rr c Hn Hd Hs Hb d'. unfold den_node in Hd.
      destruct (nhead nd) eqn:Eh; try (kill Hd).
      - apply andb_true_iff in Hd. destruct Hd as [Hl Hd]. apply Nat.leb_le in Hl.
        destruct (nsubs nd) as [|r1 [|r2 rs]] eqn:Es; simpl in Hl; try lia.
        destruct (head_seq nd rr d' c (okf r) (fin r) Eh) as [F HF]; [rewrite Es; simpl; lia | rewrite Es; eapply Bm; eauto | apply okf_cases|].
        exists F. intros N L. destruct (HF N L) as [c1 [e1 [K P]]]. exists c1, e1. split; [exact K|].
        intros s' E. subst r. apply P; reflexivity.
      - apply andb_true_iff in Hd. destruct Hd as [Hl Hd]. destruct (nsubs nd) as [|r1 [|r2 rs]]; try discriminate Hl. cbn [den_sorb] in Hd. discriminate Hd. }
    split; [exact AA|]. split.
    + intros n rs d c Hd Hs Hb. destruct rs as [|r1 [|r2 rs']]; [discriminate | eapply B_single; eauto | eapply Bm; eauto].
    + split; [apply C_not_sor; [exact AA | discriminate] | intros e1 E; discriminate E].
  - (* seq fail *)
    destruct IHPeg as [Aa _].
    assert (Bm : forall n r1 r2 rs d c, den_seqb (denb G g nm n) (r1 :: r2 :: rs) (SSeq a b) = true -> rest c = s -> bytes_ok s ->
                   SeqOut d (r1 :: r2 :: rs) c Fail (fin None)) by (eapply B_multi_fail; eauto).
    assert (AA : A (SSeq a b) s None).
    { apply A_of_head; [reflexivity|]. intros n nd rr c Hn Hd Hs Hb d'. unfold den_node in Hd.
      destruct (nhead nd) eqn:Eh; try (kill Hd).
      - apply andb_true_iff in Hd. destruct Hd as [Hl Hd]. apply Nat.leb_le in Hl.
        destruct (nsubs nd) as [|r1 [|r2 rs]] eqn:Es; simpl in Hl; try lia.
        destruct (head_seq nd rr d' c Fail (fin None) Eh) as [F HF]; [rewrite Es; simpl; lia | rewrite Es; eapply Bm; eauto | auto|].
        exists F. intros N L. destruct (HF N L) as [c1 [e1 [K P]]]. exists c1, e1. split; [exact K|]. intros s' E. discriminate.
      - apply andb_true_iff in Hd. destruct Hd as [Hl Hd]. destruct (nsubs nd) as [|r1 [|r2 rs]]; try discriminate Hl. cbn [den_sorb] in Hd. discriminate Hd. }
    split; [exact AA|]. split.
    + intros n rs d c Hd Hs Hb. destruct rs as [|r1 [|r2 rs']]; [discriminate | eapply (B_single _ _ None); eauto | eapply Bm; eauto].
    + split; [apply C_not_sor; [exact AA | discriminate] | intros e1 E; discriminate E].
  - (* sor ok *)
    destruct IHPeg as [Aa _].
    assert (Cm : forall n r1 r2 rs d c, den_sorb (denb G g nm n) (r1 :: r2 :: rs) (SSor a b) = true -> rest c = s -> bytes_ok s ->
                   SorOut d (r1 :: r2 :: rs) c Ok (fin (Some s1))) by (eapply C_multi_ok; eauto).
    assert (AA : A (SSor a b) s (Some s1)).
    { apply A_of_head; [reflexivity|]. intros n nd rr c Hn Hd Hs Hb d'. unfold den_node in Hd.
      destruct (nhead nd) eqn:Eh; try (kill Hd).
      - apply andb_true_iff in Hd. destruct Hd as [Hl Hd]. destruct (nsubs nd) as [|r1 [|r2 rs]]; try discriminate Hl. cbn [den_seqb] in Hd. discriminate Hd.
      - apply andb_true_iff in Hd. destruct Hd as [Hl Hd].
        destruct (nsubs nd) as [|r1 [|r2 rs]] eqn:Es; try discriminate Hl.
        apply (head_sor nd rr d' c Ok (fin (Some s1)) Eh). rewrite Es. eapply Cm; eauto. }
    split; [exact AA|]. split; [apply B_not_seq; [exact AA | discriminate]|]. split.
    + intros n rs d c Hd Hs Hb. destruct rs as [|r1 [|r2 rs']]; [discriminate | eapply (C_single _ _ (Some s1)); eauto | eapply Cm; eauto].
    + intros e1 E; discriminate E.
  - (* sor next *)
    destruct IHPeg1 as [Aa _]. destruct IHPeg2 as [Ab [_ [Cb _]]].
    assert (Cm : forall n r1 r2 rs d c, den_sorb (denb G g nm n) (r1 :: r2 :: rs) (SSor a b) = true -> rest c = s -> bytes_ok s ->
                   SorOut d (r1 :: r2 :: rs) c (okf r) (fin r)) by (eapply C_multi_next; eauto).
    assert (AA : A (SSor a b) s r).
    { apply A_of_head; [reflexivity|]. intros n nd rr c Hn Hd Hs Hb d'. unfold den_node in Hd.
      destruct (nhead nd) eqn:Eh; try (kill Hd).
      - apply andb_true_iff in Hd. destruct Hd as [Hl Hd]. destruct (nsubs nd) as [|r1 [|r2 rs]]; try discriminate Hl. cbn [den_seqb] in Hd. discriminate Hd.
      - apply andb_true_iff in Hd. destruct Hd as [Hl Hd].
        destruct (nsubs nd) as [|r1 [|r2 rs]] eqn:Es; try discriminate Hl.
        apply (head_sor nd rr d' c (okf r) (fin r) Eh). rewrite Es. eapply Cm; eauto. }
    split; [exact AA|]. split; [apply B_not_seq; [exact AA | discriminate]|]. split.
    + intros n rs d c Hd Hs Hb. destruct rs as [|r1 [|r2 rs']]; [discriminate | eapply C_single; eauto | eapply Cm; eauto].
    + intros e1 E; discriminate E.
  - (* star end *)
    destruct IHPeg as [Aa _]. pose proof (star_end e s Aa) as SS.
    assert (AA : A (SStar e) s (Some s)).
    { apply A_of_head; [reflexivity|]. intros n nd rr c Hn Hd Hs Hb d'. nodecases Hd.
      apply (head_star nd rr d' c r1 (fin (Some s)) Eh Es). eapply SS; eauto. }
    split; [exact AA|]. split; [apply B_not_seq; [exact AA | discriminate]|]. split; [apply C_not_sor; [exact AA | discriminate] | exact SS].
  - (* star step *)
    destruct IHPeg1 as [Aa _]. destruct IHPeg2 as [_ [_ [_ S2]]]. pose proof (star_step e s s1 r Aa S2) as SS.
    destruct (Peg_star_some _ _ _ H0) as [s2 ->].
    assert (AA : A (SStar e) s (Some s2)).
    { apply A_of_head; [reflexivity|]. intros n nd rr c Hn Hd Hs Hb d'. nodecases Hd.
      apply (head_star nd rr d' c r1 (fin (Some s2)) Eh Es). eapply SS; eauto. }
    split; [exact AA|]. split; [apply B_not_seq; [exact AA | discriminate]|]. split; [apply C_not_sor; [exact AA | discriminate] | exact SS].
  - (* plus fail *)
    destruct IHPeg as [Aa _]. apply pack_simple; try discriminate.
    apply A_of_head; [reflexivity|]. intros n nd rr c Hn Hd Hs Hb d'. nodecases Hd.
    destruct (Aa n r1 d' c Hd Hs Hb) as [f [c1 [e1 [K _]]]]. simpl in K.
    exists f. intros N L. unfold eval_head. rewrite Eh, Es. cbn [eval_atom]. unfold h_plus, bind.
    rewrite (ev_lift f N _ _ _ _ _ _ L K). eexists. eexists. split; [reflexivity | intros s' E; discriminate].
  - (* plus step *)
    destruct IHPeg1 as [Aa _]. destruct IHPeg2 as [_ [_ [_ S2]]]. destruct (Peg_star_some _ _ _ H0) as [s2 ->].
    apply pack_simple; try discriminate.
    apply A_of_head; [reflexivity|]. intros n nd rr c Hn Hd Hs Hb d'. nodecases Hd.
    destruct (Aa n r1 d' c Hd Hs Hb) as [f1 [c1 [ev1 [K1 P1]]]]. apply fin_some in P1. simpl in K1.
    assert (Hb1 : bytes_ok s1) by (rewrite <- P1; eapply ev_ok_bytes; eauto; rewrite Hs; exact Hb).
    destruct (S2 e eq_refl n r1 d' c1 Hd P1 Hb1) as [f2 [k2 [c2 [ev2 [K2 P2]]]]].
    exists (Nat.max f1 (Nat.max f2 k2)). intros N L. unfold eval_head. rewrite Eh, Es. cbn [eval_atom]. unfold h_plus, bind.
    rewrite (ev_lift f1 N _ _ _ _ _ _ ltac:(lia) K1).
    rewrite (star_lift f2 N k2 N _ _ _ _ _ _ ltac:(lia) ltac:(lia) K2). simpl. eexists. eexists. split; [reflexivity | exact P2].
  - (* opt ok *)
    destruct IHPeg as [Aa _]. apply pack_simple; try discriminate.
    apply A_of_head; [reflexivity|]. intros n nd rr c Hn Hd Hs Hb d'. nodecases Hd.
    destruct (Aa n r1 (req d') c Hd Hs Hb) as [f [c1 [e1 [K P]]]]. simpl in K.
    exists f. intros N L. unfold eval_head. rewrite Eh, Es. cbn [eval_atom]. unfold h_partial. cbn [seq_all]. unfold bind.
    rewrite (ev_lift f N _ _ _ _ _ _ L K). simpl. eexists. eexists. split; [reflexivity | exact P].
  - (* opt none *)
    destruct IHPeg as [Aa _]. apply pack_simple; try discriminate.
    apply A_of_head; [reflexivity|]. intros n nd rr c Hn Hd Hs Hb d'. nodecases Hd.
    destruct (Aa n r1 (req d') c Hd Hs Hb) as [f [c1 [e1 [K P]]]]. simpl in K.
    pose proof (ev_req_fail G C HG _ _ _ _ _ _ K) as ->.
    exists f. intros N L. unfold eval_head. rewrite Eh, Es. cbn [eval_atom]. unfold h_partial. cbn [seq_all]. unfold bind.
    rewrite (ev_lift f N _ _ _ _ _ _ L K). eexists. eexists. split; [reflexivity|]. intros s' E. injection E as <-. exact Hs.
  - (* at ok *)
    destruct IHPeg as [Aa _]. apply pack_simple; try discriminate.
    apply A_of_head; [reflexivity|]. intros n nd rr c Hn Hd Hs Hb d'. nodecases Hd.
    destruct (Aa n r1 (set_A (opt_ d') false) c Hd Hs Hb) as [f [c1 [e1 [K P]]]]. simpl in K.
    exists f. intros N L. unfold eval_head. rewrite Eh, Es. cbn [eval_atom]. unfold h_at.
    rewrite (ev_lift f N _ _ _ _ _ _ L K). simpl. eexists. eexists. split; [reflexivity|]. intros s' E. injection E as <-. exact Hs.
  - (* at fail *)
    destruct IHPeg as [Aa _]. apply pack_simple; try discriminate.
    apply A_of_head; [reflexivity|]. intros n nd rr c Hn Hd Hs Hb d'. nodecases Hd.
    destruct (Aa n r1 (set_A (opt_ d') false) c Hd Hs Hb) as [f [c1 [e1 [K P]]]]. simpl in K.
    exists f. intros N L. unfold eval_head. rewrite Eh, Es. cbn [eval_atom]. unfold h_at.
    rewrite (ev_lift f N _ _ _ _ _ _ L K). simpl. eexists. eexists. split; [reflexivity|]. intros s' E. discriminate.
  - (* not_at ok (sub-expression matched) *)
    destruct IHPeg as [Aa _]. apply pack_simple; try discriminate.
    apply A_of_head; [reflexivity|]. intros n nd rr c Hn Hd Hs Hb d'. nodecases Hd.
    destruct (Aa n r1 (set_A (opt_ d') false) c Hd Hs Hb) as [f [c1 [e1 [K P]]]]. simpl in K.
    exists f. intros N L. unfold eval_head. rewrite Eh, Es. cbn [eval_atom]. unfold h_at.
    rewrite (ev_lift f N _ _ _ _ _ _ L K). simpl. eexists. eexists. split; [reflexivity|]. intros s' E. discriminate.
  - (* not_at fail (sub-expression failed) *)
    destruct IHPeg as [Aa _]. apply pack_simple; try discriminate.
    apply A_of_head; [reflexivity|]. intros n nd rr c Hn Hd Hs Hb d'. nodecases Hd.
    destruct (Aa n r1 (set_A (opt_ d') false) c Hd Hs Hb) as [f [c1 [e1 [K P]]]]. simpl in K.
    exists f. intros N L. unfold eval_head. rewrite Eh, Es. cbn [eval_atom]. unfold h_at.
    rewrite (ev_lift f N _ _ _ _ _ _ L K). simpl. eexists. eexists. split; [reflexivity|]. intros s' E. injection E as <-. exact Hs.
  - (* ref *)
    destruct IHPeg as [Ae _]. destruct (Hdefs k e H) as [Hnr [n2 Hd2]].
    apply pack_simple; try discriminate.
    intros n rr d c Hd Hs Hb. destruct n as [|n]; [discriminate|]. cbn [denb] in Hd.
    destruct (nth_error G rr) as [nd|] eqn:Hn; [|discriminate].
    apply orb_true_iff in Hd. destruct Hd as [Hd|Hd].
    + apply andb_true_iff in Hd. destruct Hd as [Hr _]. apply Nat.eqb_eq in Hr. subst rr.
      eapply Ae; eauto.
    + exfalso. unfold den_node in Hd.
      destruct (nhead nd); try (kill Hd).
      * apply andb_true_iff in Hd. destruct Hd as [Hl Hd]. destruct (nsubs nd) as [|r1 [|r2 rs]]; try discriminate Hl. cbn [den_seqb] in Hd. discriminate Hd.
      * apply andb_true_iff in Hd. destruct Hd as [Hl Hd]. destruct (nsubs nd) as [|r1 [|r2 rs]]; try discriminate Hl. cbn [den_sorb] in Hd. discriminate Hd.
Qed.

Theorem exact_complete e s r : Peg g e s r -> forall n rr d c, denb G g nm n rr e = true -> rest c = s -> bytes_ok s ->
  exists f c' evs, eval G C f d rr c = Res (okf r) c' evs /\ (forall s', r = Some s' -> rest c' = s').
Proof. intros H. destruct (complete_all e s r H) as [HA _]. exact HA. Qed.

End Complete.
