(* LinesSpec.v — specification of "the line containing offset k" for property C19, written
   against the property text and doc/Inputs-and-Parsing.md ("Line Ending", "Error Reporting"),
   NOT against memory_input.hpp: plain index arithmetic over the whole data, no cursor, no
   position counters, no Engine.eol_match.

   Input: data s, end-of-line policy E, an offset k in 0..|s|.

   * Line counting (doc: the policy's line ending is "used for line counting"): every policy
     has ONE counting byte E.ch (Base.eol_ch: '\n' for lf, crlf, lf_crlf; '\r' for cr, cr_crlf);
     the line counter is incremented and the column reset after each such byte.  The line
     containing k therefore STARTS at
        line_begin = greatest j <= k with  j = 0  or  s[j-1] = E.ch.
   * The line ENDS where the policy's end-of-line (rule eol) or the end of the input (rule
     eolf) is found at or after k ("the end-of-line after p, or the end of the input if the
     input is not terminated by an end-of-line"):
        line_end = least j >= k  such that  j = |s|  or  E's eol matches at j.
     eol of each policy, from the doc:  lf "\n";  cr "\r";  crlf "\r\n";  lf_crlf "\n" or
     "\r\n";  cr_crlf "\r" or "\r\n" (so it matches exactly where s[j] = '\r').

   Subtleties (deliberate, they follow from the two sentences above):
   1. Under eol::crlf the counting byte is '\n' but eol only matches the pair "\r\n".  A lone
      '\n' starts a new line for line_begin (and for line/column) but does not end one for
      line_end; a lone '\r' is neither.  E.g. s = "x\ny", E = crlf: for k = 0 the line is
      [0,3) = "x\ny", for k = 2 it is [2,3) = "y".  The spec keeps both conventions because the
      property speaks of "the line containing it under the input's end-of-line policy" while
      line and column (what an error message prints next to the line) count by E.ch.
   2. Under cr_crlf the counting byte is '\r', so after "\r\n" the next line starts at the
      '\n' (line_begin points at it); under lf_crlf / crlf a k between '\r' and '\n' of a pair
      has line_end at / after the '\n' (local match), not before the '\r'.
   3. k = |s| is a legal offset (position at the very end): line_end = |s|. *)
From PegtlV Require Import Base.

Definition byte_is (s : list byte) (j : nat) (c : N) : bool :=
  match nth_error s j with Some b => N.eqb b c | None => false end.

(* j is the first byte of a line for counting purposes *)
Definition starts_line (e : eolp) (s : list byte) (j : nat) : bool :=
  match j with O => true | S j' => byte_is s j' (eol_ch e) end.

(* the policy's eol matches at offset j *)
Definition eol_at (e : eolp) (s : list byte) (j : nat) : bool :=
  match e with
  | EolLf => byte_is s j 10
  | EolCr => byte_is s j 13
  | EolCrlf => byte_is s j 13 && byte_is s (S j) 10
  | EolLfCrlf => byte_is s j 10 || (byte_is s j 13 && byte_is s (S j) 10)
  | EolCrCrlf => byte_is s j 13
  end.

(* eolf = eol or end of input *)
Definition eolf_at (e : eolp) (s : list byte) (j : nat) : bool :=
  (length s <=? j)%nat || eol_at e s j.

(* ---- relational form: greatest / least ---- *)
Definition is_line_begin (e : eolp) (s : list byte) (k b : nat) : Prop :=
  (b <= k)%nat /\ starts_line e s b = true /\
  forall j, (b < j <= k)%nat -> starts_line e s j = false.

Definition is_line_end (e : eolp) (s : list byte) (k j : nat) : Prop :=
  (k <= j <= length s)%nat /\ eolf_at e s j = true /\
  forall i, (k <= i < j)%nat -> eolf_at e s i = false.

(* ---- reference functions (search downwards / upwards) ---- *)
Fixpoint line_begin (e : eolp) (s : list byte) (k : nat) : nat :=
  if starts_line e s k then k else match k with O => O | S k' => line_begin e s k' end.

Fixpoint line_end_from (e : eolp) (s : list byte) (j fuel : nat) : nat :=
  if eolf_at e s j then j else match fuel with O => j | S f => line_end_from e s (S j) f end.

Definition line_end (e : eolp) (s : list byte) (k : nat) : nat :=
  line_end_from e s k (length s - k).

(* the bytes of the line *)
Definition line_bytes (e : eolp) (s : list byte) (k : nat) : list byte :=
  firstn (line_end e s k - line_begin e s k) (skipn (line_begin e s k) s).

(* C06's spec of the position after a consumed prefix, restated without fold:
   byte = init.byte + k; column counts from the line start (or continues the initial column on
   the first line); line = init.line + number of counting bytes in the prefix. *)
Definition count_ch (e : eolp) (pre : list byte) : nat :=
  length (filter (fun b => N.eqb b (eol_ch e)) pre).
