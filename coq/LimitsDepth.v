(* LimitsDepth.v — C18, part 4: the depth guard over whole runs.
   depth_machine      every log of a guarded run is accepted by the RAII counter machine (LimitsSpec.mstep) and
                      leaves the counter where it was: after success, local failure or exception alike; the depth
                      error is raised exactly at (and only at) a guarded entry that would exceed the rule's limit
   eval_balanced      in any configuration the enter/exit events of any set of rules are balanced
   depth_transparent  a guarded run in which the guard never fires is the unguarded run, event for event
   depth_complete     an unguarded run whose guarded nesting stays within the limits is the guarded run *)
From Coq Require Import Lia.
From PegtlV Require Import Base Decode Grammar Engine LimitsSpec LimitsLog LimitsSim.

(* ---------- the counter machine ---------- *)
Lemma mrun_app lim a : forall s b, mrun lim s (a ++ b) = mrun lim (mrun lim s a) b.
Proof. intros s b. unfold mrun. apply fold_left_app. Qed.
Lemma mstep_neutral lim k e : neutral e -> mstep lim (MNormal k) e = MNormal k.
Proof. destruct e; simpl; try contradiction; auto. destruct w; simpl; try contradiction; auto. Qed.

Section Machine.
Variable G : grammar.
Variable C : cfg.
Variable Fams : nat -> Prop.
Variable lim : rid -> option nat.
Hypothesis Hact_nodes : forall r nd fam, nth_error G r = Some nd -> nhead nd = HAction fam -> Fams fam.
Hypothesis Hact_change : forall fam r fam', Fams fam ->
  acts C fam r = AKMatch (MChangeAction fam') \/ acts C fam r = AKMatch (MChangeActionAndState fam') -> Fams fam'.
(* in every family the run can be in, the same rules carry the guard with the same limit *)
Hypothesis Huni : forall fam r, Fams fam -> active G C fam r = lim r.

Theorem depth_machine f d r c o c' evs :
  Fams (dAct d) -> eval G C f d r c = Res o c' evs ->
  mrun lim (MNormal (dDepth d)) evs = MNormal (dDepth d).
Proof.
  intros Hf He.
  pose proof (eval_L G C Fams Hact_nodes Hact_change (fun k evs => mrun lim (MNormal k) evs = MNormal k)) as T.
  assert (X : GoodL (fun k evs => mrun lim (MNormal k) evs = MNormal k) (dDepth d) (eval G C f d r c)).
  { apply T; try exact Hf.
    - reflexivity.
    - intros k a b Ha Hb. rewrite mrun_app, Ha, Hb. reflexivity.
    - intros k e Hn. simpl. apply mstep_neutral; exact Hn.
    - intros fam k ctl r0 a m p o0 p' evs0 Hfam Hact Hb. rewrite Huni in Hact by exact Hfam.
      change (EEnter ctl r0 a m p :: evs0 ++ [EExit ctl r0 o0 p']) with ([EEnter ctl r0 a m p] ++ evs0 ++ [EExit ctl r0 o0 p']).
      rewrite !mrun_app. simpl. rewrite Hact. rewrite Hb. simpl. rewrite Hact. reflexivity.
    - intros fam k n ctl r0 a m p o0 p' evs0 Hfam Hact Hle Hb. rewrite Huni in Hact by exact Hfam.
      change (EEnter ctl r0 a m p :: evs0 ++ [EExit ctl r0 o0 p']) with ([EEnter ctl r0 a m p] ++ evs0 ++ [EExit ctl r0 o0 p']).
      rewrite !mrun_app. simpl. rewrite Hact.
      assert (E : (n <? S k)%nat = false) by (apply Nat.ltb_ge; lia). rewrite E. rewrite Hb. simpl. rewrite Hact. reflexivity.
    - intros fam k n ctl r0 a m p Hfam Hact Hlt. rewrite Huni in Hact by exact Hfam. simpl. rewrite Hact.
      assert (E : (n <? S k)%nat = true) by (apply Nat.ltb_lt; lia). rewrite E. simpl. rewrite Nat.eqb_refl. reflexivity. }
  rewrite He in X. exact X.
Qed.
End Machine.

(* ---------- balance ---------- *)
Lemma cnt_app lim a : forall j b, cnt lim j (a ++ b) = cnt lim (cnt lim j a) b.
Proof.
  induction a as [|e a IH]; intros j b; simpl; [reflexivity|].
  destruct e; try apply IH; destruct (lim r); apply IH.
Qed.
Lemma cnt_neutral lim j e : neutral e -> cnt lim j [e] = j.
Proof. destruct e; simpl; try contradiction; auto. Qed.
Definition balanced (lim : rid -> option nat) (evs : list event) : Prop := forall j, cnt lim j evs = j.

Lemma balanced_frame lim ctl r a m p o p' evs : balanced lim evs -> balanced lim (EEnter ctl r a m p :: evs ++ [EExit ctl r o p']).
Proof.
  intros Hb j. simpl. destruct (lim r) eqn:E; rewrite cnt_app, Hb; simpl; rewrite E; reflexivity.
Qed.

Theorem eval_balanced G C lim f d r c o c' evs : eval G C f d r c = Res o c' evs -> balanced lim evs.
Proof.
  intros He.
  pose proof (eval_L G C (fun _ => True) (fun _ _ _ _ _ => I) (fun _ _ _ _ _ => I) (fun _ evs => balanced lim evs)) as T.
  assert (X : GoodL (fun _ evs => balanced lim evs) (dDepth d) (eval G C f d r c)).
  { apply T; try exact I.
    - intros _ j. reflexivity.
    - intros _ a b Ha Hb j. rewrite cnt_app, Ha, Hb. reflexivity.
    - intros _ e Hn j. apply cnt_neutral; exact Hn.
    - intros. apply balanced_frame. assumption.
    - intros. apply balanced_frame. assumption.
    - intros fam k n ctl r0 a m p _ _ _ j. simpl. destruct (lim r0) eqn:E; simpl; rewrite ?E; reflexivity. }
  rewrite He in X. exact X.
Qed.

(* ---------- strip_depth does not touch the helpers ---------- *)
Lemma eval_head_strip C ev n self h subs d c : eval_head (strip_depth C) ev n self h subs d c = eval_head C ev n self h subs d c.
Proof. reflexivity. Qed.
Lemma match_hpp_strip C ak body d r c : match_hpp (strip_depth C) ak body d r c = match_hpp C ak body d r c.
Proof. reflexivity. Qed.

Lemma has_ld_app a b : has_ld (a ++ b) = has_ld a || has_ld b.
Proof. apply existsb_app. Qed.
Lemma neutral_not_ld e : neutral e -> is_ld_raise e = false.
Proof. destruct e; simpl; try contradiction; auto. destruct w; simpl; try contradiction; auto. Qed.

(* ---------- transparency of a guard that does not fire ---------- *)
Section Transparent.
Variable G : grammar.
Variable C : cfg.
Let C0 := strip_depth C.
Let chk := fun (_ : nat) (evs : list event) => negb (has_ld evs).
Let okA := fun (_ : list event) => True.

Lemma t_chk_app : forall k a b, okA a -> chk k (a ++ b) = chk k a && chk k b.
Proof. intros k a b _. unfold chk. rewrite has_ld_app. apply negb_orb. Qed.
Lemma t_chk_neutral : forall k e, neutral e -> chk k [e] = true.
Proof. intros k e He. unfold chk, has_ld. simpl. rewrite (neutral_not_ld e He). reflexivity. Qed.

Ltac tside := try first [ exact (fun _ : nat => @eq_refl bool true) | exact t_chk_app | exact t_chk_neutral | exact I | exact (fun _ _ _ _ => I) | exact (fun _ _ => I) | exact (fun _ _ _ _ _ => I) ].

Lemma t_traced k ctl r a m c xA xB : Rel chk okA k xA xB -> Rel chk okA k (traced ctl r a m c xA) (traced ctl r a m c xB).
Proof.
  destruct xA as [o c1 l| |]; simpl; auto. intros [_ H2]. split; [exact I|].
  intros H. split; [reflexivity|]. unfold chk in *. simpl in H. rewrite has_ld_app in H. simpl in H. rewrite orb_false_r in H.
  destruct (H2 H) as [_ ->]. reflexivity.
Qed.

Theorem depth_sim f : forall d r c k, Rel chk okA k (eval G C f d r c) (eval G C0 f (set_depth d k) r c).
Proof.
  induction f as [|f IH]; intros d r c k; [exact I|].
  cbn [eval]. destruct (nth_error G r) as [nd|] eqn:En; [|simpl; split; [exact I | intros _; split; reflexivity]].
  cbn [dCtl dA dM dAct set_depth].
  set (hdA := eval_head C (eval G C f) f r (nhead nd) (nsubs nd)).
  set (hdB := eval_head C0 (eval G C0 f) f r (nhead nd) (nsubs nd)).
  assert (Hh : forall k d2 c2, True -> Rel chk okA k (hdA d2 c2) (hdB (set_depth d2 k) c2)).
  { intros k2 d2 c2 _. unfold hdA, hdB, C0. rewrite eval_head_strip.
    eapply (eval_head_S C (fun _ => True) chk okA); tside; first [ (intros; apply IH) | (intros; exact I) ]. }
  assert (Hplain : forall k ak d' c', True -> Rel chk okA k
            (if nenabled nd then match_hpp C ak hdA d' r c' else hdA d' c')
            (if nenabled nd then match_hpp C0 ak hdB (set_depth d' k) r c' else hdB (set_depth d' k) c')).
  { intros k2 ak d' c' _. destruct (nenabled nd); [|apply Hh; exact I]. unfold C0. rewrite match_hpp_strip.
    eapply (match_hpp_S C (fun _ => True) chk okA); tside; intros; apply Hh; exact I. }
  unfold C0 at 1. cbn [acts strip_depth]. fold C0.
  destruct (acts C (dAct d) r) as [| | |mk] eqn:Ea; cbn [strip_ak];
    try (apply t_traced; apply (Hplain k); exact I).
  destruct mk as [fam| |fam|ctl| | |n|n|n]; cbn [strip_ak];
    try (apply t_traced;
         eapply (action_match_S C (fun _ => True) chk okA); tside;
           first [ exact Ea | (intros n0; discriminate) | (intros; apply IH) | (intros; apply Hplain; exact I) ]).
  (* limit_depth on the guarded side, nothing on the stripped side *)
  cbn [action_match]. destruct (nenabled nd) eqn:Een.
  - destruct (n <? S (dDepth d))%nat.
    + unfold raise_at. simpl. split; [exact I|]. unfold chk. simpl. discriminate.
    + apply t_traced. pose proof (Hplain k AKNone (set_depth d (S (dDepth d))) c I) as H. try rewrite Een in H. exact H.
  - apply t_traced. pose proof (Hplain k AKNone d c I) as H. try rewrite Een in H. exact H.
Qed.

Theorem depth_transparent f d d' r c o c' evs :
  same_but_depth d d' -> eval G C f d r c = Res o c' evs -> has_ld evs = false ->
  eval G (strip_depth C) f d' r c = Res o c' evs.
Proof.
  intros Hs He Hl. pose proof (depth_sim f d r c (dDepth d')) as H. rewrite He in H. destruct H as [_ H].
  assert (E : set_depth d (dDepth d') = d').
  { destruct d, d'. destruct Hs as [H1 [H2 [H3 H4]]]. simpl in *. subst. reflexivity. }
  rewrite E in H. apply H. unfold chk. rewrite Hl. reflexivity.
Qed.
End Transparent.

(* ---------- inputs that need at most the configured nesting ---------- *)
Lemma within_app lim a : forall k b, within lim k (a ++ b) = within lim k a && within lim (cnt lim k a) b.
Proof.
  induction a as [|e a IH]; intros k b; simpl; [reflexivity|].
  destruct e; try apply IH; destruct (lim r); try apply IH. rewrite IH. apply andb_assoc.
Qed.
Lemma within_neutral lim k e : neutral e -> within lim k [e] = true.
Proof. destruct e; simpl; try contradiction; auto. Qed.

Section Complete.
Variable G : grammar.
Variable C : cfg.
Variable Fams : nat -> Prop.
Variable lim : rid -> option nat.
Hypothesis Hact_nodes : forall r nd fam, nth_error G r = Some nd -> nhead nd = HAction fam -> Fams fam.
Hypothesis Hact_change : forall fam r fam', Fams fam ->
  acts C fam r = AKMatch (MChangeAction fam') \/ acts C fam r = AKMatch (MChangeActionAndState fam') -> Fams fam'.
Hypothesis Huni : forall fam r, Fams fam -> active G C fam r = lim r.
Let C0 := strip_depth C.
Let chk := within lim.
Let okA := balanced lim.

Lemma c_chk_app : forall k a b, okA a -> chk k (a ++ b) = chk k a && chk k b.
Proof. intros k a b Ha. unfold chk. rewrite within_app, Ha. reflexivity. Qed.
Lemma c_okA_app : forall a b, okA a -> okA b -> okA (a ++ b).
Proof. intros a b Ha Hb j. rewrite cnt_app, Ha, Hb. reflexivity. Qed.
Lemma c_okA_neutral : forall e, neutral e -> okA [e].
Proof. intros e He j. apply cnt_neutral; exact He. Qed.
Lemma c_okA_nil : okA []. Proof. intros j; reflexivity. Qed.
Ltac cside := try first [ exact (fun _ : nat => @eq_refl bool true) | exact c_chk_app | exact (within_neutral lim) | exact c_okA_nil | exact c_okA_app | exact c_okA_neutral | exact Hact_change | assumption ].

(* frame of a rule that is not guarded here *)
Lemma c_traced_plain k ctl r a m c xA xB : lim r = None ->
  Rel chk okA k xA xB -> Rel chk okA k (traced ctl r a m c xA) (traced ctl r a m c xB).
Proof.
  intros Hl. destruct xA as [o c1 l| |]; simpl; auto. intros [H1 H2]. split; [apply balanced_frame; exact H1|].
  intros H. split; [reflexivity|]. unfold chk in H. simpl in H. rewrite Hl in H. rewrite within_app in H.
  apply andb_true_iff in H. destruct H as [H _]. destruct (H2 H) as [_ ->]. reflexivity.
Qed.

Theorem depth_sim_complete f : forall d r c k, Fams (dAct d) -> Rel chk okA k (eval G C0 f d r c) (eval G C f (set_depth d k) r c).
Proof.
  induction f as [|f IH]; intros d r c k Hf; [exact I|].
  cbn [eval]. destruct (nth_error G r) as [nd|] eqn:En; [|simpl; split; [apply c_okA_nil | intros _; split; reflexivity]].
  cbn [dCtl dA dM dAct set_depth].
  set (hdA := eval_head C0 (eval G C0 f) f r (nhead nd) (nsubs nd)).
  set (hdB := eval_head C (eval G C f) f r (nhead nd) (nsubs nd)).
  assert (Hh : forall k d2 c2, Fams (dAct d2) -> Rel chk okA k (hdA d2 c2) (hdB (set_depth d2 k) c2)).
  { intros k2 d2 c2 Hf2. unfold hdA, hdB, C0. rewrite eval_head_strip.
    eapply (eval_head_S C Fams chk okA); cside; first [ (intros; apply IH; assumption) | (intros fam Hh; eapply Hact_nodes; eauto) ]. }
  assert (Hplain : forall k ak d' c', Fams (dAct d') -> Rel chk okA k
            (if nenabled nd then match_hpp C0 ak hdA d' r c' else hdA d' c')
            (if nenabled nd then match_hpp C ak hdB (set_depth d' k) r c' else hdB (set_depth d' k) c')).
  { intros k2 ak d' c' Hf2. destruct (nenabled nd); [|apply Hh; exact Hf2]. unfold C0. rewrite match_hpp_strip.
    eapply (match_hpp_S C Fams chk okA); cside; intros; apply Hh; assumption. }
  pose proof (Huni (dAct d) r Hf) as Hact. unfold active in Hact. rewrite En in Hact.
  unfold C0 at 1. cbn [acts strip_depth]. fold C0.
  destruct (acts C (dAct d) r) as [| | |mk] eqn:Ea; cbn [strip_ak];
    try (apply c_traced_plain; [destruct (nenabled nd); simpl in Hact; congruence | apply Hplain; exact Hf]).
  destruct mk as [fam| |fam|ctl| | |n|n|n]; cbn [strip_ak];
    try (apply c_traced_plain; [destruct (nenabled nd); simpl in Hact; congruence |
         eapply (action_match_S C Fams chk okA); cside;
           first [ exact Ea | (intros n0; discriminate) | (intros; apply IH; assumption) | (intros; apply Hplain; assumption) ]]).
  (* the stripped side runs the rule plainly; the guarded side counts *)
  cbn [action_match]. destruct (nenabled nd) eqn:Een; simpl in Hact.
  - pose proof (Hplain (S k) AKNone d c Hf) as H. try rewrite Een in H.
    destruct (match_hpp C0 AKNone hdA d r c) as [o c1 l| |]; [|exact I|exact I].
    destruct H as [H1 H2]. cbn [traced]. split; [apply balanced_frame; exact H1|].
    intros H. split; [reflexivity|]. unfold chk in H. cbn [within app] in H. rewrite <- Hact in H.
    apply andb_true_iff in H. destruct H as [Hle H]. rewrite within_app in H. apply andb_true_iff in H. destruct H as [H _].
    apply Nat.leb_le in Hle. assert (E : (n <? S k)%nat = false) by (apply Nat.ltb_ge; lia).
    destruct (H2 H) as [_ H3].
    cbn [dDepth set_depth dA dM dAct dCtl] in H3 |- *. rewrite E.
    change (set_depth (set_depth d k) (S k)) with (set_depth d (S k)). rewrite H3. reflexivity.
  - apply c_traced_plain; [congruence|]. pose proof (Hplain k AKNone d c Hf) as H. try rewrite Een in H. exact H.
Qed.

Theorem depth_complete f d r c k o c' evs :
  Fams (dAct d) -> eval G (strip_depth C) f d r c = Res o c' evs -> within lim k evs = true ->
  eval G C f (set_depth d k) r c = Res o c' evs.
Proof.
  intros Hf He Hw. pose proof (depth_sim_complete f d r c k Hf) as H. unfold C0 in H. rewrite He in H.
  destruct H as [_ H]. apply H. exact Hw.
Qed.
End Complete.

(* ---------- inputs that need more than the configured nesting ---------- *)
Lemma mrun_bad lim evs : mrun lim MBad evs = MBad.
Proof. induction evs as [|e evs IH]; simpl; [reflexivity | exact IH]. Qed.

Lemma machine_no_raise_within lim : forall evs k j,
  has_ld evs = false -> mrun lim (MNormal k) evs = MNormal j -> within lim k evs = true.
Proof.
  induction evs as [|e evs IH]; intros k j Hl Hm; [reflexivity|].
  unfold has_ld in Hl. simpl in Hl. apply orb_false_iff in Hl. destruct Hl as [He Hl].
  change (mrun lim (mstep lim (MNormal k) e) evs = MNormal j) in Hm.
  destruct e; simpl in Hm |- *; try (eapply IH; eauto; fail).
  - destruct w; simpl in He; try discriminate; eapply IH; eauto.
  - destruct (lim r) as [n|]; [|eapply IH; eauto].
    destruct (n <? S k)%nat eqn:E.
    + exfalso. destruct evs as [|e2 evs]; [simpl in Hm; discriminate|].
      unfold has_ld in Hl. simpl in Hl. apply orb_false_iff in Hl. destruct Hl as [He2 _].
      change (mrun lim (mstep lim (MExpectRaise k r) e2) evs = MNormal j) in Hm.
      destruct e2; simpl in Hm; try (rewrite mrun_bad in Hm; discriminate).
      destruct w; simpl in He2; try discriminate; simpl in Hm; rewrite mrun_bad in Hm; discriminate.
    + apply Nat.ltb_ge in E. apply andb_true_iff. split; [destruct n as [|n']; [lia | apply Nat.leb_le; lia] | eapply IH; eauto].
  - destruct (lim r) as [n|]; [|eapply IH; eauto].
    destruct k as [|k']; [rewrite mrun_bad in Hm; discriminate|]. simpl. eapply IH; eauto.
Qed.

Section Exceeds.
Variable G : grammar.
Variable C : cfg.
Variable Fams : nat -> Prop.
Variable lim : rid -> option nat.
Hypothesis Hact_nodes : forall r nd fam, nth_error G r = Some nd -> nhead nd = HAction fam -> Fams fam.
Hypothesis Hact_change : forall fam r fam', Fams fam ->
  acts C fam r = AKMatch (MChangeAction fam') \/ acts C fam r = AKMatch (MChangeActionAndState fam') -> Fams fam'.
Hypothesis Huni : forall fam r, Fams fam -> active G C fam r = lim r.

(* if the unguarded run nests deeper than allowed, the guarded run (when it terminates in the same fuel)
   contains the depth raise *)
Theorem depth_exceeds f d r c k o0 c0 evs0 o1 c1 evs1 :
  Fams (dAct d) ->
  eval G (strip_depth C) f d r c = Res o0 c0 evs0 -> within lim k evs0 = false ->
  eval G C f (set_depth d k) r c = Res o1 c1 evs1 -> has_ld evs1 = true.
Proof.
  intros Hf H0 Hw H1. destruct (has_ld evs1) eqn:El; [reflexivity|]. exfalso.
  assert (Hs : same_but_depth (set_depth d k) d) by (repeat split).
  pose proof (depth_transparent G C f (set_depth d k) d r c o1 c1 evs1 Hs H1 El) as H2.
  rewrite H0 in H2. inversion H2; subst.
  pose proof (depth_machine G C Fams lim Hact_nodes Hact_change Huni f (set_depth d k) r c o1 c1 evs1 Hf H1) as Hm.
  simpl in Hm. rewrite (machine_no_raise_within lim evs1 k k El Hm) in Hw. discriminate.
Qed.
End Exceeds.
