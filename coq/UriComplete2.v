(* UriComplete2.v — C20: soundness of the extended completeness certificate of UriCert2.v, for every table:
     cc2 n r K = true -> on every input of R.K (at most B bytes, fuel n + B + 1) the engine succeeds on r and leaves
                         a rest in K, and after any success of r the rest avoids nfol2 n r K;
     nr  n r L = true -> on every input of L the engine returns true or false on r.
   Then the instantiation for the generated URI table (complete_of_cert2). *)
From Coq Require Import List NArith ZArith Bool Lia.
From PegtlV Require Import Base Decode Grammar Engine EngineFacts AtomFacts Mono Spec ExactSound Integer IntegerSpec.
From PegtlV Require IntegerFacts.
From PegtlV Require Import Regex RegexIncl RegexQuot Rfc3986 UriModel UriProof UriComplete UriCert2 UriComplete2H UriCompleteF.
From PegtlV.gen Require Import Uri_gen.
Import ListNotations.
Local Open Scope N_scope.

(* the lazy connectives of UriCert2.v *)
Lemma land_iff (a b : bool) : (if a then b else false) = true <-> a = true /\ b = true.
Proof. destruct a; simpl; intuition discriminate. Qed.
Lemma lor_iff (a b : bool) : (if a then true else b) = true <-> a = true \/ b = true.
Proof. destruct a; simpl; intuition discriminate. Qed.

Lemma lift_ov G MX f1 f2 d r c v : ov (evalx G C0 MX f1 d r c) = Some v -> (f1 <= f2)%nat -> ov (evalx G C0 MX f2 d r c) = Some v.
Proof.
  intros H L. destruct (evalx G C0 MX f1 d r c) as [o c1 e1| |] eqn:E; simpl in H; try discriminate.
  rewrite (evalx_mono_res G C0 MX f1 f2 d r c o c1 e1 E L). exact H.
Qed.

Lemma forallb_Forall {A} (f : A -> bool) (P : A -> Prop) l : (forall x, In x l -> f x = true -> P x) -> forallb f l = true -> Forall P l.
Proof.
  induction l as [|x l IH]; intros H Hf; [constructor|]. simpl in Hf. apply andb_true_iff in Hf. destruct Hf as [H1 H2].
  constructor; [apply H; [left; reflexivity | exact H1] | apply IH; [intros y Hy; apply H; right; exact Hy | exact H2]].
Qed.

Lemma subs_re_in sub : forall rs l r, subs_re sub rs = Some l -> In r rs -> exists x, sub r = Some x.
Proof.
  induction rs as [|a rs IH]; intros l r Hs Hin; [contradiction|]. simpl in Hs.
  destruct (sub a) as [x|] eqn:Ea; [|discriminate]. destruct (subs_re sub rs) as [l'|] eqn:El; [|discriminate].
  destruct Hin as [->|Hin]; [eauto | eapply IH; eauto].
Qed.

Lemma any_all t : bytes_ok t -> matches Any t.
Proof. apply any_matches. Qed.

Section Sound2.
Variable G : grammar.
Variable MX : rid -> option (nat * N).
Hypothesis HG : table_wf G.
Variable B : nat.                       (* bound on the length of the input *)

Definition EV (n : nat) := evalx G C0 MX (n + S B).
Lemma EV_good n : forall d r c, goodT (dM d) c (EV n d r c).
Proof. intros. apply evalx_good. exact HG. Qed.
Lemma EV_snd n r R nf : re_of G MX n r = Some (R, nf) -> SndE (EV n) B r R.
Proof.
  intros Hr d c c' evs Hk E.
  pose proof (evalx_inv G C0 MX HG C0_acts C0_rof (n + S B) n d r c R nf Hr (proj1 Hk)) as K. unfold EV in E. rewrite E in K. exact K.
Qed.
Lemma EV_node n d r c nd : nth_error G r = Some nd -> MX r = None ->
  ov (EV (S n) d r c) = ov (eval_head C0 (EV n) (n + S B) r (nhead nd) (nsubs nd) d c).
Proof.
  intros En Em. unfold EV. change (S n + S B)%nat with (S (n + S B)). rewrite (ov_node G MX (n + S B) d r c nd En). rewrite Em. reflexivity.
Qed.
Lemma EV_node_ok n d r c nd c' evs : nth_error G r = Some nd -> MX r = None -> EV (S n) d r c = Res Ok c' evs ->
  exists evs', eval_head C0 (EV n) (n + S B) r (nhead nd) (nsubs nd) d c = Res Ok c' evs'.
Proof.
  intros En Em H. unfold EV in H. change (S n + S B)%nat with (S (n + S B)) in H.
  destruct (node_ok G MX (n + S B) d r c nd c' evs En H) as [e2 H2]. rewrite Em in H2. eauto.
Qed.
Lemma fuel_gt n c : okc B c -> (length (rest c) < n + S B)%nat.
Proof. intros [_ H]. lia. Qed.

Lemma ov_hseq (ev : dyn -> rid -> cursor -> result) d rs c :
  ov (h_seq ev d rs c) = ov (seq_all ev (match rs with [_] => d | _ => opt_ d end) rs c).
Proof. unfold h_seq. destruct rs as [|r1 [|r2 rs]]; [apply ov_guard | symmetry; apply ov_seq1 | apply ov_guard]. Qed.

(* ---------- nodes without must / if_must never raise ---------- *)
Lemma pure_subs n : (forall r R nf, pure G MX n r = true -> re_of G MX n r = Some (R, nf) -> NrE (EV n) B r (fun _ => True)) ->
  forall rs l, subs_re (re_of G MX n) rs = Some l -> forallb (pure G MX n) rs = true ->
  Forall (fun r => NrE (EV n) B r (fun _ => True) /\ exists R, SndE (EV n) B r R) rs.
Proof.
  intros IH. induction rs as [|r rs IHrs]; intros l Hs Hp; [constructor|].
  simpl in Hs. destruct (re_of G MX n r) as [[R nf]|] eqn:Er; [|discriminate].
  destruct (subs_re (re_of G MX n) rs) as [l'|] eqn:El; [|discriminate].
  simpl in Hp. apply andb_true_iff in Hp. destruct Hp as [P1 P2].
  constructor; [|eapply IHrs; eauto]. split; [eapply IH; eauto | exists R; eapply EV_snd; eauto].
Qed.

Theorem pure_sound : forall n r R nf, pure G MX n r = true -> re_of G MX n r = Some (R, nf) -> NrE (EV n) B r (fun _ => True).
Proof.
  induction n as [|n IH]; intros r R nf Hp Hr; [discriminate|].
  cbn [pure re_of] in Hp, Hr. destruct (nth_error G r) as [nd|] eqn:En; [|discriminate].
  unfold re_step in Hr. destruct (MX r) as [[w mx]|] eqn:Em.
  - intros d c Hk _. unfold EV. change (S n + S B)%nat with (S (n + S B)). rewrite (ov_node G MX (n + S B) d r c nd En), Em.
    unfold maximum_rule. pose proof (match_nothrow_good w mx c 0) as Gd.
    destruct (match_nothrow w mx c 0); simpl in Gd; try contradiction; simpl; eexists; reflexivity.
  - destruct (atom_re (nhead nd)) as [[y|]|] eqn:Ea.
    + inversion Hr; subst y. intros d c Hk _. rewrite (EV_node n d r c nd En Em).
      destruct (atom_is_atom (nhead nd) (ceol C0) c (R, nf) Ea) as [x Hx]. unfold eval_head. rewrite Hx.
      refine (proj1 (atom_cmp (nhead nd) c x R nf Eps Ea _ Hx (proj1 Hk))).
      intros _ k _ Mk. apply eps_inv in Mk. exact Mk.
    + discriminate.
    + pose proof (EV_good n) as Hgood.
      assert (Sub1 : forall r1, pure G MX n r1 = true -> forall x, re_of G MX n r1 = Some x ->
                NrE (EV n) B r1 (fun _ => True) /\ SndE (EV n) B r1 (fst x)).
      { intros r1 P1 [R1 nf1] E1. split; [eapply IH; eauto | eapply EV_snd; eauto]. }
      destruct (nhead nd) eqn:Eh; cbn [atom_re] in Ea; try discriminate; try (destruct found; discriminate).
      * (* seq *)
        destruct (subs_re (re_of G MX n) (nsubs nd)) as [l|] eqn:El; [|discriminate].
        pose proof (pure_subs n IH (nsubs nd) l El Hp) as Hf.
        intros d c Hk _. rewrite (EV_node n d r c nd En Em). unfold eval_head. rewrite Eh. cbn [eval_atom]. rewrite ov_hseq.
        apply (seq_all_nr (EV n) B Hgood _ (nsubs nd) (fun _ => True)); [apply SeqNR_true; exact Hf | exact Hk | exact I].
      * (* sor *)
        destruct (subs_re (re_of G MX n) (nsubs nd)) as [l|] eqn:El; [|discriminate].
        pose proof (pure_subs n IH (nsubs nd) l El Hp) as Hf.
        intros d c Hk _. rewrite (EV_node n d r c nd En Em). unfold eval_head. rewrite Eh. cbn [eval_atom].
        apply (sor_any_nr (EV n) B Hgood d (fun _ => True)); [|exact Hk | exact I].
        eapply Forall_impl; [|exact Hf]. intros a [Ha _]. exact Ha.
      * (* star *)
        destruct (nsubs nd) as [|r1 [|? ?]] eqn:Ens; try discriminate.
        destruct (re_of G MX n r1) as [[R1 nf1]|] eqn:E1; [|discriminate].
        apply andb_true_iff in Hp. destruct Hp as [P1 Nn]. simpl in Nn. apply negb_true_iff in Nn.
        destruct (Sub1 r1 P1 _ E1) as [T1 S1]. simpl in S1.
        intros d c Hk _. rewrite (EV_node n d r c nd En Em). unfold eval_head. rewrite Eh, Ens. cbn [eval_atom].
        destruct (star_loop_nr (EV n) B Hgood d r1 R1 (fun _ => True) S1 Nn T1 (fun _ _ _ _ _ => I) (n + S B)%nat c (fuel_gt n c Hk) Hk I) as [c' [evs [E2 _]]].
        rewrite E2. eexists; reflexivity.
      * (* plus *)
        destruct (nsubs nd) as [|r1 [|? ?]] eqn:Ens; try discriminate.
        destruct (re_of G MX n r1) as [[R1 nf1]|] eqn:E1; [|discriminate].
        apply andb_true_iff in Hp. destruct Hp as [P1 Nn]. simpl in Nn. apply negb_true_iff in Nn.
        destruct (Sub1 r1 P1 _ E1) as [T1 S1]. simpl in S1.
        intros d c Hk _. rewrite (EV_node n d r c nd En Em). unfold eval_head. rewrite Eh, Ens. cbn [eval_atom].
        apply (h_plus_nr (EV n) B Hgood (n + S B)%nat d r1 R1 c (fun _ => True) S1 Nn T1 (fun _ _ _ _ _ => I)); [lia | exact Hk | exact I].
      * (* partial *)
        destruct (nsubs nd) as [|r1 [|? ?]] eqn:Ens; try discriminate.
        destruct (re_of G MX n r1) as [[R1 nf1]|] eqn:E1; [|discriminate].
        destruct (Sub1 r1 Hp _ E1) as [T1 S1].
        intros d c Hk _. rewrite (EV_node n d r c nd En Em). unfold eval_head. rewrite Eh, Ens. cbn [eval_atom].
        apply (h_partial_nr (EV n) B d r1 c (fun _ => True) T1 Hk I).
      * (* at *)
        destruct (nsubs nd) as [|r1 [|? ?]] eqn:Ens; try discriminate.
        destruct (re_of G MX n r1) as [[R1 nf1]|] eqn:E1; [|discriminate].
        destruct (Sub1 r1 Hp _ E1) as [T1 S1].
        intros d c Hk _. rewrite (EV_node n d r c nd En Em). unfold eval_head. rewrite Eh, Ens. cbn [eval_atom].
        apply (h_at_nr (EV n) B false d r1 c (fun _ => True) T1 Hk I).
      * (* not_at *)
        destruct (nsubs nd) as [|r1 [|? ?]] eqn:Ens; try discriminate.
        destruct (re_of G MX n r1) as [[R1 nf1]|] eqn:E1; [|discriminate].
        destruct (Sub1 r1 Hp _ E1) as [T1 S1].
        intros d c Hk _. rewrite (EV_node n d r c nd En Em). unfold eval_head. rewrite Eh, Ens. cbn [eval_atom].
        apply (h_at_nr (EV n) B true d r1 c (fun _ => True) T1 Hk I).
      * (* rep *)
        destruct (nsubs nd) as [|r1 [|? ?]] eqn:Ens; try discriminate.
        destruct (re_of G MX n r1) as [[R1 nf1]|] eqn:E1; [|discriminate].
        destruct (Sub1 r1 Hp _ E1) as [T1 S1].
        intros d c Hk _. rewrite (EV_node n d r c nd En Em). unfold eval_head. rewrite Eh, Ens. cbn [eval_atom].
        unfold h_rep. rewrite ov_guard. apply (rep_loop_nr (EV n) B Hgood (opt_ d) r1 T1); exact Hk.
      * (* rep_min_max *)
        destruct (nsubs nd) as [|r1 [|? ?]] eqn:Ens; try discriminate.
        destruct (re_of G MX n r1) as [[R1 nf1]|] eqn:E1; [|discriminate].
        destruct (Sub1 r1 Hp _ E1) as [T1 S1].
        intros d c Hk _. rewrite (EV_node n d r c nd En Em). unfold eval_head. rewrite Eh, Ens. cbn [eval_atom].
        apply (h_rep_min_max_nr (EV n) B Hgood); assumption.
      * (* rep_opt *)
        destruct (nsubs nd) as [|r1 [|? ?]] eqn:Ens; try discriminate.
        destruct (re_of G MX n r1) as [[R1 nf1]|] eqn:E1; [|discriminate].
        destruct (Sub1 r1 Hp _ E1) as [T1 S1].
        intros d c Hk _. rewrite (EV_node n d r c nd En Em). unfold eval_head. rewrite Eh, Ens. cbn [eval_atom].
        unfold h_rep_opt. destruct (repopt_loop_nr (EV n) B Hgood d r1 T1 mx c Hk) as [c' [evs [b [E2 _]]]]. rewrite E2. eexists; reflexivity.
Qed.

(* ---------- nodes of the fragment of UriComplete.v ---------- *)
Lemma cc2_old_sound n r K R nf : cc2_old G MX n r K = true -> re_of G MX (S n) r = Some (R, nf) ->
  CmpE (EV (S n)) B r R K.
Proof.
  intros Hc Hr.
  assert (Direct : forall K0, ccf G MX (S n) r K0 = true -> CmpE (EV (S n)) B r R K0).
  { intros K0 Hcc. destruct (ccf_sound G MX HG (S n) r K0 R nf Hcc Hr) as [_ [Cm _]].
    intros d c Hk M. destruct (Cm d c (proj1 Hk) M) as [c' [E M']]. exists c'. split; [|exact M'].
    unfold EV. eapply lift_ov; [exact E | lia]. }
  unfold cc2_old in Hc. destruct (nth_error G r) as [nd|]; [|discriminate].
  destruct (MX r) as [[w mx]|]; [apply Direct; exact Hc|].
  destruct (atom_re (nhead nd)) as [x|]; [apply Direct; exact Hc|].
  rewrite Hr in Hc. apply lor_iff in Hc. destruct Hc as [Hc|Hc]; [|apply Direct; exact Hc].
  rewrite !land_iff in Hc. destruct Hc as [[Hf Hcc] Hq].
  pose proof (Direct _ Hcc) as Cm. pose proof (EV_snd (S n) r R nf Hr) as Sd.
  intros d c Hk M.
  assert (M' : matches (Cat R (fabs K)) (rest c)).
  { apply cat_inv in M. destruct M as [a [k [E [Ha Hkk]]]]. rewrite E. apply MCat; [exact Ha|].
    apply fabs_incl; [exact Hf | | exact Hkk]. destruct Hk as [Hb _]. rewrite E in Hb. eapply bytes_ok_app_r; eauto. }
  destruct (Cm d c Hk M') as [c' [E M1]]. exists c'. split; [exact E|].
  apply ov_ok in E. destruct E as [evs E]. destruct (Sd d c c' evs Hk E) as [pre [Ep Mp]].
  assert (Hb : bytes_ok (pre ++ rest c')) by (rewrite <- Ep; exact (proj1 Hk)).
  assert (M2 : matches (Alt K (cofabs K)) (rest c')).
  { assert (Ml : matches (Cat R K) (pre ++ rest c')) by (rewrite <- Ep; exact M).
    exact (quot2_sound CF R (Cat R K) _ Hq pre (rest c') (bytes_ok_app_l _ _ Hb) (bytes_ok_app_r _ _ Hb) Mp Ml). }
  apply alt_inv in M2. destruct M2 as [M2|M2]; [exact M2|].
  exfalso. eapply (fabs_disj K Hf (rest c')); eauto. eapply bytes_ok_app_r; eauto.
Qed.

(* ---------- the two checks ---------- *)
Definition Cmp2 (n : nat) (r : rid) (R K : re) : Prop := CmpE (EV n) B r R K.
Definition Fol2 (n : nat) (r : rid) (K : re) : Prop := FolE (EV n) B r (nf2_pred (nfol2 G MX n r K)).
Definition Nr2 (n : nat) (r : rid) (L : re) : Prop := NrE (EV n) B r (matches L).

Section Step2.
Variable n : nat.
Hypothesis IHc : forall r K R nf, cc2 G MX n r K = true -> re_of G MX n r = Some (R, nf) -> Cmp2 n r R K /\ Fol2 n r K.
Hypothesis IHn : forall r L R nf, nr G MX n r L = true -> re_of G MX n r = Some (R, nf) -> Nr2 n r L.

Lemma cc2_seq_ok K : forall rs l, subs_re (re_of G MX n) rs = Some l -> cc2_seq (cc2 G MX n) (re_of G MX n) rs K = true ->
  SeqOK2 (EV n) B rs (map fst l) K.
Proof.
  induction rs as [|r rs IHrs]; intros l Hs Hc; simpl in Hs.
  - inversion Hs; subst. simpl. exact I.
  - destruct (re_of G MX n r) as [[R nf]|] eqn:Er; [|discriminate].
    destruct (subs_re (re_of G MX n) rs) as [l'|] eqn:El; [|discriminate]. inversion Hs; subst. clear Hs.
    cbn [cc2_seq] in Hc. rewrite El in Hc. apply land_iff in Hc. destruct Hc as [C1 C2].
    simpl. split; [exact (proj1 (IHc r _ R nf C1 Er)) | apply IHrs; [reflexivity | exact C2]].
Qed.

Lemma cc2_seq_last K : forall rs l rl, subs_re (re_of G MX n) rs = Some l -> cc2_seq (cc2 G MX n) (re_of G MX n) rs K = true ->
  lastopt rs = Some rl -> exists Rl nfl, cc2 G MX n rl (Cat Eps K) = true /\ re_of G MX n rl = Some (Rl, nfl).
Proof.
  induction rs as [|a rs0 IHr]; intros l rl El Hc Elast; [discriminate|].
  simpl in El. destruct (re_of G MX n a) as [[Ra nfa]|] eqn:Era; [|discriminate].
  destruct (subs_re (re_of G MX n) rs0) as [l'|] eqn:El'; [|discriminate].
  cbn [cc2_seq] in Hc. rewrite El' in Hc. apply land_iff in Hc. destruct Hc as [C1 C2].
  destruct rs0 as [|b rs1].
  - simpl in Elast. inversion Elast; subst. simpl in El'. inversion El'; subst l'. simpl in C1. eauto.
  - apply (IHr l' rl eq_refl C2). exact Elast.
Qed.

Lemma cc2_sor_ok K : forall rs l, subs_re (re_of G MX n) rs = Some l ->
  cc2_sor (cc2 G MX n) (nr G MX n) (re_of G MX n) (nfol2 G MX n) rs K = true -> SorOK2 (EV n) B rs (map fst l) K.
Proof.
  induction rs as [|r rs IHrs]; intros l Hs Hc; simpl in Hs.
  - inversion Hs; subst. simpl. exact I.
  - destruct (re_of G MX n r) as [[R nf]|] eqn:Er; [|discriminate].
    destruct (subs_re (re_of G MX n) rs) as [l'|] eqn:El; [|discriminate]. inversion Hs; subst. clear Hs.
    cbn [cc2_sor] in Hc. rewrite Er, El in Hc. rewrite !land_iff in Hc. destruct Hc as [[[C1 N1] Q1] C2].
    destruct (IHc r K R nf C1 Er) as [P1 F1].
    simpl. split; [exact P1|]. split; [exact (IHn r _ R nf N1 Er)|]. split; [eapply EV_snd; eauto|]. split; [|apply IHrs; [reflexivity | exact C2]].
    exists (nf2_pred (nfol2 G MX n r K)). split; [exact F1|]. apply (quot2_sem (nfol2 G MX n r K)). exact Q1.
Qed.

Lemma nr_seq_ok : forall rs l L, subs_re (re_of G MX n) rs = Some l ->
  nr_seq (nr G MX n) (pure G MX n) (re_of G MX n) rs L = true -> SeqNR (EV n) B rs (matches L).
Proof.
  induction rs as [|r rs IHrs]; intros l L Hs Hc; [exact I|].
  simpl in Hs. destruct (re_of G MX n r) as [[R nf]|] eqn:Er; [|discriminate].
  destruct (subs_re (re_of G MX n) rs) as [l'|] eqn:El; [|discriminate].
  cbn [nr_seq] in Hc. apply land_iff in Hc. destruct Hc as [N1 Hc].
  cbn [SeqNR]. split; [exact (IHn r L R nf N1 Er)|].
  apply lor_iff in Hc. destruct Hc as [Hp|Hq].
  - exists R, (fun _ => True). split; [eapply EV_snd; eauto|]. split; [intros; exact I|].
    apply SeqNR_true. eapply pure_subs; eauto. intros. eapply pure_sound; eauto.
  - rewrite Er in Hq. destruct (lq CF R L) as [Q|] eqn:Eq; [|discriminate].
    exists R, (matches Q). split; [eapply EV_snd; eauto|]. split; [|eapply IHrs; eauto].
    intros w t Hb Mw Ml. exact (lq_sound CF R L Q Eq w t (bytes_ok_app_l _ _ Hb) Mw Ml).
Qed.
End Step2.

Lemma star_inv_closed R L w t : bytes_ok (w ++ t) -> matches R w ->
  (exists u, matches (Star R) u /\ bytes_ok (u ++ w ++ t) /\ matches L (u ++ w ++ t)) ->
  exists u, matches (Star R) u /\ bytes_ok (u ++ t) /\ matches L (u ++ t).
Proof.
  intros _ Mw [u [Mu [Hb Ml]]]. exists (u ++ w). rewrite <- !app_assoc. split; [|auto].
  apply star_app; [exact Mu | apply star_one; exact Mw].
Qed.

Theorem cert2_sound : forall n,
  (forall r K R nf, cc2 G MX n r K = true -> re_of G MX n r = Some (R, nf) -> Cmp2 n r R K /\ Fol2 n r K) /\
  (forall r L R nf, nr G MX n r L = true -> re_of G MX n r = Some (R, nf) -> Nr2 n r L).
Proof.
  induction n as [|n [IHc IHn]]; [split; intros; discriminate|].
  pose proof (EV_good n) as Hgood.
  split.
  - (* ---------------- completeness ---------------- *)
    intros r K R nf Hc Hr. change (cc2 G MX (S n) r K) with (cc2_step G MX (cc2 G MX n) (nr G MX n) n r K) in Hc.
    unfold cc2_step in Hc. apply lor_iff in Hc. destruct Hc as [Hold|Hc].
    { (* the fragment of UriComplete.cc, certified by ccf *)
      rewrite !land_iff in Hold. destruct Hold as [[_ Hnone] Hcc]. split.
      - exact (cc2_old_sound n r K R nf Hcc Hr).
      - intros d c c' evs Hk H. destruct (nfol2 G MX (S n) r K); [discriminate | exact I]. }
    cbn [re_of] in Hr. destruct (nth_error G r) as [nd|] eqn:En; [|discriminate].
    destruct (MX r) as [[w mx]|] eqn:Em; [discriminate|].
    unfold re_step in Hr. rewrite Em in Hr.
    assert (FolNone : nfol2 G MX (S n) r K = None -> Fol2 (S n) r K).
    { intros E d c c' evs Hk H. rewrite E. exact I. }
    destruct (nhead nd) eqn:Eh; try discriminate Hc; cbn [atom_re] in Hr.
    + (* seq *)
      destruct (subs_re (re_of G MX n) (nsubs nd)) as [l|] eqn:El; [|discriminate]. simpl in Hr. inversion Hr; subst R nf.
      pose proof (cc2_seq_ok n IHc K (nsubs nd) l El Hc) as S1. split.
      * intros d c Hk M. rewrite (EV_node n d r c nd En Em). unfold eval_head. rewrite Eh. cbn [eval_atom]. rewrite ov_hseq.
        apply (seq_all_cmp2 (EV n) B Hgood _ (nsubs nd) (map fst l) K S1 c Hk).
        eapply cat_cong; [|exact M]. intros w0. apply cat_list_iff.
      * intros d c c' evs Hk H. destruct (EV_node_ok n d r c nd c' evs En Em H) as [e2 H2].
        cbn [nfol2]. rewrite En, Em, Eh.
        destruct (nsubs nd) as [|r1 [|r2 rs]] eqn:Ens; try exact I.
        destruct (lastopt (r1 :: r2 :: rs)) as [rl|] eqn:Elast; [|exact I].
        unfold eval_head in H2. rewrite Eh in H2. cbn [eval_atom] in H2. unfold h_seq in H2. apply guard_ok in H2.
        destruct (seq_all_last2 (EV n) B Hgood (opt_ d) (r1 :: r2 :: rs) c c' e2 rl H2 Hk Elast) as [cp [e3 [H3 Hkp]]].
        destruct (cc2_seq_last n K _ l rl El Hc Elast) as [Rl [nfl [Cl Rel]]].
        destruct (IHc rl _ Rl nfl Cl Rel) as [_ Fl]. exact (Fl (opt_ d) cp c' e3 Hkp H3).
    + (* sor *)
      destruct (subs_re (re_of G MX n) (nsubs nd)) as [l|] eqn:El; [|discriminate]. simpl in Hr. inversion Hr; subst R nf.
      pose proof (cc2_sor_ok n IHc IHn K (nsubs nd) l El Hc) as S1. split.
      * intros d c Hk M. rewrite (EV_node n d r c nd En Em). unfold eval_head. rewrite Eh. cbn [eval_atom].
        apply (sor_any_cmp2 (EV n) B Hgood d (nsubs nd) (map fst l) K S1 c Hk).
        eapply cat_cong; [|exact M]. intros w0. apply alt_list_iff.
      * apply FolNone. cbn [nfol2]. rewrite En, Em, Eh. reflexivity.
    + (* star *)
      destruct (nsubs nd) as [|r1 [|? ?]] eqn:Ens; try discriminate.
      destruct (re_of G MX n r1) as [[R1 nf1]|] eqn:E1; [|discriminate]. simpl in Hr. inversion Hr; subst R nf.
      cbv zeta in Hc. rewrite !land_iff in Hc. destruct Hc as [[[Nn C1] N1] Q1]. apply negb_true_iff in Nn.
      destruct (IHc r1 _ R1 nf1 C1 E1) as [P1 F1]. pose proof (IHn r1 _ R1 nf1 N1 E1) as T1.
      pose proof (EV_snd n r1 R1 nf1 E1) as S1. split.
      * intros d c Hk M. rewrite (EV_node n d r c nd En Em). unfold eval_head. rewrite Eh, Ens. cbn [eval_atom].
        destruct (star_loop_cmp2 (EV n) B Hgood d r1 R1 K _ S1 Nn P1 T1 F1 (quot2_sem _ _ _ _ Q1) (n + S B)%nat c (fuel_gt n c Hk) Hk M)
          as [c' [evs [E2 [K2 _]]]].
        rewrite E2. exists c'. split; [reflexivity | exact K2].
      * intros d c c' evs Hk H. destruct (EV_node_ok n d r c nd c' evs En Em H) as [e2 H2].
        cbn [nfol2]. rewrite En, Em, Eh, Ens, E1. simpl.
        unfold eval_head in H2. rewrite Eh, Ens in H2. cbn [eval_atom] in H2.
        eapply (star_loop_fol (EV n) B Hgood); eauto.
    + (* plus *)
      destruct (nsubs nd) as [|r1 [|? ?]] eqn:Ens; try discriminate.
      destruct (re_of G MX n r1) as [[R1 nf1]|] eqn:E1; [|discriminate]. simpl in Hr. inversion Hr; subst R nf.
      cbv zeta in Hc. rewrite !land_iff in Hc. destruct Hc as [[[Nn C1] N1] Q1]. apply negb_true_iff in Nn.
      destruct (IHc r1 _ R1 nf1 C1 E1) as [P1 F1]. pose proof (IHn r1 _ R1 nf1 N1 E1) as T1.
      pose proof (EV_snd n r1 R1 nf1 E1) as S1. split.
      * intros d c Hk M. rewrite (EV_node n d r c nd En Em). unfold eval_head. rewrite Eh, Ens. cbn [eval_atom].
        destruct (h_plus_cmp2 (EV n) B Hgood (n + S B)%nat d r1 R1 K c _ S1 Nn P1 T1 F1 (quot2_sem _ _ _ _ Q1) ltac:(lia) Hk M)
          as [c' [evs [E2 [K2 _]]]].
        rewrite E2. exists c'. split; [reflexivity | exact K2].
      * intros d c c' evs Hk H. destruct (EV_node_ok n d r c nd c' evs En Em H) as [e2 H2].
        cbn [nfol2]. rewrite En, Em, Eh, Ens, E1. simpl.
        unfold eval_head in H2. rewrite Eh, Ens in H2. cbn [eval_atom] in H2.
        eapply (h_plus_fol (EV n) B Hgood); eauto.
    + (* partial *)
      destruct (nsubs nd) as [|r1 [|? ?]] eqn:Ens; try discriminate.
      destruct (re_of G MX n r1) as [[R1 nf1]|] eqn:E1; [|discriminate]. simpl in Hr. inversion Hr; subst R nf.
      rewrite !land_iff in Hc. destruct Hc as [[C1 N1] Q1].
      destruct (IHc r1 _ R1 nf1 C1 E1) as [P1 F1]. pose proof (IHn r1 _ R1 nf1 N1 E1) as T1. split.
      * intros d c Hk M. rewrite (EV_node n d r c nd En Em). unfold eval_head. rewrite Eh, Ens. cbn [eval_atom].
        apply (h_partial_cmp2 (EV n) B Hgood d r1 R1 K c _ P1 T1 (EV_snd n r1 R1 nf1 E1) F1 (quot2_sem _ _ _ _ Q1) Hk M).
      * apply FolNone. cbn [nfol2]. rewrite En, Em, Eh. reflexivity.
    + (* not_at *)
      destruct (nsubs nd) as [|r1 [|? ?]] eqn:Ens; try discriminate.
      destruct (re_of G MX n r1) as [[R1 nf1]|] eqn:E1; [|discriminate]. simpl in Hr. inversion Hr; subst R nf.
      rewrite !land_iff in Hc. destruct Hc as [[C1 N1] Q1].
      destruct (IHc r1 _ R1 nf1 C1 E1) as [P1 _]. pose proof (IHn r1 _ R1 nf1 N1 E1) as T1. split.
      * intros d c Hk M. rewrite (EV_node n d r c nd En Em). unfold eval_head. rewrite Eh, Ens. cbn [eval_atom].
        assert (Mk : matches K (rest c)).
        { apply cat_inv in M. destruct M as [a [k [E [Ha Hkk]]]]. apply eps_inv in Ha. subst a. rewrite E. exact Hkk. }
        exists c. split; [|exact Mk].
        apply (h_notat_cmp2 (EV n) B d r1 R1 K c T1 (EV_snd n r1 R1 nf1 E1)); [|exact Hk | exact Mk].
        intros w0 t Hb Mw Mkk.
        pose proof (quot2_sound CF R1 K Empty Q1 w0 t (bytes_ok_app_l _ _ Hb) (bytes_ok_app_r _ _ Hb) Mw Mkk) as Me.
        eapply empty_inv; eauto.
      * intros d c c' evs Hk H. destruct (EV_node_ok n d r c nd c' evs En Em H) as [e2 H2].
        cbn [nfol2]. rewrite En, Em, Eh, Ens, E1. simpl.
        unfold eval_head in H2. rewrite Eh, Ens in H2. cbn [eval_atom] in H2.
        eapply (h_notat_fol (EV n) B); eauto.
    + (* if_must *)
      destruct (nsubs nd) as [|cnd [|m [|? ?]]] eqn:Ens; try discriminate.
      destruct (re_of G MX n cnd) as [[Rc nfc]|] eqn:Ec; [|discriminate].
      destruct (re_of G MX n m) as [[Rm [|]]|] eqn:Emm; try discriminate. inversion Hr; subst R nf.
      rewrite !land_iff in Hc. destruct Hc as [[C1 C2] Hd].
      destruct (IHc cnd _ Rc nfc C1 Ec) as [P1 F1]. destruct (IHc m _ Rm true C2 Emm) as [P2 _]. split.
      * intros d c Hk M. rewrite (EV_node n d r c nd En Em). unfold eval_head. rewrite Eh, Ens. cbn [eval_atom].
        apply (h_if_must_cmp2 (EV n) B Hgood dflt d cnd m Rc Rm K c _ P1 P2 (EV_snd n cnd Rc nfc Ec) F1); [|exact Hk | exact M].
        intros ->. rewrite !land_iff in Hd. destruct Hd as [N1 Q1].
        split; [exact (IHn cnd _ Rc nfc N1 Ec) | exact (quot2_sem _ _ _ _ Q1)].
      * apply FolNone. cbn [nfol2]. rewrite En, Em, Eh. reflexivity.
    + (* must *)
      destruct (nsubs nd) as [|r1 [|? ?]] eqn:Ens; try discriminate.
      destruct (re_of G MX n r1) as [[R1 nf1]|] eqn:E1; [|discriminate]. simpl in Hr. inversion Hr; subst R nf.
      destruct (IHc r1 _ R1 nf1 Hc E1) as [P1 _]. split.
      * intros d c Hk M. rewrite (EV_node n d r c nd En Em). unfold eval_head. rewrite Eh, Ens. cbn [eval_atom].
        apply (h_must_cmp2 (EV n) B d r1 R1 K c P1 Hk M).
      * apply FolNone. cbn [nfol2]. rewrite En, Em, Eh. reflexivity.
  - (* ---------------- no raise ---------------- *)
    intros r L R nf Hc Hr. change (nr G MX (S n) r L) with (nr_step G MX (cc2 G MX n) (nr G MX n) n r L) in Hc.
    unfold nr_step in Hc. apply lor_iff in Hc. destruct Hc as [Hc|Hc].
    { apply lor_iff in Hc. destruct Hc as [He|Hp].
      - intros d c Hk M. exfalso. eapply re_empty_sound; eauto.
      - eapply NrE_weaken; [eapply pure_sound; eauto | intros; exact I]. }
    cbn [re_of] in Hr. destruct (nth_error G r) as [nd|] eqn:En; [|discriminate].
    destruct (MX r) as [[w mx]|] eqn:Em; [discriminate|].
    unfold re_step in Hr. rewrite Em in Hr.
    destruct (nhead nd) eqn:Eh; try discriminate Hc; cbn [atom_re] in Hr.
    + (* seq *)
      destruct (subs_re (re_of G MX n) (nsubs nd)) as [l|] eqn:El; [|discriminate].
      pose proof (nr_seq_ok n IHn (nsubs nd) l L El Hc) as S1.
      intros d c Hk M. rewrite (EV_node n d r c nd En Em). unfold eval_head. rewrite Eh. cbn [eval_atom]. rewrite ov_hseq.
      apply (seq_all_nr (EV n) B Hgood _ (nsubs nd) (matches L) S1 c Hk M).
    + (* sor *)
      destruct (subs_re (re_of G MX n) (nsubs nd)) as [l|] eqn:El; [|discriminate].
      intros d c Hk M. rewrite (EV_node n d r c nd En Em). unfold eval_head. rewrite Eh. cbn [eval_atom].
      apply (sor_any_nr (EV n) B Hgood d (matches L)); [|exact Hk | exact M].
      eapply forallb_Forall; [|exact Hc]. intros a Hin Ha.
      destruct (subs_re_in _ _ _ a El Hin) as [[Ra nfa] Era]. exact (IHn a L Ra nfa Ha Era).
    + (* star *)
      destruct (nsubs nd) as [|r1 [|? ?]] eqn:Ens; try discriminate.
      destruct (re_of G MX n r1) as [[R1 nf1]|] eqn:E1; [|discriminate].
      apply land_iff in Hc. destruct Hc as [Nn Hc]. apply negb_true_iff in Nn.
      destruct (lq CF (Star R1) L) as [X|] eqn:Eq; [|discriminate].
      pose proof (IHn r1 X R1 nf1 Hc E1) as T1. pose proof (EV_snd n r1 R1 nf1 E1) as S1.
      set (Iv := fun t : list byte => exists u, matches (Star R1) u /\ bytes_ok (u ++ t) /\ matches L (u ++ t)).
      assert (TI : NrE (EV n) B r1 Iv).
      { eapply NrE_weaken; [exact T1|]. intros t _ [u [Mu [Hb Ml]]]. exact (lq_sound CF _ L X Eq u t (bytes_ok_app_l _ _ Hb) Mu Ml). }
      intros d c Hk M. rewrite (EV_node n d r c nd En Em). unfold eval_head. rewrite Eh, Ens. cbn [eval_atom].
      destruct (star_loop_nr (EV n) B Hgood d r1 R1 Iv S1 Nn TI (star_inv_closed R1 L) (n + S B)%nat c (fuel_gt n c Hk) Hk) as [c' [evs [E2 _]]].
      { exists []. split; [constructor | split; [exact (proj1 Hk) | exact M]]. }
      rewrite E2. eexists; reflexivity.
    + (* plus *)
      destruct (nsubs nd) as [|r1 [|? ?]] eqn:Ens; try discriminate.
      destruct (re_of G MX n r1) as [[R1 nf1]|] eqn:E1; [|discriminate].
      apply land_iff in Hc. destruct Hc as [Nn Hc]. apply negb_true_iff in Nn.
      destruct (lq CF (Star R1) L) as [X|] eqn:Eq; [|discriminate].
      pose proof (IHn r1 X R1 nf1 Hc E1) as T1. pose proof (EV_snd n r1 R1 nf1 E1) as S1.
      set (Iv := fun t : list byte => exists u, matches (Star R1) u /\ bytes_ok (u ++ t) /\ matches L (u ++ t)).
      assert (TI : NrE (EV n) B r1 Iv).
      { eapply NrE_weaken; [exact T1|]. intros t _ [u [Mu [Hb Ml]]]. exact (lq_sound CF _ L X Eq u t (bytes_ok_app_l _ _ Hb) Mu Ml). }
      intros d c Hk M. rewrite (EV_node n d r c nd En Em). unfold eval_head. rewrite Eh, Ens. cbn [eval_atom].
      apply (h_plus_nr (EV n) B Hgood (n + S B)%nat d r1 R1 c Iv S1 Nn TI (star_inv_closed R1 L)); [lia | exact Hk|].
      exists []. split; [constructor | split; [exact (proj1 Hk) | exact M]].
    + (* partial *)
      destruct (nsubs nd) as [|r1 [|? ?]] eqn:Ens; try discriminate.
      destruct (re_of G MX n r1) as [[R1 nf1]|] eqn:E1; [|discriminate].
      intros d c Hk M. rewrite (EV_node n d r c nd En Em). unfold eval_head. rewrite Eh, Ens. cbn [eval_atom].
      apply (h_partial_nr (EV n) B d r1 c (matches L) (IHn r1 L R1 nf1 Hc E1) Hk M).
    + (* at *)
      destruct (nsubs nd) as [|r1 [|? ?]] eqn:Ens; try discriminate.
      destruct (re_of G MX n r1) as [[R1 nf1]|] eqn:E1; [|discriminate].
      intros d c Hk M. rewrite (EV_node n d r c nd En Em). unfold eval_head. rewrite Eh, Ens. cbn [eval_atom].
      apply (h_at_nr (EV n) B false d r1 c (matches L) (IHn r1 L R1 nf1 Hc E1) Hk M).
    + (* not_at *)
      destruct (nsubs nd) as [|r1 [|? ?]] eqn:Ens; try discriminate.
      destruct (re_of G MX n r1) as [[R1 nf1]|] eqn:E1; [|discriminate].
      intros d c Hk M. rewrite (EV_node n d r c nd En Em). unfold eval_head. rewrite Eh, Ens. cbn [eval_atom].
      apply (h_at_nr (EV n) B true d r1 c (matches L) (IHn r1 L R1 nf1 Hc E1) Hk M).
    + (* if_must *)
      destruct (nsubs nd) as [|cnd [|m [|? ?]]] eqn:Ens; try discriminate.
      destruct (re_of G MX n cnd) as [[Rc nfc]|] eqn:Ec; [|discriminate].
      destruct (re_of G MX n m) as [[Rm [|]]|] eqn:Emm; try discriminate.
      apply land_iff in Hc. destruct Hc as [N1 Hc].
      destruct (lq CF Rc L) as [Q|] eqn:Eq; [|discriminate].
      intros d c Hk M. rewrite (EV_node n d r c nd En Em). unfold eval_head. rewrite Eh, Ens. cbn [eval_atom].
      apply (h_if_must_nr (EV n) B Hgood dflt d cnd m Rc c (matches L) (matches Q)
               (IHn cnd L Rc nfc N1 Ec) (EV_snd n cnd Rc nfc Ec) (IHn m Q Rm true Hc Emm)); [|exact Hk | exact M].
      intros w0 t Hb Mw Ml. exact (lq_sound CF Rc L Q Eq w0 t (bytes_ok_app_l _ _ Hb) Mw Ml).
    + (* must *)
      destruct (nsubs nd) as [|r1 [|? ?]] eqn:Ens; try discriminate.
      destruct (re_of G MX n r1) as [[R1 nf1]|] eqn:E1; [|discriminate].
      destruct (lq CF R1 L) as [Q|] eqn:Eq; [|discriminate].
      apply land_iff in Hc. destruct Hc as [Hi C1].
      destruct (IHc r1 Q R1 nf1 C1 E1) as [P1 _].
      intros d c Hk M. rewrite (EV_node n d r c nd En Em). unfold eval_head. rewrite Eh, Ens. cbn [eval_atom].
      assert (M1 : matches (Cat R1 Q) (rest c)) by (eapply incl_auto_sound; [exact Hi | exact (proj1 Hk) | exact M]).
      destruct (h_must_cmp2 (EV n) B d r1 R1 Q c P1 Hk M1) as [c' [E2 _]]. eexists; exact E2.
Qed.
End Sound2.

(* ---------- a certified root accepts its whole language ---------- *)
Lemma cc2_accepts G MX : table_wf G -> forall n r R nf s, cc2 G MX n r Eps = true -> re_of G MX n r = Some (R, nf) ->
  bytes_ok s -> matches R s -> exists f c' evs, evalx G C0 MX f d0 r (mkcur s pos0) = Res Ok c' evs.
Proof.
  intros HG n r R nf s Hcc ER Hs M.
  destruct (cert2_sound G MX HG (length s) n) as [Hcmp _].
  destruct (Hcmp r Eps R nf Hcc ER) as [Cm _].
  assert (M2 : matches (Cat R Eps) (rest (mkcur s pos0))).
  { simpl. rewrite <- (app_nil_r s). apply MCat; [exact M | constructor]. }
  assert (Hk : okc (length s) (mkcur s pos0)) by (split; simpl; [exact Hs | apply Nat.le_refl]).
  destruct (Cm d0 (mkcur s pos0) Hk M2) as [c' [E _]]. apply ov_ok in E. destruct E as [evs E].
  exists (n + S (length s))%nat, c', evs. exact E.
Qed.

(* ---------- the generated URI table ---------- *)
Lemma cert_split (o : option (re * bool)) (a : re -> bool) (b : bool) :
  match o with Some (R, _) => a R && b | None => false end = true -> exists R nf, o = Some (R, nf) /\ a R = true /\ b = true.
Proof.
  destruct o as [[R nf]|]; [|discriminate]. intros H. apply andb_true_iff in H. destruct H as [H1 H2]. exists R, nf. auto.
Qed.

Lemma complete_of_cert2 t : complete_cert2 t = true ->
  forall s, bytes_ok s -> matches (rfc t) s -> uri_accepts t s.
Proof.
  intros Hc s Hs M.
  destruct (cert_split (uri_re t) (fun R => incl_auto CF (rfc t) R) (cc2 uri_table uri_mx uri_re_depth (uri_root t) Eps) Hc)
    as [R [nf [ER [Hi Hcc]]]].
  assert (MR : matches R s) by (eapply incl_auto_sound; eauto).
  destruct (cc2_accepts uri_table uri_mx uri_table_wf uri_re_depth (uri_root t) R nf s Hcc ER Hs MR) as [f [c' [evs E]]].
  exists f, c', evs. exact E.
Qed.
