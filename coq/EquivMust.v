(* EquivMust.v — C09: must< R > against its documented expansion sor< R, raise< R > >.
   The two are NOT observationally equal (Properties_C09.C09_must_position_refuted): the exception names the same
   rule but not the same position.  What holds, for every table, mode, fuel and input (must_rel):
     - success on one side is success on the other, with the same cursor;
     - neither side ever fails locally;
     - an exception thrown by R itself passes through both sides unchanged;
     - when R fails locally both sides raise parse_error for the rule R: the expansion at the START position
       (sor rewound R, raise< R > does not consume), must< R > at the position of the cursor that R, matched in
       optional mode, left behind — a cursor reached from the start by consuming input (reaches). *)
From Coq Require Import Lia Bool.
From PegtlV Require Import Base Decode Grammar Engine EngineFacts AtomFacts Mono Equiv EquivFacts EquivEval EquivHeads EquivTable.

(* p is the position of a cursor that is a suffix of c: "at or after the start" *)
Definition reaches (c : cursor) (p : pos) : Prop := exists c' pre, rest c = pre ++ rest c' /\ p = cpos c'.

(* x: result of must< R >; y: result of sor< R, raise< R > >; both started at c *)
Definition must_rel (r : rid) (c : cursor) (x y : result) : Prop :=
  match x, y with
  | Res Ok c1 _, Res Ok c2 _ => c1 = c2
  | Res (Exc e1) _ _, Res (Exc e2) _ _ =>
      e1 = e2 \/ exists p, e1 = EParse (WRule r) p /\ e2 = EParse (WRule r) (cpos c) /\ reaches c p
  | Err, Err => True
  | _, _ => False
  end.

Section Must.
Variable G : grammar.
Variable C : cfg.
Hypothesis HC : noact_cfg C.
Hypothesis HG : plain_table G.
Hypothesis HW : table_wf G.

Notation E := (eval G C).

Lemma sor2_eq (e : callee) d a b c :
  sor_any e d [a; b] c = match e (req d) a c with Res Fail c' evs => prepend evs (e d b c') | x => x end.
Proof. reflexivity. Qed.

(* the node raise< R >, whenever it answers, raises for R at the current position *)
Lemma raise_node_l k d rz r c : node G rz HRaise [r] ->
  E (S k) d rz c = Oof \/ exists c' evs, E (S k) d rz c = Res (Exc (EParse (WRule r) (cpos c))) c' evs.
Proof.
  intros [nd [Hn [Hh Hs]]]. pose proof (eval_node_l G C HC true true k d rz c nd Hn) as K. rewrite Hh, Hs in K.
  unfold eval_head in K. cbn [eval_atom] in K. unfold raise_at in K.
  destruct K as [K|K]; [left; exact K|]. right.
  dres (E (S k) d rz c); simpl in K; try contradiction. destruct K as [<- _]. eauto.
Qed.
Lemma raise_node_r k d rz r c : node G rz HRaise [r] ->
  exists c' evs, E (S k) d rz c = Res (Exc (EParse (WRule r) (cpos c))) c' evs.
Proof.
  intros [nd [Hn [Hh Hs]]]. pose proof (eval_node_r G C HC true true k d rz c nd Hn) as K. rewrite Hh, Hs in K.
  unfold eval_head in K. cbn [eval_atom] in K. unfold raise_at in K.
  destruct K as [K|K]; [discriminate|].
  dres (E (S k) d rz c); simpl in K; try contradiction. destruct K as [<- _]. eauto.
Qed.

Lemma fail_req_restores k d r c c' evs : dM d = true -> E k d r c = Res Fail c' evs -> c' = c.
Proof. intros M H. pose proof (eval_goodT G C k d r c HW) as K. rewrite H, M in K. exact K. Qed.
Lemma fail_opt_reaches k d r c c' evs : E k d r c = Res Fail c' evs -> reaches c (cpos c').
Proof.
  intros H. pose proof (eval_goodT G C k d r c HW) as K. rewrite H in K. simpl in K.
  destruct (dM d); [subst c'; exists c, []; split; reflexivity|].
  destruct K as [pre [K _]]. exists c', pre. split; [exact K | reflexivity].
Qed.

Theorem must_expansion_fwd r1 r2 rz r :
  node G r1 HMust [r] -> node G r2 HSor [r; rz] -> node G rz HRaise [r] ->
  forall f d1 d2 c, E f d1 r1 c = Oof \/ exists f', must_rel r c (E f d1 r1 c) (E f' d2 r2 c).
Proof.
  intros [n1 [Hn1 [Hh1 Hs1]]] [n2 [Hn2 [Hh2 Hs2]]] Nz f d1 d2 c.
  destruct f as [|k]; [left; reflexivity|].
  pose proof (eval_node_l G C HC true true k d1 r1 c n1 Hn1) as K1. rewrite Hh1, Hs1 in K1.
  unfold eval_head in K1. cbn [eval_atom] in K1. unfold h_must, raise_at in K1.
  destruct K1 as [K1|K1]; [left; exact K1|]. right. exists (S (S k)).
  pose proof (eval_node_r G C HC true true (S k) d2 r2 c n2 Hn2) as K2. rewrite Hh2, Hs2 in K2.
  unfold eval_head in K2. cbn [eval_atom] in K2. rewrite sor2_eq in K2.
  remember (E (S k) d1 r1 c) as X eqn:EX. remember (E (S (S k)) d2 r2 c) as Y eqn:EY. clear EX EY.
  pose proof (eval_sim G C HC HG k (S k) (Nat.le_succ_diag_r k) (opt_ d1) (req d2) r c) as KS. unfold Sim, flagf, flagx in KS. cbn [dM req opt_ eqb andb] in KS.
  destruct (E k (opt_ d1) r c) as [[| |x] cz ez| |] eqn:Ez.
  - (* R matched *)
    destruct KS as [KS|KS]; [discriminate|].
    destruct (E (S k) (req d2) r c) as [[| |y] cw ew| |]; simpl in KS; try contradiction. subst cw.
    destruct K2 as [K2|K2]; [discriminate|].
    dres X; simpl in K1; try contradiction. dres Y; simpl in K2; try contradiction.
    simpl. congruence.
  - (* R failed locally *)
    destruct KS as [KS|KS]; [discriminate|].
    destruct (E (S k) (req d2) r c) as [[| |y] cw ew| |] eqn:Ew; simpl in KS; try contradiction.
    pose proof (fail_req_restores (S k) (req d2) r c cw ew eq_refl Ew) as ->.
    destruct (raise_node_r k d2 rz r c Nz) as [cr [er Er]]. rewrite Er in K2. simpl in K2.
    destruct K2 as [K2|K2]; [discriminate|].
    dres X; simpl in K1; try contradiction. dres Y; simpl in K2; try contradiction.
    destruct K1 as [K1 _]. destruct K2 as [K2 _]. subst. simpl. right. exists (cpos cz). split; [reflexivity|]. split; [reflexivity|].
    eapply fail_opt_reaches; eauto.
  - (* R raised *)
    destruct KS as [KS|KS]; [discriminate|].
    destruct (E (S k) (req d2) r c) as [[| |y] cw ew| |]; simpl in KS; try contradiction. destruct KS as [<- _].
    destruct K2 as [K2|K2]; [discriminate|].
    dres X; simpl in K1; try contradiction. dres Y; simpl in K2; try contradiction.
    destruct K1 as [K1 _]. destruct K2 as [K2 _]. subst. simpl. left. reflexivity.
  - exfalso. dres X; simpl in K1; contradiction.
  - destruct KS as [KS|KS]; [discriminate|].
    destruct (E (S k) (req d2) r c) as [[| |y] cw ew| |]; simpl in KS; try contradiction.
    destruct K2 as [K2|K2]; [discriminate|].
    dres X; simpl in K1; try contradiction. dres Y; simpl in K2; try contradiction. exact I.
Qed.

Theorem must_expansion_bwd r1 r2 rz r :
  node G r1 HMust [r] -> node G r2 HSor [r; rz] -> node G rz HRaise [r] ->
  forall f d1 d2 c, E f d2 r2 c = Oof \/ exists f', must_rel r c (E f' d1 r1 c) (E f d2 r2 c).
Proof.
  intros [n1 [Hn1 [Hh1 Hs1]]] [n2 [Hn2 [Hh2 Hs2]]] Nz f d1 d2 c.
  destruct f as [|k]; [left; reflexivity|].
  pose proof (eval_node_l G C HC true true k d2 r2 c n2 Hn2) as K2. rewrite Hh2, Hs2 in K2.
  unfold eval_head in K2. cbn [eval_atom] in K2. rewrite sor2_eq in K2.
  destruct K2 as [K2|K2]; [left; exact K2|].
  pose proof (eval_node_r G C HC true true k d1 r1 c n1 Hn1) as K1. rewrite Hh1, Hs1 in K1.
  unfold eval_head in K1. cbn [eval_atom] in K1. unfold h_must, raise_at in K1.
  assert (Goal' : exists X, X = E (S k) d1 r1 c /\ must_rel r c X (E (S k) d2 r2 c)); [|destruct Goal' as [X [-> HX]]; right; exists (S k); exact HX].
  remember (E (S k) d1 r1 c) as X eqn:EX. remember (E (S k) d2 r2 c) as Y eqn:EY. clear EY. exists X. split; [reflexivity|]. clear EX.
  pose proof (eval_sim G C HC HG k k (le_n k) (req d2) (opt_ d1) r c) as KS. unfold Sim, flagf, flagx in KS. cbn [dM req opt_ eqb andb] in KS.
  destruct (E k (req d2) r c) as [[| |y] cw ew| |] eqn:Ew.
  - destruct KS as [KS|KS]; [discriminate|].
    destruct (E k (opt_ d1) r c) as [[| |x] cz ez| |]; simpl in KS; try contradiction. subst cz.
    destruct K1 as [K1|K1]; [discriminate|].
    dres X; simpl in K1; try contradiction. dres Y; simpl in K2; try contradiction.
    simpl. congruence.
  - destruct KS as [KS|KS]; [discriminate|].
    destruct (E k (opt_ d1) r c) as [[| |x] cz ez| |] eqn:Ez; simpl in KS; try contradiction.
    pose proof (fail_req_restores k (req d2) r c cw ew eq_refl Ew) as ->.
    destruct k as [|k']; [discriminate|].
    destruct (raise_node_l k' d2 rz r c Nz) as [Er|[cr [er Er]]]; rewrite Er in K2; simpl in K2; [dres Y; contradiction|].
    destruct K1 as [K1|K1]; [discriminate|].
    dres X; simpl in K1; try contradiction. dres Y; simpl in K2; try contradiction.
    destruct K1 as [K1 _]. destruct K2 as [K2 _]. subst. simpl. right. exists (cpos cz). split; [reflexivity|]. split; [reflexivity|].
    eapply fail_opt_reaches; eauto.
  - destruct KS as [KS|KS]; [discriminate|].
    destruct (E k (opt_ d1) r c) as [[| |x] cz ez| |]; simpl in KS; try contradiction. destruct KS as [<- _].
    destruct K1 as [K1|K1]; [discriminate|].
    dres X; simpl in K1; try contradiction. dres Y; simpl in K2; try contradiction.
    destruct K1 as [K1 _]. destruct K2 as [K2 _]. subst. simpl. left. reflexivity.
  - exfalso. dres Y; simpl in K2; contradiction.
  - destruct KS as [KS|KS]; [discriminate|].
    destruct (E k (opt_ d1) r c) as [[| |x] cz ez| |]; simpl in KS; try contradiction.
    destruct K1 as [K1|K1]; [discriminate|].
    dres X; simpl in K1; try contradiction. dres Y; simpl in K2; try contradiction. exact I.
Qed.

End Must.
