(* EquivAtoms2.v — C09: ranges< C1, D1, C2, D2, ... [, E] >  ==  sor< range< C1, D1 >, range< C2, D2 >, ... [, one< E >] >
   for the char decoder (ascii::ranges / range / one), any number of ranges, with or without the trailing single
   character; cursor positions included (the eol-aware bump of both sides is the same). *)
From Coq Require Import Lia Bool ZArith.
From PegtlV Require Import Base Decode Grammar Engine EngineFacts AtomFacts Mono Equiv EquivFacts EquivEval EquivHeads EquivTable EquivHeads2 EquivTable2.

(* alternatives as a pack of closures *)
Fixpoint csor_any (d : dyn) (fs : list closure) (c : cursor) : result :=
  match fs with
  | [] => Res Fail c []
  | [f] => f d c
  | f :: fs' => match f (req d) c with
                | Res Fail c' evs => prepend evs (csor_any d fs' c')
                | x => x end
  end.
Lemma sor_any_lcl fs : forall pre d c, sor_any (lcl (pre ++ fs)) d (seq (length pre) (length fs)) c = csor_any d fs c.
Proof.
  induction fs as [|f fs IH]; intros pre d c; [reflexivity|].
  destruct fs as [|f2 fs].
  - cbn [length seq sor_any csor_any]. apply lcl_app_r.
  - change (seq (length pre) (length (f :: f2 :: fs))) with (length pre :: seq (S (length pre)) (length (f2 :: fs))).
    change (seq (S (length pre)) (length (f2 :: fs))) with (S (length pre) :: seq (S (S (length pre))) (length fs)).
    cbn [sor_any csor_any]. rewrite lcl_app_r.
    destruct (f (req d) c) as [[| |x] c' evs| |]; try reflexivity. f_equal.
    specialize (IH (pre ++ [f]) d c').
    replace ((pre ++ [f]) ++ f2 :: fs) with (pre ++ f :: f2 :: fs) in IH by (rewrite <- app_assoc; reflexivity).
    replace (length (pre ++ [f])) with (S (length pre)) in IH by (rewrite app_length; simpl; lia).
    exact IH.
Qed.

Lemma csor_any_cons_fail (f : closure) fs d c evs : fs <> [] -> f (req d) c = Res Fail c evs ->
  csor_any d (f :: fs) c = prepend evs (csor_any d fs c).
Proof. intros H E. destruct fs; [congruence|]. cbn [csor_any]. rewrite E. reflexivity. Qed.
Lemma csor_any_cons_ok (f : closure) fs d c c' evs : fs <> [] -> f (req d) c = Res Ok c' evs ->
  csor_any d (f :: fs) c = Res Ok c' evs.
Proof. intros H E. destruct fs; [congruence|]. cbn [csor_any]. rewrite E. reflexivity. Qed.

Lemma eol_ch_small e : (eol_ch e < 128)%N.
Proof. destruct e; simpl; lia. Qed.
Lemma schar_small' b : (b < 128)%N -> schar b = Z.of_N b.
Proof. intros H. unfold schar. destruct (b <? 128)%N eqn:E; [reflexivity|]. apply N.ltb_ge in E. lia. Qed.

(* one char-decoded test on a non-empty input: verdict and exact cursor *)
Lemma ptb_char_exact e test c b tl : rest c = b :: tl ->
  peek_test_bump (eol_ch e) PkChar test c =
  if test (schar b) then Res Ok (mkcur tl (bump1_pos (eol_ch e) (cpos c) b)) [] else Res Fail c [].
Proof.
  intros E. unfold peek_test_bump, do_peek, peek_char, in_empty, rd, peek_at. rewrite E. cbn [nth_error].
  destruct (test (schar b)) eqn:Et; [|reflexivity].
  unfold bump_help, ch_as_data. destruct (test (Z.of_N (eol_ch e))) eqn:Ec.
  - cbn [bump_scan]. rewrite E. reflexivity.
  - unfold bump_in_line. rewrite E. cbn [drop ok_or_err]. unfold bump1_pos.
    destruct (N.eqb_spec b (eol_ch e)) as [->|Hn].
    + rewrite (schar_small' _ (eol_ch_small e)) in Et. congruence.
    + replace (N.of_nat 1) with 1%N by reflexivity. reflexivity.
Qed.
Lemma ptb_char_empty ch test c : rest c = [] -> peek_test_bump ch PkChar test c = Res Fail c [].
Proof. intros E. unfold peek_test_bump, do_peek, peek_char, in_empty. rewrite E. reflexivity. Qed.

Section Ranges.
Variable C : cfg.
Definition c_ranges (cs : list Z) : closure := c_node C 0 (HRanges PkChar cs) [].
Definition c_range (lo hi : Z) : closure := c_node C 0 (HRange true PkChar lo hi) [].
Definition c_one1 (x : Z) : closure := c_node C 0 (HOne true PkChar [x]) [].
Fixpoint alts_of (cs : list Z) : list closure :=
  match cs with
  | lo :: hi :: tl => c_range lo hi :: alts_of tl
  | [x] => [c_one1 x]
  | [] => []
  end.

Lemma c_ranges_eq cs d c : c_ranges cs d c = peek_test_bump (eol_ch (ceol C)) PkChar (test_ranges cs) c.
Proof. reflexivity. Qed.
Lemma c_range_eq lo hi d c : c_range lo hi d c = peek_test_bump (eol_ch (ceol C)) PkChar (test_one_range true lo hi) c.
Proof. reflexivity. Qed.
Lemma c_one1_eq x d c : c_one1 x d c = peek_test_bump (eol_ch (ceol C)) PkChar (test_one_set true [x]) c.
Proof. reflexivity. Qed.

Lemma alts_empty_input c (E : rest c = []) d : forall n cs, length cs <= n -> exists evs, csor_any d (alts_of cs) c = Res Fail c evs.
Proof.
  induction n as [|n IH]; intros cs L.
  - destruct cs; [eexists; reflexivity | simpl in L; lia].
  - destruct cs as [|lo [|hi tl]]; [eexists; reflexivity | |].
    + cbn [alts_of csor_any]. rewrite c_one1_eq, (ptb_char_empty _ _ _ E). eexists; reflexivity.
    + cbn [alts_of]. destruct (IH tl ltac:(simpl in L; lia)) as [evs K].
      destruct (alts_of tl) as [|a2 al] eqn:Ea.
      * cbn [csor_any]. rewrite c_range_eq, (ptb_char_empty _ _ _ E). eexists; reflexivity.
      * rewrite (csor_any_cons_fail (c_range lo hi) (a2 :: al) d c [] ltac:(discriminate) ltac:(rewrite c_range_eq; apply (ptb_char_empty _ _ _ E))). rewrite K. eexists; reflexivity.
Qed.

Lemma alts_char c b tl (E : rest c = b :: tl) d : forall n cs, length cs <= n ->
  exists evs, csor_any d (alts_of cs) c =
    if test_ranges cs (schar b) then Res Ok (mkcur tl (bump1_pos (eol_ch (ceol C)) (cpos c) b)) evs else Res Fail c evs.
Proof.
  induction n as [|n IH]; intros cs L.
  - destruct cs; [eexists; reflexivity | simpl in L; lia].
  - destruct cs as [|lo [|hi tl']]; [eexists; reflexivity | |].
    + cbn [alts_of csor_any test_ranges]. rewrite c_one1_eq, (ptb_char_exact _ _ _ _ _ E).
      unfold test_one_set. cbn [existsb]. rewrite orb_false_r.
      destruct (schar b =? lo)%Z; eexists; reflexivity.
    + cbn [alts_of test_ranges]. destruct (IH tl' ltac:(simpl in L; lia)) as [evs K].
      assert (R : forall dd, c_range lo hi dd c = if ((lo <=? schar b)%Z && (schar b <=? hi)%Z) then Res Ok (mkcur tl (bump1_pos (eol_ch (ceol C)) (cpos c) b)) [] else Res Fail c []).
      { intros dd. rewrite c_range_eq, (ptb_char_exact _ _ _ _ _ E). unfold test_one_range.
        destruct ((lo <=? schar b)%Z && (schar b <=? hi)%Z); reflexivity. }
      destruct (alts_of tl') as [|a2 al] eqn:Ea.
      * cbn [csor_any]. rewrite R.
        assert (T : test_ranges tl' (schar b) = false).
        { destruct tl' as [|x [|y z]]; [reflexivity | discriminate Ea | discriminate Ea]. }
        rewrite T, orb_false_r. destruct ((lo <=? schar b)%Z && (schar b <=? hi)%Z); eexists; reflexivity.
      * destruct ((lo <=? schar b)%Z && (schar b <=? hi)%Z) eqn:Eb; cbn [orb].
        -- rewrite (csor_any_cons_ok (c_range lo hi) (a2 :: al) d c _ [] ltac:(discriminate) ltac:(apply R)). eexists; reflexivity.
        -- rewrite (csor_any_cons_fail (c_range lo hi) (a2 :: al) d c [] ltac:(discriminate) ltac:(apply R)). rewrite K.
           destruct (test_ranges tl' (schar b)); eexists; reflexivity.
Qed.

Lemma ranges_sor cs d1 d2 c : oeq true true (c_ranges cs d1 c) (csor_any d2 (alts_of cs) c).
Proof.
  rewrite c_ranges_eq. destruct (rest c) as [|b tl] eqn:E.
  - rewrite (ptb_char_empty _ _ _ E). destruct (alts_empty_input c E d2 (length cs) cs (le_n _)) as [evs ->]. simpl. reflexivity.
  - rewrite (ptb_char_exact _ _ _ _ _ E). destruct (alts_char c b tl E d2 (length cs) cs (le_n _)) as [evs ->].
    destruct (test_ranges cs (schar b)); simpl; reflexivity.
Qed.

Lemma c_sor_unfold fs d c : c_sor C fs d c = csor_any d fs c.
Proof. unfold c_sor, c_node, eval_head. cbn [eval_atom]. apply (sor_any_lcl fs [] d c). Qed.

Lemma ranges_A cs : cS (c_ranges cs) (c_sor C (alts_of cs)).
Proof. intros d1 d2 c. rewrite c_sor_unfold. apply sim_tt_any. right. apply ranges_sor. Qed.
Lemma ranges_B cs : cS (c_sor C (alts_of cs)) (c_ranges cs).
Proof. intros d1 d2 c. rewrite c_sor_unfold. apply sim_tt_any. right. apply oeq_sym. apply ranges_sor. Qed.
End Ranges.

Section RangesTable.
Variable G : grammar.
Variable C : cfg.
Hypothesis HC : noact_cfg C.
Hypothesis HG : plain_table G.

Notation ecl := (ecl G C).
Notation node := (node G).

(* the alternatives of the documented expansion, as table nodes *)
Inductive ranges_alts : list Z -> list rid -> Prop :=
| RA_nil : ranges_alts [] []
| RA_one x a : node a (HOne true PkChar [x]) [] -> ranges_alts [x] [a]
| RA_range lo hi tl a qs : node a (HRange true PkChar lo hi) [] -> ranges_alts tl qs -> ranges_alts (lo :: hi :: tl) (a :: qs).

Lemma alts_r k cs qs : ranges_alts cs qs -> Forall2 (fun f q => cS f (ecl (S k) q)) (alts_of C cs) qs.
Proof.
  induction 1 as [|x a Na|lo hi tl a qs Na R IH]; cbn [alts_of]; [constructor | constructor; [|constructor] | constructor; [|exact IH]].
  - apply (node_r G C HC HG k 0 a (HOne true PkChar [x]) [] []); [exact Na | reflexivity | constructor | left; reflexivity | discriminate].
  - apply (node_r G C HC HG k 0 a (HRange true PkChar lo hi) [] []); [exact Na | reflexivity | constructor | left; reflexivity | discriminate].
Qed.
Lemma alts_l k cs qs : ranges_alts cs qs -> Forall2 (fun q f => cS (ecl (S k) q) f) qs (alts_of C cs).
Proof.
  induction 1 as [|x a Na|lo hi tl a qs Na R IH]; cbn [alts_of]; [constructor | constructor; [|constructor] | constructor; [|exact IH]].
  - apply (node_l G C HC HG k 0 a (HOne true PkChar [x]) [] []); [exact Na | reflexivity | constructor | left; reflexivity].
  - apply (node_l G C HC HG k 0 a (HRange true PkChar lo hi) [] []); [exact Na | reflexivity | constructor | left; reflexivity].
Qed.

Theorem ranges_utable r1 r2 cs qs :
  node r1 (HRanges PkChar cs) [] -> node r2 HSor qs -> ranges_alts cs qs -> uequiv G C r1 r2.
Proof.
  intros N1 N2 R. split.
  - exists 1. intros [|k]; [intros ? ? ?; left; reflexivity|].
    apply cS_trans with (g := c_ranges C cs).
    { apply (node_l G C HC HG k 0 r1 (HRanges PkChar cs) [] []); [exact N1 | reflexivity | constructor | left; reflexivity]. }
    apply cS_trans with (g := c_sor C (alts_of C cs)); [apply ranges_A|].
    replace (S k + 1) with (S (S k)) by lia.
    apply (node_r G C HC HG (S k) 0 r2 HSor qs); [exact N2 | reflexivity | apply alts_r; exact R | left; reflexivity | discriminate].
  - exists 0. intros [|[|k]]; [intros ? ? ?; left; reflexivity| |]; rewrite Nat.add_0_r.
    { apply cS_trans with (g := c_sor C (map (ecl 0) qs)).
      { apply (node_l G C HC HG 0 0 r2 HSor qs); [exact N2 | reflexivity | apply (F2_map_l G C HC HG); lia | left; reflexivity]. }
      destruct qs as [|q qs]; [|intros d1 d2 c; rewrite c_sor_unfold; destruct qs; left; reflexivity].
      inversion R; subst.
      apply cS_trans with (g := c_ranges C []).
      + intros d1 d2 c. rewrite c_sor_unfold, c_ranges_eq. right. cbn [map csor_any].
        destruct (rest c) as [|b tl] eqn:E; [rewrite (ptb_char_empty _ _ _ E) | rewrite (ptb_char_exact _ _ _ _ _ E)]; simpl;
          destruct (dM d1 && dM d2); auto.
      + apply (node_r G C HC HG 0 0 r1 (HRanges PkChar []) [] []); [exact N1 | reflexivity | constructor | left; reflexivity | discriminate]. }
    apply cS_trans with (g := c_sor C (alts_of C cs)).
    { apply (node_l G C HC HG (S k) 0 r2 HSor qs); [exact N2 | reflexivity | apply alts_l; exact R | left; reflexivity]. }
    apply cS_trans with (g := c_ranges C cs); [apply ranges_B|].
    apply (node_r G C HC HG (S k) 0 r1 (HRanges PkChar cs) [] []); [exact N1 | reflexivity | constructor | left; reflexivity | discriminate].
Qed.

Theorem ranges_table r1 r2 cs qs :
  node r1 (HRanges PkChar cs) [] -> node r2 HSor qs -> ranges_alts cs qs -> obs_equiv G C r1 r2.
Proof. intros. apply uequiv_obs_equiv. eapply ranges_utable; eassumption. Qed.
End RangesTable.
