(* UnescapeFacts.v — proofs for property C17 (model: Unescape.v, specification: UnescapeSpec.v,
   decoder: Decode.peek_utf8). *)
From PegtlV Require Import Base Decode Unescape UnescapeSpec.
From Coq Require Import Lia ZifyBool.
Ltac Zify.zify_post_hook ::= Z.to_euclidean_division_equations.
Local Open Scope N_scope.

(* ====================================================================================== *)
(* 1. generic bit-slice lemmas (no enumeration)                                            *)
(* ====================================================================================== *)

Lemma land_shiftl_small x k y : y < 2 ^ k -> N.land (N.shiftl x k) y = 0.
Proof.
  intros H. apply N.bits_inj_0. intros n. rewrite N.land_spec.
  destruct (N.ltb_spec n k) as [Hn | Hn].
  - rewrite N.shiftl_spec_low by exact Hn. reflexivity.
  - assert (E : y = y mod 2 ^ k) by (symmetry; apply N.mod_small; exact H).
    rewrite E, N.mod_pow2_bits_high by exact Hn. apply andb_false_r.
Qed.

Lemma lor_shiftl_add x k y : y < 2 ^ k -> N.lor (N.shiftl x k) y = x * 2 ^ k + y.
Proof.
  intros H. rewrite <- N.lxor_lor by (apply land_shiftl_small; exact H).
  rewrite <- N.add_nocarry_lxor by (apply land_shiftl_small; exact H).
  rewrite N.shiftl_mul_pow2. reflexivity.
Qed.

Lemma lor_tag x k t : x < 2 ^ k -> N.lor x (N.shiftl t k) = t * 2 ^ k + x.
Proof. intros H. rewrite N.lor_comm. apply lor_shiftl_add. exact H. Qed.

(* ( u & mask ) >> i  for a mask of j contiguous bits starting at bit i *)
Lemma slice_spec u i j : N.shiftr (N.land u (N.shiftl (N.ones j) i)) i = (u / 2 ^ i) mod 2 ^ j.
Proof.
  rewrite N.shiftr_land, N.shiftr_shiftl_l by apply N.le_refl.
  rewrite N.sub_diag, N.shiftl_0_r, N.land_ones, N.shiftr_div_pow2. reflexivity.
Qed.

Lemma mask_spec u j : N.land u (N.ones j) = u mod 2 ^ j.
Proof. apply N.land_ones. Qed.

(* the constants of unescape.hpp *)
Lemma land_ff u : N.land u 0xff = u mod 256.            Proof. exact (mask_spec u 8). Qed.
Lemma land_3f u : N.land u 0x3f = u mod 64.             Proof. exact (mask_spec u 6). Qed.
Lemma land_3ff u : N.land u 0x3ff = u mod 1024.         Proof. exact (mask_spec u 10). Qed.
Lemma slice_7c0 u : N.shiftr (N.land u 0x7c0) 6 = (u / 64) mod 32.          Proof. exact (slice_spec u 6 5). Qed.
Lemma slice_fc0 u : N.shiftr (N.land u 0xfc0) 6 = (u / 64) mod 64.          Proof. exact (slice_spec u 6 6). Qed.
Lemma slice_f000 u : N.shiftr (N.land u 0xf000) 12 = (u / 4096) mod 16.     Proof. exact (slice_spec u 12 4). Qed.
Lemma slice_3f000 u : N.shiftr (N.land u 0x3f000) 12 = (u / 4096) mod 64.   Proof. exact (slice_spec u 12 6). Qed.
Lemma slice_1c0000 u : N.shiftr (N.land u 0x1c0000) 18 = (u / 262144) mod 8. Proof. exact (slice_spec u 18 3). Qed.

Lemma lor_80 x : x < 64 -> N.lor x 0x80 = 0x80 + x.  Proof. exact (lor_tag x 6 2). Qed.
Lemma lor_c0 x : x < 32 -> N.lor x 0xc0 = 0xC0 + x.  Proof. exact (lor_tag x 5 6). Qed.
Lemma lor_e0 x : x < 16 -> N.lor x 0xe0 = 0xE0 + x.  Proof. exact (lor_tag x 4 14). Qed.
Lemma lor_f0 x : x < 8 -> N.lor x 0xf0 = 0xF0 + x.   Proof. exact (lor_tag x 3 30). Qed.

Lemma to_char_small x : x < 256 -> to_char x = x.
Proof. intros H. unfold to_char, wrap. apply N.mod_small. exact H. Qed.

Lemma u32_small x : x < 4294967296 -> u32 x = x.
Proof. intros H. unfold u32, wrap. apply N.mod_small. exact H. Qed.

(* the bytes written by utf8_append_utf32, one lemma per expression *)
Lemma byte_1 u : u <= 0x7f -> to_char (N.land u 0xff) = u.
Proof. intros H. rewrite land_ff. rewrite to_char_small by lia. lia. Qed.

Lemma byte_tail0 u : to_char (N.lor (N.land u 0x3f) 0x80) = 0x80 + u mod 64.
Proof. rewrite land_3f, lor_80 by lia. apply to_char_small. lia. Qed.

Lemma byte_tail6 u : to_char (N.lor (N.shiftr (N.land u 0xfc0) 6) 0x80) = 0x80 + (u / 64) mod 64.
Proof. rewrite slice_fc0, lor_80 by lia. apply to_char_small. lia. Qed.

Lemma byte_tail12 u : to_char (N.lor (N.shiftr (N.land u 0x3f000) 12) 0x80) = 0x80 + (u / 4096) mod 64.
Proof. rewrite slice_3f000, lor_80 by lia. apply to_char_small. lia. Qed.

Lemma byte_lead2 u : u <= 0x7ff -> to_char (N.lor (N.shiftr (N.land u 0x7c0) 6) 0xc0) = 0xC0 + u / 64.
Proof. intros H. rewrite slice_7c0, lor_c0 by lia. rewrite to_char_small by lia. lia. Qed.

Lemma byte_lead3 u : u <= 0xffff -> to_char (N.lor (N.shiftr (N.land u 0xf000) 12) 0xe0) = 0xE0 + u / 4096.
Proof. intros H. rewrite slice_f000, lor_e0 by lia. rewrite to_char_small by lia. lia. Qed.

Lemma byte_lead4 u : u <= 0x10ffff -> to_char (N.lor (N.shiftr (N.land u 0x1c0000) 18) 0xf0) = 0xF0 + u / 262144.
Proof. intros H. rewrite slice_1c0000, lor_f0 by lia. rewrite to_char_small by lia. lia. Qed.

(* ====================================================================================== *)
(* 2. append_exact                                                                         *)
(* ====================================================================================== *)

Lemma append_exact str cp :
  utf8_append_utf32 str cp = if is_scalar cp then (str ++ encode cp, true) else (str, false).
Proof.
  unfold utf8_append_utf32, is_scalar, is_surrogate, encode.
  destruct (cp <=? 0x7f) eqn:H1.
  - replace (cp <? 0x80) with true by lia.
    replace ((cp <=? 0x10FFFF) && negb ((0xD800 <=? cp) && (cp <=? 0xDFFF))) with true by lia.
    rewrite byte_1 by lia. reflexivity.
  - destruct (cp <=? 0x7ff) eqn:H2.
    + replace (cp <? 0x80) with false by lia. replace (cp <? 0x800) with true by lia.
      replace ((cp <=? 0x10FFFF) && negb ((0xD800 <=? cp) && (cp <=? 0xDFFF))) with true by lia.
      rewrite byte_lead2 by lia. rewrite byte_tail0. reflexivity.
    + destruct (cp <=? 0xffff) eqn:H3.
      * destruct ((0xd800 <=? cp) && (cp <=? 0xdfff)) eqn:H4.
        -- replace (cp <=? 0x10FFFF) with true by lia. reflexivity.
        -- replace (cp <=? 0x10FFFF) with true by lia. cbn [negb andb].
           replace (cp <? 0x80) with false by lia. replace (cp <? 0x800) with false by lia.
           replace (cp <? 0x10000) with true by lia.
           rewrite byte_lead3 by lia. rewrite byte_tail6, byte_tail0. reflexivity.
      * destruct (cp <=? 0x10ffff) eqn:H5.
        -- replace ((0xD800 <=? cp) && (cp <=? 0xDFFF)) with false by lia. cbn [negb andb].
           replace (cp <? 0x80) with false by lia. replace (cp <? 0x800) with false by lia.
           replace (cp <? 0x10000) with false by lia.
           rewrite byte_lead4 by lia. rewrite byte_tail12, byte_tail6, byte_tail0. reflexivity.
        -- reflexivity.
Qed.

Lemma append_scalar str cp : is_scalar cp = true -> utf8_append_utf32 str cp = (str ++ encode cp, true).
Proof. intros H. rewrite append_exact, H. reflexivity. Qed.

Lemma append_reject str cp : is_scalar cp = false -> utf8_append_utf32 str cp = (str, false).
Proof. intros H. rewrite append_exact, H. reflexivity. Qed.

(* ====================================================================================== *)
(* 3. the reference encoder produces exactly the well-formed sequences of RFC 3629          *)
(* ====================================================================================== *)

Lemma scalar_cases cp : is_scalar cp = true ->
  cp < 0x80 \/ (0x80 <= cp < 0x800) \/ (0x800 <= cp < 0xD800) \/ (0xE000 <= cp < 0x10000) \/
  (0x10000 <= cp <= 0x10FFFF).
Proof. unfold is_scalar, is_surrogate. intros H. lia. Qed.

Lemma encode_1 cp : cp < 0x80 -> encode cp = [cp].
Proof. intros H. unfold encode. replace (cp <? 0x80) with true by lia. reflexivity. Qed.

Lemma encode_2 cp : 0x80 <= cp < 0x800 -> encode cp = [0xC0 + cp / 64; 0x80 + cp mod 64].
Proof.
  intros H. unfold encode. replace (cp <? 0x80) with false by lia.
  replace (cp <? 0x800) with true by lia. reflexivity.
Qed.

Lemma encode_3 cp : 0x800 <= cp < 0x10000 ->
  encode cp = [0xE0 + cp / 4096; 0x80 + (cp / 64) mod 64; 0x80 + cp mod 64].
Proof.
  intros H. unfold encode. replace (cp <? 0x80) with false by lia.
  replace (cp <? 0x800) with false by lia. replace (cp <? 0x10000) with true by lia. reflexivity.
Qed.

Lemma encode_4 cp : 0x10000 <= cp ->
  encode cp = [0xF0 + cp / 262144; 0x80 + (cp / 4096) mod 64; 0x80 + (cp / 64) mod 64; 0x80 + cp mod 64].
Proof.
  intros H. unfold encode. replace (cp <? 0x80) with false by lia.
  replace (cp <? 0x800) with false by lia. replace (cp <? 0x10000) with false by lia. reflexivity.
Qed.

(* every scalar value is encoded as a well-formed UTF8-char that denotes it *)
Lemma encode_wf cp : is_scalar cp = true -> utf8_char (encode cp) cp.
Proof.
  intros Hs. destruct (scalar_cases cp Hs) as [H | [H | [H | [H | H]]]].
  - rewrite encode_1 by lia. apply U8_1; lia.
  - rewrite encode_2 by lia. apply U8_2; unfold tail; lia.
  - rewrite encode_3 by lia. apply U8_3; unfold lead3, tail; lia.
  - rewrite encode_3 by lia. apply U8_3; unfold lead3, tail; lia.
  - rewrite encode_4 by lia. apply U8_4; unfold lead4, tail; lia.
Qed.

Lemma encode_length cp : is_scalar cp = true ->
  length (encode cp) =
  (if cp <? 0x80 then 1%nat else if cp <? 0x800 then 2%nat else if cp <? 0x10000 then 3%nat else 4%nat).
Proof. intros _. unfold encode. destruct (cp <? 0x80), (cp <? 0x800), (cp <? 0x10000); reflexivity. Qed.

(* uniqueness: a well-formed UTF8-char denoting v IS encode v, and v is a scalar value *)
Lemma utf8_char_unique bs v : utf8_char bs v -> bs = encode v /\ is_scalar v = true.
Proof.
  intros H. destruct H as [b v Hb Hv | b0 b1 v H0 H1 Hv | b0 b1 b2 v H01 H2 Hv | b0 b1 b2 b3 v H01 H2 H3 Hv].
  - subst v. split.
    + rewrite encode_1 by lia. reflexivity.
    + unfold is_scalar, is_surrogate. lia.
  - unfold tail in H1. split.
    + rewrite encode_2 by lia. f_equal; [lia | f_equal; lia].
    + unfold is_scalar, is_surrogate. lia.
  - unfold lead3, tail in H01. unfold tail in H2. split.
    + rewrite encode_3 by lia. f_equal; [lia | f_equal; [lia | f_equal; lia]].
    + unfold is_scalar, is_surrogate. lia.
  - unfold lead4, tail in H01. unfold tail in H2, H3. split.
    + rewrite encode_4 by lia. f_equal; [lia | f_equal; [lia | f_equal; [lia | f_equal; lia]]].
    + unfold is_scalar, is_surrogate. lia.
Qed.

Lemma utf8_char_fun bs v v' : utf8_char bs v -> utf8_char bs v' -> v = v'.
Proof.
  intros H H'. destruct H as [b v Hb Hv | b0 b1 v H0 H1 Hv | b0 b1 b2 v H01 H2 Hv | b0 b1 b2 b3 v H01 H2 H3 Hv];
    inversion H' as [b' w Hb' Hw | c0 c1 w G0 G1 Hw | c0 c1 c2 w G01 G2 Hw | c0 c1 c2 c3 w G01 G2 G3 Hw]; subst; reflexivity.
Qed.

Lemma encode_inj a b : is_scalar a = true -> is_scalar b = true -> encode a = encode b -> a = b.
Proof.
  intros Ha Hb E. apply (utf8_char_fun (encode a)).
  - apply encode_wf. exact Ha.
  - rewrite E. apply encode_wf. exact Hb.
Qed.

Lemma encode_all_wf cps : Forall (fun cp => is_scalar cp = true) cps -> wf_utf8 (encode_all cps) cps.
Proof.
  induction cps as [| cp tl IH]; intros H.
  - apply WF_nil.
  - inversion H as [| x l Hx Hl]; subst. unfold encode_all. cbn [flat_map].
    apply WF_cons; [apply encode_wf; exact Hx | apply IH; exact Hl].
Qed.

(* ====================================================================================== *)
(* 4. round trip with the library's UTF-8 decoder (Decode.peek_utf8, internal/peek_utf8.hpp) *)
(* ====================================================================================== *)

(* single-byte facts by exhaustive sweep over 0..255 (finite domain, bound in the statement) *)
Definition bytes256 : list N := map N.of_nat (seq 0 256).

Lemma in_bytes256 b : b < 256 -> In b bytes256.
Proof.
  intros H. unfold bytes256. rewrite <- (N2Nat.id b). apply in_map. apply in_seq. lia.
Qed.

Lemma sweep256 (P : N -> bool) : forallb P bytes256 = true -> forall b, b < 256 -> P b = true.
Proof. intros H b Hb. rewrite forallb_forall in H. apply H. apply in_bytes256. exact Hb. Qed.

Definition in_rng (lo hi b : N) : bool := (lo <=? b) && (b <=? hi).

Lemma dec_ascii b : b <= 0x7F -> (N.land b 128 =? 0) = true.
Proof.
  intros H.
  assert (S : forallb (fun b => implb (in_rng 0 0x7F b) (N.land b 128 =? 0)) bytes256 = true) by (vm_compute; reflexivity).
  pose proof (sweep256 _ S b ltac:(lia)) as K. cbv beta in K. unfold in_rng in K.
  replace ((0 <=? b) && (b <=? 0x7F)) with true in K by lia. exact K.
Qed.

Lemma dec_lead2 b : 0xC2 <= b <= 0xDF ->
  (N.land b 128 =? 0) = false /\ (N.land b 224 =? 192) = true /\ N.land b 31 = b - 0xC0.
Proof.
  intros H.
  assert (S : forallb (fun b => implb (in_rng 0xC2 0xDF b)
     (negb (N.land b 128 =? 0) && (N.land b 224 =? 192) && (N.land b 31 =? b - 0xC0))) bytes256 = true) by (vm_compute; reflexivity).
  pose proof (sweep256 _ S b ltac:(lia)) as K. cbv beta in K. unfold in_rng in K.
  replace ((0xC2 <=? b) && (b <=? 0xDF)) with true in K by lia. cbn [implb] in K.
  apply andb_true_iff in K. destruct K as [K K3]. apply andb_true_iff in K. destruct K as [K1 K2].
  apply negb_true_iff in K1. apply N.eqb_eq in K3. auto.
Qed.

Lemma dec_lead3 b : 0xE0 <= b <= 0xEF ->
  (N.land b 128 =? 0) = false /\ (N.land b 224 =? 192) = false /\ (N.land b 240 =? 224) = true /\
  N.land b 15 = b - 0xE0.
Proof.
  intros H.
  assert (S : forallb (fun b => implb (in_rng 0xE0 0xEF b)
     (negb (N.land b 128 =? 0) && negb (N.land b 224 =? 192) && (N.land b 240 =? 224) && (N.land b 15 =? b - 0xE0))) bytes256 = true) by (vm_compute; reflexivity).
  pose proof (sweep256 _ S b ltac:(lia)) as K. cbv beta in K. unfold in_rng in K.
  replace ((0xE0 <=? b) && (b <=? 0xEF)) with true in K by lia. cbn [implb] in K.
  apply andb_true_iff in K. destruct K as [K K4]. apply andb_true_iff in K. destruct K as [K K3].
  apply andb_true_iff in K. destruct K as [K1 K2].
  apply negb_true_iff in K1. apply negb_true_iff in K2. apply N.eqb_eq in K4. auto.
Qed.

Lemma dec_lead4 b : 0xF0 <= b <= 0xF4 ->
  (N.land b 128 =? 0) = false /\ (N.land b 224 =? 192) = false /\ (N.land b 240 =? 224) = false /\
  (N.land b 248 =? 240) = true /\ N.land b 7 = b - 0xF0.
Proof.
  intros H.
  assert (S : forallb (fun b => implb (in_rng 0xF0 0xF4 b)
     (negb (N.land b 128 =? 0) && negb (N.land b 224 =? 192) && negb (N.land b 240 =? 224) &&
      (N.land b 248 =? 240) && (N.land b 7 =? b - 0xF0))) bytes256 = true) by (vm_compute; reflexivity).
  pose proof (sweep256 _ S b ltac:(lia)) as K. cbv beta in K. unfold in_rng in K.
  replace ((0xF0 <=? b) && (b <=? 0xF4)) with true in K by lia. cbn [implb] in K.
  apply andb_true_iff in K. destruct K as [K K5]. apply andb_true_iff in K. destruct K as [K K4].
  apply andb_true_iff in K. destruct K as [K K3]. apply andb_true_iff in K. destruct K as [K1 K2].
  apply negb_true_iff in K1. apply negb_true_iff in K2. apply negb_true_iff in K3. apply N.eqb_eq in K5. auto.
Qed.

Lemma dec_tail b : tail b -> cont b = true /\ N.land b 63 = b - 0x80.
Proof.
  unfold tail. intros H.
  assert (S : forallb (fun b => implb (in_rng 0x80 0xBF b) (cont b && (N.land b 63 =? b - 0x80))) bytes256 = true) by (vm_compute; reflexivity).
  pose proof (sweep256 _ S b ltac:(lia)) as K. cbv beta in K. unfold in_rng in K.
  replace ((0x80 <=? b) && (b <=? 0xBF)) with true in K by lia. cbn [implb] in K.
  apply andb_true_iff in K. destruct K as [K1 K2]. apply N.eqb_eq in K2. auto.
Qed.

Lemma lor6 x y : y < 64 -> N.lor (N.shiftl x 6) y = x * 64 + y.
Proof. exact (lor_shiftl_add x 6 y). Qed.

(* the decoder maps every well-formed UTF8-char (followed by anything) to its character number
   and its length *)
Lemma decode_wf bs v rst p : utf8_char bs v ->
  peek_utf8 (mkcur (bs ++ rst) p) = PSome (Z.of_N v) (length bs).
Proof.
  intros H. destruct H as [b v Hb Hv | b0 b1 v H0 H1 Hv | b0 b1 b2 v H01 H2 Hv | b0 b1 b2 b3 v H01 H2 H3 Hv].
  - subst v. unfold peek_utf8, rd, peek_at, in_empty, in_size. cbn [rest app nth_error length].
    rewrite dec_ascii by exact Hb. reflexivity.
  - destruct (dec_lead2 b0 H0) as (A1 & A2 & A3). destruct (dec_tail b1 H1) as (T1 & T1v).
    unfold tail in H1.
    unfold peek_utf8, rd, peek_at, in_empty, in_size. cbn [rest app nth_error length Nat.leb].
    rewrite A1, A2, T1, A3, T1v. rewrite lor6 by lia.
    replace (128 <=? (b0 - 0xC0) * 64 + (b1 - 0x80)) with true by lia.
    rewrite Hv. reflexivity.
  - assert (B0 : 0xE0 <= b0 <= 0xEF) by (unfold lead3, tail in H01; lia).
    assert (B1 : tail b1) by (unfold lead3, tail in H01; unfold tail; lia).
    destruct (dec_lead3 b0 B0) as (A1 & A2 & A3 & A4).
    destruct (dec_tail b1 B1) as (T1 & T1v). destruct (dec_tail b2 H2) as (T2 & T2v).
    unfold lead3, tail in H01. unfold tail in H2, B1.
    unfold peek_utf8, rd, peek_at, in_empty, in_size. cbn [rest app nth_error length Nat.leb].
    rewrite A1, A2, A3, T1, T2, A4, T1v, T2v. cbn [andb].
    rewrite (lor6 (b0 - 0xE0)) by lia. rewrite lor6 by lia.
    replace ((2048 <=? ((b0 - 0xE0) * 64 + (b1 - 0x80)) * 64 + (b2 - 0x80)) &&
             negb ((55296 <=? ((b0 - 0xE0) * 64 + (b1 - 0x80)) * 64 + (b2 - 0x80)) &&
                   (((b0 - 0xE0) * 64 + (b1 - 0x80)) * 64 + (b2 - 0x80) <=? 57343))) with true by lia.
    replace v with (((b0 - 0xE0) * 64 + (b1 - 0x80)) * 64 + (b2 - 0x80)) by lia. reflexivity.
  - assert (B0 : 0xF0 <= b0 <= 0xF4) by (unfold lead4, tail in H01; lia).
    assert (B1 : tail b1) by (unfold lead4, tail in H01; unfold tail; lia).
    destruct (dec_lead4 b0 B0) as (A1 & A2 & A3 & A4 & A5).
    destruct (dec_tail b1 B1) as (T1 & T1v). destruct (dec_tail b2 H2) as (T2 & T2v).
    destruct (dec_tail b3 H3) as (T3 & T3v).
    unfold lead4, tail in H01. unfold tail in H2, H3, B1.
    unfold peek_utf8, rd, peek_at, in_empty, in_size. cbn [rest app nth_error length Nat.leb].
    rewrite A1, A2, A3, A4, T1, T2, T3, A5, T1v, T2v, T3v. cbn [andb].
    rewrite (lor6 (b0 - 0xF0)) by lia. rewrite (lor6 ((b0 - 0xF0) * 64 + (b1 - 0x80))) by lia.
    rewrite lor6 by lia.
    replace ((65536 <=? (((b0 - 0xF0) * 64 + (b1 - 0x80)) * 64 + (b2 - 0x80)) * 64 + (b3 - 0x80)) &&
             ((((b0 - 0xF0) * 64 + (b1 - 0x80)) * 64 + (b2 - 0x80)) * 64 + (b3 - 0x80) <=? 1114111)) with true by lia.
    replace v with ((((b0 - 0xF0) * 64 + (b1 - 0x80)) * 64 + (b2 - 0x80)) * 64 + (b3 - 0x80)) by lia.
    reflexivity.
Qed.

Lemma decode_encode cp rst p : is_scalar cp = true ->
  peek_utf8 (mkcur (encode cp ++ rst) p) = PSome (Z.of_N cp) (length (encode cp)).
Proof. intros H. apply decode_wf. apply encode_wf. exact H. Qed.

(* ====================================================================================== *)
(* 5. hexadecimal helpers                                                                  *)
(* ====================================================================================== *)

Definition opt_eqb (a b : option N) : bool :=
  match a, b with
  | Some x, Some y => x =? y
  | None, None => true
  | _, _ => false
  end.

Lemma opt_eqb_eq a b : opt_eqb a b = true -> a = b.
Proof.
  destruct a as [x |], b as [y |]; cbn [opt_eqb]; intros H; try discriminate; try reflexivity.
  apply N.eqb_eq in H. subst. reflexivity.
Qed.

Lemma index_of_none c l i : Forall (fun x => x <> c) l -> index_of c l i = None.
Proof.
  revert i. induction l as [| x tl IH]; intros i H; cbn [index_of].
  - reflexivity.
  - inversion H as [| y l' Hx Htl]; subst. replace (x =? c) with false by lia. apply IH. exact Htl.
Qed.

(* the switch of unhex_char agrees with the documented digit values on every character *)
Lemma unhex_char_spec c : unhex_char c = hex_digit c.
Proof.
  destruct (N.ltb_spec c 256) as [H | H].
  - assert (S : forallb (fun c => opt_eqb (unhex_char c) (hex_digit c)) bytes256 = true) by (vm_compute; reflexivity).
    apply opt_eqb_eq. exact (sweep256 _ S c H).
  - unfold unhex_char.
    replace ((48 <=? c) && (c <=? 57)) with false by lia.
    replace ((97 <=? c) && (c <=? 102)) with false by lia.
    replace ((65 <=? c) && (c <=? 70)) with false by lia.
    unfold hex_digit. rewrite !index_of_none; [reflexivity | |].
    + unfold hex_upper. repeat (apply Forall_cons; [lia |]). apply Forall_nil.
    + unfold hex_lower. repeat (apply Forall_cons; [lia |]). apply Forall_nil.
Qed.

Lemma unhex_char_xdigit c : is_xdigit c = true -> unhex_char c = Some (digit_val c).
Proof.
  rewrite unhex_char_spec. unfold is_xdigit, digit_val. destruct (hex_digit c) as [v |]; intros H.
  - reflexivity.
  - discriminate H.
Qed.

Lemma unhex_char_not_xdigit c : is_xdigit c = false -> unhex_char c = None.
Proof.
  rewrite unhex_char_spec. unfold is_xdigit. destruct (hex_digit c) as [v |]; intros H.
  - discriminate H.
  - reflexivity.
Qed.

Lemma unhex_char_lt c d : unhex_char c = Some d -> d < 16.
Proof.
  unfold unhex_char.
  destruct ((48 <=? c) && (c <=? 57)) eqn:H1; [intros E; injection E as E; lia |].
  destruct ((97 <=? c) && (c <=? 102)) eqn:H2; [intros E; injection E as E; lia |].
  destruct ((65 <=? c) && (c <=? 70)) eqn:H3; [intros E; injection E as E; lia |].
  intros E. discriminate E.
Qed.

Lemma digit_val_lt c : digit_val c < 16.
Proof.
  unfold digit_val. rewrite <- unhex_char_spec. destruct (unhex_char c) as [d |] eqn:E.
  - apply (unhex_char_lt c). exact E.
  - lia.
Qed.

Definition hexacc (r : N) (l : list N) : N := fold_left (fun acc c => acc * 16 + digit_val c) l r.

Lemma hexval_hexacc l : hexval l = hexacc 0 l.
Proof. reflexivity. Qed.

Lemma pow2_nz w : 2 ^ w <> 0.
Proof. apply N.pow_nonzero. discriminate. Qed.

(* loop invariant of unhex_string< I >: the accumulator is the value so far, wrapped to w bits *)
Lemma unhex_loop_spec w l : forall R,
  Forall (fun c => is_xdigit c = true) l ->
  unhex_loop w (R mod 2 ^ w) l = Some (hexacc R l mod 2 ^ w).
Proof.
  induction l as [| c tl IH]; intros R H.
  - reflexivity.
  - inversion H as [| x l' Hc Htl]; subst. cbn [unhex_loop].
    rewrite unhex_char_xdigit by exact Hc. unfold wrap.
    rewrite N.shiftl_mul_pow2. change (2 ^ 4) with 16.
    rewrite N.mul_mod_idemp_l by apply pow2_nz.
    rewrite N.add_mod_idemp_l by apply pow2_nz.
    rewrite IH by exact Htl. reflexivity.
Qed.

Lemma unhex_wrap w l : Forall (fun c => is_xdigit c = true) l ->
  unhex_string w l = Some (hexval l mod 2 ^ w).
Proof.
  intros H. unfold unhex_string. rewrite <- (N.mod_0_l (2 ^ w)) at 1 by apply pow2_nz.
  rewrite unhex_loop_spec by exact H. reflexivity.
Qed.

Lemma hexacc_bound l : forall R k, R < 16 ^ k -> hexacc R l < 16 ^ (k + N.of_nat (length l)).
Proof.
  induction l as [| c tl IH]; intros R k H.
  - cbn [length hexacc fold_left]. rewrite N.add_0_r. exact H.
  - cbn [hexacc fold_left]. fold (hexacc (R * 16 + digit_val c) tl).
    replace (k + N.of_nat (length (c :: tl))) with ((k + 1) + N.of_nat (length tl)) by (cbn [length]; lia).
    apply IH. rewrite N.pow_add_r. change (16 ^ 1) with 16. pose proof (digit_val_lt c). nia.
Qed.

Lemma hexval_bound l : hexval l < 16 ^ N.of_nat (length l).
Proof. rewrite hexval_hexacc. apply (hexacc_bound l 0 0). reflexivity. Qed.

(* no wrap as long as the digits fit the target type: 4 bits per digit *)
Lemma unhex_exact w l : Forall (fun c => is_xdigit c = true) l -> 4 * N.of_nat (length l) <= w ->
  unhex_string w l = Some (hexval l).
Proof.
  intros H Hw. rewrite unhex_wrap by exact H. f_equal. apply N.mod_small.
  apply N.lt_le_trans with (16 ^ N.of_nat (length l)); [apply hexval_bound |].
  change 16 with (2 ^ 4). rewrite <- N.pow_mul_r. apply N.pow_le_mono_r; [discriminate | exact Hw].
Qed.

Lemma unhex_terminate w l : forall r, Exists (fun c => is_xdigit c = false) l -> unhex_loop w r l = None.
Proof.
  induction l as [| c tl IH]; intros r H.
  - inversion H.
  - cbn [unhex_loop]. destruct (unhex_char c) as [d |] eqn:E; [| reflexivity].
    inversion H as [x l' Hc | x l' Htl]; subst.
    + rewrite unhex_char_not_xdigit in E by exact Hc. discriminate E.
    + apply IH. exact Htl.
Qed.

(* ====================================================================================== *)
(* 6. unescape_c, unescape_x, unescape_u                                                   *)
(* ====================================================================================== *)

Lemma apply_two_assoc c : forall qs rs, apply_two c qs rs = assoc c (combine qs rs).
Proof.
  induction qs as [| q qs IH]; intros rs.
  - reflexivity.
  - destruct rs as [| r rs].
    + reflexivity.
    + cbn [apply_two combine assoc]. destruct (q =? c); [reflexivity | apply IH].
Qed.

Lemma unescape_c_exact qs rs c s :
  unescape_c qs rs [c] s =
  match assoc c (combine qs rs) with Some r => UOk (s ++ [r]) | None => UTerminate end.
Proof. unfold unescape_c. rewrite apply_two_assoc. reflexivity. Qed.

Lemma json_table : combine json_qs json_rs = json_escapes.
Proof. reflexivity. Qed.

Lemma cex_table : combine cex_qs cex_rs = c_escapes.
Proof. reflexivity. Qed.

Lemma unescape_c_json c s :
  unescape_c json_qs json_rs [c] s =
  match assoc c json_escapes with Some r => UOk (s ++ [r]) | None => UTerminate end.
Proof. rewrite unescape_c_exact, json_table. reflexivity. Qed.

Lemma unescape_c_cex c s :
  unescape_c cex_qs cex_rs [c] s =
  match assoc c c_escapes with Some r => UOk (s ++ [r]) | None => UTerminate end.
Proof. rewrite unescape_c_exact, cex_table. reflexivity. Qed.

Lemma unescape_x_wrap c0 ds s : Forall (fun c => is_xdigit c = true) ds ->
  unescape_x (c0 :: ds) s = UOk (s ++ [hexval ds mod 256]).
Proof. intros H. unfold unescape_x. rewrite unhex_wrap by exact H. reflexivity. Qed.

Lemma unescape_x_exact c0 ds s : Forall (fun c => is_xdigit c = true) ds -> (length ds <= 2)%nat ->
  unescape_x (c0 :: ds) s = UOk (s ++ [hexval ds]).
Proof. intros H L. unfold unescape_x. rewrite unhex_exact by (try exact H; lia). reflexivity. Qed.

Lemma unescape_u_wrap c0 ds s : Forall (fun c => is_xdigit c = true) ds ->
  unescape_u (c0 :: ds) s =
  if is_scalar (hexval ds mod 2 ^ 32) then UOk (s ++ encode (hexval ds mod 2 ^ 32)) else UThrow s.
Proof.
  intros H. unfold unescape_u. rewrite unhex_wrap by exact H. rewrite append_exact.
  destruct (is_scalar (hexval ds mod 2 ^ 32)); reflexivity.
Qed.

Lemma unescape_u_exact c0 ds s : Forall (fun c => is_xdigit c = true) ds -> (length ds <= 8)%nat ->
  unescape_u (c0 :: ds) s =
  if is_scalar (hexval ds) then UOk (s ++ encode (hexval ds)) else UThrow s.
Proof.
  intros H L. unfold unescape_u. rewrite unhex_exact by (try exact H; lia). rewrite append_exact.
  destruct (is_scalar (hexval ds)); reflexivity.
Qed.

Lemma unescape_u_terminate c0 ds s : Exists (fun c => is_xdigit c = false) ds ->
  unescape_u (c0 :: ds) s = UTerminate.
Proof. intros H. unfold unescape_u, unhex_string. rewrite unhex_terminate by exact H. reflexivity. Qed.

(* ====================================================================================== *)
(* 7. unescape_j                                                                           *)
(* ====================================================================================== *)

Definition j_result (us s : list N) : ures :=
  match pair_units us with
  | Some cps => UOk (s ++ encode_all cps)
  | None => UThrow (s ++ encode_all (pair_prefix us))
  end.

Lemma surrogate_split u : is_surrogate u = is_high u || is_low u.
Proof. unfold is_surrogate, is_high, is_low. lia. Qed.

Lemma j_result_nil s : j_result [] s = UOk s.
Proof. unfold j_result. cbn [pair_units encode_all flat_map]. rewrite app_nil_r. reflexivity. Qed.

Lemma j_result_single u us s : is_surrogate u = false ->
  j_result (u :: us) s = j_result us (s ++ encode u).
Proof.
  intros H. rewrite surrogate_split in H. apply orb_false_iff in H. destruct H as [Hh Hl].
  unfold j_result. cbn [pair_units pair_prefix]. rewrite Hh, Hl.
  destruct (pair_units us) as [cps |]; cbn [option_map]; unfold encode_all; cbn [flat_map];
    rewrite app_assoc; reflexivity.
Qed.

Lemma j_result_pair h l us s : is_high h = true -> is_low l = true ->
  j_result (h :: l :: us) s = j_result us (s ++ encode (combine_surrogates h l)).
Proof.
  intros Hh Hl. unfold j_result. cbn [pair_units pair_prefix]. rewrite Hh, Hl.
  destruct (pair_units us) as [cps |]; cbn [option_map]; unfold encode_all; cbn [flat_map];
    rewrite app_assoc; reflexivity.
Qed.

Lemma j_result_lone_low u us s : is_high u = false -> is_low u = true -> j_result (u :: us) s = UThrow s.
Proof.
  intros Hh Hl. unfold j_result. cbn [pair_units pair_prefix]. rewrite Hh, Hl.
  cbn [encode_all flat_map]. rewrite app_nil_r. reflexivity.
Qed.

Lemma j_result_lone_high_end u s : is_high u = true -> j_result [u] s = UThrow s.
Proof.
  intros Hh. unfold j_result. cbn [pair_units pair_prefix]. rewrite Hh.
  cbn [encode_all flat_map]. rewrite app_nil_r. reflexivity.
Qed.

Lemma j_result_lone_high u l us s : is_high u = true -> is_low l = false ->
  j_result (u :: l :: us) s = UThrow s.
Proof.
  intros Hh Hl. unfold j_result. cbn [pair_units pair_prefix]. rewrite Hh, Hl.
  cbn [encode_all flat_map]. rewrite app_nil_r. reflexivity.
Qed.

(* ( ( ( c & 0x3ff ) << 10 ) | ( d & 0x3ff ) ) + 0x10000 is the UTF-16 formula; no 32-bit wrap *)
Lemma j_combine_exact c d : is_high c = true -> is_low d = true ->
  j_combine c d = combine_surrogates c d /\ is_scalar (combine_surrogates c d) = true.
Proof.
  unfold is_high, is_low. intros Hc Hd. unfold j_combine, combine_surrogates.
  rewrite !land_3ff.
  replace (c mod 1024) with (c - 0xD800) by lia. replace (d mod 1024) with (d - 0xDC00) by lia.
  assert (E1 : u32 (N.shiftl (c - 0xD800) 10) = N.shiftl (c - 0xD800) 10).
  { apply u32_small. rewrite N.shiftl_mul_pow2. change (2 ^ 10) with 1024. lia. }
  rewrite E1. rewrite lor_shiftl_add by (change (2 ^ 10) with 1024; lia). change (2 ^ 10) with 1024.
  rewrite u32_small by lia.
  split; [lia | unfold is_scalar, is_surrogate; lia].
Qed.

Lemma xd4_unhex g : xd4 g -> unhex_string 32 g = Some (hexval g) /\ hexval g < 65536.
Proof.
  intros [L H]. split.
  - apply unhex_exact; [exact H | rewrite L; cbn; lia].
  - pose proof (hexval_bound g) as B. rewrite L in B. exact B.
Qed.

Lemma unit_not_scalar u : u < 65536 -> is_scalar u = false -> is_surrogate u = true.
Proof. unfold is_scalar, is_surrogate. intros H1 H2. lia. Qed.

Lemma unit_scalar u : is_scalar u = true -> is_surrogate u = false.
Proof. unfold is_scalar. intros H. apply andb_true_iff in H. destruct H as [_ H]. apply negb_true_iff in H. exact H. Qed.

Lemma j_loop_nil f s : unescape_j_loop f [] s = UOk s.
Proof. destruct f; reflexivity. Qed.

Lemma j_loop_step f a b c d t s :
  unescape_j_loop (S f) (a :: b :: c :: d :: t) s =
  match unhex_string 32 [a; b; c; d] with
  | None => UTerminate
  | Some cu =>
    match j_lookahead cu (a :: b :: c :: d :: t) with
    | JUndef => UUndef
    | JTerm => UTerminate
    | JPair du =>
      let '(s', _) := utf8_append_utf32 s (j_combine cu du) in
      unescape_j_loop f (skipn 8 t) s'
    | JSingle =>
      let '(s', ok) := utf8_append_utf32 s cu in
      if ok then unescape_j_loop f (skipn 2 t) s' else UThrow s'
    end
  end.
Proof. reflexivity. Qed.

Lemma j_look_end cu a b c d : j_lookahead cu [a; b; c; d] = JSingle.
Proof. unfold j_lookahead. cbn [length Nat.ltb Nat.leb]. rewrite andb_false_r. reflexivity. Qed.

Lemma j_look_more cu a b c d x y a2 b2 c2 d2 t2 :
  j_lookahead cu (a :: b :: c :: d :: x :: y :: a2 :: b2 :: c2 :: d2 :: t2) =
  if is_high cu then
    match unhex_string 32 [a2; b2; c2; d2] with
    | None => JTerm
    | Some du => if is_low du then JPair du else JSingle
    end
  else JSingle.
Proof.
  unfold j_lookahead, is_high, is_low. cbn [length Nat.ltb Nat.leb skipn take option_map].
  rewrite andb_true_r. reflexivity.
Qed.

Lemma xd4_shape g : xd4 g -> exists a b c d, g = [a; b; c; d].
Proof.
  intros [L _]. destruct g as [| a [| b [| c [| d [| e g]]]]]; try discriminate L.
  exists a, b, c, d. reflexivity.
Qed.

(* what follows a group: nothing, or two bytes and the next groups *)
Definition j_next (t us : list N) : Prop :=
  (t = [] /\ us = []) \/ (exists x y b, t = x :: y :: b /\ j_body b us).

Lemma j_body_inv b us : j_body b us ->
  exists g t us', b = g ++ t /\ us = hexval g :: us' /\ xd4 g /\ j_next t us'.
Proof.
  intros H. destruct H as [g Hg | g x y b us Hg Hb].
  - exists g, [], []. rewrite app_nil_r.
    split; [reflexivity |]. split; [reflexivity |]. split; [exact Hg |]. left. split; reflexivity.
  - exists g, (x :: y :: b), us.
    split; [reflexivity |]. split; [reflexivity |]. split; [exact Hg |].
    right. exists x, y, b. split; [reflexivity | exact Hb].
Qed.

Lemma j_loop_exact : forall f b us s, j_body b us -> (length b <= f)%nat ->
  unescape_j_loop f b s = j_result us s.
Proof.
  induction f as [| f IH]; intros b0 us s Hb Hlen.
  - apply j_body_inv in Hb. destruct Hb as (g & t & us' & Eb & Eu & Hg & Hn).
    destruct (xd4_shape g Hg) as (a & b & c & d & Eg). subst b0 g. cbn [app length] in Hlen. lia.
  - apply j_body_inv in Hb. destruct Hb as (g & t & us' & Eb & Eu & Hg & Hn).
    destruct (xd4_unhex g Hg) as [Hun Hlt].
    destruct (xd4_shape g Hg) as (a & b & c & d & Eg). subst b0 us.
    set (cu := hexval g) in *. subst g. cbn [app length] in Hlen. cbn [app].
    (* continuing after this group (and after the pair) is the induction hypothesis *)
    assert (IHn : forall t1 us1 s1, j_next t1 us1 -> (length t1 <= f + 2)%nat ->
                  unescape_j_loop f (skipn 2 t1) s1 = j_result us1 s1).
    { intros t1 us1 s1 Hn1 Hl1. destruct Hn1 as [[Et Eu] | (x & y & b1 & Et & Hb1)].
      - subst t1 us1. cbn [skipn]. rewrite j_loop_nil, j_result_nil. reflexivity.
      - subst t1. cbn [skipn]. cbn [length] in Hl1. apply IH; [exact Hb1 | lia]. }
    rewrite j_loop_step, Hun.
    destruct Hn as [[Et Eu] | (x & y & b1 & Et & Hb1)].
    + (* last group *)
      subst t us'. rewrite j_look_end.
      destruct (is_scalar cu) eqn:Hs.
      * rewrite append_scalar by exact Hs. cbn [skipn]. rewrite j_loop_nil.
        rewrite j_result_single by (apply unit_scalar; exact Hs). rewrite j_result_nil. reflexivity.
      * rewrite append_reject by exact Hs.
        pose proof (unit_not_scalar cu Hlt Hs) as Hsur. rewrite surrogate_split in Hsur.
        destruct (is_high cu) eqn:Hh.
        -- rewrite j_result_lone_high_end by exact Hh. reflexivity.
        -- cbn [orb] in Hsur. rewrite j_result_lone_low by assumption. reflexivity.
    + (* another group follows *)
      pose proof Hb1 as Hb1'. apply j_body_inv in Hb1'.
      destruct Hb1' as (g2 & t2 & us2 & Eb2 & Eu2 & Hg2 & Hn2).
      destruct (xd4_unhex g2 Hg2) as [Hun2 Hlt2].
      destruct (xd4_shape g2 Hg2) as (a2 & b2 & c2 & d2 & Eg2).
      set (du := hexval g2) in *. subst g2. cbn [app] in Eb2.
      subst t. rewrite Eb2. rewrite j_look_more, Hun2.
      destruct (is_high cu) eqn:Hh.
      * destruct (is_low du) eqn:Hl.
        -- (* surrogate pair *)
           destruct (j_combine_exact cu du Hh Hl) as [Ec Hsc]. rewrite Ec.
           rewrite append_scalar by exact Hsc. subst us'.
           rewrite j_result_pair by assumption.
           change (skipn 8 (x :: y :: a2 :: b2 :: c2 :: d2 :: t2)) with (skipn 2 t2).
           apply IHn; [exact Hn2 |]. rewrite Eb2 in Hlen. cbn [length] in Hlen. lia.
        -- (* high surrogate followed by something else *)
           assert (Hs : is_scalar cu = false).
           { unfold is_scalar. rewrite surrogate_split, Hh. cbn [orb negb]. apply andb_false_r. }
           rewrite append_reject by exact Hs. subst us'.
           rewrite j_result_lone_high by assumption. reflexivity.
      * destruct (is_scalar cu) eqn:Hs.
        -- rewrite append_scalar by exact Hs.
           rewrite j_result_single by (apply unit_scalar; exact Hs).
           rewrite <- Eb2. apply IHn.
           ++ right. exists x, y, b1. split; [reflexivity | exact Hb1].
           ++ cbn [length] in Hlen |- *. lia.
        -- rewrite append_reject by exact Hs.
           pose proof (unit_not_scalar cu Hlt Hs) as Hsur. rewrite surrogate_split, Hh in Hsur.
           cbn [orb] in Hsur. rewrite j_result_lone_low by assumption. reflexivity.
Qed.

Lemma j_body_length b us : j_body b us -> exists k, length b = (6 * k + 4)%nat.
Proof.
  intros H. induction H as [g Hg | g x y b us Hg Hb IH].
  - exists 0%nat. destruct Hg as [L _]. rewrite L. reflexivity.
  - destruct IH as [k Ek]. exists (S k). destruct Hg as [L _].
    rewrite app_length. cbn [length]. rewrite L, Ek. lia.
Qed.

(* the action on  c0 XXXX ( ?? XXXX )*  *)
Lemma unescape_j_exact c0 body us s : j_body body us ->
  unescape_j (c0 :: body) s = j_result us s.
Proof.
  intros H. unfold unescape_j. destruct (j_body_length body us H) as [k Ek].
  cbn [length]. rewrite Ek.
  replace (S (6 * k + 4) + 1)%nat with ((k + 1) * 6)%nat by lia.
  rewrite Nat.mod_mul by discriminate. cbn [Nat.eqb].
  apply j_loop_exact; [exact H | lia].
Qed.

(* the code points produced for a run of escapes are scalar values, so the appended bytes are
   well-formed UTF-8 *)
Lemma pair_units_scalar_n n : forall us cps, (length us <= n)%nat ->
  Forall (fun u => u < 65536) us -> pair_units us = Some cps ->
  Forall (fun cp => is_scalar cp = true) cps.
Proof.
  induction n as [| n IH]; intros us cps L F E.
  - destruct us as [| u tl]; [| cbn [length] in L; lia].
    cbn [pair_units] in E. injection E as E. subst cps. apply Forall_nil.
  - destruct us as [| u tl].
    + cbn [pair_units] in E. injection E as E. subst cps. apply Forall_nil.
    + inversion F as [| u' tl0 Hu Htl]; subst. cbn [pair_units] in E. cbn [length] in L.
      destruct (is_high u) eqn:Hh.
      * destruct tl as [| l tl']; [discriminate E |].
        destruct (is_low l) eqn:Hl; [| discriminate E].
        inversion Htl as [| l' tl1 Hl' Htl']; subst. cbn [length] in L.
        destruct (pair_units tl') as [cps' |] eqn:E'; cbn [option_map] in E; [| discriminate E].
        injection E as E. subst cps. apply Forall_cons.
        -- apply (j_combine_exact u l Hh Hl).
        -- apply (IH tl'); [lia | exact Htl' | exact E'].
      * destruct (is_low u) eqn:Hl; [discriminate E |].
        destruct (pair_units tl) as [cps' |] eqn:E'; cbn [option_map] in E; [| discriminate E].
        injection E as E. subst cps. apply Forall_cons.
        -- unfold is_high in Hh. unfold is_low in Hl. unfold is_scalar, is_surrogate. lia.
        -- apply (IH tl); [lia | exact Htl | exact E'].
Qed.

Lemma j_body_units b us : j_body b us -> Forall (fun u => u < 65536) us.
Proof.
  intros H. induction H as [g Hg | g x y b us Hg Hb IH].
  - apply Forall_cons; [apply (xd4_unhex g Hg) | apply Forall_nil].
  - apply Forall_cons; [apply (xd4_unhex g Hg) | exact IH].
Qed.

Lemma unescape_j_wf c0 body us s s' : j_body body us -> unescape_j (c0 :: body) s = UOk s' ->
  exists cps, pair_units us = Some cps /\ s' = s ++ encode_all cps /\ wf_utf8 (encode_all cps) cps.
Proof.
  intros Hb E. rewrite (unescape_j_exact c0 body us s Hb) in E. unfold j_result in E.
  destruct (pair_units us) as [cps |] eqn:Ep; [| discriminate E].
  injection E as E. exists cps. split; [reflexivity |]. split; [symmetry; exact E |].
  apply encode_all_wf. apply (pair_units_scalar_n (length us) us cps); [lia | | exact Ep].
  apply (j_body_units body). exact Hb.
Qed.
