(* ExtractC10.v — extraction of the model side of property C10 (ExtrOcamlBasic only; numbers stay
   Coq's positive/N/Z/nat inductives): the Peek decoders, the atom evaluator and the transcribed
   class table (whose heads the check compares with the compiler's dump of ascii.hpp / abnf.hpp). *)
From PegtlV Require Import Base Decode Grammar Engine Utf DecodeFacts.
From Coq Require Import Extraction ExtrOcamlBasic.
Extraction Language OCaml.
Extraction "c10_model.ml" do_peek eval_atom class_table N.add N.mul.
