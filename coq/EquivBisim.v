(* EquivBisim.v — C09: a table bisimulation checker, proved sound.
   teq k G0 r1 r2 = true  ->  in EVERY table G that extends the schema table G0 (the opaque placeholder
   nodes of G0 may be any sub-grammar in G), the rules r1 and r2 are observationally equivalent.
   Structural part: identical rule ids, or the same head (value template arguments included) with
   pairwise equivalent sub-rules (control-enabledness / hook visibility is ignored).  Semantic part:
   the documented expansions of the heads with their own match() (EquivTable.v), recognised by pattern.
   Used on the alias schemas that the C++ compiler dumps on every run (gen/AliasC09_gen.v). *)
From Coq Require Import Lia Bool ZArith NArith.
From PegtlV Require Import Base Decode Grammar Engine EngineFacts AtomFacts Mono Equiv EquivFacts EquivEval EquivHeads EquivTable.

Definition endian_eq_dec (a b : endian) : {a = b} + {a <> b}. Proof. decide equality. Defined.
Definition peek_eq_dec (a b : peek) : {a = b} + {a <> b}.
Proof. decide equality; try apply N.eq_dec; try apply Nat.eq_dec; try apply endian_eq_dec. Defined.
Definition cfilter_eq_dec (a b : cfilter) : {a = b} + {a <> b}. Proof. decide equality; apply N.eq_dec. Defined.
Definition head_eq_dec (a b : head) : {a = b} + {a <> b}.
Proof.
  decide equality; try apply peek_eq_dec; try apply Bool.bool_dec; try apply Nat.eq_dec; try apply Z.eq_dec;
  try apply cfilter_eq_dec; try (apply list_eq_dec; first [apply Z.eq_dec | apply N.eq_dec | apply Nat.eq_dec]).
Defined.

Fixpoint forall2b {A B} (p : A -> B -> bool) (l1 : list A) (l2 : list B) : bool :=
  match l1, l2 with
  | [], [] => true
  | a :: l1', b :: l2' => p a b && forall2b p l1' l2'
  | _, _ => false
  end.
Lemma forall2b_Forall2 {A B} (p : A -> B -> bool) l1 : forall l2, forall2b p l1 l2 = true -> Forall2 (fun a b => p a b = true) l1 l2.
Proof.
  induction l1 as [|a l1 IH]; intros [|b l2] H; simpl in H; try discriminate; constructor.
  - apply andb_true_iff in H. tauto.
  - apply IH. apply andb_true_iff in H. tauto.
Qed.
Definition list_eqb (l1 l2 : list rid) : bool := forall2b Nat.eqb l1 l2.
Lemma list_eqb_eq l1 : forall l2, list_eqb l1 l2 = true -> l1 = l2.
Proof.
  induction l1 as [|a l1 IH]; intros [|b l2] H; unfold list_eqb in *; simpl in H; try discriminate; [reflexivity|].
  apply andb_true_iff in H. destruct H as [H1 H2]. apply Nat.eqb_eq in H1. subst. f_equal. apply IH. exact H2.
Qed.

Definition is_opaque (h : head) : bool := match h with HOpaque => true | _ => false end.

Fixpoint teq (k : nat) (G : grammar) (r1 r2 : rid) : bool :=
  (r1 =? r2) ||
  match k with
  | O => false
  | S k' =>
    match nth_error G r1, nth_error G r2 with
    | Some a, Some b =>
        if head_eq_dec (nhead a) (nhead b) then
          negb (is_opaque (nhead a)) &&
          (if names_sub (nhead a) then list_eqb (nsubs a) (nsubs b) else forall2b (teq k' G) (nsubs a) (nsubs b))
        else false
    | _, _ => false
    end
  end.

(* G extends the schema G0: every non-placeholder node of G0 is a node of G with the same head and sub-rules *)
Definition extends (G0 G : grammar) : Prop :=
  forall r nd, nth_error G0 r = Some nd -> nhead nd <> HOpaque ->
    exists nd', nth_error G r = Some nd' /\ nhead nd' = nhead nd /\ nsubs nd' = nsubs nd.

Section Sound.
Variables G0 G : grammar.
Variable C : cfg.
Hypothesis HC : noact_cfg C.
Hypothesis HG : plain_table G.
Hypothesis HW : table_wf G.
Hypothesis HE : extends G0 G.

Lemma not_opaque h : is_opaque h = false -> h <> HOpaque.
Proof. intros H ->. discriminate. Qed.

Theorem teq_sound k : forall r1 r2, teq k G0 r1 r2 = true ->
  forall f1 f2, f1 <= f2 -> cS (ecl G C f1 r1) (ecl G C f2 r2).
Proof.
  induction k as [|k IH]; intros r1 r2 H f1 f2 Hf.
  - simpl in H. rewrite orb_false_r in H. apply Nat.eqb_eq in H. subst. apply ecl_cS; assumption.
  - cbn [teq] in H. apply orb_true_iff in H. destruct H as [H|H]; [apply Nat.eqb_eq in H; subst; apply ecl_cS; assumption|].
    destruct (nth_error G0 r1) as [a|] eqn:Ea; [|discriminate]. destruct (nth_error G0 r2) as [b|] eqn:Eb; [|discriminate].
    destruct (head_eq_dec (nhead a) (nhead b)) as [Eh|]; [|discriminate].
    apply andb_true_iff in H. destruct H as [Ho H]. apply negb_true_iff in Ho.
    destruct (HE r1 a Ea (not_opaque _ Ho)) as [a' [Ha' [Hh1 Hs1]]].
    assert (Ho2 : is_opaque (nhead b) = false) by (rewrite <- Eh; exact Ho).
    destruct (HE r2 b Eb (not_opaque _ Ho2)) as [b' [Hb' [Hh2 Hs2]]].
    intros d1 d2 c. destruct f1 as [|f1]; [left; reflexivity|]. destruct f2 as [|f2]; [lia|].
    eapply sim_trans; [apply (eval_node_l G C HC _ _ f1 d1 r1 c a' Ha')|].
    eapply sim_trans; [|apply (eval_node_r G C HC _ _ f2 d2 r2 c b' Hb')].
    rewrite Hh1, Hh2, Hs1, Hs2, <- Eh.
    destruct (HG r1 a' Ha') as [Hp Hm]. rewrite Hh1 in Hp, Hm.
    destruct (names_sub (nhead a)) eqn:En.
    + apply list_eqb_eq in H. rewrite <- H.
      apply (eval_head_sim C (eval G C f1) (eval G C f2) eq false).
      * intros q1 q2 <- e1 e2 c0. apply (ecl_cS G C HC HG f1 f2 q1); lia.
      * lia.
      * exact Hp.
      * apply Forall2_eq_refl.
      * intros _. split; [reflexivity|]. intros q _ e1 e2 c0. apply (eval_sim G C HC HG); lia.
      * intros dflt Hd. rewrite Hd in En. discriminate.
    + apply forall2b_Forall2 in H.
      apply (eval_head_sim C (eval G C f1) (eval G C f2) (fun q1 q2 => teq k G0 q1 q2 = true) false).
      * intros q1 q2 Hq e1 e2 c0. apply (IH q1 q2 Hq f1 f2); lia.
      * lia.
      * exact Hp.
      * exact H.
      * rewrite En. discriminate.
      * intros dflt Hd m Hin. apply (mustlike_nofail G C HC). rewrite <- Hs1 in Hin. eapply Hm; eauto.
Qed.

Corollary teq_equiv k r1 r2 : teq k G0 r1 r2 = true -> teq k G0 r2 r1 = true -> obs_equiv G C r1 r2.
Proof.
  intros H1 H2. split; intros f d1 d2 c; exists f.
  - apply (teq_sound k r1 r2 H1 f f (le_n _)).
  - apply (teq_sound k r2 r1 H2 f f (le_n _)).
Qed.

(* ---------- the semantic rules, recognised on the schema ---------- *)
Definition node_is (r : rid) (h : head) (subs : list rid) : bool :=
  match nth_error G0 r with
  | Some nd => (if head_eq_dec (nhead nd) h then true else false) && list_eqb (nsubs nd) subs
  | None => false
  end.
Lemma node_is_node r h subs : h <> HOpaque -> node_is r h subs = true -> node G r h subs.
Proof.
  intros Hh H. unfold node_is in H. destruct (nth_error G0 r) as [nd|] eqn:En; [|discriminate].
  apply andb_true_iff in H. destruct H as [H1 H2]. destruct (head_eq_dec (nhead nd) h) as [E|]; [|discriminate].
  apply list_eqb_eq in H2. destruct (HE r nd En) as [nd' [Hn' [Hh' Hs']]]; [rewrite E; exact Hh|].
  exists nd'. split; [exact Hn'|]. split; congruence.
Qed.
Definition subs_of (r : rid) : list rid := match nth_error G0 r with Some nd => nsubs nd | None => [] end.

(* until< R, S >: r1 = until2 [cnd; s], r2 = seq [st; cnd], st = star [sq], sq = seq [na; s], na = not_at [cnd] *)
Definition match_until2 (r1 r2 : rid) : bool :=
  match subs_of r1, subs_of r2 with
  | [cnd; s], [st; _] =>
      match subs_of st with
      | [sq] => match subs_of sq with
                | [na; _] => node_is r1 HUntil2 [cnd; s] && node_is r2 HSeq [st; cnd] && node_is st HStarPartial [sq] &&
                             node_is sq HSeq [na; s] && node_is na HNotAt [cnd]
                | _ => false end
      | _ => false end
  | _, _ => false
  end.
Lemma match_until2_sound r1 r2 : match_until2 r1 r2 = true -> obs_equiv G C r1 r2.
Proof.
  unfold match_until2. destruct (subs_of r1) as [|cnd [|s [|? ?]]]; try discriminate.
  destruct (subs_of r2) as [|st [|x [|? ?]]]; try discriminate.
  destruct (subs_of st) as [|sq [|? ?]]; try discriminate. destruct (subs_of sq) as [|na [|y [|? ?]]]; try discriminate.
  intros H. repeat (apply andb_true_iff in H; destruct H as [H ?]).
  apply (until2_table G C HC HG HW r1 r2 cnd s st sq na); apply node_is_node; try assumption; discriminate.
Qed.

Definition match_ite (r1 r2 : rid) : bool :=
  match subs_of r1, subs_of r2 with
  | [cnd; t; e], [s1; s2] =>
      match subs_of s2 with
      | [na; _] => node_is r1 HIfThenElse [cnd; t; e] && node_is r2 HSor [s1; s2] && node_is s1 HSeq [cnd; t] &&
                   node_is s2 HSeq [na; e] && node_is na HNotAt [cnd]
      | _ => false end
  | _, _ => false
  end.
Lemma match_ite_sound r1 r2 : match_ite r1 r2 = true -> obs_equiv G C r1 r2.
Proof.
  unfold match_ite. destruct (subs_of r1) as [|cnd [|t [|e [|? ?]]]]; try discriminate.
  destruct (subs_of r2) as [|s1 [|s2 [|? ?]]]; try discriminate. destruct (subs_of s2) as [|na [|y [|? ?]]]; try discriminate.
  intros H. repeat (apply andb_true_iff in H; destruct H as [H ?]).
  apply (if_then_else_table G C HC HG HW r1 r2 cnd t e s1 s2 na); apply node_is_node; try assumption; discriminate.
Qed.

Lemma teq_leq k q q' : teq k G0 q q' = true -> teq k G0 q' q = true -> leq G C q q'.
Proof. intros H1 H2. split; intros f1 f2 Hf; eapply teq_sound; eauto. Qed.
Definition teq2 (k : nat) (q q' : rid) : bool := teq k G0 q q' && teq k G0 q' q.
Lemma teq2_leq k q q' : teq2 k q q' = true -> leq G C q q'.
Proof. unfold teq2. intros H. apply andb_true_iff in H. destruct H. eapply teq_leq; eauto. Qed.

Definition match_if_must_seq (k : nat) (r1 r2 : rid) : bool :=
  match subs_of r1, subs_of r2 with
  | [cnd; m], [_; m'] => node_is r1 (HIfMust false) [cnd; m] && node_is r2 HSeq [cnd; m'] && teq2 k m m'
  | _, _ => false end.
Lemma match_if_must_seq_sound k r1 r2 : match_if_must_seq k r1 r2 = true -> obs_equiv G C r1 r2.
Proof.
  unfold match_if_must_seq. destruct (subs_of r1) as [|cnd [|m [|? ?]]]; try discriminate.
  destruct (subs_of r2) as [|a [|m' [|? ?]]]; try discriminate.
  intros H. repeat (apply andb_true_iff in H; destruct H as [H ?]).
  apply (if_must_seq_table G C HC HG HW r1 r2 cnd m m'); try (apply node_is_node; try assumption; discriminate).
  eapply teq2_leq; eauto.
Qed.

Definition match_if_must_ite (k : nat) (dflt : bool) (r1 r2 : rid) : bool :=
  match subs_of r1, subs_of r2 with
  | [cnd; m], [_; m'; x] => node_is r1 (HIfMust dflt) [cnd; m] && node_is r2 HIfThenElse [cnd; m'; x] &&
                            node_is x (if dflt then HSuccess else HFailure) [] && teq2 k m m'
  | _, _ => false end.
Lemma match_if_must_ite_sound k dflt r1 r2 : match_if_must_ite k dflt r1 r2 = true -> obs_equiv G C r1 r2.
Proof.
  unfold match_if_must_ite. destruct (subs_of r1) as [|cnd [|m [|? ?]]]; try discriminate.
  destruct (subs_of r2) as [|a [|m' [|x [|? ?]]]]; try discriminate.
  intros H. repeat (apply andb_true_iff in H; destruct H as [H ?]).
  apply (if_must_ite_table G C HC HG HW dflt r1 r2 cnd m m' x); try (apply node_is_node; try assumption; destruct dflt; discriminate).
  eapply teq2_leq; eauto.
Qed.

Definition match_opt_must_opt (k : nat) (r1 r2 : rid) : bool :=
  match subs_of r1, subs_of r2 with
  | [cnd; m], [im] =>
      match subs_of im with
      | [_; m'] => node_is r1 (HIfMust true) [cnd; m] && node_is r2 HPartial [im] && node_is im (HIfMust false) [cnd; m'] && teq2 k m m'
      | _ => false end
  | _, _ => false end.
Lemma match_opt_must_opt_sound k r1 r2 : match_opt_must_opt k r1 r2 = true -> obs_equiv G C r1 r2.
Proof.
  unfold match_opt_must_opt. destruct (subs_of r1) as [|cnd [|m [|? ?]]]; try discriminate.
  destruct (subs_of r2) as [|im [|? ?]]; try discriminate. destruct (subs_of im) as [|a [|m' [|? ?]]]; try discriminate.
  intros H. repeat (apply andb_true_iff in H; destruct H as [H ?]).
  apply (opt_must_opt_table G C HC HG HW r1 r2 im cnd m m'); try (apply node_is_node; try assumption; discriminate).
  eapply teq2_leq; eauto.
Qed.

(* the checker: structural bisimulation, or one of the documented expansions at the root *)
Definition table_equiv (k : nat) (r1 r2 : rid) : bool :=
  (teq k G0 r1 r2 && teq k G0 r2 r1) || match_until2 r1 r2 || match_ite r1 r2 || match_if_must_seq k r1 r2 ||
  match_if_must_ite k false r1 r2 || match_if_must_ite k true r1 r2 || match_opt_must_opt k r1 r2.

Theorem table_equiv_sound k r1 r2 : table_equiv k r1 r2 = true -> obs_equiv G C r1 r2.
Proof.
  unfold table_equiv. intros H.
  repeat (apply orb_true_iff in H; destruct H as [H|H]).
  - apply andb_true_iff in H. destruct H. eapply teq_equiv; eauto.
  - apply match_until2_sound; exact H.
  - apply match_ite_sound; exact H.
  - eapply match_if_must_seq_sound; exact H.
  - eapply match_if_must_ite_sound; exact H.
  - eapply match_if_must_ite_sound; exact H.
  - eapply match_opt_must_opt_sound; exact H.
Qed.

End Sound.
