(* Properties_Contrib.v — contrib rule classes without an engine head, named in the quantifiers of
   C02 (a locally failing rule never leaves input consumed), C03 (no read outside the input) and
   C09 (rep_one_min_max = rep_min_max< Min, Max, one< C > >):
     contrib/rep_one_min_max.hpp, contrib/predicates.hpp, http::chunk_size / http::chunk_data.
   Theorems only; every proof is `exact <lemma of ContribFacts.v>`.

   Model: Contrib.v (the headers statement by statement on the input API of Base.v / Decode.v).
   Specification: ContribSpec.v.  Vocabulary:
     Res Ok c' [] / Res Fail c' [] / Err   success with cursor c' / local failure leaving the cursor at c' /
                                           a read or bump outside [current,end);
     size_ok amount avail c   avail is an answer an input class may give to in.size( amount ) at cursor c:
                              min( amount, left ) <= avail <= left  (memory inputs: left; buffer inputs: anything
                              from the requested amount upwards); sz_ok = the same for every amount;
     advance ch n c           the cursor n bytes further: remaining input = n-th suffix, position (byte, line,
                              column) = track ch of the n consumed bytes (what lazy tracking computes);
     good (PTr ch) m c x      the C02/C03 invariant of EngineFacts with tracked positions: x is never Err;
                              Ok -> the cursor is a suffix cursor of c whose position is the track of the
                              consumed bytes; Fail with m = true -> the WHOLE cursor record equals c;
     consumed c c' n          rest c' = skipn n (rest c), n <= |rest c|, byte counter advanced by n.
   Every theorem holds for ALL admissible size answers, i.e. for memory and for buffer inputs. *)
From PegtlV Require Import Base Decode Grammar Engine EngineFacts AtomFacts Utf DecodeFacts PosFacts PosFacts2.
From PegtlV Require Import Contrib ContribSpec ContribFacts.
Local Open Scope N_scope.

(* ------------------------------------------------------------------ vocabulary sanity *)

Theorem advance_consumed : forall ch n c, (n <= length (rest c))%nat -> consumed c (advance ch n c) n.
Proof. exact ContribFacts.advance_consumed. Qed.
Print Assumptions advance_consumed.

Theorem advance_tracked : forall ch n c, (n <= length (rest c))%nat -> adv (PTr ch) c (advance ch n c).
Proof. exact ContribFacts.adv_advance_intro. Qed.
Print Assumptions advance_tracked.

(* run_len is THE length of the maximal run *)
Theorem run_len_maximal : forall f l, maximal_run f l (run_len f l).
Proof. exact ContribFacts.run_len_maximal. Qed.
Print Assumptions run_len_maximal.

Theorem maximal_run_unique : forall f l n, maximal_run f l n -> n = run_len f l.
Proof. exact ContribFacts.maximal_run_unique. Qed.
Print Assumptions maximal_run_unique.

(* on well-formed bytes the char comparison is byte equality *)
Theorem is_char_bytes : forall cb b, is_byte cb -> is_byte b -> is_char cb b = (b =? cb).
Proof. exact ContribFacts.is_char_bytes. Qed.
Print Assumptions is_char_bytes.

(* the two extreme input classes are admissible *)
Theorem sz_mem_ok : forall c, sz_ok (sz_mem c) c.
Proof. exact ContribFacts.sz_mem_ok. Qed.
Print Assumptions sz_mem_ok.

Theorem sz_min_ok : forall c, sz_ok (sz_min c) c.
Proof. exact ContribFacts.sz_min_ok. Qed.
Print Assumptions sz_min_ok.

(* ------------------------------------------------------------------ rep_one_min_max *)

(* exactness (includes C02, C03 and the positions): for every admissible answer to in.size( Max + 1 ) the rule
   accepts iff the maximal run of C at the cursor has a length r with Min <= r <= Max, consumes exactly r, leaves
   the cursor untouched otherwise and never reads outside the input *)
Theorem rom_exact : forall mn mx cb e avail c, size_ok (N.of_nat (S mx)) avail c ->
  rep_one_min_max mn mx cb (eol_ch e) avail c = rom_spec mn mx cb (eol_ch e) c.
Proof. exact ContribFacts.rom_exact. Qed.
Print Assumptions rom_exact.

(* the Min = 0 specialisation is the primary template at Min = 0 *)
Theorem rom_specialisation : forall mx cb ch avail c,
  rep_one_min_max_0 mx cb ch avail c = rep_one_min_max_gen 0 mx cb ch avail c.
Proof. exact ContribFacts.rom_0_is_gen. Qed.
Print Assumptions rom_specialisation.

(* C02 + C03 in the form of the engine invariant *)
Theorem rom_C02_C03 : forall mn mx cb e avail c m, size_ok (N.of_nat (S mx)) avail c ->
  good (PTr (eol_ch e)) m c (rep_one_min_max mn mx cb (eol_ch e) avail c).
Proof. exact ContribFacts.rom_good. Qed.
Print Assumptions rom_C02_C03.

(* memory and buffer inputs give the same result *)
Theorem rom_input_class_independent : forall mn mx cb e a1 a2 c,
  size_ok (N.of_nat (S mx)) a1 c -> size_ok (N.of_nat (S mx)) a2 c ->
  rep_one_min_max mn mx cb (eol_ch e) a1 c = rep_one_min_max mn mx cb (eol_ch e) a2 c.
Proof. exact ContribFacts.rom_avail_indep. Qed.
Print Assumptions rom_input_class_independent.

(* C09 clause.  ev_one IS the engine's atom one< C > ... *)
Theorem ev_one_is_engine_atom : forall e cb d r c,
  eval_atom e (HOne true PkChar [schar cb]) c = Some (ev_one (eol_ch e) cb d r c).
Proof. exact ContribFacts.ev_one_is_atom. Qed.
Print Assumptions ev_one_is_engine_atom.

(* ... the engine's rep_min_max< Min, Max, . > over it meets the same specification ... *)
Theorem expansion_exact : forall e cb mn mx d r1 c, (mn <= mx)%nat -> dM d = true ->
  h_rep_min_max (ev_one (eol_ch e) cb) mn mx d r1 c = rom_spec mn mx cb (eol_ch e) c.
Proof. exact ContribFacts.expansion_exact. Qed.
Print Assumptions expansion_exact.

(* ... hence rule and documented expansion are EQUAL (result, cursor, positions) under rewind_mode::required ... *)
Theorem rom_equals_expansion : forall e cb mn mx avail d r1 c,
  (mn <= mx)%nat -> size_ok (N.of_nat (S mx)) avail c -> dM d = true ->
  rep_one_min_max mn mx cb (eol_ch e) avail c = h_rep_min_max (ev_one (eol_ch e) cb) mn mx d r1 c.
Proof. exact ContribFacts.rom_equals_expansion. Qed.
Print Assumptions rom_equals_expansion.

(* ... and in every mode have the same verdict and accepted prefix (in optional mode the expansion may leave the
   cursor advanced on failure — its caller rewinds — while the contrib rule never moves it) *)
Theorem rom_expansion_verdict : forall e cb mn mx avail d r1 c,
  (mn <= mx)%nat -> size_ok (N.of_nat (S mx)) avail c ->
  same_verdict (h_rep_min_max (ev_one (eol_ch e) cb) mn mx d r1 c) (rep_one_min_max mn mx cb (eol_ch e) avail c).
Proof. exact ContribFacts.rom_expansion_verdict. Qed.
Print Assumptions rom_expansion_verdict.

(* ------------------------------------------------------------------ predicates *)

(* test_impl computes the boolean combination *)
Theorem pred_test_spec : forall p v, pred_test p v = true <-> pred_sat p v.
Proof. exact ContribFacts.pred_test_spec. Qed.
Print Assumptions pred_test_spec.

Theorem pred_sat_and : forall ps v, pred_sat (PAnd ps) v <-> Forall (fun q => pred_sat q v) ps.
Proof. exact ContribFacts.pred_sat_and. Qed.
Print Assumptions pred_sat_and.

Theorem pred_sat_or : forall ps v, pred_sat (POr ps) v <-> Exists (fun q => pred_sat q v) ps.
Proof. exact ContribFacts.pred_sat_or. Qed.
Print Assumptions pred_sat_or.

(* exactness over peek_char and peek_utf8: success iff the decoder yields a unit whose value satisfies the
   combination; then exactly the unit is consumed (tracked position), otherwise the cursor is untouched *)
Theorem predicates_exact : forall e pk p c, unit_peek pk = true ->
  predicates_spec (eol_ch e) pk p c (predicates (eol_ch e) pk p c).
Proof. exact ContribFacts.predicates_exact. Qed.
Print Assumptions predicates_exact.

Theorem predicates_char_exact : forall e p c,
  predicates (eol_ch e) PkChar p c =
    match rest c with
    | b :: _ => if pred_test p (schar b) then Res Ok (advance (eol_ch e) 1 c) [] else Res Fail c []
    | [] => Res Fail c []
    end.
Proof. exact ContribFacts.predicates_char_exact. Qed.
Print Assumptions predicates_char_exact.

Theorem predicates_C02_C03 : forall e pk p c m, unit_peek pk = true ->
  good (PTr (eol_ch e)) m c (predicates (eol_ch e) pk p c).
Proof. exact ContribFacts.predicates_good. Qed.
Print Assumptions predicates_C02_C03.

(* C02 + C03 (without the position clause) for every decoder class of the library *)
Theorem predicates_C02_C03_any_peek : forall ch pk p c m, peek_wf pk -> goodT m c (predicates ch pk p c).
Proof. exact ContribFacts.predicates_goodT. Qed.
Print Assumptions predicates_C02_C03_any_peek.

(* predicates::match is the generic peek / test / bump_help atom of the engine over test_impl *)
Theorem predicates_is_engine_atom : forall ch pk p c, predicates ch pk p c = peek_test_bump ch pk (pred_test p) c.
Proof. exact ContribFacts.predicates_is_ptb. Qed.
Print Assumptions predicates_is_engine_atom.

(* ------------------------------------------------------------------ http::chunk_size *)

(* exactness (includes C02, C03, positions): the maximal run of hex digits, success iff non-empty, the state
   receives the value of the run MODULO 2^64 *)
Theorem chunk_size_exact : forall e sz c, sz_ok sz c -> Forall is_byte (rest c) ->
  chunk_size sz c = chunk_size_spec (eol_ch e) c.
Proof. exact ContribFacts.chunk_size_exact. Qed.
Print Assumptions chunk_size_exact.

(* runs of at most 16 digits are converted exactly *)
Theorem chunk_size_no_wrap : forall sz c, sz_ok sz c -> Forall is_byte (rest c) ->
  (run_len is_hex (rest c) <= 16)%nat ->
  snd (chunk_size sz c) = hex_value (firstn (run_len is_hex (rest c)) (rest c)).
Proof. exact ContribFacts.chunk_size_no_wrap. Qed.
Print Assumptions chunk_size_no_wrap.

Theorem chunk_size_C02_C03 : forall e sz c m, sz_ok sz c -> Forall is_byte (rest c) ->
  good (PTr (eol_ch e)) m c (fst (chunk_size sz c)).
Proof. exact ContribFacts.chunk_size_good. Qed.
Print Assumptions chunk_size_C02_C03.

(* ------------------------------------------------------------------ http::chunk_data *)

Theorem chunk_data_exact : forall ch avail size c, size_ok size avail c ->
  chunk_data ch avail size c = chunk_data_spec ch size c.
Proof. exact ContribFacts.chunk_data_exact. Qed.
Print Assumptions chunk_data_exact.

Theorem chunk_data_C02_C03 : forall ch avail size c m, size_ok size avail c ->
  good (PTr ch) m c (chunk_data ch avail size c).
Proof. exact ContribFacts.chunk_data_good. Qed.
Print Assumptions chunk_data_C02_C03.

(* ------------------------------------------------------------------ http::chunk (no extension) *)

(* the composition that hands the size from chunk_size to chunk_data keeps the invariant in both rewind modes *)
Theorem http_chunk_noext_C02_C03 : forall e m szf c x size,
  (forall c', sz_ok (szf c') c') -> Forall is_byte (rest c) ->
  http_chunk_noext m (eol_ch e) szf c = CkRes x size -> good (PTr (eol_ch e)) m c x.
Proof. exact ContribFacts.http_chunk_noext_good. Qed.
Print Assumptions http_chunk_noext_C02_C03.

(* exactness under rewind_mode::required:  chunk = 1*HEXDIG CRLF <size octets> CRLF  with size = value of the digits
   modulo 2^64; every failure leaves the cursor where it was; no access outside the input *)
Theorem http_chunk_required_exact : forall e szf c,
  (forall c', sz_ok (szf c') c') -> Forall is_byte (rest c) ->
  http_chunk_noext true (eol_ch e) szf c = http_chunk_spec (eol_ch e) c.
Proof. exact ContribFacts.http_chunk_required_exact. Qed.
Print Assumptions http_chunk_required_exact.

(* ------------------------------------------------------------------ examples (hypotheses are satisfiable, values are concrete) *)

Definition cur (l : list byte) : cursor := mkcur l pos0.

(* rep_one_min_max< 1, 3, 'a' > on "aab" when in.size( Max + 1 = 4 ) answers 3 because only 3 bytes are left *)
Example ex_rom_accept :
  size_ok 4 3 (cur [97; 97; 98]) /\
  rep_one_min_max 1 3 97 10 3 (cur [97; 97; 98]) = Res Ok (mkcur [98] (mkpos 2 1 3)) [].
Proof. split; [split; vm_compute; [discriminate | repeat constructor] | vm_compute; reflexivity]. Qed.
Print Assumptions ex_rom_accept.

(* one over Max: "aaaa" with Max = 3 fails and leaves the cursor; asking for Max instead of Max + 1 bytes would accept *)
Example ex_rom_over_max :
  rep_one_min_max 1 3 97 10 4 (cur [97; 97; 97; 97]) = Res Fail (cur [97; 97; 97; 97]) [] /\
  rep_one_min_max 1 3 97 10 3 (cur [97; 97; 97; 97]) = Res Ok (mkcur [97] (mkpos 3 1 4)) [] /\
  ~ size_ok 4 3 (cur [97; 97; 97; 97]).
Proof. split; [vm_compute; reflexivity|]. split; [vm_compute; reflexivity|]. intros [H _]. vm_compute in H. apply H. reflexivity. Qed.
Print Assumptions ex_rom_over_max.

(* C = '\n' under eol::lf_crlf: the scanning bump counts the lines; under eol::cr it does not *)
Example ex_rom_eol :
  rep_one_min_max 0 2 10 10 3 (cur [10; 10; 120]) = Res Ok (mkcur [120] (mkpos 2 3 1)) [] /\
  rep_one_min_max 0 2 10 13 3 (cur [10; 10; 120]) = Res Ok (mkcur [120] (mkpos 2 1 3)) [].
Proof. split; vm_compute; reflexivity. Qed.
Print Assumptions ex_rom_eol.

Example ex_expansion :
  h_rep_min_max (ev_one 10 97) 1 3 (mkdyn true true 0 0 0) 7%nat (cur [97; 97; 98]) = Res Ok (mkcur [98] (mkpos 2 1 3)) [] /\
  h_rep_min_max (ev_one 10 97) 1 3 (mkdyn true true 0 0 0) 7%nat (cur [97; 97; 97; 97]) = Res Fail (cur [97; 97; 97; 97]) [] /\
  h_rep_min_max (ev_one 10 97) 1 3 (mkdyn true false 0 0 0) 7%nat (cur [97; 97; 97; 97]) = Res Fail (mkcur [97] (mkpos 3 1 4)) [].
Proof. repeat split; vm_compute; reflexivity. Qed.
Print Assumptions ex_expansion.

(* utf8::predicates_and< utf8::range< 0x80, 0xFFFF >, utf8::not_one< 0xE9 > > on the euro sign, on e-acute, on a truncated unit *)
Example ex_predicates :
  let p := PAnd [PRange true 128 65535; POne false [233%Z]] in
  predicates 10 PkUtf8 p (cur [226; 130; 172; 33]) = Res Ok (mkcur [33] (mkpos 3 1 4)) [] /\
  predicates 10 PkUtf8 p (cur [195; 169]) = Res Fail (cur [195; 169]) [] /\
  predicates 10 PkUtf8 p (cur [226; 130]) = Res Fail (cur [226; 130]) [].
Proof. repeat split; vm_compute; reflexivity. Qed.
Print Assumptions ex_predicates.

(* predicate_not< one< 'a' > > accepts '\n' and then bumps with the scanning bump (test_any( eol ) is true) *)
Example ex_predicate_not :
  predicates 10 PkChar (PNot (POne true [97%Z])) (cur [10; 97]) = Res Ok (mkcur [97] (mkpos 1 2 1)) [].
Proof. vm_compute. reflexivity. Qed.
Print Assumptions ex_predicate_not.

(* chunk_size on "1f;" and on "x" *)
Example ex_chunk_size :
  chunk_size (sz_min (cur [49; 102; 59])) (cur [49; 102; 59]) = (Res Ok (mkcur [59] (mkpos 2 1 3)) [], 31) /\
  chunk_size (sz_mem (cur [120])) (cur [120]) = (Res Fail (cur [120]) [], 0).
Proof. split; vm_compute; reflexivity. Qed.
Print Assumptions ex_chunk_size.

(* the silent wrap: 17 digits "10000000000000000" (= 2^64) are accepted and the state receives 0;
   "1000000000000000f" gives 15 *)
Example ex_chunk_size_wraps :
  let ds := 49 :: repeat 48 16%nat in
  let c := cur (ds ++ [13; 10]) in
  hex_value ds = 2 ^ 64 /\
  chunk_size (sz_mem c) c = (Res Ok (mkcur [13; 10] (mkpos 17 1 18)) [], 0) /\
  snd (chunk_size (sz_mem (cur (49 :: repeat 48 15%nat ++ [102]))) (cur (49 :: repeat 48 15%nat ++ [102]))) = 15.
Proof. repeat split; vm_compute; reflexivity. Qed.
Print Assumptions ex_chunk_size_wraps.

(* chunk_data: 3 bytes with a newline among them; one byte short; a size beyond any input *)
Example ex_chunk_data :
  chunk_data 10 3 3 (cur [97; 10; 98; 13]) = Res Ok (mkcur [13] (mkpos 3 2 2)) [] /\
  chunk_data 10 2 3 (cur [97; 10]) = Res Fail (cur [97; 10]) [] /\
  chunk_data 10 2 18446744073709551615 (cur [97; 10]) = Res Fail (cur [97; 10]) [].
Proof. repeat split; vm_compute; reflexivity. Qed.
Print Assumptions ex_chunk_data.

(* http::chunk "3\r\nabc\r\n" and the same one byte short, required and optional *)
Example ex_http_chunk :
  http_chunk_noext true 10 sz_min (cur [51; 13; 10; 97; 98; 99; 13; 10]) = CkRes (Res Ok (mkcur [] (mkpos 8 3 1)) []) 3 /\
  http_chunk_noext true 10 sz_min (cur [51; 13; 10; 97; 98; 99; 13]) = CkRes (Res Fail (cur [51; 13; 10; 97; 98; 99; 13]) []) 3 /\
  http_chunk_noext false 10 sz_min (cur [51; 13; 10; 97; 98; 99; 13]) = CkRes (Res Fail (mkcur [13] (mkpos 6 2 4)) []) 3.
Proof. repeat split; vm_compute; reflexivity. Qed.
Print Assumptions ex_http_chunk.

(* the models are not vacuous about C03: with an INADMISSIBLE size answer (more than what is left) they do report the
   out-of-bounds access that the real code would make *)
Example ex_model_detects_overread :
  rep_one_min_max 0 3 97 10 2 (cur [97]) = Err /\
  fst (chunk_size (fun _ => 2%nat) (cur [49])) = Err /\
  chunk_data 10 3 3 (cur [97; 98]) = Err.
Proof. repeat split; vm_compute; reflexivity. Qed.
Print Assumptions ex_model_detects_overread.
