(* ActionSpec2.v — C04, the EXTENDED reference semantics of "PEG with semantic actions", independent of the engine:
   the grammar TABLE is read purely as syntax (no modes, cursors, events, fuel; no reference to how Engine.v
   computes), in the style of RaiseSpec.RPeg, with three verdicts
        TOk rest offset actions  |  TFail  |  TRaise
   and the list of (node, apply/apply0, begin offset, end offset) of the action-carrying nodes of THE derivation.
   Beyond the classical operators of ActionSpec.PegA it covers
     rep<N,R>            = seq< R, ..., R >                                 (N times)
     rep_opt<N,R>        = up to N times R, greedy
     rep_min_max<m,M,R>  = seq< rep<m,R>, rep_opt<M-m,R>, not_at<R> >       (doc/Rule-Reference.md)
     until<C>            = loop { C ok -> ok | C fails -> end of input ? fail : skip one byte }
     until<C,R>          = loop { C ok -> ok | C fails -> R ok ? again : fail }
     if_then_else<C,T,E>
     partial<Rs...>      = the maximal successful PREFIX of seq<Rs...>: the actions of the prefix SURVIVE
     star_partial<Rs...> = star of that;  opt<R> = partial<R>;  star<R> = star_partial<R>
     strict<R,Rs...>     = R fails -> ok (empty) ; R ok -> seq<Rs...> decides
     star_strict<R,Rs...>
     disable<R> / at<R> / not_at<R> : R is evaluated with actions OFF;   enable<R> : with actions ON
     action<F,R>         : R is evaluated with action family F
     must<R> = sor< R, raise<R> >;  raise<T>;  if_must<D,C,R...> = if_then_else< C, must<R...>, D ? success : failure >
     try_catch_return_false<R> : a raise of R (a parse_error) is a local failure when the filter catches parse errors
   A raise aborts every enclosing operator (first raise in evaluation order); failing alternatives, failing loop
   iterations and look-ahead contribute no action; every node's own action comes AFTER the actions of its body,
   with begin = the offset at entry (apply) or begin = end (apply0); a bool action returning false turns its node
   into a local failure (and takes the body's actions with it).
   Definitions and basic facts only. *)
From PegtlV Require Import Base Decode Grammar Spec Denote ActionSpec RaiseSpec.
Local Open Scope N_scope.

Definition tact := (rid * bool * N * N)%type.            (* node, apply (true) / apply0 (false), begin offset, end offset *)
Inductive tres :=
| TOk (s : list byte) (o : N) (l : list tact)            (* rest of the input, its offset, actions of the derivation *)
| TFail
| TRaise.

Definition tcat (l1 : list tact) (x : tres) : tres :=
  match x with TOk s o l2 => TOk s o (l1 ++ l2) | y => y end.
Definition nok (x : tres) : Prop := match x with TOk _ _ _ => False | _ => True end.
Definition tatom (s : list byte) (o : N) (r : option (list byte)) : tres :=
  match r with Some s' => TOk s' (adv_off o s s') [] | None => TFail end.
(* does a catch clause of this kind catch a parse_error? *)
Definition catches_parse (f : cfilter) : bool := match f with FType _ => false | _ => true end.

Section T.
Variable G : grammar.
Variable att : nat -> rid -> skind.            (* what Action< Rule > of family fam defines for node r *)
Variable vt : nat -> rid -> N -> N -> bool.    (* the bool action of ( fam, r ) returns FALSE on ( begin offset, end offset ) *)

(* a node matched [o, o1): invoke its action if actions are enabled *)
Definition twrap (A : bool) (fam : nat) (r : rid) (o : N) (x : tres) : tres :=
  match x with
  | TOk s1 o1 l1 =>
      if A then
        match att fam r with
        | KNone => x
        | KAct sp isb => if isb && vt fam r o o1 then TFail else TOk s1 o1 (l1 ++ [(r, sp, if sp then o else o1, o1)])
        end
      else x
  | y => y
  end.

Inductive PegT : bool -> nat -> rid -> list byte -> N -> tres -> Prop :=
| T_node A fam r nd s o x : nth_error G r = Some nd ->
    TBody A fam (nhead nd) (nsubs nd) s o x -> PegT A fam r s o (twrap A fam r o x)

(* the head of a node applied to its sub-rules *)
with TBody : bool -> nat -> head -> list rid -> list byte -> N -> tres -> Prop :=
| B_atom A fam h a s o x : atom_den h a -> Peg [] a s x -> TBody A fam h [] s o (tatom s o x)
| B_seq A fam rs s o x : TSeq A fam rs s o x -> TBody A fam HSeq rs s o x
| B_sor A fam rs s o x : TSor A fam rs s o x -> TBody A fam HSor rs s o x
| B_star A fam rs s o x : TStar A fam rs s o x -> TBody A fam HStarPartial rs s o x
| B_plus_ok A fam r1 s o s1 o1 l1 x : PegT A fam r1 s o (TOk s1 o1 l1) -> TStar A fam [r1] s1 o1 x ->
    TBody A fam HPlus [r1] s o (tcat l1 x)
| B_plus_nok A fam r1 s o x : PegT A fam r1 s o x -> nok x -> TBody A fam HPlus [r1] s o x
| B_partial A fam rs s o b x : TPar A fam rs s o b x -> TBody A fam HPartial rs s o x
(* look-ahead: the sub-rule is evaluated with actions OFF; nothing is consumed *)
| B_at A fam r1 s o x : PegT false fam r1 s o x ->
    TBody A fam HAt [r1] s o (match x with TOk _ _ l => TOk s o l | y => y end)
| B_not_at A fam r1 s o x : PegT false fam r1 s o x ->
    TBody A fam HNotAt [r1] s o (match x with TOk _ _ _ => TFail | TFail => TOk s o [] | TRaise => TRaise end)
| B_until1 A fam cnd s o x : TUntil1 A fam cnd s o x -> TBody A fam HUntil1 [cnd] s o x
| B_until2 A fam cnd r1 s o x : TUntil2 A fam cnd r1 s o x -> TBody A fam HUntil2 [cnd; r1] s o x
| B_rep A fam k r1 s o x : TSeq A fam (repeat r1 k) s o x -> TBody A fam (HRep k) [r1] s o x
| B_rep_opt A fam k r1 s o x : TRepOpt A fam k r1 s o x -> TBody A fam (HRepOpt k) [r1] s o x
(* rep_min_max< mn, mx, R > = seq< rep< mn, R >, rep_opt< mx - mn, R >, not_at< R > > *)
| B_rmm_nok1 A fam mn mx r1 s o x : TSeq A fam (repeat r1 mn) s o x -> nok x ->
    TBody A fam (HRepMinMax mn mx) [r1] s o x
| B_rmm_nok2 A fam mn mx r1 s o s1 o1 l1 x : TSeq A fam (repeat r1 mn) s o (TOk s1 o1 l1) ->
    TRepOpt A fam (mx - mn) r1 s1 o1 x -> nok x -> TBody A fam (HRepMinMax mn mx) [r1] s o x
| B_rmm A fam mn mx r1 s o s1 o1 l1 s2 o2 l2 y : TSeq A fam (repeat r1 mn) s o (TOk s1 o1 l1) ->
    TRepOpt A fam (mx - mn) r1 s1 o1 (TOk s2 o2 l2) -> PegT false fam r1 s2 o2 y ->
    TBody A fam (HRepMinMax mn mx) [r1] s o
      (match y with TOk _ _ _ => TFail | TFail => TOk s2 o2 (l1 ++ l2) | TRaise => TRaise end)
| B_ite_then A fam cnd t e s o s1 o1 l1 x : PegT A fam cnd s o (TOk s1 o1 l1) -> PegT A fam t s1 o1 x ->
    TBody A fam HIfThenElse [cnd; t; e] s o (tcat l1 x)
| B_ite_else A fam cnd t e s o x : PegT A fam cnd s o TFail -> PegT A fam e s o x ->
    TBody A fam HIfThenElse [cnd; t; e] s o x
| B_ite_raise A fam cnd t e s o : PegT A fam cnd s o TRaise -> TBody A fam HIfThenElse [cnd; t; e] s o TRaise
| B_strict_none A fam r1 rs s o : PegT A fam r1 s o TFail -> TBody A fam HStrict (r1 :: rs) s o (TOk s o [])
| B_strict_raise A fam r1 rs s o : PegT A fam r1 s o TRaise -> TBody A fam HStrict (r1 :: rs) s o TRaise
| B_strict_ok A fam r1 rs s o s1 o1 l1 x : PegT A fam r1 s o (TOk s1 o1 l1) -> TSeq A fam rs s1 o1 x ->
    TBody A fam HStrict (r1 :: rs) s o (tcat l1 x)
| B_star_strict A fam r1 rs s o x : TSStrict A fam r1 rs s o x -> TBody A fam HStarStrict (r1 :: rs) s o x
(* sections *)
| B_disable A fam r1 s o x : PegT false fam r1 s o x -> TBody A fam HDisable [r1] s o x
| B_enable A fam r1 s o x : PegT true fam r1 s o x -> TBody A fam HEnable [r1] s o x
| B_action A fam fam' r1 s o x : PegT A fam' r1 s o x -> TBody A fam (HAction fam') [r1] s o x
| B_control A fam k r1 s o x : PegT A fam r1 s o x -> TBody A fam (HControl k) [r1] s o x
(* global failure *)
| B_must A fam r1 s o x : PegT A fam r1 s o x ->
    TBody A fam HMust [r1] s o (match x with TFail => TRaise | y => y end)
| B_raise A fam t s o : TBody A fam HRaise [t] s o TRaise
| B_ifm_ok A fam dflt cnd m s o s1 o1 l1 x : PegT A fam cnd s o (TOk s1 o1 l1) -> PegT A fam m s1 o1 x ->
    TBody A fam (HIfMust dflt) [cnd; m] s o (tcat l1 x)
| B_ifm_fail A fam dflt cnd m s o : PegT A fam cnd s o TFail ->
    TBody A fam (HIfMust dflt) [cnd; m] s o (if dflt then TOk s o [] else TFail)
| B_ifm_raise A fam dflt cnd m s o : PegT A fam cnd s o TRaise -> TBody A fam (HIfMust dflt) [cnd; m] s o TRaise
| B_try A fam flt r1 s o x : PegT A fam r1 s o x ->
    TBody A fam (HTryCatchFalse flt) [r1] s o
      (match x with TRaise => if catches_parse flt then TFail else TRaise | y => y end)

(* n-ary sequence *)
with TSeq : bool -> nat -> list rid -> list byte -> N -> tres -> Prop :=
| Ts_nil A fam s o : TSeq A fam [] s o (TOk s o [])
| Ts_ok A fam r rs s o s1 o1 l1 x : PegT A fam r s o (TOk s1 o1 l1) -> TSeq A fam rs s1 o1 x ->
    TSeq A fam (r :: rs) s o (tcat l1 x)
| Ts_nok A fam r rs s o x : PegT A fam r s o x -> nok x -> TSeq A fam (r :: rs) s o x

(* n-ary ordered choice: every alternative is tried on the SAME input; a failing alternative contributes nothing *)
with TSor : bool -> nat -> list rid -> list byte -> N -> tres -> Prop :=
| To_nil A fam s o : TSor A fam [] s o TFail
| To_stop A fam r rs s o x : PegT A fam r s o x -> x <> TFail -> TSor A fam (r :: rs) s o x
| To_next A fam r rs s o x : PegT A fam r s o TFail -> TSor A fam rs s o x -> TSor A fam (r :: rs) s o x

(* partial sequence: the maximal successful prefix; the flag says whether ALL rules matched *)
with TPar : bool -> nat -> list rid -> list byte -> N -> bool -> tres -> Prop :=
| Tp_nil A fam s o : TPar A fam [] s o true (TOk s o [])
| Tp_fail A fam r rs s o : PegT A fam r s o TFail -> TPar A fam (r :: rs) s o false (TOk s o [])
| Tp_raise A fam r rs s o : PegT A fam r s o TRaise -> TPar A fam (r :: rs) s o false TRaise
| Tp_ok A fam r rs s o s1 o1 l1 b x : PegT A fam r s o (TOk s1 o1 l1) -> TPar A fam rs s1 o1 b x ->
    TPar A fam (r :: rs) s o b (tcat l1 x)

(* star_partial: repeat the partial sequence while it matches completely *)
with TStar : bool -> nat -> list rid -> list byte -> N -> tres -> Prop :=
| Tt_step A fam rs s o s1 o1 l1 x : TPar A fam rs s o true (TOk s1 o1 l1) -> TStar A fam rs s1 o1 x ->
    TStar A fam rs s o (tcat l1 x)
| Tt_stop A fam rs s o x : TPar A fam rs s o false x -> TStar A fam rs s o x

with TUntil1 : bool -> nat -> rid -> list byte -> N -> tres -> Prop :=
| Tu1_stop A fam cnd s o x : PegT A fam cnd s o x -> x <> TFail -> TUntil1 A fam cnd s o x
| Tu1_eof A fam cnd o : PegT A fam cnd [] o TFail -> TUntil1 A fam cnd [] o TFail
| Tu1_skip A fam cnd b s o x : PegT A fam cnd (b :: s) o TFail -> TUntil1 A fam cnd s (o + 1) x ->
    TUntil1 A fam cnd (b :: s) o x

with TUntil2 : bool -> nat -> rid -> rid -> list byte -> N -> tres -> Prop :=
| Tu2_stop A fam cnd r1 s o x : PegT A fam cnd s o x -> x <> TFail -> TUntil2 A fam cnd r1 s o x
| Tu2_step A fam cnd r1 s o s1 o1 l1 x : PegT A fam cnd s o TFail -> PegT A fam r1 s o (TOk s1 o1 l1) ->
    TUntil2 A fam cnd r1 s1 o1 x -> TUntil2 A fam cnd r1 s o (tcat l1 x)
| Tu2_nok A fam cnd r1 s o x : PegT A fam cnd s o TFail -> PegT A fam r1 s o x -> nok x ->
    TUntil2 A fam cnd r1 s o x

(* up to k times, greedy *)
with TRepOpt : bool -> nat -> nat -> rid -> list byte -> N -> tres -> Prop :=
| Tr_zero A fam r1 s o : TRepOpt A fam O r1 s o (TOk s o [])
| Tr_fail A fam k r1 s o : PegT A fam r1 s o TFail -> TRepOpt A fam (S k) r1 s o (TOk s o [])
| Tr_raise A fam k r1 s o : PegT A fam r1 s o TRaise -> TRepOpt A fam (S k) r1 s o TRaise
| Tr_step A fam k r1 s o s1 o1 l1 x : PegT A fam r1 s o (TOk s1 o1 l1) -> TRepOpt A fam k r1 s1 o1 x ->
    TRepOpt A fam (S k) r1 s o (tcat l1 x)

with TSStrict : bool -> nat -> rid -> list rid -> list byte -> N -> tres -> Prop :=
| Tss_end A fam r1 rs s o : PegT A fam r1 s o TFail -> TSStrict A fam r1 rs s o (TOk s o [])
| Tss_raise A fam r1 rs s o : PegT A fam r1 s o TRaise -> TSStrict A fam r1 rs s o TRaise
| Tss_step A fam r1 rs s o s1 o1 l1 s2 o2 l2 x : PegT A fam r1 s o (TOk s1 o1 l1) ->
    TSeq A fam rs s1 o1 (TOk s2 o2 l2) -> TSStrict A fam r1 rs s2 o2 x ->
    TSStrict A fam r1 rs s o (tcat l1 (tcat l2 x))
| Tss_nok A fam r1 rs s o s1 o1 l1 x : PegT A fam r1 s o (TOk s1 o1 l1) -> TSeq A fam rs s1 o1 x -> nok x ->
    TSStrict A fam r1 rs s o x.

Scheme PegT_mind := Minimality for PegT Sort Prop
  with TBody_mind := Minimality for TBody Sort Prop
  with TSeq_mind := Minimality for TSeq Sort Prop
  with TSor_mind := Minimality for TSor Sort Prop
  with TPar_mind := Minimality for TPar Sort Prop
  with TStar_mind := Minimality for TStar Sort Prop
  with TUntil1_mind := Minimality for TUntil1 Sort Prop
  with TUntil2_mind := Minimality for TUntil2 Sort Prop
  with TRepOpt_mind := Minimality for TRepOpt Sort Prop
  with TSStrict_mind := Minimality for TSStrict Sort Prop.
Combined Scheme PegT_mutind from PegT_mind, TBody_mind, TSeq_mind, TSor_mind, TPar_mind, TStar_mind,
  TUntil1_mind, TUntil2_mind, TRepOpt_mind, TSStrict_mind.

(* ---------- the fragment: which tables the extended statement speaks about ---------- *)
(* the must< R > part of if_must: a must node that carries no action of its own (it can then never fail locally) *)
Definition must_plain (m : rid) : Prop :=
  exists nd r1, nth_error G m = Some nd /\ nhead nd = HMust /\ nsubs nd = [r1] /\ forall f, att f m = KNone.

Definition ta_node (nd : node) : Prop :=
  Forall (fun r1 => (r1 < length G)%nat) (nsubs nd) /\        (* closed: every sub-rule id is defined *)
  match nhead nd with
  | HSeq | HSor | HStarPartial | HPartial => True             (* any number of sub-rules *)
  | HPlus | HAt | HNotAt | HUntil1 | HRep _ | HRepOpt _ | HRepMinMax _ _ | HMust | HRaise
  | HTryCatchFalse _ | HAction _ | HControl _ | HEnable | HDisable => exists r1, nsubs nd = [r1]
  | HUntil2 => exists cnd r1, nsubs nd = [cnd; r1]
  | HIfThenElse => exists cnd t e, nsubs nd = [cnd; t; e]
  | HIfMust _ => exists cnd m, nsubs nd = [cnd; m] /\ must_plain m
  | HStrict | HStarStrict => exists r1 rs, nsubs nd = r1 :: rs
  | HRematch | HTryCatchNested _ | HState | HApply _ | HApply0 _ | HIfApply _ => False
  | h => nsubs nd = [] /\ exists a, atom_den h a              (* the atomic classes of Spec.v over char *)
  end.
Definition ta_table : Prop := forall r nd, nth_error G r = Some nd -> ta_node nd.

(* rep_min_max: the library skips the final not_at< R > when the rep_opt part stopped early (R has just failed
   there WITH the current apply mode); the reference evaluates not_at< R > with actions off.  The two agree when a
   failure of the repeated rule does not depend on the apply mode: *)
Definition rmm_sub (r1 : rid) : Prop :=
  exists r nd mn mx, nth_error G r = Some nd /\ nhead nd = HRepMinMax mn mx /\ nsubs nd = [r1].
Definition rmm_stable : Prop :=
  forall fam r1 s o, rmm_sub r1 -> PegT true fam r1 s o TFail -> PegT false fam r1 s o TFail.

End T.

(* ---------- basic facts ---------- *)
Lemma tcat_nil x : tcat [] x = x.
Proof. destruct x; reflexivity. Qed.
Lemma tcat_nil_r l s o : tcat l (TOk s o []) = TOk s o l.
Proof. simpl. rewrite app_nil_r. reflexivity. Qed.
Lemma tcat_tcat l1 l2 x : tcat l1 (tcat l2 x) = tcat (l1 ++ l2) x.
Proof. destruct x; simpl; [rewrite app_assoc|..]; reflexivity. Qed.
Lemma tcat_nok l x : nok x -> tcat l x = x.
Proof. destruct x; simpl; [contradiction|..]; reflexivity. Qed.
Lemma twrap_nok att vt A fam r o x : nok x -> twrap att vt A fam r o x = x.
Proof. destruct x; simpl; [contradiction|..]; reflexivity. Qed.
Lemma twrap_none att vt A fam r o x : att fam r = KNone -> twrap att vt A fam r o x = x.
Proof. intros H. destruct x; simpl; try reflexivity. rewrite H. destruct A; reflexivity. Qed.
Lemma twrap_off att vt fam r o x : twrap att vt false fam r o x = x.
Proof. destruct x; reflexivity. Qed.

(* a must node without an action never fails locally *)
Lemma must_plain_nofail G att vt m A fam s o : must_plain G att m -> ~ PegT G att vt A fam m s o TFail.
Proof.
  intros [nd [r1 [Hn [Hh [Hs Ha]]]]] H. remember TFail as y eqn:Ey.
  destruct H as [A fam r nd0 s o x Hn0 Hb].
  rewrite Hn in Hn0. inversion Hn0; subst nd0. rewrite (twrap_none att vt A fam r o x (Ha fam)) in Ey. subst x.
  rewrite Hh, Hs in Hb. inversion Hb; subst.
  match goal with E : match ?y with TFail => TRaise | _ => _ end = TFail |- _ => destruct y; discriminate E end.
Qed.
