(* ExtractC07.v — extraction of the buffer machine and the memory machine (property C07).
   ExtrOcamlBasic only: numbers stay Coq's positive/N/nat inductives. *)
From PegtlV Require Import Base BufferInput.
From Coq Require Import Extraction ExtrOcamlBasic.
Extraction Language OCaml.
Extraction "c07_model.ml" brun_ops mrun_ops binit0 minit require require_once.
