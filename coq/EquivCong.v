(* EquivCong.v — C09: documented expansions may be applied INSIDE any rule.
   urefines r1 r2: r1 refines r2 with a fixed fuel overhead (what every expansion theorem of EquivTable*.v establishes);
   it implies the refinement of Properties_C09, is reflexive and transitive, and is a CONGRUENCE for every head
   whose result does not name its sub-rule (all heads except must / raise / try_catch_raise_nested): two nodes with the same
   head over pairwise uniformly-equivalent sub-rules are uniformly equivalent. *)
From Coq Require Import Lia Bool.
From PegtlV Require Import Base Decode Grammar Engine EngineFacts AtomFacts Mono Equiv EquivFacts EquivEval EquivHeads EquivTable EquivHeads2 EquivTable2 EquivTableU.

Section Cong2.
Variable G : grammar.
Variable C : cfg.
Hypothesis HC : noact_cfg C.
Hypothesis HG : plain_table G.

Notation ecl := (ecl G C).
Notation node := (node G).

Notation urefines := (urefines G C).
Notation uequiv := (uequiv G C).

Lemma urefines_refl r : urefines r r.
Proof. exists 0. intros k. apply (ecl_cS G C HC HG). lia. Qed.
Lemma urefines_trans r1 r2 r3 : urefines r1 r2 -> urefines r2 r3 -> urefines r1 r3.
Proof.
  intros [a Ha] [b Hb]. exists (a + b). intros k. eapply cS_trans; [apply Ha|].
  replace (k + (a + b)) with (k + a + b) by lia. apply Hb.
Qed.
Lemma uequiv_refl r : uequiv r r. Proof. split; apply urefines_refl. Qed.
Lemma uequiv_sym r1 r2 : uequiv r1 r2 -> uequiv r2 r1. Proof. intros [A B]. split; assumption. Qed.
Lemma uequiv_trans r1 r2 r3 : uequiv r1 r2 -> uequiv r2 r3 -> uequiv r1 r3.
Proof. intros [A1 A2] [B1 B2]. split; eapply urefines_trans; eauto. Qed.

Lemma ule_weaken r1 r2 k' k'' : k' <= k'' -> (forall k, cS (ecl k r1) (ecl (k + k') r2)) -> forall k, cS (ecl k r1) (ecl (k + k'') r2).
Proof. intros L H k. eapply cS_trans; [apply H|]. apply (ecl_cS G C HC HG). lia. Qed.

Lemma F2_map_weaken k b b' : b <= b' -> forall l l' : list rid,
  Forall2 cS (map (ecl k) l) (map (ecl (k + b)) l') -> Forall2 cS (map (ecl k) l) (map (ecl (k + b')) l').
Proof.
  intros L. induction l as [|x l IH]; intros [|y l'] H; simpl in *; inversion H; subst; constructor.
  - eapply cS_trans; [eassumption|]. apply (ecl_cS G C HC HG). lia.
  - apply IH. assumption.
Qed.
Lemma F2_common subs1 subs2 : Forall2 urefines subs1 subs2 ->
  exists K', forall k, Forall2 cS (map (ecl k) subs1) (map (ecl (k + K')) subs2).
Proof.
  induction 1 as [|q q' l l' [a Ha] F [b IH]]; [exists 0; intros; constructor|].
  exists (Nat.max a b). intros k. simpl. constructor.
  - apply (ule_weaken q q' a); [lia | exact Ha].
  - apply (F2_map_weaken k b); [lia | apply IH].
Qed.

Lemma map_nofail k r nd dflt : nth_error G r = Some nd -> nhead nd = HIfMust dflt ->
  forall i, In i (tl (seq 0 (length (map (ecl k) (nsubs nd))))) -> nofail (lcl (map (ecl k) (nsubs nd))) i.
Proof.
  intros Hn Hh i Hi d c c' evs. destruct (HG r nd Hn) as [_ Hm]. specialize (Hm dflt Hh).
  rewrite map_length in Hi. unfold lcl. rewrite nth_error_map.
  destruct (nsubs nd) as [|q0 l] eqn:El; [simpl in Hi; contradiction|].
  simpl in Hi. apply in_seq in Hi. destruct i as [|j]; [lia|]. simpl.
  destruct (nth_error l j) as [q|] eqn:Eq; simpl.
  - apply (mustlike_nofail G C HC k q). apply Hm. simpl. eapply nth_error_In; eauto.
  - apply nth_error_None in Eq. lia.
Qed.

(* the congruence: same head (not naming its sub-rule), sub-rules pairwise related *)
Theorem urefines_cong p p' h subs1 subs2 :
  node p h subs1 -> node p' h subs2 -> names_sub h = false -> Forall2 urefines subs1 subs2 -> urefines p p'.
Proof.
  intros N1 N2 Hnm F. destruct (F2_common _ _ F) as [K' FK]. exists K'. intros [|k]; [intros ? ? ?; left; reflexivity|].
  destruct N1 as [nd1 [Hn1 [Hh1 Hs1]]]. destruct N2 as [nd2 [Hn2 [Hh2 Hs2]]].
  apply cS_trans with (g := c_node C k h (map (ecl k) subs1)).
  { apply (node_l G C HC HG k k p h subs1); [exists nd1; auto | exact Hnm | apply (F2_map_l G C HC HG); lia | right; lia]. }
  apply cS_trans with (g := c_node C (k + K') h (map (ecl (k + K')) subs2)).
  { apply c_node_cong; [lia | | exact Hnm | | apply FK].
    - destruct (HG p nd1 Hn1) as [Hp _]. rewrite Hh1 in Hp. exact Hp.
    - intros dflt Hd. rewrite <- Hs1. apply (map_nofail k p nd1 dflt Hn1). congruence. }
  replace (S k + K') with (S (k + K')) by lia.
  apply (node_r G C HC HG (k + K') (k + K') p' h subs2); [exists nd2; auto | exact Hnm | apply (F2_map_r G C HC HG); lia | right; lia |].
  intros dflt Hd. rewrite <- Hs2. apply (map_nofail (k + K') p' nd2 dflt Hn2). congruence.
Qed.

Lemma Forall2_and_l {A B} (P Q : A -> B -> Prop) l1 l2 : Forall2 (fun a b => P a b /\ Q a b) l1 l2 -> Forall2 P l1 l2.
Proof. induction 1 as [|a b l1 l2 [H _] F IH]; constructor; auto. Qed.
Lemma Forall2_and_r_flip {A B} (P : A -> B -> Prop) (Q : B -> A -> Prop) l1 l2 : Forall2 (fun a b => P a b /\ Q b a) l1 l2 -> Forall2 Q l2 l1.
Proof. induction 1 as [|a b l1 l2 [_ H] F IH]; constructor; auto. Qed.

Theorem uequiv_cong p p' h subs1 subs2 :
  node p h subs1 -> node p' h subs2 -> names_sub h = false -> Forall2 uequiv subs1 subs2 -> uequiv p p'.
Proof.
  intros N1 N2 Hnm F. split.
  - eapply urefines_cong; eauto. exact (Forall2_and_l _ _ _ _ F).
  - eapply urefines_cong; eauto. exact (Forall2_and_r_flip _ _ _ _ F).
Qed.

End Cong2.

(* ================= applications ================= *)
Section CongApps.
Variable G : grammar.
Variable C : cfg.
Hypothesis HC : noact_cfg C.
Hypothesis HG : plain_table G.
Hypothesis HW : table_wf G.

Notation ecl := (ecl G C).
Notation node := (node G).
Notation urefines := (urefines G C).
Notation uequiv := (uequiv G C).
Notation E := (eval G C).

(* list_must< R, S > (rule_t seq< R, star< S, must< R > > >)  ==  seq< R, star< if_must< S, R > > >: the expansion of
   if_must applied under star and seq, by congruence *)
Theorem list_must_utable r1 st1 sq r2 st2 im r s m :
  node r1 HSeq [r; st1] -> node st1 HStarPartial [sq] -> node sq HSeq [s; m] ->
  node r2 HSeq [r; st2] -> node st2 HStarPartial [im] -> node im (HIfMust false) [s; m] ->
  uequiv r1 r2.
Proof.
  intros N1 Nst1 Nsq N2 Nst2 Nim.
  assert (A : uequiv sq im).
  { apply uequiv_sym. apply (if_must_seq_utable G C HC HG HW im sq s m m Nim Nsq). apply (leq_refl G C HC HG). }
  assert (B : uequiv st1 st2).
  { apply (uequiv_cong G C HC HG st1 st2 HStarPartial [sq] [im] Nst1 Nst2 eq_refl). constructor; [exact A | constructor]. }
  apply (uequiv_cong G C HC HG r1 r2 HSeq [r; st1] [r; st2] N1 N2 eq_refl).
  constructor; [apply (uequiv_refl G C HC HG)|]. constructor; [exact B | constructor].
Qed.

(* a must< S > whose S cannot fail locally is S *)
Theorem must_transparent m u : node m HMust [u] -> (forall k, cnofail (ecl k u)) -> uequiv m u.
Proof.
  intros [nd [Hn [Hh Hs]]] NF. split.
  - exists 0. intros k. rewrite Nat.add_0_r. destruct k as [|k]; [intros ? ? ?; left; reflexivity|]. intros d1 d2 c.
    eapply sim_trans; [apply (eval_node_l G C HC _ _ k d1 m c nd Hn)|]. rewrite Hh, Hs.
    unfold eval_head. cbn [eval_atom]. unfold h_must.
    pose proof (eval_sim G C HC HG k (S k) (Nat.le_succ_diag_r k) (opt_ d1) d2 u c) as K.
    pose proof (NF k (opt_ d1) c) as NF1. unfold EquivTable.ecl in NF1 |- *.
    destruct K as [K|K]; [rewrite K; left; reflexivity|].
    destruct (E k (opt_ d1) u c) as [[| |x] c1 e1| |]; destruct (E (S k) d2 u c) as [[| |y] c2 e2| |]; simpl in K; try contradiction.
    + right. simpl. exact K.
    + exfalso. eapply NF1. reflexivity.
    + right. simpl. destruct K as [K _]. split; [exact K|]. destruct (flagx false (dM d1) (dM d2)); auto.
    + right. exact I.
  - exists 1. intros k d1 d2 c. replace (k + 1) with (S k) by lia.
    eapply sim_trans; [|apply (eval_node_r G C HC _ _ k d2 m c nd Hn)]. rewrite Hh, Hs.
    unfold eval_head. cbn [eval_atom]. unfold h_must.
    pose proof (eval_sim G C HC HG k k (le_n k) d1 (opt_ d2) u c) as K.
    pose proof (NF k d1 c) as NF1. unfold EquivTable.ecl in NF1 |- *.
    destruct K as [K|K]; [rewrite K; left; reflexivity|].
    destruct (E k d1 u c) as [[| |x] c1 e1| |]; destruct (E k (opt_ d2) u c) as [[| |y] c2 e2| |]; simpl in K; try contradiction.
    + right. simpl. exact K.
    + exfalso. eapply NF1. reflexivity.
    + right. simpl. destruct K as [K _]. split; [exact K|]. destruct (flagx false (dM d1) (dM d2)); auto.
    + right. exact I.
Qed.

(* if S cannot fail locally, if_must< R, S > == seq< R, S >  (the must<> never raises) *)
Theorem if_must_nofail_utable r1 r2 a u a2 m u2 :
  node r1 HSeq [a; u] -> node r2 (HIfMust false) [a2; m] -> node m HMust [u2] ->
  uequiv a a2 -> uequiv u u2 -> (forall k, cnofail (ecl k u2)) -> uequiv r1 r2.
Proof.
  intros N1 N2 Nm [Ha1 Ha2] [Hu1 Hu2] NF.
  destruct (must_transparent m u2 Nm NF) as [Hm1 Hm2].
  assert (NFm : forall k, cnofail (ecl k m)) by (intros k; eapply (must_sub_nofail G C HC HG); eauto).
  pose proof (urefines_trans G C _ _ _ Hu1 Hm2) as Hum. pose proof (urefines_trans G C _ _ _ Hm1 Hu2) as Hmu.
  destruct (F2_common G C HC HG [a; u] [a2; m] ltac:(repeat constructor; assumption)) as [K1 F1].
  destruct (F2_common G C HC HG [a2; m] [a; u] ltac:(repeat constructor; assumption)) as [K2 F2].
  split.
  - exists K1. intros [|k]; [intros ? ? ?; left; reflexivity|].
    apply cS_trans with (g := c_seq C [ecl k a; ecl k u]).
    { apply (node_l G C HC HG k 0 r1 HSeq [a; u]); [exact N1 | reflexivity | apply (F2_map_l G C HC HG k k [a; u]); lia | left; reflexivity]. }
    apply cS_trans with (g := c_seq C [ecl (k + K1) a2; ecl (k + K1) m]).
    { apply (c_node_cong C 0 0 HSeq); [apply le_n | exact I | reflexivity | discriminate | apply (F1 k)]. }
    apply cS_trans with (g := c_if_must C false (ecl (k + K1) a2) (ecl (k + K1) m)).
    { intros d1 d2 c. apply if_must_seq_B; [apply (ecl_cS G C HC HG); lia | apply (ecl_cS G C HC HG); lia | apply NFm | apply (ecl_crest G C HW)]. }
    replace (S k + K1) with (S (k + K1)) by lia.
    apply (node_r G C HC HG (k + K1) 0 r2 (HIfMust false) [a2; m]); [exact N2 | reflexivity | apply (F2_map_r G C HC HG (k + K1) (k + K1) [a2; m]); lia | left; reflexivity |].
    intros dflt _. apply lcl2_nofail. apply NFm.
  - exists K2. intros [|k]; [intros ? ? ?; left; reflexivity|].
    apply cS_trans with (g := c_if_must C false (ecl k a2) (ecl k m)).
    { apply (node_l G C HC HG k 0 r2 (HIfMust false) [a2; m]); [exact N2 | reflexivity | apply (F2_map_l G C HC HG k k [a2; m]); lia | left; reflexivity]. }
    apply cS_trans with (g := c_seq C [ecl k a2; ecl k m]).
    { intros d1 d2 c. apply if_must_seq_A; [apply (ecl_cS G C HC HG); lia | apply (ecl_cS G C HC HG); lia | apply NFm | apply (ecl_crest G C HW)]. }
    apply cS_trans with (g := c_seq C [ecl (k + K2) a; ecl (k + K2) u]).
    { apply (c_node_cong C 0 0 HSeq); [apply le_n | exact I | reflexivity | discriminate | apply (F2 k)]. }
    replace (S k + K2) with (S (k + K2)) by lia.
    apply (node_r G C HC HG (k + K2) 0 r1 HSeq [a; u]); [exact N1 | reflexivity | apply (F2_map_r G C HC HG (k + K2) (k + K2) [a; u]); lia | left; reflexivity | discriminate].
Qed.
End CongApps.
