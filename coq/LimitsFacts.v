(* LimitsFacts.v — C18, part 1: what one evaluation of a rule guarded by limit_depth / limit_bytes /
   check_bytes does, for every table, configuration, fuel, cursor (= every offset of every input).
   The guards are the match-level actions of Engine.action_match; `plain_of ... AKNone` is the rule's
   ordinary match (match.hpp + body), i.e. what TAO_PEGTL_NAMESPACE::match< Rule, A, M, Action, Control >
   called from inside limit_*::match evaluates. *)
From Coq Require Import Lia.
From PegtlV Require Import Base Decode Grammar Engine EngineFacts AtomFacts.

(* the rule's ordinary match at fuel f (the callee of every match-level action) *)
Definition plain_of (G : grammar) (C : cfg) (f : nat) (r : rid) (nd : node) (ak : akind) (d : dyn) (c : cursor) : result :=
  if nenabled nd then match_hpp C ak (eval_head C (eval G C f) f r (nhead nd) (nsubs nd)) d r c
  else eval_head C (eval G C f) f r (nhead nd) (nsubs nd) d c.

Lemma eval_guarded G C f d r c nd m :
  nth_error G r = Some nd -> acts C (dAct d) r = AKMatch m ->
  eval G C (S f) d r c =
  traced (dCtl d) r (dA d) (dM d) c (action_match (eval G C f) (plain_of G C f r nd AKNone) (nenabled nd) m d r c).
Proof. intros Hn Ha. simpl. rewrite Hn, Ha. reflexivity. Qed.

Lemma eval_unguarded G C f d r c nd :
  nth_error G r = Some nd -> (forall m, acts C (dAct d) r <> AKMatch m) ->
  eval G C (S f) d r c = traced (dCtl d) r (dA d) (dM d) c (plain_of G C f r nd (acts C (dAct d) r) d c).
Proof.
  intros Hn Ha. simpl. rewrite Hn. unfold plain_of.
  destruct (acts C (dAct d) r) as [| | |m] eqn:E; try reflexivity. exfalso. eapply Ha. reflexivity.
Qed.

Lemma plain_goodT G C f r nd ak d c :
  table_wf G -> nth_error G r = Some nd -> goodT (dM d) c (plain_of G C f r nd ak d c).
Proof.
  intros HG Hn. unfold plain_of, goodT.
  assert (Hh : forall d2 c2, good PT (dM d2) c2 (eval_head C (eval G C f) f r (nhead nd) (nsubs nd) d2 c2)).
  { intros d2 c2. apply (eval_head_good PT PT_refl PT_trans C head_wf).
    - intros n c0 c' H. eapply bump_scan_adv; eauto.
    - intros h c0 x m Hw H. eapply eval_atom_good; eauto.
    - intros d3 r3 c3. apply eval_goodT. exact HG.
    - eapply HG; eauto. }
  destruct (nenabled nd).
  - apply (match_hpp_good PT PT_refl). exact Hh.
  - apply Hh.
Qed.

(* ---------- limit_depth: one guarded entry ---------- *)
Theorem depth_entry_raises G C f d r c nd n :
  nth_error G r = Some nd -> acts C (dAct d) r = AKMatch (MLimitDepth n) -> nenabled nd = true ->
  (n < S (dDepth d))%nat ->
  eval G C (S f) d r c =
  Res (Exc (EParse WLimitDepth (cpos c))) c
      [EEnter (dCtl d) r (dA d) (dM d) (cpos c); ERaise (dCtl d) WLimitDepth (cpos c); EExit (dCtl d) r None (cpos c)].
Proof.
  intros Hn Ha He Hlt. rewrite (eval_guarded G C f d r c nd _ Hn Ha). simpl. rewrite He.
  apply Nat.ltb_lt in Hlt. rewrite Hlt. reflexivity.
Qed.

Theorem depth_entry_within G C f d r c nd n :
  nth_error G r = Some nd -> acts C (dAct d) r = AKMatch (MLimitDepth n) -> nenabled nd = true ->
  (S (dDepth d) <= n)%nat ->
  eval G C (S f) d r c =
  traced (dCtl d) r (dA d) (dM d) c (plain_of G C f r nd AKNone (set_depth d (S (dDepth d))) c).
Proof.
  intros Hn Ha He Hle. rewrite (eval_guarded G C f d r c nd _ Hn Ha). simpl. rewrite He.
  assert (E : (n <? S (dDepth d))%nat = false) by (apply Nat.ltb_ge; lia). rewrite E. reflexivity.
Qed.

Theorem depth_entry_disabled G C f d r c nd n :
  nth_error G r = Some nd -> acts C (dAct d) r = AKMatch (MLimitDepth n) -> nenabled nd = false ->
  eval G C (S f) d r c = traced (dCtl d) r (dA d) (dM d) c (plain_of G C f r nd AKNone d c).
Proof.
  intros Hn Ha He. rewrite (eval_guarded G C f d r c nd _ Hn Ha). simpl. rewrite He. reflexivity.
Qed.

(* ---------- limit_bytes ---------- *)
Definition window (n : nat) (c : cursor) : cursor := mkcur (firstn n (rest c)) (cpos c).
Definition beyond (n : nat) (c : cursor) : list byte := skipn n (rest c).
Definition widen (n : nat) (c c1 : cursor) : cursor := mkcur (rest c1 ++ beyond n c) (cpos c1).
Definition consumed (c c' : cursor) : nat := (length (rest c) - length (rest c'))%nat.

(* the whole of limit_bytes< n >::match in terms of the rule's ordinary match on the window *)
Definition lb_outcome (n : nat) (d : dyn) (c : cursor) (inner : result) : result :=
  match inner with
  | Res Ok c1 evs =>
      if in_empty c1 && (n <? length (rest c))%nat
      then Res (Exc (EParse WLimitBytes (cpos c1))) (widen n c c1) (evs ++ [ERaise (dCtl d) WLimitBytes (cpos c1)])
      else Res Ok (widen n c c1) evs
  | Res o c1 evs => Res o (widen n c c1) evs
  | y => y
  end.

Lemma is_nil_skipn (n : nat) (l : list byte) : negb (is_nil (skipn n l)) = (n <? length l)%nat.
Proof.
  revert l. induction n as [|n IH]; intros l; destruct l as [|b l]; simpl; try reflexivity. apply IH.
Qed.

Theorem bytes_eval G C f d r c nd n :
  nth_error G r = Some nd -> acts C (dAct d) r = AKMatch (MLimitBytes n) ->
  eval G C (S f) d r c =
  traced (dCtl d) r (dA d) (dM d) c (lb_outcome n d c (plain_of G C f r nd AKNone d (window n c))).
Proof.
  intros Hn Ha. rewrite (eval_guarded G C f d r c nd _ Hn Ha). f_equal. simpl. unfold lb_outcome, window, widen, beyond, raise_at.
  destruct (plain_of G C f r nd AKNone d {| rest := firstn n (rest c); cpos := cpos c |}) as [[| |e] c1 evs| |]; try reflexivity.
  rewrite is_nil_skipn. reflexivity.
Qed.

(* the inner evaluation lives in the window: all it returns is a suffix position of the first n bytes *)
Theorem bytes_window G C f d r c nd n o c1 evs :
  table_wf G -> nth_error G r = Some nd ->
  plain_of G C f r nd AKNone d (window n c) = Res o c1 evs ->
  exists pre, firstn n (rest c) = pre ++ rest c1 /\ (length pre + length (rest c1) <= n)%nat.
Proof.
  intros HG Hn H. pose proof (plain_goodT G C f r nd AKNone d (window n c) HG Hn) as Hg. rewrite H in Hg.
  assert (A : adv PT (window n c) c1).
  { destruct o; simpl in Hg; try exact Hg. destruct (dM d); [subst c1; apply adv_refl; exact PT_refl | exact Hg]. }
  destruct A as [pre [A _]]. simpl in A. exists pre. split; [exact A|].
  rewrite <- app_length, <- A. apply firstn_le_length.
Qed.

Lemma widen_suffix n c c1 pre : firstn n (rest c) = pre ++ rest c1 -> rest (widen n c c1) = skipn (length pre) (rest c).
Proof.
  intros H. unfold widen, beyond. simpl.
  rewrite <- (firstn_skipn n (rest c)) at 2. rewrite H, <- app_assoc.
  rewrite skipn_app, skipn_all, Nat.sub_diag. reflexivity.
Qed.

(* in EVERY outcome the guarded rule has consumed k <= n bytes and what remains is exactly the original
   input behind them: the logical end is the original one again (Ok, Fail, Exc alike), wherever c is *)
Theorem bytes_restored G C f d r c nd n o c' evs :
  table_wf G -> nth_error G r = Some nd -> acts C (dAct d) r = AKMatch (MLimitBytes n) ->
  eval G C (S f) d r c = Res o c' evs ->
  exists k, (k <= n)%nat /\ (k <= length (rest c))%nat /\ rest c' = skipn k (rest c).
Proof.
  intros HG Hn Ha H. rewrite (bytes_eval G C f d r c nd n Hn Ha) in H.
  destruct (plain_of G C f r nd AKNone d (window n c)) as [o1 c1 evs1| |] eqn:E; simpl in H; try discriminate.
  destruct (bytes_window G C f d r c nd n o1 c1 evs1 HG Hn E) as [pre [Hp Hl]].
  assert (Hc : rest c' = rest (widen n c c1)).
  { destruct o1; simpl in H; [destruct (in_empty c1 && (n <? length (rest c))%nat)|..]; simpl in H; inversion H; reflexivity. }
  exists (length pre). rewrite Hc. split; [lia|]. split; [|apply widen_suffix; exact Hp].
  assert (H0 : (length (firstn n (rest c)) <= length (rest c))%nat) by (rewrite firstn_length; lia).
  rewrite Hp, app_length in H0. lia.
Qed.

(* the raise: exactly when the rule succeeded having consumed the whole window while more input lies behind it;
   then it has consumed exactly n bytes *)
Theorem bytes_raise_iff G C f d r c nd n c1 evs :
  nth_error G r = Some nd -> acts C (dAct d) r = AKMatch (MLimitBytes n) ->
  plain_of G C f r nd AKNone d (window n c) = Res Ok c1 evs ->
  eval G C (S f) d r c =
  if in_empty c1 && (n <? length (rest c))%nat
  then Res (Exc (EParse WLimitBytes (cpos c1))) (widen n c c1)
           (EEnter (dCtl d) r (dA d) (dM d) (cpos c) :: (evs ++ [ERaise (dCtl d) WLimitBytes (cpos c1)]) ++ [EExit (dCtl d) r None (cpos c1)])
  else Res Ok (widen n c c1) (EEnter (dCtl d) r (dA d) (dM d) (cpos c) :: evs ++ [EExit (dCtl d) r (Some true) (cpos c1)]).
Proof.
  intros Hn Ha H. rewrite (bytes_eval G C f d r c nd n Hn Ha), H. simpl.
  destruct (in_empty c1 && (n <? length (rest c))%nat); reflexivity.
Qed.

Theorem bytes_raise_consumed_n G C f d r c nd n c1 evs :
  table_wf G -> nth_error G r = Some nd ->
  plain_of G C f r nd AKNone d (window n c) = Res Ok c1 evs ->
  in_empty c1 && (n <? length (rest c))%nat = true -> consumed c (widen n c c1) = n.
Proof.
  intros HG Hn H Hb. apply andb_true_iff in Hb. destruct Hb as [He Hl]. apply Nat.ltb_lt in Hl.
  destruct (bytes_window G C f d r c nd n Ok c1 evs HG Hn H) as [pre [Hp _]].
  unfold in_empty in He. destruct (rest c1) as [|b tl] eqn:Er; [|discriminate].
  unfold consumed, widen, beyond. simpl. rewrite Er. simpl. rewrite skipn_length. lia.
Qed.

(* no other outcome of the rule is changed, and none of them raises *)
Theorem bytes_other_outcomes G C f d r c nd n o c1 evs :
  nth_error G r = Some nd -> acts C (dAct d) r = AKMatch (MLimitBytes n) ->
  plain_of G C f r nd AKNone d (window n c) = Res o c1 evs -> o <> Ok ->
  eval G C (S f) d r c =
  Res o (widen n c c1) (EEnter (dCtl d) r (dA d) (dM d) (cpos c) :: evs ++ [EExit (dCtl d) r (okind o) (cpos c1)]).
Proof.
  intros Hn Ha H Ho. rewrite (bytes_eval G C f d r c nd n Hn Ha), H. destruct o; [congruence| |]; reflexivity.
Qed.

(* inspection: the bytes behind the window cannot influence the guarded rule — two inputs that agree on the
   position, on the first n bytes from the start of the match and on whether anything lies behind them give
   the same outcome, the same events and the same consumed part *)
Theorem bytes_tail_independent G C f d r c c2 nd n :
  nth_error G r = Some nd -> acts C (dAct d) r = AKMatch (MLimitBytes n) ->
  cpos c = cpos c2 -> firstn n (rest c) = firstn n (rest c2) ->
  (n <? length (rest c))%nat = (n <? length (rest c2))%nat ->
  match eval G C (S f) d r c, eval G C (S f) d r c2 with
  | Res o1 k1 e1, Res o2 k2 e2 =>
      o1 = o2 /\ e1 = e2 /\ cpos k1 = cpos k2 /\
      exists x, rest k1 = x ++ beyond n c /\ rest k2 = x ++ beyond n c2
  | Oof, Oof => True
  | Err, Err => True
  | _, _ => False
  end.
Proof.
  intros Hn Ha Hp Hw Ht.
  rewrite (bytes_eval G C f d r c nd n Hn Ha), (bytes_eval G C f d r c2 nd n Hn Ha).
  assert (W : window n c = window n c2) by (unfold window; rewrite Hp, Hw; reflexivity).
  rewrite <- W. unfold lb_outcome. rewrite <- Ht.
  destruct (plain_of G C f r nd AKNone d (window n c)) as [[| |e] c1 evs| |]; simpl; auto.
  - destruct (in_empty c1 && (n <? length (rest c))%nat); simpl; rewrite <- Hp; repeat split; eauto.
  - rewrite <- Hp. repeat split; eauto.
  - rewrite <- Hp. repeat split; eauto.
Qed.

(* transparency on inputs that fit: with at most n bytes left the guard changes nothing at all *)
Theorem bytes_transparent_short G C f d r c nd n :
  nth_error G r = Some nd -> acts C (dAct d) r = AKMatch (MLimitBytes n) -> (length (rest c) <= n)%nat ->
  eval G C (S f) d r c = traced (dCtl d) r (dA d) (dM d) c (plain_of G C f r nd AKNone d c).
Proof.
  intros Hn Ha Hl. rewrite (bytes_eval G C f d r c nd n Hn Ha). f_equal.
  assert (W : window n c = c) by (unfold window; rewrite firstn_all2 by exact Hl; apply cursor_eta).
  rewrite W. unfold lb_outcome.
  assert (E : (n <? length (rest c))%nat = false) by (apply Nat.ltb_ge; exact Hl).
  assert (Wd : forall c1, widen n c c1 = c1).
  { intros c1. unfold widen, beyond. rewrite skipn_all2 by exact Hl. rewrite app_nil_r. apply cursor_eta. }
  destruct (plain_of G C f r nd AKNone d c) as [[| |e] c1 evs| |]; try reflexivity; rewrite ?E, ?andb_false_r, Wd; reflexivity.
Qed.

(* ---------- check_bytes ---------- *)
Definition cb_outcome (n : nat) (c : cursor) (inner : result) : result :=
  match inner with
  | Res Ok c1 evs => if (n <? consumed c c1)%nat then Res (Exc (ECheckBytes (cpos c1))) c1 evs else Res Ok c1 evs
  | x => x
  end.

Theorem check_bytes_eval G C f d r c nd n :
  nth_error G r = Some nd -> acts C (dAct d) r = AKMatch (MCheckBytes n) ->
  eval G C (S f) d r c = traced (dCtl d) r (dA d) (dM d) c (cb_outcome n c (plain_of G C f r nd AKNone d c)).
Proof.
  intros Hn Ha. rewrite (eval_guarded G C f d r c nd _ Hn Ha). f_equal. simpl. unfold cb_outcome, consumed.
  destruct (plain_of G C f r nd AKNone d c) as [[| |e] c1 evs| |]; reflexivity.
Qed.

(* it throws iff the rule succeeded having consumed more than n bytes; everything else is untouched *)
Theorem check_bytes_iff G C f d r c nd n o c' evs :
  nth_error G r = Some nd -> acts C (dAct d) r = AKMatch (MCheckBytes n) ->
  eval G C (S f) d r c = Res o c' evs ->
  exists o1 evs1, plain_of G C f r nd AKNone d c = Res o1 c' evs1 /\
    ((o1 = Ok /\ (n < consumed c c')%nat /\ o = Exc (ECheckBytes (cpos c'))) \/
     (o1 = o /\ (o = Ok -> (consumed c c' <= n)%nat))) /\
    evs = EEnter (dCtl d) r (dA d) (dM d) (cpos c) :: evs1 ++ [EExit (dCtl d) r (okind o) (cpos c')].
Proof.
  intros Hn Ha H. rewrite (check_bytes_eval G C f d r c nd n Hn Ha) in H.
  destruct (plain_of G C f r nd AKNone d c) as [o1 c1 evs1| |]; simpl in H; try discriminate.
  destruct o1 as [| |e]; simpl in H.
  - destruct (n <? consumed c c1)%nat eqn:E; simpl in H; inversion H; subst; exists Ok, evs1; split; try reflexivity; split; try reflexivity.
    + left. apply Nat.ltb_lt in E. auto.
    + right. apply Nat.ltb_ge in E. auto.
  - inversion H; subst. exists Fail, evs1. split; [reflexivity|]. split; [right; split; [reflexivity | discriminate] | reflexivity].
  - inversion H; subst. exists (Exc e), evs1. split; [reflexivity|]. split; [right; split; [reflexivity | discriminate] | reflexivity].
Qed.
