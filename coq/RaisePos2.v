(* RaisePos2.v — C05, positions carried by exceptions, the atoms_tracked hypothesis of
   RaisePos.exn_tracked discharged for EVERY table whose heads are in PosFacts2.head_ok (the decidable
   class for which C06 proves the per-atom bump correctness): char / utf8 / uint8 / masked-uint8 one,
   not_one, range, not_range, ranges whose test cannot have matched the eol byte through an in-line bump,
   any over every well-formed decoder, string, istring, bytes, eof, bof, bol, everything, success, failure,
   require, discard, and eol / eolf under every policy except eol::cr_crlf.
   For such tables every position stored in an exception (must / raise / limit_* / check_bytes / raising
   failure hook / every level of a nested exception) is track(start position, consumed prefix). *)
From Coq Require Import Lia.
From PegtlV Require Import Base Decode Grammar Engine EngineFacts AtomFacts PosFacts PosFacts2 RaiseFacts RaisePos.
Local Open Scope N_scope.

Theorem table_ok_atoms_tracked C G : table_ok (ceol C) G -> atoms_tracked C G.
Proof.
  intros HG r nd c x m Hn Ha. eapply eval_atom_goodP; [eapply HG; exact Hn | exact Ha].
Qed.

Theorem exn_tracked_ok G C f d r c e c' evs : table_ok (ceol C) G -> eval G C f d r c = Res (Exc e) c' evs ->
  Forall (fun p => exists pre suf, rest c = pre ++ suf /\ p = track (eol_ch (ceol C)) (cpos c) pre) (exn_pos e).
Proof. intros HG. apply exn_tracked. apply table_ok_atoms_tracked. exact HG. Qed.

(* the new class contains the old one: a char-level table is head_ok under every eol policy *)
Lemma test_ok_char ch test : test_ok ch PkChar test = true.
Proof. unfold test_ok. simpl. destruct (test (Z.of_N ch)); reflexivity. Qed.

Theorem char_table_ok e G : char_table G -> table_ok e G.
Proof.
  intros HG r nd Hn. pose proof (HG r nd Hn) as Hc. unfold char_head in Hc.
  destruct (nhead nd); simpl; try reflexivity; try contradiction; subst pk; try apply test_ok_char; reflexivity.
Qed.

(* arithmetic reading of the statement (PosFacts2.track_spec): byte = start byte + |prefix|, line = start line +
   number of eol characters in the prefix, column = 1 + bytes since the last one (start column + |prefix| if none) *)
Theorem exn_tracked_ok_arith G C f d r c e c' evs : table_ok (ceol C) G -> eval G C f d r c = Res (Exc e) c' evs ->
  Forall (fun p => exists pre suf, rest c = pre ++ suf /\
            pbyte p = pbyte (cpos c) + N.of_nat (length pre) /\
            pline p = pline (cpos c) + N.of_nat (count_ch (eol_ch (ceol C)) pre) /\
            pcol p = match after_last (eol_ch (ceol C)) pre with
                     | Some s => 1 + N.of_nat (length s)
                     | None => pcol (cpos c) + N.of_nat (length pre)
                     end) (exn_pos e).
Proof.
  intros HG H. pose proof (exn_tracked_ok G C f d r c e c' evs HG H) as K.
  eapply Forall_impl; [|exact K]. intros p [pre [suf [H1 H2]]]. exists pre, suf. split; [exact H1|].
  subst p. apply track_spec.
Qed.

(* non-vacuity: eol under lf_crlf, istring, a utf8 range and must<> in one table;
   0: seq< 1, 2, 3, 4 >   1: eol   2: istring<'a','b'>   3: utf8::range< 0x80, 0x7ff >   4: must< 5 >   5: one<'x'> *)
Definition ok_G : grammar :=
  [ mknode HSeq [1; 2; 3; 4]%nat true; mknode HEol [] true; mknode (HIString [97; 98]) [] true;
    mknode (HRange true PkUtf8 128 2047) [] true; mknode HMust [5%nat] false; mknode (HOne true PkChar [120%Z]) [] true ].
Definition ok_C : cfg :=
  mkcfg EolLfCrlf (fun _ _ => AKNone) (fun _ _ _ _ => ARet true) (fun _ _ _ => ARet true) (fun _ => true) (fun _ _ => false).
Lemma ok_G_table_ok : table_ok (ceol ok_C) ok_G.
Proof.
  intros r nd H. do 6 (destruct r as [|r]; [simpl in H; inversion H; subst; vm_compute; reflexivity|]). destruct r; discriminate.
Qed.
(* "\r\nAb" + U+00E9 (c3 a9) + "y": the must raises at byte 6, line 2, column 5 *)
Example exn_tracked_ok_example :
  exists c' evs, run ok_G ok_C 10 (mkdyn true true 0 0 0) 0%nat [13; 10; 65; 98; 195; 169; 121] pos0
                 = Res (Exc (EParse (WRule 5%nat) (mkpos 6 2 5))) c' evs.
Proof. eexists. eexists. vm_compute. reflexivity. Qed.

Print Assumptions exn_tracked_ok.
Print Assumptions exn_tracked_ok_arith.
Print Assumptions char_table_ok.
