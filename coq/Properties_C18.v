(* Properties_C18.v — C18: depth and byte limits are enforced exactly and leave no residue.
   Statements only; proofs live in LimitsFacts.v (local behaviour of one guarded evaluation),
   LimitsLog.v / LimitsSim.v (generic log invariant and simulation), LimitsDepth.v (depth: RAII counter machine,
   transparency, completeness).  All statements quantify over every
   grammar table G, configuration C, fuel f, dynamic parameters d and cursor c (= every offset of
   every input, with every position record).
   End of file (LimitsRaise.v): C18_depth_raises / C18_depth_raise_is_outcome / C18_depth_exact — on tables
   without try_catch heads the guarded run ENDS in the depth error of the first exceeding entry (combining
   C18_depth_raises_partial with C05_propagation), and its outcome equals the unguarded one iff the nesting
   stays within the limits; C18_bytes_whole_run — every invocation frame of a limit_bytes< n > rule in the
   log of any run spans at most n bytes. *)
From PegtlV Require Import Base Decode Grammar Engine EngineFacts AtomFacts LimitsSpec LimitsFacts LimitsLog LimitsDepth.

(* ---------------- limit_bytes ---------------- *)

(* the guarded rule is evaluated on the window = the first n bytes from where its match starts *)
Theorem C18_bytes_window G C f d r c nd n o c1 evs :
  table_wf G -> nth_error G r = Some nd ->
  plain_of G C f r nd AKNone d (window n c) = Res o c1 evs ->
  exists pre, firstn n (rest c) = pre ++ rest c1 /\ (length pre + length (rest c1) <= n)%nat.
Proof. exact (bytes_window G C f d r c nd n o c1 evs). Qed.
Print Assumptions C18_bytes_window.

Theorem C18_bytes_eval G C f d r c nd n :
  nth_error G r = Some nd -> acts C (dAct d) r = AKMatch (MLimitBytes n) ->
  eval G C (S f) d r c =
  traced (dCtl d) r (dA d) (dM d) c (lb_outcome n d c (plain_of G C f r nd AKNone d (window n c))).
Proof. exact (bytes_eval G C f d r c nd n). Qed.
Print Assumptions C18_bytes_eval.

(* in every outcome at most n bytes are consumed and the remaining input is the original one behind them *)
Theorem C18_bytes_restored G C f d r c nd n o c' evs :
  table_wf G -> nth_error G r = Some nd -> acts C (dAct d) r = AKMatch (MLimitBytes n) ->
  eval G C (S f) d r c = Res o c' evs ->
  exists k, (k <= n)%nat /\ (k <= length (rest c))%nat /\ rest c' = skipn k (rest c).
Proof. exact (bytes_restored G C f d r c nd n o c' evs). Qed.
Print Assumptions C18_bytes_restored.

Theorem C18_bytes_raise G C f d r c nd n c1 evs :
  nth_error G r = Some nd -> acts C (dAct d) r = AKMatch (MLimitBytes n) ->
  plain_of G C f r nd AKNone d (window n c) = Res Ok c1 evs ->
  eval G C (S f) d r c =
  if in_empty c1 && (n <? length (rest c))%nat
  then Res (Exc (EParse WLimitBytes (cpos c1))) (widen n c c1)
           (EEnter (dCtl d) r (dA d) (dM d) (cpos c) :: (evs ++ [ERaise (dCtl d) WLimitBytes (cpos c1)]) ++ [EExit (dCtl d) r None (cpos c1)])
  else Res Ok (widen n c c1) (EEnter (dCtl d) r (dA d) (dM d) (cpos c) :: evs ++ [EExit (dCtl d) r (Some true) (cpos c1)]).
Proof. exact (bytes_raise_iff G C f d r c nd n c1 evs). Qed.
Print Assumptions C18_bytes_raise.

Theorem C18_bytes_raise_consumed_n G C f d r c nd n c1 evs :
  table_wf G -> nth_error G r = Some nd ->
  plain_of G C f r nd AKNone d (window n c) = Res Ok c1 evs ->
  in_empty c1 && (n <? length (rest c))%nat = true -> consumed c (widen n c c1) = n.
Proof. exact (bytes_raise_consumed_n G C f d r c nd n c1 evs). Qed.
Print Assumptions C18_bytes_raise_consumed_n.

Theorem C18_bytes_other_outcomes G C f d r c nd n o c1 evs :
  nth_error G r = Some nd -> acts C (dAct d) r = AKMatch (MLimitBytes n) ->
  plain_of G C f r nd AKNone d (window n c) = Res o c1 evs -> o <> Ok ->
  eval G C (S f) d r c =
  Res o (widen n c c1) (EEnter (dCtl d) r (dA d) (dM d) (cpos c) :: evs ++ [EExit (dCtl d) r (okind o) (cpos c1)]).
Proof. exact (bytes_other_outcomes G C f d r c nd n o c1 evs). Qed.
Print Assumptions C18_bytes_other_outcomes.

Theorem C18_bytes_tail_independent G C f d r c c2 nd n :
  nth_error G r = Some nd -> acts C (dAct d) r = AKMatch (MLimitBytes n) ->
  cpos c = cpos c2 -> firstn n (rest c) = firstn n (rest c2) ->
  (n <? length (rest c))%nat = (n <? length (rest c2))%nat ->
  match eval G C (S f) d r c, eval G C (S f) d r c2 with
  | Res o1 k1 e1, Res o2 k2 e2 =>
      o1 = o2 /\ e1 = e2 /\ cpos k1 = cpos k2 /\
      exists x, rest k1 = x ++ beyond n c /\ rest k2 = x ++ beyond n c2
  | Oof, Oof => True
  | Err, Err => True
  | _, _ => False
  end.
Proof. exact (bytes_tail_independent G C f d r c c2 nd n). Qed.
Print Assumptions C18_bytes_tail_independent.

Theorem C18_bytes_transparent G C f d r c nd n :
  nth_error G r = Some nd -> acts C (dAct d) r = AKMatch (MLimitBytes n) -> (length (rest c) <= n)%nat ->
  eval G C (S f) d r c = traced (dCtl d) r (dA d) (dM d) c (plain_of G C f r nd AKNone d c).
Proof. exact (bytes_transparent_short G C f d r c nd n). Qed.
Print Assumptions C18_bytes_transparent.

(* ---------------- check_bytes ---------------- *)
Theorem C18_check_bytes G C f d r c nd n o c' evs :
  nth_error G r = Some nd -> acts C (dAct d) r = AKMatch (MCheckBytes n) ->
  eval G C (S f) d r c = Res o c' evs ->
  exists o1 evs1, plain_of G C f r nd AKNone d c = Res o1 c' evs1 /\
    ((o1 = Ok /\ (n < consumed c c')%nat /\ o = Exc (ECheckBytes (cpos c'))) \/
     (o1 = o /\ (o = Ok -> (consumed c c' <= n)%nat))) /\
    evs = EEnter (dCtl d) r (dA d) (dM d) (cpos c) :: evs1 ++ [EExit (dCtl d) r (okind o) (cpos c')].
Proof. exact (check_bytes_iff G C f d r c nd n o c' evs). Qed.
Print Assumptions C18_check_bytes.

(* ---------------- limit_depth: one guarded entry ---------------- *)
Theorem C18_depth_entry_raises G C f d r c nd n :
  nth_error G r = Some nd -> acts C (dAct d) r = AKMatch (MLimitDepth n) -> nenabled nd = true ->
  (n < S (dDepth d))%nat ->
  eval G C (S f) d r c =
  Res (Exc (EParse WLimitDepth (cpos c))) c
      [EEnter (dCtl d) r (dA d) (dM d) (cpos c); ERaise (dCtl d) WLimitDepth (cpos c); EExit (dCtl d) r None (cpos c)].
Proof. exact (depth_entry_raises G C f d r c nd n). Qed.
Print Assumptions C18_depth_entry_raises.

Theorem C18_depth_entry_within G C f d r c nd n :
  nth_error G r = Some nd -> acts C (dAct d) r = AKMatch (MLimitDepth n) -> nenabled nd = true ->
  (S (dDepth d) <= n)%nat ->
  eval G C (S f) d r c =
  traced (dCtl d) r (dA d) (dM d) c (plain_of G C f r nd AKNone (set_depth d (S (dDepth d))) c).
Proof. exact (depth_entry_within G C f d r c nd n). Qed.
Print Assumptions C18_depth_entry_within.

(* ---------------- limit_depth: whole runs ----------------
   Fams  = the action families the run can be in (closed under action< > nodes and change_action attachments);
   lim r = Some n  iff rule r carries limit_depth< n > and has an enabled control, in every such family
           (active G C fam r);   strip_depth C = the same configuration without the depth guards. *)

(* RAII: the log of ANY guarded run, whatever its outcome (Ok, Fail, Exc), drives the counter machine of
   input_with_depth/depth_guard (++ at a guarded entry, -- at its exit by return or by exception) back to the
   value it started from, and is accepted by it: the depth error is raised exactly at — and only at — a guarded
   entry that would push the counter beyond the entered rule's limit, and that entry is left at once. *)
Theorem C18_depth_restored G C (Fams : nat -> Prop) (lim : rid -> option nat) :
  (forall r nd fam, nth_error G r = Some nd -> nhead nd = HAction fam -> Fams fam) ->
  (forall fam r fam', Fams fam ->
     acts C fam r = AKMatch (MChangeAction fam') \/ acts C fam r = AKMatch (MChangeActionAndState fam') -> Fams fam') ->
  (forall fam r, Fams fam -> active G C fam r = lim r) ->
  forall f d r c o c' evs, Fams (dAct d) -> eval G C f d r c = Res o c' evs ->
  mrun lim (MNormal (dDepth d)) evs = MNormal (dDepth d).
Proof. exact (depth_machine G C Fams lim). Qed.
Print Assumptions C18_depth_restored.

(* the enter/exit events of any set of rules are balanced in every log of every configuration *)
Theorem C18_depth_balanced G C lim f d r c o c' evs :
  eval G C f d r c = Res o c' evs -> forall j, cnt lim j evs = j.
Proof. exact (eval_balanced G C lim f d r c o c' evs). Qed.
Print Assumptions C18_depth_balanced.

(* a guarded run in which the guard never fires IS the unguarded run: same outcome, cursor, events *)
Theorem C18_depth_transparent G C f d d' r c o c' evs :
  same_but_depth d d' -> eval G C f d r c = Res o c' evs -> has_ld evs = false ->
  eval G (strip_depth C) f d' r c = Res o c' evs.
Proof. exact (depth_transparent G C f d d' r c o c' evs). Qed.
Print Assumptions C18_depth_transparent.

(* inputs needing at most the configured nesting parse as without the guard: if the counter machine stays within
   the limits on the UNGUARDED run's trace, the guarded run (started with counter k) gives the same result *)
Theorem C18_depth_within_limit G C (Fams : nat -> Prop) (lim : rid -> option nat) :
  (forall r nd fam, nth_error G r = Some nd -> nhead nd = HAction fam -> Fams fam) ->
  (forall fam r fam', Fams fam ->
     acts C fam r = AKMatch (MChangeAction fam') \/ acts C fam r = AKMatch (MChangeActionAndState fam') -> Fams fam') ->
  (forall fam r, Fams fam -> active G C fam r = lim r) ->
  forall f d r c k o c' evs, Fams (dAct d) ->
  eval G (strip_depth C) f d r c = Res o c' evs -> within lim k evs = true ->
  eval G C f (set_depth d k) r c = Res o c' evs.
Proof. exact (depth_complete G C Fams lim). Qed.
Print Assumptions C18_depth_within_limit.

(* deeper ones: if the unguarded run exceeds a limit, the guarded run raises the depth error (by C18_depth_restored:
   exactly at the first exceeding guarded entry).  PARTIAL with respect to the property text: that the run then ENDS
   in this parse_error unless a try_catch intervenes is general exception propagation (C05) and is not re-proved here;
   C18_depth_entry_raises gives the exception at the entry itself. *)
Theorem C18_depth_raises_partial G C (Fams : nat -> Prop) (lim : rid -> option nat) :
  (forall r nd fam, nth_error G r = Some nd -> nhead nd = HAction fam -> Fams fam) ->
  (forall fam r fam', Fams fam ->
     acts C fam r = AKMatch (MChangeAction fam') \/ acts C fam r = AKMatch (MChangeActionAndState fam') -> Fams fam') ->
  (forall fam r, Fams fam -> active G C fam r = lim r) ->
  forall f d r c k o0 c0 evs0 o1 c1 evs1, Fams (dAct d) ->
  eval G (strip_depth C) f d r c = Res o0 c0 evs0 -> within lim k evs0 = false ->
  eval G C f (set_depth d k) r c = Res o1 c1 evs1 -> has_ld evs1 = true.
Proof. exact (depth_exceeds G C Fams lim). Qed.
Print Assumptions C18_depth_raises_partial.

(* ---------------- Examples: the hypotheses are satisfiable on a concrete recursive table ---------------- *)
Definition ex_C := ex_cfg (AKMatch (MLimitDepth 2)) (AKMatch (MLimitBytes 2)).
Definition ex_fams (fam : nat) : Prop := fam = 9%nat.

Example C18_ex_uniform : forall fam r, ex_fams fam -> active ex_table ex_C fam r = ex_lim 2 r.
Proof. intros fam r ->. do 7 (destruct r as [|r]; [reflexivity|]). destruct r; reflexivity. Qed.
Print Assumptions C18_ex_uniform.

(* "()" : N0 is entered at nesting 1 and attempted (by opt< N0 >) at nesting 2 <= limit 2: identical to the unguarded run *)
Example C18_ex_depth_within :
  exists o c evs,
    run ex_table (strip_depth ex_C) 60 ex_dyn 0 [lp; rp] pos0 = Res o c evs /\ o = Ok /\ within (ex_lim 2) 0 evs = true /\
    run ex_table ex_C 60 ex_dyn 0 [lp; rp] pos0 = Res o c evs.
Proof.
  eexists. eexists. eexists. split; [vm_compute; reflexivity|]. split; [reflexivity|]. split; vm_compute; reflexivity.
Qed.
Print Assumptions C18_ex_depth_within.

(* "(())" : the third attempt of N0 (by the inner opt< N0 >, at byte 2) is at nesting 3 > limit 2: the unguarded run
   succeeds, the guarded one raises at byte 2 (the entry of the third level),
   and the counter machine accepts the log and is back at 0 *)
Example C18_ex_depth_exceeds :
  exists c0 evs0 c1 evs1,
    run ex_table (strip_depth ex_C) 60 ex_dyn 0 [lp; lp; rp; rp] pos0 = Res Ok c0 evs0 /\ within (ex_lim 2) 0 evs0 = false /\
    run ex_table ex_C 60 ex_dyn 0 [lp; lp; rp; rp] pos0 = Res (Exc (EParse WLimitDepth (mkpos 2 1 3))) c1 evs1 /\
    has_ld evs1 = true /\ mrun (ex_lim 2) (MNormal 0) evs1 = MNormal 0.
Proof.
  eexists. eexists. eexists. eexists. split; [vm_compute; reflexivity|]. split; [vm_compute; reflexivity|].
  split; [vm_compute; reflexivity|]. split; vm_compute; reflexivity.
Qed.
Print Assumptions C18_ex_depth_exceeds.

(* limit_bytes 2 on L = star< any > entered at byte 2: on "abc" it raises at byte 4 having consumed exactly 2 bytes and
   what remains is the original input behind them; on "ab" it succeeds *)
Example C18_ex_bytes_raise :
  exists evs,
    eval ex_table ex_C 60 ex_dyn 4 (mkcur [97; 98; 99]%N (mkpos 2 1 3)) =
      Res (Exc (EParse WLimitBytes (mkpos 4 1 5))) (mkcur [99%N] (mkpos 4 1 5)) evs.
Proof. eexists. vm_compute. reflexivity. Qed.
Print Assumptions C18_ex_bytes_raise.

Example C18_ex_bytes_fits :
  exists evs,
    eval ex_table ex_C 60 ex_dyn 4 (mkcur [97; 98]%N (mkpos 2 1 3)) = Res Ok (mkcur [] (mkpos 4 1 5)) evs.
Proof. eexists. vm_compute. reflexivity. Qed.
Print Assumptions C18_ex_bytes_fits.

Example C18_ex_check_bytes :
  exists evs,
    eval ex_table (ex_cfg AKNone (AKMatch (MCheckBytes 2))) 60 ex_dyn 4 (mkcur [97; 98; 99]%N (mkpos 2 1 3)) =
      Res (Exc (ECheckBytes (mkpos 5 1 6))) (mkcur [] (mkpos 5 1 6)) evs.
Proof. eexists. vm_compute. reflexivity. Qed.
Print Assumptions C18_ex_check_bytes.

(* ---------------- limit_depth: the depth error is the OUTCOME of the run (LimitsRaise.v) ----------------
   Supersedes C18_depth_raises_partial on tables without try_catch heads (RaiseFacts.no_catch; with a
   try_catch the error may legitimately be converted: the C05_try_catch theorems).  C18_depth_raises_partial +
   C05_propagation (the exception that reaches the top is the first one thrown, unchanged) + the RAII
   counter machine:  ends_in_depth_error C lim k p evs  says the guarded run's log is
       a prefix in which nothing is thrown and every guarded entry stays within its limit,
       the entry (at position p) of a guarded rule that would push the counter beyond its limit — the FIRST
       exceeding entry —, the raise at p, and nothing but unwinding afterwards. *)
From PegtlV Require Import RaiseFacts LimitsRaise.

Theorem C18_depth_raises G C (Fams : nat -> Prop) (lim : rid -> option nat) :
  no_catch G ->
  (forall r nd fam, nth_error G r = Some nd -> nhead nd = HAction fam -> Fams fam) ->
  (forall fam r fam', Fams fam ->
     acts C fam r = AKMatch (MChangeAction fam') \/ acts C fam r = AKMatch (MChangeActionAndState fam') -> Fams fam') ->
  (forall fam r, Fams fam -> active G C fam r = lim r) ->
  forall f d r c k o0 c0 evs0 o1 c1 evs1, Fams (dAct d) ->
  eval G (strip_depth C) f d r c = Res o0 c0 evs0 -> within lim k evs0 = false ->
  eval G C f (set_depth d k) r c = Res o1 c1 evs1 ->
  exists p, o1 = Exc (EParse WLimitDepth p) /\ ends_in_depth_error C lim k p evs1.
Proof. exact (depth_raises G C Fams lim). Qed.
Print Assumptions C18_depth_raises.

(* any guarded run (no unguarded companion needed) whose log contains the depth raise ends in it *)
Theorem C18_depth_raise_is_outcome G C (Fams : nat -> Prop) (lim : rid -> option nat) :
  no_catch G ->
  (forall r nd fam, nth_error G r = Some nd -> nhead nd = HAction fam -> Fams fam) ->
  (forall fam r fam', Fams fam ->
     acts C fam r = AKMatch (MChangeAction fam') \/ acts C fam r = AKMatch (MChangeActionAndState fam') -> Fams fam') ->
  (forall fam r, Fams fam -> active G C fam r = lim r) ->
  forall f d r c o c' evs, Fams (dAct d) -> eval G C f d r c = Res o c' evs -> has_ld evs = true ->
  exists p, o = Exc (EParse WLimitDepth p) /\ ends_in_depth_error C lim (dDepth d) p evs.
Proof. exact (raise_is_outcome G C Fams lim). Qed.
Print Assumptions C18_depth_raise_is_outcome.

(* exactness: the guarded run has the outcome of the unguarded run iff the nesting stays within the limits
   (then cursor and log agree too); otherwise it ends in the depth error of the first exceeding entry *)
Theorem C18_depth_exact G C (Fams : nat -> Prop) (lim : rid -> option nat) :
  no_catch G ->
  (forall r nd fam, nth_error G r = Some nd -> nhead nd = HAction fam -> Fams fam) ->
  (forall fam r fam', Fams fam ->
     acts C fam r = AKMatch (MChangeAction fam') \/ acts C fam r = AKMatch (MChangeActionAndState fam') -> Fams fam') ->
  (forall fam r, Fams fam -> active G C fam r = lim r) ->
  forall f d r c k o0 c0 evs0 o1 c1 evs1, Fams (dAct d) ->
  eval G (strip_depth C) f d r c = Res o0 c0 evs0 ->
  eval G C f (set_depth d k) r c = Res o1 c1 evs1 ->
  (o1 = o0 <-> within lim k evs0 = true) /\
  (within lim k evs0 = true -> c1 = c0 /\ evs1 = evs0) /\
  (within lim k evs0 = false -> exists p, o1 = Exc (EParse WLimitDepth p) /\ ends_in_depth_error C lim k p evs1).
Proof. exact (depth_exact G C Fams lim). Qed.
Print Assumptions C18_depth_exact.

(* the depth raise is never anywhere but right behind the entry that triggered it, at the same position *)
Theorem C18_depth_raise_behind_entry G C f d r c o c' evs :
  eval G C f d r c = Res o c' evs ->
  forall pre ctl p post, evs = pre ++ ERaise ctl WLimitDepth p :: post ->
    exists pre0 r0 a m, pre = pre0 ++ [EEnter ctl r0 a m p].
Proof. exact (eval_ld_behind_entry G C f d r c o c' evs). Qed.
Print Assumptions C18_depth_raise_behind_entry.

(* ---------------- limit_bytes: whole runs ----------------
   limb r = Some n  iff rule r carries limit_bytes< n >, in every family the run can be in.  wrun is the
   stack machine over the ghost invocation trace: an exit closes the innermost open invocation, never lies
   before its entry and — for a limit_bytes< n > rule — lies at most n bytes behind it.  The log of ANY run
   (every outcome) is accepted: every evaluation of a guarded rule anywhere in a run, however deeply nested,
   reads at most its window (C18_bytes_restored holds for every frame of the trace). *)
Theorem C18_bytes_whole_run G C (Fams : nat -> Prop) (limb : rid -> option nat) :
  table_wf G ->
  (forall r nd fam, nth_error G r = Some nd -> nhead nd = HAction fam -> Fams fam) ->
  (forall fam r fam', Fams fam ->
     acts C fam r = AKMatch (MChangeAction fam') \/ acts C fam r = AKMatch (MChangeActionAndState fam') -> Fams fam') ->
  (forall fam r, Fams fam -> lb_of (acts C fam r) = limb r) ->
  forall f d r c o c' evs, Fams (dAct d) -> eval G C f d r c = Res o c' evs ->
  wrun limb (Some []) evs = Some [].
Proof. exact (bytes_whole_run G C Fams limb). Qed.
Print Assumptions C18_bytes_whole_run.

(* the examples above satisfy the new hypotheses; the machine is not vacuous: it rejects a frame of the
   guarded rule L (limit_bytes 2) that spans 3 bytes *)
Example C18_ex_no_catch : no_catch ex_table /\ table_wf ex_table /\
  (forall fam r, ex_fams fam -> lb_of (acts ex_C fam r) = (fun r => if Nat.eqb r 4 then Some 2%nat else None) r) /\
  wrun (fun r => if Nat.eqb r 4 then Some 2%nat else None) (Some [])
       [EEnter 2 4 true true (mkpos 2 1 3); EExit 2 4 (Some true) (mkpos 5 1 6)] = None /\
  wrun (fun r => if Nat.eqb r 4 then Some 2%nat else None) (Some [])
       [EEnter 2 4 true true (mkpos 2 1 3); EExit 2 4 None (mkpos 4 1 5)] = Some [].
Proof.
  split; [|split; [|split; [|split; reflexivity]]].
  - intros r nd H. do 7 (destruct r as [|r]; [inversion H; subst; exact I|]). destruct r; discriminate H.
  - intros r nd H. do 7 (destruct r as [|r]; [inversion H; subst; simpl; exact I|]). destruct r; discriminate H.
  - intros fam r ->. do 7 (destruct r as [|r]; [reflexivity|]). destruct r; reflexivity.
Qed.
Print Assumptions C18_ex_no_catch.

Example C18_ex_depth_outcome :
  exists c1 evs1, run ex_table ex_C 60 ex_dyn 0 [lp; lp; rp; rp] pos0 = Res (Exc (EParse WLimitDepth (mkpos 2 1 3))) c1 evs1 /\
    wrun (fun r => if Nat.eqb r 4 then Some 2%nat else None) (Some []) evs1 = Some [].
Proof. eexists. eexists. split; vm_compute; reflexivity. Qed.
Print Assumptions C18_ex_depth_outcome.
