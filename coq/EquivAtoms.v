(* EquivAtoms.v — C09: documented expansions of atomic convenience rules: eolf == sor< eof, eol > (every eol policy),
   everything == until< eof, any >. *)
From Coq Require Import Lia Bool.
From PegtlV Require Import Base Decode Grammar Engine EngineFacts AtomFacts Mono Equiv EquivFacts EquivEval EquivHeads EquivTable EquivHeads2 EquivTable2.

(* when eol_match reports "no eol here", its size_is_zero flag is in_empty and the cursor is unchanged *)
Lemma eol_match_no e c z c' : eol_match e c = Some (false, z, c') -> z = in_empty c /\ c' = c.
Proof.
  unfold eol_match, in_empty, in_size.
  destruct (rest c) as [|a tl] eqn:Er; simpl.
  - intros H. inversion H. split; reflexivity.
  - assert (Y : forall n, option_map (fun c'0 : cursor => (true, false, c'0)) (bump_next_line n c) = Some (false, z, c') -> False).
    { intros n H. destruct (bump_next_line n c); simpl in H; inversion H. }
    assert (No : Some (false, false, c) = Some (false, z, c') -> z = false /\ c' = c) by (intros H; inversion H; split; reflexivity).
    destruct (peek_at c 0) as [a0|]; [|discriminate].
    destruct e.
    all: repeat match goal with
         | |- context [if ?b then _ else _] => destruct b
         | |- context [match peek_at ?cc 1 with _ => _ end] => destruct (peek_at cc 1); [|discriminate]
         end; intros H; try (exfalso; eapply Y; exact H); try (apply No; exact H); try discriminate.
Qed.
Lemma eol_match_empty e c : in_empty c = true -> eol_match e c = Some (false, true, c).
Proof. unfold eol_match, in_empty, in_size. destruct (rest c); [reflexivity | discriminate]. Qed.

Section Atoms.
Variable C : cfg.
Definition c_eolf : closure := c_node C 0 HEolf [].
Definition c_eol : closure := c_node C 0 HEol [].
Definition c_eof' : closure := c_node C 0 HEof [].
Definition c_everything : closure := c_node C 0 HEverything [].

Lemma eolf_sor d1 d2 c : oeq true true (c_eolf d1 c) (c_sor C [c_eof'; c_eol] d2 c).
Proof.
  rewrite sor2_unfold. unfold c_eolf, c_eof', c_eol, c_node, eval_head. cbn [eval_atom].
  destruct (in_empty c) eqn:Ee.
  - rewrite (eol_match_empty _ _ Ee). simpl. reflexivity.
  - destruct (eol_match (ceol C) c) as [[[b z] c']|] eqn:Em; simpl; [|exact I].
    destruct b; simpl; [reflexivity|]. destruct (eol_match_no _ _ _ _ Em) as [-> _]. rewrite Ee. simpl. reflexivity.
Qed.
Lemma eolf_A : cS c_eolf (c_sor C [c_eof'; c_eol]).
Proof. intros d1 d2 c. apply sim_tt_any. right. apply eolf_sor. Qed.
Lemma eolf_B : cS (c_sor C [c_eof'; c_eol]) c_eolf.
Proof. intros d1 d2 c. apply sim_tt_any. right. apply oeq_sym. apply eolf_sor. Qed.

(* everything = bump( size ) ; until< eof, any > = one byte at a time *)
Lemma bump_scan_S ch n c : bump_scan ch (S n) c = match bump_scan ch 1 c with Some c1 => bump_scan ch n c1 | None => None end.
Proof. simpl. destruct (rest c); reflexivity. Qed.
Lemma bump_scan_1_size ch c c1 : bump_scan ch 1 c = Some c1 -> in_size c = S (in_size c1).
Proof. unfold in_size. simpl. destruct (rest c) as [|b tl]; [discriminate|]. intros H. inversion H. reflexivity. Qed.

Lemma until_eof_any d : forall n c, in_size c < n ->
  exists evs, until2_loop (lcl [c_eof'; c_any C]) n d 0 1 c = prepend evs (ok_or_err (bump_scan (eol_ch (ceol C)) (in_size c) c)).
Proof.
  induction n as [|n IH]; intros c Hn; [lia|].
  cbn [until2_loop lcl nth_error]. unfold c_eof' at 1. unfold c_node, eval_head. cbn [eval_atom].
  destruct (in_empty c) eqn:Ee.
  - assert (in_size c = 0) as -> by (unfold in_empty, in_size in *; destruct (rest c); [reflexivity | discriminate]).
    exists []. reflexivity.
  - rewrite c_any_unfold, Ee.
    assert (Hs : 1 <= in_size c) by (unfold in_empty, in_size in *; destruct (rest c); [discriminate | simpl; lia]).
    destruct (bump_scan_some (eol_ch (ceol C)) 1 c Hs) as [c1 E1]. rewrite E1. cbn [ok_or_err].
    pose proof (bump_scan_1_size _ _ _ E1) as Hz. destruct (IH c1 ltac:(lia)) as [evs K]. rewrite K.
    rewrite Hz, bump_scan_S, E1. exists evs. destruct (bump_scan (eol_ch (ceol C)) (in_size c1) c1); reflexivity.
Qed.

Lemma everything_until d1 d2 c n : in_size c < n ->
  oeq true true (c_everything d1 c) (c_until2 C n c_eof' (c_any C) d2 c).
Proof.
  intros Hn. unfold c_until2, c_everything, c_node, eval_head. cbn [eval_atom length seq]. unfold h_until2.
  destruct (until_eof_any d2 n c Hn) as [evs K]. rewrite K.
  destruct (bump_scan (eol_ch (ceol C)) (in_size c) c); simpl; [reflexivity | exact I].
Qed.

Lemma until_everything d1 : forall n c,
  until2_loop (lcl [c_eof'; c_any C]) n d1 0 1 c = Oof \/
  exists evs, until2_loop (lcl [c_eof'; c_any C]) n d1 0 1 c = prepend evs (ok_or_err (bump_scan (eol_ch (ceol C)) (in_size c) c)).
Proof.
  intros n c. destruct (Nat.lt_ge_cases (in_size c) n) as [L|L].
  - right. apply until_eof_any. exact L.
  - (* not enough fuel: the loop runs out *)
    left. revert c L. induction n as [|n IH]; intros c L; [reflexivity|].
    cbn [until2_loop lcl nth_error]. unfold c_eof' at 1. unfold c_node, eval_head. cbn [eval_atom].
    destruct (in_empty c) eqn:Ee; [unfold in_empty, in_size in *; destruct (rest c); [simpl in L; lia | discriminate]|].
    rewrite c_any_unfold, Ee.
    assert (Hs : 1 <= in_size c) by lia.
    destruct (bump_scan_some (eol_ch (ceol C)) 1 c Hs) as [c1 E1]. rewrite E1. cbn [ok_or_err].
    pose proof (bump_scan_1_size _ _ _ E1) as Hz. rewrite (IH c1 ltac:(lia)). reflexivity.
Qed.
Lemma everything_B n : cS (c_until2 C n c_eof' (c_any C)) c_everything.
Proof.
  intros d1 d2 c. unfold c_until2, c_everything, c_node, eval_head. cbn [eval_atom length seq]. unfold h_until2.
  destruct (until_everything d1 n c) as [K|[evs K]]; rewrite K; [left; reflexivity|]. right.
  destruct (bump_scan (eol_ch (ceol C)) (in_size c) c); simpl; [reflexivity | exact I].
Qed.
End Atoms.

Section AtomsTable.
Variable G : grammar.
Variable C : cfg.
Hypothesis HC : noact_cfg C.
Hypothesis HG : plain_table G.

Notation ecl := (ecl G C).
Notation node := (node G).
Notation obs_equiv := (obs_equiv G C).
Notation node_l := (node_l G C HC HG).
Notation node_r := (node_r G C HC HG).
Notation ecl_cS := (ecl_cS G C HC HG).
Notation refines_of_cS := (refines_of_cS G C).
Ltac oof_case := intros ? ? ?; left; reflexivity.

(* ---------- eolf  ==  sor< eof, eol >  (every eol policy) ---------- *)
Theorem eolf_utable r1 r2 e l :
  node r1 HEolf [] -> node r2 HSor [e; l] -> node e HEof [] -> node l HEol [] -> uequiv G C r1 r2.
Proof.
  intros N1 N2 Ne Nl. split.
  - exists 1. intros [|k]; [oof_case|].
    apply cS_trans with (g := c_eolf C).
    { apply (node_l k 0 r1 HEolf [] []); [exact N1 | reflexivity | constructor | left; reflexivity]. }
    apply cS_trans with (g := c_sor C [c_eof' C; c_eol C]); [apply eolf_A|].
    replace (S k + 1) with (S (S k)) by lia.
    apply (node_r (S k) 0 r2 HSor [e; l]); [exact N2 | reflexivity | | left; reflexivity | discriminate].
    constructor; [|constructor; [|constructor]].
    + apply (node_r k 0 e HEof [] []); [exact Ne | reflexivity | constructor | left; reflexivity | discriminate].
    + apply (node_r k 0 l HEol [] []); [exact Nl | reflexivity | constructor | left; reflexivity | discriminate].
  - exists 0. intros [|[|k]]; [oof_case| |]; rewrite Nat.add_0_r.
    { apply cS_trans with (g := c_sor C [ecl 0 e; ecl 0 l]).
      { apply (node_l 0 0 r2 HSor [e; l]); [exact N2 | reflexivity | | left; reflexivity].
        repeat (constructor; [apply ecl_cS; lia|]). constructor. }
      intros d1 d2 c. left. reflexivity. }
    apply cS_trans with (g := c_sor C [c_eof' C; c_eol C]).
    { apply (node_l (S k) 0 r2 HSor [e; l]); [exact N2 | reflexivity | | left; reflexivity].
      constructor; [|constructor; [|constructor]].
      + apply (node_l k 0 e HEof [] []); [exact Ne | reflexivity | constructor | left; reflexivity].
      + apply (node_l k 0 l HEol [] []); [exact Nl | reflexivity | constructor | left; reflexivity]. }
    apply cS_trans with (g := c_eolf C); [apply eolf_B|].
    apply (node_r (S k) 0 r1 HEolf [] []); [exact N1 | reflexivity | constructor | left; reflexivity | discriminate].
Qed.

Theorem eolf_table r1 r2 e l :
  node r1 HEolf [] -> node r2 HSor [e; l] -> node e HEof [] -> node l HEol [] -> obs_equiv r1 r2.
Proof. intros. apply uequiv_obs_equiv. eapply eolf_utable; eassumption. Qed.

(* ---------- everything  ==  until< eof, any >  (the fuel the expansion needs grows with the input) ---------- *)
Theorem everything_table r1 r2 e a :
  node r1 HEverything [] -> node r2 HUntil2 [e; a] -> node e HEof [] -> node a (HAny PkChar) [] -> obs_equiv r1 r2.
Proof.
  intros N1 N2 Ne Na. split.
  - intros f d1 d2 c. destruct f as [|k]; [exists 0; left; reflexivity|].
    set (n := S (in_size c)). exists (S n).
    assert (K1 : cS (ecl (S k) r1) (c_everything C)).
    { apply (node_l k 0 r1 HEverything [] []); [exact N1 | reflexivity | constructor | left; reflexivity]. }
    assert (K3 : cS (c_until2 C n (c_eof' C) (c_any C)) (ecl (S n) r2)).
    { apply (node_r n n r2 HUntil2 [e; a]); [exact N2 | reflexivity | | right; lia | discriminate].
      constructor; [|constructor; [|constructor]].
      + apply (node_r (in_size c) 0 e HEof [] []); [exact Ne | reflexivity | constructor | left; reflexivity | discriminate].
      + apply (node_r (in_size c) 0 a (HAny PkChar) [] []); [exact Na | reflexivity | constructor | left; reflexivity | discriminate]. }
    pose proof (K1 d1 (req d2) c) as A1. pose proof (K3 (req d2) d2 c) as A3.
    pose proof (everything_until C (req d2) (req d2) c n ltac:(unfold n; lia)) as A2.
    unfold Sim in *. simpl in A1, A3.
    eapply sim_trans; [eapply sim_weaken; [| |exact A1]|].
    + unfold flagf. destruct (dM d1), (dM d2); simpl; auto.
    + discriminate.
    + eapply sim_trans; [right; eapply oeq_weaken; [| |exact A2]; auto|].
      eapply sim_weaken; [| |exact A3]; [unfold flagf; destruct (dM d1), (dM d2); simpl; auto | discriminate].
  - apply (refines_of_cS 0 1). intros K.
    apply cS_trans with (g := c_until2 C K (c_eof' C) (c_any C)).
    { destruct K as [|k1]; [oof_case|].
      apply (node_l k1 (S k1) r2 HUntil2 [e; a]); [exact N2 | reflexivity | | right; lia].
      destruct k1 as [|k2]; [repeat (constructor; [oof_case|]); constructor|].
      constructor; [|constructor; [|constructor]].
      + apply (node_l k2 0 e HEof [] []); [exact Ne | reflexivity | constructor | left; reflexivity].
      + apply (node_l k2 0 a (HAny PkChar) [] []); [exact Na | reflexivity | constructor | left; reflexivity]. }
    apply cS_trans with (g := c_everything C); [apply everything_B|].
    replace (K + 1) with (S K) by lia.
    apply (node_r K 0 r1 HEverything [] []); [exact N1 | reflexivity | constructor | left; reflexivity | discriminate].
Qed.
End AtomsTable.
