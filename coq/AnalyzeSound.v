(* AnalyzeSound.v — C11 stage B, part 1: the "consumes" verdict of the analysis is sound for the engine.
   If the analysis visits rule r without a problem and answers "consumes", then every successful match of r
   in Engine.eval strictly shortens the input.  (Safety property: induction on the fuel, no termination needed.) *)
From Coq Require Import Lia.
From PegtlV Require Import Base Decode Grammar Engine EngineFacts AtomFacts Mono Analyze AnalyzeFacts.

Definition len (c : cursor) : nat := length (rest c).
Lemma adv_len c c' : adv PT c c' -> len c' <= len c.
Proof. apply adv_length. Qed.

Ltac dres x := destruct x as [[| |?e] ?c ?evs| |].

(* heads whose trait is their own: not if_apply / until< Cond > (the trait of ANOTHER rule stored under the own name,
   handled by following eff) and not if_must (names rules that are not sub-rules of the node) *)
Definition head_direct (h : head) : bool :=
  match h with HIfApply _ | HUntil1 | HIfMust _ => false | _ => true end.
(* shape of if_must nodes as the compiler produces them: subs_t = < Cond, internal::must< Rules... > >, where
   internal::must< R > is the class must, internal::must< R1, R2, ... > is internal::seq< must< R1 >, must< R2 >, ... >,
   internal::must<> is success - all of them classes with enable_control = false (no action can veto them) *)
Definition plain_must (G : grammar) (m : rid) : bool :=
  match nth_error G m with
  | Some nd => negb (nenabled nd) && match nhead nd, nsubs nd with HMust, [_] => true | _, _ => false end
  | None => false
  end.
Definition must_helper_ok (G : grammar) (m : rid) : bool :=
  match nth_error G m with
  | Some nd => negb (nenabled nd) &&
      match nhead nd, nsubs nd with
      | HMust, [_] => true
      | HSeq, ms => forallb (plain_must G) ms
      | HSuccess, [] => true
      | _, _ => false
      end
  | None => false
  end.
Definition node_shape_ok (G : grammar) (nd : node) : bool :=
  match nhead nd, nsubs nd with
  | HIfMust _, [_; m] => must_helper_ok G m
  | HIfMust _, _ => false
  | _, _ => true
  end.
Definition table_shape_ok (G : grammar) : bool := forallb (node_shape_ok G) G.

(* ---------- height-indexed form of okw (for nested inversion) ---------- *)
Section Height.
Variable ent : aid -> entry.

Inductive okh : nat -> list aid -> aid -> bool -> Prop :=
| okh_node h stack n a : ~ In n stack -> okfh h (n :: stack) (ekind (ent n)) (esubs (ent n)) a ->
    okh (S h) stack n (match ekind (ent n) with KAny => true | KOpt => false | _ => a end)
with okfh : nat -> list aid -> akind -> list aid -> bool -> Prop :=
| okfh_seq_nil h stack t : t <> KSor -> okfh h stack t [] false
| okfh_seq_cons_t h stack t r rs : t <> KSor -> okh h stack r true -> okfh h stack t (r :: rs) true
| okfh_seq_cons_f h stack t r rs a : t <> KSor -> okh h stack r false -> okfh h stack t rs a -> okfh h stack t (r :: rs) a
| okfh_sor_nil h stack : okfh h stack KSor [] true
| okfh_sor_cons h stack r rs b a : okh h stack r b -> okfh h stack KSor rs a -> okfh h stack KSor (r :: rs) (b && a).

Scheme okh_ind2 := Induction for okh Sort Prop
with okfh_ind2 := Induction for okfh Sort Prop.

Lemma okh_mono : forall h stack n b, okh h stack n b -> forall h', h <= h' -> okh h' stack n b.
Proof.
  apply (okh_ind2
    (fun h stack n b _ => forall h', h <= h' -> okh h' stack n b)
    (fun h stack t subs a _ => forall h', h <= h' -> okfh h' stack t subs a)).
  - intros h stack n a Hn Hf IH h' Hle. destruct h' as [|h']; [lia|]. apply okh_node; [exact Hn | apply IH; lia].
  - intros; apply okfh_seq_nil; assumption.
  - intros h stack t r rs Ht Hr IHr h' Hle. apply okfh_seq_cons_t; auto.
  - intros h stack t r rs a Ht Hr IHr Hf IHf h' Hle. apply okfh_seq_cons_f; auto.
  - intros; apply okfh_sor_nil.
  - intros h stack r rs b a Hr IHr Hf IHf h' Hle. apply okfh_sor_cons; auto.
Qed.
Lemma okfh_mono h stack t subs a : okfh h stack t subs a -> forall h', h <= h' -> okfh h' stack t subs a.
Proof.
  intros H. induction H; intros h' Hle.
  - apply okfh_seq_nil; assumption.
  - apply okfh_seq_cons_t; [assumption | eapply okh_mono; eauto].
  - apply okfh_seq_cons_f; [assumption | eapply okh_mono; eauto | auto].
  - apply okfh_sor_nil.
  - apply okfh_sor_cons; [eapply okh_mono; eauto | auto].
Qed.

Lemma okw_okh : forall stack n b, okw ent stack n b -> exists h, okh h stack n b.
Proof.
  apply (okw_ind2 ent
    (fun stack n b _ => exists h, okh h stack n b)
    (fun stack t subs a _ => exists h, okfh h stack t subs a)).
  - intros stack n a Hn Hf [h IH]. exists (S h). apply okh_node; assumption.
  - intros stack t Ht. exists 0. apply okfh_seq_nil; assumption.
  - intros stack t r rs Ht Hr [h IH]. exists h. apply okfh_seq_cons_t; assumption.
  - intros stack t r rs a Ht Hr [h1 IH1] Hf [h2 IH2]. exists (max h1 h2).
    apply okfh_seq_cons_f; [assumption | eapply okh_mono; [exact IH1 | lia] | eapply okfh_mono; [exact IH2 | lia]].
  - intros stack. exists 0. apply okfh_sor_nil.
  - intros stack r rs b a Hr [h1 IH1] Hf [h2 IH2]. exists (max h1 h2).
    apply okfh_sor_cons; [eapply okh_mono; [exact IH1 | lia] | eapply okfh_mono; [exact IH2 | lia]].
Qed.

(* what a problem-free fold has visited *)
Lemma okfh_seq_struct h stack t : t <> KSor -> forall subs a, okfh h stack t subs a ->
  (a = false /\ forall r, In r subs -> okh h stack r false) \/
  (a = true /\ exists pre r post, subs = pre ++ r :: post /\ (forall x, In x pre -> okh h stack x false) /\ okh h stack r true).
Proof.
  intros Ht. induction subs as [|r rs IH]; intros a H; inversion H; subst; try congruence.
  - left. split; [reflexivity | intros r []].
  - right. split; [reflexivity|]. exists [], r, rs. split; [reflexivity|]. split; [intros x [] | assumption].
  - match goal with K : okfh h stack t rs a |- _ => destruct (IH a K) as [[-> Hall]|[-> [pre [r0 [post [E [Hpre Hr0]]]]]]] end.
    + left. split; [reflexivity|]. intros x [<-|Hx]; [assumption | auto].
    + right. split; [reflexivity|]. exists (r :: pre), r0, post. split; [rewrite E; reflexivity|].
      split; [intros x [<-|Hx]; [assumption | auto] | exact Hr0].
Qed.

Lemma okfh_sor_all h stack : forall subs a, okfh h stack KSor subs a ->
  forall r, In r subs -> exists b, okh h stack r b /\ (a = true -> b = true).
Proof.
  induction subs as [|r rs IH]; intros a H x Hx; [destruct Hx|]. inversion H; subst; try congruence.
  destruct Hx as [<-|Hx].
  - exists b. split; [assumption|]. intros E. apply andb_true_iff in E. tauto.
  - match goal with K : okfh h stack KSor rs ?a0 |- _ => destruct (IH a0 K x Hx) as [b' [Hb Hi]] end.
    exists b'. split; [exact Hb|]. intros E. apply andb_true_iff in E. tauto.
Qed.
End Height.

(* ---------- atoms that the trait calls "any" consume on success ---------- *)
Lemma bump_scan_len ch n : forall c c', bump_scan ch n c = Some c' -> len c = n + len c'.
Proof.
  induction n as [|n IH]; intros c c' H; simpl in H.
  - inversion H; subst. reflexivity.
  - destruct (rest c) as [|b tl] eqn:E; [discriminate|]. apply IH in H. unfold len in *. rewrite E. simpl in *. lia.
Qed.
Lemma drop_len n l tl : drop n l = Some tl -> length l = n + length tl.
Proof. intros H. destruct (drop_app n l tl H) as [pre [-> Hp]]. rewrite app_length. lia. Qed.
Lemma bump_in_line_len n c c' : bump_in_line n c = Some c' -> len c = n + len c'.
Proof.
  unfold bump_in_line. destruct (drop n (rest c)) as [tl|] eqn:E; [|discriminate]. intros H. inversion H; subst.
  unfold len. simpl. apply drop_len. exact E.
Qed.
Lemma bump_next_line_len n c c' : bump_next_line n c = Some c' -> len c = n + len c'.
Proof.
  unfold bump_next_line. destruct (drop n (rest c)) as [tl|] eqn:E; [|discriminate]. intros H. inversion H; subst.
  unfold len. simpl. apply drop_len. exact E.
Qed.
Lemma bump_help_len ch b n c c' evs : bump_help ch b n c = Res Ok c' evs -> len c = n + len c'.
Proof.
  unfold bump_help, ok_or_err. destruct b.
  - destruct (bump_scan ch n c) as [c1|] eqn:E; [|discriminate]. intros H. inversion H; subst. eapply bump_scan_len; eauto.
  - destruct (bump_in_line n c) as [c1|] eqn:E; [|discriminate]. intros H. inversion H; subst. eapply bump_in_line_len; eauto.
Qed.
Lemma ok_or_err_scan_len ch n c c' evs : ok_or_err (bump_scan ch n c) = Res Ok c' evs -> len c = n + len c'.
Proof.
  unfold ok_or_err. destruct (bump_scan ch n c) as [c1|] eqn:E; [|discriminate]. intros H. inversion H; subst. eapply bump_scan_len; eauto.
Qed.
Lemma peek_test_bump_cons ch pk test c c' evs : peek_wf pk -> peek_test_bump ch pk test c = Res Ok c' evs -> len c' < len c.
Proof.
  intros Hw. unfold peek_test_bump. pose proof (do_peek_safe pk c Hw) as H.
  destruct (do_peek pk c) as [|v n|]; simpl in H; [discriminate | | contradiction].
  destruct (test v); [|discriminate]. intros K. apply bump_help_len in K. lia.
Qed.
Lemma eol_match_len e c z c' : eol_match e c = Some (true, z, c') -> len c' < len c.
Proof.
  unfold eol_match. intros H.
  assert (Y : forall n, (1 <= n)%nat -> option_map (fun c'0 : cursor => (true, false, c'0)) (bump_next_line n c) = Some (true, z, c') -> len c' < len c).
  { intros n Hn K. destruct (bump_next_line n c) as [c1|] eqn:E; [|discriminate]. simpl in K. inversion K; subst. apply bump_next_line_len in E. lia. }
  destruct (Nat.eqb (in_size c) 0); [discriminate|].
  destruct (peek_at c 0) as [a|]; [|discriminate].
  destruct e.
  - destruct (a =? 10)%N; [eapply (Y 1%nat); [lia | exact H] | discriminate].
  - destruct (a =? 13)%N; [eapply (Y 1%nat); [lia | exact H] | discriminate].
  - destruct (1 <? in_size c)%nat; [|discriminate]. destruct (a =? 13)%N; [|discriminate].
    destruct (peek_at c 1) as [b|]; [|discriminate]. destruct (b =? 10)%N; [eapply (Y 2%nat); [lia | exact H] | discriminate].
  - destruct (a =? 10)%N; [eapply (Y 1%nat); [lia | exact H]|].
    destruct ((a =? 13)%N && (1 <? in_size c)%nat); [|discriminate].
    destruct (peek_at c 1) as [b|]; [|discriminate]. destruct (b =? 10)%N; [eapply (Y 2%nat); [lia | exact H] | discriminate].
  - destruct (a =? 13)%N; [|discriminate].
    destruct (1 <? in_size c)%nat; [|eapply (Y 1%nat); [lia | exact H]].
    destruct (peek_at c 1) as [b|]; [|discriminate]. destruct (b =? 10)%N; [eapply (Y 2%nat) | eapply (Y 1%nat)]; try lia; exact H.
Qed.

Lemma in_empty_false_len c : in_empty c = false -> 1 <= len c.
Proof. unfold in_empty, len. destruct (rest c); [discriminate | simpl; lia]. Qed.

Ltac brk R := repeat match type of R with
  | context[if ?b then _ else _] => destruct b; try discriminate R
  | context[match ?t with Some _ => _ | None => _ end] => destruct t; try discriminate R
  end.

Lemma atom_cons G self subs eol h c x c' evs : head_wf h -> eval_atom eol h c = Some x ->
  ekind (main_entry G self h subs) = KAny -> x = Res Ok c' evs -> len c' < len c.
Proof.
  intros Hw He Hk Hx. subst x.
  destruct h; cbn in Hk; try discriminate Hk; cbn [eval_atom] in He; try discriminate He.
  - (* eol *) destruct (eol_match eol c) as [[[[|] z] c1]|] eqn:E; inversion He; subst. eapply eol_match_len; eauto.
  - (* any *)
    assert (A : match do_peek pk c with POob => Err | PNone => Res Fail c [] | PSome _ n => ok_or_err (bump_scan (eol_ch eol) n c) end = Res Ok c' evs -> len c' < len c).
    { pose proof (do_peek_safe pk c Hw) as K. destruct (do_peek pk c) as [|v n|]; simpl in K; [discriminate | | contradiction].
      intros R. apply ok_or_err_scan_len in R. lia. }
    destruct pk; inversion He as [R]; try (apply A; exact R).
    destruct (in_empty c) eqn:Ee; [discriminate|]. apply (ok_or_err_scan_len (eol_ch eol) 1 c) in R. lia.
  - inversion He as [R]. eapply peek_test_bump_cons; eauto.
  - inversion He as [R]. eapply peek_test_bump_cons; eauto.
  - inversion He as [R]. eapply peek_test_bump_cons; eauto.
  - (* string *) destruct cs as [|b0 cs]; [cbn in Hk; discriminate Hk|]. injection He as R. brk R.
    apply bump_help_len in R. lia.
  - destruct cs as [|b0 cs]; [cbn in Hk; discriminate Hk|]. injection He as R. brk R.
    apply bump_help_len in R. lia.
  - (* bytes *) destruct n as [|n]; [cbn in Hk; discriminate Hk|]. injection He as R. brk R.
    apply (ok_or_err_scan_len (eol_ch eol) (S n) c) in R. lia.
Qed.

(* ---------- generic inversions ---------- *)
Lemma prepend_inv evs x o c e : prepend evs x = Res o c e -> exists e', x = Res o c e'.
Proof. destruct x as [o' c0 e0| |]; simpl; intros H; inversion H; subst. eexists; reflexivity. Qed.
Lemma traced_inv k r a m c0 x o c e : traced k r a m c0 x = Res o c e -> exists e', x = Res o c e'.
Proof. destruct x as [o' c1 e0| |]; simpl; intros H; inversion H; subst. eexists; reflexivity. Qed.
Lemma guard_ok_inv m s x c e : guard m s x = Res Ok c e -> x = Res Ok c e.
Proof. dres x; simpl; intros H; inversion H; subst; reflexivity. Qed.
Lemma st_scope_ok_inv b r c0 x c e : st_scope b r c0 x = Res Ok c e -> exists e', x = Res Ok c e'.
Proof. dres x; simpl; intros H; inversion H; subst. eexists; reflexivity. Qed.

Section EvFacts.
Variable C : cfg.
Variable ev : dyn -> rid -> cursor -> result.
Hypothesis Hgood : forall d r c, goodT (dM d) c (ev d r c).

Definition Cn (r : rid) : Prop := forall d c c' evs, ev d r c = Res Ok c' evs -> len c' < len c.

Lemma ev_le d r c c' evs : ev d r c = Res Ok c' evs -> len c' <= len c.
Proof. intros E. pose proof (Hgood d r c) as H. rewrite E in H. apply adv_len. exact H. Qed.
Lemma ev_fail_req d r c c' evs : dM d = true -> ev d r c = Res Fail c' evs -> c' = c.
Proof. intros Hd E. pose proof (Hgood d r c) as H. rewrite E, Hd in H. exact H. Qed.

Lemma seq_all_le d rs c c' evs : seq_all ev d rs c = Res Ok c' evs -> len c' <= len c.
Proof. intros E. pose proof (seq_all_good PT PT_refl PT_trans ev Hgood d rs c) as H. rewrite E in H. apply adv_len. exact H. Qed.

Lemma seq_all_cons d rs : (exists r, In r rs /\ Cn r) -> forall c c' evs, seq_all ev d rs c = Res Ok c' evs -> len c' < len c.
Proof.
  induction rs as [|r0 rs IH]; intros [r [Hin Hc]] c c' evs H; [destruct Hin|].
  simpl in H. unfold bind in H. destruct (ev d r0 c) as [[| |ex] c0 evs0| |] eqn:E1; try discriminate.
  apply prepend_inv in H. destruct H as [e' H].
  destruct Hin as [<-|Hin].
  - apply Hc in E1. apply seq_all_le in H. lia.
  - apply ev_le in E1. assert (len c' < len c0) by (eapply IH; eauto). lia.
Qed.

Lemma h_seq_ok_inv d rs c c' evs : h_seq ev d rs c = Res Ok c' evs -> exists d' evs', seq_all ev d' rs c = Res Ok c' evs'.
Proof.
  unfold h_seq. destruct rs as [|r1 [|r2 rs]].
  - intros H. apply guard_ok_inv in H. eauto.
  - intros H. exists d. simpl. unfold bind. rewrite H. simpl. eauto.
  - intros H. apply guard_ok_inv in H. eauto.
Qed.

Lemma sor_any_cons d rs : (forall r, In r rs -> Cn r) -> forall c c' evs, sor_any ev d rs c = Res Ok c' evs -> len c' < len c.
Proof.
  induction rs as [|r rs IH]; intros Hall c c' evs H; [discriminate|].
  destruct rs as [|r2 rs']; [simpl in H; eapply Hall; [left; reflexivity | exact H]|].
  change (sor_any ev d (r :: r2 :: rs') c) with
    (match ev (req d) r c with Res Fail c1 evs1 => prepend evs1 (sor_any ev d (r2 :: rs') c1) | x => x end) in H.
  destruct (ev (req d) r c) as [[| |ex] c0 evs0| |] eqn:E1; try discriminate.
  - inversion H; subst. eapply Hall; [left; reflexivity | exact E1].
  - apply ev_fail_req in E1; [|reflexivity]. subst c0. apply prepend_inv in H. destruct H as [e' H].
    eapply IH; [intros x Hx; apply Hall; right; exact Hx | exact H].
Qed.

Lemma star_loop_le n d rs c c' evs : star_loop ev n d rs c = Res Ok c' evs -> len c' <= len c.
Proof. intros E. pose proof (star_loop_ok PT PT_refl PT_trans ev Hgood n d rs c) as H. rewrite E in H. apply adv_len. exact H. Qed.

Lemma h_plus_cons n d r1 c c' evs : Cn r1 -> h_plus ev n d r1 c = Res Ok c' evs -> len c' < len c.
Proof.
  intros Hc. unfold h_plus, bind. destruct (ev d r1 c) as [[| |ex] c0 evs0| |] eqn:E1; try discriminate.
  intros H. apply prepend_inv in H. destruct H as [e' H]. apply star_loop_le in H. apply Hc in E1. lia.
Qed.

Lemma until2_cons n d cnd r : Cn cnd -> forall c c' evs, until2_loop ev n d cnd r c = Res Ok c' evs -> len c' < len c.
Proof.
  intros Hc. induction n as [|n IH]; intros c c' evs H; [discriminate|]. simpl in H.
  destruct (ev (req d) cnd c) as [[| |ex] c0 evs0| |] eqn:E1; try discriminate.
  - inversion H; subst. eapply Hc; eauto.
  - apply ev_fail_req in E1; [|reflexivity]. subst c0.
    destruct (ev (opt_ d) r c) as [[| |ex] c1 evs1| |] eqn:E2; try discriminate H; try (apply prepend_inv in H; destruct H as [e' H]; discriminate).
    apply prepend_inv in H. destruct H as [e' H]. apply IH in H. apply ev_le in E2. lia.
Qed.

Lemma rep_loop_le k d r c c' evs : dM d = false -> rep_loop ev k d r c = Res Ok c' evs -> len c' <= len c.
Proof. intros Hd E. pose proof (rep_loop_good PT PT_refl PT_trans ev Hgood k d r Hd c) as H. rewrite E in H. apply adv_len. exact H. Qed.
Lemma rep_loop_cons k d r c c' evs : Cn r -> dM d = false -> rep_loop ev (S k) d r c = Res Ok c' evs -> len c' < len c.
Proof.
  intros Hc Hd. simpl. unfold bind. destruct (ev d r c) as [[| |ex] c0 evs0| |] eqn:E1; try discriminate.
  intros H. apply prepend_inv in H. destruct H as [e' H]. apply rep_loop_le in H; [|exact Hd]. apply Hc in E1. lia.
Qed.

Lemma h_at_le inv d r1 c c' evs : h_at ev inv d r1 c = Res Ok c' evs -> len c' <= len c.
Proof. intros E. pose proof (h_at_good PT PT_refl ev Hgood inv d r1 c false) as H. rewrite E in H. apply adv_len. exact H. Qed.

Lemma h_rep_min_max_cons mn mx d r1 c c' evs : Cn r1 -> h_rep_min_max ev (S mn) mx d r1 c = Res Ok c' evs -> len c' < len c.
Proof.
  intros Hc H. unfold h_rep_min_max in H. apply guard_ok_inv in H. unfold bind in H.
  destruct (rep_loop ev (S mn) (opt_ d) r1 c) as [[| |ex] c1 evs1| |] eqn:E1; try discriminate.
  apply rep_loop_cons in E1; [|exact Hc | reflexivity].
  apply prepend_inv in H. destruct H as [e' H].
  pose proof (repopt_loop_ok PT PT_refl PT_trans ev Hgood (mx - S mn) d r1 c1) as K.
  destruct (repopt_loop ev (mx - S mn) d r1 c1) as [x b]. simpl in K.
  destruct x as [[| |ex] c2 evs2| |]; try discriminate; simpl in K; try contradiction.
  apply adv_len in K. destruct b.
  - apply prepend_inv in H. destruct H as [e2 H]. apply h_at_le in H. lia.
  - inversion H; subst. lia.
Qed.

Lemma h_if_then_else_cons d cnd t e c c' evs : (Cn cnd \/ Cn t) -> Cn e ->
  h_if_then_else ev d cnd t e c = Res Ok c' evs -> len c' < len c.
Proof.
  intros Hct He H. unfold h_if_then_else in H. apply guard_ok_inv in H.
  destruct (ev (req d) cnd c) as [[| |ex] c0 evs0| |] eqn:E1; try discriminate.
  - apply prepend_inv in H. destruct H as [e' H].
    destruct Hct as [Hc|Ht]; [apply Hc in E1; apply ev_le in H; lia | apply Ht in H; apply ev_le in E1; lia].
  - apply ev_fail_req in E1; [|reflexivity]. subst c0. apply prepend_inv in H. destruct H as [e' H]. eapply He; eauto.
Qed.

Lemma h_rematch_cons d hd rs c c' evs : Cn hd -> h_rematch ev d hd rs c = Res Ok c' evs -> len c' < len c.
Proof.
  intros Hc H. unfold h_rematch in H. destruct rs as [|r rs']; [eapply Hc; eauto|].
  destruct (ev (opt_ d) hd c) as [[| |ex] c1 evs1| |] eqn:E1; try discriminate.
  destruct (take (length (rest c) - length (rest c1)) (rest c)) as [span|]; [|discriminate].
  destruct (rematch_all ev (opt_ d) (r :: rs') (mkcur span (cpos c))) as [[| |ex] c2 evs2| |]; try discriminate.
  inversion H; subst. eapply Hc; eauto.
Qed.

Lemma h_must_ok_inv d r1 c c' evs : h_must ev d r1 c = Res Ok c' evs -> ev (opt_ d) r1 c = Res Ok c' evs.
Proof. unfold h_must, raise_at. destruct (ev (opt_ d) r1 c) as [[| |ex] c1 evs1| |]; intros H; try discriminate; exact H. Qed.
Lemma h_try_false_ok_inv f d r1 c c' evs : h_try_false ev f d r1 c = Res Ok c' evs -> ev (opt_ d) r1 c = Res Ok c' evs.
Proof.
  unfold h_try_false. destruct (ev (opt_ d) r1 c) as [[| |ex] c1 evs1| |]; intros H; try discriminate; try exact H.
  destruct (catches f ex); discriminate.
Qed.
Lemma h_try_nested_ok_inv f d r1 c c' evs : h_try_nested ev f d r1 c = Res Ok c' evs -> ev (opt_ d) r1 c = Res Ok c' evs.
Proof.
  unfold h_try_nested. destruct (ev (opt_ d) r1 c) as [[| |ex] c1 evs1| |]; intros H; try discriminate; try exact H.
  destruct (catches f ex); discriminate.
Qed.
End EvFacts.

(* ---------- the entries of a node, through eff ---------- *)
Section Table.
Variable G : grammar.

Lemma ent_main_eff (r : rid) h0 subs0 : eff G (eff_fuel G) r = Some (h0, subs0) -> aentry G (rl r) = main_entry G r h0 subs0.
Proof. intros H. unfold aentry, rl. rewrite H. reflexivity. Qed.
Lemma ent_syn_eff (r : rid) h0 subs0 k : eff G (eff_fuel G) r = Some (h0, subs0) -> aentry G (r, S k) = syn_entry G r h0 subs0 (S k).
Proof. intros H. unfold aentry. rewrite H. reflexivity. Qed.
Lemma ent_bad_eff (r : rid) : eff G (eff_fuel G) r = None -> aentry G (rl r) = e_bad r.
Proof. intros H. unfold aentry, rl. rewrite H. reflexivity. Qed.

Lemma shape_node r nd : table_shape_ok G = true -> nth_error G r = Some nd -> node_shape_ok G nd = true.
Proof.
  intros Hcov H. unfold table_shape_ok in Hcov. rewrite forallb_forall in Hcov. apply Hcov. eapply nth_error_In; eauto.
Qed.
End Table.
