(* EquivSpan.v — C09: rematch< R, S... > and minus< M, S > (the engine on any table) against the direct formalisation
   of their prose (EquivSpanSpec.v): soundness (every verdict of the engine is one the prose allows) and completeness
   (every verdict the prose determines is reached by the engine, in every mode). *)
From Coq Require Import Lia Bool.
From PegtlV Require Import Base Decode Grammar Engine EngineFacts AtomFacts Mono Equiv EquivFacts EquivEval EquivHeads EquivTable EquivSpanSpec.

Section Span.
Variable G : grammar.
Variable C : cfg.
Hypothesis HC : noact_cfg C.
Hypothesis HG : plain_table G.
Hypothesis HW : table_wf G.

Notation E := (eval G C).

(* a verdict reached in some mode at some fuel is reached in every mode at every larger fuel *)
Lemma Bs_lift r c o c' : Bs G C r c o c' ->
  exists f0, forall F d, f0 <= F -> exists c'' evs, E F d r c = Res o c'' evs /\ (o = Ok -> c'' = c').
Proof.
  intros [f [d0 [evs H]]]. exists f. intros F d HF.
  pose proof (eval_sim G C HC HG f F HF d0 d r c) as K. rewrite H in K. destruct K as [K|K]; [discriminate|].
  destruct o as [| |x]; dres (E F d r c); simpl in K; try contradiction.
  - subst. eexists; eexists; split; [reflexivity | auto].
  - eexists; eexists; split; [reflexivity | discriminate].
  - destruct K as [<- _]. eexists; eexists; split; [reflexivity | discriminate].
Qed.

Definition ok_at (e : callee) (d : dyn) (i2 : cursor) (s : rid) : Prop := exists c2 ev, e d s i2 = Res Ok c2 ev.

Lemma rematch_all_inv (e : callee) d i2 : forall rs o cx ex, rematch_all e d rs i2 = Res o cx ex ->
  (o = Ok /\ Forall (ok_at e d i2) rs) \/
  (o <> Ok /\ exists pre s post, rs = pre ++ s :: post /\ Forall (ok_at e d i2) pre /\ exists ev, e d s i2 = Res o cx ev).
Proof.
  induction rs as [|r rs IH]; intros o cx ex H; simpl in H.
  - inversion H; subst. left. split; [reflexivity | constructor].
  - destruct (e d r i2) as [[| |x] c1 e1| |] eqn:Er; try discriminate.
    + destruct (rematch_all e d rs i2) as [o2 c2 e2| |] eqn:Ea; simpl in H; try discriminate. inversion H; subst.
      destruct (IH o cx e2 eq_refl) as [[-> F]|[Ho [pre [s [post [-> [F Es]]]]]]].
      * left. split; [reflexivity|]. constructor; [exists c1, e1; exact Er | exact F].
      * right. split; [exact Ho|]. exists (r :: pre), s, post. split; [reflexivity|]. split; [constructor; [exists c1, e1; exact Er | exact F]|].
        exact Es.
    + inversion H; subst. right. split; [discriminate|]. exists [], r, rs. split; [reflexivity|]. split; [constructor | eexists; exact Er].
    + inversion H; subst. right. split; [discriminate|]. exists [], r, rs. split; [reflexivity|]. split; [constructor | eexists; exact Er].
Qed.

Lemma rematch_all_ok (e : callee) d i2 : forall rs, Forall (ok_at e d i2) rs -> exists ev, rematch_all e d rs i2 = Res Ok i2 ev.
Proof.
  induction 1 as [|r rs [c2 [ev Er]] F [ev2 IH]]; simpl; [eexists; reflexivity|].
  rewrite Er, IH. simpl. eexists; reflexivity.
Qed.
Lemma rematch_all_stop (e : callee) d i2 s post o cx ev : o <> Ok -> e d s i2 = Res o cx ev ->
  forall pre, Forall (ok_at e d i2) pre -> exists ev', rematch_all e d (pre ++ s :: post) i2 = Res o cx ev'.
Proof.
  intros Ho Es. induction 1 as [|r rs [c2 [ev2 Er]] F [ev3 IH]]; simpl.
  - rewrite Es. destruct o as [| |x]; [congruence | eexists; reflexivity | eexists; reflexivity].
  - rewrite Er, IH. simpl. eexists; reflexivity.
Qed.

Lemma Forall_lift span l : Forall (matches_on G C span) l ->
  exists f0, forall F d, f0 <= F -> Forall (ok_at (E F) d span) l.
Proof.
  induction 1 as [|s l [c2 Hs] F [f1 IH]]; [exists 0; intros; constructor|].
  destruct (Bs_lift s span Ok c2 Hs) as [f0 L]. exists (Nat.max f0 f1). intros F' d HF. constructor.
  - destruct (L F' d ltac:(lia)) as [c'' [evs [Ee _]]]. exists c'', evs. exact Ee.
  - apply IH. lia.
Qed.

Lemma span_take c c1 span : span_of c c1 = Some span ->
  exists bs, take (length (rest c) - length (rest c1)) (rest c) = Some bs /\ span = mkcur bs (cpos c).
Proof. unfold span_of. destruct (take _ (rest c)) as [bs|]; [|discriminate]. intros H. inversion H. eauto. Qed.

(* ---------- rematch< R, S, Ss... >: soundness ---------- *)
Theorem rematch_sound r1 hd s ss :
  node G r1 HRematch (hd :: s :: ss) ->
  forall f d c o c' evs, E f d r1 c = Res o c' evs -> rematch_spec G C hd (s :: ss) c o c'.
Proof.
  intros [nd [Hn [Hh Hs]]] f d c o c' evs H. destruct f as [|k]; [discriminate|].
  pose proof (eval_node_l G C HC true true k d r1 c nd Hn) as K. rewrite Hh, Hs, H in K.
  destruct K as [K|K]; [discriminate|]. unfold eval_head in K. cbn [eval_atom] in K. unfold h_rematch in K.
  destruct (E k (opt_ d) hd c) as [[| |x] c1 e1| |] eqn:Eh.
  - destruct (take (length (rest c) - length (rest c1)) (rest c)) as [bs|] eqn:Et; [|destruct o; contradiction].
    assert (Sp : span_of c c1 = Some (mkcur bs (cpos c))) by (unfold span_of; rewrite Et; reflexivity).
    assert (Bh : Bs G C hd c Ok c1) by (exists k, (opt_ d), e1; exact Eh).
    assert (Fm : forall l, Forall (ok_at (E k) (opt_ d) (mkcur bs (cpos c))) l -> Forall (matches_on G C (mkcur bs (cpos c))) l).
    { intros l. apply Forall_impl. intros q [c2 [ev Eq]]. exists c2, k, (opt_ d), ev. exact Eq. }
    destruct (rematch_all (E k) (opt_ d) (s :: ss) (mkcur bs (cpos c))) as [[| |y] c2 e2| |] eqn:Er.
    + destruct o; simpl in K; try contradiction. subst c'.
      destruct (rematch_all_inv (E k) (opt_ d) _ _ _ _ _ Er) as [[_ F]|[Ho _]]; [|congruence].
      eapply RS_ok; eauto.
    + destruct o; simpl in K; try contradiction. subst c'.
      destruct (rematch_all_inv (E k) (opt_ d) _ _ _ _ _ Er) as [[Ho _]|[_ [pre [q [post [Hl [F [ev Eq]]]]]]]]; [discriminate|].
      eapply RS_sub_fail; eauto. exists k, (opt_ d), ev. exact Eq.
    + destruct o; simpl in K; try contradiction. destruct K as [<- <-].
      destruct (rematch_all_inv (E k) (opt_ d) _ _ _ _ _ Er) as [[Ho _]|[_ [pre [q [post [Hl [F [ev Eq]]]]]]]]; [discriminate|].
      eapply RS_sub_exc; eauto. exists k, (opt_ d), ev. exact Eq.
    + destruct o; contradiction.
    + destruct o; contradiction.
  - destruct o; simpl in K; try contradiction. subst c'. eapply RS_head_fail. exists k, (opt_ d), e1. exact Eh.
  - destruct o; simpl in K; try contradiction. destruct K as [<- <-]. eapply RS_head_exc. exists k, (opt_ d), e1. exact Eh.
  - destruct o; contradiction.
  - destruct o; contradiction.
Qed.

(* ---------- rematch< R, S, Ss... >: completeness ---------- *)
Theorem rematch_complete r1 hd s ss :
  node G r1 HRematch (hd :: s :: ss) ->
  forall c o c', rematch_spec G C hd (s :: ss) c o c' -> forall d, exists f evs, E f d r1 c = Res o c' evs.
Proof.
  intros [nd [Hn [Hh Hs]]] c o c' R d.
  assert (Fin : forall F x, h_rematch (E F) d hd (s :: ss) c = Res o c' x -> exists f evs, E f d r1 c = Res o c' evs).
  { intros F x Hx. exists (S F).
    pose proof (eval_node_r G C HC true true F d r1 c nd Hn) as K. rewrite Hh, Hs in K.
    unfold eval_head in K. cbn [eval_atom] in K. rewrite Hx in K. destruct K as [K|K]; [discriminate|].
    destruct o as [| |y]; dres (E (S F) d r1 c); simpl in K; try contradiction.
    - subst. eexists; reflexivity.
    - subst. eexists; reflexivity.
    - destruct K as [<- <-]. eexists; reflexivity. }
  unfold h_rematch in Fin.
  destruct R as [c1 span Bh Sp Fa | cf Bh | e cf Bh | c1 span pre q post c2 Bh Sp Hl Fa Bq | c1 span pre q post e c2 Bh Sp Hl Fa Bq].
  - destruct (Bs_lift hd c Ok c1 Bh) as [f0 L]. destruct (Forall_lift span (s :: ss) Fa) as [f1 L1].
    destruct (L (Nat.max f0 f1) (opt_ d) ltac:(lia)) as [c'' [e1 [Eh Hc]]]. rewrite (Hc eq_refl) in Eh.
    destruct (span_take c c1 span Sp) as [bs [Et ->]].
    destruct (rematch_all_ok (E (Nat.max f0 f1)) (opt_ d) _ _ (L1 (Nat.max f0 f1) (opt_ d) ltac:(lia))) as [ev Ea].
    eapply (Fin (Nat.max f0 f1)). rewrite Eh, Et, Ea. reflexivity.
  - destruct (Bs_lift hd c Fail cf Bh) as [f0 L]. destruct (L f0 (opt_ d) (le_n _)) as [c'' [e1 [Eh _]]].
    eapply (Fin f0). rewrite Eh. reflexivity.
  - destruct (Bs_lift hd c (Exc e) cf Bh) as [f0 L]. destruct (L f0 (opt_ d) (le_n _)) as [c'' [e1 [Eh _]]].
    eapply (Fin f0). rewrite Eh. reflexivity.
  - destruct (Bs_lift hd c Ok c1 Bh) as [f0 L]. destruct (Forall_lift span pre Fa) as [f1 L1]. destruct (Bs_lift q span Fail c2 Bq) as [f2 L2].
    set (F := Nat.max f0 (Nat.max f1 f2)).
    destruct (L F (opt_ d) ltac:(unfold F; lia)) as [c'' [e1 [Eh Hc]]]. rewrite (Hc eq_refl) in Eh.
    destruct (span_take c c1 span Sp) as [bs [Et ->]].
    destruct (L2 F (opt_ d) ltac:(unfold F; lia)) as [cq [eq_ [Eq _]]].
    destruct (rematch_all_stop (E F) (opt_ d) _ q post Fail cq eq_ ltac:(discriminate) Eq pre (L1 F (opt_ d) ltac:(unfold F; lia))) as [ev Ea].
    eapply (Fin F). rewrite Eh, Et, Hl, Ea. reflexivity.
  - destruct (Bs_lift hd c Ok c1 Bh) as [f0 L]. destruct (Forall_lift span pre Fa) as [f1 L1]. destruct (Bs_lift q span (Exc e) c2 Bq) as [f2 L2].
    set (F := Nat.max f0 (Nat.max f1 f2)).
    destruct (L F (opt_ d) ltac:(unfold F; lia)) as [c'' [e1 [Eh Hc]]]. rewrite (Hc eq_refl) in Eh.
    destruct (span_take c c1 span Sp) as [bs [Et ->]].
    destruct (L2 F (opt_ d) ltac:(unfold F; lia)) as [cq [eq_ [Eq _]]].
    destruct (rematch_all_stop (E F) (opt_ d) _ q post (Exc e) cq eq_ ltac:(discriminate) Eq pre (L1 F (opt_ d) ltac:(unfold F; lia))) as [ev Ea].
    eapply (Fin F). rewrite Eh, Et, Hl, Ea. reflexivity.
Qed.

(* ---------- verdicts are unique: same kind (same exception), same cursor after success ---------- *)
Lemma Bs_det r c o1 c1 o2 c2 : Bs G C r c o1 c1 -> Bs G C r c o2 c2 -> o1 = o2 /\ (o1 = Ok -> c1 = c2).
Proof.
  intros [f1 [d1 [e1 H1]]] [f2 [d2 [e2 H2]]].
  destruct (Nat.le_ge_cases f1 f2) as [L|L].
  - pose proof (eval_sim G C HC HG f1 f2 L d1 d2 r c) as K. rewrite H1, H2 in K. destruct K as [K|K]; [discriminate|].
    destruct o1, o2; simpl in K; try contradiction; try (split; [reflexivity|]; auto; discriminate).
    destruct K as [<- _]. split; [reflexivity | discriminate].
  - pose proof (eval_sim G C HC HG f2 f1 L d2 d1 r c) as K. rewrite H1, H2 in K. destruct K as [K|K]; [discriminate|].
    destruct o1, o2; simpl in K; try contradiction; try (split; [reflexivity|]; auto; discriminate).
    destruct K as [<- _]. split; [reflexivity | discriminate].
Qed.

(* ---------- not_at< S, eof > on a sub-input ---------- *)
Definition c_eof : closure := c_node C 0 HEof [].
Definition NA (fs : closure) : closure := c_not C (c_seq C [fs; c_eof]).
Lemma NA_unfold fs d c :
  NA fs d c = look true c (guard false c (bind (fs (set_A (opt_ d) false) c) (fun c1 =>
                 bind (Res (if in_empty c1 then Ok else Fail) c1 []) (fun c2 => Res Ok c2 [])))).
Proof. reflexivity. Qed.

Section Minus.
Variables na sq s e : rid.
Hypothesis Nna : node G na HNotAt [sq].
Hypothesis Nsq : node G sq HSeq [s; e].
Hypothesis Ne : node G e HEof [].

Notation ecl := (ecl G C).
Lemma na_l K : cS (ecl K na) (NA (ecl K s)).
Proof.
  assert (L : forall j q, j <= K -> cS (ecl j q) (ecl K q)) by (intros; apply (ecl_cS G C HC HG); assumption).
  unfold NA. destruct K as [|k1]; [intros ? ? ?; left; reflexivity|].
  apply (node_l G C HC HG k1 0 na HNotAt [sq]); [exact Nna | reflexivity | | left; reflexivity].
  constructor; [|constructor]. destruct k1 as [|k2]; [intros ? ? ?; left; reflexivity|].
  apply (node_l G C HC HG k2 0 sq HSeq [s; e]); [exact Nsq | reflexivity | | left; reflexivity].
  constructor; [apply L; lia|]. constructor; [|constructor]. destruct k2 as [|k3]; [intros ? ? ?; left; reflexivity|].
  apply (node_l G C HC HG k3 0 e HEof [] []); [exact Ne | reflexivity | constructor | left; reflexivity].
Qed.
Lemma na_r K : cS (NA (ecl K s)) (ecl (S (S (S K))) na).
Proof.
  unfold NA.
  apply (node_r G C HC HG (S (S K)) 0 na HNotAt [sq]); [exact Nna | reflexivity | | left; reflexivity | discriminate].
  constructor; [|constructor].
  apply (node_r G C HC HG (S K) 0 sq HSeq [s; e]); [exact Nsq | reflexivity | | left; reflexivity | discriminate].
  constructor; [apply (ecl_cS G C HC HG); lia|]. constructor; [|constructor].
  apply (node_r G C HC HG K 0 e HEof [] []); [exact Ne | reflexivity | constructor | left; reflexivity | discriminate].
Qed.

Lemma in_empty_rest c : in_empty c = true <-> rest c = [].
Proof. unfold in_empty, in_size. destruct (rest c); simpl; split; intros H; try reflexivity; discriminate. Qed.

(* what a verdict of not_at< S, eof > on the sub-input says about S *)
Lemma na_inv span o c2 : Bs G C na span o c2 ->
  match o with
  | Ok => (exists c3, Bs G C s span Fail c3) \/ (exists c3, Bs G C s span Ok c3 /\ rest c3 <> [])
  | Fail => matches_all_of G C span s
  | Exc x => exists c3, Bs G C s span (Exc x) c3
  end.
Proof.
  intros [f [d [evs H]]]. pose proof (na_l f d d span) as K. unfold EquivTable.ecl at 1 in K. rewrite H in K.
  destruct K as [K|K]; [discriminate|]. rewrite NA_unfold in K. unfold EquivTable.ecl in K.
  destruct (E f (set_A (opt_ d) false) s span) as [[| |x] c3 e3| |] eqn:Es; simpl in K.
  - destruct (in_empty c3) eqn:Ee; simpl in K.
    + destruct o; simpl in K; try contradiction. exists c3. split; [exists f, (set_A (opt_ d) false), e3; exact Es | apply in_empty_rest; exact Ee].
    + destruct o; simpl in K; try contradiction. right. exists c3. split; [exists f, (set_A (opt_ d) false), e3; exact Es|].
      intros Hr. apply in_empty_rest in Hr. congruence.
  - destruct o; simpl in K; try contradiction. left. exists c3. exists f, (set_A (opt_ d) false), e3. exact Es.
  - destruct o; simpl in K; try contradiction. destruct K as [<- _]. exists c3. exists f, (set_A (opt_ d) false), e3. exact Es.
  - destruct o; contradiction.
  - destruct o; contradiction.
Qed.

(* conversely: a verdict of S on the sub-input determines the verdict of not_at< S, eof > *)
Lemma na_intro span o c3 : Bs G C s span o c3 ->
  exists c2, Bs G C na span (match o with Ok => if in_empty c3 then Fail else Ok | Fail => Ok | Exc x => Exc x end) c2.
Proof.
  intros [f [d [evs H]]].
  pose proof (eval_sim G C HC HG f f (le_n f) d (set_A (opt_ d) false) s span) as KS. rewrite H in KS. destruct KS as [KS|KS]; [discriminate|].
  pose proof (na_r f d d span) as K. rewrite NA_unfold in K. unfold EquivTable.ecl in K.
  remember (E (S (S (S f))) d na span) as Y eqn:EY.
  assert (Fin : forall o' c2 ev, Y = Res o' c2 ev -> exists c2', Bs G C na span o' c2').
  { intros o' c2 ev HY. exists c2, (S (S (S f))), d, ev. rewrite <- EY. exact HY. }
  clear EY.
  destruct (E f (set_A (opt_ d) false) s span) as [[| |x] c4 e4| |]; destruct o; simpl in KS; try contradiction.
  - subst c4. simpl in K. destruct (in_empty c3); simpl in K; (destruct K as [K|K]; [discriminate|]);
      dres Y; simpl in K; try contradiction; eapply Fin; reflexivity.
  - simpl in K. destruct K as [K|K]; [discriminate|]. dres Y; simpl in K; try contradiction; eapply Fin; reflexivity.
  - destruct KS as [<- _]. simpl in K. destruct K as [K|K]; [discriminate|].
    dres Y; simpl in K; try contradiction. destruct K as [<- _]. eapply Fin; reflexivity.
Qed.

Variables r1 m : rid.
Hypothesis N1 : node G r1 HRematch [m; na].

(* minus< M, S > succeeds exactly when M matches and S does not match ALL of what M matched *)
Theorem minus_ok_sound f d c c1 evs : E f d r1 c = Res Ok c1 evs ->
  Bs G C m c Ok c1 /\ exists span, span_of c c1 = Some span /\ ~ matches_all_of G C span s.
Proof.
  intros H. pose proof (rematch_sound r1 m na [] N1 f d c Ok c1 evs H) as R.
  inversion R as [c1' span Bh Sp Fa | | | |]; subst. split; [exact Bh|]. exists span. split; [exact Sp|].
  destruct (Forall_inv Fa) as [c2 Hna]. pose proof (na_inv span Ok c2 Hna) as K. simpl in K.
  intros [c3 [B3 R3]]. destruct K as [[c4 B4]|[c4 [B4 R4]]].
  - destruct (Bs_det s span Ok c3 Fail c4 B3 B4) as [Ho _]. discriminate.
  - destruct (Bs_det s span Ok c3 Ok c4 B3 B4) as [_ Hc]. rewrite (Hc eq_refl) in R3. contradiction.
Qed.

(* it fails locally (rewinding) exactly when M fails, or M matches and S matches all of that *)
Theorem minus_fail_sound f d c c' evs : E f d r1 c = Res Fail c' evs ->
  c' = c /\ ((exists cf, Bs G C m c Fail cf) \/ exists c1 span, Bs G C m c Ok c1 /\ span_of c c1 = Some span /\ matches_all_of G C span s).
Proof.
  intros H. pose proof (rematch_sound r1 m na [] N1 f d c Fail c' evs H) as R.
  inversion R as [ | cf Bh | | c1 span pre q post c2 Bh Sp Hl Fa Bq | ]; subst; (split; [reflexivity|]).
  - left. exists cf. exact Bh.
  - right. exists c1, span. split; [exact Bh|]. split; [exact Sp|].
    assert (q = na) as -> by (destruct pre as [|p0 [|p1 pre]]; inversion Hl; reflexivity). exact (na_inv span Fail c2 Bq).
Qed.

Theorem minus_complete c c1 span : Bs G C m c Ok c1 -> span_of c c1 = Some span ->
  (forall c3, (Bs G C s span Fail c3 \/ (Bs G C s span Ok c3 /\ rest c3 <> [])) -> forall d, exists f evs, E f d r1 c = Res Ok c1 evs) /\
  (matches_all_of G C span s -> forall d, exists f evs, E f d r1 c = Res Fail c evs).
Proof.
  intros Bh Sp. split.
  - intros c3 Hs d. apply (rematch_complete r1 m na [] N1 c Ok c1).
    eapply RS_ok; eauto. constructor; [|constructor]. destruct Hs as [B3|[B3 R3]].
    + destruct (na_intro span Fail c3 B3) as [c2 B2]. exists c2. exact B2.
    + destruct (na_intro span Ok c3 B3) as [c2 B2]. destruct (in_empty c3) eqn:Ee; [apply in_empty_rest in Ee; contradiction|]. exists c2. exact B2.
  - intros [c3 [B3 R3]] d. apply (rematch_complete r1 m na [] N1 c Fail c).
    destruct (na_intro span Ok c3 B3) as [c2 B2]. apply in_empty_rest in R3. rewrite R3 in B2.
    eapply (RS_sub_fail G C m [na] c c1 span [] na [] c2); eauto.
Qed.
End Minus.

End Span.
