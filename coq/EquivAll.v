(* EquivAll.v — C09: every expansion theorem in its UNIFORM form (fixed fuel overhead), in one statement, so that the
   congruence (EquivCong.uequiv_cong) and transitivity can be applied to them: expansions may be used inside any rule. *)
From Coq Require Import Lia Bool.
From PegtlV Require Import Base Decode Grammar Engine EngineFacts AtomFacts Mono Equiv EquivFacts EquivEval EquivHeads EquivTable EquivHeads2 EquivTable2 EquivTableU EquivCong EquivAtoms EquivAtoms2 EquivShebang.

Definition expansions_uniform_stmt (G : grammar) (C : cfg) : Prop :=
  let node := node G in let uequiv := uequiv G C in let leq := leq G C in
  (* until< R, S > *)
  (forall r1 r2 cnd s st sq na, node r1 HUntil2 [cnd; s] -> node r2 HSeq [st; cnd] -> node st HStarPartial [sq] -> node sq HSeq [na; s] -> node na HNotAt [cnd] -> uequiv r1 r2) /\
  (* if_then_else *)
  (forall r1 r2 cnd t e s1 s2 na, node r1 HIfThenElse [cnd; t; e] -> node r2 HSor [s1; s2] -> node s1 HSeq [cnd; t] -> node s2 HSeq [na; e] -> node na HNotAt [cnd] -> uequiv r1 r2) /\
  (* if_must == seq< R, must< S... > > *)
  (forall r1 r2 cnd m m', node r1 (HIfMust false) [cnd; m] -> node r2 HSeq [cnd; m'] -> leq m m' -> uequiv r1 r2) /\
  (* if_must / opt_must == if_then_else *)
  (forall dflt r1 r2 cnd m m' x, node r1 (HIfMust dflt) [cnd; m] -> node r2 HIfThenElse [cnd; m'; x] -> node x (if dflt then HSuccess else HFailure) [] -> leq m m' -> uequiv r1 r2) /\
  (* opt_must == opt< if_must > *)
  (forall r1 r2 im cnd m m', node r1 (HIfMust true) [cnd; m] -> node r2 HPartial [im] -> node im (HIfMust false) [cnd; m'] -> leq m m' -> uequiv r1 r2) /\
  (* rep *)
  (forall n r1 r2 r, node r1 (HRep n) [r] -> node r2 HSeq (repeat r n) -> uequiv r1 r2) /\
  (* rep_opt *)
  (forall n r1 r2 o r, node r1 (HRepOpt n) [r] -> node r2 (HRep n) [o] -> node o HPartial [r] -> uequiv r1 r2) /\
  (* rep_min_max *)
  (forall mn mx r1 r2 a b na r, node r1 (HRepMinMax mn mx) [r] -> node r2 HSeq [a; b; na] -> node a (HRep mn) [r] -> node b (HRepOpt (mx - mn)) [r] -> node na HNotAt [r] -> uequiv r1 r2) /\
  (* plus *)
  (forall r1 r2 st r, node r1 HPlus [r] -> node r2 HSeq [r; st] -> node st HStarPartial [r] -> uequiv r1 r2) /\
  (forall r1 r2 rp st r, node r1 HPlus [r] -> node r2 HSeq [rp; st] -> node rp (HRep 1) [r] -> node st HStarPartial [r] -> uequiv r1 r2) /\
  (* opt *)
  (forall r1 r2 su r, node r1 HPartial [r] -> node r2 HSor [r; su] -> node su HSuccess [] -> uequiv r1 r2) /\
  (* partial *)
  (forall p p2 sq p' q1 qs, node p HPartial (q1 :: qs) -> node p2 HPartial [sq] -> node sq HSeq [q1; p'] -> node p' HPartial qs -> uequiv p p2) /\
  (* until< R > *)
  (forall r1 r2 cnd a, node r1 HUntil1 [cnd] -> node r2 HUntil2 [cnd; a] -> node a (HAny PkChar) [] -> uequiv r1 r2) /\
  (* until< R, S... > *)
  (forall r1 sq1 r2 st sq2 na cnd s ss, node r1 HUntil2 [cnd; sq1] -> node sq1 HSeq (s :: ss) -> node r2 HSeq [st; cnd] -> node st HStarPartial [sq2] -> node sq2 HSeq (na :: s :: ss) -> node na HNotAt [cnd] -> uequiv r1 r2) /\
  (* strict *)
  (forall r1 r2 na sq q1 qs, node r1 HStrict (q1 :: qs) -> node r2 HSor [na; sq] -> node na HNotAt [q1] -> node sq HSeq (q1 :: qs) -> uequiv r1 r2) /\
  (* star_strict *)
  (forall r1 r2 st sq na q1 qs, node r1 HStarStrict (q1 :: qs) -> node r2 HSeq [st; na] -> node st HStarPartial [sq] -> node sq HSeq (q1 :: qs) -> node na HNotAt [q1] -> uequiv r1 r2) /\
  (* list_tail *)
  (forall r1 sp r2 li st sq os r s, node r1 HSeq [r; sp] -> node sp HStarPartial [s; r] -> node r2 HSeq [li; os] -> node li HSeq [r; st] -> node st HStarPartial [sq] -> node sq HSeq [s; r] -> node os HPartial [s] -> uequiv r1 r2) /\
  (* eolf *)
  (forall r1 r2 e l, node r1 HEolf [] -> node r2 HSor [e; l] -> node e HEof [] -> node l HEol [] -> uequiv r1 r2) /\
  (* ranges *)
  (forall r1 r2 cs qs, node r1 (HRanges PkChar cs) [] -> node r2 HSor qs -> ranges_alts G cs qs -> uequiv r1 r2).

Lemma expansions_uniform G C : noact_cfg C -> plain_table G -> table_wf G -> expansions_uniform_stmt G C.
Proof.
  intros HC HG HW. unfold expansions_uniform_stmt. cbv zeta.
  repeat match goal with |- _ /\ _ => split end; intros.
  - eapply until2_utable; eassumption.
  - eapply if_then_else_utable; eassumption.
  - eapply if_must_seq_utable; eassumption.
  - eapply if_must_ite_utable; eassumption.
  - eapply opt_must_opt_utable; eassumption.
  - eapply rep_seq_utable; eassumption.
  - eapply rep_opt_utable; eassumption.
  - eapply rep_min_max_utable; eassumption.
  - eapply plus_utable; eassumption.
  - eapply plus_rep_min_utable; eassumption.
  - eapply opt_sor_utable; eassumption.
  - eapply partial_utable; eassumption.
  - eapply until1_utable; eassumption.
  - eapply until_pack_utable; eassumption.
  - eapply strict_utable; eassumption.
  - eapply star_strict_utable; eassumption.
  - eapply list_tail_utable; eassumption.
  - eapply eolf_utable; eassumption.
  - eapply ranges_utable; eassumption.
Qed.
