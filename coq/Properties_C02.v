From PegtlV Require Import Base Engine.
Theorem C02_placeholder : forall c, guard true c (Res Fail c []) = Res Fail c [].
Proof. reflexivity. Qed.
Print Assumptions C02_placeholder.
