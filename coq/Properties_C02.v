(* Properties_C02.v — C02: a locally failing rule never leaves input consumed.
   Theorems only; proofs are in EngineFacts.v / AtomFacts.v / LookFacts.v.
   Quantifiers: every grammar table G whose decoder widths are well-formed (table_wf: what the
   translator can produce), every configuration C (action attachments, vetoes, throwing
   actions, controls with/without unwind, must_if-style controls), every dynamic context d,
   every rule r, every cursor c (all inputs, all sub-inputs), every fuel f. *)
From PegtlV Require Import Base Decode Grammar Engine EngineFacts AtomFacts LookFacts.

(* required mode + local failure => the whole cursor record (remaining bytes, byte, line, column) is unchanged *)
Theorem C02_required_restores :
  forall G C f d r c c' evs, table_wf G -> dM d = true ->
    eval G C f d r c = Res Fail c' evs -> c' = c.
Proof.
  intros G C f d r c c' evs HG Hm H.
  pose proof (eval_goodT G C f d r c HG) as K. rewrite H, Hm in K. exact K.
Qed.
Print Assumptions C02_required_restores.

(* at<> / not_at<> never move the cursor: success, local failure or exception; with or without
   hooks, actions, vetoes, state/limit actions attached to the look-ahead rule itself *)
Theorem C02_lookahead_fixed :
  forall G C r nd r1, nth_error G r = Some nd -> is_look (nhead nd) = true -> nsubs nd = [r1] ->
    forall f d c o c' evs, eval G C f d r c = Res o c' evs -> c' = c.
Proof.
  intros G C r nd r1 Hn Hl Hs f d c o c' evs H.
  pose proof (lookahead_fixes G C r nd Hn Hl (ex_intro _ r1 Hs) f d c) as K. rewrite H in K. exact K.
Qed.
Print Assumptions C02_lookahead_fixed.

(* success (and an exception passing through) never moves the cursor backwards or beyond the end:
   the new remaining input is a suffix of the old one *)
Theorem C02_monotone :
  forall G C f d r c o c' evs, table_wf G -> eval G C f d r c = Res o c' evs -> o <> Fail ->
    exists consumed, rest c = consumed ++ rest c'.
Proof.
  intros G C f d r c o c' evs HG H Ho.
  pose proof (eval_goodT G C f d r c HG) as K. rewrite H in K.
  destruct o as [| |e]; [| congruence |]; destruct K as [pre [K _]]; exists pre; exact K.
Qed.
Print Assumptions C02_monotone.

(* optional mode: a failing rule may leave the cursor advanced, but only forwards within the input *)
Theorem C02_optional_forward :
  forall G C f d r c c' evs, table_wf G -> eval G C f d r c = Res Fail c' evs ->
    exists consumed, rest c = consumed ++ rest c'.
Proof.
  intros G C f d r c c' evs HG H.
  pose proof (eval_goodT G C f d r c HG) as K. rewrite H in K. simpl in K.
  destruct (dM d); [subst c'; exists []; reflexivity | destruct K as [pre [K _]]; exists pre; exact K].
Qed.
Print Assumptions C02_optional_forward.

(* non-vacuity: seq< one<'a'>, one<'b'> > on "ac": consumes 'a', fails on 'c'; required => restored,
   optional => left advanced (so the theorem's hypothesis dM d = true matters) *)
Definition ex_G : grammar :=
  [ mknode HSeq [1; 2]%nat true; mknode (HOne true PkChar [97%Z]) [] true; mknode (HOne true PkChar [98%Z]) [] true ].
Definition ex_C : cfg := mkcfg EolLfCrlf (fun _ _ => AKNone) (fun _ _ _ _ => ARet true) (fun _ _ _ => ARet true) (fun _ => true) (fun _ _ => false).
Definition ex_c : cursor := mkcur [97; 99]%N pos0.
Example C02_example_required :
  table_wf ex_G /\
  exists evs, eval ex_G ex_C 10 (mkdyn true true 0 0 0) 0%nat ex_c = Res Fail ex_c evs.
Proof.
  split.
  - intros r nd H. destruct r as [|[|[|r]]]; simpl in H; try (inversion H; subst; exact I). destruct r; discriminate.
  - eexists. vm_compute. reflexivity.
Qed.
Print Assumptions C02_example_required.
Example C02_example_optional_moves :
  exists c' evs, eval ex_G ex_C 10 (mkdyn true false 0 0 0) 0%nat ex_c = Res Fail c' evs /\ rest c' = [99%N].
Proof. eexists. eexists. vm_compute. split; reflexivity. Qed.
Print Assumptions C02_example_optional_moves.
