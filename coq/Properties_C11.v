(* Properties_C11.v — C11: grammar analysis never certifies a grammar that can loop without progress. *)
From PegtlV Require Import Base Decode Grammar Engine Analyze AnalyzeFacts.

(* Stage A: a call of work() that leaves the problem counter unchanged establishes the judgement okw *)
Theorem C11_work_ok : forall ent fuel stack r pr b pr',
  work ent fuel stack r false pr = (b, pr') -> pr <= pr' /\ (pr' = pr -> okw ent stack r b).
Proof. exact work_ok. Qed.
Print Assumptions C11_work_ok.

Theorem C11_okw_antitone : forall ent stack n b, okw ent stack n b ->
  forall stack', (forall x, In x stack' -> In x stack) -> okw ent stack' n b.
Proof. exact okw_weaken. Qed.
Print Assumptions C11_okw_antitone.

Theorem C11_problems_zero : forall G, problems G = 0 -> forall a, In a (roots G) -> exists b, okw (aentry G) [] a b.
Proof. exact problems_zero. Qed.
Print Assumptions C11_problems_zero.
