(* Properties_C11.v — C11: grammar analysis never certifies a grammar that can loop without progress.
   Model: Analyze.v (analyze_traits.hpp + analyze.hpp) and Engine.v; proofs: AnalyzeFacts.v (stage A),
   AnalyzeSound.v / AnalyzeCons.v / AnalyzeTerm.v (stage B). *)
From PegtlV Require Import Base Decode Grammar Engine AtomFacts Analyze AnalyzeFacts AnalyzeSound AnalyzeCons AnalyzeTerm.

(* ---- Stage A: about work()/problems() only ---- *)
(* a call of work() that leaves the problem counter unchanged establishes the judgement okw (fuel exhaustion counts) *)
Theorem C11_work_ok : forall ent fuel stack r pr b pr',
  work ent fuel stack r false pr = (b, pr') -> pr <= pr' /\ (pr' = pr -> okw ent stack r b).
Proof. exact work_ok. Qed.
Print Assumptions C11_work_ok.

Theorem C11_okw_antitone : forall ent stack n b, okw ent stack n b ->
  forall stack', (forall x, In x stack' -> In x stack) -> okw ent stack' n b.
Proof. exact okw_weaken. Qed.
Print Assumptions C11_okw_antitone.

Theorem C11_problems_zero : forall G, problems G = 0 -> forall a, In a (roots G) -> exists b, okw (aentry G) [] a b.
Proof. exact problems_zero. Qed.
Print Assumptions C11_problems_zero.

(* ---- Stage B ---- *)
(* the "consumes" answer is sound: a rule visited without a problem and answered "consumes" strictly shortens the
   input whenever it succeeds (all fuels, configurations, modes, cursors) *)
Theorem C11_consumes_sound : forall G C, table_wf G -> table_shape_ok G = true ->
  forall f r, (exists h stk, okh (aentry G) h stk (rl r) true) ->
  forall d c c' evs, eval G C f d r c = Res Ok c' evs -> length (rest c') < length (rest c).
Proof. exact cons_sound. Qed.
Print Assumptions C11_consumes_sound.

(* zero problems => every run terminates: for every rule, mode, action/control family and cursor there is a fuel with
   which Engine.eval answers (no unbounded recursion, no iteration without progress).  ALL heads of Grammar.v are
   covered (if_apply / until< Cond > by following the chain of copied traits, if_must / opt_must through the shape of
   their must<...> helper nodes; strict / star_strict have no trait - analyze<> does not compile - and the model
   reports them as a problem, so they never satisfy problems G = 0).
   Hypotheses, each true of every table the compiler dumps and each necessary in some form:
   - table_wf G: decoder widths of the atoms are those the library instantiates (a zero-width uint<> would be an
     "any" atom that consumes nothing);
   - table_shape_ok G: the second sub-rule of an if_must node is internal::must< Rules... > as the library builds it
     (must / seq of must / success with enable_control = false, so no action can make it "fail");
   - cfg_actions_ranked C: Action< Rule > : change_action< Other > attachments do not cycle (a bounded rank on action
     families decreases).  Without it the statement is false: C11_needs_acyclic_actions_refuted. *)
Theorem C11_sound : forall G C, table_wf G -> table_shape_ok G = true -> cfg_actions_ranked C ->
  problems G = 0 -> forall d r c, exists f, eval G C f d r c <> Oof.
Proof. exact sound_ranked. Qed.
Print Assumptions C11_sound.

(* the common case: no change_action / change_action_and_state attachment at all *)
Theorem C11_sound_plain_actions : forall G C, table_wf G -> table_shape_ok G = true -> cfg_plain_actions C ->
  problems G = 0 -> forall d r c, exists f, eval G C f d r c <> Oof.
Proof. exact sound_plain. Qed.
Print Assumptions C11_sound_plain_actions.

(* uniform version: one fuel bound per input length, for all rules, modes and cursors *)
Theorem C11_sound_uniform : forall G C, table_wf G -> table_shape_ok G = true ->
  forall K rk, (forall fam, rk fam <= K) -> (forall fam r fam', switches C fam r fam' -> rk fam' < rk fam) ->
  (forall r, r < length G -> exists b, okw (aentry G) [] (rl r) b) ->
  forall L, exists F, forall r f d c, F <= f -> length (rest c) <= L -> eval G C f d r c <> Oof.
Proof. exact terminates_upto. Qed.
Print Assumptions C11_sound_uniform.

(* without a hypothesis on the action attachments the statement is false of the model (and of the library: the
   recursion is in user-written Action< Rule > : change_action< Other > specialisations, invisible to analyze) *)
Theorem C11_needs_acyclic_actions_refuted :
  exists G C, table_wf G /\ table_shape_ok G = true /\ problems G = 0 /\
              exists d r c, forall f, eval G C f d r c = Oof.
Proof. exact change_action_cycle_refutes. Qed.
Print Assumptions C11_needs_acyclic_actions_refuted.

(* ... and without table_wf: star< uint<0-width>::any > has 0 problems and never terminates (not expressible in C++) *)
Theorem C11_needs_table_wf_refuted :
  exists G C, table_shape_ok G = true /\ cfg_plain_actions C /\ problems G = 0 /\
              exists d r c, forall f, eval G C f d r c = Oof.
Proof. exact zero_width_refutes. Qed.
Print Assumptions C11_needs_table_wf_refuted.

(* the hypotheses are satisfiable: a recursive grammar with sor / seq / plus / star / opt / if_must / until / if_apply,
   recursion behind consuming prefixes *)
Example C11_example_hypotheses :
  table_wf ex_table /\ table_shape_ok ex_table = true /\ cfg_actions_ranked plain_cfg /\ problems ex_table = 0.
Proof. exact ex_table_hyps. Qed.
Print Assumptions C11_example_hypotheses.

Example C11_example_left_recursion_reported : problems ex_table_bad <> 0.
Proof. exact ex_table_bad_problems. Qed.
Print Assumptions C11_example_left_recursion_reported.
