(* Properties_C11.v — C11: grammar analysis never certifies a grammar that can loop without progress.
   Model: Analyze.v (analyze_traits.hpp + analyze.hpp) and Engine.v; proofs: AnalyzeFacts.v (stage A),
   AnalyzeSound.v / AnalyzeCons.v / AnalyzeTerm.v (stage B). *)
From PegtlV Require Import Base Decode Grammar Engine AtomFacts Analyze AnalyzeFacts AnalyzeSound AnalyzeCons AnalyzeTerm.

(* ---- Stage A: about work()/problems() only ---- *)
(* a call of work() that leaves the problem counter unchanged establishes the judgement okw (fuel exhaustion counts) *)
Theorem C11_work_ok : forall ent fuel stack r pr b pr',
  work ent fuel stack r false pr = (b, pr') -> pr <= pr' /\ (pr' = pr -> okw ent stack r b).
Proof. exact work_ok. Qed.
Print Assumptions C11_work_ok.

Theorem C11_okw_antitone : forall ent stack n b, okw ent stack n b ->
  forall stack', (forall x, In x stack' -> In x stack) -> okw ent stack' n b.
Proof. exact okw_weaken. Qed.
Print Assumptions C11_okw_antitone.

Theorem C11_problems_zero : forall G, problems G = 0 -> forall a, In a (roots G) -> exists b, okw (aentry G) [] a b.
Proof. exact problems_zero. Qed.
Print Assumptions C11_problems_zero.

(* ---- Stage B ---- *)
(* the "consumes" answer is sound: a rule visited without a problem and answered "consumes" strictly shortens the
   input whenever it succeeds (all fuels, configurations, modes, cursors) *)
Theorem C11_consumes_sound : forall G C, table_wf G -> heads_covered G = true ->
  forall f r, (exists h stk, okh (aentry G) h stk (rl r) true) ->
  forall d c c' evs, eval G C f d r c = Res Ok c' evs -> length (rest c') < length (rest c).
Proof. exact cons_sound. Qed.
Print Assumptions C11_consumes_sound.

(* zero problems => every run terminates.
   FULL STATEMENT (goal):  problems G = 0 -> forall C d r c, exists f, eval G C f d r c <> Oof.
   Proved here under three hypotheses:
   - table_wf G: decoder widths of the atoms are those the library instantiates (true of every dumped table);
   - cfg_plain_actions C: no change_action / change_action_and_state attachment.  NECESSARY in some form, see
     C11_needs_acyclic_actions_refuted (two action families that switch to each other recurse for ever; that is user
     code, not grammar).  A rank on action families would do; not done.
   - heads_covered_term G: no node with head if_apply, until< Cond > (their trait is the trait of ANOTHER rule under
     the own name), if_must / opt_must (trait names the rules inside must<...>, which are not sub-rules of the node),
     until< Cond, Rule >, rep_min_max, rematch (cons_sound covers these three; the termination lemma is missing).
     strict / star_strict have no trait (analyze<> does not compile): the model reports them as a problem, so they
     never satisfy problems G = 0. *)
Theorem C11_sound_partial : forall G C, table_wf G -> heads_covered_term G = true -> cfg_plain_actions C ->
  problems G = 0 -> forall d r c, exists f, eval G C f d r c <> Oof.
Proof. exact sound_partial. Qed.
Print Assumptions C11_sound_partial.

(* uniform version: one fuel bound per input length, for all rules, modes and cursors *)
Theorem C11_sound_partial_uniform : forall G C, table_wf G -> heads_covered_term G = true -> cfg_plain_actions C ->
  (forall r, r < length G -> exists b, okw (aentry G) [] (rl r) b) ->
  forall L, exists F, forall r f d c, F <= f -> length (rest c) <= L -> eval G C f d r c <> Oof.
Proof. exact terminates_upto. Qed.
Print Assumptions C11_sound_partial_uniform.

(* without a hypothesis on the action attachments the statement is false of the model (and of the library: the
   recursion is in user-written Action< Rule > : change_action< Other > specialisations, invisible to analyze) *)
Theorem C11_needs_acyclic_actions_refuted :
  exists G C, table_wf G /\ heads_covered_term G = true /\ problems G = 0 /\
              exists d r c, forall f, eval G C f d r c = Oof.
Proof. exact change_action_cycle_refutes. Qed.
Print Assumptions C11_needs_acyclic_actions_refuted.

(* the hypotheses are satisfiable: a recursive grammar with plus / star / opt, recursion behind a consuming prefix *)
Example C11_example_hypotheses :
  table_wf ex_table /\ heads_covered_term ex_table = true /\ cfg_plain_actions plain_cfg /\ problems ex_table = 0.
Proof. exact ex_table_hyps. Qed.
Print Assumptions C11_example_hypotheses.

Example C11_example_left_recursion_reported : problems ex_table_bad <> 0.
Proof. exact ex_table_bad_problems. Qed.
Print Assumptions C11_example_left_recursion_reported.
