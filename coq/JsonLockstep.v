(* JsonLockstep.v — the engine model computes the plain PEG reading of JsonSem.v, fuel for fuel
   (see the header of JsonSem.v).  Generic in the table and the configuration. *)
From Coq Require Import Lia.
From PegtlV Require Import Base Decode Grammar Engine EngineFacts AtomFacts Mono Spec ExactSound DecodeFacts JsonSem.
Local Open Scope N_scope.

(* ---------- the nodes covered ---------- *)
Definition zsmall (z : Z) : bool := (0 <=? z)%Z && (z <? 128)%Z.
Definition supp_node (nd : node) : bool :=
  match nhead nd, nsubs nd with
  | HEof, [] => true
  | HAny PkChar, [] => true
  | HString _, [] => true
  | HOne true PkChar zs, [] => forallb zsmall zs
  | HRange true PkChar lo hi, [] => zsmall lo && zsmall hi
  | HRange true PkUtf8 _ _, [] => true
  | HRanges PkChar zs, [] => forallb zsmall zs
  | HSeq, _ => true
  | HSor, _ => true
  | HStarPartial, [_] => true
  | HPlus, [_] => true
  | HPartial, [_] => true
  | HAt, [_] => true
  | HNotAt, [_] => true
  | HRep _, [_] => true
  | HUntil2, [_; _] => true
  | HIfThenElse, [_; _; _] => true
  | _, _ => false
  end.
Definition supported (G : grammar) : bool := forallb supp_node G.

Lemma supported_nth G r nd : supported G = true -> nth_error G r = Some nd -> supp_node nd = true.
Proof.
  intros H Hn. unfold supported in H. rewrite forallb_forall in H. apply H. eapply nth_error_In; eauto.
Qed.

Lemma supported_wf G : supported G = true -> table_wf G.
Proof.
  intros H r nd Hn. pose proof (supported_nth G r nd H Hn) as Hs.
  destruct nd as [h subs en]. unfold supp_node in Hs. cbn [nhead nsubs] in *.
  destruct h; try exact I; cbn [head_wf].
  - destruct pk; try exact I; discriminate Hs.
  - destruct found; [|discriminate Hs]. destruct pk; try exact I; discriminate Hs.
  - destruct found; [|discriminate Hs]. destruct pk; try exact I; discriminate Hs.
  - destruct pk; try exact I; discriminate Hs.
Qed.

(* ---------- agreement of an engine result with a plain verdict ---------- *)
Definition agree (x : result) (y : sres) : Prop :=
  match x with
  | Res Ok c' _ => y = Some (Some (rest c'))
  | Res Fail _ _ => y = Some None
  | Res (Exc _) _ _ => False
  | Oof => y = None
  | Err => False
  end.

Lemma agree_prepend evs x y : agree x y -> agree (prepend evs x) y.
Proof. destruct x as [[| |e] c1 e1| |]; simpl; auto. Qed.
Lemma agree_guard m s x y : agree x y -> agree (guard m s x) y.
Proof. destruct x as [[| |e] c1 e1| |]; simpl; auto. Qed.
Lemma agree_traced k r a m c x y : agree x y -> agree (traced k r a m c x) y.
Proof. destruct x as [[| |e] c1 e1| |]; simpl; auto. Qed.
Lemma agree_vres x v : vres x = Some v -> agree x (Some v).
Proof. destruct x as [[| |e] c1 e1| |]; simpl; intros H; inversion H; reflexivity. Qed.

(* ---------- signed char against small non-negative constants ---------- *)
Lemma zsmall_spec z : zsmall z = true -> (0 <= z < 128)%Z.
Proof. unfold zsmall. intros H. apply andb_true_iff in H. destruct H as [H1 H2]. apply Z.leb_le in H1. apply Z.ltb_lt in H2. lia. Qed.

Lemma schar_eqb b z : b < 256 -> zsmall z = true -> (schar b =? z)%Z = (b =? Z.to_N z).
Proof.
  intros Hb Hz. apply zsmall_spec in Hz.
  destruct (N.lt_ge_cases b 128) as [L|L].
  - rewrite schar_small by exact L. destruct (Z.eqb_spec (Z.of_N b) z) as [E|E], (N.eqb_spec b (Z.to_N z)) as [E2|E2]; try reflexivity; lia.
  - pose proof (schar_big b L Hb) as K. destruct (Z.eqb_spec (schar b) z) as [E|E], (N.eqb_spec b (Z.to_N z)) as [E2|E2]; try reflexivity; lia.
Qed.
Lemma schar_rng b lo hi : b < 256 -> zsmall lo = true -> zsmall hi = true ->
  ((lo <=? schar b)%Z && (schar b <=? hi)%Z) = ((Z.to_N lo <=? b) && (b <=? Z.to_N hi)).
Proof.
  intros Hb Hl Hh. apply zsmall_spec in Hl. apply zsmall_spec in Hh.
  destruct (N.lt_ge_cases b 128) as [L|L].
  - rewrite schar_small by exact L.
    destruct (Z.leb_spec lo (Z.of_N b)), (Z.leb_spec (Z.of_N b) hi), (N.leb_spec (Z.to_N lo) b), (N.leb_spec b (Z.to_N hi)); simpl; try reflexivity; lia.
  - pose proof (schar_big b L Hb) as K.
    destruct (Z.leb_spec lo (schar b)), (Z.leb_spec (schar b) hi), (N.leb_spec (Z.to_N lo) b), (N.leb_spec b (Z.to_N hi)); simpl; try reflexivity; lia.
Qed.

Lemma one_test zs b : b < 256 -> forallb zsmall zs = true ->
  test_one_set true zs (schar b) = mem b (map Z.to_N zs).
Proof.
  intros Hb Hz. unfold test_one_set, mem. rewrite eqb_true_r.
  induction zs as [|z zs IH]; simpl; [reflexivity|].
  simpl in Hz. apply andb_true_iff in Hz. destruct Hz as [Hz1 Hz2].
  rewrite (schar_eqb b z Hb Hz1), (IH Hz2). reflexivity.
Qed.
Lemma range_test lo hi b : b < 256 -> zsmall lo = true -> zsmall hi = true ->
  test_one_range true lo hi (schar b) = ((Z.to_N lo <=? b) && (b <=? Z.to_N hi)).
Proof. intros Hb Hl Hh. unfold test_one_range. rewrite eqb_true_r. apply schar_rng; assumption. Qed.

Lemma list_ind2 (A : Type) (P : list A -> Prop) :
  P [] -> (forall x, P [x]) -> (forall x y l, P l -> P (x :: y :: l)) -> forall l, P l.
Proof.
  intros H0 H1 H2. assert (K : forall l, P l /\ forall x, P (x :: l)).
  { induction l as [|y l [IH1 IH2]]; [split; [exact H0 | exact H1]|]. split; [apply IH2|]. intros x. apply H2. exact IH1. }
  intros l. apply K.
Qed.
Lemma ranges_test zs b : b < 256 -> forallb zsmall zs = true ->
  test_ranges zs (schar b) = nranges (map Z.to_N zs) b.
Proof.
  intros Hb. induction zs as [|x|lo hi tl IH] using list_ind2; intros Hz.
  - reflexivity.
  - simpl in Hz. rewrite andb_true_r in Hz. simpl. apply schar_eqb; assumption.
  - simpl in Hz. apply andb_true_iff in Hz. destruct Hz as [Hl Hz]. apply andb_true_iff in Hz. destruct Hz as [Hh Hz].
    cbn [test_ranges map nranges]. rewrite (schar_rng b lo hi Hb Hl Hh), (IH Hz). reflexivity.
Qed.

(* ---------- the utf8 atom ---------- *)
Lemma ptb_utf8 ch test c : bytes_ok (rest c) ->
  agree (peek_test_bump ch PkUtf8 test c)
        (Some (match utf8_arith (rest c) with
               | PSome v n => if test v then Some (skipn n (rest c)) else None
               | _ => None end)).
Proof.
  intros Hb. unfold peek_test_bump, do_peek.
  pose proof (peek_utf8_never_oob c) as Hn.
  destruct (peek_utf8 c) as [|v n|] eqn:E; [| |congruence].
  - destruct c as [bs p]. cbn [rest] in *. rewrite (peek_utf8_arith bs p Hb) in E. rewrite E. reflexivity.
  - pose proof (peek_utf8_size c v n E) as [[_ Hs] _].
    destruct c as [bs p]. cbn [rest] in *. rewrite (peek_utf8_arith bs p Hb) in E. rewrite E.
    destruct (test v); [|reflexivity].
    destruct (DecodeFacts.bump_help_ok ch (test (ch_as_data PkUtf8 ch)) n (mkcur bs p) Hs) as [c' [H1 [H2 _]]].
    rewrite H1. simpl. rewrite H2. reflexivity.
Qed.

Section Lock.
Variable G : grammar.
Variable C : cfg.
Hypothesis HS : supported G = true.
Hypothesis Hacts : forall fam r, void_ak (acts C fam r).
Hypothesis Habeh : forall fam r b e, exists x, abeh C fam r b e = ARet x.
Hypothesis Hrof : forall k r, raise_on_failure C k r = false.

Let HG : table_wf G := supported_wf G HS.

Lemma match_hpp_agree ak body d r c y : void_ak ak ->
  (forall d', agree (body d' c) y) -> agree (match_hpp C ak body d r c) y.
Proof.
  intros Hv Hb. unfold match_hpp.
  pose proof (Hb (if use_guard d ak then opt_ d else d)) as K.
  destruct (body (if use_guard d ak then opt_ d else d) c) as [[| |e] c1 e1| |]; simpl in K |- *.
  - destruct (run_action_void C Habeh d ak r (cpos c) (cpos c1) Hv) as [ea ->]. simpl. exact K.
  - unfold fail_hook. rewrite Hrof. simpl. exact K.
  - contradiction.
  - exact K.
  - contradiction.
Qed.

Section Step.
Variable f : nat.
Hypothesis IH : forall d r c, bytes_ok (rest c) -> agree (eval G C f d r c) (sev G f r (rest c)).
Notation ev := (eval G C f).
Notation go := (sev G f).

Lemma okb d r c c1 e1 : ev d r c = Res Ok c1 e1 -> bytes_ok (rest c) -> bytes_ok (rest c1).
Proof. intros E Hb. eapply (ev_bytes G C HG); eauto. discriminate. Qed.

Lemma seq_agree rs : forall d c, bytes_ok (rest c) -> agree (seq_all ev d rs c) (sseq go rs (rest c)).
Proof.
  induction rs as [|r rs IHrs]; intros d c Hb; simpl; [reflexivity|]. unfold bind.
  pose proof (IH d r c Hb) as K.
  destruct (ev d r c) as [[| |e] c1 e1| |] eqn:E; simpl in K; try contradiction; rewrite K.
  - apply agree_prepend. apply IHrs. eapply okb; eauto.
  - reflexivity.
  - reflexivity.
Qed.

Lemma sor_agree rs : forall d c, bytes_ok (rest c) -> agree (sor_any ev d rs c) (ssor go rs (rest c)).
Proof.
  induction rs as [|r rs IHrs]; intros d c Hb; [reflexivity|].
  destruct rs as [|r2 rs'].
  - simpl. pose proof (IH d r c Hb) as K.
    destruct (ev d r c) as [[| |e] c1 e1| |] eqn:E; simpl in K; try contradiction; rewrite K; reflexivity.
  - change (sor_any ev d (r :: r2 :: rs') c) with
      (match ev (req d) r c with Res Fail c1 vs1 => prepend vs1 (sor_any ev d (r2 :: rs') c1) | x => x end).
    change (ssor go (r :: r2 :: rs') (rest c)) with
      (match go r (rest c) with Some None => ssor go (r2 :: rs') (rest c) | x => x end).
    pose proof (IH (req d) r c Hb) as K.
    destruct (ev (req d) r c) as [[| |e] c1 e1| |] eqn:E; simpl in K; try contradiction; rewrite K.
    + reflexivity.
    + pose proof (ev_req_fail G C HG _ _ _ _ _ _ E) as ->. apply agree_prepend. apply IHrs. exact Hb.
    + reflexivity.
Qed.

Lemma star_agree n r : forall d c, bytes_ok (rest c) -> agree (star_loop ev n d [r] c) (sstar go n r (rest c)).
Proof.
  induction n as [|n IHn]; intros d c Hb; [reflexivity|].
  cbn [star_loop seq_all sstar]. unfold bind.
  pose proof (IH (req d) r c Hb) as K.
  destruct (ev (req d) r c) as [[| |e] c1 e1| |] eqn:E; simpl in K; try contradiction; rewrite K; simpl.
  - apply agree_prepend. apply IHn. eapply okb; eauto.
  - pose proof (ev_req_fail G C HG _ _ _ _ _ _ E) as ->. reflexivity.
  - reflexivity.
Qed.

Lemma until_agree n cnd r : forall d c, bytes_ok (rest c) ->
  agree (until2_loop ev n d cnd r c) (suntil go n cnd r (rest c)).
Proof.
  induction n as [|n IHn]; intros d c Hb; [reflexivity|].
  cbn [until2_loop suntil].
  pose proof (IH (req d) cnd c Hb) as K.
  destruct (ev (req d) cnd c) as [[| |e] c1 e1| |] eqn:E; simpl in K; try contradiction; rewrite K.
  - reflexivity.
  - pose proof (ev_req_fail G C HG _ _ _ _ _ _ E) as ->.
    pose proof (IH (opt_ d) r c Hb) as K2.
    destruct (ev (opt_ d) r c) as [[| |e] c2 e2| |] eqn:E2; simpl in K2; try contradiction; rewrite K2.
    + apply agree_prepend. apply IHn. eapply okb; eauto.
    + reflexivity.
    + reflexivity.
  - reflexivity.
Qed.

Lemma rep_agree k r : forall d c, bytes_ok (rest c) -> agree (rep_loop ev k d r c) (srep go k r (rest c)).
Proof.
  induction k as [|k IHk]; intros d c Hb; simpl; [reflexivity|]. unfold bind.
  pose proof (IH d r c Hb) as K.
  destruct (ev d r c) as [[| |e] c1 e1| |] eqn:E; simpl in K; try contradiction; rewrite K.
  - apply agree_prepend. apply IHk. eapply okb; eauto.
  - reflexivity.
  - reflexivity.
Qed.

Lemma look_agree_at c x y s : agree x y -> rest c = s ->
  agree (look false c x) (match y with Some (Some _) => Some (Some s) | Some None => Some None | None => None end).
Proof. intros H <-. destruct x as [[| |e] c1 e1| |]; simpl in *; try contradiction; rewrite H; reflexivity. Qed.
Lemma look_agree_not c x y s : agree x y -> rest c = s ->
  agree (look true c x) (match y with Some (Some _) => Some None | Some None => Some (Some s) | None => None end).
Proof. intros H <-. destruct x as [[| |e] c1 e1| |]; simpl in *; try contradiction; rewrite H; reflexivity. Qed.

Lemma head_agree self nd d c : supp_node nd = true -> bytes_ok (rest c) ->
  agree (eval_head C ev f self (nhead nd) (nsubs nd) d c) (shead go f (nhead nd) (nsubs nd) (rest c)).
Proof.
  intros Hs Hb. destruct nd as [h subs en]. unfold supp_node in Hs. cbn [nhead nsubs] in *.
  unfold eval_head, shead.
  destruct h; try discriminate Hs.
  - (* eof *) destruct subs; [|discriminate Hs].
    apply agree_vres. apply (eof_verdict (ceol C) c). reflexivity.
  - (* any *) destruct pk; try discriminate Hs. destruct subs; [|discriminate Hs].
    apply agree_vres. apply (any_verdict (ceol C) c). reflexivity.
  - (* one *) destruct found; [|discriminate Hs]. destruct pk; try discriminate Hs. destruct subs; [|discriminate Hs].
    cbn [eval_atom]. apply agree_vres. apply ptb_char; [exact Hb|]. intros b Hb'. apply one_test; assumption.
  - (* range *) destruct found; [|discriminate Hs]. destruct pk; try discriminate Hs; (destruct subs; [|discriminate Hs]); cbn [eval_atom].
    + apply andb_true_iff in Hs. destruct Hs as [Hl Hh].
      apply agree_vres. apply ptb_char; [exact Hb|]. intros b Hb'. apply range_test; assumption.
    + pose proof (ptb_utf8 (eol_ch (ceol C)) (test_one_range true lo hi) c Hb) as K.
      unfold test_one_range in K at 2.
      destruct (utf8_arith (rest c)) as [|v n|]; try exact K. rewrite eqb_true_r in K. exact K.
  - (* ranges *) destruct pk; try discriminate Hs. destruct subs; [|discriminate Hs].
    cbn [eval_atom]. apply agree_vres. apply ptb_char; [exact Hb|]. intros b Hb'. apply ranges_test; assumption.
  - (* string *) destruct subs; [|discriminate Hs].
    apply agree_vres. apply (string_verdict (ceol C) cs c). reflexivity.
  - (* seq *) cbn [eval_atom]. unfold h_seq. destruct subs as [|r1 [|r2 rs]].
    + apply agree_guard. simpl. reflexivity.
    + pose proof (IH d r1 c Hb) as K. simpl.
      destruct (ev d r1 c) as [[| |e] c1 e1| |]; simpl in K; try contradiction; rewrite K; reflexivity.
    + apply agree_guard. apply seq_agree. exact Hb.
  - (* sor *) cbn [eval_atom]. apply sor_agree. exact Hb.
  - (* star *) destruct subs as [|r1 [|? ?]]; try discriminate Hs. cbn [eval_atom]. apply star_agree. exact Hb.
  - (* plus *) destruct subs as [|r1 [|? ?]]; try discriminate Hs. cbn [eval_atom]. unfold h_plus, bind.
    pose proof (IH d r1 c Hb) as K.
    destruct (ev d r1 c) as [[| |e] c1 e1| |] eqn:E; simpl in K; try contradiction; rewrite K.
    + apply agree_prepend. apply star_agree. eapply okb; eauto.
    + reflexivity.
    + reflexivity.
  - (* opt *) destruct subs as [|r1 [|? ?]]; try discriminate Hs. cbn [eval_atom]. unfold h_partial. cbn [seq_all]. unfold bind.
    pose proof (IH (req d) r1 c Hb) as K.
    destruct (ev (req d) r1 c) as [[| |e] c1 e1| |] eqn:E; simpl in K; try contradiction; rewrite K; simpl.
    + reflexivity.
    + pose proof (ev_req_fail G C HG _ _ _ _ _ _ E) as ->. reflexivity.
    + reflexivity.
  - (* at *) destruct subs as [|r1 [|? ?]]; try discriminate Hs. cbn [eval_atom]. unfold h_at.
    apply (look_agree_at c _ (go r1 (rest c)) (rest c)); [apply IH; exact Hb | reflexivity].
  - (* not_at *) destruct subs as [|r1 [|? ?]]; try discriminate Hs. cbn [eval_atom]. unfold h_at.
    apply (look_agree_not c _ (go r1 (rest c)) (rest c)); [apply IH; exact Hb | reflexivity].
  - (* until *) destruct subs as [|cn [|r1 [|? ?]]]; try discriminate Hs. cbn [eval_atom]. unfold h_until2.
    apply agree_guard. apply until_agree. exact Hb.
  - (* rep *) destruct subs as [|r1 [|? ?]]; try discriminate Hs. cbn [eval_atom]. unfold h_rep.
    apply agree_guard. apply rep_agree. exact Hb.
  - (* if_then_else *) destruct subs as [|cn [|t [|e [|? ?]]]]; try discriminate Hs. cbn [eval_atom]. unfold h_if_then_else.
    apply agree_guard.
    pose proof (IH (req d) cn c Hb) as K.
    destruct (ev (req d) cn c) as [[| |ex] c1 e1| |] eqn:E; simpl in K; try contradiction; rewrite K.
    + apply agree_prepend. apply IH. eapply okb; eauto.
    + pose proof (ev_req_fail G C HG _ _ _ _ _ _ E) as ->. apply agree_prepend. apply IH. exact Hb.
    + reflexivity.
Qed.
End Step.

Theorem lockstep f : forall d r c, bytes_ok (rest c) -> agree (eval G C f d r c) (sev G f r (rest c)).
Proof.
  induction f as [|f IHf]; intros d r c Hb; [reflexivity|].
  simpl. destruct (nth_error G r) as [nd|] eqn:Hn; [|reflexivity].
  apply agree_traced.
  pose proof (supported_nth G r nd HS Hn) as Hs.
  assert (Hplain : forall ak, void_ak ak ->
            agree (if nenabled nd then match_hpp C ak (eval_head C (eval G C f) f r (nhead nd) (nsubs nd)) d r c
                   else eval_head C (eval G C f) f r (nhead nd) (nsubs nd) d c)
                  (shead (sev G f) f (nhead nd) (nsubs nd) (rest c))).
  { intros ak Hv. destruct (nenabled nd).
    - apply match_hpp_agree; [exact Hv|]. intros d'. apply head_agree; assumption.
    - apply head_agree; assumption. }
  pose proof (Hacts (dAct d) r) as Hv.
  destruct (acts C (dAct d) r) as [|isb|isb|m] eqn:Ea; simpl in Hv; try contradiction.
  - apply Hplain. exact I.
  - destruct isb; [contradiction|]. apply Hplain. exact I.
  - destruct isb; [contradiction|]. apply Hplain. exact I.
Qed.

(* ---------- corollaries in terms of Sem ---------- *)
Corollary engine_Sem f d r c o c' evs : bytes_ok (rest c) -> eval G C f d r c = Res o c' evs ->
  match o with
  | Ok => Sem G r (rest c) (Some (rest c'))
  | Fail => Sem G r (rest c) None
  | Exc _ => False
  end.
Proof.
  intros Hb H. pose proof (lockstep f d r c Hb) as K. rewrite H in K.
  destruct o; simpl in K; [exists f; exact K | exists f; exact K | exact K].
Qed.

Corollary Sem_engine r s v d c : bytes_ok s -> rest c = s -> Sem G r s v ->
  exists f c' evs, eval G C f d r c = Res (match v with Some _ => Ok | None => Fail end) c' evs /\
                   (forall s', v = Some s' -> rest c' = s').
Proof.
  intros Hb Hs [f H]. subst s. pose proof (lockstep f d r c Hb) as K. rewrite H in K.
  destruct (eval G C f d r c) as [[| |e] c1 e1| |] eqn:E; simpl in K; try contradiction; try discriminate.
  - inversion K; subst. exists f, c1, e1. split; [exact E|]. intros s' Es. inversion Es. reflexivity.
  - inversion K; subst. exists f, c1, e1. split; [exact E|]. intros s' Es. discriminate.
Qed.

Corollary engine_never_raises_or_errs f d r c : bytes_ok (rest c) ->
  match eval G C f d r c with Res (Exc _) _ _ => False | Err => False | _ => True end.
Proof.
  intros Hb. pose proof (lockstep f d r c Hb) as K.
  destruct (eval G C f d r c) as [[| |e] c1 e1| |]; simpl in K; auto.
Qed.
End Lock.
