(* Properties_C13.v — state / action / control switching is scoped to the rule it is attached to.
   Specification side: StateScope.v (checker `accepts`, lexical-scope functions child_dv / own, Dyck scanner `blocks`).
   Proofs: StateScopeFacts.v.  All statements: for all tables, configurations, initial modes, fuel, inputs, outcomes. *)
From PegtlV Require Import Base Decode Grammar Engine StateScope StateScopeFacts.
Local Open Scope N_scope.

(* Every log the engine can produce is accepted by the scope checker:
   - state blocks EStNew r p0 .. [EStSuccess r p] EStDrop r are properly nested with each other and with the invocation
     frames, each opened inside the invocation frame of the rule r it is attached to, at the position p0 that frame was
     entered at, and closed before that frame's EExit (also when an exception passes through: result None);
   - state< S, R > (kind KS): EStSuccess is delivered exactly once iff the sub-rule's invocation returned true, directly
     after its EExit and with that exit position; never after failure or an exception;
   - change_state / change_action_and_state (kind KA): the block is closed directly before the EExit of the attached
     rule's frame, EStSuccess is delivered exactly once iff that EExit reports `true` AND the frame was entered with
     apply_mode::action, with the exit position;
   - every invocation is entered with the apply mode and control family that the enclosing frame's own values, its own
     switching head and its own match-level action determine (child_dv), every hook / raise carries the frame's control
     family, every action call carries the frame's action family and occurs only under apply_mode::action (own):
     frames are popped at EExit, so a switch never reaches a following sibling. *)
Theorem C13_state_scope :
  forall G C f d r c o c' evs, eval G C f d r c = Res o c' evs -> accepts G C (dv_of d) evs = true.
Proof. exact eval_accepts. Qed.
Print Assumptions C13_state_scope.

(* The state events of a log form a Dyck word: at ANY point of the log (in particular at every action call) the blocks
   opened so far and not yet closed form a stack bs, and the rest of the log closes exactly these, innermost first —
   blocks never overlap partially, so "the innermost open block" (the instance the driver attributes to A/Z events, and
   the `outer` instance of N/Y events) is well defined and every action call lies inside the scope of that block. *)
Theorem C13_actions_see_innermost :
  forall G C f d r c o c' pre post, eval G C f d r c = Res o c' (pre ++ post) ->
  exists bs, blocks [] pre = Some bs /\ blocks bs post = Some [].
Proof. exact eval_blocks. Qed.
Print Assumptions C13_actions_see_innermost.

Theorem C13_actions_see_innermost_at_apply :
  forall G C f d r c o c' pre fam r' b e post,
  eval G C f d r c = Res o c' (pre ++ EApply fam r' b e :: post) ->
  exists st v, run G C None [FRoot (dv_of d)] pre = Some st /\ own C st = Some (r', v) /\
               blocks [] pre = Some (fbs st) /\ blocks (fbs st) post = Some [].
Proof. exact eval_apply_blocks. Qed.
Print Assumptions C13_actions_see_innermost_at_apply.

(* Frame property of the switches, trace level: every invocation entry in an engine log carries exactly the apply mode
   and control family that the lexical-scope function computes from the frames open at that point of the log ... *)
Theorem C13_switch_scope :
  forall G C f d r c o c' pre ctl r' a m p post,
  eval G C f d r c = Res o c' (pre ++ EEnter ctl r' a m p :: post) ->
  exists st v, run G C None [FRoot (dv_of d)] pre = Some st /\ child_dv G C st a ctl = Some v.
Proof. exact eval_enter_scoped. Qed.
Print Assumptions C13_switch_scope.

(* ... and every action call is made for the rule whose frame is innermost, with the action family in force for that
   frame, and only under apply_mode::action (none inside disable<> / disable_action / at<> until an enable). *)
Theorem C13_switch_scope_actions :
  forall G C f d r c o c' pre fam r' b e post,
  eval G C f d r c = Res o c' (pre ++ EApply fam r' b e :: post) ->
  exists st v, run G C None [FRoot (dv_of d)] pre = Some st /\ own C st = Some (r', v) /\ vAct v = fam /\ vA v = true.
Proof. exact eval_apply_scoped. Qed.
Print Assumptions C13_switch_scope_actions.

Theorem C13_switch_scope_actions0 :
  forall G C f d r c o c' pre fam r' p post,
  eval G C f d r c = Res o c' (pre ++ EApply0 fam r' p :: post) ->
  exists st v, run G C None [FRoot (dv_of d)] pre = Some st /\ own C st = Some (r', v) /\ vAct v = fam /\ vA v = true.
Proof. exact eval_apply0_scoped. Qed.
Print Assumptions C13_switch_scope_actions0.

(* Frame property, definitional level: the switched value is an argument of the callee's evaluation only. *)
Theorem C13_switch_heads_def :
  forall C ev n self d c r1,
  (forall fam, eval_head C ev n self (HAction fam) [r1] d c = ev (set_act d fam) r1 c) /\
  (forall ctl, eval_head C ev n self (HControl ctl) [r1] d c = ev (set_ctl d ctl) r1 c) /\
  eval_head C ev n self HEnable [r1] d c = ev (set_A d true) r1 c /\
  eval_head C ev n self HDisable [r1] d c = ev (set_A d false) r1 c.
Proof. exact switch_heads_def. Qed.
Print Assumptions C13_switch_heads_def.

Theorem C13_switch_actions_def :
  forall ev plain enabled d r c,
  (forall fam, action_match ev plain enabled (MChangeAction fam) d r c = ev (set_act d fam) r c) /\
  (forall ctl, action_match ev plain enabled (MChangeControl ctl) d r c = plain (set_ctl d ctl) c) /\
  action_match ev plain enabled MEnableAction d r c = plain (set_A d true) c /\
  action_match ev plain enabled MDisableAction d r c = plain (set_A d false) c /\
  action_match ev plain enabled MChangeState d r c = st_scope (dA d) r c (plain d c) /\
  (forall fam, action_match ev plain enabled (MChangeActionAndState fam) d r c = st_scope (dA d) r c (ev (set_act d fam) r c)).
Proof. exact switch_actions_def. Qed.
Print Assumptions C13_switch_actions_def.

Theorem C13_sibling_frame :
  forall ev d r1 rs c,
  seq_all ev d (r1 :: rs) c = bind (ev d r1 c) (seq_all ev d rs) /\
  (forall r2 rs', sor_any ev d (r1 :: r2 :: rs') c = match ev (req d) r1 c with Res Fail c' evs => prepend evs (sor_any ev d (r2 :: rs') c') | x => x end) /\
  (forall n, star_loop ev (S n) d (r1 :: rs) c =
             match seq_all ev (req d) (r1 :: rs) c with
             | Res Ok c' evs => prepend evs (star_loop ev n d (r1 :: rs) c')
             | Res Fail c' evs => Res Ok c' evs
             | x => x end).
Proof. exact sibling_frame. Qed.
Print Assumptions C13_sibling_frame.

(* What acceptance by the checker means (inversion of its steps): *)
Theorem C13_checker_meaning :
  forall G C,
  (* state< S, R >: success only directly after the sub-rule's invocation returned true, with its exit position *)
  (forall pv r tl p st', step G C pv (FB r KS None :: tl) (EStSuccess r p) = Some st' -> exists k r1, pv = Some (EExit k r1 (Some true) p)) /\
  (* state< S, R >: destruction without success only if the sub-rule's invocation did not just return true *)
  (forall pv r tl st', step G C pv (FB r KS None :: tl) (EStDrop r) = Some st' -> is_exit_true pv = false) /\
  (* change_state / change_action_and_state: success iff the rule's frame returns true and was entered with apply_mode::action, at the exit position *)
  (forall pv r v succ bp tl k o p st', step G C pv (FI r v (Some succ) bp :: tl) (EExit k r o p) = Some st' -> succ = (if vA v && is_true o then Some p else None)) /\
  (* after success only the destruction follows; after the block of a change_state action only the frame's exit *)
  (forall pv st e st', sealed st = true -> step G C pv st e = Some st' -> (exists r, e = EStDrop r) \/ (exists k r o p, e = EExit k r o p)) /\
  (* a state is constructed only at the position its rule's frame was entered at, as a new innermost block *)
  (forall pv st r p st', step G C pv st (EStNew r p) = Some st' -> frame_pos st = Some p /\ st' = FB r (if pre_a C st then KA else KS) None :: st).
Proof. exact checker_meaning. Qed.
Print Assumptions C13_checker_meaning.

(* ---------- examples: a concrete table with a custom action family ---------- *)
Definition ex_one (b : Z) : node := mknode (HOne true PkChar [b]) [] true.
Definition exG : grammar :=
  [ mknode HSeq [1;5]%nat true;          (* 0 root: seq< 1, 'c' > *)
    mknode HSor [2;3]%nat true;          (* 1 sor< 2, 3 > *)
    mknode HSeq [4;6]%nat true;          (* 2 seq< 'a', 'b' >; family 9 attaches change_state to it *)
    mknode HState [7]%nat false;         (* 3 state< S, 7 > *)
    ex_one 97; ex_one 99; ex_one 98;     (* 4 'a'  5 'c'  6 'b' *)
    mknode (HAction 1) [4]%nat false ].  (* 7 action< act1, 'a' > *)
Definition exC : cfg :=
  mkcfg EolLfCrlf
    (fun fam r => if Nat.eqb fam 9 && Nat.eqb r 2 then AKMatch MChangeState else AKApply false)
    (fun _ _ _ _ => ARet true) (fun _ _ _ => ARet true) (fun _ => true) (fun _ _ => false).
Definition ex_d0 := mkdyn true true 9 2 0%nat.
Definition ex_p0 := mkpos 0 1 1.
(* input "ac": the first sor branch constructs a state (change_state on rule 2), matches 'a', fails on 'b' -> destroyed without
   success; the second branch is state< S, action< act1, 'a' > >: success at byte 1; 'c' then runs with family 9 again *)
Definition ex_log : list event :=
  match Engine.run exG exC 50 ex_d0 0%nat [97;99] ex_p0 with Res _ _ evs => evs | _ => [] end.
Definition ex_proj (e : event) : option (N * N * N) :=     (* (kind, rule or family, byte) *)
  match e with
  | EStNew r p => Some (1, N.of_nat r, pbyte p) | EStSuccess r p => Some (2, N.of_nat r, pbyte p) | EStDrop r => Some (3, N.of_nat r, 0)
  | EApply fam r _ e => Some (4 + N.of_nat fam, N.of_nat r, pbyte e) | _ => None end.
Fixpoint ex_filter (l : list event) : list (N * N * N) :=
  match l with [] => [] | e :: tl => match ex_proj e with Some x => x :: ex_filter tl | None => ex_filter tl end end.

Example C13_example_log :
  ex_filter ex_log = [ (1,2,0); (13,4,1); (3,2,0);                      (* N(rule 2)  A9('a')  D : no success, 'b' failed *)
                       (1,3,0); (5,4,1); (2,3,1); (3,3,0);              (* N(rule 3)  A1('a')  Y@1  D *)
                       (13,1,1); (13,5,2); (13,0,2) ]                   (* family 9 again after the action<> sub-tree *)
  /\ length ex_log = 42%nat.
Proof. vm_compute. split; reflexivity. Qed.
Print Assumptions C13_example_log.

Example C13_example_accepts : accepts exG exC (dv_of ex_d0) ex_log = true.
Proof. vm_compute. reflexivity. Qed.
Print Assumptions C13_example_accepts.

(* the checker is not vacuous: single-event corruptions of that log are rejected *)
Fixpoint ex_set (n : nat) (e : event) (l : list event) : list event :=
  match l, n with [], _ => [] | _ :: tl, O => e :: tl | x :: tl, S n' => x :: ex_set n' e tl end.
Fixpoint ex_del (n : nat) (l : list event) : list event :=
  match l, n with [], _ => [] | _ :: tl, O => tl | x :: tl, S n' => x :: ex_del n' tl end.
Fixpoint ex_ins (n : nat) (e : event) (l : list event) : list event :=
  match n, l with O, _ => e :: l | S n', x :: tl => x :: ex_ins n' e tl | S _, [] => [e] end.
Definition ex_p1 := mkpos 1 1 2.
Definition ex_p2 := mkpos 2 1 3.

Example C13_example_rejects :
  (* success delivered although the rule carrying change_state failed *)
  accepts exG exC (dv_of ex_d0) (ex_ins 17 (EStSuccess 2%nat ex_p0) ex_log) = false /\
  (* state< > matched but success withheld / delivered at the wrong position / delivered twice *)
  accepts exG exC (dv_of ex_d0) (ex_del 28 ex_log) = false /\
  accepts exG exC (dv_of ex_d0) (ex_set 28 (EStSuccess 3%nat ex_p0) ex_log) = false /\
  accepts exG exC (dv_of ex_d0) (ex_ins 28 (EStSuccess 3%nat ex_p1) ex_log) = false /\
  (* success before the sub-rule ran *)
  accepts exG exC (dv_of ex_d0) (ex_ins 21 (EStSuccess 3%nat ex_p0) (ex_del 28 ex_log)) = false /\
  (* state constructed elsewhere than at the entry of the attached rule *)
  accepts exG exC (dv_of ex_d0) (ex_set 20 (EStNew 3%nat ex_p1) ex_log) = false /\
  accepts exG exC (dv_of ex_d0) (ex_ins 8 (EStNew 2%nat ex_p0) (ex_del 5 ex_log)) = false /\
  (* state not destroyed before the attached rule's frame is left *)
  accepts exG exC (dv_of ex_d0) (ex_del 17 ex_log) = false /\
  accepts exG exC (dv_of ex_d0) (ex_ins 31 (EStDrop 3%nat) (ex_del 29 ex_log)) = false /\
  (* action< act1, R > leaking into the following sibling / not reaching its own sub-tree *)
  accepts exG exC (dv_of ex_d0) (ex_set 36 (EApply 1 5%nat ex_p1 ex_p2) ex_log) = false /\
  accepts exG exC (dv_of ex_d0) (ex_set 24 (EApply 9 4%nat ex_p0 ex_p1) ex_log) = false /\
  (* a sibling entered with another control family / apply mode than the parent's *)
  accepts exG exC (dv_of ex_d0) (ex_set 34 (EEnter 3 5%nat true false ex_p1) ex_log) = false /\
  accepts exG exC (dv_of ex_d0) (ex_set 34 (EEnter 2 5%nat false false ex_p1) ex_log) = false.
Proof. vm_compute. repeat split; reflexivity. Qed.
Print Assumptions C13_example_rejects.

(* change_state under apply_mode::nothing: constructed, destroyed, no success although the rule matched ("ab") *)
Definition ex_log_nothing : list event :=
  match Engine.run exG exC 50 (mkdyn false true 9 2 0%nat) 2%nat [97;98] ex_p0 with Res Ok _ evs => evs | _ => [] end.
Example C13_example_apply_nothing :
  ex_filter ex_log_nothing = [ (1,2,0); (3,2,0) ] /\ accepts exG exC (mkdv false 9 2) ex_log_nothing = true.
Proof. vm_compute. split; reflexivity. Qed.
Print Assumptions C13_example_apply_nothing.

(* an exception (must< 'b' > raising inside a change_state scope): the state is destroyed without success *)
Definition exG2 : grammar :=
  [ mknode HSeq [1;2]%nat true; ex_one 97; mknode HMust [3]%nat false; ex_one 98 ].
Definition exC2 : cfg :=
  mkcfg EolLfCrlf (fun fam r => if Nat.eqb fam 9 && Nat.eqb r 0 then AKMatch (MChangeActionAndState 1) else AKApply false)
    (fun _ _ _ _ => ARet true) (fun _ _ _ => ARet true) (fun _ => true) (fun _ _ => false).
Definition ex_log_exc : list event :=
  match Engine.run exG2 exC2 50 ex_d0 0%nat [97;99] ex_p0 with Res (Exc _) _ evs => evs | _ => [] end.
Example C13_example_exception :
  ex_filter ex_log_exc = [ (1,0,0); (5,1,1); (3,0,0) ] /\ accepts exG2 exC2 (dv_of ex_d0) ex_log_exc = true.
Proof. vm_compute. split; reflexivity. Qed.
Print Assumptions C13_example_exception.

Example C13_example_blocks :
  exists bs, blocks [] (firstn 25 ex_log) = Some bs /\ bs = [3%nat] /\ blocks bs (skipn 25 ex_log) = Some [].
Proof. eexists. vm_compute. repeat split; reflexivity. Qed.
Print Assumptions C13_example_blocks.
