(* EquivAlias.v — C09: the alias schemas dumped by the C++ compiler on this run (gen/AliasC09_gen.v: the
   convenience rule and the reference's expansion, both instantiated on opaque placeholders and both
   translated by the compiler from the current headers) are decided equivalent by the verified checker
   EquivBisim.table_equiv, by computation; hence equivalent in EVERY table that extends the schema. *)
From Coq Require Import Lia Bool.
From PegtlV Require Import Base Decode Grammar Engine EngineFacts AtomFacts Equiv EquivFacts EquivEval EquivHeads EquivTable EquivBisim.
From PegtlV.gen Require Import AliasC09_gen AliasC09Claims_gen.

Lemma c09_claimed_ok : forallb (fun p => table_equiv aliasC09_table 12 (fst p) (snd p)) c09_claimed = true.
Proof. vm_compute. reflexivity. Qed.

Theorem alias_schemas_equiv :
  forall G C, noact_cfg C -> plain_table G -> table_wf G -> extends aliasC09_table G ->
  forall p, In p c09_claimed -> obs_equiv G C (fst p) (snd p).
Proof.
  intros G C HC HG HW HE p Hp.
  pose proof (proj1 (forallb_forall _ _) c09_claimed_ok p Hp) as H.
  exact (table_equiv_sound aliasC09_table G C HC HG HW HE 12 (fst p) (snd p) H).
Qed.

Lemma c09_claimed_many : 40 <= length c09_claimed.
Proof. vm_compute. repeat constructor. Qed.
