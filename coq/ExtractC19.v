(* ExtractC19.v — extraction of the C19 model (Lines.v) and of the specification functions
   (LinesSpec.v; printed next to the model so the Python oracle can be cross-checked against the
   Coq spec).  ExtrOcamlBasic only; numbers stay positive/N/Z/nat inductives. *)
From PegtlV Require Import Base Engine Lines LinesSpec.
From Coq Require Import Extraction ExtrOcamlBasic.
Extraction Language OCaml.
Extraction "c19_model.ml" c19_report line_begin line_end line_bytes.
