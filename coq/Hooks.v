(* Hooks.v — the control-hook protocol of C08 as an executable checker over event logs.
   The log interleaves the hook events (start / success / failure / unwind / raise / apply) with the
   independent invocation trace (EEnter / EExit: every Control< Rule >::match call with its result),
   so "truthful" can be judged from the log alone: the closing hook of an attempt must agree with
   what the invocation returned.  The same function is the oracle applied to the implementation's
   log.  Model file: definitions only. *)
From PegtlV Require Import Base Decode Grammar Engine.

Inductive frame :=
| FInv (r : rid) (started : bool) (closed : option hook)    (* an invocation of rule r in progress *)
| FHook (k : nat) (r : rid).                                 (* between start and its closing hook *)

Definition hook_eqb (a b : hook) : bool :=
  match a, b with HkStart, HkStart | HkSuccess, HkSuccess | HkFailure, HkFailure | HkUnwind, HkUnwind => true | _, _ => false end.

(* strict = every control family has unwind(), no action throws, no must_if-style raising failure hook:
   then every attempt is closed by exactly one hook that agrees with the invocation's result *)
Definition consistent (strict : bool) (post : bool) (started : bool) (closed : option hook) (o : option bool) : bool :=
  match started, closed, o with
  | false, None, _ => true                              (* no hooks at this level: rule not control-enabled, or re-dispatch *)
  | true, Some HkSuccess, Some true => true             (* success exactly when matched and accepted *)
  | true, Some HkFailure, Some false => true            (* failure exactly on local failure *)
  | true, Some HkUnwind, None => true                   (* unwind exactly when an exception passes through *)
  | true, Some HkFailure, None => negb strict           (* the failure hook itself raised (must_if) *)
  | true, None, None => negb strict                     (* exception, but no unwind() to report it / the rule's own action threw *)
  | true, Some HkSuccess, None => negb strict || post   (* matched, then the byte-limit action attached to this rule raised *)
  | _, _, _ => false
  end.

Section Machine.
Variable strict : bool.
(* may an ERaise for `who` be emitted while rule r is the innermost attempt?  (must-context or raise rule) *)
Variable raise_ok : rid -> who -> bool.
(* does a byte-limit action (limit_bytes / check_bytes: they raise AFTER the rule matched) sit on rule r? *)
Variable post_raise : rid -> bool.

Definition top_rule (st : list frame) : option rid :=
  match st with FInv r _ _ :: _ => Some r | FHook _ r :: _ => Some r | [] => None end.

Definition step (st : list frame) (e : event) : option (list frame) :=
  match e with
  | EEnter _ r _ _ _ => Some (FInv r false None :: st)
  | EHook HkStart k r _ =>
      match st with
      | FInv r' false None :: tl => if Nat.eqb r r' then Some (FHook k r :: FInv r' true None :: tl) else None
      | _ => None                                        (* start twice, or outside an attempt of that rule *)
      end
  | EHook h k r _ =>
      match st with
      | FHook k' r' :: FInv r'' true None :: tl =>
          if Nat.eqb k k' && Nat.eqb r r' && Nat.eqb r r'' then Some (FInv r'' true (Some h) :: tl) else None
      | _ => None                                        (* closing hook without matching open start *)
      end
  | EExit _ r o _ =>
      match st with
      | FInv r' started closed :: tl =>
          if Nat.eqb r r' && consistent strict (post_raise r) started closed o then Some tl else None
      | FHook _ r' :: FInv r'' true None :: tl =>        (* left without any closing hook *)
          if Nat.eqb r r' && Nat.eqb r r'' && consistent strict (post_raise r) true None o then Some tl else None
      | _ => None
      end
  | EApply _ r _ _ | EApply0 _ r _ =>                    (* after the body, before the closing hook, of that rule *)
      match st with FHook _ r' :: _ => if Nat.eqb r r' then Some st else None | _ => None end
  | ERaise _ w _ =>
      match top_rule st with Some r => if raise_ok r w then Some st else None | None => None end
  | _ => Some st
  end.

Fixpoint run (st : list frame) (evs : list event) : option (list frame) :=
  match evs with
  | [] => Some st
  | e :: tl => match step st e with Some st' => run st' tl | None => None end
  end.
End Machine.

(* raise is legitimate from must< R > (for R), raise< T > (for T), and from the limit actions *)
Definition raise_ok_of (G : grammar) (C : cfg) (r : rid) (w : who) : bool :=
  match w with
  | WRule t =>
      match nth_error G r with
      | Some nd => match nhead nd, nsubs nd with
                   | HMust, [r1] => Nat.eqb t r1
                   | HRaise, [t1] => Nat.eqb t t1
                   | _, _ => false end
      | None => false
      end
  | WLimitDepth | WLimitBytes => true
  end.

(* coverage counters (contrib/coverage.hpp) as a fold over the log *)
Definition count_hook (h : hook) (k : nat) (r : rid) (evs : list event) : nat :=
  length (filter (fun e => match e with EHook h' k' r' _ => hook_eqb h h' && Nat.eqb k k' && Nat.eqb r r' | _ => false end) evs).
