(* LimitsLog.v — C18, part 2: a generic invariant of engine logs with respect to the depth guard.
   For ANY predicate B k evs ("the log evs is fine when produced at guarded depth k") that is closed under
   concatenation, contains the neutral events and respects the three shapes of an invocation frame
        unguarded rule       EEnter r :: evs ++ [EExit r]   with evs produced at depth k
        guarded, within      EEnter r :: evs ++ [EExit r]   with evs produced at depth k + 1
        guarded, exceeding   [EEnter r; ERaise limit_depth; EExit r (exception)]
   every log of eval satisfies B (dDepth d): induction on the fuel, one lemma per helper (as EngineFacts/HookFacts).
   Instances (LimitsDepth.v): the RAII counter machine; balance of the counter. *)
From Coq Require Import Lia.
From PegtlV Require Import Base Decode Grammar Engine LimitsSpec.

Definition neutral (e : event) : Prop :=
  match e with
  | EEnter _ _ _ _ _ | EExit _ _ _ _ => False
  | ERaise _ WLimitDepth _ => False
  | _ => True
  end.

Section LogInv.
Variable G : grammar.
Variable C : cfg.
Variable Fams : nat -> Prop.          (* the action families the run can be in (closed under the switches of G and C) *)
Hypothesis Hact_nodes : forall r nd fam, nth_error G r = Some nd -> nhead nd = HAction fam -> Fams fam.
Hypothesis Hact_change : forall fam r fam', Fams fam ->
  acts C fam r = AKMatch (MChangeAction fam') \/ acts C fam r = AKMatch (MChangeActionAndState fam') -> Fams fam'.

(* is rule r guarded when reached in family fam, and with which limit *)
Definition active (fam : nat) (r : rid) : option nat :=
  match nth_error G r with
  | Some nd => if nenabled nd then ld_of (acts C fam r) else None
  | None => None
  end.

Variable B : nat -> list event -> Prop.
Hypothesis B_nil : forall k, B k [].
Hypothesis B_app : forall k a b, B k a -> B k b -> B k (a ++ b).
Hypothesis B_neutral : forall k e, neutral e -> B k [e].
Hypothesis B_frame_plain : forall fam k ctl r a m p o p' evs, Fams fam -> active fam r = None ->
  B k evs -> B k (EEnter ctl r a m p :: evs ++ [EExit ctl r o p']).
Hypothesis B_frame_in : forall fam k n ctl r a m p o p' evs, Fams fam -> active fam r = Some n -> (S k <= n)%nat ->
  B (S k) evs -> B k (EEnter ctl r a m p :: evs ++ [EExit ctl r o p']).
Hypothesis B_frame_raise : forall fam k n ctl r a m p, Fams fam -> active fam r = Some n -> (n < S k)%nat ->
  B k [EEnter ctl r a m p; ERaise ctl WLimitDepth p; EExit ctl r None p].

Definition GoodL (k : nat) (x : result) : Prop := match x with Res _ _ evs => B k evs | _ => True end.

Lemma B_cons k e evs : neutral e -> B k evs -> B k (e :: evs).
Proof. intros He H. change (B k ([e] ++ evs)). apply B_app; [apply B_neutral; exact He | exact H]. Qed.
Lemma B_snoc k e evs : neutral e -> B k evs -> B k (evs ++ [e]).
Proof. intros He H. apply B_app; [exact H | apply B_neutral; exact He]. Qed.
Lemma B_all k evs : Forall neutral evs -> B k evs.
Proof. induction 1; [apply B_nil | apply B_cons; assumption]. Qed.
Lemma GoodL_prepend k evs x : B k evs -> GoodL k x -> GoodL k (prepend evs x).
Proof. destruct x; simpl; auto. Qed.

Ltac dres x := destruct x as [[| |?e] ?c ?evs| |].
Ltac solveB := repeat first [ assumption | apply B_nil | (apply B_cons; [exact I|]) | apply B_app | (apply B_neutral; exact I) | (apply B_all; assumption) ].

Section HelperFacts.
Variable k : nat.
Definition okd (d : dyn) : Prop := Fams (dAct d) /\ dDepth d = k.
Variable ev : dyn -> rid -> cursor -> result.
Hypothesis Hev : forall d r c, okd d -> GoodL k (ev d r c).

Lemma guard_L m s x : GoodL k x -> GoodL k (guard m s x).
Proof. dres x; simpl; auto. Qed.
Lemma look_L i s x : GoodL k x -> GoodL k (look i s x).
Proof. dres x; simpl; auto. Qed.
Lemma bind_L x kk : GoodL k x -> (forall c, GoodL k (kk c)) -> GoodL k (bind x kk).
Proof. intros Hx Hk. dres x; simpl in *; auto. apply GoodL_prepend; auto. Qed.

Lemma seq_all_L d rs : okd d -> forall c, GoodL k (seq_all ev d rs c).
Proof. intros Hd. induction rs as [|r rs IH]; intros c; simpl; [apply B_nil|]. apply bind_L; [apply Hev; exact Hd | exact IH]. Qed.
Lemma sor_any_L d rs : okd d -> forall c, GoodL k (sor_any ev d rs c).
Proof.
  intros Hd. induction rs as [|r rs IH]; intros c; [apply B_nil|]. destruct rs as [|r2 rs']; [apply Hev; exact Hd|].
  change (sor_any ev d (r :: r2 :: rs') c) with (match ev (req d) r c with Res Fail c' evs => prepend evs (sor_any ev d (r2 :: rs') c') | x => x end).
  pose proof (Hev (req d) r c Hd) as H. dres (ev (req d) r c); simpl in *; auto. apply GoodL_prepend; [exact H | apply IH].
Qed.
Lemma star_loop_L n d rs : okd d -> forall c, GoodL k (star_loop ev n d rs c).
Proof.
  intros Hd. induction n as [|n IH]; intros c; simpl; [exact I|].
  pose proof (seq_all_L (req d) rs Hd c) as H. dres (seq_all ev (req d) rs c); simpl in *; auto. apply GoodL_prepend; [exact H | apply IH].
Qed.
Lemma until1_L n d cn : okd d -> forall c, GoodL k (until1_loop C ev n d cn c).
Proof.
  intros Hd. induction n as [|n IH]; intros c; cbn [until1_loop]; [exact I|].
  pose proof (Hev (req d) cn c Hd) as H. dres (ev (req d) cn c); cbn [GoodL] in H |- *; auto.
  destruct (in_empty c0); [exact H|]. destruct (bump_scan (eol_ch (ceol C)) 1 c0) as [c2|]; [|exact I]. apply GoodL_prepend; [exact H | apply IH].
Qed.
Lemma until2_L n d cn r : okd d -> forall c, GoodL k (until2_loop ev n d cn r c).
Proof.
  intros Hd. induction n as [|n IH]; intros c; simpl; [exact I|].
  pose proof (Hev (req d) cn c Hd) as H. dres (ev (req d) cn c); simpl in *; auto.
  pose proof (Hev (opt_ d) r c0 Hd) as H2. dres (ev (opt_ d) r c0); simpl in *; auto; try (apply B_app; assumption).
  apply GoodL_prepend; [apply B_app; assumption | apply IH].
Qed.
Lemma rep_loop_L n d r : okd d -> forall c, GoodL k (rep_loop ev n d r c).
Proof. intros Hd. induction n as [|n IH]; intros c; simpl; [apply B_nil|]. apply bind_L; [apply Hev; exact Hd | exact IH]. Qed.
Lemma repopt_loop_L n d r : okd d -> forall c, GoodL k (fst (repopt_loop ev n d r c)).
Proof.
  intros Hd. induction n as [|n IH]; intros c; simpl; [apply B_nil|].
  pose proof (Hev (req d) r c Hd) as H. dres (ev (req d) r c); simpl in *; auto.
  specialize (IH c0). destruct (repopt_loop ev n d r c0) as [x b]. simpl in *. apply GoodL_prepend; assumption.
Qed.
Lemma h_seq_L d rs c : okd d -> GoodL k (h_seq ev d rs c).
Proof. intros Hd. unfold h_seq. destruct rs as [|r1 [|r2 rs]]; [apply B_nil | apply Hev; exact Hd | apply guard_L, seq_all_L; exact Hd]. Qed.
Lemma h_at_L i d r1 c : okd d -> GoodL k (h_at ev i d r1 c).
Proof. intros Hd. apply look_L, Hev. exact Hd. Qed.
Lemma star_strict_L n d r1 rs : okd d -> forall c, GoodL k (star_strict_loop ev n d r1 rs c).
Proof.
  intros Hd. induction n as [|n IH]; intros c; simpl; [exact I|].
  pose proof (Hev (req d) r1 c Hd) as H. dres (ev (req d) r1 c); simpl in *; auto.
  pose proof (h_seq_L (opt_ d) rs c0 Hd) as H2. dres (h_seq ev (opt_ d) rs c0); simpl in *; auto; try (apply B_app; assumption).
  apply GoodL_prepend; [apply B_app; assumption | apply IH].
Qed.
Lemma rematch_all_L d rs i2 : okd d -> GoodL k (rematch_all ev d rs i2).
Proof.
  intros Hd. induction rs as [|r rs IH]; simpl; [apply B_nil|].
  pose proof (Hev d r i2 Hd) as H. dres (ev d r i2); simpl in *; auto. apply GoodL_prepend; assumption.
Qed.
Lemma st_scope_L b r c0 x : GoodL k x -> GoodL k (st_scope b r c0 x).
Proof.
  dres x; simpl; auto; intros H.
  - apply B_cons; [exact I|]. apply B_app; [exact H|]. destruct b; simpl; repeat (apply B_cons; [exact I|]); apply B_nil.
  - apply B_cons; [exact I|]. apply B_snoc; [exact I | exact H].
  - apply B_cons; [exact I|]. apply B_snoc; [exact I | exact H].
Qed.
Lemma run_inline_neutral acts_ b e : Forall neutral (snd (run_inline C acts_ b e)).
Proof.
  induction acts_ as [|a tl IH]; simpl; [constructor|].
  destruct (ibeh C a b e) as [[|]|t]; simpl; try (constructor; [exact I | constructor]).
  destruct (run_inline C tl b e) as [x evs]. simpl in *. constructor; [exact I | exact IH].
Qed.
Lemma run_inline0_neutral acts_ p : Forall neutral (snd (run_inline0 C acts_ p)).
Proof.
  induction acts_ as [|a tl IH]; simpl; [constructor|].
  destruct (ibeh C a p p) as [[|]|t]; simpl; try (constructor; [exact I | constructor]).
  destruct (run_inline0 C tl p) as [x evs]. simpl in *. constructor; [exact I | exact IH].
Qed.
Lemma inline_result_L x c1 c2 pre : B k pre -> Forall neutral (snd x) -> GoodL k (inline_result x c1 c2 pre).
Proof.
  intros Hp Hn. destruct x as [[[|]|t] evs]; simpl in *; apply B_app; try exact Hp; apply B_all; exact Hn.
Qed.

Lemma atom_L h c x : eval_atom (ceol C) h c = Some x -> GoodL k x.
Proof.
  intros Ea.
  assert (A : forall c' o, GoodL k (Res o c' [])) by (intros; apply B_nil).
  assert (O : forall o, GoodL k (ok_or_err o)) by (intros [?|]; simpl; [apply B_nil | exact I]).
  assert (BH : forall ch b n, GoodL k (bump_help ch b n c)) by (intros; unfold bump_help; apply O).
  assert (PT : forall ch pk t, GoodL k (peek_test_bump ch pk t c)).
  { intros. unfold peek_test_bump. destruct (do_peek pk c); try exact I; [apply A|]. destruct (t data); [apply BH | apply A]. }
  destruct h; simpl in Ea; try discriminate Ea; try (injection Ea as <-); try apply A; try apply O; try apply PT.
  - destruct (eol_match (ceol C) c) as [[[[|] z] c']|]; try apply A; exact I.
  - destruct (eol_match (ceol C) c) as [[[[|] z] c']|]; try apply A; exact I.
  - destruct pk; injection Ea as <-;
    try (match goal with |- GoodL k (match ?x with PNone => _ | PSome _ _ => _ | POob => _ end) => destruct x; [apply A | apply O | exact I] end).
    destruct (in_empty c); [apply A | apply O].
  - destruct (_ <=? _)%nat; [|apply A]. destruct (take _ _); [|exact I]. destruct (eqb_bytes _ _); [apply BH | apply A].
  - destruct (_ <=? _)%nat; [|apply A]. destruct (take _ _); [|exact I]. destruct (ieqb_bytes _ _); [apply BH | apply A].
  - destruct (_ <=? _)%nat; [apply O | apply A].
Qed.

Lemma eval_head_L n self h subs d c :
  okd d -> (forall fam, h = HAction fam -> Fams fam) -> GoodL k (eval_head C ev n self h subs d c).
Proof.
  intros Hd Hfam. unfold eval_head.
  destruct (eval_atom (ceol C) h c) as [x|] eqn:Ea; [eapply atom_L; exact Ea|].
  assert (F : GoodL k (Res Fail c [])) by (apply B_nil).
  destruct h; try exact F; try (simpl in Ea; discriminate Ea).
  - apply h_seq_L; exact Hd.
  - apply sor_any_L; exact Hd.
  - apply star_loop_L; exact Hd.
  - destruct subs as [|r1 [|? ?]]; try exact F. unfold h_plus. apply bind_L; [apply Hev; exact Hd | intros; apply star_loop_L; exact Hd].
  - unfold h_partial. pose proof (seq_all_L (req d) subs Hd c) as H. dres (seq_all ev (req d) subs c); simpl in *; auto.
  - destruct subs as [|r1 [|? ?]]; try exact F. apply h_at_L; exact Hd.
  - destruct subs as [|r1 [|? ?]]; try exact F. apply h_at_L; exact Hd.
  - destruct subs as [|r1 [|? ?]]; try exact F. apply guard_L, until1_L; exact Hd.
  - destruct subs as [|cn [|r1 [|? ?]]]; try exact F. apply guard_L, until2_L; exact Hd.
  - destruct subs as [|r1 [|? ?]]; try exact F. apply guard_L, rep_loop_L; exact Hd.
  - destruct subs as [|r1 [|? ?]]; try exact F. unfold h_rep_min_max. apply guard_L. apply bind_L; [apply rep_loop_L; exact Hd|].
    intros c1. pose proof (repopt_loop_L (mx - mn) d r1 Hd c1) as H. destruct (repopt_loop ev (mx - mn) d r1 c1) as [x b]. simpl in H.
    dres x; simpl in *; auto. destruct b; [|exact H]. apply GoodL_prepend; [exact H | apply h_at_L; exact Hd].
  - destruct subs as [|r1 [|? ?]]; try exact F. apply repopt_loop_L; exact Hd.
  - destruct subs as [|cn [|t [|e [|? ?]]]]; try exact F. unfold h_if_then_else. apply guard_L.
    pose proof (Hev (req d) cn c Hd) as H. dres (ev (req d) cn c); simpl in *; auto; apply GoodL_prepend; auto; apply Hev; exact Hd.
  - destruct subs as [|cn rest_]; try exact F. unfold h_if_must.
    assert (Hd2 : okd (if dflt then req d else d)) by (destruct dflt; exact Hd).
    pose proof (Hev (if dflt then req d else d) cn c Hd2) as H. dres (ev (if dflt then req d else d) cn c); simpl in *; auto.
    destruct rest_ as [|m ?]; [exact H|]. pose proof (Hev d m c0 Hd) as H2. dres (ev d m c0); simpl in *; auto; apply B_app; assumption.
  - destruct subs as [|r1 [|? ?]]; try exact F. unfold h_must, raise_at.
    pose proof (Hev (opt_ d) r1 c Hd) as H. dres (ev (opt_ d) r1 c); simpl in *; auto.
    apply B_snoc; [exact I | exact H].
  - destruct subs as [|t [|? ?]]; try exact F. unfold raise_at. simpl. apply B_neutral. exact I.
  - destruct subs as [|r1 rs]; try exact F. unfold h_strict. apply guard_L.
    pose proof (Hev (req d) r1 c Hd) as H. dres (ev (req d) r1 c); simpl in *; auto. apply GoodL_prepend; [exact H | apply h_seq_L; exact Hd].
  - destruct subs as [|r1 rs]; try exact F. apply guard_L, star_strict_L; exact Hd.
  - destruct subs as [|hd rs]; try exact F. unfold h_rematch. destruct rs as [|r rs']; [apply Hev; exact Hd|].
    pose proof (Hev (opt_ d) hd c Hd) as H. dres (ev (opt_ d) hd c); cbn [GoodL] in H |- *; auto.
    destruct (take _ (rest c)) as [span|]; [|exact I].
    pose proof (rematch_all_L (opt_ d) (r :: rs') (mkcur span (cpos c)) Hd) as H2.
    dres (rematch_all ev (opt_ d) (r :: rs') (mkcur span (cpos c))); cbn [GoodL] in H2 |- *; auto; apply B_app; assumption.
  - destruct subs as [|r1 [|? ?]]; try exact F. unfold h_try_false.
    pose proof (Hev (opt_ d) r1 c Hd) as H. dres (ev (opt_ d) r1 c); simpl in *; auto.
  - destruct subs as [|r1 [|? ?]]; try exact F. unfold h_try_nested.
    pose proof (Hev (opt_ d) r1 c Hd) as H. dres (ev (opt_ d) r1 c); simpl in *; auto.
    destruct (catches f e); simpl; [|exact H]. apply B_snoc; [exact I | exact H].
  - destruct subs as [|r1 [|? ?]]; try exact F. apply st_scope_L, Hev; exact Hd.
  - destruct subs as [|r1 [|? ?]]; try exact F. apply Hev. destruct Hd as [_ Hk]. split; [simpl; apply Hfam; reflexivity | exact Hk].
  - destruct subs as [|r1 [|? ?]]; try exact F. apply Hev; exact Hd.
  - destruct subs as [|r1 [|? ?]]; try exact F. apply Hev; exact Hd.
  - destruct subs as [|r1 [|? ?]]; try exact F. apply Hev; exact Hd.
  - destruct subs; try exact F. unfold h_apply. destruct (dA d); [|apply B_nil].
    apply inline_result_L; [apply B_nil | apply run_inline_neutral].
  - destruct subs; try exact F. unfold h_apply0. destruct (dA d); [|apply B_nil].
    apply inline_result_L; [apply B_nil | apply run_inline0_neutral].
  - destruct subs as [|r1 [|? ?]]; try exact F. unfold h_if_apply.
    destruct (dA d && _); [|apply Hev; exact Hd].
    pose proof (Hev (set_A (opt_ d) true) r1 c Hd) as H. dres (ev (set_A (opt_ d) true) r1 c); simpl in *; auto.
    apply inline_result_L; [exact H | apply run_inline_neutral].
Qed.

Lemma run_action_neutral d ak r b e : Forall neutral (snd (run_action C d ak r b e)).
Proof.
  unfold run_action. destruct (dA d); [|constructor]. destruct ak as [|isb|isb|m]; simpl; try constructor; try exact I; constructor.
Qed.

Lemma match_hpp_L ak body d r c :
  (forall d c, okd d -> GoodL k (body d c)) -> okd d -> GoodL k (match_hpp C ak body d r c).
Proof.
  intros Hb Hd. unfold match_hpp.
  assert (Hd2 : okd (if use_guard d ak then opt_ d else d)) by (destruct (use_guard d ak); exact Hd).
  pose proof (Hb _ c Hd2) as H. dres (body (if use_guard d ak then opt_ d else d) c); simpl in H; auto.
  - pose proof (run_action_neutral d ak r (cpos c) (cpos c0)) as Hn.
    destruct (run_action C d ak r (cpos c) (cpos c0)) as [[[|]|t] ea]; simpl in Hn |- *.
    + solveB.
    + unfold fail_hook. destruct (raise_on_failure C (dCtl d) r); simpl; solveB.
    + solveB.
  - unfold fail_hook. destruct (raise_on_failure C (dCtl d) r); simpl; solveB.
  - simpl. destruct (has_unwind C (dCtl d)); solveB.
Qed.

(* every match-level action except limit_depth (which is treated together with the invocation frame) *)
Lemma action_match_L plain enabled m d r c :
  (forall d c, okd d -> GoodL k (plain d c)) -> okd d -> acts C (dAct d) r = AKMatch m ->
  (forall n, m <> MLimitDepth n) -> GoodL k (action_match ev plain enabled m d r c).
Proof.
  intros Hp Hd Ha Hm. destruct m; simpl.
  - apply Hev. destruct Hd as [Hf Hk]. split; [simpl; eapply Hact_change; [exact Hf | left; exact Ha] | exact Hk].
  - apply st_scope_L, Hp; exact Hd.
  - apply st_scope_L, Hev. destruct Hd as [Hf Hk]. split; [simpl; eapply Hact_change; [exact Hf | right; exact Ha] | exact Hk].
  - apply Hp; exact Hd.
  - apply Hp; exact Hd.
  - apply Hp; exact Hd.
  - exfalso. eapply Hm. reflexivity.
  - pose proof (Hp d (mkcur (firstn n (rest c)) (cpos c)) Hd) as H.
    dres (plain d (mkcur (firstn n (rest c)) (cpos c))); simpl in H |- *; auto.
    destruct (in_empty c0 && negb (is_nil (skipn n (rest c)))); simpl; [|exact H]. apply B_snoc; [exact I | exact H].
  - pose proof (Hp d c Hd) as H. dres (plain d c); simpl in H |- *; auto.
    destruct (n <? length (rest c) - length (rest c0))%nat; simpl; exact H.
Qed.

End HelperFacts.

Theorem eval_L f : forall d r c, Fams (dAct d) -> GoodL (dDepth d) (eval G C f d r c).
Proof.
  induction f as [|f IH]; intros d r c Hf; simpl; [exact I|].
  destruct (nth_error G r) as [nd|] eqn:En; [|apply B_nil].
  assert (Hev : forall k d' r' c', okd k d' -> GoodL k (eval G C f d' r' c')).
  { intros k d' r' c' [Hf' Hk]. rewrite <- Hk. apply IH. exact Hf'. }
  assert (Hplain : forall k ak d' c', okd k d' -> GoodL k
            (if nenabled nd then match_hpp C ak (eval_head C (eval G C f) f r (nhead nd) (nsubs nd)) d' r c'
             else eval_head C (eval G C f) f r (nhead nd) (nsubs nd) d' c')).
  { intros k ak d' c' Hd'.
    assert (Hh : forall d2 c2, okd k d2 -> GoodL k (eval_head C (eval G C f) f r (nhead nd) (nsubs nd) d2 c2)).
    { intros d2 c2 Hd2. apply eval_head_L; [apply Hev | exact Hd2 | intros fam Hh; eapply Hact_nodes; eauto]. }
    destruct (nenabled nd); [apply match_hpp_L; [exact Hh | exact Hd'] | apply Hh; exact Hd']. }
  assert (Hd : okd (dDepth d) d) by (split; [exact Hf | reflexivity]).
  assert (Wrap : forall x, active (dAct d) r = None -> GoodL (dDepth d) x -> GoodL (dDepth d) (traced (dCtl d) r (dA d) (dM d) c x)).
  { intros x Hact Hx. destruct x as [o c1 evs| |]; simpl in *; auto. eapply B_frame_plain; eauto. }
  destruct (acts C (dAct d) r) as [| | |mk] eqn:Ea.
  - apply Wrap; [unfold active; rewrite En, Ea; destruct (nenabled nd); reflexivity | apply Hplain; exact Hd].
  - apply Wrap; [unfold active; rewrite En, Ea; destruct (nenabled nd); reflexivity | apply Hplain; exact Hd].
  - apply Wrap; [unfold active; rewrite En, Ea; destruct (nenabled nd); reflexivity | apply Hplain; exact Hd].
  - destruct mk as [fam| |fam|ctl| | |n|n|n];
      try (apply Wrap; [unfold active; rewrite En, Ea; destruct (nenabled nd); reflexivity |
                        apply action_match_L; [apply Hev | intros; apply Hplain; assumption | exact Hd | exact Ea | intros n0; discriminate]]).
    (* limit_depth *)
    simpl. destruct (nenabled nd) eqn:Een.
    + assert (Hact : active (dAct d) r = Some n) by (unfold active; rewrite En, Ea, Een; reflexivity).
      destruct (n <? S (dDepth d))%nat eqn:El.
      * apply Nat.ltb_lt in El. unfold raise_at. simpl. eapply B_frame_raise; eauto.
      * apply Nat.ltb_ge in El.
        assert (Hd' : okd (S (dDepth d)) (set_depth d (S (dDepth d)))) by (split; [exact Hf | reflexivity]).
        pose proof (Hplain (S (dDepth d)) AKNone (set_depth d (S (dDepth d))) c Hd') as H. try rewrite Een in H.
        destruct (match_hpp C AKNone (eval_head C (eval G C f) f r (nhead nd) (nsubs nd)) (set_depth d (S (dDepth d))) r c) as [o c1 evs| |]; simpl in *; auto.
        eapply B_frame_in; eauto.
    + apply Wrap; [unfold active; rewrite En, Een; reflexivity|].
      pose proof (Hplain (dDepth d) AKNone d c Hd) as H. try rewrite Een in H. exact H.
Qed.

End LogInv.
