(* EquivHeads.v — C09: the semantic lemmas for the rule classes with their own match():
   the helper of the head, run on arbitrary sub-rule behaviours ("closures"), refines and is refined
   by the evaluation of its documented expansion built from the other helpers on related closures.
   Every lemma is stated for ALL closures (sub-rules that consume before failing, nullable ones,
   raising ones are points of the quantifier), all loop fuels and all numeric parameters. *)
From Coq Require Import Lia Bool.
From PegtlV Require Import Base Decode Grammar Engine Mono Equiv EquivFacts.

Definition closure := dyn -> cursor -> result.
(* a local callee: rule id i denotes the i-th closure *)
Definition lcl (fs : list closure) : callee :=
  fun d i c => match nth_error fs i with Some f => f d c | None => Res Fail c [] end.
(* the node "head h over the sub-behaviours fs" *)
Definition c_node (C : cfg) (n : nat) (h : head) (fs : list closure) : closure :=
  fun d c => eval_head C (lcl fs) n 0 h (seq 0 (length fs)) d c.

(* cross relation of two behaviours: same verdict whatever the modes (failure cursors compared when both required) *)
Definition cS (f g : closure) : Prop := forall d1 d2 c, Sim false (dM d1) (dM d2) (f d1 c) (g d2 c).
(* C02 for a behaviour: a local failure in required mode has restored the cursor *)
Definition crest (f : closure) : Prop := forall d c c' evs, dM d = true -> f d c = Res Fail c' evs -> c' = c.

Lemma sim_prepend_l bf bx e x y : sim bf bx (prepend e x) y <-> sim bf bx x y.
Proof. dres x; simpl; try tauto; split; intros [H|H]; try discriminate; right; dres y; simpl in *; auto. Qed.
Lemma sim_prepend_r bf bx e x y : sim bf bx x (prepend e y) <-> sim bf bx x y.
Proof. dres y; simpl; try tauto; split; intros [H|H]; try (left; exact H); right; dres x; simpl in *; auto. Qed.
Lemma sim_evs_l bf bx o c e e' y : sim bf bx (Res o c e) y <-> sim bf bx (Res o c e') y.
Proof. split; intros [H|H]; try discriminate; right; destruct o; dres y; simpl in *; auto. Qed.
Lemma sim_evs_r bf bx o c e e' y : sim bf bx y (Res o c e) <-> sim bf bx y (Res o c e').
Proof. split; (intros [H|H]; [left; exact H|]); right; destruct o; dres y; simpl in *; auto. Qed.
Lemma sim_bind_prepend_l bf bx e x k y : sim bf bx (bind (prepend e x) k) y <-> sim bf bx (bind x k) y.
Proof. dres x; simpl; try tauto; try apply sim_evs_l. rewrite !sim_prepend_l. tauto. Qed.
Lemma sim_bind_prepend_r bf bx e x k y : sim bf bx y (bind (prepend e x) k) <-> sim bf bx y (bind x k).
Proof. dres x; simpl; try tauto; try apply sim_evs_r. rewrite !sim_prepend_r. tauto. Qed.

(* what a cross-related pair looks like once the left result is known *)
Lemma cS_ok f g d1 d2 c c' evs : cS f g -> f d1 c = Res Ok c' evs -> exists evs', g d2 c = Res Ok c' evs'.
Proof. intros H E. destruct (H d1 d2 c) as [K|K]; rewrite E in K; [discriminate|]. dres (g d2 c); simpl in K; try contradiction. subst. eauto. Qed.
Lemma cS_fail f g d1 d2 c c' evs : cS f g -> f d1 c = Res Fail c' evs -> exists c'' evs', g d2 c = Res Fail c'' evs'.
Proof. intros H E. destruct (H d1 d2 c) as [K|K]; rewrite E in K; [discriminate|]. dres (g d2 c); simpl in K; try contradiction. eauto. Qed.
Lemma cS_exc f g d1 d2 c c' x evs : cS f g -> f d1 c = Res (Exc x) c' evs -> exists c'' evs', g d2 c = Res (Exc x) c'' evs'.
Proof. intros H E. destruct (H d1 d2 c) as [K|K]; rewrite E in K; [discriminate|]. dres (g d2 c); simpl in K; try contradiction. destruct K as [<- _]. eauto. Qed.
Lemma cS_err f g d1 d2 c : cS f g -> f d1 c = Err -> g d2 c = Err.
Proof. intros H E. destruct (H d1 d2 c) as [K|K]; rewrite E in K; [discriminate|]. dres (g d2 c); simpl in K; try contradiction. reflexivity. Qed.

(* rewrite the first call  g ?d c  in the goal, knowing what the related f returned at c *)
Ltac cs_ok H g c E := match goal with |- context [g ?d2 c] =>
  let ev := fresh "ev" in let K := fresh "K" in destruct (cS_ok _ _ _ d2 _ _ _ H E) as [ev K]; rewrite K; clear K end.
Ltac cs_fail H g c E := match goal with |- context [g ?d2 c] =>
  let cc := fresh "cc" in let ev := fresh "ev" in let K := fresh "K" in destruct (cS_fail _ _ _ d2 _ _ _ H E) as [cc [ev K]]; rewrite K; clear K end.
(* same, for a call in required mode whose failure cursor is then known to be c *)
Ltac cs_fail_r H Hr g c E := match goal with |- context [g ?d2 c] =>
  let cc := fresh "cc" in let ev := fresh "ev" in let K := fresh "K" in destruct (cS_fail _ _ _ d2 _ _ _ H E) as [cc [ev K]];
  pose proof (Hr d2 c cc ev eq_refl K); subst cc; rewrite K; clear K end.
Ltac cs_exc H g c E := match goal with |- context [g ?d2 c] =>
  let cc := fresh "cc" in let ev := fresh "ev" in let K := fresh "K" in destruct (cS_exc _ _ _ d2 _ _ _ _ H E) as [cc [ev K]]; rewrite K; clear K end.
Ltac cs_err H g c E := match goal with |- context [g ?d2 c] => rewrite (cS_err _ _ _ d2 _ H E) end.

(* ================= until< R, S > == seq< star< not_at< R >, S >, R > ================= *)
Section Until2.
Variable C : cfg.
(* the expansion's core over behaviours gc gs: star< seq< not_at< gc >, gs > > then gc *)
Definition u2_na (gc : closure) : closure := c_node C 0 HNotAt [gc].
Definition u2_sq (gc gs : closure) : closure := c_node C 0 HSeq [u2_na gc; gs].
Definition u2_st (n : nat) (gc gs : closure) : closure := c_node C n HStarPartial [u2_sq gc gs].
Definition u2_doc (n : nat) (gc gs : closure) : closure := c_node C 0 HSeq [u2_st n gc gs; gc].
Definition u2_impl (n : nat) (fc fs : closure) : closure := c_node C n HUntil2 [fc; fs].

Variables fc fs gc gs : closure.
Hypothesis Hc : cS fc gc.
Hypothesis Hs : cS fs gs.

(* impl refines doc *)
Lemma until2_loop_A (Hrc : crest fc) d1 dS dG : forall n1 n2, n1 <= n2 -> forall c,
  sim false false (until2_loop (lcl [fc; fs]) n1 d1 0 1 c)
                  (bind (star_loop (lcl [u2_sq gc gs]) n2 dS [0] c) (fun c1 => bind (gc dG c1) (fun c2 => Res Ok c2 []))).
Proof.
  induction n1 as [|n1 IH]; intros n2 Hn c; [left; reflexivity|].
  destruct n2 as [|n2]; [lia|].
  cbn [until2_loop star_loop seq_all lcl nth_error].
  unfold u2_sq at 1. unfold c_node, eval_head. cbn [eval_atom length seq h_seq seq_all lcl nth_error].
  unfold u2_na at 1. unfold c_node, eval_head. cbn [eval_atom length seq lcl nth_error]. unfold h_at. cbn [lcl nth_error].
  destruct (fc (req d1) c) as [[| |x] c' evs| |] eqn:E.
  - (* the condition matches: the loop ends, then the condition again *)
    cs_ok Hc gc c E. simpl. cs_ok Hc gc c E. simpl. right. simpl. reflexivity.
  - pose proof (Hrc (req d1) c c' evs eq_refl E) as ->.
    cs_fail Hc gc c E. simpl.
    destruct (fs (opt_ d1) c) as [[| |x] c2 evs2| |] eqn:E2.
    + cs_ok Hs gs c E2. simpl.
      rewrite sim_prepend_l. rewrite sim_bind_prepend_r. apply IH. lia.
    + cs_fail Hs gs c E2. simpl. cs_fail Hc gc c E. simpl. right. simpl. exact I.
    + cs_exc Hs gs c E2. simpl. right. simpl. split; [reflexivity | exact I].
    + left. reflexivity.
    + cs_err Hs gs c E2. simpl. right. exact I.
  - cs_exc Hc gc c E. simpl. right. simpl. split; [reflexivity | exact I].
  - left. reflexivity.
  - cs_err Hc gc c E. simpl. right. exact I.
Qed.

Lemma until2_A (Hrc : crest fc) n1 n2 d1 d2 c : n1 <= n2 ->
  Sim false (dM d1) (dM d2) (u2_impl n1 fc fs d1 c) (u2_doc n2 gc gs d2 c).
Proof.
  intros Hn. unfold u2_impl, u2_doc, c_node, eval_head.
  cbn [eval_atom length seq h_until2 h_seq seq_all lcl nth_error].
  apply sim_guard. unfold Sim. rewrite flagf_ff, flagx_ff.
  unfold u2_st at 1. unfold c_node, eval_head. cbn [eval_atom length seq].
  apply until2_loop_A; assumption.
Qed.

(* doc refines impl; the left behaviours must be consistent with themselves across modes (cS fc fc):
   the expansion runs the condition under not_at (actions off, optional) and again directly *)
Lemma until2_loop_B (Hcc : cS fc fc) (Hrg : crest gc) d2 dS dG : forall n1 n2, n1 <= n2 -> forall c,
  sim false false (bind (star_loop (lcl [u2_sq fc fs]) n1 dS [0] c) (fun c1 => bind (fc dG c1) (fun c2 => Res Ok c2 [])))
                  (until2_loop (lcl [gc; gs]) n2 d2 0 1 c).
Proof.
  induction n1 as [|n1 IH]; intros n2 Hn c; [left; reflexivity|].
  destruct n2 as [|n2]; [lia|].
  cbn [until2_loop star_loop seq_all lcl nth_error].
  unfold u2_sq at 1. unfold c_node, eval_head. cbn [eval_atom length seq h_seq seq_all lcl nth_error].
  unfold u2_na at 1. unfold c_node, eval_head. cbn [eval_atom length seq lcl nth_error]. unfold h_at. cbn [lcl nth_error].
  match goal with |- context [look true c (fc ?d c)] => destruct (fc d c) as [[| |x] c' evs| |] eqn:E end.
  - simpl. cs_ok Hcc fc c E. simpl. cs_ok Hc gc c E. right. simpl. reflexivity.
  - simpl.
    destruct (fs (opt_ (req dS)) c) as [[| |x] c2 evs2| |] eqn:E2; simpl.
    + cs_fail_r Hc Hrg gc c E. cs_ok Hs gs c E2.
      rewrite sim_bind_prepend_l. rewrite sim_prepend_r. apply IH. lia.
    + cs_fail Hcc fc c E. simpl. cs_fail_r Hc Hrg gc c E. cs_fail Hs gs c E2. right. simpl. exact I.
    + cs_fail_r Hc Hrg gc c E. cs_exc Hs gs c E2. right. simpl. split; [reflexivity | exact I].
    + left. reflexivity.
    + cs_fail_r Hc Hrg gc c E. cs_err Hs gs c E2. right. exact I.
  - simpl. cs_exc Hc gc c E. right. simpl. split; [reflexivity | exact I].
  - left. reflexivity.
  - simpl. cs_err Hc gc c E. right. exact I.
Qed.

Lemma until2_B (Hcc : cS fc fc) (Hrg : crest gc) n1 n2 d1 d2 c : n1 <= n2 ->
  Sim false (dM d1) (dM d2) (u2_doc n1 fc fs d1 c) (u2_impl n2 gc gs d2 c).
Proof.
  intros Hn. unfold u2_impl, u2_doc, c_node, eval_head.
  cbn [eval_atom length seq h_until2 h_seq seq_all lcl nth_error].
  apply sim_guard. unfold Sim. rewrite flagf_ff, flagx_ff.
  unfold u2_st at 1. unfold c_node, eval_head. cbn [eval_atom length seq].
  apply until2_loop_B; assumption.
Qed.
End Until2.

(* ---------- closure-level names of the classical nodes used in the expansions ---------- *)
Section Nodes.
Variable C : cfg.
Definition c_seq (fs : list closure) : closure := c_node C 0 HSeq fs.
Definition c_sor (fs : list closure) : closure := c_node C 0 HSor fs.
Definition c_not (f : closure) : closure := c_node C 0 HNotAt [f].
Definition c_opt (f : closure) : closure := c_node C 0 HPartial [f].
Definition c_star (n : nat) (f : closure) : closure := c_node C n HStarPartial [f].
Definition c_success : closure := c_node C 0 HSuccess [].
Definition c_failure : closure := c_node C 0 HFailure [].
Definition c_ite (a b e : closure) : closure := c_node C 0 HIfThenElse [a; b; e].
Definition c_if_must (dflt : bool) (a m : closure) : closure := c_node C 0 (HIfMust dflt) [a; m].
Definition c_strict (fs : list closure) : closure := c_node C 0 HStrict fs.
Definition c_rep (k : nat) (f : closure) : closure := c_node C 0 (HRep k) [f].
Definition c_rep_opt (k : nat) (f : closure) : closure := c_node C 0 (HRepOpt k) [f].
Definition c_rep_min_max (a b : nat) (f : closure) : closure := c_node C 0 (HRepMinMax a b) [f].
End Nodes.

Ltac unfold_nodes :=
  unfold c_seq, c_sor, c_not, c_opt, c_star, c_success, c_failure, c_ite, c_if_must, c_strict, c_rep, c_rep_opt, c_rep_min_max, c_node, eval_head;
  cbn [eval_atom length seq h_seq seq_all sor_any lcl nth_error];
  unfold h_at, h_if_then_else, h_if_must, h_strict, h_partial, h_seq; cbn [seq_all lcl nth_error].
Ltac fin := right; simpl; repeat split; auto; repeat match goal with |- context [dM ?d] => destruct (dM d) end; simpl; auto.

(* ================= if_then_else< R, S, T > == sor< seq< R, S >, seq< not_at< R >, T > > ================= *)
Section IfThenElse.
Variable C : cfg.
Variables fc ft fe gc gt ge : closure.
Hypothesis Hc : cS fc gc.
Hypothesis Ht : cS ft gt.
Hypothesis He : cS fe ge.

Lemma if_then_else_A (Hrc : crest fc) d1 d2 c :
  Sim false (dM d1) (dM d2) (c_ite C fc ft fe d1 c) (c_sor C [c_seq C [gc; gt]; c_seq C [c_not C gc; ge]] d2 c).
Proof.
  unfold_nodes. unfold Sim.
  destruct (fc (req d1) c) as [[| |x] c' evs| |] eqn:E.
  - cs_ok Hc gc c E. simpl.
    destruct (ft (opt_ d1) c') as [[| |x] c2 evs2| |] eqn:E2.
    + cs_ok Ht gt c' E2. fin.
    + cs_fail Ht gt c' E2. simpl. cs_ok Hc gc c E. simpl. fin.
    + cs_exc Ht gt c' E2. fin.
    + left. reflexivity.
    + cs_err Ht gt c' E2. fin.
  - pose proof (Hrc (req d1) c c' evs eq_refl E) as ->.
    cs_fail Hc gc c E. simpl. cs_fail Hc gc c E. simpl.
    destruct (fe (opt_ d1) c) as [[| |x] c2 evs2| |] eqn:E2.
    + cs_ok He ge c E2. fin.
    + cs_fail He ge c E2. fin.
    + cs_exc He ge c E2. fin.
    + left. reflexivity.
    + cs_err He ge c E2. fin.
  - cs_exc Hc gc c E. fin.
  - left. reflexivity.
  - cs_err Hc gc c E. fin.
Qed.

Lemma if_then_else_B (Hcc : cS fc fc) (Hrg : crest gc) d1 d2 c :
  Sim false (dM d1) (dM d2) (c_sor C [c_seq C [fc; ft]; c_seq C [c_not C fc; fe]] d1 c) (c_ite C gc gt ge d2 c).
Proof.
  unfold_nodes. unfold Sim.
  match goal with |- context [bind (fc ?d c)] => destruct (fc d c) as [[| |x] c' evs| |] eqn:E end.
  - cs_ok Hc gc c E. simpl.
    match goal with |- context [bind (ft ?d c')] => destruct (ft d c') as [[| |x] c2 evs2| |] eqn:E2 end.
    + cs_ok Ht gt c' E2. fin.
    + cs_fail Ht gt c' E2. simpl. cs_ok Hcc fc c E. simpl. fin.
    + cs_exc Ht gt c' E2. fin.
    + left. reflexivity.
    + cs_err Ht gt c' E2. fin.
  - cs_fail_r Hc Hrg gc c E. simpl. cs_fail Hcc fc c E. simpl.
    match goal with |- context [bind (fe ?d c)] => destruct (fe d c) as [[| |x] c2 evs2| |] eqn:E2 end.
    + cs_ok He ge c E2. fin.
    + cs_fail He ge c E2. fin.
    + cs_exc He ge c E2. fin.
    + left. reflexivity.
    + cs_err He ge c E2. fin.
  - cs_exc Hc gc c E. fin.
  - left. reflexivity.
  - cs_err Hc gc c E. fin.
Qed.
End IfThenElse.

(* a behaviour that never fails locally: must< ... > *)
Definition cnofail (f : closure) : Prop := forall d c c' evs, f d c <> Res Fail c' evs.

(* ================= if_must< R, S... > == seq< R, must< S... > > == if_then_else< R, must< S... >, failure > =================
   ================= opt_must< R, S... > == opt< if_must< R, S... > > == if_then_else< R, must< S... >, success > ============
   fm / gm is the behaviour of the node must< S... > (the same node on both sides) *)
Section IfMust.
Variable C : cfg.
Variables fc fm gc gm : closure.
Hypothesis Hc : cS fc gc.
Hypothesis Hm : cS fm gm.
Hypothesis Hnf : cnofail fm.

Ltac on_fm d c' :=
  destruct (fm d c') as [[| |x] c2 evs2| |] eqn:E2;
  [ cs_ok Hm gm c' E2; fin | exfalso; eapply Hnf; exact E2 | cs_exc Hm gm c' E2; fin | left; reflexivity | cs_err Hm gm c' E2; fin ].

Lemma if_must_seq_A (Hrc : crest fc) d1 d2 c :
  Sim false (dM d1) (dM d2) (c_if_must C false fc fm d1 c) (c_seq C [gc; gm] d2 c).
Proof.
  unfold_nodes. unfold Sim.
  destruct (fc d1 c) as [[| |x] c' evs| |] eqn:E.
  - cs_ok Hc gc c E. simpl. on_fm d1 c'.
  - cs_fail Hc gc c E. right. simpl. destruct (dM d1) eqn:M1; [|exact I]. destruct (dM d2); [|exact I]. simpl.
    exact (Hrc d1 c c' evs M1 E).
  - cs_exc Hc gc c E. fin.
  - left. reflexivity.
  - cs_err Hc gc c E. fin.
Qed.

Lemma if_must_seq_B (Hrg : crest gc) d1 d2 c :
  Sim false (dM d1) (dM d2) (c_seq C [fc; fm] d1 c) (c_if_must C false gc gm d2 c).
Proof.
  unfold_nodes. unfold Sim.
  destruct (fc (opt_ d1) c) as [[| |x] c' evs| |] eqn:E.
  - cs_ok Hc gc c E. simpl. on_fm (opt_ d1) c'.
  - destruct (cS_fail _ _ _ d2 _ _ _ Hc E) as [cc [ev K]]. rewrite K. right. simpl.
    destruct (dM d1); [|exact I]. destruct (dM d2) eqn:M2; [|exact I]. simpl. symmetry. exact (Hrg d2 c cc ev M2 K).
  - cs_exc Hc gc c E. fin.
  - left. reflexivity.
  - cs_err Hc gc c E. fin.
Qed.

Lemma if_must_ite_A (Hrc : crest fc) d1 d2 c :
  Sim false (dM d1) (dM d2) (c_if_must C false fc fm d1 c) (c_ite C gc gm (c_failure C) d2 c).
Proof.
  unfold_nodes. unfold Sim.
  destruct (fc d1 c) as [[| |x] c' evs| |] eqn:E.
  - cs_ok Hc gc c E. simpl. on_fm d1 c'.
  - cs_fail Hc gc c E. right. simpl. destruct (dM d1) eqn:M1; [|exact I]. destruct (dM d2); [|exact I]. simpl.
    exact (Hrc d1 c c' evs M1 E).
  - cs_exc Hc gc c E. fin.
  - left. reflexivity.
  - cs_err Hc gc c E. fin.
Qed.

Lemma if_must_ite_B (Hrg : crest gc) d1 d2 c :
  Sim false (dM d1) (dM d2) (c_ite C fc fm (c_failure C) d1 c) (c_if_must C false gc gm d2 c).
Proof.
  unfold_nodes. unfold Sim.
  destruct (fc (req d1) c) as [[| |x] c' evs| |] eqn:E.
  - cs_ok Hc gc c E. simpl. on_fm (opt_ d1) c'.
  - destruct (cS_fail _ _ _ d2 _ _ _ Hc E) as [cc [ev K]]. rewrite K. right. simpl.
    destruct (dM d1); [|exact I]. destruct (dM d2) eqn:M2; [|exact I]. simpl. symmetry. exact (Hrg d2 c cc ev M2 K).
  - cs_exc Hc gc c E. fin.
  - left. reflexivity.
  - cs_err Hc gc c E. fin.
Qed.

Lemma opt_must_opt_A (Hrc : crest fc) (Hrg : crest gc) d1 d2 c :
  Sim false (dM d1) (dM d2) (c_if_must C true fc fm d1 c) (c_opt C (c_if_must C false gc gm) d2 c).
Proof.
  unfold_nodes. unfold Sim.
  destruct (fc (req d1) c) as [[| |x] c' evs| |] eqn:E.
  - cs_ok Hc gc c E. simpl. on_fm d1 c'.
  - pose proof (Hrc (req d1) c c' evs eq_refl E) as ->. cs_fail_r Hc Hrg gc c E. fin.
  - cs_exc Hc gc c E. fin.
  - left. reflexivity.
  - cs_err Hc gc c E. fin.
Qed.

Lemma opt_must_opt_B (Hrc : crest fc) (Hrg : crest gc) d1 d2 c :
  Sim false (dM d1) (dM d2) (c_opt C (c_if_must C false fc fm) d1 c) (c_if_must C true gc gm d2 c).
Proof.
  unfold_nodes. unfold Sim.
  destruct (fc (req d1) c) as [[| |x] c' evs| |] eqn:E.
  - cs_ok Hc gc c E. simpl. on_fm (req d1) c'.
  - pose proof (Hrc (req d1) c c' evs eq_refl E) as ->. cs_fail_r Hc Hrg gc c E. fin.
  - cs_exc Hc gc c E. fin.
  - left. reflexivity.
  - cs_err Hc gc c E. fin.
Qed.

Lemma opt_must_ite_A (Hrc : crest fc) (Hrg : crest gc) d1 d2 c :
  Sim false (dM d1) (dM d2) (c_if_must C true fc fm d1 c) (c_ite C gc gm (c_success C) d2 c).
Proof.
  unfold_nodes. unfold Sim.
  destruct (fc (req d1) c) as [[| |x] c' evs| |] eqn:E.
  - cs_ok Hc gc c E. simpl. on_fm d1 c'.
  - pose proof (Hrc (req d1) c c' evs eq_refl E) as ->. cs_fail_r Hc Hrg gc c E. fin.
  - cs_exc Hc gc c E. fin.
  - left. reflexivity.
  - cs_err Hc gc c E. fin.
Qed.

Lemma opt_must_ite_B (Hrc : crest fc) (Hrg : crest gc) d1 d2 c :
  Sim false (dM d1) (dM d2) (c_ite C fc fm (c_success C) d1 c) (c_if_must C true gc gm d2 c).
Proof.
  unfold_nodes. unfold Sim.
  destruct (fc (req d1) c) as [[| |x] c' evs| |] eqn:E.
  - cs_ok Hc gc c E. simpl. on_fm (opt_ d1) c'.
  - pose proof (Hrc (req d1) c c' evs eq_refl E) as ->. cs_fail_r Hc Hrg gc c E. fin.
  - cs_exc Hc gc c E. fin.
  - left. reflexivity.
  - cs_err Hc gc c E. fin.
Qed.
End IfMust.

(* ================= strict< R1, R2 > == sor< not_at< R1 >, seq< R1, R2 > > ================= *)
Section Strict2.
Variable C : cfg.
Variables f1 f2 g1 g2 : closure.
Hypothesis H1 : cS f1 g1.
Hypothesis H2 : cS f2 g2.

Lemma strict2_A (Hr1 : crest f1) d1 d2 c :
  Sim false (dM d1) (dM d2) (c_strict C [f1; f2] d1 c) (c_sor C [c_not C g1; c_seq C [g1; g2]] d2 c).
Proof.
  unfold_nodes. cbn [seq length h_seq seq_all lcl nth_error]. unfold Sim.
  destruct (f1 (req d1) c) as [[| |x] c' evs| |] eqn:E.
  - cs_ok H1 g1 c E. simpl. cs_ok H1 g1 c E. simpl.
    destruct (f2 (opt_ d1) c') as [[| |x] c2 evs2| |] eqn:E2.
    + cs_ok H2 g2 c' E2. fin.
    + cs_fail H2 g2 c' E2. fin.
    + cs_exc H2 g2 c' E2. fin.
    + left. reflexivity.
    + cs_err H2 g2 c' E2. fin.
  - pose proof (Hr1 (req d1) c c' evs eq_refl E) as ->. cs_fail H1 g1 c E. fin.
  - cs_exc H1 g1 c E. fin.
  - left. reflexivity.
  - cs_err H1 g1 c E. fin.
Qed.

Lemma strict2_B (H11 : cS f1 f1) (Hrg : crest g1) d1 d2 c :
  Sim false (dM d1) (dM d2) (c_sor C [c_not C f1; c_seq C [f1; f2]] d1 c) (c_strict C [g1; g2] d2 c).
Proof.
  unfold_nodes. cbn [seq length h_seq seq_all lcl nth_error]. unfold Sim.
  match goal with |- context [look true c (f1 ?d c)] => destruct (f1 d c) as [[| |x] c' evs| |] eqn:E end.
  - simpl. cs_ok H11 f1 c E. simpl. cs_ok H1 g1 c E. simpl.
    match goal with |- context [bind (f2 ?d c')] => destruct (f2 d c') as [[| |x] c2 evs2| |] eqn:E2 end.
    + cs_ok H2 g2 c' E2. fin.
    + cs_fail H2 g2 c' E2. fin.
    + cs_exc H2 g2 c' E2. fin.
    + left. reflexivity.
    + cs_err H2 g2 c' E2. fin.
  - simpl. cs_fail_r H1 Hrg g1 c E. fin.
  - simpl. cs_exc H1 g1 c E. fin.
  - left. reflexivity.
  - simpl. cs_err H1 g1 c E. fin.
Qed.
End Strict2.

(* ================= rep_opt< Num, R > == rep< Num, opt< R > >   (all Num) ================= *)
Section RepOpt.
Variable C : cfg.
Variables f g : closure.
Hypothesis Hfg : cS f g.
Hypothesis Hrf : crest f.
Hypothesis Hrg : crest g.

Lemma c_opt_unfold (h : closure) d c :
  c_opt C h d c = match bind (h (req d) c) (fun c0 => Res Ok c0 []) with Res Fail c' evs => Res Ok c' evs | x => x end.
Proof. reflexivity. Qed.

(* once R fails at c (restoring the cursor), opt< R > succeeds at c without moving, any number of times *)
Lemma rep_opt_stuck (h : closure) dO c cc evs0 : h (req dO) c = Res Fail cc evs0 -> cc = c ->
  forall k, exists evs, rep_loop (lcl [c_opt C h]) k dO 0 c = Res Ok c evs.
Proof.
  intros E ->. induction k as [|k [evs IH]]; [eexists; reflexivity|].
  cbn [rep_loop lcl nth_error]. rewrite c_opt_unfold, E. simpl. rewrite IH. simpl. eexists; reflexivity.
Qed.

Lemma repopt_never_fails (e : callee) d r : forall k c c' evs, fst (repopt_loop e k d r c) <> Res Fail c' evs.
Proof.
  induction k as [|k IH]; intros c c' evs; simpl; [discriminate|].
  destruct (e (req d) r c) as [[| |x] c1 e1| |]; simpl; try discriminate.
  specialize (IH c1). destruct (repopt_loop e k d r c1) as [y b]. simpl in *.
  destruct y as [[| |x] c2 e2| |]; simpl; try discriminate. intros H. eapply IH. reflexivity.
Qed.

Lemma rep_opt_loop_A d1 dO : forall k c,
  sim true false (fst (repopt_loop (lcl [f]) k d1 0 c)) (rep_loop (lcl [c_opt C g]) k dO 0 c).
Proof.
  induction k as [|k IH]; intros c; [right; simpl; reflexivity|].
  cbn [repopt_loop rep_loop lcl nth_error]. rewrite c_opt_unfold.
  destruct (f (req d1) c) as [[| |x] c' evs| |] eqn:E.
  - cs_ok Hfg g c E. simpl. specialize (IH c'). destruct (repopt_loop (lcl [f]) k d1 0 c') as [x b]. simpl in *.
    rewrite sim_prepend_l, sim_prepend_r. exact IH.
  - pose proof (Hrf (req d1) c c' evs eq_refl E) as ->.
    destruct (cS_fail _ _ _ (req dO) _ _ _ Hfg E) as [cc [ev K]]. pose proof (Hrg (req dO) c cc ev eq_refl K) as Hcc.
    rewrite K. simpl. destruct (rep_opt_stuck g dO c cc ev K Hcc k) as [evs2 K2]. subst cc. rewrite K2. right. simpl. reflexivity.
  - cs_exc Hfg g c E. right. simpl. split; [reflexivity | exact I].
  - left. reflexivity.
  - cs_err Hfg g c E. right. exact I.
Qed.

Lemma rep_opt_A k d1 d2 c : Sim false (dM d1) (dM d2) (c_rep_opt C k f d1 c) (c_rep C k (c_opt C g) d2 c).
Proof.
  unfold c_rep_opt, c_rep, c_node, eval_head. cbn [eval_atom length seq lcl nth_error]. unfold h_rep_opt, h_rep, Sim.
  destruct (rep_opt_loop_A d1 (opt_ d2) k c) as [K|K]; [left; exact K|]. right.
  pose proof (repopt_never_fails (lcl [f]) d1 0 k c) as NF.
  destruct (fst (repopt_loop (lcl [f]) k d1 0 c)) as [[| |x] c1 e1| |];
  destruct (rep_loop (lcl [c_opt C g]) k (opt_ d2) 0 c) as [[| |y] c2 e2| |]; simpl in K; try contradiction; simpl; auto.
  exfalso. eapply NF. reflexivity.
Qed.

Lemma rep_opt_loop_B dO d2 : forall k c,
  sim true false (rep_loop (lcl [c_opt C f]) k dO 0 c) (fst (repopt_loop (lcl [g]) k d2 0 c)).
Proof.
  induction k as [|k IH]; intros c; [right; simpl; reflexivity|].
  cbn [repopt_loop rep_loop lcl nth_error]. rewrite c_opt_unfold.
  destruct (f (req dO) c) as [[| |x] c' evs| |] eqn:E.
  - cs_ok Hfg g c E. simpl. specialize (IH c'). destruct (repopt_loop (lcl [g]) k d2 0 c') as [x b]. simpl in *.
    rewrite sim_prepend_l, sim_prepend_r. exact IH.
  - pose proof (Hrf (req dO) c c' evs eq_refl E) as Hc'.
    destruct (rep_opt_stuck f dO c c' evs E Hc' k) as [evs2 K2]. simpl. subst c'. rewrite K2. simpl.
    cs_fail_r Hfg Hrg g c E. right. simpl. reflexivity.
  - cs_exc Hfg g c E. right. simpl. split; [reflexivity | exact I].
  - left. reflexivity.
  - cs_err Hfg g c E. right. exact I.
Qed.

Lemma rep_opt_B k d1 d2 c : Sim false (dM d1) (dM d2) (c_rep C k (c_opt C f) d1 c) (c_rep_opt C k g d2 c).
Proof.
  unfold c_rep_opt, c_rep, c_node, eval_head. cbn [eval_atom length seq lcl nth_error]. unfold h_rep_opt, h_rep, Sim.
  destruct (rep_opt_loop_B (opt_ d1) d2 k c) as [K|K]; [left; rewrite K; reflexivity|]. right.
  pose proof (repopt_never_fails (lcl [g]) d2 0 k c) as NF.
  destruct (rep_loop (lcl [c_opt C f]) k (opt_ d1) 0 c) as [[| |x] c1 e1| |];
  destruct (fst (repopt_loop (lcl [g]) k d2 0 c)) as [[| |y] c2 e2| |]; simpl in K; try contradiction; simpl; auto.
  exfalso. eapply NF. reflexivity.
Qed.
End RepOpt.
