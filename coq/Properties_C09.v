(* Properties_C09.v — C09: convenience and contrib rules equal their documented expansions.
   Theorems only.  Setting: the engine model (Engine.v) on ARBITRARY grammar tables G that contain the
   node(s) of the convenience rule and the nodes of its documented expansion (Rule-Reference.md) over
   the same sub-rule ids — the sub-rules themselves are arbitrary entries of G (sub-rules that
   consume before failing, nullable ones, raising ones, recursive ones are points of the quantifier);
   configurations of the PEG formalism: no Action< Rule >, failure() does not raise (noact_cfg); tables
   without inline-action rules and with if_must< .. >'s second sub-rule being a must<> (plain_table: what
   the C++ templates can produce); every apply mode, rewind mode, family and fuel.
   obs_equiv G C r1 r2: whenever one of the two rules reaches a verdict (at any fuel, in any mode), the
   other reaches the same verdict (at some fuel, in any mode): same outcome kind, same cursor after
   success, same exception (raising rule and position), and after a local failure the same (restored)
   cursor when both run in required mode (refines_spec).  The event log is not compared.

   Proved here for ALL tables (heads with their own match()):  until< R, S > and until< R, S... > with several S ;
   until< R > == until< R, any > ; if_then_else ; if_must (both clauses) ; opt_must (both clauses, for the code after fix
   6ab3c19) ; rep< N, R > == seq< R, ..., R > (all N) ; rep_opt< N, R > == rep< N, opt< R > > (all N) ;
   rep_min_max< Min, Max, R > == seq< rep< Min, R >, rep_opt< Max - Min, R >, not_at< R > > (all Min, Max) ;
   plus< R > == seq< R, star< R > > == rep_min< 1, R > ; opt< R > == sor< R, success > ;
   partial< R1, Rs... > == opt< seq< R1, partial< Rs... > > > (the prose, any number of rules) ;
   list_tail< R, S > (= seq< R, star_partial< S, R > >) == seq< list< R, S >, opt< S > > ;
   strict< R1, Rs... > == sor< not_at< R1 >, seq< R1, Rs... > > (any number of rules) ;
   star_strict< R1, Rs... > == seq< star< R1, Rs... >, not_at< R1 > > (the prose) ;
   must< R > against sor< R, raise< R > > UP TO the error position (C09_must_expansion_*: same success, never a local
   failure, same exception of R, otherwise parse_error for the same rule R, the expansion at the start position and
   must< R > at the position of a cursor reached from the start) ;
   must< R1, ..., Rn > (= seq< must< R >... >) against seq< sor< R, raise< R > >... > up to positions (C09_must_pack_*, pos_rel) ;
   rematch< R, S... > and minus< M, S > against the direct formalisation of their prose (EquivSpanSpec.v: the
   span-restricted evaluation), soundness and completeness ;
   eolf == sor< eof, eol > (every eol policy) ; everything == until< eof, any > ;
   string< C... > == seq< one< C >... > on byte inputs (C09_string: the model's alphabet is N, see EquivString.v) ;
   ranges< C1, D1, ..., [E] > == sor< range< C1, D1 >, ..., [one< E >] > (char decoder, any number of ranges) ;
   shebang (= seq< string< '#', '!' >, until< eolf > >) == if_must< string< '#', '!' >, until< eolf > > (until< eolf > cannot fail) ;
   list_must< R, S > == seq< R, star< if_must< S, R > > > ;
   CONGRUENCE: every expansion holds in its uniform form (fixed fuel overhead, C09_expansions_uniform), uniform
   equivalence implies obs_equiv, is an equivalence relation, and is preserved by every head that does not name its
   sub-rule (C09_congruence) — documented expansions may be applied inside any rule ;
   expansions matched modulo equivalence of the sub-rules (C09_rep_modulo, C09_opt_modulo, C09_rep_min_max_modulo, C09_if_must_modulo:
   what the compiler-dumped schemas need: seq< R > wrappers, public vs internal seq, rep< 0, R > = success) ;
   the EXTENDED verified table checker (C09_table_equiv2_sound) and its application to ALL (rule, reference clause) pairs
   of the alias schemas of this run that it accepts (C09_alias_schemas2; at the time of writing 83 of the 87 pairs — all but
   list_tail< R, S, P > first clause, must< R... > == seq< sor< R, raise< R > >... > (refuted for positions), string == seq< one... >) ;
   obs_equiv is an equivalence relation ; plus the generic lemmas: the verdict of any
   rule is independent of modes / families / fuel (C09_modes_irrelevant) and control-enabled nodes are
   transparent (hook visibility does not influence outcomes); the verified table bisimulation
   (C09_table_equiv_sound) and its application to the alias schemas regenerated through the compiler on
   every run (C09_alias_schemas: 45 rule/clause pairs).
   Also kept at behaviour level (closures): strict< R1, R2 >, rep_opt< Num, R >.
   NOT YET PROVED in Coq (they stay covered by the twin oracle of lib/props_c09.py, which runs the real
   library on the rule and on the expansion produced from the reference text): list_tail< R, S, P > first clause, eol == sor< one< '\n' >, string< '\r', '\n' > > (lf_crlf only, byte inputs only), ranges for the multi-byte
   decoders, contrib rules. *)
From PegtlV Require Import Base Decode Grammar Engine EngineFacts AtomFacts Mono Equiv EquivFacts EquivEval EquivHeads EquivTable EquivBisim EquivAlias EquivHeads2 EquivTable2 EquivMust EquivSpanSpec EquivSpan EquivTableU EquivCong EquivAtoms EquivAtoms2 EquivShebang EquivAll EquivGen EquivBisim2 EquivAlias2 EquivString EquivMust2.
From PegtlV.gen Require Import AliasC09_gen AliasC09Claims_gen.

(* the verdict of any rule does not depend on apply mode, rewind mode, action/control family, or fuel *)
Theorem C09_modes_irrelevant :
  forall G C, noact_cfg C -> plain_table G ->
  forall f1 f2, f1 <= f2 -> forall d1 d2 r c, Sim true (dM d1) (dM d2) (eval G C f1 d1 r c) (eval G C f2 d2 r c).
Proof. exact eval_sim. Qed.
Print Assumptions C09_modes_irrelevant.

(* what obs_equiv means *)
Theorem C09_refines_meaning :
  forall G C r1 r2, refines G C r1 r2 -> forall f d1 d2 c o c1 ev1, eval G C f d1 r1 c = Res o c1 ev1 ->
  exists f' c2 ev2, eval G C f' d2 r2 c = Res o c2 ev2 /\ (o = Ok -> c2 = c1) /\ (o = Fail -> dM d1 = true -> dM d2 = true -> c2 = c1).
Proof. exact refines_spec. Qed.
Print Assumptions C09_refines_meaning.

(* until< R, S... >  ==  seq< star< not_at< R >, S... >, R > *)
Theorem C09_until :
  forall G C, noact_cfg C -> plain_table G -> table_wf G ->
  forall r1 r2 cnd s st sq na,
    node G r1 HUntil2 [cnd; s] ->
    node G r2 HSeq [st; cnd] -> node G st HStarPartial [sq] -> node G sq HSeq [na; s] -> node G na HNotAt [cnd] ->
    obs_equiv G C r1 r2.
Proof. exact until2_table. Qed.
Print Assumptions C09_until.

(* if_then_else< R, S, T >  ==  sor< seq< R, S >, seq< not_at< R >, T > > *)
Theorem C09_if_then_else :
  forall G C, noact_cfg C -> plain_table G -> table_wf G ->
  forall r1 r2 cnd t e s1 s2 na,
    node G r1 HIfThenElse [cnd; t; e] ->
    node G r2 HSor [s1; s2] -> node G s1 HSeq [cnd; t] -> node G s2 HSeq [na; e] -> node G na HNotAt [cnd] ->
    obs_equiv G C r1 r2.
Proof. exact if_then_else_table. Qed.
Print Assumptions C09_if_then_else.

(* if_must< R, S... >  ==  seq< R, must< S... > >    (m, m': the internal and the public must< S... > node, leq = equivalent) *)
Theorem C09_if_must_seq :
  forall G C, noact_cfg C -> plain_table G -> table_wf G ->
  forall r1 r2 cnd m m', node G r1 (HIfMust false) [cnd; m] -> node G r2 HSeq [cnd; m'] -> leq G C m m' -> obs_equiv G C r1 r2.
Proof. exact if_must_seq_table. Qed.
Print Assumptions C09_if_must_seq.

(* if_must< R, S... >  ==  if_then_else< R, must< S... >, failure >   (dflt = false)
   opt_must< R, S... > ==  if_then_else< R, must< S... >, success >   (dflt = true) *)
Theorem C09_if_must_opt_must_ite :
  forall G C, noact_cfg C -> plain_table G -> table_wf G ->
  forall dflt r1 r2 cnd m m' x,
    node G r1 (HIfMust dflt) [cnd; m] -> node G r2 HIfThenElse [cnd; m'; x] -> node G x (if dflt then HSuccess else HFailure) [] ->
    leq G C m m' -> obs_equiv G C r1 r2.
Proof. exact if_must_ite_table. Qed.
Print Assumptions C09_if_must_opt_must_ite.

(* opt_must< R, S... >  ==  opt< if_must< R, S... > > *)
Theorem C09_opt_must_opt :
  forall G C, noact_cfg C -> plain_table G -> table_wf G ->
  forall r1 r2 im cnd m m', node G r1 (HIfMust true) [cnd; m] -> node G r2 HPartial [im] -> node G im (HIfMust false) [cnd; m'] ->
    leq G C m m' -> obs_equiv G C r1 r2.
Proof. exact opt_must_opt_table. Qed.
Print Assumptions C09_opt_must_opt.

(* behaviour level (closures = arbitrary sub-rule behaviours f, g with the same verdicts, cS; C02 for them, crest):
   strict< R1, R2 >  ==  sor< not_at< R1 >, seq< R1, R2 > >, both refinement directions *)
Theorem C09_strict2_impl_refines_doc :
  forall C f1 f2 g1 g2, cS f1 g1 -> cS f2 g2 -> crest f1 -> forall d1 d2 c,
    Sim false (dM d1) (dM d2) (c_strict C [f1; f2] d1 c) (c_sor C [c_not C g1; c_seq C [g1; g2]] d2 c).
Proof. exact strict2_A. Qed.
Print Assumptions C09_strict2_impl_refines_doc.
Theorem C09_strict2_doc_refines_impl :
  forall C f1 f2 g1 g2, cS f1 g1 -> cS f2 g2 -> cS f1 f1 -> crest g1 -> forall d1 d2 c,
    Sim false (dM d1) (dM d2) (c_sor C [c_not C f1; c_seq C [f1; f2]] d1 c) (c_strict C [g1; g2] d2 c).
Proof. exact strict2_B. Qed.
Print Assumptions C09_strict2_doc_refines_impl.

(* rep_opt< Num, R >  ==  rep< Num, opt< R > >  for ALL Num, both refinement directions (behaviour level) *)
Theorem C09_rep_opt_impl_refines_doc :
  forall C f g, cS f g -> crest f -> crest g -> forall k d1 d2 c,
    Sim false (dM d1) (dM d2) (c_rep_opt C k f d1 c) (c_rep C k (c_opt C g) d2 c).
Proof. exact rep_opt_A. Qed.
Print Assumptions C09_rep_opt_impl_refines_doc.
Theorem C09_rep_opt_doc_refines_impl :
  forall C f g, cS f g -> crest f -> crest g -> forall k d1 d2 c,
    Sim false (dM d1) (dM d2) (c_rep C k (c_opt C f) d1 c) (c_rep_opt C k g d2 c).
Proof. exact rep_opt_B. Qed.
Print Assumptions C09_rep_opt_doc_refines_impl.

(* ---------- round 2: the repetition family, packs of any length, must / rematch / minus ---------- *)
(* obs_equiv is an equivalence relation (so documented expansions compose) *)
Theorem C09_obs_equiv_refl :
  forall G C, noact_cfg C -> plain_table G -> forall r, obs_equiv G C r r.
Proof. exact obs_equiv_refl. Qed.
Print Assumptions C09_obs_equiv_refl.
Theorem C09_obs_equiv_sym :
  forall G C r1 r2, obs_equiv G C r1 r2 -> obs_equiv G C r2 r1.
Proof. exact obs_equiv_sym. Qed.
Print Assumptions C09_obs_equiv_sym.
Theorem C09_obs_equiv_trans :
  forall G C r1 r2 r3, obs_equiv G C r1 r2 -> obs_equiv G C r2 r3 -> obs_equiv G C r1 r3.
Proof. exact obs_equiv_trans. Qed.
Print Assumptions C09_obs_equiv_trans.

(* rep< N, R >  ==  seq< R, ..., R >  (N copies; every N, N = 0 and N = 1 included) *)
Theorem C09_rep :
  forall G C, noact_cfg C -> plain_table G -> table_wf G ->
  forall n r1 r2 r, node G r1 (HRep n) [r] -> node G r2 HSeq (repeat r n) -> obs_equiv G C r1 r2.
Proof. exact rep_seq_table. Qed.
Print Assumptions C09_rep.

(* rep_opt< N, R >  ==  rep< N, opt< R > >  (every N), on tables *)
Theorem C09_rep_opt :
  forall G C, noact_cfg C -> plain_table G -> table_wf G ->
  forall n r1 r2 o r, node G r1 (HRepOpt n) [r] -> node G r2 (HRep n) [o] -> node G o HPartial [r] -> obs_equiv G C r1 r2.
Proof. exact rep_opt_table. Qed.
Print Assumptions C09_rep_opt.

(* rep_min_max< Min, Max, R >  ==  seq< rep< Min, R >, rep_opt< Max - Min, R >, not_at< R > >  (every Min, Max) *)
Theorem C09_rep_min_max :
  forall G C, noact_cfg C -> plain_table G -> table_wf G ->
  forall mn mx r1 r2 a b na r,
    node G r1 (HRepMinMax mn mx) [r] ->
    node G r2 HSeq [a; b; na] -> node G a (HRep mn) [r] -> node G b (HRepOpt (mx - mn)) [r] -> node G na HNotAt [r] ->
    obs_equiv G C r1 r2.
Proof. exact rep_min_max_table. Qed.
Print Assumptions C09_rep_min_max.

(* plus< R >  ==  seq< R, star< R > >   and   plus< R >  ==  rep_min< 1, R >  =  seq< rep< 1, R >, star< R > > *)
Theorem C09_plus :
  forall G C, noact_cfg C -> plain_table G -> table_wf G ->
  forall r1 r2 st r, node G r1 HPlus [r] -> node G r2 HSeq [r; st] -> node G st HStarPartial [r] -> obs_equiv G C r1 r2.
Proof. exact plus_table. Qed.
Print Assumptions C09_plus.
Theorem C09_plus_rep_min :
  forall G C, noact_cfg C -> plain_table G -> table_wf G ->
  forall r1 r2 rp st r,
    node G r1 HPlus [r] -> node G r2 HSeq [rp; st] -> node G rp (HRep 1) [r] -> node G st HStarPartial [r] -> obs_equiv G C r1 r2.
Proof. exact plus_rep_min_table. Qed.
Print Assumptions C09_plus_rep_min.

(* opt< R >  ==  sor< R, success >   (R = seq< R... > for a pack) *)
Theorem C09_opt :
  forall G C, noact_cfg C -> plain_table G ->
  forall r1 r2 su r, node G r1 HPartial [r] -> node G r2 HSor [r; su] -> node G su HSuccess [] -> obs_equiv G C r1 r2.
Proof. exact opt_sor_table. Qed.
Print Assumptions C09_opt.

(* partial< R1, Rs... >  ==  opt< seq< R1, partial< Rs... > > >:  "succeeds and stops matching when one of the rules fails,
   consumes everything the successful rules consumed", any number of rules *)
Theorem C09_partial :
  forall G C, noact_cfg C -> plain_table G -> table_wf G ->
  forall p p2 sq p' q1 qs,
    node G p HPartial (q1 :: qs) -> node G p2 HPartial [sq] -> node G sq HSeq [q1; p'] -> node G p' HPartial qs -> obs_equiv G C p p2.
Proof. exact partial_table. Qed.
Print Assumptions C09_partial.

(* list_tail< R, S >  (rule_t seq< R, star_partial< S, R > >)  ==  seq< list< R, S >, opt< S > >,  list< R, S > = seq< R, star< S, R > > *)
Theorem C09_list_tail :
  forall G C, noact_cfg C -> plain_table G -> table_wf G ->
  forall r1 sp r2 li st sq os r s,
    node G r1 HSeq [r; sp] -> node G sp HStarPartial [s; r] ->
    node G r2 HSeq [li; os] -> node G li HSeq [r; st] -> node G st HStarPartial [sq] -> node G sq HSeq [s; r] -> node G os HPartial [s] ->
    obs_equiv G C r1 r2.
Proof. exact list_tail_table. Qed.
Print Assumptions C09_list_tail.

(* until< R >  ==  until< R, any > *)
Theorem C09_until1 :
  forall G C, noact_cfg C -> plain_table G ->
  forall r1 r2 cnd a, node G r1 HUntil1 [cnd] -> node G r2 HUntil2 [cnd; a] -> node G a (HAny PkChar) [] -> obs_equiv G C r1 r2.
Proof. exact until1_table. Qed.
Print Assumptions C09_until1.

(* until< R, S1, S2... >  (rule_t until< R, seq< S... > >)  ==  seq< star< not_at< R >, S1, S2... >, R > *)
Theorem C09_until_pack :
  forall G C, noact_cfg C -> plain_table G -> table_wf G ->
  forall r1 sq1 r2 st sq2 na cnd s ss,
    node G r1 HUntil2 [cnd; sq1] -> node G sq1 HSeq (s :: ss) ->
    node G r2 HSeq [st; cnd] -> node G st HStarPartial [sq2] -> node G sq2 HSeq (na :: s :: ss) -> node G na HNotAt [cnd] ->
    obs_equiv G C r1 r2.
Proof. exact until_pack_table. Qed.
Print Assumptions C09_until_pack.

(* strict< R1, Rs... >  ==  sor< not_at< R1 >, seq< R1, Rs... > >  for any number of rules *)
Theorem C09_strict :
  forall G C, noact_cfg C -> plain_table G -> table_wf G ->
  forall r1 r2 na sq q1 qs,
    node G r1 HStrict (q1 :: qs) -> node G r2 HSor [na; sq] -> node G na HNotAt [q1] -> node G sq HSeq (q1 :: qs) -> obs_equiv G C r1 r2.
Proof. exact strict_table. Qed.
Print Assumptions C09_strict.

(* star_strict< R1, Rs... >  ==  seq< star< R1, Rs... >, not_at< R1 > >:  "like star, but a partial match of R... lets it fail" *)
Theorem C09_star_strict :
  forall G C, noact_cfg C -> plain_table G -> table_wf G ->
  forall r1 r2 st sq na q1 qs,
    node G r1 HStarStrict (q1 :: qs) ->
    node G r2 HSeq [st; na] -> node G st HStarPartial [sq] -> node G sq HSeq (q1 :: qs) -> node G na HNotAt [q1] -> obs_equiv G C r1 r2.
Proof. exact star_strict_table. Qed.
Print Assumptions C09_star_strict.

(* must< R >  vs  sor< R, raise< R > >, up to the error position (must_rel: same success and cursor; no local failure on either
   side; an exception of R passes through both; otherwise both raise parse_error for the rule R, the expansion at the start
   position, must< R > at the position of a cursor reached from the start — see C09_must_position_refuted) *)
Theorem C09_must_expansion_fwd :
  forall G C, noact_cfg C -> plain_table G -> table_wf G ->
  forall r1 r2 rz r, node G r1 HMust [r] -> node G r2 HSor [r; rz] -> node G rz HRaise [r] ->
  forall f d1 d2 c, eval G C f d1 r1 c = Oof \/ exists f', must_rel r c (eval G C f d1 r1 c) (eval G C f' d2 r2 c).
Proof. exact must_expansion_fwd. Qed.
Print Assumptions C09_must_expansion_fwd.
Theorem C09_must_expansion_bwd :
  forall G C, noact_cfg C -> plain_table G -> table_wf G ->
  forall r1 r2 rz r, node G r1 HMust [r] -> node G r2 HSor [r; rz] -> node G rz HRaise [r] ->
  forall f d1 d2 c, eval G C f d2 r2 c = Oof \/ exists f', must_rel r c (eval G C f' d1 r1 c) (eval G C f d2 r2 c).
Proof. exact must_expansion_bwd. Qed.
Print Assumptions C09_must_expansion_bwd.

(* must< R1, ..., Rn > (rule_t seq< must< R1 >, ..., must< Rn > >) vs seq< sor< R1, raise< R1 > >, ..., sor< Rn, raise< Rn > > >, and
   must< R > (rule_t internal::must< R >) vs the reference's seq< sor< R, raise< R > > >, up to positions (pos_rel: same success
   and cursor, no local failure, the same exception or parse_error for the same rule) *)
Theorem C09_must_pack_fwd :
  forall G C, noact_cfg C -> plain_table G -> table_wf G ->
  forall r1 r2 ms ss, node G r1 HSeq ms -> node G r2 HSeq ss -> Forall2 (must_pair G) ms ss ->
  forall f d1 d2 c, eval G C f d1 r1 c = Oof \/ exists f', pos_rel (eval G C f d1 r1 c) (eval G C f' d2 r2 c).
Proof. exact must_pack_fwd. Qed.
Print Assumptions C09_must_pack_fwd.
Theorem C09_must_pack_bwd :
  forall G C, noact_cfg C -> plain_table G -> table_wf G ->
  forall r1 r2 ms ss, node G r1 HSeq ms -> node G r2 HSeq ss -> Forall2 (must_pair G) ms ss ->
  forall f d1 d2 c, eval G C f d2 r2 c = Oof \/ exists f', pos_rel (eval G C f' d1 r1 c) (eval G C f d2 r2 c).
Proof. exact must_pack_bwd. Qed.
Print Assumptions C09_must_pack_bwd.
Theorem C09_must1_seq_fwd :
  forall G C, noact_cfg C -> plain_table G -> table_wf G ->
  forall r1 r2 s, must_pair G r1 s -> node G r2 HSeq [s] ->
  forall f d1 d2 c, eval G C f d1 r1 c = Oof \/ exists f', pos_rel (eval G C f d1 r1 c) (eval G C f' d2 r2 c).
Proof. exact must1_seq_fwd. Qed.
Print Assumptions C09_must1_seq_fwd.
Theorem C09_must1_seq_bwd :
  forall G C, noact_cfg C -> plain_table G -> table_wf G ->
  forall r1 r2 s, must_pair G r1 s -> node G r2 HSeq [s] ->
  forall f d1 d2 c, eval G C f d2 r2 c = Oof \/ exists f', pos_rel (eval G C f' d1 r1 c) (eval G C f d2 r2 c).
Proof. exact must1_seq_bwd. Qed.
Print Assumptions C09_must1_seq_bwd.

(* rematch< R, S... > against the prose "R matches, and each S matches the input that R matched" (rematch_spec) *)
Theorem C09_rematch_sound :
  forall G C, noact_cfg C ->
  forall r1 hd s ss, node G r1 HRematch (hd :: s :: ss) ->
  forall f d c o c' evs, eval G C f d r1 c = Res o c' evs -> rematch_spec G C hd (s :: ss) c o c'.
Proof. exact rematch_sound. Qed.
Print Assumptions C09_rematch_sound.
Theorem C09_rematch_complete :
  forall G C, noact_cfg C -> plain_table G ->
  forall r1 hd s ss, node G r1 HRematch (hd :: s :: ss) ->
  forall c o c', rematch_spec G C hd (s :: ss) c o c' -> forall d, exists f evs, eval G C f d r1 c = Res o c' evs.
Proof. exact rematch_complete. Qed.
Print Assumptions C09_rematch_complete.

(* minus< M, S > (rule_t rematch< M, not_at< S, eof > >) against the prose "M matches, and S does not match all of the input
   that M matched" *)
Theorem C09_minus_ok :
  forall G C, noact_cfg C -> plain_table G ->
  forall na sq s e, node G na HNotAt [sq] -> node G sq HSeq [s; e] -> node G e HEof [] ->
  forall r1 m, node G r1 HRematch [m; na] ->
  forall f d c c1 evs, eval G C f d r1 c = Res Ok c1 evs ->
    Bs G C m c Ok c1 /\ exists span, span_of c c1 = Some span /\ ~ matches_all_of G C span s.
Proof. exact minus_ok_sound. Qed.
Print Assumptions C09_minus_ok.
Theorem C09_minus_fail :
  forall G C, noact_cfg C -> plain_table G ->
  forall na sq s e, node G na HNotAt [sq] -> node G sq HSeq [s; e] -> node G e HEof [] ->
  forall r1 m, node G r1 HRematch [m; na] ->
  forall f d c c' evs, eval G C f d r1 c = Res Fail c' evs ->
    c' = c /\ ((exists cf, Bs G C m c Fail cf) \/
               exists c1 span, Bs G C m c Ok c1 /\ span_of c c1 = Some span /\ matches_all_of G C span s).
Proof. exact minus_fail_sound. Qed.
Print Assumptions C09_minus_fail.
Theorem C09_minus_complete :
  forall G C, noact_cfg C -> plain_table G ->
  forall na sq s e, node G na HNotAt [sq] -> node G sq HSeq [s; e] -> node G e HEof [] ->
  forall r1 m, node G r1 HRematch [m; na] ->
  forall c c1 span, Bs G C m c Ok c1 -> span_of c c1 = Some span ->
    (forall c3, Bs G C s span Fail c3 \/ (Bs G C s span Ok c3 /\ rest c3 <> []) ->
       forall d, exists f evs, eval G C f d r1 c = Res Ok c1 evs) /\
    (matches_all_of G C span s -> forall d, exists f evs, eval G C f d r1 c = Res Fail c evs).
Proof. exact minus_complete. Qed.
Print Assumptions C09_minus_complete.

(* ---------- atoms ---------- *)
(* eolf  ==  sor< eof, eol >, for every eol policy *)
Theorem C09_eolf :
  forall G C, noact_cfg C -> plain_table G ->
  forall r1 r2 e l, node G r1 HEolf [] -> node G r2 HSor [e; l] -> node G e HEof [] -> node G l HEol [] -> obs_equiv G C r1 r2.
Proof. exact eolf_table. Qed.
Print Assumptions C09_eolf.

(* everything  ==  until< eof, any >  (the fuel the expansion needs grows with the input: not a uniform equivalence) *)
Theorem C09_everything :
  forall G C, noact_cfg C -> plain_table G ->
  forall r1 r2 e a, node G r1 HEverything [] -> node G r2 HUntil2 [e; a] -> node G e HEof [] -> node G a (HAny PkChar) [] -> obs_equiv G C r1 r2.
Proof. exact everything_table. Qed.
Print Assumptions C09_everything.

(* ranges< C1, D1, C2, D2, ... [, E] >  ==  sor< range< C1, D1 >, range< C2, D2 >, ... [, one< E >] >   (ascii / char decoder;
   ranges_alts relates the value list of ranges<> to the alternatives of the sor) *)
Theorem C09_ranges :
  forall G C, noact_cfg C -> plain_table G ->
  forall r1 r2 cs qs, node G r1 (HRanges PkChar cs) [] -> node G r2 HSor qs -> ranges_alts G cs qs -> obs_equiv G C r1 r2.
Proof. exact ranges_table. Qed.
Print Assumptions C09_ranges.

(* shebang  (rule_t seq< string< '#', '!' >, until< eolf > >)  ==  if_must< string< '#', '!' >, until< eolf > >;  a, a2: the internal
   and the public node of the first rule (same atom head h) *)
Theorem C09_shebang :
  forall G C, noact_cfg C -> plain_table G -> table_wf G ->
  forall r1 r2 a u el a2 m u2 el2 h,
    node G r1 HSeq [a; u] -> node G u HUntil1 [el] -> node G el HEolf [] ->
    node G r2 (HIfMust false) [a2; m] -> node G m HMust [u2] -> node G u2 HUntil1 [el2] -> node G el2 HEolf [] ->
    node G a h [] -> node G a2 h [] -> names_sub h = false ->
    obs_equiv G C r1 r2.
Proof. exact shebang_table. Qed.
Print Assumptions C09_shebang.

(* string< C... >  ==  seq< one< C >... >  (cursor positions included) on inputs whose elements are bytes: refines_on byte_input.
   On the model's larger alphabet N the two differ (one<'a'> compares the decoded char, so it accepts the non-byte 353). *)
Theorem C09_string :
  forall G C, noact_cfg C -> plain_table G ->
  forall r1 r2 cs qs,
    node G r1 (HString cs) [] -> node G r2 HSeq qs -> Forall2 (fun x q => node G q (HOne true PkChar [schar x]) []) cs qs -> bytes cs ->
    refines_on G C byte_input r1 r2 /\ refines_on G C byte_input r2 r1.
Proof. exact string_table. Qed.
Print Assumptions C09_string.

(* ---------- uniform equivalence and congruence: expansions may be applied inside any rule ---------- *)
Theorem C09_uniform_meaning :
  forall G C r1 r2, uequiv G C r1 r2 -> obs_equiv G C r1 r2.
Proof. exact uequiv_obs_equiv. Qed.
Print Assumptions C09_uniform_meaning.
Theorem C09_uniform_refl :
  forall G C, noact_cfg C -> plain_table G -> forall r, uequiv G C r r.
Proof. exact uequiv_refl. Qed.
Print Assumptions C09_uniform_refl.
Theorem C09_uniform_sym :
  forall G C r1 r2, uequiv G C r1 r2 -> uequiv G C r2 r1.
Proof. exact uequiv_sym. Qed.
Print Assumptions C09_uniform_sym.
Theorem C09_uniform_trans :
  forall G C r1 r2 r3, uequiv G C r1 r2 -> uequiv G C r2 r3 -> uequiv G C r1 r3.
Proof. exact uequiv_trans. Qed.
Print Assumptions C09_uniform_trans.
(* two nodes with the same head (any head that does not name its sub-rule: all but must / raise / try_catch_raise_nested)
   over pairwise equivalent sub-rules are equivalent *)
Theorem C09_congruence :
  forall G C, noact_cfg C -> plain_table G ->
  forall p p' h subs1 subs2,
    node G p h subs1 -> node G p' h subs2 -> names_sub h = false -> Forall2 (uequiv G C) subs1 subs2 -> uequiv G C p p'.
Proof. exact uequiv_cong. Qed.
Print Assumptions C09_congruence.
(* every expansion above (but everything) in uniform form, in one statement *)
Theorem C09_expansions_uniform :
  forall G C, noact_cfg C -> plain_table G -> table_wf G -> expansions_uniform_stmt G C.
Proof. exact expansions_uniform. Qed.
Print Assumptions C09_expansions_uniform.

(* list_must< R, S >  (rule_t seq< R, star< S, must< R > > >)  ==  seq< R, star< if_must< S, R > > >:  by congruence *)
Theorem C09_list_must :
  forall G C, noact_cfg C -> plain_table G -> table_wf G ->
  forall r1 st1 sq r2 st2 im r s m,
    node G r1 HSeq [r; st1] -> node G st1 HStarPartial [sq] -> node G sq HSeq [s; m] ->
    node G r2 HSeq [r; st2] -> node G st2 HStarPartial [im] -> node G im (HIfMust false) [s; m] ->
    uequiv G C r1 r2.
Proof. exact list_must_utable. Qed.
Print Assumptions C09_list_must.

(* a must< S > whose S cannot fail locally is S; then if_must< R, S > == seq< R, S > *)
Theorem C09_must_transparent :
  forall G C, noact_cfg C -> plain_table G ->
  forall m u, node G m HMust [u] -> (forall k, cnofail (ecl G C k u)) -> uequiv G C m u.
Proof. exact must_transparent. Qed.
Print Assumptions C09_must_transparent.
Theorem C09_if_must_nofail :
  forall G C, noact_cfg C -> plain_table G -> table_wf G ->
  forall r1 r2 a u a2 m u2,
    node G r1 HSeq [a; u] -> node G r2 (HIfMust false) [a2; m] -> node G m HMust [u2] ->
    uequiv G C a a2 -> uequiv G C u u2 -> (forall k, cnofail (ecl G C k u2)) -> uequiv G C r1 r2.
Proof. exact if_must_nofail_utable. Qed.
Print Assumptions C09_if_must_nofail.

(* the verified table bisimulation: structural equality up to hook visibility, or one of the expansions above at the root *)
Theorem C09_table_equiv_sound :
  forall G0 G C, noact_cfg C -> plain_table G -> table_wf G -> extends G0 G ->
  forall k r1 r2, table_equiv G0 k r1 r2 = true -> obs_equiv G C r1 r2.
Proof. exact table_equiv_sound. Qed.
Print Assumptions C09_table_equiv_sound.

(* the alias schemas of THIS run (impl side and reference clause, both dumped by the compiler from the current headers
   over opaque placeholders): every claimed pair is equivalent in every table extending the schema table.
   Decided today (c09_claimed): if_must (both clauses, 1-2 S), if_must_else, if_then_else, list (2,3), list_tail (2,3: second
   clause), minus, opt_must (both clauses, 1-2 S), pad (2,3), pad_opt, partial (1), star_must, until< R, S >, identifier,
   identifier_first/other, keyword, forty_two, ellipsis, alnum, alpha, xdigit, digit, rep< 0 >, rep_max 0..4, rep_min 0..4, rep_opt< 0 >. *)
Theorem C09_alias_schemas :
  forall G C, noact_cfg C -> plain_table G -> table_wf G -> extends aliasC09_table G ->
  forall p, In p c09_claimed -> obs_equiv G C (fst p) (snd p).
Proof. exact alias_schemas_equiv. Qed.
Print Assumptions C09_alias_schemas.
Theorem C09_alias_schemas_many : 40 <= length c09_claimed.
Proof. exact c09_claimed_many. Qed.
Print Assumptions C09_alias_schemas_many.

(* ---------- expansions modulo equivalence of the sub-rules, and the extended verified checker ---------- *)
Theorem C09_rep_modulo :
  forall G C, noact_cfg C -> plain_table G -> table_wf G ->
  forall r1 r2 r ss, node G r1 (HRep (length ss)) [r] -> node G r2 HSeq ss -> Forall (uequiv G C r) ss -> uequiv G C r1 r2.
Proof. exact rep_seq_gen. Qed.
Print Assumptions C09_rep_modulo.
Theorem C09_opt_modulo :
  forall G C, noact_cfg C -> plain_table G ->
  forall r1 r2 x su r, node G r1 HPartial [r] -> node G r2 HSor [x; su] -> node G su HSuccess [] -> uequiv G C r x -> uequiv G C r1 r2.
Proof. exact opt_sor_gen. Qed.
Print Assumptions C09_opt_modulo.
Theorem C09_rep_min_max_modulo :
  forall G C, noact_cfg C -> plain_table G -> table_wf G ->
  forall mn mx r1 r2 a b na r,
    node G r1 (HRepMinMax mn mx) [r] ->
    node G r2 HSeq [a; b; na] -> rep_like G a mn r -> repopt_like G b (mx - mn) r -> node G na HNotAt [r] -> uequiv G C r1 r2.
Proof. exact rep_min_max_gen. Qed.
Print Assumptions C09_rep_min_max_modulo.
Theorem C09_if_must_modulo :
  forall G C, noact_cfg C -> plain_table G -> table_wf G ->
  forall r1 r2 cnd cnd' m m',
    node G r1 (HIfMust false) [cnd; m] -> node G r2 HSeq [cnd'; m'] -> uequiv G C cnd cnd' -> leq G C m m' -> uequiv G C r1 r2.
Proof. exact if_must_seq_gen. Qed.
Print Assumptions C09_if_must_modulo.

Theorem C09_table_equiv2_sound :
  forall G0 G C, noact_cfg C -> plain_table G -> table_wf G -> extends G0 G ->
  forall k r1 r2, table_equiv2 G0 k r1 r2 = true -> obs_equiv G C r1 r2.
Proof. exact table_equiv2_sound. Qed.
Print Assumptions C09_table_equiv2_sound.
(* every pair of c09_pairs (ALL the rule / reference-clause pairs dumped on this run) that the extended checker accepts *)
Theorem C09_alias_schemas2 :
  forall G C, noact_cfg C -> plain_table G -> table_wf G -> extends aliasC09_table G ->
  forall p, In p c09_decided2 -> obs_equiv G C (fst p) (snd p).
Proof. exact alias_schemas_equiv2. Qed.
Print Assumptions C09_alias_schemas2.

(* REFUTED as an equality of error POSITIONS (kind and raising rule agree): must< R > == sor< R, raise< R > >.
   must< seq< one<'a'>, one<'b'> > > on "ac": the rule raises for seq< a, b > at byte 1 (where the sub-rule, matched in
   optional mode, left the cursor), the documented expansion at byte 0 (sor rewinds its non-last alternative). *)
Definition mr_G : grammar :=
  [ mknode HMust [2]%nat false;                        (* 0 must< AB > *)
    mknode HSor [2; 3]%nat true;                       (* 1 sor< AB, raise< AB > > *)
    mknode HSeq [4; 5]%nat true;                       (* 2 AB = seq< one<'a'>, one<'b'> > *)
    mknode HRaise [2]%nat true;                        (* 3 raise< AB > *)
    mknode (HOne true PkChar [97%Z]) [] true;
    mknode (HOne true PkChar [98%Z]) [] true ].
Definition mr_C : cfg := mkcfg EolLfCrlf (fun _ _ => AKNone) (fun _ _ _ _ => ARet true) (fun _ _ _ => ARet true) (fun _ => true) (fun _ _ => false).
Theorem C09_must_position_refuted :
  exists p1 p2 c1 c2 e1 e2,
    eval mr_G mr_C 20 (mkdyn true true 0 0 0) 0%nat (mkcur [97; 99]%N pos0) = Res (Exc (EParse (WRule 2%nat) p1)) c1 e1 /\
    eval mr_G mr_C 20 (mkdyn true true 0 0 0) 1%nat (mkcur [97; 99]%N pos0) = Res (Exc (EParse (WRule 2%nat) p2)) c2 e2 /\
    pbyte p1 = 1%N /\ pbyte p2 = 0%N.
Proof. do 6 eexists. vm_compute. repeat split; reflexivity. Qed.
Print Assumptions C09_must_position_refuted.

(* non-vacuity: until< one<'b'>, seq< one<'a'>, one<'a'> > > (the body consumes before failing) and its expansion
   in one table; the hypotheses hold; on "aab" both succeed consuming 3, on "ab" both fail *)
Definition ex_G : grammar :=
  [ mknode HUntil2 [2; 3]%nat true;                    (* 0 until< B, AA > *)
    mknode HSeq [6; 2]%nat true;                       (* 1 seq< star< not_at< B >, AA >, B > *)
    mknode (HOne true PkChar [98%Z]) [] true;          (* 2 B = one<'b'> *)
    mknode HSeq [4; 4]%nat true;                       (* 3 AA = seq< one<'a'>, one<'a'> > *)
    mknode (HOne true PkChar [97%Z]) [] true;          (* 4 one<'a'> *)
    mknode HNotAt [2]%nat true;                        (* 5 not_at< B > *)
    mknode HStarPartial [7]%nat true;                  (* 6 star< seq< not_at< B >, AA > > *)
    mknode HSeq [5; 3]%nat false ].                    (* 7 internal::seq< not_at< B >, AA > *)
Definition ex_C : cfg := mkcfg EolLfCrlf (fun _ _ => AKNone) (fun _ _ _ _ => ARet true) (fun _ _ _ => ARet true) (fun _ => true) (fun _ _ => false).
Example C09_example :
  noact_cfg ex_C /\ plain_table ex_G /\ table_wf ex_G /\ obs_equiv ex_G ex_C 0%nat 1%nat /\
  (exists c' e1 e2, eval ex_G ex_C 30 (mkdyn true true 0 0 0) 0%nat (mkcur [97; 97; 98]%N pos0) = Res Ok c' e1 /\
                    eval ex_G ex_C 30 (mkdyn true true 0 0 0) 1%nat (mkcur [97; 97; 98]%N pos0) = Res Ok c' e2 /\ rest c' = []) /\
  (exists c' e1 e2, eval ex_G ex_C 30 (mkdyn true true 0 0 0) 0%nat (mkcur [97; 98]%N pos0) = Res Fail c' e1 /\
                    eval ex_G ex_C 30 (mkdyn true true 0 0 0) 1%nat (mkcur [97; 98]%N pos0) = Res Fail c' e2).
Proof.
  assert (HC : noact_cfg ex_C) by (split; intros; reflexivity).
  assert (HP : plain_table ex_G).
  { intros r nd H. do 8 (destruct r as [|r]; [simpl in H; inversion H; subst; simpl; split; [exact I | intros; discriminate]|]). destruct r; discriminate. }
  assert (HW : table_wf ex_G).
  { intros r nd H. do 8 (destruct r as [|r]; [simpl in H; inversion H; subst; exact I|]). destruct r; discriminate. }
  split; [exact HC|]. split; [exact HP|]. split; [exact HW|]. split.
  - apply (until2_table ex_G ex_C HC HP HW 0 1 2 3 6 7 5)%nat; eexists; (split; [reflexivity|]); split; reflexivity.
  - split; eexists; eexists; eexists; vm_compute; repeat split; reflexivity.
Qed.
Print Assumptions C09_example.

(* non-vacuity of round 2: rep_min_max< 1, 3, one<'a'> > and star_strict< one<'a'>, one<'b'> > with their expansions in one table *)
Definition ex2_G : grammar :=
  [ mknode (HRepMinMax 1 3) [6]%nat true;              (* 0 rep_min_max< 1, 3, A > *)
    mknode HSeq [2; 3; 4]%nat true;                    (* 1 seq< rep< 1, A >, rep_opt< 2, A >, not_at< A > > *)
    mknode (HRep 1) [6]%nat true;                      (* 2 *)
    mknode (HRepOpt 2) [6]%nat true;                   (* 3 *)
    mknode HNotAt [6]%nat true;                        (* 4 *)
    mknode HStarStrict [6; 7]%nat true;                (* 5 star_strict< A, B > *)
    mknode (HOne true PkChar [97%Z]) [] true;          (* 6 A = one<'a'> *)
    mknode (HOne true PkChar [98%Z]) [] true;          (* 7 B = one<'b'> *)
    mknode HSeq [9; 4]%nat true;                       (* 8 seq< star< A, B >, not_at< A > > *)
    mknode HStarPartial [10]%nat true;                 (* 9 star< seq< A, B > > *)
    mknode HSeq [6; 7]%nat false ].                    (* 10 internal::seq< A, B > *)
Example C09_example2 :
  noact_cfg ex_C /\ plain_table ex2_G /\ table_wf ex2_G /\ obs_equiv ex2_G ex_C 0%nat 1%nat /\ obs_equiv ex2_G ex_C 5%nat 8%nat /\
  (exists c' e1 e2, eval ex2_G ex_C 30 (mkdyn true true 0 0 0) 0%nat (mkcur [97; 97; 98]%N pos0) = Res Ok c' e1 /\
                    eval ex2_G ex_C 30 (mkdyn true true 0 0 0) 1%nat (mkcur [97; 97; 98]%N pos0) = Res Ok c' e2 /\ rest c' = [98%N]) /\
  (exists c' e1 e2, eval ex2_G ex_C 30 (mkdyn true true 0 0 0) 0%nat (mkcur [97; 97; 97; 97]%N pos0) = Res Fail c' e1 /\
                    eval ex2_G ex_C 30 (mkdyn true true 0 0 0) 1%nat (mkcur [97; 97; 97; 97]%N pos0) = Res Fail c' e2) /\
  (exists c' e1 e2, eval ex2_G ex_C 30 (mkdyn true true 0 0 0) 5%nat (mkcur [97; 98; 97; 98]%N pos0) = Res Ok c' e1 /\
                    eval ex2_G ex_C 30 (mkdyn true true 0 0 0) 8%nat (mkcur [97; 98; 97; 98]%N pos0) = Res Ok c' e2 /\ rest c' = []) /\
  (exists c' e1 e2, eval ex2_G ex_C 30 (mkdyn true true 0 0 0) 5%nat (mkcur [97; 98; 97]%N pos0) = Res Fail c' e1 /\
                    eval ex2_G ex_C 30 (mkdyn true true 0 0 0) 8%nat (mkcur [97; 98; 97]%N pos0) = Res Fail c' e2).
Proof.
  assert (HC : noact_cfg ex_C) by (split; intros; reflexivity).
  assert (HP : plain_table ex2_G).
  { intros r nd H. do 11 (destruct r as [|r]; [simpl in H; inversion H; subst; simpl; split; [exact I | intros; discriminate]|]). destruct r; discriminate. }
  assert (HW : table_wf ex2_G).
  { intros r nd H. do 11 (destruct r as [|r]; [simpl in H; inversion H; subst; exact I|]). destruct r; discriminate. }
  split; [exact HC|]. split; [exact HP|]. split; [exact HW|]. split; [|split].
  - apply (rep_min_max_table ex2_G ex_C HC HP HW 1 3 0 1 2 3 4 6)%nat; eexists; (split; [reflexivity|]); split; reflexivity.
  - apply (star_strict_table ex2_G ex_C HC HP HW 5 8 9 10 4 6 [7])%nat; eexists; (split; [reflexivity|]); split; reflexivity.
  - repeat split; eexists; eexists; eexists; vm_compute; repeat split; reflexivity.
Qed.
Print Assumptions C09_example2.

(* why C09_string is stated on byte inputs: on the model's alphabet N the element 353 (= 97 + 256, not a byte) is accepted by
   one<'a'> (which compares the decoded char) and rejected by string<'a'> (which compares raw elements).  A model artefact:
   the elements of a real input are bytes. *)
Definition sr_G : grammar :=
  [ mknode (HString [97%N]) [] true;                   (* 0 string<'a'> *)
    mknode HSeq [2]%nat true;                          (* 1 seq< one<'a'> > *)
    mknode (HOne true PkChar [97%Z]) [] true ].        (* 2 one<'a'> *)
Theorem C09_string_nonbyte_refuted :
  exists c1 c2 e1 e2,
    eval sr_G mr_C 20 (mkdyn true true 0 0 0) 0%nat (mkcur [353]%N pos0) = Res Fail c1 e1 /\
    eval sr_G mr_C 20 (mkdyn true true 0 0 0) 1%nat (mkcur [353]%N pos0) = Res Ok c2 e2.
Proof. do 4 eexists. vm_compute. split; reflexivity. Qed.
Print Assumptions C09_string_nonbyte_refuted.
