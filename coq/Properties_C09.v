(* Properties_C09.v — C09: convenience and contrib rules equal their documented expansions.
   Theorems only.  Setting: the engine model (Engine.v) on ARBITRARY grammar tables G that contain the
   node(s) of the convenience rule and the nodes of its documented expansion (Rule-Reference.md) over
   the same sub-rule ids — the sub-rules themselves are arbitrary entries of G (sub-rules that
   consume before failing, nullable ones, raising ones, recursive ones are points of the quantifier);
   configurations of the PEG formalism: no Action< Rule >, failure() does not raise (noact_cfg); tables
   without inline-action rules and with if_must< .. >'s second sub-rule being a must<> (plain_table: what
   the C++ templates can produce); every apply mode, rewind mode, family and fuel.
   obs_equiv G C r1 r2: whenever one of the two rules reaches a verdict (at any fuel, in any mode), the
   other reaches the same verdict (at some fuel, in any mode): same outcome kind, same cursor after
   success, same exception (raising rule and position), and after a local failure the same (restored)
   cursor when both run in required mode (refines_spec).  The event log is not compared.

   Proved here (heads with their own match()):  until< R, S > ; if_then_else ; if_must (both clauses) ;
   opt_must (both clauses, for the code after fix 6ab3c19) ; plus the generic lemmas: the verdict of any
   rule is independent of modes / families / fuel (C09_modes_irrelevant) and control-enabled nodes are
   transparent (hook visibility does not influence outcomes); the verified table bisimulation
   (C09_table_equiv_sound) and its application to the alias schemas regenerated through the compiler on
   every run (C09_alias_schemas: 45 rule/clause pairs).
   At behaviour level only (not yet lifted to tables): strict< R1, R2 >, rep_opt< Num, R > (all Num).
   NOT YET PROVED in Coq (they stay covered by the twin oracle of lib/props_c09.py, which runs the real
   library on the rule and on the expansion produced from the reference text): rep,
   rep_min_max, strict with 1 or 3+ rules, star_strict, star_partial/list_tail first clause, partial (2+ rules), plus ==
   rep_min< 1, .. >, until< R > == until< R, any >, must == sor< R, raise< R > > (differs in the error
   POSITION: must raises where the sub-rule left the cursor in optional mode, the expansion at the start),
   minus / rematch (prose), eolf, everything, string, identifier, keyword, shebang, ranges, contrib rules. *)
From PegtlV Require Import Base Decode Grammar Engine EngineFacts AtomFacts Mono Equiv EquivFacts EquivEval EquivHeads EquivTable EquivBisim EquivAlias.
From PegtlV.gen Require Import AliasC09_gen AliasC09Claims_gen.

(* the verdict of any rule does not depend on apply mode, rewind mode, action/control family, or fuel *)
Theorem C09_modes_irrelevant :
  forall G C, noact_cfg C -> plain_table G ->
  forall f1 f2, f1 <= f2 -> forall d1 d2 r c, Sim true (dM d1) (dM d2) (eval G C f1 d1 r c) (eval G C f2 d2 r c).
Proof. exact eval_sim. Qed.
Print Assumptions C09_modes_irrelevant.

(* what obs_equiv means *)
Theorem C09_refines_meaning :
  forall G C r1 r2, refines G C r1 r2 -> forall f d1 d2 c o c1 ev1, eval G C f d1 r1 c = Res o c1 ev1 ->
  exists f' c2 ev2, eval G C f' d2 r2 c = Res o c2 ev2 /\ (o = Ok -> c2 = c1) /\ (o = Fail -> dM d1 = true -> dM d2 = true -> c2 = c1).
Proof. exact refines_spec. Qed.
Print Assumptions C09_refines_meaning.

(* until< R, S... >  ==  seq< star< not_at< R >, S... >, R > *)
Theorem C09_until :
  forall G C, noact_cfg C -> plain_table G -> table_wf G ->
  forall r1 r2 cnd s st sq na,
    node G r1 HUntil2 [cnd; s] ->
    node G r2 HSeq [st; cnd] -> node G st HStarPartial [sq] -> node G sq HSeq [na; s] -> node G na HNotAt [cnd] ->
    obs_equiv G C r1 r2.
Proof. exact until2_table. Qed.
Print Assumptions C09_until.

(* if_then_else< R, S, T >  ==  sor< seq< R, S >, seq< not_at< R >, T > > *)
Theorem C09_if_then_else :
  forall G C, noact_cfg C -> plain_table G -> table_wf G ->
  forall r1 r2 cnd t e s1 s2 na,
    node G r1 HIfThenElse [cnd; t; e] ->
    node G r2 HSor [s1; s2] -> node G s1 HSeq [cnd; t] -> node G s2 HSeq [na; e] -> node G na HNotAt [cnd] ->
    obs_equiv G C r1 r2.
Proof. exact if_then_else_table. Qed.
Print Assumptions C09_if_then_else.

(* if_must< R, S... >  ==  seq< R, must< S... > >    (m, m': the internal and the public must< S... > node, leq = equivalent) *)
Theorem C09_if_must_seq :
  forall G C, noact_cfg C -> plain_table G -> table_wf G ->
  forall r1 r2 cnd m m', node G r1 (HIfMust false) [cnd; m] -> node G r2 HSeq [cnd; m'] -> leq G C m m' -> obs_equiv G C r1 r2.
Proof. exact if_must_seq_table. Qed.
Print Assumptions C09_if_must_seq.

(* if_must< R, S... >  ==  if_then_else< R, must< S... >, failure >   (dflt = false)
   opt_must< R, S... > ==  if_then_else< R, must< S... >, success >   (dflt = true) *)
Theorem C09_if_must_opt_must_ite :
  forall G C, noact_cfg C -> plain_table G -> table_wf G ->
  forall dflt r1 r2 cnd m m' x,
    node G r1 (HIfMust dflt) [cnd; m] -> node G r2 HIfThenElse [cnd; m'; x] -> node G x (if dflt then HSuccess else HFailure) [] ->
    leq G C m m' -> obs_equiv G C r1 r2.
Proof. exact if_must_ite_table. Qed.
Print Assumptions C09_if_must_opt_must_ite.

(* opt_must< R, S... >  ==  opt< if_must< R, S... > > *)
Theorem C09_opt_must_opt :
  forall G C, noact_cfg C -> plain_table G -> table_wf G ->
  forall r1 r2 im cnd m m', node G r1 (HIfMust true) [cnd; m] -> node G r2 HPartial [im] -> node G im (HIfMust false) [cnd; m'] ->
    leq G C m m' -> obs_equiv G C r1 r2.
Proof. exact opt_must_opt_table. Qed.
Print Assumptions C09_opt_must_opt.

(* behaviour level (closures = arbitrary sub-rule behaviours f, g with the same verdicts, cS; C02 for them, crest):
   strict< R1, R2 >  ==  sor< not_at< R1 >, seq< R1, R2 > >, both refinement directions *)
Theorem C09_strict2_impl_refines_doc :
  forall C f1 f2 g1 g2, cS f1 g1 -> cS f2 g2 -> crest f1 -> forall d1 d2 c,
    Sim false (dM d1) (dM d2) (c_strict C [f1; f2] d1 c) (c_sor C [c_not C g1; c_seq C [g1; g2]] d2 c).
Proof. exact strict2_A. Qed.
Print Assumptions C09_strict2_impl_refines_doc.
Theorem C09_strict2_doc_refines_impl :
  forall C f1 f2 g1 g2, cS f1 g1 -> cS f2 g2 -> cS f1 f1 -> crest g1 -> forall d1 d2 c,
    Sim false (dM d1) (dM d2) (c_sor C [c_not C f1; c_seq C [f1; f2]] d1 c) (c_strict C [g1; g2] d2 c).
Proof. exact strict2_B. Qed.
Print Assumptions C09_strict2_doc_refines_impl.

(* rep_opt< Num, R >  ==  rep< Num, opt< R > >  for ALL Num, both refinement directions (behaviour level) *)
Theorem C09_rep_opt_impl_refines_doc :
  forall C f g, cS f g -> crest f -> crest g -> forall k d1 d2 c,
    Sim false (dM d1) (dM d2) (c_rep_opt C k f d1 c) (c_rep C k (c_opt C g) d2 c).
Proof. exact rep_opt_A. Qed.
Print Assumptions C09_rep_opt_impl_refines_doc.
Theorem C09_rep_opt_doc_refines_impl :
  forall C f g, cS f g -> crest f -> crest g -> forall k d1 d2 c,
    Sim false (dM d1) (dM d2) (c_rep C k (c_opt C f) d1 c) (c_rep_opt C k g d2 c).
Proof. exact rep_opt_B. Qed.
Print Assumptions C09_rep_opt_doc_refines_impl.

(* the verified table bisimulation: structural equality up to hook visibility, or one of the expansions above at the root *)
Theorem C09_table_equiv_sound :
  forall G0 G C, noact_cfg C -> plain_table G -> table_wf G -> extends G0 G ->
  forall k r1 r2, table_equiv G0 k r1 r2 = true -> obs_equiv G C r1 r2.
Proof. exact table_equiv_sound. Qed.
Print Assumptions C09_table_equiv_sound.

(* the alias schemas of THIS run (impl side and reference clause, both dumped by the compiler from the current headers
   over opaque placeholders): every claimed pair is equivalent in every table extending the schema table.
   Decided today (c09_claimed): if_must (both clauses, 1-2 S), if_must_else, if_then_else, list (2,3), list_tail (2,3: second
   clause), minus, opt_must (both clauses, 1-2 S), pad (2,3), pad_opt, partial (1), star_must, until< R, S >, identifier,
   identifier_first/other, keyword, forty_two, ellipsis, alnum, alpha, xdigit, digit, rep< 0 >, rep_max 0..4, rep_min 0..4, rep_opt< 0 >. *)
Theorem C09_alias_schemas :
  forall G C, noact_cfg C -> plain_table G -> table_wf G -> extends aliasC09_table G ->
  forall p, In p c09_claimed -> obs_equiv G C (fst p) (snd p).
Proof. exact alias_schemas_equiv. Qed.
Print Assumptions C09_alias_schemas.
Theorem C09_alias_schemas_many : 40 <= length c09_claimed.
Proof. exact c09_claimed_many. Qed.
Print Assumptions C09_alias_schemas_many.

(* REFUTED as an equality of error POSITIONS (kind and raising rule agree): must< R > == sor< R, raise< R > >.
   must< seq< one<'a'>, one<'b'> > > on "ac": the rule raises for seq< a, b > at byte 1 (where the sub-rule, matched in
   optional mode, left the cursor), the documented expansion at byte 0 (sor rewinds its non-last alternative). *)
Definition mr_G : grammar :=
  [ mknode HMust [2]%nat false;                        (* 0 must< AB > *)
    mknode HSor [2; 3]%nat true;                       (* 1 sor< AB, raise< AB > > *)
    mknode HSeq [4; 5]%nat true;                       (* 2 AB = seq< one<'a'>, one<'b'> > *)
    mknode HRaise [2]%nat true;                        (* 3 raise< AB > *)
    mknode (HOne true PkChar [97%Z]) [] true;
    mknode (HOne true PkChar [98%Z]) [] true ].
Definition mr_C : cfg := mkcfg EolLfCrlf (fun _ _ => AKNone) (fun _ _ _ _ => ARet true) (fun _ _ _ => ARet true) (fun _ => true) (fun _ _ => false).
Theorem C09_must_position_refuted :
  exists p1 p2 c1 c2 e1 e2,
    eval mr_G mr_C 20 (mkdyn true true 0 0 0) 0%nat (mkcur [97; 99]%N pos0) = Res (Exc (EParse (WRule 2%nat) p1)) c1 e1 /\
    eval mr_G mr_C 20 (mkdyn true true 0 0 0) 1%nat (mkcur [97; 99]%N pos0) = Res (Exc (EParse (WRule 2%nat) p2)) c2 e2 /\
    pbyte p1 = 1%N /\ pbyte p2 = 0%N.
Proof. do 6 eexists. vm_compute. repeat split; reflexivity. Qed.
Print Assumptions C09_must_position_refuted.

(* non-vacuity: until< one<'b'>, seq< one<'a'>, one<'a'> > > (the body consumes before failing) and its expansion
   in one table; the hypotheses hold; on "aab" both succeed consuming 3, on "ab" both fail *)
Definition ex_G : grammar :=
  [ mknode HUntil2 [2; 3]%nat true;                    (* 0 until< B, AA > *)
    mknode HSeq [6; 2]%nat true;                       (* 1 seq< star< not_at< B >, AA >, B > *)
    mknode (HOne true PkChar [98%Z]) [] true;          (* 2 B = one<'b'> *)
    mknode HSeq [4; 4]%nat true;                       (* 3 AA = seq< one<'a'>, one<'a'> > *)
    mknode (HOne true PkChar [97%Z]) [] true;          (* 4 one<'a'> *)
    mknode HNotAt [2]%nat true;                        (* 5 not_at< B > *)
    mknode HStarPartial [7]%nat true;                  (* 6 star< seq< not_at< B >, AA > > *)
    mknode HSeq [5; 3]%nat false ].                    (* 7 internal::seq< not_at< B >, AA > *)
Definition ex_C : cfg := mkcfg EolLfCrlf (fun _ _ => AKNone) (fun _ _ _ _ => ARet true) (fun _ _ _ => ARet true) (fun _ => true) (fun _ _ => false).
Example C09_example :
  noact_cfg ex_C /\ plain_table ex_G /\ table_wf ex_G /\ obs_equiv ex_G ex_C 0%nat 1%nat /\
  (exists c' e1 e2, eval ex_G ex_C 30 (mkdyn true true 0 0 0) 0%nat (mkcur [97; 97; 98]%N pos0) = Res Ok c' e1 /\
                    eval ex_G ex_C 30 (mkdyn true true 0 0 0) 1%nat (mkcur [97; 97; 98]%N pos0) = Res Ok c' e2 /\ rest c' = []) /\
  (exists c' e1 e2, eval ex_G ex_C 30 (mkdyn true true 0 0 0) 0%nat (mkcur [97; 98]%N pos0) = Res Fail c' e1 /\
                    eval ex_G ex_C 30 (mkdyn true true 0 0 0) 1%nat (mkcur [97; 98]%N pos0) = Res Fail c' e2).
Proof.
  assert (HC : noact_cfg ex_C) by (split; intros; reflexivity).
  assert (HP : plain_table ex_G).
  { intros r nd H. do 8 (destruct r as [|r]; [simpl in H; inversion H; subst; simpl; split; [exact I | intros; discriminate]|]). destruct r; discriminate. }
  assert (HW : table_wf ex_G).
  { intros r nd H. do 8 (destruct r as [|r]; [simpl in H; inversion H; subst; exact I|]). destruct r; discriminate. }
  split; [exact HC|]. split; [exact HP|]. split; [exact HW|]. split.
  - apply (until2_table ex_G ex_C HC HP HW 0 1 2 3 6 7 5)%nat; eexists; (split; [reflexivity|]); split; reflexivity.
  - split; eexists; eexists; eexists; vm_compute; repeat split; reflexivity.
Qed.
Print Assumptions C09_example.
