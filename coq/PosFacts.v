(* PosFacts.v — C06: the eager position of every cursor the engine can reach is a function of the
   consumed bytes only: position = track (bytes consumed since the start cursor), where track is
   exactly what lazy tracking computes (internal::bump over the prefix).  Instance of the generic
   cursor invariant (EngineFacts.eval_good) with the position relation PTr. *)
From Coq Require Import Lia.
From PegtlV Require Import Base Decode Grammar Engine EngineFacts AtomFacts.
Local Open Scope N_scope.

(* lazy tracking: memory_input_base< lazy >::position( it ) = bump( begin, it - begin, Eol::ch ) *)
Definition track (ch : N) (p : pos) (bs : list byte) : pos := fold_left (bump1_pos ch) bs p.

Lemma track_app ch p a b : track ch p (a ++ b) = track ch (track ch p a) b.
Proof. unfold track. apply fold_left_app. Qed.

Section Pos.
Variable ch : N.
Definition PTr (p : pos) (pre : list byte) (q : pos) : Prop := q = track ch p pre.
Lemma PTr_refl p : PTr p [] p. Proof. reflexivity. Qed.
Lemma PTr_trans p a q b r : PTr p a q -> PTr q b r -> PTr p (a ++ b) r.
Proof. unfold PTr. intros -> ->. symmetry. apply track_app. Qed.

Lemma bump_scan_track n : forall c c', bump_scan ch n c = Some c' -> adv PTr c c'.
Proof.
  induction n as [|n IH]; intros c c' H; simpl in H.
  - inversion H; subst. apply adv_refl. exact PTr_refl.
  - destruct (rest c) as [|b tl] eqn:E; [discriminate|]. apply IH in H. destruct H as [pre [H1 H2]].
    exists (b :: pre). simpl in *. rewrite E, H1. split; [reflexivity|]. unfold PTr in *. rewrite H2. reflexivity.
Qed.

(* bump_in_this_line is right when none of the skipped bytes is the eol character *)
Lemma track_no_ch pre : forall p, Forall (fun b => b <> ch) pre ->
  track ch p pre = mkpos (pbyte p + N.of_nat (length pre)) (pline p) (pcol p + N.of_nat (length pre)).
Proof.
  induction pre as [|b pre IH]; intros p H; simpl.
  - rewrite !N.add_0_r. destruct p; reflexivity.
  - inversion H as [|? ? Hb Hp]; subst. unfold track in *. simpl. unfold bump1_pos at 2.
    destruct (N.eqb_spec b ch) as [E|E]; [contradiction|]. rewrite (IH _ Hp). simpl. f_equal; lia.
Qed.
Lemma bump_in_line_track n c c' : bump_in_line n c = Some c' ->
  (forall pre tl, rest c = pre ++ tl -> length pre = n -> Forall (fun b => b <> ch) pre) -> adv PTr c c'.
Proof.
  unfold bump_in_line. destruct (drop n (rest c)) as [tl|] eqn:E; [|discriminate]. intros H Hn. inversion H; subst.
  apply drop_app in E. destruct E as [pre [E L]]. exists pre. simpl. split; [exact E|].
  unfold PTr. rewrite (track_no_ch pre (cpos c) (Hn pre tl E L)). unfold byte in *. rewrite L. reflexivity.
Qed.
End Pos.

(* ---------- which heads keep eager and lazy tracking in step ---------- *)
Definition pk_tracked (pk : peek) : bool := match pk with PkChar | PkUtf8 | PkUint8 => true | _ => false end.
Definition head_tracked (eol : eolp) (h : head) : bool :=
  match h with
  | HOne _ pk _ | HRange _ pk _ _ | HRanges pk _ => pk_tracked pk
  | HAny pk => match pk with PkUint _ _ | PkMaskUint _ _ _ => false | _ => true end
  | HEol | HEolf => match eol with EolCrCrlf => false | _ => true end
  | _ => true
  end.
