(* Integer.v — executable model of tao/pegtl/contrib/integer.hpp (property C15).
   Model file: definitions only (proofs live in IntegerFacts.v).

   Conventions
   * a machine integer of width w is its bit pattern, an N below 2^w (pow2 w); every C++ statement
     that can wrap has the reduction `mod pow2 w` written out; a Signed value is obtained from its
     pattern with to_signed (two's complement);
   * `char` is signed (Base.schar); the comparisons of is_digit and the subtraction digit - '0'
     are done on that signed value, exactly as in the C++;
   * the match functions are written against the input API of Base.v: in_empty, in_size,
     peek_at (None = the read leaves [current,end) and becomes the explicit result MOob),
     bump_in_line (None = bump beyond the end, also MOob);
   * loops recurse structurally on a fuel list that the callers instantiate with the remaining
     input `rest c` (every iteration moves one byte forward, so that is always enough; running
     out of it would mean the cursor is beyond the end and is reported as MOob);
   * results keep the cursor where the code leaves it (also on local failure and on exceptions)
     and the content of the state variable the rule/action wrote to. *)
From PegtlV Require Import Base.
Local Open Scope N_scope.

Definition pow2 (w : nat) : N := 2 ^ N.of_nat w.

(* ------------------------------------------------------------------ digits and accumulation *)

(* internal::is_digit( const char c ):  ( '0' <= c ) && ( c <= '9' ) *)
Definition is_digit (b : byte) : bool := ((48 <=? schar b) && (schar b <=? 57))%Z.

(* const Integer c = digit - '0';   int arithmetic, then conversion to the w-bit Integer *)
Definition digit_value (w : nat) (b : byte) : N :=
  Z.to_N ((schar b - 48) mod Z.of_N (pow2 w)).

(* accumulate_digit< Integer, Maximum >( result, digit ); c is the already converted digit.
   None = `return false` (result untouched); Some r' = `return true` with the new result.
   The test comes BEFORE the multiplication; `result *= 10; result += c;` are two wrapping
   statements on the w-bit type. *)
Definition accumulate_digit (w : nat) (Max r c : N) : option N :=
  let cutoff := Max / 10 in
  let cutlim := Max mod 10 in
  if (cutoff <? r) || ((r =? cutoff) && (cutlim <? c)) then None
  else Some ((((r * 10) mod pow2 w) + c) mod pow2 w).

(* accumulate_digits< Integer, Maximum >( result, input ): (returned bool, final content of result) *)
Fixpoint accumulate_digits (w : nat) (Max r : N) (ds : list byte) : bool * N :=
  match ds with
  | [] => (true, r)
  | d :: tl => match accumulate_digit w Max r (digit_value w d) with
               | None => (false, r)
               | Some r' => accumulate_digits w Max r' tl
               end
  end.

(* "Assumes result == 0": every caller in the header zeroes the variable first; the model fixes it. *)
Definition convert_positive (w : nat) (Max : N) (ds : list byte) : bool * N := accumulate_digits w Max 0 ds.
Definition convert_unsigned (w : nat) (Max : N) (ds : list byte) : bool * N := accumulate_digits w Max 0 ds.

(* two's complement view of a w-bit pattern; numeric_limits< Signed >::max() *)
Definition to_signed (w : nat) (u : N) : Z :=
  if u <? pow2 (w - 1) then Z.of_N u else (Z.of_N u - Z.of_N (pow2 w))%Z.
Definition smax (w : nat) : N := pow2 (w - 1) - 1.
Definition lnot_w (w : nat) (u : N) : N := pow2 w - 1 - u.          (* ~u on w bits *)

(* convert_positive< Signed >: accumulates in the Signed variable itself, Maximum = max() *)
Definition convert_positive_signed (w : nat) (ds : list byte) : bool * Z :=
  let '(ok, r) := convert_positive w (smax w) ds in (ok, to_signed w r).

(* convert_negative< Signed >:
     constexpr Unsigned maximum = static_cast< Unsigned >( max() ) + 1;
     Unsigned temporary = 0;
     if( accumulate_digits< Unsigned, maximum >( temporary, input ) ) {
        result = static_cast< Signed >( ~temporary + 1 );  return true; }
     return false;                                          (result stays 0) *)
Definition convert_negative (w : nat) (ds : list byte) : bool * Z :=
  let maximum := (smax w + 1) mod pow2 w in
  match accumulate_digits w maximum 0 ds with
  | (true, t) => (true, to_signed w ((lnot_w w t + 1) mod pow2 w))
  | (false, _) => (false, 0%Z)
  end.

(* convert_signed< Signed >( result, input ); None = input[ 0 ] on an empty view (outside the
   contract, an out-of-bounds read) *)
Definition convert_signed (w : nat) (inp : list byte) : option (bool * Z) :=
  match inp with
  | [] => None
  | b :: tl =>
      if b =? 45 then Some (convert_negative w tl)
      else if b =? 43 then Some (convert_positive_signed w tl)       (* offset = 1 *)
      else Some (convert_positive_signed w inp)                      (* offset = 0 *)
  end.

(* ------------------------------------------------------------------ rule results *)

Inductive ovf := OvfInteger | OvfUnsigned | OvfSigned.
  (* parse_error "integer overflow" / "unsigned integer overflow" / "signed integer overflow" *)

Inductive mres (S : Type) : Type :=
| MOk (c : cursor) (st : S)                              (* true *)
| MFail (c : cursor) (st : S)                            (* false, cursor where the code leaves it *)
| MExc (k : ovf) (epos : pos) (c : cursor) (st : S)      (* parse_error k at epos; cursor after unwinding *)
| MOob.                                                  (* read or bump outside [current,end) *)
Arguments MOk {S} c st.
Arguments MFail {S} c st.
Arguments MExc {S} k epos c st.
Arguments MOob {S}.

Definition bump_ok {S : Type} (n : nat) (c : cursor) (st : S) : mres S :=
  match bump_in_line n c with None => MOob | Some c' => MOk c' st end.

(* the shared '0' branch:
     if( ( in.size( 2 ) < 2 ) || ( !is_digit( in.peek_char( 1 ) ) ) ) { in.bump_in_this_line(); return true; }
     return false; *)
Definition zero_case {S : Type} (c : cursor) (st : S) : mres S :=
  if (in_size c <? 2)%nat then bump_ok 1 c st
  else match peek_at c 1 with
       | None => MOob
       | Some c1 => if negb (is_digit c1) then bump_ok 1 c st else MFail c st
       end.

(* ------------------------------------------------------------------ match_unsigned *)

(* while( ( !in.empty() ) && is_digit( in.peek_char() ) ) { in.bump_in_this_line(); } *)
Fixpoint skip_digits (fuel : list byte) (c : cursor) : option cursor :=
  if in_empty c then Some c
  else match peek_at c 0 with
       | None => None
       | Some ch =>
           if is_digit ch then
             match bump_in_line 1 c with
             | None => None
             | Some c' => match fuel with [] => None | _ :: fuel' => skip_digits fuel' c' end
             end
           else Some c
       end.

Definition match_unsigned {S : Type} (c : cursor) (st : S) : mres S :=
  if in_empty c then MFail c st
  else match peek_at c 0 with
       | None => MOob
       | Some ch =>
           if is_digit ch then
             if ch =? 48 then zero_case c st
             else match bump_in_line 1 c with
                  | None => MOob
                  | Some c' => match skip_digits (rest c') c' with
                               | None => MOob
                               | Some c'' => MOk c'' st
                               end
                  end
           else MFail c st
       end.

(* ------------------------------------------------------------------ ..._with_maximum_throws *)

(* do { if( !accumulate_digit< Unsigned, Maximum >( st, c ) ) throw parse_error( "integer overflow", in );
        in.bump_in_this_line();
   } while( ( !in.empty() ) && is_digit( c = in.peek_char() ) );
   return true; *)
Fixpoint throws_loop (fuel : list byte) (w : nat) (Max : N) (c : cursor) (st : N) (ch : byte) : mres N :=
  match accumulate_digit w Max st (digit_value w ch) with
  | None => MExc OvfInteger (cpos c) c st
  | Some st' =>
      match bump_in_line 1 c with
      | None => MOob
      | Some c' =>
          if in_empty c' then MOk c' st'
          else match peek_at c' 0 with
               | None => MOob
               | Some ch' =>
                   if is_digit ch' then
                     match fuel with [] => MOob | _ :: fuel' => throws_loop fuel' w Max c' st' ch' end
                   else MOk c' st'
               end
      end
  end.

(* match_and_convert_unsigned_with_maximum_throws< ParseInput, Unsigned, Maximum >( in, st ) *)
Definition match_throws (w : nat) (Max : N) (c : cursor) (st : N) : mres N :=
  if in_empty c then MFail c st
  else match peek_at c 0 with
       | None => MOob
       | Some ch =>
           if is_digit ch then
             if ch =? 48 then zero_case c st
             else throws_loop (rest c) w Max c st ch
           else MFail c st
       end.

(* ------------------------------------------------------------------ ..._with_maximum_nothrow *)

(* unsigned b = 0;
   do { if( !accumulate_digit< Unsigned, Maximum >( st, c ) ) return false;
        ++b;
   } while( ( in.size( b + 1 ) > b ) && is_digit( c = in.peek_char( b ) ) );
   in.bump_in_this_line( b );  return true;
   (b is the value before ++b; `unsigned` does not wrap below 2^32 digits) *)
Fixpoint nothrow_loop (fuel : list byte) (w : nat) (Max : N) (c : cursor) (st : N) (ch : byte) (b : nat) : mres N :=
  match accumulate_digit w Max st (digit_value w ch) with
  | None => MFail c st
  | Some st' =>
      let b' := S b in
      if (b' <? in_size c)%nat then
        match peek_at c b' with
        | None => MOob
        | Some ch' =>
            if is_digit ch' then
              match fuel with [] => MOob | _ :: fuel' => nothrow_loop fuel' w Max c st' ch' b' end
            else bump_ok b' c st'
        end
      else bump_ok b' c st'
  end.

(* match_and_convert_unsigned_with_maximum_nothrow: tests c == '0' before is_digit( c ) *)
Definition match_nothrow (w : nat) (Max : N) (c : cursor) (st : N) : mres N :=
  if in_empty c then MFail c st
  else match peek_at c 0 with
       | None => MOob
       | Some ch =>
           if ch =? 48 then zero_case c st
           else if is_digit ch then nothrow_loop (rest c) w Max c st ch 0
           else MFail c st
       end.

(* ------------------------------------------------------------------ signed_rule_new *)

(* internal::one< success, peek_char, Cs... >::match and ascii::digit = internal::range< '0', '9' >:
     if( const auto t = peek_char::peek( in ) )        -- in.empty() ? {0,0} : { in.peek_char(), 1 }
        if( test_one( t.data ) ) { bump_help( in, 1 ); return true; }      -- bump_in_this_line( 1 )
     return false; *)
Definition m_atom (test : byte -> bool) (c : cursor) : option (option cursor) :=
  (* None = out of bounds; Some None = false (cursor untouched); Some (Some c') = true *)
  if in_empty c then Some None
  else match peek_at c 0 with
       | None => None
       | Some ch => if test ch then match bump_in_line 1 c with None => None | Some c' => Some (Some c') end
                    else Some None
       end.
Definition m_one (cs : list byte) : cursor -> option (option cursor) := m_atom (fun ch => existsb (N.eqb ch) cs).
Definition m_digit : cursor -> option (option cursor) := m_atom is_digit.

(* plus< digit > after its first successful iteration: while( digit::match( in ) ) {} *)
Fixpoint star_digit (fuel : list byte) (c : cursor) : option cursor :=
  match m_digit c with
  | None => None
  | Some None => Some c
  | Some (Some c') => match fuel with [] => None | _ :: fuel' => star_digit fuel' c' end
  end.

(* signed_rule_new = seq< opt< one< '-', '+' > >,
                          if_then_else< one< '0' >, not_at< digit >, plus< digit > > >
   evaluated by parse< signed_rule_new, ..., rewind_mode::required >( in ), read off the
   combinators' match() bodies:
   * seq with two sub-rules takes a rewind guard (required): the cursor `c0` is saved and put back
     if the sequence fails, the sub-rules run with rewind_mode::optional;
   * opt< one<...> > = partial: tries one<'-','+'> (atomic, consumes one byte or nothing), always true;
   * if_then_else (optional => no guard of its own): Cond = one<'0'>;
       matched  -> not_at< digit >: saves, runs digit, always restores, result negated;
       otherwise-> plus< digit >: digit once, then digit until it fails;
   * a failing branch leaves the cursor after the sign / the zero, and the guard of seq restores
     `c0`; that is the MFail c0 below.  (With the pre-fix default rewind_mode::optional there was no
     guard and the failure left the cursor advanced.) *)

(* the if_then_else part, started at c1, inside the seq whose guard saved c0 *)
Definition signed_ite {S : Type} (c0 c1 : cursor) (st : S) : mres S :=
  match m_one [48] c1 with
  | None => MOob
  | Some (Some c2) =>                                   (* Then: not_at< digit > *)
      match m_digit c2 with
      | None => MOob
      | Some (Some _) => MFail c0 st
      | Some None => MOk c2 st
      end
  | Some None =>                                        (* Else: plus< digit > *)
      match m_digit c1 with
      | None => MOob
      | Some None => MFail c0 st
      | Some (Some c2) => match star_digit (rest c2) c2 with
                          | None => MOob
                          | Some c3 => MOk c3 st
                          end
      end
  end.

Definition match_signed_new {S : Type} (c : cursor) (st : S) : mres S :=
  match m_one [45; 43] c with                           (* opt< one< '-', '+' > > *)
  | None => MOob
  | Some (Some c1) => signed_ite c c1 st
  | Some None => signed_ite c c st
  end.

(* ------------------------------------------------------------------ actions through match.hpp *)

(* bytes between two cursors of the same input: the action_input handed to apply() *)
Definition span_of (c c' : cursor) : list byte :=
  firstn (length (rest c) - length (rest c')) (rest c).

(* match.hpp for a rule whose Action has apply(): rewind guard (required) around the rule, on
   success apply( action_input( begin, in ), st ); an exception thrown by apply() is positioned
   at the begin of the match and the guard's destructor restores the cursor to `c`.
   act: the action body; None = it read outside its view. *)
Definition with_action {S : Type} (rule : cursor -> S -> mres S) (k : ovf)
           (act : list byte -> option (bool * S)) (c : cursor) (st : S) : mres S :=
  match rule c st with
  | MOk c' st' =>
      match act (span_of c c') with
      | None => MOob
      | Some (true, v) => MOk c' v
      | Some (false, v) => MExc k (cpos c) c v
      end
  | r => r
  end.

(* unsigned_action::apply / maximum_action< Unsigned, Maximum >::apply:
     st = 0; if( !convert_unsigned< Unsigned, Maximum >( st, in.string_view() ) ) throw parse_error( "unsigned integer overflow", in ); *)
Definition unsigned_action (w : nat) (Max : N) (sv : list byte) : option (bool * N) := Some (convert_unsigned w Max sv).
(* signed_action::apply:  st = 0; if( !convert_signed( st, in.string_view() ) ) throw parse_error( "signed integer overflow", in ); *)
Definition signed_action (w : nat) (sv : list byte) : option (bool * Z) := convert_signed w sv.

(* ------------------------------------------------------------------ the six rules *)

Definition umax (w : nat) : N := pow2 w - 1.                   (* numeric_limits< Unsigned >::max() *)
Definition keep_state {S : Type} (st : S) (r : mres N) : mres S :=
  match r with
  | MOk c _ => MOk c st | MFail c _ => MFail c st | MExc k p c _ => MExc k p c st | MOob => MOob
  end.

(* unsigned_rule::match( in ) *)
Definition unsigned_rule {S : Type} (c : cursor) (st : S) : mres S := match_unsigned c st.

(* unsigned_rule_with_action::match< A, ... >:  A == nothing: match_unsigned( in );
   A == action (state Unsigned& st of width w):  st = 0; match_and_convert_unsigned_with_maximum_throws( in, st ) *)
Definition unsigned_rule_with_action (act : bool) (w : nat) (c : cursor) (st : N) : mres N :=
  if act then match_throws w (umax w) c 0 else match_unsigned c st.

(* maximum_rule< Unsigned, Maximum >::match( in ):  Unsigned st = 0 (local); nothrow *)
Definition maximum_rule {S : Type} (w : nat) (Max : N) (c : cursor) (st : S) : mres S :=
  keep_state st (match_nothrow w Max c 0).

(* maximum_rule_with_action< Unsigned, Maximum >::match< A, ... >: both overloads use the throwing
   function; with A == nothing on a local variable, with A == action on the state (st = 0 first) *)
Definition maximum_rule_with_action (act : bool) (w : nat) (Max : N) (c : cursor) (st : N) : mres N :=
  if act then match_throws w Max c 0 else keep_state st (match_throws w Max c 0).

(* signed_rule::match( in ) = parse< signed_rule_new, nothing, normal, action, required >( in ) *)
Definition signed_rule {S : Type} (c : cursor) (st : S) : mres S := match_signed_new c st.

(* signed_rule_with_action::match< A, ... >:  A == nothing: as signed_rule;
   A == action: parse< signed_rule_new, signed_action_action, ..., required >( in, st ) *)
Definition signed_rule_with_action (act : bool) (w : nat) (c : cursor) (st : Z) : mres Z :=
  if act then with_action match_signed_new OvfSigned (signed_action w) c st
  else match_signed_new c st.

(* the plain rules with the shipped actions attached through the Action template parameter *)
Definition unsigned_rule_unsigned_action (w : nat) (Max : N) : cursor -> N -> mres N :=
  with_action unsigned_rule OvfUnsigned (unsigned_action w Max).
Definition maximum_rule_maximum_action (w : nat) (Max : N) : cursor -> N -> mres N :=
  with_action (maximum_rule w Max) OvfUnsigned (unsigned_action w Max).
Definition signed_rule_signed_action (w : nat) : cursor -> Z -> mres Z :=
  with_action signed_rule OvfSigned (signed_action w).
