(* Extract.v — extraction of the executable model (ExtrOcamlBasic only; numbers stay Coq's
   positive/N/Z/nat inductives). *)
From PegtlV Require Import Base Decode Grammar Engine Spec Denote.
From Coq Require Import Extraction ExtrOcamlBasic.
Extraction Language OCaml.
Extraction "pegtlv.ml" eval run N.add N.mul peg_fn structure_tie.
